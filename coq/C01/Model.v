(* C01 -- selections form a faithful Boolean algebra over membership masks.
   Executable model, definitions only.

   [expr]/[eval]     the specification: Boolean expression trees over leaf masks, evaluated elementwise.
   [nexpr]/[eval_heap]
                     the implementation-shaped evaluator (glue/core/subset.py): every state object has an
                     identity, every to_mask result is an array living at an address of a heap, the classes
                     whose to_mask carries @memoize go through the memo store (glue/core/decorators.py),
                     CompositeSubsetState/InvertState allocate their result, MultiOrState copies the first
                     child's mask and ors the others into it IN PLACE.
   [apply_mode]      the edit modes of glue/core/edit_subset_mode.py.
   [ncopy]           SubsetState.copy() : composites copy their children, MultiOrState shares them.
   [run_case]        wire entry point. *)
From Coq Require Import ZArith List Bool Arith.
Import ListNotations.
From GV Require Import Common.Wire gen.Gen_memo C01.Heap.
From GV Require gen.Gen_combine.
Close Scope Z_scope.

(* ------------------------------------------------------------------ specification *)
Inductive expr : Type :=
| Leaf (n : nat)
| And (a b : expr)
| Or (a b : expr)
| Xor (a b : expr)
| Not (a : expr)
| MultiOr (l : list expr).

(* elementwise evaluation over the membership masks of the parts *)
Fixpoint eval (lm : nat -> mask) (e : expr) : mask :=
  match e with
  | Leaf n => lm n
  | And a b => map2 andb (eval lm a) (eval lm b)
  | Or a b => map2 orb (eval lm a) (eval lm b)
  | Xor a b => map2 xorb (eval lm a) (eval lm b)
  | Not a => map negb (eval lm a)
  | MultiOr l =>
    match map (eval lm) l with
    | [] => []                       (* MultiOrState([]) raises ValueError: excluded by [wf] *)
    | m :: ms => fold_left (map2 orb) ms m
    end
  end.

(* the same expression read as a Boolean formula about one element *)
Fixpoint evalb (env : nat -> bool) (e : expr) : bool :=
  match e with
  | Leaf n => env n
  | And a b => evalb env a && evalb env b
  | Or a b => evalb env a || evalb env b
  | Xor a b => xorb (evalb env a) (evalb env b)
  | Not a => negb (evalb env a)
  | MultiOr l => existsb (evalb env) l
  end.

(* every n-ary or has at least one child (the constructor enforces it) *)
Fixpoint wf (e : expr) : Prop :=
  match e with
  | Leaf _ => True
  | And a b | Or a b | Xor a b => wf a /\ wf b
  | Not a => wf a
  | MultiOr l => l <> [] /\ (fix all (l : list expr) : Prop := match l with [] => True | c :: t => wf c /\ all t end) l
  end.

Fixpoint wfb (e : expr) : bool :=
  match e with
  | Leaf _ => true
  | And a b | Or a b | Xor a b => wfb a && wfb b
  | Not a => wfb a
  | MultiOr l => match l with [] => false | _ => forallb wfb l end
  end.

(* ------------------------------------------------------------------ edit modes *)
Inductive mode := MReplace | MAnd | MOr | MXor | MAndNot | MNew.

(* new state of the edit subset (glue/core/edit_subset_mode.py:113-150); NewMode makes a new subset with [new] *)
Definition apply_mode (m : mode) (old new : expr) : expr :=
  match m with
  | MReplace => new
  | MNew => new
  | MAnd => And new old
  | MOr => Or new old
  | MXor => Xor new old
  | MAndNot => And old (Not new)
  end.

(* the same on masks *)
Definition mode_mask (m : mode) (old new : mask) : mask :=
  match m with
  | MReplace => new
  | MNew => new
  | MAnd => map2 andb new old
  | MOr => map2 orb new old
  | MXor => map2 xorb new old
  | MAndNot => map2 andb old (map negb new)
  end.

Definition apply_modes (s0 : expr) (ops : list (mode * expr)) : expr :=
  fold_left (fun s mo => apply_mode (fst mo) s (snd mo)) ops s0.

(* ------------------------------------------------------------------ implementation-shaped evaluator *)
Inductive binop := BAnd | BOr | BXor.
Definition bop (o : binop) : bool -> bool -> bool :=
  match o with BAnd => andb | BOr => orb | BXor => xorb end.

(* a state object: identity, the function cache its to_mask goes through (None: not memoised), children *)
Inductive nexpr : Type :=
| NLeaf (id : nat) (fn : option nat) (n : nat)
| NBin (id : nat) (fn : option nat) (op : binop) (a b : nexpr)
| NNot (id : nat) (fn : option nat) (a : nexpr)
| NMulti (id : nat) (fn : option nat) (l : list nexpr).

Definition nid (e : nexpr) : nat :=
  match e with NLeaf i _ _ | NBin i _ _ _ _ | NNot i _ _ | NMulti i _ _ => i end.

Fixpoint erase (e : nexpr) : expr :=
  match e with
  | NLeaf _ _ n => Leaf n
  | NBin _ _ BAnd a b => And (erase a) (erase b)
  | NBin _ _ BOr a b => Or (erase a) (erase b)
  | NBin _ _ BXor a b => Xor (erase a) (erase b)
  | NNot _ _ a => Not (erase a)
  | NMulti _ _ l => MultiOr (map erase l)
  end.

(* how the view argument reaches to_mask (three different memo keys, see Heap.key) *)
Definition FKW : nat := 0.    (* to_mask(data, view=view)  -- Data.get_mask, MultiOrState's children *)
Definition FPOS : nat := 1.   (* to_mask(data, view)       -- children of And/Or/Xor/Invert *)
Definition FNONE : nat := 2.  (* to_mask(data)             -- a direct call without view *)

Definition salloc (st : state) (m : mask) : state * addr :=
  let '(h, a) := halloc (st_heap st) m in (mkstate h (st_memo st), a).
Definition sget (st : state) (a : addr) : mask := hget (st_heap st) a.

(* the @memoize wrapper: hashable key -> look up, else compute and remember; unhashable key -> just compute *)
Definition with_memo (hk : bool) (fn : option nat) (id d v form : nat)
           (compute : state -> state * addr) (st : state) : state * addr :=
  match fn with
  | Some f =>
    if hk then
      let k := mkkey f id d v form in
      match mlookup k (st_memo st) with
      | Some a => (st, a)
      | None => let '(st', a) := compute st in (mkstate (st_heap st') (mstore k a (st_memo st')), a)
      end
    else compute st
  | None => compute st
  end.

Section EvalHeap.
  (* fresh mask of leaf n on data d under view v (what the leaf's own to_mask computes) *)
  Variable lm : nat -> nat -> nat -> mask.
  (* does MultiOrState.to_mask copy the first child's mask before the in-place or?  (Gen_memo: detail of MultiOrState) *)
  Variable mcopy : bool.
  (* is the view hashable (None, slices, tuples) or not (index arrays): unhashable keys bypass the memo *)
  Variable hk : bool.
  Variable d v : nat.

  Fixpoint eval_heap (form : nat) (e : nexpr) (st : state) : state * addr :=
    match e with
    | NLeaf id fn n =>
      with_memo hk fn id d v form (fun st => salloc st (lm n d v)) st
    | NBin id fn op a b =>
      with_memo hk fn id d v form (fun st =>
        let '(st1, x) := eval_heap FPOS a st in
        let '(st2, y) := eval_heap FPOS b st1 in
        salloc st2 (map2 (bop op) (sget st2 x) (sget st2 y))) st
    | NNot id fn a =>
      with_memo hk fn id d v form (fun st =>
        let '(st1, x) := eval_heap FPOS a st in
        salloc st1 (map negb (sget st1 x))) st
    | NMulti id fn l =>
      with_memo hk fn id d v form (fun st =>
        match l with
        | [] => salloc st []
        | c0 :: cs =>
          let '(st0, x0) := eval_heap FKW c0 st in
          let '(st1, r) := if mcopy then salloc st0 (sget st0 x0) else (st0, x0) in
          (fold_left (fun s c =>
                        let '(s', y) := eval_heap FKW c s in
                        mkstate (hior (st_heap s') r y) (st_memo s')) cs st1, r)
        end) st
    end.
End EvalHeap.

(* one evaluation request: Data.get_mask / Subset.to_mask / state.to_mask on (data, view) *)
Record req := mkreq { r_d : nat; r_v : nat; r_hk : bool; r_form : nat; r_e : nexpr }.

Definition eval_req (lm : nat -> nat -> nat -> mask) (mcopy : bool) (r : req) (st : state) : state * addr :=
  eval_heap lm mcopy (r_hk r) (r_d r) (r_v r) (r_form r) (r_e r) st.

Definition run_reqs (lm : nat -> nat -> nat -> mask) (mcopy : bool) (rs : list req) (st : state) : state :=
  fold_left (fun s r => fst (eval_req lm mcopy r s)) rs st.

(* ------------------------------------------------------------------ specification of the heap evaluator *)
(* [den i d v] : what the state object with identity i denotes on data d under view v.
   A memo store is coherent when every entry points at a live array holding the denotation of its key. *)
Definition coherent (den : nat -> nat -> nat -> mask) (st : state) : Prop :=
  forall k a, mlookup k (st_memo st) = Some a ->
    a < length (st_heap st) /\ hget (st_heap st) a = den (k_id k) (k_d k) (k_v k).

(* identities are used consistently: every object of the tree denotes the elementwise evaluation of the
   expression it stands for (one identity never stands for two different selections) *)
Fixpoint sem_ok (den : nat -> nat -> nat -> mask) (lm : nat -> nat -> nat -> mask) (d v : nat) (e : nexpr) : Prop :=
  den (nid e) d v = eval (fun n => lm n d v) (erase e) /\
  match e with
  | NLeaf _ _ _ => True
  | NBin _ _ _ a b => sem_ok den lm d v a /\ sem_ok den lm d v b
  | NNot _ _ a => sem_ok den lm d v a
  | NMulti _ _ l =>
    (fix all (l : list nexpr) : Prop := match l with [] => True | c :: t => sem_ok den lm d v c /\ all t end) l
  end.

(* cache entries are never redirected: an entry of the new store is an old entry or points at a new array *)
Definition memo_mono (st st' : state) : Prop :=
  forall k a, mlookup k (st_memo st') = Some a ->
    mlookup k (st_memo st) = Some a \/ length (st_heap st) <= a.

Definition req_ok (den : nat -> nat -> nat -> mask) (lm : nat -> nat -> nat -> mask) (N : nat -> nat -> nat) (r : req) : Prop :=
  sem_ok den lm (r_d r) (r_v r) (r_e r) /\ wf (erase (r_e r)) /\
  (forall n, length (lm n (r_d r) (r_v r)) = N (r_d r) (r_v r)).

(* ------------------------------------------------------------------ copy() and the edit modes on objects *)
(* SubsetState.copy(): a leaf copy is a new object; a composite builds type(self)(state1, state2) whose
   constructor copies both operands; MultiOrState.copy() is type(self)(self.states): the children are SHARED. *)
Fixpoint ncopy (e : nexpr) (next : nat) : nexpr * nat :=
  match e with
  | NLeaf _ fn n => (NLeaf next fn n, S next)
  | NBin _ fn op a b =>
    let '(a', k1) := ncopy a (S next) in
    let '(b', k2) := ncopy b k1 in
    (NBin next fn op a' b', k2)
  | NNot _ fn a =>
    let '(a', k1) := ncopy a (S next) in (NNot next fn a', k1)
  | NMulti _ fn l => (NMulti next fn l, S next)
  end.

(* the function caches of the composite classes, as read from the class table *)
Record ccfg := mkccfg { f_and : option nat; f_or : option nat; f_xor : option nat; f_not : option nat }.

(* state1 & state2 : AndState(state1, state2), the constructor copies both *)
Definition nbin (c : ccfg) (op : binop) (a b : nexpr) (next : nat) : nexpr * nat :=
  let '(a', k1) := ncopy a (S next) in
  let '(b', k2) := ncopy b k1 in
  (NBin next (match op with BAnd => f_and c | BOr => f_or c | BXor => f_xor c end) op a' b', k2).
Definition nnot (c : ccfg) (a : nexpr) (next : nat) : nexpr * nat :=
  let '(a', k1) := ncopy a (S next) in (NNot next (f_not c) a', k1).

Definition napply_mode (c : ccfg) (m : mode) (old new : nexpr) (next : nat) : nexpr * nat :=
  match m with
  | MReplace | MNew => ncopy new next
  | MAnd => nbin c BAnd new old next
  | MOr => nbin c BOr new old next
  | MXor => nbin c BXor new old next
  | MAndNot => let '(i, k) := nnot c new next in nbin c BAnd old i k
  end.

Definition napply_modes (c : ccfg) (s0 : nexpr) (ops : list (mode * nexpr)) (next : nat) : nexpr * nat :=
  fold_left (fun sk mo => napply_mode c (fst mo) (fst sk) (snd mo) (snd sk)) ops (s0, next).

(* ------------------------------------------------------------------ combine_multiple *)
(* glue.core.subset.combine_multiple(subsets, operator): the empty selection SubsetState() for no operand, the operand itself
   for one, else operator(... operator(operator(s0, s1), s2) ..., sn): the LEFT fold of the binary constructor, which copies
   both operands at every step.  [emp] is the leaf that stands for the empty selection, [femp] its function cache. *)
Definition ebin (op : binop) (a b : expr) : expr :=
  match op with BAnd => And a b | BOr => Or a b | BXor => Xor a b end.

Definition ecombine (emp : nat) (op : binop) (l : list expr) : expr :=
  match l with
  | [] => Leaf emp
  | s0 :: rest => fold_left (ebin op) rest s0
  end.

Definition ncombine (c : ccfg) (femp : option nat) (emp : nat) (op : binop) (l : list nexpr) (next : nat) : nexpr * nat :=
  match l with
  | [] => (NLeaf next femp emp, S next)
  | s0 :: rest => fold_left (fun sk x => nbin c op (fst sk) x (snd sk)) rest (s0, next)
  end.

(* the elementwise reduction of the masks of the operands *)
Definition combine_masks (zero : mask) (op : binop) (ms : list mask) : mask :=
  match ms with
  | [] => zero
  | m :: t => fold_left (map2 (bop op)) t m
  end.

(* ------------------------------------------------------------------ the entry points translated from the source *)
(* coq/gen/Gen_combine.v (tools/gen/gen_combine.py) is the current source of SubsetState.__and__ ..., combine_multiple, _combine,
   the operators of Subset / SubsetGroup and the edit modes, over abstract primitives.  Two instances:
   expressions (a copy denotes the same selection), and computations that build identified objects. *)
Definition eprims (emp : nat) : Gen_combine.prims expr :=
  Gen_combine.mkprims expr (Leaf emp) And Or Xor Not (fun e => e).

(* a computation: given the next unused identity, the object it yields and the next unused identity afterwards *)
Definition comp : Type := nat -> nexpr * nat.
Definition cret (e : nexpr) : comp := fun k => (e, k).                (* an object that exists already *)
Definition cbin (c : ccfg) (op : binop) (fa fb : comp) : comp :=
  fun k => let '(a, k1) := fa k in let '(b, k2) := fb k1 in nbin c op a b k2.
Definition cnot (c : ccfg) (fa : comp) : comp := fun k => let '(a, k1) := fa k in nnot c a k1.
Definition ccopy (fa : comp) : comp := fun k => let '(a, k1) := fa k in ncopy a k1.
Definition cnew (femp : option nat) (emp : nat) : comp := fun k => (NLeaf k femp emp, S k).
Definition cprims (c : ccfg) (femp : option nat) (emp : nat) : Gen_combine.prims comp :=
  Gen_combine.mkprims comp (cnew femp emp) (cbin c BAnd) (cbin c BOr) (cbin c BXor) (cnot c) ccopy.

(* operator.and_ / or_ / xor as the binary function combine_multiple is given *)
Definition gen_bin {S : Type} (P : Gen_combine.prims S) (op : binop) : S -> S -> S :=
  match op with
  | BAnd => Gen_combine.state_and S P
  | BOr => Gen_combine.state_or S P
  | BXor => Gen_combine.state_xor S P
  end.

Definition gen_mode {S : Type} (P : Gen_combine.prims S) (m : mode) : S -> S -> S :=
  match m with
  | MReplace => Gen_combine.ReplaceMode S P
  | MNew => Gen_combine.NewMode S P
  | MAnd => Gen_combine.AndMode S P
  | MOr => Gen_combine.OrMode S P
  | MXor => Gen_combine.XorMode S P
  | MAndNot => Gen_combine.AndNotMode S P
  end.

(* the generated combine_multiple on expressions / on objects (None: the generated code raises) *)
Definition gcombine_e (emp : nat) (op : binop) (l : list expr) : option expr :=
  Gen_combine.combine_multiple expr (eprims emp) l (gen_bin (eprims emp) op).

Definition gcombine_n (c : ccfg) (femp : option nat) (emp : nat) (op : binop) (l : list nexpr) (next : nat) : option (nexpr * nat) :=
  match Gen_combine.combine_multiple comp (cprims c femp emp) (map cret l) (gen_bin (cprims c femp emp) op) with
  | Some f => Some (f next)
  | None => None
  end.

(* the generated edit modes on objects *)
Definition gapply_mode_n (c : ccfg) (m : mode) (old new : nexpr) (next : nat) : nexpr * nat :=
  gen_mode (cprims c None 0) m (cret old) (cret new) next.

Definition gapply_modes_n (c : ccfg) (s0 : nexpr) (ops : list (mode * nexpr)) (next : nat) : nexpr * nat :=
  fold_left (fun sk mo => gapply_mode_n c (fst mo) (fst sk) (snd mo) (snd sk)) ops (s0, next).

(* the operators of Subset ([how] = 0, through _combine) and SubsetGroup ([how] = 1) objects; [k] = 1 and, 2 or, 3 xor, 4 invert *)
Definition gvia_n (c : ccfg) (how k : nat) (a : nexpr) (b : option nexpr) (next : nat) : option (nexpr * nat) :=
  let P := cprims c None 0 in
  let run (f : comp) := Some (f next) in
  let orun (f : option comp) := match f with Some g => Some (g next) | None => None end in
  match how, k, b with
  | 0, 1, Some b' => orun (Gen_combine.Subset_and comp P (cret a) (cret b'))
  | 0, 2, Some b' => orun (Gen_combine.Subset_or comp P (cret a) (cret b'))
  | 0, 3, Some b' => orun (Gen_combine.Subset_xor comp P (cret a) (cret b'))
  | 0, 4, None => orun (Gen_combine.Subset_invert comp P (cret a))
  | 1, 1, Some b' => run (Gen_combine.Group_and comp P (cret a) (cret b'))
  | 1, 2, Some b' => run (Gen_combine.Group_or comp P (cret a) (cret b'))
  | 1, 3, Some b' => run (Gen_combine.Group_xor comp P (cret a) (cret b'))
  | 1, 4, None => run (Gen_combine.Group_invert comp P (cret a))
  | _, _, _ => None
  end.

(* ------------------------------------------------------------------ wire *)
Definition zn (z : Z) : nat := Z.to_nat z.
Definition nz (n : nat) : Z := Z.of_nat n.

Definition table_cfg : ccfg :=
  mkccfg (memo_of cls_AndState) (memo_of cls_OrState) (memo_of cls_XorState) (memo_of cls_InvertState).
Definition table_mcopy : bool := Nat.eqb (detail_of cls_MultiOrState) 1.

Definition op_of_kind (k : nat) : option binop :=
  match k with 1 => Some BAnd | 2 => Some BOr | 3 => Some BXor | _ => None end%nat.

Fixpoint sequence {A : Type} (l : list (option A)) : option (list A) :=
  match l with
  | [] => Some []
  | None :: _ => None
  | Some x :: t => match sequence t with Some r => Some (x :: r) | None => None end
  end.

Local Open Scope Z_scope.

(* state objects arrive as  (10 id cls n) | (11 id cls a b) | (12 id cls a) | (13 id cls kids...) ;
   the class index is resolved against the regenerated class table: that is where the operator of a
   composite class and the memoisation of every class come from. *)
Fixpoint dec_nexpr (t : tree) : option nexpr :=
  match t with
  | T 10 [T i _; T c _; T n _] =>
    if Nat.eqb (kind_of (zn c)) 0 then Some (NLeaf (zn i) (memo_of (zn c)) (zn n)) else None
  | T 11 [T i _; T c _; a; b] =>
    match op_of_kind (kind_of (zn c)), dec_nexpr a, dec_nexpr b with
    | Some op, Some a', Some b' => Some (NBin (zn i) (memo_of (zn c)) op a' b')
    | _, _, _ => None
    end
  | T 12 [T i _; T c _; a] =>
    if Nat.eqb (kind_of (zn c)) 4 && Nat.eqb (detail_of (zn c)) 1 then
      match dec_nexpr a with Some a' => Some (NNot (zn i) (memo_of (zn c)) a') | None => None end
    else None
  | T 13 (T i _ :: T c _ :: ks) =>
    if Nat.eqb (kind_of (zn c)) 5 then
      match ks, sequence (map dec_nexpr ks) with
      | _ :: _, Some l => Some (NMulti (zn i) (memo_of (zn c)) l)
      | _, _ => None
      end
    else None
  | _ => None
  end.

Fixpoint enc_nexpr (e : nexpr) : tree :=
  match e with
  | NLeaf i _ n => T 10 [leaf (nz i); leaf (nz n)]
  | NBin i _ op a b => T 11 [leaf (nz i); leaf (match op with BAnd => 1 | BOr => 2 | BXor => 3 end); enc_nexpr a; enc_nexpr b]
  | NNot i _ a => T 12 [leaf (nz i); enc_nexpr a]
  | NMulti i _ l => T 13 (leaf (nz i) :: map enc_nexpr l)
  end.

(* leaf masks:  (0 (0 n d v (0 bits...)) ...)  *)
Definition lm_table := list (nat * nat * nat * mask).
Definition dec_lm (t : tree) : lm_table :=
  map (fun e => match e with
                | T _ [T n _; T d _; T v _; m] => (zn n, zn d, zn v, to_bools m)
                | _ => (0%nat, 0%nat, 0%nat, [])
                end) (kids t).
Fixpoint lm_lookup (tb : lm_table) (n d v : nat) : mask :=
  match tb with
  | [] => []
  | (n', d', v', m) :: t => if Nat.eqb n n' && Nat.eqb d d' && Nat.eqb v v' then m else lm_lookup t n d v
  end.

Definition dec_req (t : tree) : option req :=
  match t with
  | T _ [T d _; T v _; T hk _; T form _; e] =>
    match dec_nexpr e with
    | Some e' => Some (mkreq (zn d) (zn v) (negb (Z.eqb hk 0)) (zn form) e')
    | None => None
    end
  | _ => None
  end.

Definition dec_mode (z : Z) : option mode :=
  match z with
  | 0 => Some MReplace | 1 => Some MAnd | 2 => Some MOr | 3 => Some MXor | 4 => Some MAndNot | 5 => Some MNew
  | _ => None
  end%Z.

Definition dec_modeop (t : tree) : option (mode * nexpr) :=
  match t with
  | T _ [T m _; e] =>
    match dec_mode m, dec_nexpr e with Some m', Some e' => Some (m', e') | _, _ => None end
  | _ => None
  end.

(* run the requests one after the other; per request: address of the result, its contents, and whether every
   array that existed before the request is still what it was *)
Fixpoint run_trace (lm : nat -> nat -> nat -> mask) (mcopy : bool) (rs : list req) (st : state) : list tree :=
  match rs with
  | [] => []
  | r :: t =>
    let '(st', a) := eval_req lm mcopy r st in
    T 0 [leaf (nz a); bools (sget st' a); leaf (of_bool (frameb (st_heap st) (st_heap st')))]
      :: run_trace lm mcopy t st'
  end.

Definition run_case (t : tree) : tree :=
  match t with
  (* 1: pure evaluation of the erased expression on data d, view v *)
  | T 1 [lmt; T d _; T v _; e] =>
    match dec_nexpr e with
    | Some e' =>
      if wfb (erase e') then T 1 [bools (eval (fun n => lm_lookup (dec_lm lmt) n (zn d) (zn v)) (erase e'))]
      else err 1
    | None => err 1
    end
  (* 2: a history of evaluation requests through the heap / memo store *)
  | T 2 [lmt; T _ rs] =>
    match sequence (map dec_req rs) with
    | Some rs' => T 1 (run_trace (lm_lookup (dec_lm lmt)) table_mcopy rs' empty_state)
    | None => err 1
    end
  (* 3: edit-mode sequence on objects: the final state object and its mask on data d, view v *)
  | T 3 [lmt; T d _; T v _; s0; T _ ops; T next _] =>
    match dec_nexpr s0, sequence (map dec_modeop ops) with
    | Some s, Some ops' =>
      let '(fin, _) := gapply_modes_n table_cfg s ops' (zn next) in
      T 1 [enc_nexpr fin;
           bools (eval (fun n => lm_lookup (dec_lm lmt) n (zn d) (zn v)) (erase fin));
           bools (eval (fun n => lm_lookup (dec_lm lmt) n (zn d) (zn v))
                       (apply_modes (erase s) (map (fun mo => (fst mo, erase (snd mo))) ops')))]
    | _, _ => err 1
    end
  (* 4: copy() *)
  | T 4 [e; T next _] =>
    match dec_nexpr e with
    | Some e' => T 1 [enc_nexpr (fst (ncopy e' (zn next)))]
    | None => err 1
    end
  (* 6: combine_multiple(operands, operator): the object it returns, its mask, the elementwise reduction of the operands' masks *)
  | T 6 [lmt; T d _; T v _; T k _; T emp _; T _ operands; T next _] =>
    match op_of_kind (zn k), sequence (map dec_nexpr operands) with
    | Some op, Some l =>
      let lmf := fun n => lm_lookup (dec_lm lmt) n (zn d) (zn v) in
      match gcombine_n table_cfg (memo_of cls_SubsetState) (zn emp) op l (zn next) with
      | Some (fin, _) =>
        T 1 [enc_nexpr fin; bools (eval lmf (erase fin)); bools (combine_masks (lmf (zn emp)) op (map (fun e => eval lmf (erase e)) l))]
      | None => err 3
      end
    | _, _ => err 1
    end
  (* 7: an operator of Subset / SubsetGroup objects applied to one or two existing states: the object it returns *)
  | T 7 [T how _; T k _; a; T _ bs; T next _] =>
    match dec_nexpr a, sequence (map dec_nexpr bs) with
    | Some a', Some bl =>
      match (match bl with [] => Some None | [b'] => Some (Some b') | _ => None end) with
      | Some ob =>
        match gvia_n table_cfg (zn how) (zn k) a' ob (zn next) with
        | Some (fin, _) => T 1 [enc_nexpr fin]
        | None => err 3
        end
      | None => err 1
      end
    | _, _ => err 1
    end
  (* 5: the class table as the model sees it: (memoised?, kind, detail) of a class index *)
  | T 5 [T c _] =>
    T 1 [leaf (match memo_of (zn c) with Some f => nz f | None => -1 end); leaf (nz (kind_of (zn c))); leaf (nz (detail_of (zn c)))]
  | _ => err 2
  end.
