(* C01 -- the implementation-shaped evaluator is faithful to elementwise evaluation, never alters an
   existing array, keeps the memo store coherent; hence independence from earlier evaluations. *)
From Coq Require Import List Bool Arith Lia.
Import ListNotations.
From GV Require Import C01.Heap C01.HeapLemmas C01.Model C01.Lemmas1.

Lemma sem_ok_all_forall : forall den lm d v l,
  (fix all (l : list nexpr) : Prop := match l with [] => True | c :: t => sem_ok den lm d v c /\ all t end) l
  <-> Forall (sem_ok den lm d v) l.
Proof.
  induction l as [|c t IH]; simpl.
  - split; auto.
  - split.
    + intros [H1 H2]. constructor; auto. apply IH; auto.
    + intro H. inversion H; subst. split; auto. apply IH; auto.
Qed.

Lemma sem_ok_den : forall den lm d v e,
  sem_ok den lm d v e -> den (nid e) d v = eval (fun n => lm n d v) (erase e).
Proof. intros den lm d v e H. destruct e; simpl in H; tauto. Qed.

(* what one evaluation step guarantees *)
Definition good (den : nat -> nat -> nat -> mask) (val : mask) (st st' : state) (a : addr) : Prop :=
  a < length (st_heap st') /\
  sget st' a = val /\
  frame (st_heap st) (st_heap st') /\
  coherent den st' /\
  memo_mono st st'.

Lemma memo_mono_refl : forall st, memo_mono st st.
Proof. intros st k a H. left; auto. Qed.

Lemma memo_mono_trans : forall s1 s2 s3,
  length (st_heap s1) <= length (st_heap s2) -> memo_mono s1 s2 -> memo_mono s2 s3 -> memo_mono s1 s3.
Proof.
  intros s1 s2 s3 L M12 M23 k a H.
  destruct (M23 k a H) as [H2|H2].
  - apply M12; auto.
  - right. lia.
Qed.

Lemma coherent_frame : forall den st h',
  coherent den st -> frame (st_heap st) h' -> coherent den (mkstate h' (st_memo st)).
Proof.
  intros den st h' C [L F] k a H. simpl in *.
  destruct (C k a H) as [Ha Hv]. split; [lia|]. rewrite F; auto.
Qed.

(* allocation of the result of a node *)
Lemma good_alloc : forall den st st2 m,
  coherent den st2 -> frame (st_heap st) (st_heap st2) -> memo_mono st st2 ->
  let r := salloc st2 m in
  good den m st (fst r) (snd r) /\ length (st_heap st) <= snd r.
Proof.
  intros den st st2 m C F M. unfold salloc, halloc. simpl. unfold good. simpl.
  split; [split; [|split; [|split; [|split]]]|].
  - rewrite app_length. simpl. lia.
  - unfold sget. simpl. apply hget_alloc_new.
  - eapply frame_trans; eauto. apply frame_alloc.
  - apply (coherent_frame den st2 (st_heap st2 ++ [m])); auto. apply frame_alloc.
  - intros k a H. simpl in *. apply M; auto.
  - destruct F; auto.
Qed.

(* the @memoize wrapper *)
Lemma with_memo_good : forall den hk fn id d v form compute st val,
  coherent den st -> den id d v = val ->
  (let r := compute st in good den val st (fst r) (snd r) /\ length (st_heap st) <= snd r) ->
  let r := with_memo hk fn id d v form compute st in good den val st (fst r) (snd r).
Proof.
  intros den hk fn id d v form compute st val C Hden Hc. unfold with_memo.
  destruct fn as [f|]; [|apply Hc].
  destruct hk; [|apply Hc].
  destruct (mlookup (mkkey f id d v form) (st_memo st)) as [a|] eqn:E.
  - simpl. destruct (C _ _ E) as [Ha Hv]. simpl in Hv.
    split; [auto|split; [|split; [|split]]].
    + unfold sget. rewrite Hv. auto.
    + apply frame_refl.
    + auto.
    + apply memo_mono_refl.
  - destruct (compute st) as [st' a] eqn:Ec. simpl in *.
    destruct Hc as [[Ha [Hv [F [C' M]]]] Hfresh].
    split; [auto|split; [auto|split; [auto|split]]].
    + intros k b H. simpl in H.
      destruct (key_eqb k (mkkey f id d v form)) eqn:Ek.
      * apply key_eqb_eq in Ek. subst k. inversion H; subst b. simpl. split; auto.
        unfold sget in Hv. rewrite Hv. auto.
      * apply C'; auto.
    + intros k b H. simpl in H.
      destruct (key_eqb k (mkkey f id d v form)) eqn:Ek.
      * inversion H; subst b. right; auto.
      * apply M; auto.
Qed.

Section Faithful.
  Variable lm : nat -> nat -> nat -> mask.
  Variable den : nat -> nat -> nat -> mask.
  Variable hk : bool.
  Variable d v : nat.

  Let lmv := fun n => lm n d v.

  (* the in-place loop of MultiOrState.to_mask *)
  Lemma multi_loop : forall (cs : list nexpr) (st s : state) (r : addr),
    Forall (fun c => forall form st0, coherent den st0 -> sem_ok den lm d v c ->
                       let q := eval_heap lm true hk d v form c st0 in
                       good den (eval lmv (erase c)) st0 (fst q) (snd q)) cs ->
    Forall (sem_ok den lm d v) cs ->
    length (st_heap st) <= r -> r < length (st_heap s) ->
    frame (st_heap st) (st_heap s) -> coherent den s -> memo_mono st s ->
    (forall k a, mlookup k (st_memo s) = Some a -> a <> r) ->
    let s' := fold_left (fun s c => let '(s1, y) := eval_heap lm true hk d v FKW c s in
                                    mkstate (hior (st_heap s1) r y) (st_memo s1)) cs s in
    good den (fold_left (map2 orb) (map (eval lmv) (map erase cs)) (sget s r)) st s' r.
  Proof.
    induction cs as [|c cs IH]; intros st s r HIH Hok Hr Hrs F C M Hne; simpl.
    - split; [auto|split; [auto|split; [auto|split; auto]]].
    - inversion HIH as [|? ? Hc HIH']; subst. inversion Hok as [|? ? Okc Hok']; subst.
      specialize (Hc FKW s C Okc).
      destruct (eval_heap lm true hk d v FKW c s) as [s1 y] eqn:E. simpl in Hc.
      destruct Hc as [Hy [Hvy [F1 [C1 M1]]]].
      destruct F1 as [L1 F1].
      assert (Hr1 : r < length (st_heap s1)) by lia.
      assert (Hne1 : forall k a, mlookup k (st_memo s1) = Some a -> a <> r).
      { intros k a H. destruct (M1 k a H) as [H1|H1]; [eapply Hne; eauto|lia]. }
      match goal with |- good _ (fold_left _ _ ?acc) _ _ _ =>
        replace acc with (sget (mkstate (hior (st_heap s1) r y) (st_memo s1)) r) end.
      2:{ unfold sget. simpl. unfold hior. rewrite hget_hset_same by auto.
          unfold sget in Hvy. rewrite Hvy. rewrite F1 by auto. reflexivity. }
      apply IH; auto.
      + simpl. unfold hior. rewrite hset_length. auto.
      + simpl. unfold hior. apply frame_hset_fresh; auto.
        eapply frame_trans; eauto. split; auto.
      + intros k a H. simpl in *. destruct (C1 k a H) as [Ha Hv]. split.
        * unfold hior. rewrite hset_length. auto.
        * unfold hior. rewrite hget_hset_other; auto. intro Hx. apply (Hne1 k a H). auto.
      + intros k a H. simpl in H.
        destruct (M1 k a H) as [H1|H1].
        * apply M; auto.
        * right. destruct F as [LF _]. lia.
  Qed.

  Lemma eval_heap_good : forall e form st,
    coherent den st -> sem_ok den lm d v e ->
    let q := eval_heap lm true hk d v form e st in
    good den (eval lmv (erase e)) st (fst q) (snd q).
  Proof.
    induction e as [i fn n|i fn op a b IHa IHb|i fn a IHa|i fn l IHl] using nexpr_ind'; intros form st C Ok.
    - (* leaf *)
      simpl. apply with_memo_good; auto.
      + apply (sem_ok_den _ _ _ _ _ Ok).
      + apply good_alloc; auto. apply frame_refl. apply memo_mono_refl.
    - (* and / or / xor *)
      pose proof (sem_ok_den _ _ _ _ _ Ok) as Hden. simpl in Ok. destruct Ok as [_ [Oka Okb]].
      simpl eval_heap. apply with_memo_good; auto.
      specialize (IHa FPOS st C Oka).
      destruct (eval_heap lm true hk d v FPOS a st) as [st1 x] eqn:Ea. simpl in IHa.
      destruct IHa as [Hx [Hvx [F1 [C1 M1]]]].
      specialize (IHb FPOS st1 C1 Okb).
      destruct (eval_heap lm true hk d v FPOS b st1) as [st2 y] eqn:Eb. simpl in IHb.
      destruct IHb as [Hy [Hvy [F2 [C2 M2]]]].
      assert (Hx2 : sget st2 x = eval lmv (erase a)).
      { unfold sget in *. destruct F2 as [_ F2]. rewrite F2; auto. }
      rewrite Hx2, Hvy.
      replace (eval lmv (erase (NBin i fn op a b))) with (map2 (bop op) (eval lmv (erase a)) (eval lmv (erase b)))
        by (destruct op; reflexivity).
      apply good_alloc; auto.
      + apply (frame_trans _ (st_heap st1)); auto.
      + apply (memo_mono_trans st st1 st2); auto. destruct F1; auto.
    - (* not *)
      pose proof (sem_ok_den _ _ _ _ _ Ok) as Hden. simpl in Ok. destruct Ok as [_ Oka].
      simpl eval_heap. apply with_memo_good; auto.
      specialize (IHa FPOS st C Oka).
      destruct (eval_heap lm true hk d v FPOS a st) as [st1 x] eqn:Ea. simpl in IHa.
      destruct IHa as [Hx [Hvx [F1 [C1 M1]]]].
      rewrite Hvx. change (eval lmv (erase (NNot i fn a))) with (map negb (eval lmv (erase a))).
      apply good_alloc; auto.
    - (* n-ary or *)
      pose proof (sem_ok_den _ _ _ _ _ Ok) as Hden. simpl in Ok. destruct Ok as [_ Okl].
      apply sem_ok_all_forall in Okl.
      simpl eval_heap. apply with_memo_good; auto.
      destruct l as [|c0 cs].
      + simpl. apply good_alloc; auto. apply frame_refl. apply memo_mono_refl.
      + inversion IHl as [|? ? IH0 IHcs]; subst. inversion Okl as [|? ? Ok0 Okcs]; subst.
        specialize (IH0 FKW st C Ok0).
        destruct (eval_heap lm true hk d v FKW c0 st) as [st0 x0] eqn:E0. simpl in IH0.
        destruct IH0 as [Hx0 [Hv0 [F0 [C0 M0]]]].
        (* the copy *)
        pose proof (good_alloc den st st0 (sget st0 x0) C0 F0 M0) as [G1 Hfresh].
        destruct (salloc st0 (sget st0 x0)) as [st1 r] eqn:Es. simpl in G1, Hfresh.
        destruct G1 as [Hr [Hvr [F1 [C1 M1]]]].
        assert (Hr0 : r = length (st_heap st0)) by (unfold salloc, halloc in Es; inversion Es; reflexivity).
        assert (Hne : forall k a, mlookup k (st_memo st1) = Some a -> a <> r).
        { intros k a H. unfold salloc, halloc in Es. inversion Es; subst st1. simpl in H.
          destruct (C0 k a H) as [Ha _]. lia. }
        pose proof (multi_loop cs st st1 r IHcs Okcs Hfresh Hr F1 C1 M1 Hne) as G.
        simpl in G. rewrite Hvr, Hv0 in G.
        change (eval lmv (erase (NMulti i fn (c0 :: cs))))
          with (fold_left (map2 orb) (map (eval lmv) (map erase cs)) (eval lmv (erase c0))).
        assert (Hst1 : st1 = mkstate (st_heap st0 ++ [sget st0 x0]) (st_memo st0))
          by (unfold salloc, halloc in Es; inversion Es; reflexivity).
        subst st1 r. simpl. split; [exact G|]. destruct F0; auto.
  Qed.
End Faithful.
