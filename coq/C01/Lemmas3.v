(* C01 -- the entry points translated from the source (coq/gen/Gen_combine.v) are the model's constructors:
   combine_multiple = the left fold of the binary constructor, for every number of operands; the operators of
   states / Subsets / SubsetGroups and the edit modes = the model's. *)
From Coq Require Import List Bool Arith Lia.
Import ListNotations.
From GV Require Import gen.Gen_memo C01.Heap C01.HeapLemmas C01.Model C01.Lemmas1.
From GV Require gen.Gen_combine.

Lemma fold_left_ext2 : forall (A B : Type) (f g : A -> B -> A) (l : list B) (a : A),
  (forall x y, f x y = g x y) -> fold_left f l a = fold_left g l a.
Proof. intros A B f g l. induction l as [|b l IH]; intros a H; simpl; auto. rewrite H. apply IH. exact H. Qed.

(* ---------- expressions ---------- *)
Lemma gen_bin_e : forall emp op a b, gen_bin (eprims emp) op a b = ebin op a b.
Proof. intros emp [] a b; reflexivity. Qed.

Lemma gcombine_e_eq : forall emp op l, gcombine_e emp op l = Some (ecombine emp op l).
Proof.
  intros emp op [|s0 rest]; unfold gcombine_e, Gen_combine.combine_multiple; simpl; [reflexivity|].
  f_equal. apply fold_left_ext2. intros x y. apply gen_bin_e.
Qed.

Lemma ebin_eval : forall lm op a b, eval lm (ebin op a b) = map2 (bop op) (eval lm a) (eval lm b).
Proof. intros lm [] a b; reflexivity. Qed.

Lemma fold_ebin_eval : forall lm op rest s0,
  eval lm (fold_left (ebin op) rest s0) = fold_left (map2 (bop op)) (map (eval lm) rest) (eval lm s0).
Proof.
  intros lm op rest. induction rest as [|x rest IH]; intro s0; simpl; auto.
  rewrite IH. rewrite ebin_eval. reflexivity.
Qed.

Lemma ecombine_eval : forall lm emp op l,
  eval lm (ecombine emp op l) = combine_masks (lm emp) op (map (eval lm) l).
Proof. intros lm emp op [|s0 rest]; simpl; [reflexivity|]. apply fold_ebin_eval. Qed.

(* ---------- objects ---------- *)
Lemma gen_bin_n : forall c femp emp op (f : comp) x k,
  gen_bin (cprims c femp emp) op f (cret x) k = nbin c op (fst (f k)) x (snd (f k)).
Proof.
  intros c femp emp op f x k.
  destruct op; unfold gen_bin, Gen_combine.state_and, Gen_combine.state_or, Gen_combine.state_xor; simpl;
    unfold cbin, cret; destruct (f k) as [a k1]; reflexivity.
Qed.

Lemma fold_gen_bin_n : forall c femp emp op rest (f : comp) k,
  fold_left (fun combined subset => gen_bin (cprims c femp emp) op combined subset) (map cret rest) f k =
  fold_left (fun sk x => nbin c op (fst sk) x (snd sk)) rest (f k).
Proof.
  intros c femp emp op rest. induction rest as [|x rest IH]; intros f k; simpl; [reflexivity|].
  rewrite IH. rewrite gen_bin_n. reflexivity.
Qed.

Lemma gcombine_n_eq : forall c femp emp op l k,
  gcombine_n c femp emp op l k = Some (ncombine c femp emp op l k).
Proof.
  intros c femp emp op [|s0 rest] k; unfold gcombine_n, Gen_combine.combine_multiple; simpl; [reflexivity|].
  f_equal. rewrite fold_gen_bin_n. reflexivity.
Qed.

Lemma ebin_match : forall op a b,
  match op with BAnd => And a b | BOr => Or a b | BXor => Xor a b end = ebin op a b.
Proof. intros [] a b; reflexivity. Qed.

Lemma fold_nbin_erase : forall c op rest sk,
  erase (fst (fold_left (fun sk x => nbin c op (fst sk) x (snd sk)) rest sk)) =
  fold_left (ebin op) (map erase rest) (erase (fst sk)).
Proof.
  intros c op rest. induction rest as [|x rest IH]; intro sk; simpl; [reflexivity|].
  rewrite IH. rewrite nbin_erase. rewrite ebin_match. reflexivity.
Qed.

Lemma ncombine_erase : forall c femp emp op l k,
  erase (fst (ncombine c femp emp op l k)) = ecombine emp op (map erase l).
Proof. intros c femp emp op [|s0 rest] k; simpl; [reflexivity|]. apply fold_nbin_erase. Qed.

(* identities: nothing below the next unused identity is handed out, the counter never decreases *)
Lemma ncopy_mono : forall e k, k <= snd (ncopy e k).
Proof. intros e k. pose proof (ncopy_root_fresh e k) as [_ H]. lia. Qed.

Lemma nbin_mono : forall c op a b k, k <= snd (nbin c op a b k).
Proof.
  intros c op a b k. unfold nbin.
  pose proof (ncopy_mono a (S k)) as Ha. destruct (ncopy a (S k)) as [a' k1].
  pose proof (ncopy_mono b k1) as Hb. destruct (ncopy b k1) as [b' k2]. simpl in *. lia.
Qed.

Lemma ncombine_mono : forall c femp emp op l k, k <= snd (ncombine c femp emp op l k).
Proof.
  intros c femp emp op [|s0 rest] k; simpl; [lia|].
  assert (G : forall rest sk, snd sk <= snd (fold_left (fun sk x => nbin c op (fst sk) x (snd sk)) rest sk)).
  { clear. intros rest. induction rest as [|x rest IH]; intro sk; simpl; [lia|].
    etransitivity; [|apply IH]. apply nbin_mono. }
  apply (G rest (s0, k)).
Qed.

(* ---------- the theorem: combine_multiple, any operator, any number of operands ---------- *)
Theorem combine_multiple_masks :
  forall (lm : nat -> mask) (c : ccfg) (femp : option nat) (emp : nat) (op : binop) (l : list nexpr) (k : nat),
    exists r,
      gcombine_n c femp emp op l k = Some r /\
      eval lm (erase (fst r)) = combine_masks (lm emp) op (map (fun e => eval lm (erase e)) l) /\
      erase (fst r) = ecombine emp op (map erase l) /\
      gcombine_e emp op (map erase l) = Some (ecombine emp op (map erase l)) /\
      k <= snd r /\
      (forall s0 s1 rest, l = s0 :: s1 :: rest ->
         eval lm (erase (fst r)) =
         fold_left (map2 (bop op)) (map (fun e => eval lm (erase e)) rest)
                   (map2 (bop op) (eval lm (erase s0)) (eval lm (erase s1)))).
Proof.
  intros lm c femp emp op l k. exists (ncombine c femp emp op l k).
  split; [apply gcombine_n_eq|].
  assert (E : eval lm (erase (fst (ncombine c femp emp op l k))) =
              combine_masks (lm emp) op (map (fun e => eval lm (erase e)) l)).
  { rewrite ncombine_erase, ecombine_eval, map_map. reflexivity. }
  split; [exact E|]. split; [apply ncombine_erase|]. split; [apply gcombine_e_eq|]. split; [apply ncombine_mono|].
  intros s0 s1 rest Hl. rewrite E. subst l. reflexivity.
Qed.

(* ---------- operators and edit modes: the translated source is the model ---------- *)
Lemma gapply_mode_n_eq : forall c m old new k, gapply_mode_n c m old new k = napply_mode c m old new k.
Proof.
  intros c m old new k. destruct m; unfold gapply_mode_n, gen_mode; simpl; try reflexivity;
    unfold Gen_combine.AndNotMode, Gen_combine.state_and, Gen_combine.state_invert; simpl;
    unfold cbin, cnot, cret; destruct (nnot c new k) as [i k']; reflexivity.
Qed.

Lemma gapply_modes_n_eq : forall c ops s0 k, gapply_modes_n c s0 ops k = napply_modes c s0 ops k.
Proof.
  intros c ops s0 k. unfold gapply_modes_n, napply_modes. apply fold_left_ext2.
  intros sk mo. apply gapply_mode_n_eq.
Qed.

Theorem generated_entry_points :
  (* on expressions: operators, edit modes *)
  (forall emp a b, Gen_combine.state_and expr (eprims emp) a b = And a b /\ Gen_combine.state_or expr (eprims emp) a b = Or a b /\
                   Gen_combine.state_xor expr (eprims emp) a b = Xor a b /\ Gen_combine.state_invert expr (eprims emp) a = Not a) /\
  (forall emp m old new, gen_mode (eprims emp) m old new = apply_mode m old new) /\
  (* on objects: edit modes and sequences of them, as run against the code *)
  (forall c m old new k, gapply_mode_n c m old new k = napply_mode c m old new k) /\
  (forall c ops s0 k, gapply_modes_n c s0 ops k = napply_modes c s0 ops k) /\
  (* operators of Subset objects (through _combine) and of SubsetGroup objects: the binary constructor on the held states *)
  (forall c a b k, gvia_n c 0 1 a (Some b) k = Some (nbin c BAnd a b k) /\ gvia_n c 0 2 a (Some b) k = Some (nbin c BOr a b k) /\
                   gvia_n c 0 3 a (Some b) k = Some (nbin c BXor a b k) /\ gvia_n c 0 4 a None k = Some (nnot c a k) /\
                   gvia_n c 1 1 a (Some b) k = Some (nbin c BAnd a b k) /\ gvia_n c 1 2 a (Some b) k = Some (nbin c BOr a b k) /\
                   gvia_n c 1 3 a (Some b) k = Some (nbin c BXor a b k) /\ gvia_n c 1 4 a None k = Some (nnot c a k)) /\
  (* EditSubsetMode._combine_data: one new group with a copy when there is no edit subset or the mode is NewMode, else the
     mode on every edit subset *)
  (forall emp (es : list expr) isnew m new,
     Gen_combine.combine_data expr (eprims emp) es isnew (gen_mode (eprims emp) m) new =
     if (match es with [] => true | _ => false end) || isnew then [new] else map (fun s => apply_mode m s new) es).
Proof.
  split; [intros; repeat split; reflexivity|].
  split; [intros emp [] old new; reflexivity|].
  split; [exact gapply_mode_n_eq|].
  split; [exact gapply_modes_n_eq|].
  split; [intros; repeat split; reflexivity|].
  intros emp es isnew m new. unfold Gen_combine.combine_data. destruct es as [|e es]; simpl.
  - reflexivity.
  - destruct isnew; simpl; [reflexivity|]. destruct m; reflexivity.
Qed.
