(* C01 -- lemmas about the heap of mask arrays and the memo store. *)
From Coq Require Import List Bool Arith Lia.
Import ListNotations.
From GV Require Import C01.Heap.

Lemma map2_length : forall (A B C : Type) (f : A -> B -> C) a b,
  length (map2 f a b) = Nat.min (length a) (length b).
Proof.
  induction a as [|x a IH]; intros [|y b]; simpl; auto.
Qed.

Lemma map2_nth : forall (A B C : Type) (f : A -> B -> C) a b i da db dc,
  i < length a -> i < length b ->
  nth i (map2 f a b) dc = f (nth i a da) (nth i b db).
Proof.
  induction a as [|x a IH]; intros [|y b] i da db dc Ha Hb; simpl in *; try lia.
  destruct i as [|i]; auto. apply IH; lia.
Qed.

Lemma hget_app_l : forall h ext a, a < length h -> hget (h ++ ext) a = hget h a.
Proof. intros h ext a Ha. unfold hget. apply app_nth1; auto. Qed.

Lemma hget_alloc_new : forall h m, hget (h ++ [m]) (length h) = m.
Proof. intros h m. unfold hget. rewrite app_nth2 by lia. rewrite Nat.sub_diag. reflexivity. Qed.

Lemma hset_length : forall h a m, length (hset h a m) = length h.
Proof. induction h as [|x h IH]; intros [|a] m; simpl; auto. Qed.

Lemma hget_hset_same : forall h a m, a < length h -> hget (hset h a m) a = m.
Proof.
  unfold hget. induction h as [|x h IH]; intros [|a] m Ha; simpl in *; try lia; auto.
  all: try (apply IH; lia).
Qed.

Lemma hget_hset_other : forall h a b m, a <> b -> hget (hset h a m) b = hget h b.
Proof.
  unfold hget. induction h as [|x h IH]; intros [|a] [|b] m Hab; simpl; auto; try congruence.
  all: try (apply IH; congruence).
Qed.

Lemma frame_refl : forall h, frame h h.
Proof. intros h; split; auto. Qed.

Lemma frame_trans : forall h1 h2 h3, frame h1 h2 -> frame h2 h3 -> frame h1 h3.
Proof.
  intros h1 h2 h3 [L1 F1] [L2 F2]. split; [lia|].
  intros a Ha. rewrite F2 by lia. apply F1; auto.
Qed.

Lemma frame_alloc : forall h m, frame h (h ++ [m]).
Proof.
  intros h m. split.
  - rewrite app_length; simpl; lia.
  - intros a Ha. apply hget_app_l; auto.
Qed.

(* an in-place write outside the old heap preserves the frame *)
Lemma frame_hset_fresh : forall h h' r m, frame h h' -> length h <= r -> frame h (hset h' r m).
Proof.
  intros h h' r m [L F] Hr. split.
  - rewrite hset_length; auto.
  - intros a Ha. rewrite hget_hset_other by lia. apply F; auto.
Qed.

Lemma mask_eqb_refl : forall m, mask_eqb m m = true.
Proof. induction m as [|x m IH]; simpl; auto. rewrite IH. destruct x; auto. Qed.

Lemma mask_eqb_eq : forall a b, mask_eqb a b = true -> a = b.
Proof.
  induction a as [|x a IH]; intros [|y b] H; simpl in H; try discriminate; auto.
  apply andb_prop in H as [H1 H2]. apply eqb_prop in H1. subst. f_equal; auto.
Qed.

(* the executable check agrees with the frame predicate *)
Lemma frameb_sound : forall h h', frameb h h' = true -> frame h h'.
Proof.
  induction h as [|x h IH]; intros h' H.
  - split; simpl; [lia| intros a Ha; simpl in Ha; lia].
  - destruct h' as [|y h']; simpl in H; [discriminate|].
    apply andb_prop in H as [H1 H2]. apply mask_eqb_eq in H1. subst y.
    destruct (IH _ H2) as [L F]. split; simpl; [lia|].
    intros [|a] Ha; unfold hget; simpl; auto. apply F. simpl in Ha; lia.
Qed.

Lemma frameb_complete : forall h h', frame h h' -> frameb h h' = true.
Proof.
  induction h as [|x h IH]; intros h' [L F]; simpl; auto.
  destruct h' as [|y h']; simpl in L; [lia|].
  assert (Hx : y = x) by (specialize (F 0); unfold hget in F; simpl in F; apply F; lia).
  subst y. rewrite mask_eqb_refl. simpl. apply IH. split; [lia|].
  intros a Ha. specialize (F (S a)). unfold hget in *. simpl in F. apply F. lia.
Qed.

(* ---- keys and the memo store ---- *)
Lemma key_eqb_eq : forall a b, key_eqb a b = true <-> a = b.
Proof.
  intros [f1 i1 d1 v1 m1] [f2 i2 d2 v2 m2]. unfold key_eqb; simpl. split.
  - intro H. repeat (apply andb_prop in H as [H ?]).
    apply Nat.eqb_eq in H. repeat match goal with X : Nat.eqb _ _ = true |- _ => apply Nat.eqb_eq in X end.
    subst; reflexivity.
  - intro H. inversion H; subst. rewrite !Nat.eqb_refl. reflexivity.
Qed.

Lemma key_eqb_refl : forall k, key_eqb k k = true.
Proof. intro k. apply key_eqb_eq. reflexivity. Qed.

Lemma mlookup_store_same : forall k a m, mlookup k (mstore k a m) = Some a.
Proof. intros. unfold mstore. simpl. rewrite key_eqb_refl. reflexivity. Qed.

Lemma mlookup_store : forall k k' a m,
  mlookup k' (mstore k a m) = if key_eqb k' k then Some a else mlookup k' m.
Proof. intros. reflexivity. Qed.

Lemma mlookup_clear_other : forall f k m, k_fn k <> f -> mlookup k (mclear f m) = mlookup k m.
Proof.
  intros f k m Hk. induction m as [|[k' a] m IH]; simpl; auto.
  destruct (Nat.eqb (k_fn k') f) eqn:E; simpl.
  - destruct (key_eqb k k') eqn:E2; auto.
    apply key_eqb_eq in E2. subst k'. apply Nat.eqb_eq in E. contradiction.
  - rewrite IH. reflexivity.
Qed.

Lemma mlookup_clear_same : forall f k m, k_fn k = f -> mlookup k (mclear f m) = None.
Proof.
  intros f k m Hk. induction m as [|[k' a] m IH]; simpl; auto.
  destruct (Nat.eqb (k_fn k') f) eqn:E; simpl; auto.
  destruct (key_eqb k k') eqn:E2; auto.
  apply key_eqb_eq in E2. subst k'. rewrite Hk, Nat.eqb_refl in E. discriminate.
Qed.

Lemma mlookup_clear_some : forall f k m a, mlookup k (mclear f m) = Some a -> mlookup k m = Some a.
Proof.
  intros f k m a H. destruct (Nat.eq_dec (k_fn k) f) as [E|E].
  - rewrite mlookup_clear_same in H by auto. discriminate.
  - rewrite mlookup_clear_other in H by auto. auto.
Qed.
