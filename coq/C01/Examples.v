(* C01 -- non-vacuity and sanity runs. *)
From Coq Require Import List Bool Arith Lia.
Import ListNotations.
From GV Require Import gen.Gen_memo C01.Heap C01.HeapLemmas C01.Model C01.Lemmas.

(* three parts on a 4-element dataset *)
Definition lm0 (n d v : nat) : mask :=
  match n with
  | 0 => [true; true; false; false]
  | 1 => [true; false; true; false]
  | _ => [false; false; false; true]
  end.

(* ((p0 & ~p1) ^ multi-or(p1, p2, p0)) with all composite classes memoised (function caches 6, 10, 12),
   leaf 0 memoised (cache 9), unique identities *)
Definition e0 : nexpr :=
  NBin 1 (Some 6) BXor
       (NBin 2 (Some 6) BAnd (NLeaf 3 (Some 9) 0) (NNot 4 (Some 10) (NLeaf 5 None 1)))
       (NMulti 6 (Some 12) [NLeaf 7 None 1; NLeaf 8 None 2; NLeaf 9 (Some 9) 0]).

Eval vm_compute in eval (fun n => lm0 n 0 0) (erase e0).
Eval vm_compute in (let q := eval_heap lm0 true true 0 0 FKW e0 empty_state in (sget (fst q) (snd q), snd q, length (st_heap (fst q)))).

(* a denotation for which e0 is consistent: the identities of e0 are distinct *)
Definition den0 (i d v : nat) : mask :=
  let l := fun n => lm0 n d v in
  match i with
  | 1 => eval l (erase e0)
  | 2 => eval l (And (Leaf 0) (Not (Leaf 1)))
  | 3 => l 0 | 4 => eval l (Not (Leaf 1)) | 5 => l 1
  | 6 => eval l (MultiOr [Leaf 1; Leaf 2; Leaf 0])
  | 7 => l 1 | 8 => l 2 | 9 => l 0
  | _ => []
  end.

Example sem_ok_e0 : sem_ok den0 lm0 0 0 e0.
Proof. simpl. repeat split; reflexivity. Qed.

Example wf_e0 : wf (erase e0).
Proof. simpl. repeat split; auto; discriminate. Qed.

(* the hypotheses of eval_heap_faithful are met by a non-trivial state: a cache already filled by an
   earlier evaluation of e0 under another call form *)
Definition st_warm : state := fst (eval_heap lm0 true true 0 0 FPOS e0 empty_state).

Example coherent_warm : coherent den0 st_warm.
Proof.
  pose proof (eval_heap_faithful lm0 den0 true 0 0 FPOS e0 empty_state 4 (coherent_empty den0) sem_ok_e0 wf_e0) as H.
  destruct H as [_ [_ [_ [_ [C _]]]]]; auto. intros [|[|n]]; reflexivity.
Qed.

Example warm_is_nontrivial : length (st_memo st_warm) = 6 /\ length (st_heap st_warm) = 9.
Proof. vm_compute. split; reflexivity. Qed.

(* second evaluation: same mask, the cached array itself is returned, nothing allocated *)
Example second_evaluation :
  let q := eval_heap lm0 true true 0 0 FPOS e0 st_warm in
  sget (fst q) (snd q) = eval (fun n => lm0 n 0 0) (erase e0) /\ length (st_heap (fst q)) = length (st_heap st_warm).
Proof. vm_compute. split; reflexivity. Qed.

(* request lists meeting the hypotheses of eval_heap_history_independent *)
Definition reqs0 : list req :=
  [mkreq 0 0 true FKW e0; mkreq 0 0 true FNONE (NLeaf 9 (Some 9) 0); mkreq 0 0 false FPOS e0;
   mkreq 0 0 true FPOS (NMulti 6 (Some 12) [NLeaf 7 None 1; NLeaf 8 None 2; NLeaf 9 (Some 9) 0])].

Example reqs0_ok : Forall (req_ok den0 lm0 (fun _ _ => 4)) reqs0.
Proof.
  repeat constructor; simpl; auto; try discriminate; try (intros [|[|n]]; reflexivity).
Qed.

(* WITHOUT the copy in MultiOrState.to_mask the frame property is false: the cached mask of the first child
   is overwritten -- the property is not vacuous and the hypothesis mcopy = true is necessary *)
Definition e_multi : nexpr := NMulti 20 (Some 12) [NLeaf 21 (Some 9) 0; NLeaf 22 None 1].
Example no_copy_alters_cached_operand :
  let st := fst (eval_heap lm0 false true 0 0 FKW (NLeaf 21 (Some 9) 0) empty_state) in
  let q := eval_heap lm0 false true 0 0 FKW e_multi st in
  frameb (st_heap st) (st_heap (fst q)) = false /\
  sget (fst q) 0 <> lm0 0 0 0.
Proof. vm_compute. split; [reflexivity | discriminate]. Qed.

Example with_copy_keeps_cached_operand :
  let st := fst (eval_heap lm0 true true 0 0 FKW (NLeaf 21 (Some 9) 0) empty_state) in
  let q := eval_heap lm0 true true 0 0 FKW e_multi st in
  frameb (st_heap st) (st_heap (fst q)) = true /\ sget (fst q) 0 = lm0 0 0 0.
Proof. vm_compute. split; reflexivity. Qed.

(* edit modes: ((p0 and-not p1) xor p2) then replace *)
Eval vm_compute in eval (fun n => lm0 n 0 0) (apply_modes (Leaf 0) [(MAndNot, Leaf 1); (MXor, Leaf 2)]).
Eval vm_compute in napply_modes table_cfg (NLeaf 1 None 0) [(MAndNot, NLeaf 2 None 1); (MOr, NMulti 3 (Some 12) [NLeaf 4 None 2])] 10.

(* ---- combine_multiple as translated from the source (coq/gen/Gen_combine.v) ---- *)
(* six operands selecting one element each of a 6-element dataset: the xor / or of all six selects everything (an operand
   that is lost shows), no operand: the empty selection (leaf 99), one operand: the operand itself (same identity) *)
Definition lm6 (n : nat) : mask := map (fun i => Nat.eqb i n) [0; 1; 2; 3; 4; 5].
Definition ops6 : list nexpr := map (fun n => NLeaf (S n) None n) [0; 1; 2; 3; 4; 5].
Example combine_six_xor :
  match gcombine_n table_cfg None 99 BXor ops6 100 with
  | Some (r, _) => eval lm6 (erase r) = [true; true; true; true; true; true] /\ nid r = 124
  | None => False
  end.
Proof. vm_compute. split; reflexivity. Qed.
Example combine_none_and_one :
  gcombine_n table_cfg None 99 BOr [] 100 = Some (NLeaf 100 None 99, 101) /\
  gcombine_n table_cfg None 99 BAnd [NLeaf 1 None 0] 100 = Some (NLeaf 1 None 0, 100).
Proof. vm_compute. split; reflexivity. Qed.
(* a reduction that loses an operand does NOT satisfy the theorem's equation: it is not vacuous *)
Example dropping_an_operand_shows :
  eval lm6 (erase (fst (ncombine table_cfg None 99 BXor (firstn 5 ops6) 100))) <>
  combine_masks (lm6 99) BXor (map (fun e => eval lm6 (erase e)) ops6).
Proof. vm_compute. discriminate. Qed.
(* the translated edit modes and Subset / SubsetGroup operators on objects *)
Eval vm_compute in gapply_modes_n table_cfg (NLeaf 1 None 0) [(MAndNot, NLeaf 2 None 1); (MXor, NLeaf 3 None 2)] 10.
Eval vm_compute in gvia_n table_cfg 0 1 (NLeaf 1 None 0) (Some (NLeaf 2 None 1)) 10.
Eval vm_compute in gvia_n table_cfg 1 4 (NLeaf 1 None 0) None 10.
Eval vm_compute in gvia_n table_cfg 0 4 (NLeaf 1 None 0) (Some (NLeaf 2 None 1)) 10.   (* ~ with two operands: TypeError *)
