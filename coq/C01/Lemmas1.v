(* C01 -- the specification side: elementwise evaluation is a Boolean-algebra homomorphism,
   lengths, edit modes, copy(). *)
From Coq Require Import List Bool Arith Lia.
Import ListNotations.
From GV Require Import C01.Heap C01.HeapLemmas C01.Model.

(* ---------- induction principles that reach through the n-ary or ---------- *)
Section ExprInd.
  Variable P : expr -> Prop.
  Hypothesis HLeaf : forall n, P (Leaf n).
  Hypothesis HAnd : forall a b, P a -> P b -> P (And a b).
  Hypothesis HOr : forall a b, P a -> P b -> P (Or a b).
  Hypothesis HXor : forall a b, P a -> P b -> P (Xor a b).
  Hypothesis HNot : forall a, P a -> P (Not a).
  Hypothesis HMulti : forall l, Forall P l -> P (MultiOr l).
  Fixpoint expr_ind' (e : expr) : P e :=
    match e with
    | Leaf n => HLeaf n
    | And a b => HAnd a b (expr_ind' a) (expr_ind' b)
    | Or a b => HOr a b (expr_ind' a) (expr_ind' b)
    | Xor a b => HXor a b (expr_ind' a) (expr_ind' b)
    | Not a => HNot a (expr_ind' a)
    | MultiOr l =>
      HMulti l ((fix go (l : list expr) : Forall P l :=
                   match l with
                   | [] => Forall_nil P
                   | c :: t => Forall_cons c (expr_ind' c) (go t)
                   end) l)
    end.
End ExprInd.

Section NexprInd.
  Variable P : nexpr -> Prop.
  Hypothesis HL : forall i fn n, P (NLeaf i fn n).
  Hypothesis HB : forall i fn op a b, P a -> P b -> P (NBin i fn op a b).
  Hypothesis HN : forall i fn a, P a -> P (NNot i fn a).
  Hypothesis HM : forall i fn l, Forall P l -> P (NMulti i fn l).
  Fixpoint nexpr_ind' (e : nexpr) : P e :=
    match e with
    | NLeaf i fn n => HL i fn n
    | NBin i fn op a b => HB i fn op a b (nexpr_ind' a) (nexpr_ind' b)
    | NNot i fn a => HN i fn a (nexpr_ind' a)
    | NMulti i fn l =>
      HM i fn l ((fix go (l : list nexpr) : Forall P l :=
                    match l with
                    | [] => Forall_nil P
                    | c :: t => Forall_cons c (nexpr_ind' c) (go t)
                    end) l)
    end.
End NexprInd.

(* ---------- wf through Forall ---------- *)
Lemma wf_all_forall : forall l,
  (fix all (l : list expr) : Prop := match l with [] => True | c :: t => wf c /\ all t end) l <-> Forall wf l.
Proof.
  induction l as [|c t IH]; simpl.
  - split; auto.
  - split.
    + intros [H1 H2]. constructor; auto. apply IH; auto.
    + intro H. inversion H; subst. split; auto. apply IH; auto.
Qed.

Lemma wf_multi : forall l, wf (MultiOr l) <-> l <> [] /\ Forall wf l.
Proof.
  intro l. simpl. rewrite wf_all_forall. tauto.
Qed.

Lemma wfb_wf : forall e, wfb e = true <-> wf e.
Proof.
  induction e as [n|a b IHa IHb|a b IHa IHb|a b IHa IHb|a IHa|l IHl] using expr_ind'.
  - simpl; tauto.
  - simpl. rewrite andb_true_iff, IHa, IHb. tauto.
  - simpl. rewrite andb_true_iff, IHa, IHb. tauto.
  - simpl. rewrite andb_true_iff, IHa, IHb. tauto.
  - simpl. auto.
  - rewrite wf_multi. destruct l as [|c t].
    + simpl. split; [discriminate|]. intros [H _]. congruence.
    + change (wfb (MultiOr (c :: t))) with (forallb wfb (c :: t)).
      rewrite forallb_forall. rewrite Forall_forall in IHl. rewrite Forall_forall.
      split.
      * intro H. split; [discriminate|]. intros x Hx. apply IHl; auto.
      * intros [_ H] x Hx. apply IHl; auto.
Qed.

(* ---------- lengths ---------- *)
Lemma fold_or_length : forall N ms m,
  length m = N -> Forall (fun x => length x = N) ms -> length (fold_left (map2 orb) ms m) = N.
Proof.
  induction ms as [|x ms IH]; intros m Hm Hms; simpl; auto.
  inversion Hms; subst. apply IH; auto.
  rewrite map2_length. rewrite H1. apply Nat.min_id.
Qed.

Lemma eval_length : forall lm N e,
  (forall n, length (lm n) = N) -> wf e -> length (eval lm e) = N.
Proof.
  intros lm N e Hlm.
  induction e as [n|a b IHa IHb|a b IHa IHb|a b IHa IHb|a IHa|l IHl] using expr_ind'; intro Hwf.
  - simpl; auto.
  - simpl in *. destruct Hwf. rewrite map2_length, IHa, IHb by auto. apply Nat.min_id.
  - simpl in *. destruct Hwf. rewrite map2_length, IHa, IHb by auto. apply Nat.min_id.
  - simpl in *. destruct Hwf. rewrite map2_length, IHa, IHb by auto. apply Nat.min_id.
  - simpl in *. rewrite map_length. auto.
  - apply wf_multi in Hwf as [Hne Hall].
    destruct l as [|c t]; [congruence|].
    change (eval lm (MultiOr (c :: t))) with (fold_left (map2 orb) (map (eval lm) t) (eval lm c)).
    inversion IHl; subst. inversion Hall; subst.
    apply fold_or_length; auto.
    rewrite Forall_forall. intros x Hx. apply in_map_iff in Hx as [y [Hy Hin]]. subst x.
    rewrite Forall_forall in H2, H4. apply H2; auto.
Qed.

(* ---------- elementwise reading ---------- *)
Lemma fold_or_nth : forall N i ms m,
  i < N -> length m = N -> Forall (fun x => length x = N) ms ->
  nth i (fold_left (map2 orb) ms m) false = nth i m false || existsb (fun x => nth i x false) ms.
Proof.
  induction ms as [|x ms IH]; intros m Hi Hm Hms; simpl.
  - rewrite orb_false_r. reflexivity.
  - inversion Hms; subst. rewrite IH; auto.
    + rewrite (map2_nth _ _ _ orb m x i false false false) by lia.
      rewrite orb_assoc. reflexivity.
    + rewrite map2_length, H1. apply Nat.min_id.
Qed.

Lemma existsb_map_comp : forall (A B : Type) (f : B -> bool) (g : A -> B) l,
  existsb f (map g l) = existsb (fun x => f (g x)) l.
Proof. induction l as [|x l IH]; simpl; auto. rewrite IH. reflexivity. Qed.

Lemma existsb_ext_forall : forall (A : Type) (f g : A -> bool) l,
  Forall (fun x => f x = g x) l -> existsb f l = existsb g l.
Proof. induction 1 as [|x l H _ IH]; simpl; auto. rewrite H, IH. reflexivity. Qed.

Lemma eval_pointwise : forall lm N e i,
  (forall n, length (lm n) = N) -> wf e -> i < N ->
  nth i (eval lm e) false = evalb (fun n => nth i (lm n) false) e.
Proof.
  intros lm N e i Hlm.
  induction e as [n|a b IHa IHb|a b IHa IHb|a b IHa IHb|a IHa|l IHl] using expr_ind'; intros Hwf Hi.
  - reflexivity.
  - simpl in *. destruct Hwf as [Wa Wb].
    rewrite (map2_nth _ _ _ andb _ _ i false false false) by (rewrite (eval_length lm N); auto).
    rewrite (IHa Wa Hi), (IHb Wb Hi). reflexivity.
  - simpl in *. destruct Hwf as [Wa Wb].
    rewrite (map2_nth _ _ _ orb _ _ i false false false) by (rewrite (eval_length lm N); auto).
    rewrite (IHa Wa Hi), (IHb Wb Hi). reflexivity.
  - simpl in *. destruct Hwf as [Wa Wb].
    rewrite (map2_nth _ _ _ xorb _ _ i false false false) by (rewrite (eval_length lm N); auto).
    rewrite (IHa Wa Hi), (IHb Wb Hi). reflexivity.
  - simpl in *.
    rewrite (nth_indep _ false (negb true)) by (rewrite map_length, (eval_length lm N); auto).
    rewrite map_nth. rewrite (nth_indep _ true false) by (rewrite (eval_length lm N); auto).
    rewrite IHa; auto.
  - apply wf_multi in Hwf as [Hne Hall].
    destruct l as [|c t]; [congruence|].
    change (eval lm (MultiOr (c :: t))) with (fold_left (map2 orb) (map (eval lm) t) (eval lm c)).
    inversion IHl as [|? ? Hc Ht]; subst. inversion Hall as [|? ? Wc Wt]; subst.
    rewrite (fold_or_nth N); auto.
    + simpl. rewrite Hc by auto. f_equal.
      rewrite existsb_map_comp. apply existsb_ext_forall.
      rewrite Forall_forall in *. intros x Hx. apply Ht; auto.
    + apply eval_length; auto.
    + rewrite Forall_forall in *. intros x Hx. apply in_map_iff in Hx as [y [Hy Hin]]. subst x.
      apply eval_length; auto.
Qed.

(* ---------- the homomorphism equations ---------- *)
Lemma eval_or_chain : forall lm l acc,
  eval lm (fold_left Or l acc) = fold_left (map2 orb) (map (eval lm) l) (eval lm acc).
Proof.
  induction l as [|x l IH]; intro acc; simpl; auto. rewrite IH. reflexivity.
Qed.

Theorem eval_homomorphism : forall lm : nat -> mask,
  (forall a b, eval lm (And a b) = map2 andb (eval lm a) (eval lm b)) /\
  (forall a b, eval lm (Or a b) = map2 orb (eval lm a) (eval lm b)) /\
  (forall a b, eval lm (Xor a b) = map2 xorb (eval lm a) (eval lm b)) /\
  (forall a, eval lm (Not a) = map negb (eval lm a)) /\
  (forall a l, eval lm (MultiOr (a :: l)) = fold_left (map2 orb) (map (eval lm) l) (eval lm a)) /\
  (forall a l, eval lm (MultiOr (a :: l)) = eval lm (fold_left Or l a)) /\
  (forall N e i, (forall n, length (lm n) = N) -> wf e -> i < N ->
                 length (eval lm e) = N /\ nth i (eval lm e) false = evalb (fun n => nth i (lm n) false) e).
Proof.
  intro lm. repeat split; intros; try reflexivity.
  - rewrite eval_or_chain. reflexivity.
  - apply eval_length; auto.
  - eapply eval_pointwise; eauto.
Qed.

(* ---------- edit modes ---------- *)
Lemma apply_mode_eval : forall lm m old new,
  eval lm (apply_mode m old new) = mode_mask m (eval lm old) (eval lm new).
Proof. intros lm [] old new; reflexivity. Qed.

Theorem edit_modes_sequence : forall (lm : nat -> mask) (ops : list (mode * expr)) (s0 : expr),
  eval lm (apply_modes s0 ops) =
  fold_left (fun (m : mask) (mo : mode * expr) => mode_mask (fst mo) m (eval lm (snd mo))) ops (eval lm s0).
Proof.
  intros lm ops. unfold apply_modes.
  induction ops as [|[m e] ops IH]; intro s0; simpl; auto.
  rewrite IH. rewrite apply_mode_eval. reflexivity.
Qed.

Lemma apply_mode_wf : forall m old new, wf old -> wf new -> wf (apply_mode m old new).
Proof. intros [] old new Ho Hn; simpl; auto. Qed.

(* ---------- copy() ---------- *)
Lemma ncopy_erase : forall e k, erase (fst (ncopy e k)) = erase e.
Proof.
  induction e as [i fn n|i fn op a b IHa IHb|i fn a IHa|i fn l IHl] using nexpr_ind'; intro k; simpl.
  - reflexivity.
  - specialize (IHa (S k)). destruct (ncopy a (S k)) as [a' k1]. specialize (IHb k1).
    destruct (ncopy b k1) as [b' k2]. simpl in *. destruct op; simpl; congruence.
  - specialize (IHa (S k)). destruct (ncopy a (S k)) as [a' k1]. simpl in *. congruence.
  - reflexivity.
Qed.

Lemma ncopy_root_fresh : forall e k, nid (fst (ncopy e k)) = k /\ k < snd (ncopy e k).
Proof.
  induction e as [i fn n|i fn op a b IHa IHb|i fn a IHa|i fn l IHl] using nexpr_ind'; intro k; simpl.
  - auto.
  - destruct (IHa (S k)) as [_ H1]. destruct (ncopy a (S k)) as [a' k1].
    destruct (IHb k1) as [_ H2]. destruct (ncopy b k1) as [b' k2]. simpl in *. split; auto. lia.
  - destruct (IHa (S k)) as [_ H1]. destruct (ncopy a (S k)) as [a' k1]. simpl in *. split; auto. lia.
  - auto.
Qed.

Lemma nbin_erase : forall c op a b k,
  erase (fst (nbin c op a b k)) =
  match op with BAnd => And (erase a) (erase b) | BOr => Or (erase a) (erase b) | BXor => Xor (erase a) (erase b) end.
Proof.
  intros c op a b k. unfold nbin.
  pose proof (ncopy_erase a (S k)) as Ha. destruct (ncopy a (S k)) as [a' k1].
  pose proof (ncopy_erase b k1) as Hb. destruct (ncopy b k1) as [b' k2]. simpl in *.
  destruct op; simpl; congruence.
Qed.

Lemma nnot_erase : forall c a k, erase (fst (nnot c a k)) = Not (erase a).
Proof.
  intros c a k. unfold nnot.
  pose proof (ncopy_erase a (S k)) as Ha. destruct (ncopy a (S k)) as [a' k1]. simpl in *. congruence.
Qed.

Lemma napply_mode_erase : forall c m old new k,
  erase (fst (napply_mode c m old new k)) = apply_mode m (erase old) (erase new).
Proof.
  intros c m old new k. destruct m; simpl.
  - apply ncopy_erase.
  - apply nbin_erase.
  - apply nbin_erase.
  - apply nbin_erase.
  - pose proof (nnot_erase c new k) as Hn. destruct (nnot c new k) as [i k']. simpl in Hn.
    rewrite nbin_erase. rewrite Hn. reflexivity.
  - apply ncopy_erase.
Qed.

Lemma napply_modes_erase : forall c ops s0 k,
  erase (fst (napply_modes c s0 ops k)) =
  apply_modes (erase s0) (map (fun mo => (fst mo, erase (snd mo))) ops).
Proof.
  intros c ops. unfold napply_modes, apply_modes.
  induction ops as [|[m e] ops IH]; intros s0 k; simpl; auto.
  pose proof (napply_mode_erase c m s0 e k) as H.
  destruct (napply_mode c m s0 e k) as [s1 k1]. simpl in H.
  rewrite IH. rewrite H. reflexivity.
Qed.

(* copy() denotes the same selection, is a new object, and the edit modes on objects are the edit modes on expressions *)
Theorem copy_preserves_eval : forall (lm : nat -> mask) (e : nexpr) (k : nat),
  eval lm (erase (fst (ncopy e k))) = eval lm (erase e) /\
  nid (fst (ncopy e k)) = k /\
  (forall c m new, eval lm (erase (fst (napply_mode c m e new k))) = mode_mask m (eval lm (erase e)) (eval lm (erase new))).
Proof.
  intros lm e k. split; [|split].
  - rewrite ncopy_erase. reflexivity.
  - apply ncopy_root_fresh.
  - intros c m new. rewrite napply_mode_erase. apply apply_mode_eval.
Qed.
