(* C01 -- a small heap of mask arrays and the @memoize store (definitions only; lemmas in HeapLemmas.v).
   An address is an index into the list of cells; allocation appends, so "every
   pre-existing address is unchanged" is a statement about a prefix of the list.
   numpy arrays that matter for aliasing are exactly these cells: a to_mask result is an address. *)
From Coq Require Import List Bool Arith.
Import ListNotations.

Definition mask := list bool.
Definition addr := nat.
Definition heap := list mask.

Fixpoint map2 {A B C : Type} (f : A -> B -> C) (a : list A) (b : list B) : list C :=
  match a, b with
  | x :: a', y :: b' => f x y :: map2 f a' b'
  | _, _ => []
  end.

Definition hget (h : heap) (a : addr) : mask := nth a h [].

Definition halloc (h : heap) (m : mask) : heap * addr := (h ++ [m], length h).

Fixpoint hset (h : heap) (a : addr) (m : mask) : heap :=
  match h, a with
  | [], _ => []
  | _ :: t, O => m :: t
  | x :: t, S a' => x :: hset t a' m
  end.

(* numpy  a.copy()  *)
Definition hcopy (h : heap) (a : addr) : heap * addr := halloc h (hget h a).

(* numpy  r |= s   (in place on r) *)
Definition hior (h : heap) (r s : addr) : heap := hset h r (map2 orb (hget h r) (hget h s)).

(* every address of h still holds the same array in h' *)
Definition frame (h h' : heap) : Prop :=
  length h <= length h' /\ forall a, a < length h -> hget h' a = hget h a.

(* executable version, used by run_case to report whether earlier arrays were altered *)
Fixpoint mask_eqb (a b : mask) : bool :=
  match a, b with
  | [], [] => true
  | x :: a', y :: b' => Bool.eqb x y && mask_eqb a' b'
  | _, _ => false
  end.
Fixpoint frameb (h h' : heap) : bool :=
  match h, h' with
  | [], _ => true
  | x :: t, y :: t' => mask_eqb x y && frameb t t'
  | _ :: _, [] => false
  end.

(* ---- the memoize store: one dict per decorated function, keyed by the call's arguments ----
   k_fn   : which decorated function (index of the class whose body defines the memoised to_mask)
   k_id   : identity of the state object (states hash by identity)
   k_d    : identity of the data object
   k_v    : the view (views compare by value: None, slices, tuples of slices)
   k_form : how the view was passed -- to_mask(data, view=v) / to_mask(data, v) / to_mask(data):
            _make_key(args, kwargs) gives three different keys for the same call *)
Record key := mkkey { k_fn : nat; k_id : nat; k_d : nat; k_v : nat; k_form : nat }.

Definition key_eqb (a b : key) : bool :=
  Nat.eqb (k_fn a) (k_fn b) && Nat.eqb (k_id a) (k_id b) && Nat.eqb (k_d a) (k_d b) &&
  Nat.eqb (k_v a) (k_v b) && Nat.eqb (k_form a) (k_form b).

Definition memo := list (key * addr).

Fixpoint mlookup (k : key) (m : memo) : option addr :=
  match m with
  | [] => None
  | (k', a) :: t => if key_eqb k k' then Some a else mlookup k t
  end.

Definition mstore (k : key) (a : addr) (m : memo) : memo := (k, a) :: m.

(* clear_cache(f): empties the whole dict of one decorated function *)
Definition mclear (f : nat) (m : memo) : memo := filter (fun e => negb (Nat.eqb (k_fn (fst e)) f)) m.

Record state := mkstate { st_heap : heap; st_memo : memo }.
Definition empty_state : state := mkstate [] [].
