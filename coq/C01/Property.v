(* C01 -- selections form a faithful Boolean algebra over membership masks.  Statements only. *)
From Coq Require Import List Bool Arith.
Import ListNotations.
From GV Require Import gen.Gen_memo C01.Heap C01.Model C01.Lemmas.
From GV Require gen.Gen_combine.

(* One evaluation through the implementation-shaped evaluator (arrays on a heap, @memoize store, in-place `|=`
   of the n-ary or), from ANY state whose cache is coherent: the returned array holds exactly the elementwise
   Boolean combination of the masks of the parts, has the length of the data (under the view), every array
   that existed before is unchanged (operands and cached masks are never altered), the cache stays coherent
   and no cache entry is redirected. *)
Theorem eval_heap_faithful :
  forall (lm den : nat -> nat -> nat -> mask) (hk : bool) (d v form : nat) (e : nexpr) (st : state) (N : nat),
    coherent den st -> sem_ok den lm d v e -> wf (erase e) -> (forall n, length (lm n d v) = N) ->
    let q := eval_heap lm true hk d v form e st in
    sget (fst q) (snd q) = eval (fun n => lm n d v) (erase e) /\
    length (sget (fst q) (snd q)) = N /\
    snd q < length (st_heap (fst q)) /\
    frame (st_heap st) (st_heap (fst q)) /\
    coherent den (fst q) /\
    memo_mono st (fst q).
Proof. exact Lemmas.eval_heap_faithful. Qed.
Print Assumptions eval_heap_faithful.

(* The result does not depend on the order or number of earlier evaluations: after any list of requests
   (any states, data, views, call forms) the next request returns what it returns from an empty cache,
   namely the elementwise evaluation; and nothing that existed at the start was altered. *)
Theorem eval_heap_history_independent :
  forall (lm den : nat -> nat -> nat -> mask) (N : nat -> nat -> nat) (rs : list req) (r : req) (st : state),
    coherent den st -> Forall (req_ok den lm N) rs -> req_ok den lm N r ->
    let q := eval_req lm true r (run_reqs lm true rs st) in
    let q0 := eval_req lm true r empty_state in
    sget (fst q) (snd q) = sget (fst q0) (snd q0) /\
    sget (fst q) (snd q) = eval (fun n => lm n (r_d r) (r_v r)) (erase (r_e r)) /\
    length (sget (fst q) (snd q)) = N (r_d r) (r_v r) /\
    frame (st_heap st) (st_heap (fst q)) /\
    coherent den (fst q).
Proof. exact Lemmas.eval_heap_history_independent. Qed.
Print Assumptions eval_heap_history_independent.

(* Evaluation is a homomorphism from expressions to masks, and element i of the result is the Boolean
   formula applied to element i of the parts. *)
Theorem eval_homomorphism : forall lm : nat -> mask,
  (forall a b, eval lm (And a b) = map2 andb (eval lm a) (eval lm b)) /\
  (forall a b, eval lm (Or a b) = map2 orb (eval lm a) (eval lm b)) /\
  (forall a b, eval lm (Xor a b) = map2 xorb (eval lm a) (eval lm b)) /\
  (forall a, eval lm (Not a) = map negb (eval lm a)) /\
  (forall a l, eval lm (MultiOr (a :: l)) = fold_left (map2 orb) (map (eval lm) l) (eval lm a)) /\
  (forall a l, eval lm (MultiOr (a :: l)) = eval lm (fold_left Or l a)) /\
  (forall N e i, (forall n, length (lm n) = N) -> wf e -> i < N ->
                 length (eval lm e) = N /\ nth i (eval lm e) false = evalb (fun n => nth i (lm n) false) e).
Proof. exact Lemmas.eval_homomorphism. Qed.
Print Assumptions eval_homomorphism.

(* Folding any list of (mode, new selection) over a subset gives the mask obtained by folding the
   corresponding Boolean operations over masks. *)
Theorem edit_modes_sequence : forall (lm : nat -> mask) (ops : list (mode * expr)) (s0 : expr),
  eval lm (apply_modes s0 ops) =
  fold_left (fun (m : mask) (mo : mode * expr) => mode_mask (fst mo) m (eval lm (snd mo))) ops (eval lm s0).
Proof. exact Lemmas.edit_modes_sequence. Qed.
Print Assumptions edit_modes_sequence.

(* copy() denotes the same selection and is a new object; the edit modes applied to state objects
   (which copy their operands) denote the edit modes on masks. *)
Theorem copy_preserves_eval : forall (lm : nat -> mask) (e : nexpr) (k : nat),
  eval lm (erase (fst (ncopy e k))) = eval lm (erase e) /\
  nid (fst (ncopy e k)) = k /\
  (forall c m new, eval lm (erase (fst (napply_mode c m e new k))) = mode_mask m (eval lm (erase e)) (eval lm (erase new))).
Proof. exact Lemmas.copy_preserves_eval. Qed.
Print Assumptions copy_preserves_eval.

(* The class table regenerated from the current source: the composite classes carry the operators their
   names say, InvertState negates its own operand, MultiOrState.to_mask copies the first mask -- so the
   instance of the model that runs against the code is the one of the theorems above (mcopy = true). *)
Theorem class_table_ops :
  table_ok = true /\ table_mcopy = true /\
  op_of_kind (kind_of cls_AndState) = Some BAnd /\ op_of_kind (kind_of cls_OrState) = Some BOr /\
  op_of_kind (kind_of cls_XorState) = Some BXor.
Proof. exact Lemmas.class_table_ops. Qed.
Print Assumptions class_table_ops.

(* Every class of the SubsetState family has its own copy() (the base one returns the empty selection). *)
Theorem every_class_overrides_copy :
  forall c, In c classes -> c_idx c <> 0 -> c_copy c <> 0.
Proof. exact Lemmas.every_class_overrides_copy. Qed.
Print Assumptions every_class_overrides_copy.

(* `_make_key` is exactly (args, frozenset(kwargs.items())) and `memoize` is the look-up / compute-and-store wrapper:
   the model's key (function cache, state identity, data, view, call form) with unhashable views bypassing the store
   is the key of the current source. *)
Theorem memo_key_plain_table : memo_key_plain = 1 /\ memo_wrapper_plain = 1.
Proof. exact Lemmas.memo_key_plain_table. Qed.
Print Assumptions memo_key_plain_table.

(* glue.core.subset.combine_multiple AS TRANSLATED FROM THE CURRENT SOURCE (coq/gen/Gen_combine.v), run on state objects with
   identities ([gcombine_n]): for EVERY operator and EVERY list of operands (any length) it does not raise, and the selection it
   returns evaluates to the elementwise reduction of the masks of the operands -- the empty selection for no operand, the
   operand's mask for one, ((m0 op m1) op m2) ... op mn otherwise; no operand is lost, repeated or reordered.  The object is the
   left fold of the binary constructor ([ecombine]), which is also what the translated code yields on expressions; only new
   identities are used. *)
Theorem combine_multiple_masks :
  forall (lm : nat -> mask) (c : ccfg) (femp : option nat) (emp : nat) (op : binop) (l : list nexpr) (k : nat),
    exists r,
      gcombine_n c femp emp op l k = Some r /\
      eval lm (erase (fst r)) = combine_masks (lm emp) op (map (fun e => eval lm (erase e)) l) /\
      erase (fst r) = ecombine emp op (map erase l) /\
      gcombine_e emp op (map erase l) = Some (ecombine emp op (map erase l)) /\
      k <= snd r /\
      (forall s0 s1 rest, l = s0 :: s1 :: rest ->
         eval lm (erase (fst r)) =
         fold_left (map2 (bop op)) (map (fun e => eval lm (erase e)) rest)
                   (map2 (bop op) (eval lm (erase s0)) (eval lm (erase s1)))).
Proof. exact Lemmas.combine_multiple_masks. Qed.
Print Assumptions combine_multiple_masks.

(* The other entry points translated from the current source are the model's: SubsetState.__and__/__or__/__xor__/__invert__ build
   And/Or/Xor/Not of (self, other) in this order; the edit modes ReplaceMode/NewMode/AndMode/OrMode/XorMode/AndNotMode are
   [apply_mode] (expressions) and [napply_mode] (objects; so [edit_modes_sequence] and [copy_preserves_eval] speak about the
   translated modes, which are the ones run against the code); the operators of Subset objects (Subset.__and__ -> _combine ->
   operator.and_) and of SubsetGroup objects are the binary constructor on the held states; EditSubsetMode._combine_data makes
   one new group holding a copy when there is no edit subset or the mode is NewMode, else applies the mode to every edit subset. *)
Theorem generated_entry_points :
  (forall emp a b, Gen_combine.state_and expr (eprims emp) a b = And a b /\ Gen_combine.state_or expr (eprims emp) a b = Or a b /\
                   Gen_combine.state_xor expr (eprims emp) a b = Xor a b /\ Gen_combine.state_invert expr (eprims emp) a = Not a) /\
  (forall emp m old new, gen_mode (eprims emp) m old new = apply_mode m old new) /\
  (forall c m old new k, gapply_mode_n c m old new k = napply_mode c m old new k) /\
  (forall c ops s0 k, gapply_modes_n c s0 ops k = napply_modes c s0 ops k) /\
  (forall c a b k, gvia_n c 0 1 a (Some b) k = Some (nbin c BAnd a b k) /\ gvia_n c 0 2 a (Some b) k = Some (nbin c BOr a b k) /\
                   gvia_n c 0 3 a (Some b) k = Some (nbin c BXor a b k) /\ gvia_n c 0 4 a None k = Some (nnot c a k) /\
                   gvia_n c 1 1 a (Some b) k = Some (nbin c BAnd a b k) /\ gvia_n c 1 2 a (Some b) k = Some (nbin c BOr a b k) /\
                   gvia_n c 1 3 a (Some b) k = Some (nbin c BXor a b k) /\ gvia_n c 1 4 a None k = Some (nnot c a k)) /\
  (forall emp (es : list expr) isnew m new,
     Gen_combine.combine_data expr (eprims emp) es isnew (gen_mode (eprims emp) m) new =
     if (match es with [] => true | _ => false end) || isnew then [new] else map (fun s => apply_mode m s new) es).
Proof. exact Lemmas.generated_entry_points. Qed.
Print Assumptions generated_entry_points.
