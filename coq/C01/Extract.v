From Coq Require Import ZArith ExtrOcamlBasic.
From GV Require Import Common.Wire C01.Model.
Extraction "c01_model.ml" run_case Z.add Z.mul Z.div_eucl Z.opp.
