(* C01 -- the theorems Property.v states (re-exports the pieces proved in Lemmas1 / Lemmas2). *)
From Coq Require Import List Bool Arith Lia.
Import ListNotations.
From GV Require Import gen.Gen_memo C01.Heap C01.HeapLemmas C01.Model.
From GV Require Export C01.Lemmas1 C01.Lemmas2 C01.Lemmas3.

Lemma coherent_empty : forall den, coherent den empty_state.
Proof. intros den k a H. simpl in H. discriminate. Qed.

(* one evaluation through the heap / memo store *)
Theorem eval_heap_faithful :
  forall (lm den : nat -> nat -> nat -> mask) (hk : bool) (d v form : nat) (e : nexpr) (st : state) (N : nat),
    coherent den st -> sem_ok den lm d v e -> wf (erase e) -> (forall n, length (lm n d v) = N) ->
    let q := eval_heap lm true hk d v form e st in
    sget (fst q) (snd q) = eval (fun n => lm n d v) (erase e) /\
    length (sget (fst q) (snd q)) = N /\
    snd q < length (st_heap (fst q)) /\
    frame (st_heap st) (st_heap (fst q)) /\
    coherent den (fst q) /\
    memo_mono st (fst q).
Proof.
  intros lm den hk d v form e st N C Ok Wf Hlen q.
  pose proof (eval_heap_good lm den hk d v e form st C Ok) as G. fold q in G.
  destruct G as [Ha [Hv [F [C' M]]]].
  split; [auto|]. split; [rewrite Hv; apply eval_length; auto|].
  split; [auto|]. split; [auto|]. split; auto.
Qed.

Lemma run_reqs_inv : forall lm den N rs st,
  coherent den st -> Forall (req_ok den lm N) rs ->
  coherent den (run_reqs lm true rs st) /\ frame (st_heap st) (st_heap (run_reqs lm true rs st)).
Proof.
  intros lm den N rs. unfold run_reqs.
  induction rs as [|r rs IH]; intros st C H; simpl.
  - split; auto. apply frame_refl.
  - inversion H as [|? ? [Ok [Wf Hl]] H']; subst.
    pose proof (eval_heap_good lm den (r_hk r) (r_d r) (r_v r) (r_e r) (r_form r) st C Ok) as G.
    unfold eval_req. destruct G as [_ [_ [F [C' _]]]].
    destruct (IH _ C' H') as [C2 F2]. split; auto.
    eapply frame_trans; eauto.
Qed.

(* any list of earlier evaluation requests leaves the result of the next one what it is from scratch *)
Theorem eval_heap_history_independent :
  forall (lm den : nat -> nat -> nat -> mask) (N : nat -> nat -> nat) (rs : list req) (r : req) (st : state),
    coherent den st -> Forall (req_ok den lm N) rs -> req_ok den lm N r ->
    let q := eval_req lm true r (run_reqs lm true rs st) in
    let q0 := eval_req lm true r empty_state in
    sget (fst q) (snd q) = sget (fst q0) (snd q0) /\
    sget (fst q) (snd q) = eval (fun n => lm n (r_d r) (r_v r)) (erase (r_e r)) /\
    length (sget (fst q) (snd q)) = N (r_d r) (r_v r) /\
    frame (st_heap st) (st_heap (fst q)) /\
    coherent den (fst q).
Proof.
  intros lm den N rs r st C Hrs [Ok [Wf Hl]] q q0.
  destruct (run_reqs_inv lm den N rs st C Hrs) as [C1 F1].
  pose proof (eval_heap_faithful lm den (r_hk r) (r_d r) (r_v r) (r_form r) (r_e r) _ _ C1 Ok Wf Hl) as G.
  pose proof (eval_heap_faithful lm den (r_hk r) (r_d r) (r_v r) (r_form r) (r_e r) _ _ (coherent_empty den) Ok Wf Hl) as G0.
  unfold eval_req in q, q0. fold q in G. fold q0 in G0.
  destruct G as [Hv [Hn [_ [F [C' _]]]]]. destruct G0 as [Hv0 _].
  split; [rewrite Hv, Hv0; reflexivity|].
  split; [auto|]. split; [auto|]. split; [|auto].
  eapply frame_trans; eauto.
Qed.

(* ---- facts about the regenerated class table (the current source) ---- *)
Definition table_ok : bool :=
  Nat.eqb (kind_of cls_AndState) 1 && Nat.eqb (kind_of cls_OrState) 2 && Nat.eqb (kind_of cls_XorState) 3 &&
  Nat.eqb (kind_of cls_InvertState) 4 && Nat.eqb (detail_of cls_InvertState) 1 &&
  Nat.eqb (kind_of cls_MultiOrState) 5 && Nat.eqb (detail_of cls_MultiOrState) 1.

(* the composite classes apply the operators their names say, InvertState negates its own operand,
   MultiOrState copies the first mask before or-ing in place: the model instance run against the code is
   the one the theorems are about ([table_mcopy] = true) *)
Theorem class_table_ops :
  table_ok = true /\ table_mcopy = true /\
  op_of_kind (kind_of cls_AndState) = Some BAnd /\ op_of_kind (kind_of cls_OrState) = Some BOr /\
  op_of_kind (kind_of cls_XorState) = Some BXor.
Proof. vm_compute. repeat split; reflexivity. Qed.

(* the memo key of glue/core/decorators.py is the plain argument tuple (state, data, view / call form): views enter it as they
   are (a list or array view is unhashable and bypasses the cache; a tuple and a list never share an entry), and `memoize`
   is the wrapper [with_memo] describes *)
Theorem memo_key_plain_table : memo_key_plain = 1 /\ memo_wrapper_plain = 1.
Proof. vm_compute. split; reflexivity. Qed.

(* every class of the family other than the base class has its own copy(): the inherited one returns an
   empty selection *)
Theorem every_class_overrides_copy :
  forall c, In c classes -> c_idx c <> 0 -> c_copy c <> 0.
Proof.
  assert (H : forallb (fun c => Nat.eqb (c_idx c) 0 || negb (Nat.eqb (c_copy c) 0)) classes = true) by (vm_compute; reflexivity).
  rewrite forallb_forall in H. intros c Hin Hne. specialize (H c Hin).
  apply orb_true_iff in H as [H|H].
  - apply Nat.eqb_eq in H. contradiction.
  - apply negb_true_iff in H. apply Nat.eqb_neq in H. auto.
Qed.

(* re-exports under this module's name (Property.v refers to Lemmas.<name>) *)
Definition eval_homomorphism := Lemmas1.eval_homomorphism.
Definition edit_modes_sequence := Lemmas1.edit_modes_sequence.
Definition copy_preserves_eval := Lemmas1.copy_preserves_eval.
Definition combine_multiple_masks := Lemmas3.combine_multiple_masks.
Definition generated_entry_points := Lemmas3.generated_entry_points.
