(* C06 — the TRANSLATED functions (coq/gen/Gen_groups.v, regenerated from /repo on every run) against the hand model:
   part 1, the methods the handlers are made of (BaseData.add_subset, Subset.delete, SubsetGroup._add_data / _remove_data)
   and the frame of everything they leave alone. *)
From Coq Require Import ZArith List Bool Lia.
Import ListNotations.
From GV Require Import Common.Wire gen.Gen_groups C06.Model C06.Lemmas1 C06.Lemmas2 C06.Lemmas3 C06.Lemmas.
Open Scope Z_scope.

(* the hand-model state a heap denotes; the ghost fields and the group attributes are taken from `st` *)
Definition abs (h : heap) (st : state) : state :=
  mkState (h_data h) (h_groups h) (h_dsubs h) (h_gsubs h) (gattrs st) (rdata st) (rgroups st)
          (h_next_did h) (h_next_gid h) (h_next_sid h) (h_sg_count h) (h_ncolors h).

(* collection messages waiting in the hub's queue *)
Definition is_dc (m : message) : bool :=
  match m with DataCollectionAddMessage _ | DataCollectionDeleteMessage _ => true | _ => false end.
Definition dcq (q : list message) : list message := filter is_dc q.

Lemma dcq_app : forall a b, dcq (a ++ b) = dcq a ++ dcq b.
Proof. intros. unfold dcq. apply filter_app. Qed.

(* what the low-level methods never touch *)
Record lowframe (h h' : heap) : Prop := mkLow {
  lf_subs : h_subs h' = h_subs h;
  lf_paused : h_paused h' = h_paused h;
  lf_dcq : dcq (h_queue h') = dcq (h_queue h);
  lf_data : h_data h' = h_data h;
  lf_groups : h_groups h' = h_groups h;
  lf_glabel : h_glabel h' = h_glabel h;
  lf_gcolor : h_gcolor h' = h_gcolor h;
  lf_did : h_next_did h' = h_next_did h;
  lf_gid : h_next_gid h' = h_next_gid h;
  lf_sg : h_sg_count h' = h_sg_count h;
  lf_nc : h_ncolors h' = h_ncolors h
}.

Lemma lowframe_refl : forall h, lowframe h h.
Proof. intros. constructor; reflexivity. Qed.

Lemma lowframe_trans : forall a b c, lowframe a b -> lowframe b c -> lowframe a c.
Proof. intros a b c [] []. constructor; congruence. Qed.

Lemma lf_bsm : forall m h, is_dc m = false -> lowframe h (hub_broadcast_subset_message m h).
Proof.
  intros m h Hm. unfold hub_broadcast_subset_message. destruct (0 <? h_paused h).
  - constructor; try reflexivity. cbn. rewrite dcq_app. cbn. rewrite Hm. apply app_nil_r.
  - constructor; reflexivity.
Qed.

(* ---------- list.remove against the filters of the hand model ---------- *)
Lemma filter_all_in : forall (A : Type) (p : A -> bool) (l : list A), (forall x, In x l -> p x = true) -> filter p l = l.
Proof.
  intros A p l H. induction l as [|a l IH]; simpl; [reflexivity|].
  rewrite (H a (or_introl eq_refl)). f_equal. apply IH. intros x Hx. apply H. right. exact Hx.
Qed.

Lemma remove_stored_filter : forall s (l : list (Z * Z)),
  NoDup (map fst l) -> remove_stored s l = filter (fun p => negb (fst p =? s)) l.
Proof.
  intros s l. induction l as [|p l IH]; intros Hnd; simpl.
  - reflexivity.
  - inversion Hnd as [|x xs Hnin Hnd']; subst.
    destruct (fst p =? s) eqn:Hp; simpl.
    + apply Z.eqb_eq in Hp. symmetry. apply filter_all_in. intros q Hq.
      apply negb_true_iff. apply Z.eqb_neq. intros Heq. apply Hnin. rewrite Hp, <- Heq.
      apply in_map. exact Hq.
    + f_equal. apply IH. exact Hnd'.
Qed.

Lemma remove_first_removez : forall x l, NoDup l -> remove_first x l = removez x l.
Proof.
  intros x l. induction l as [|y l IH]; intros Hnd; simpl.
  - reflexivity.
  - inversion Hnd as [|a b Hnin Hnd']; subst. unfold removez. simpl.
    destruct (y =? x) eqn:Hy; simpl.
    + apply Z.eqb_eq in Hy. subst y. symmetry. apply filter_all_in. intros q Hq.
      apply negb_true_iff. apply Z.eqb_neq. intros Heq. subst q. exact (Hnin Hq).
    + f_equal. apply IH. exact Hnd'.
Qed.

Lemma hmemz_memz : forall x l, hmemz x l = memz x l.
Proof. reflexivity. Qed.

Lemma sub_in_data : forall s d h,
  sub_in s (subsets_of_data d h) = existsb (fun p => fst p =? sub_id s) (h_dsubs h d).
Proof.
  intros. unfold sub_in, subsets_of_data. induction (h_dsubs h d) as [|p l IH]; simpl; [reflexivity|].
  rewrite IH. reflexivity.
Qed.

Lemma existsb_fst_false : forall s (l : list (Z * Z)),
  ~ In s (map fst l) -> existsb (fun p => fst p =? s) l = false.
Proof.
  intros s l H. induction l as [|p l IH]; simpl; [reflexivity|].
  simpl in H. destruct (fst p =? s) eqn:Hp.
  - apply Z.eqb_eq in Hp. exfalso. apply H. left. exact Hp.
  - apply IH. intros Hin. apply H. right. exact Hin.
Qed.

Lemma existsb_fst_true : forall s (l : list (Z * Z)),
  In s (map fst l) -> existsb (fun p => fst p =? s) l = true.
Proof.
  intros s l H. apply existsb_exists. apply in_map_iff in H. destruct H as [p [Hp Hin]].
  exists p. split; [exact Hin | apply Z.eqb_eq; exact Hp].
Qed.

(* ---------- BaseData.add_subset ---------- *)
Lemma add_subset_eq : forall h st d s,
  sub_data s = d -> ~ In (sub_id s) (map fst (h_dsubs h d)) ->
  abs (BaseData_add_subset d s None h) st = add_subset d (sub_id s, sub_group s) (abs h st) /\
  lowframe h (BaseData_add_subset d s None h) /\
  h_next_sid (BaseData_add_subset d s None h) = h_next_sid h.
Proof.
  intros h st d s Hd Hfresh. unfold BaseData_add_subset.
  rewrite sub_in_data. rewrite (existsb_fst_false _ _ Hfresh).
  rewrite Hd. rewrite Z.eqb_refl. cbn [negb].
  destruct (h_dhub _ d) eqn:Hhub.
  - cbv zeta. pose proof (lf_bsm (SubsetCreateMessage s)
        (hset_dsubs (hupd (h_dsubs h) d (h_dsubs h d ++ [stored_on_data s])) h) eq_refl) as Hf.
    unfold hub_broadcast_subset_message in *.
    destruct (0 <? h_paused _) eqn:Hp.
    + split; [reflexivity|]. split; [|reflexivity].
      destruct Hf. constructor; assumption.
    + split; [reflexivity|]. split; [|reflexivity].
      destruct Hf. constructor; assumption.
  - split; [reflexivity|]. split; [|reflexivity]. constructor; reflexivity.
Qed.

(* ---------- Subset.delete ---------- *)
Lemma subset_delete_eq : forall h st s,
  NoDup (map fst (h_dsubs h (sub_data s))) -> In (sub_id s) (map fst (h_dsubs h (sub_data s))) ->
  abs (Subset_delete s h) st = subset_delete (sub_id s) (sub_data s) (abs h st) /\
  lowframe h (Subset_delete s h) /\
  h_next_sid (Subset_delete s h) = h_next_sid h /\ h_gsubs (Subset_delete s h) = h_gsubs h.
Proof.
  intros h st s Hnd Hin. unfold Subset_delete. cbv zeta.
  assert (Hin' : sub_in s (subsets_of_data (sub_data s)
             (hset_bcast (hupd (h_bcast h) (sub_id s) false) h)) = true).
  { rewrite sub_in_data. apply existsb_fst_true. exact Hin. }
  rewrite Hin'. cbn [andb].
  change (h_dsubs (hset_bcast (hupd (h_bcast h) (sub_id s) false) h)) with (h_dsubs h).
  rewrite (remove_stored_filter _ _ Hnd).
  destruct (h_bcast h (sub_id s) && true && h_dhub h (sub_data s)) eqn:Hb.
  - match goal with |- context [hub_broadcast_subset_message ?m ?hh] =>
      pose proof (lf_bsm m hh eq_refl) as Hf; unfold hub_broadcast_subset_message in *;
      destruct (0 <? h_paused hh) eqn:Hp end.
    + split; [reflexivity|]. split; [|split; reflexivity]. destruct Hf. constructor; assumption.
    + split; [reflexivity|]. split; [|split; reflexivity]. destruct Hf. constructor; assumption.
  - split; [reflexivity|]. split; [|split; reflexivity]. constructor; reflexivity.
Qed.

(* ---------- SubsetGroup._add_data ---------- *)
Lemma guard_group : forall g d h,
  existsb (fun s => sub_data s =? d) (subsets_of_group g h) = existsb (fun p => snd p =? d) (h_gsubs h g).
Proof.
  intros. unfold subsets_of_group. induction (h_gsubs h g) as [|p l IH]; simpl; [reflexivity|].
  rewrite IH. reflexivity.
Qed.

Lemma existsb_snd_false : forall d (l : list (Z * Z)),
  ~ In d (map snd l) -> existsb (fun p => snd p =? d) l = false.
Proof.
  intros d l H. induction l as [|p l IH]; simpl; [reflexivity|].
  simpl in H. destruct (snd p =? d) eqn:Hp.
  - apply Z.eqb_eq in Hp. exfalso. apply H. left. exact Hp.
  - apply IH. intros Hin. apply H. right. exact Hin.
Qed.

Lemma existsb_snd_true : forall d (l : list (Z * Z)),
  In d (map snd l) -> existsb (fun p => snd p =? d) l = true.
Proof.
  intros d l H. apply existsb_exists. apply in_map_iff in H. destruct H as [p [Hp Hin]].
  exists p. split; [exact Hin | apply Z.eqb_eq; exact Hp].
Qed.

(* the guard `any(s.data is data for s in self.subsets)` holds: nothing happens *)
Lemma add_data_skip : forall h g d, In d (map snd (h_gsubs h g)) -> SubsetGroup__add_data g d h = h.
Proof.
  intros h g d H. unfold SubsetGroup__add_data. rewrite guard_group. rewrite (existsb_snd_true _ _ H). reflexivity.
Qed.

(* the guard fails: the hand model's `group_add_data` *)
Lemma add_data_eq : forall h st g d,
  ~ In d (map snd (h_gsubs h g)) ->
  (forall x, In x (map fst (h_dsubs h d)) -> x < h_next_sid h) ->
  abs (SubsetGroup__add_data g d h) st = group_add_data g d (abs h st) /\
  lowframe h (SubsetGroup__add_data g d h).
Proof.
  intros h st g d Hg Hfr. unfold SubsetGroup__add_data. rewrite guard_group. rewrite (existsb_snd_false _ _ Hg).
  unfold new_GroupedSubset. cbv zeta.
  set (n := h_next_sid h).
  set (h1 := hset_bcast (hupd (h_bcast h) n false) (hset_next_sid (n + 1) h)).
  set (s := mkSub n d g).
  assert (Hfresh : ~ In (sub_id s) (map fst (h_dsubs h1 d))).
  { cbn. intros Hin. apply Hfr in Hin. unfold n in Hin. lia. }
  destruct (add_subset_eq h1 st d s eq_refl Hfresh) as [Habs [Hlf Hsid]].
  set (h2 := BaseData_add_subset d s None h1) in *.
  assert (Hgs : h_gsubs h2 = h_gsubs h).
  { pose proof (f_equal gsubs Habs) as E. cbn in E. exact E. }
  split.
  - change (abs (hset_gsubs (hupd (h_gsubs h2) g (h_gsubs h2 g ++ [stored_on_group s])) h2) st)
      with (set_gsubs (hupd (h_gsubs h2) g (h_gsubs h2 g ++ [stored_on_group s])) (abs h2 st)).
    rewrite Habs, Hgs. reflexivity.
  - destruct Hlf. constructor; cbn; try assumption.
Qed.

(* ---------- SubsetGroup._remove_data ---------- *)
Definition rd_step (g d : Z) (h : heap) (s : sub) : heap :=
  if sub_data s =? d
  then Subset_delete s (hset_gsubs (hupd (h_gsubs h) g (remove_stored (sub_id s) (h_gsubs h g))) h)
  else h.

Lemma remove_data_unfold : forall g d h,
  SubsetGroup__remove_data g d h = fold_left (rd_step g d) (subsets_of_group g h) h.
Proof. intros. reflexivity. Qed.

Lemma rd_loop_eq : forall g d l h st,
  NoDup (map fst l) -> NoDup (map fst (h_gsubs h g)) -> NoDup (map fst (h_dsubs h d)) ->
  (forall p, In p l -> snd p = d -> In (fst p) (map fst (h_dsubs h d))) ->
  abs (fold_left (rd_step g d) (map (fun p => mkSub (fst p) (snd p) g) l) h) st
    = fold_left (grd_step g d) l (abs h st) /\
  lowframe h (fold_left (rd_step g d) (map (fun p => mkSub (fst p) (snd p) g) l) h).
Proof.
  intros g d l. induction l as [|p l IH]; intros h st Hl Hg Hd Hatt; simpl.
  - split; [reflexivity | apply lowframe_refl].
  - inversion Hl as [|x xs Hnin Hl']; subst.
    unfold rd_step at 2 4. unfold grd_step at 2. cbn [sub_data sub_id].
    destruct (snd p =? d) eqn:Hp.
    + apply Z.eqb_eq in Hp.
      set (h1 := hset_gsubs (hupd (h_gsubs h) g (remove_stored (fst p) (h_gsubs h g))) h).
      set (s := mkSub (fst p) (snd p) g).
      assert (Hd1 : NoDup (map fst (h_dsubs h1 (sub_data s)))) by (cbn; rewrite Hp; exact Hd).
      assert (Hin1 : In (sub_id s) (map fst (h_dsubs h1 (sub_data s)))).
      { cbn. rewrite Hp. apply Hatt; [left; reflexivity | exact Hp]. }
      destruct (subset_delete_eq h1 st s Hd1 Hin1) as [Habs [Hlf [Hsid Hgs]]].
      set (h2 := Subset_delete s h1) in *.
      assert (Hds : h_dsubs h2 = upd (h_dsubs h) d (filter (fun q => negb (fst q =? fst p)) (h_dsubs h d))).
      { change (h_dsubs h2) with (dsubs (abs h2 st)). rewrite Habs. unfold s. cbn [sub_id sub_data]. rewrite Hp. reflexivity. }
      assert (Hgs2 : h_gsubs h2 = hupd (h_gsubs h) g (filter (fun q => negb (fst q =? fst p)) (h_gsubs h g))).
      { rewrite Hgs. cbn. rewrite (remove_stored_filter _ _ Hg). reflexivity. }
      destruct (IH h2 st Hl') as [IHa IHf].
      * rewrite Hgs2. unfold hupd. rewrite Z.eqb_refl. apply NoDup_map_filter. exact Hg.
      * rewrite Hds. unfold upd. rewrite Z.eqb_refl. apply NoDup_map_filter. exact Hd.
      * intros q Hq Hqd. rewrite Hds. unfold upd. rewrite Z.eqb_refl.
        apply in_map_iff. pose proof (Hatt q (or_intror Hq) Hqd) as Hin. apply in_map_iff in Hin.
        destruct Hin as [r [Hr Hrin]]. exists r. split; [exact Hr|]. apply filter_In. split; [exact Hrin|].
        apply negb_true_iff. apply Z.eqb_neq. rewrite Hr. intros Heq. apply Hnin. rewrite <- Heq.
        apply in_map. exact Hq.
      * split.
        -- rewrite IHa. f_equal. rewrite Habs.
           change (abs h1 st) with (set_gsubs (hupd (h_gsubs h) g (remove_stored (fst p) (h_gsubs h g))) (abs h st)).
           rewrite (remove_stored_filter _ _ Hg). cbn [sub_id sub_data s]. rewrite Hp. reflexivity.
        -- eapply lowframe_trans; [| exact IHf]. destruct Hlf. constructor; cbn in *; assumption.
    + apply IH; try assumption. intros q Hq. apply Hatt. right. exact Hq.
Qed.
