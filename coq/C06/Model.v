(* C06 — one subset per (dataset, subset group): executable model.

   The model is a small heap mirroring the three lists the implementation keeps
   (glue/core @ the tree that contains the `fix:` commit for F-C06):

     DataCollection._data            -> coll    : list did
     DataCollection._subset_groups   -> groups  : list gid
     Data._subsets   (per dataset)   -> dsubs d : list (sid * gid)    the GroupedSubset s with s.group = g
     SubsetGroup.subsets (per group) -> gsubs g : list (sid * did)    the GroupedSubset s with s.data  = d
     SubsetGroup.subset_state/label/style -> gattrs g  (a GroupedSubset reads all three through its group:
                                             `Pointer('group.subset_state')`, `Pointer('group.label')`, `style` property)

   Every operation is written as the loop the code runs (hub delivery to the
   groups' `_add_data` / `_remove_data` handlers in subscription order, `register`,
   `Subset.delete`), not as a closed form; the closed forms are lemmas.

   Messages emitted inside `hub.delay_callbacks()` by new_subset_group /
   remove_subset_group are SubsetCreate/SubsetDelete messages only; none of the
   modelled state is changed by a handler of those, so the block is atomic here. *)
From Coq Require Import ZArith List Bool.
Import ListNotations.
From GV Require Import Common.Wire gen.Gen_groups.
Open Scope Z_scope.

(* ---------- selection expressions (what a group's subset_state can be) ---------- *)
Inductive sexpr : Type :=
| SEmpty                      (* SubsetState() : the empty selection a new group starts with *)
| SLeaf (n : Z)               (* an atomic state, identified by n *)
| SNot (a : sexpr)            (* InvertState *)
| SAnd (a b : sexpr)          (* AndState(a, b) *)
| SOr (a b : sexpr)
| SXor (a b : sexpr).

Fixpoint sexpr_eqb (a b : sexpr) : bool :=
  match a, b with
  | SEmpty, SEmpty => true
  | SLeaf n, SLeaf m => n =? m
  | SNot x, SNot y => sexpr_eqb x y
  | SAnd x1 x2, SAnd y1 y2 => sexpr_eqb x1 y1 && sexpr_eqb x2 y2
  | SOr x1 x2, SOr y1 y2 => sexpr_eqb x1 y1 && sexpr_eqb x2 y2
  | SXor x1 x2, SXor y1 y2 => sexpr_eqb x1 y1 && sexpr_eqb x2 y2
  | _, _ => false
  end.

Record gattr : Type := mkGattr { g_state : sexpr; g_label : Z; g_style : Z }.

(* ---------- state ---------- *)
Record state : Type := mkState {
  coll : list Z;                 (* DataCollection._data, in order *)
  groups : list Z;               (* DataCollection._subset_groups, in order (= hub subscription order) *)
  dsubs : Z -> list (Z * Z);     (* Data._subsets : (sid, gid) *)
  gsubs : Z -> list (Z * Z);     (* SubsetGroup.subsets : (sid, did) *)
  gattrs : Z -> gattr;
  rdata : list Z;                (* ghost: datasets removed and not currently in the collection *)
  rgroups : list Z;              (* ghost: groups removed *)
  next_did : Z;                  (* datasets 0 .. next_did-1 exist as objects (pool + merge results) *)
  next_gid : Z;                  (* groups   0 .. next_gid-1 were created *)
  next_sid : Z;                  (* GroupedSubset objects 0 .. next_sid-1 were created *)
  sg_count : Z;                  (* DataCollection._sg_count *)
  ncolors : Z                    (* len(settings.SUBSET_COLORS), read from the implementation *)
}.

Definition upd {A} (f : Z -> A) (k : Z) (v : A) : Z -> A := fun x => if x =? k then v else f x.
Definition memz (x : Z) (l : list Z) : bool := existsb (Z.eqb x) l.
Definition removez (x : Z) (l : list Z) : list Z := filter (fun y => negb (y =? x)) l.
Definition zrange (n : Z) : list Z := map Z.of_nat (seq 0 (Z.to_nat n)).

Definition set_coll v st := mkState v (groups st) (dsubs st) (gsubs st) (gattrs st) (rdata st) (rgroups st) (next_did st) (next_gid st) (next_sid st) (sg_count st) (ncolors st).
Definition set_groups v st := mkState (coll st) v (dsubs st) (gsubs st) (gattrs st) (rdata st) (rgroups st) (next_did st) (next_gid st) (next_sid st) (sg_count st) (ncolors st).
Definition set_dsubs v st := mkState (coll st) (groups st) v (gsubs st) (gattrs st) (rdata st) (rgroups st) (next_did st) (next_gid st) (next_sid st) (sg_count st) (ncolors st).
Definition set_gsubs v st := mkState (coll st) (groups st) (dsubs st) v (gattrs st) (rdata st) (rgroups st) (next_did st) (next_gid st) (next_sid st) (sg_count st) (ncolors st).
Definition set_gattrs v st := mkState (coll st) (groups st) (dsubs st) (gsubs st) v (rdata st) (rgroups st) (next_did st) (next_gid st) (next_sid st) (sg_count st) (ncolors st).
Definition set_rdata v st := mkState (coll st) (groups st) (dsubs st) (gsubs st) (gattrs st) v (rgroups st) (next_did st) (next_gid st) (next_sid st) (sg_count st) (ncolors st).
Definition set_rgroups v st := mkState (coll st) (groups st) (dsubs st) (gsubs st) (gattrs st) (rdata st) v (next_did st) (next_gid st) (next_sid st) (sg_count st) (ncolors st).
Definition set_next_did v st := mkState (coll st) (groups st) (dsubs st) (gsubs st) (gattrs st) (rdata st) (rgroups st) v (next_gid st) (next_sid st) (sg_count st) (ncolors st).
Definition set_next_gid v st := mkState (coll st) (groups st) (dsubs st) (gsubs st) (gattrs st) (rdata st) (rgroups st) (next_did st) v (next_sid st) (sg_count st) (ncolors st).
Definition set_next_sid v st := mkState (coll st) (groups st) (dsubs st) (gsubs st) (gattrs st) (rdata st) (rgroups st) (next_did st) (next_gid st) v (sg_count st) (ncolors st).
Definition set_sg_count v st := mkState (coll st) (groups st) (dsubs st) (gsubs st) (gattrs st) (rdata st) (rgroups st) (next_did st) (next_gid st) (next_sid st) v (ncolors st).

Definition default_attr : gattr := mkGattr SEmpty 0 0.

(* pool datasets 0..pool-1 exist but are not in the collection; no group *)
Definition init (pool ncol : Z) : state :=
  mkState [] [] (fun _ => []) (fun _ => []) (fun _ => default_attr) [] [] pool 0 0 0 ncol.

(* ---------- the methods the handlers are made of ---------- *)

(* Data.add_subset(s) for a GroupedSubset s of group g: `self._subsets.append(subset)` *)
Definition add_subset (d : Z) (p : Z * Z) (st : state) : state :=
  set_dsubs (upd (dsubs st) d (dsubs st d ++ [p])) st.

(* Subset.delete() of the subset s whose data is d: `self.data._subsets.remove(self)`
   (removal by identity; subset ids are unique, so it is the filter on the id) *)
Definition subset_delete (s d : Z) (st : state) : state :=
  set_dsubs (upd (dsubs st) d (filter (fun p => negb (fst p =? s)) (dsubs st d))) st.

(* SubsetGroup._add_data(data):  s = GroupedSubset(data, self); data.add_subset(s); self.subsets.append(s) *)
Definition group_add_data (g d : Z) (st : state) : state :=
  let s := next_sid st in
  let st1 := add_subset d (s, g) st in
  set_next_sid (s + 1) (set_gsubs (upd (gsubs st1) g (gsubs st1 g ++ [(s, d)])) st1).

(* SubsetGroup._remove_data(data), REPAIRED code:
     for s in list(self.subsets):
         if s.data is data:
             self.subsets.remove(s)
             s.delete()                     <- added by the fix (F-C06)            *)
Definition group_remove_data (g d : Z) (st : state) : state :=
  fold_left (fun st p =>
               if snd p =? d
               then subset_delete (fst p) d
                      (set_gsubs (upd (gsubs st) g (filter (fun q => negb (fst q =? fst p)) (gsubs st g))) st)
               else st)
            (gsubs st g) st.

(* SubsetGroup.register(collection): one GroupedSubset per dataset of the collection, appended to the
   group's list and attached to the dataset (the two loops of `register` are fused; the group is fresh) *)
Definition group_register (g : Z) (st : state) : state :=
  fold_left (fun st d => group_add_data g d st) (coll st) st.

Definition known_data (d : Z) (st : state) : bool := (0 <=? d) && (d <? next_did st).
Definition known_group (g : Z) (st : state) : bool := (0 <=? g) && (g <? next_gid st).

(* DataCollection.append(data): no-op when present; DataCollectionAddMessage reaches each live group's
   `_add_data` in subscription order.  (`for s in data.subsets: s.register()` re-attaches subsets the data
   already carries: `add_subset` returns at once for those, nothing changes.) *)
Definition do_append (d : Z) (st : state) : state :=
  if memz d (coll st) then st
  else if negb (known_data d st) then st
  else
    let st1 := set_rdata (removez d (rdata st)) (set_coll (coll st ++ [d]) st) in
    fold_left (fun st g => group_add_data g d st) (groups st1) st1.

(* DataCollection.remove(data): no-op when absent; DataCollectionDeleteMessage reaches each live group's `_remove_data` *)
Definition do_remove (d : Z) (st : state) : state :=
  if negb (memz d (coll st)) then st
  else
    let st1 := set_rdata (removez d (rdata st) ++ [d]) (set_coll (removez d (coll st)) st) in
    fold_left (fun st g => group_remove_data g d st) (groups st1) st1.

(* DataCollection.new_subset_group(subset_state=e):  label 'Subset %i' % _sg_count, colour SUBSET_COLORS[count % len] *)
Definition do_new_group (e : option sexpr) (st : state) : state :=
  let g := next_gid st in
  let n := sg_count st in
  let a := mkGattr (match e with Some x => x | None => SEmpty end) (n + 1) (- 1 - (n mod ncolors st)) in
  let st1 := set_gattrs (upd (gattrs st) g a)
               (set_groups (groups st ++ [g]) (set_next_gid (g + 1) (set_sg_count (n + 1) st))) in
  group_register g st1.

(* DataCollection.remove_subset_group(grp): drop from the list, `for s in grp.subsets: s.delete()`, unsubscribe.
   grp.subsets itself is left as it is (a dead list on a dead object). *)
Definition do_remove_group (g : Z) (st : state) : state :=
  if negb (memz g (groups st)) then st
  else
    let st1 := set_rgroups (rgroups st ++ [g]) (set_groups (removez g (groups st)) st) in
    fold_left (fun st p => subset_delete (fst p) (snd p) st) (gsubs st1 g) st1.

Definition set_attr (g : Z) (f : gattr -> gattr) (st : state) : state :=
  if known_group g st then set_gattrs (upd (gattrs st) g (f (gattrs st g))) st else st.

(* ---------- operations ---------- *)
Inductive op : Type :=
| Append (d : Z)
| Remove (d : Z)
| NewGroup (e : option sexpr)
| RemoveGroup (g : Z)
| SetState (g : Z) (e : sexpr)
| SetLabel (g : Z) (l : Z)
| SetStyle (g : Z) (v : Z)
| Merge (ds : list Z)
| Clear.

Definition step (st : state) (o : op) : state :=
  match o with
  | Append d => do_append d st
  | Remove d => do_remove d st
  | NewGroup e => do_new_group e st
  | RemoveGroup g => do_remove_group g st
  | SetState g e => set_attr g (fun a => mkGattr e (g_label a) (g_style a)) st
  | SetLabel g l => set_attr g (fun a => mkGattr (g_state a) l (g_style a)) st
  | SetStyle g v => set_attr g (fun a => mkGattr (g_state a) (g_label a) v) st
  | Merge ds =>
      (* merge(d1, d2, ...): ValueError for fewer than two; master = Data(); append(master); remove(d) for each d *)
      if (length ds <? 2)%nat then st
      else
        let m := next_did st in
        fold_left (fun st d => do_remove d st) ds (do_append m (set_next_did (m + 1) st))
  | Clear => fold_left (fun st d => do_remove d st) (coll st) st
  end.

(* what the implementation answers: 0 fine, 1 ValueError, 2 TypeError (not a dataset) *)
Definition op_status (st : state) (o : op) : Z :=
  match o with
  | Append d => if memz d (coll st) then 0 else if known_data d st then 0 else 2
  | Merge ds => if (length ds <? 2)%nat then 1 else 0
  | _ => 0
  end.

Definition run (st : state) (ops : list op) : state := fold_left step ops st.

(* states the implementation can be in: any history from an empty collection over any pool of datasets *)
Definition reachable (st : state) : Prop := exists pool ncol ops, st = run (init pool ncol) ops.

(* ---------- the invariant (the property) ---------- *)

(* a GroupedSubset reads state, label and style through its group pointer *)
Definition member_attr (st : state) (p : Z * Z) : gattr := gattrs st (snd p).     (* p = (sid, gid) taken from dsubs *)

Record Inv (st : state) : Prop := mkInv {
  (* the two lists have no repetition *)
  inv_coll_nodup : NoDup (coll st);
  inv_groups_nodup : NoDup (groups st);
  (* every dataset of the collection: its subsets' groups are exactly the live groups, each once *)
  inv_data : forall d, In d (coll st) ->
      NoDup (map snd (dsubs st d)) /\ (forall g, In g (map snd (dsubs st d)) <-> In g (groups st));
  (* every live group lists exactly the datasets of the collection, each once *)
  inv_group : forall g, In g (groups st) ->
      NoDup (map snd (gsubs st g)) /\ (forall d, In d (map snd (gsubs st g)) <-> In d (coll st));
  (* the two views are the same set of subsets *)
  inv_views : forall d g s, In d (coll st) -> In g (groups st) ->
      (In (s, g) (dsubs st d) <-> In (s, d) (gsubs st g));
  (* a dataset outside the collection (removed, or never added) carries no subset and no live group lists it *)
  inv_removed_data : forall d, ~ In d (coll st) ->
      dsubs st d = [] /\ (forall g, In g (groups st) -> ~ In d (map snd (gsubs st g)));
  (* no dataset at all carries a subset of a group that is not live (removed, or not yet created) *)
  inv_removed_group : forall g, ~ In g (groups st) -> forall d, ~ In g (map snd (dsubs st d));
  (* the ghost lists are what they say *)
  inv_rdata : forall d, In d (rdata st) -> ~ In d (coll st);
  inv_rgroups : forall g, In g (rgroups st) -> ~ In g (groups st);
  (* members share the group's selection, label and style: both members of one group resolve to one record *)
  inv_shared : forall d d' g s s', In (s, g) (dsubs st d) -> In (s', g) (dsubs st d') ->
      member_attr st (s, g) = gattrs st g /\ member_attr st (s, g) = member_attr st (s', g)
}.

(* ---------- wire ---------- *)
Fixpoint dec_sexpr (t : tree) : sexpr :=
  match t with
  | T 1 (T n _ :: _) => SLeaf n
  | T 2 [a] => SNot (dec_sexpr a)
  | T 3 [a; b] => SAnd (dec_sexpr a) (dec_sexpr b)
  | T 4 [a; b] => SOr (dec_sexpr a) (dec_sexpr b)
  | T 5 [a; b] => SXor (dec_sexpr a) (dec_sexpr b)
  | _ => SEmpty
  end.

Fixpoint enc_sexpr (e : sexpr) : tree :=
  match e with
  | SEmpty => T 0 []
  | SLeaf n => T 1 [leaf n]
  | SNot a => T 2 [enc_sexpr a]
  | SAnd a b => T 3 [enc_sexpr a; enc_sexpr b]
  | SOr a b => T 4 [enc_sexpr a; enc_sexpr b]
  | SXor a b => T 5 [enc_sexpr a; enc_sexpr b]
  end.

Definition dec_op (t : tree) : option op :=
  match t with
  | T 1 [T d _] => Some (Append d)
  | T 2 [T d _] => Some (Remove d)
  | T 3 [] => Some (NewGroup None)
  | T 3 [e] => Some (NewGroup (Some (dec_sexpr e)))
  | T 4 [T g _] => Some (RemoveGroup g)
  | T 5 [T g _; e] => Some (SetState g (dec_sexpr e))
  | T 6 [T g _; T l _] => Some (SetLabel g l)
  | T 7 [T g _; T v _] => Some (SetStyle g v)
  | T 8 ds => Some (Merge (map tag ds))
  | T 9 [] => Some Clear
  | _ => None
  end.

Definition enc_pairs (l : list (Z * Z)) : tree := T 0 (map (fun p => T 0 [leaf (fst p); leaf (snd p)]) l).

(* full observation: everything the harness reads from the real objects after a step *)
Definition observe (status : Z) (st : state) : tree :=
  T 0 [ leaf status;
        zs (coll st);
        zs (groups st);
        T 0 (map (fun d => enc_pairs (dsubs st d)) (zrange (next_did st)));
        T 0 (map (fun g => let a := gattrs st g in
                           T 0 [enc_sexpr (g_state a); leaf (g_label a); leaf (g_style a); enc_pairs (gsubs st g)])
                 (zrange (next_gid st)));
        zs (rdata st);
        zs (rgroups st) ].

Fixpoint run_obs (st : state) (ops : list tree) : list tree :=
  match ops with
  | [] => []
  | t :: rest =>
    match dec_op t with
    | None => [err (-2)]
    | Some o => let st' := step st o in observe (op_status st o) st' :: run_obs st' rest
    end
  end.

(* ---------- the TRANSLATED functions (coq/gen/Gen_groups.v, regenerated from /repo on every run) as a second machine ----------
   Definitions only.  C06/GenEquiv.v proves that this machine and the hand model above make the same steps
   (on every state that satisfies the inductive invariant), and transports the theorems. *)
Inductive bop : Type :=
| BAppend (d : Z)             (* dc.append(d) *)
| BRemove (d : Z)             (* dc.remove(d) *)
| BNewGroup                   (* dc.new_subset_group() *)
| BRemoveGroup (g : Z)        (* dc.remove_subset_group(g) *)
| BClear                      (* dc.clear() *)
| BExtend (ds : list Z).      (* dc.extend([..]) *)
Inductive gop : Type :=
| GBasic (o : bop)
| GDelayed (ops : list bop).  (* with dc.hub.delay_callbacks(): op; op; ... *)

Definition heap_of (o : outcome) : heap := match o with Done h => h | Raised _ h => h end.

Definition bstep (h : heap) (o : bop) : heap :=
  match o with
  | BAppend d => heap_of (DataCollection_append d h)
  | BRemove d => DataCollection_remove d h
  | BNewGroup => DataCollection_new_subset_group None None h
  | BRemoveGroup g => DataCollection_remove_subset_group g h
  | BClear => DataCollection_clear h
  | BExtend ds => heap_of (DataCollection_extend ds h)
  end.

Definition gstep (h : heap) (o : gop) : heap :=
  match o with
  | GBasic b => bstep h b
  | GDelayed ops => hub_resume (fold_left bstep ops (hub_pause h))
  end.

(* 0 fine, 2 TypeError *)
Definition gstatus (h : heap) (o : gop) : Z :=
  match o with
  | GBasic (BAppend d) => match DataCollection_append d h with Raised _ _ => 2 | Done _ => 0 end
  | GBasic (BExtend ds) => match DataCollection_extend ds h with Raised _ _ => 2 | Done _ => 0 end
  | _ => 0
  end.

Definition ginit (pool ncol : Z) : heap :=
  mkHeap [] [] (fun _ => []) (fun _ => []) (fun _ => 0) (fun _ => 0) (fun _ => false) (fun _ => false)
         [] 0 [] pool 0 0 0 ncol [].

(* the property, stated on the heap of the translated machine: exactly one subset per (dataset of the collection, live group),
   known to both sides; nothing else attached anywhere; exactly the live groups are subscribed to the hub *)
Record HInv (h : heap) : Prop := mkHInv {
  hi_data_nodup : NoDup (h_data h);
  hi_groups_nodup : NoDup (h_groups h);
  hi_exactly_one : forall d g, In d (h_data h) -> In g (h_groups h) ->
      exists s, In (s, g) (h_dsubs h d) /\ In (s, d) (h_gsubs h g) /\
                (forall s', In (s', g) (h_dsubs h d) -> s' = s) /\ (forall s', In (s', d) (h_gsubs h g) -> s' = s);
  hi_no_others : forall d s g, In (s, g) (h_dsubs h d) -> In d (h_data h) /\ In g (h_groups h);
  hi_group_lists : forall g s d, In g (h_groups h) -> In (s, d) (h_gsubs h g) -> In d (h_data h);
  hi_subscribed : map fst (h_subs h) = h_groups h;
  hi_idle : h_paused h = 0
}.

Definition dec_bop (t : tree) : option bop :=
  match t with
  | T 1 [T d _] => Some (BAppend d)
  | T 2 [T d _] => Some (BRemove d)
  | T 3 [] => Some BNewGroup
  | T 4 [T g _] => Some (BRemoveGroup g)
  | T 9 [] => Some BClear
  | T 10 ds => Some (BExtend (map tag ds))
  | _ => None
  end.

Fixpoint dec_bops (ts : list tree) : option (list bop) :=
  match ts with
  | [] => Some []
  | t :: r => match dec_bop t, dec_bops r with Some o, Some os => Some (o :: os) | _, _ => None end
  end.

Definition dec_gop (t : tree) : option gop :=
  match t with
  | T 11 ts => match dec_bops ts with Some os => Some (GDelayed os) | None => None end
  | _ => match dec_bop t with Some o => Some (GBasic o) | None => None end
  end.

Definition enc_sub (s : sub) : list tree := [leaf (sub_id s); leaf (sub_data s); leaf (sub_group s)].
Definition enc_msg (m : message) : tree :=
  match m with
  | DataCollectionAddMessage d => T 1 [leaf d]
  | DataCollectionDeleteMessage d => T 2 [leaf d]
  | SubsetCreateMessage s => T 3 (enc_sub s)
  | SubsetDeleteMessage s => T 4 (enc_sub s)
  end.
Definition enc_event (e : event) : tree :=
  match e with
  | EDeliver m => T 10 [enc_msg m]
  | ERegisterData d => T 11 [leaf d]
  | ESyncLinks => T 12 []
  | EIgnoreLinks k => T 13 [leaf k]
  | ERegistryUnregisterData d => T 14 [leaf d]
  | ERegistryUnregisterSubset s => T 15 (enc_sub s)
  end.
Definition enc_handler (p : mclass * handler) : tree :=
  T (match fst p with C_DataCollectionAddMessage => 1 | C_DataCollectionDeleteMessage => 2 | C_SubsetMessage => 3 end)
    [leaf (match snd p with H__add_data => 1 | H__remove_data => 2 end)].

(* same layout as `observe` (positions 0-6), then the hub's subscription table, the events of this step, pause counter, queue *)
Definition gobserve (status : Z) (h : heap) : tree :=
  T 0 [ leaf status;
        zs (h_data h);
        zs (h_groups h);
        T 0 (map (fun d => enc_pairs (h_dsubs h d)) (zrange (h_next_did h)));
        T 0 (map (fun g => T 0 [T 0 []; leaf (h_glabel h g); leaf (h_gcolor h g); enc_pairs (h_gsubs h g)]) (zrange (h_next_gid h)));
        zs []; zs [];
        T 0 (map (fun p => T (fst p) (map enc_handler (snd p))) (h_subs h));
        T 0 (map enc_event (h_trace h));
        leaf (h_paused h);
        T 0 (map enc_msg (h_queue h)) ].

Fixpoint grun_obs (h : heap) (ops : list tree) : list tree :=
  match ops with
  | [] => []
  | t :: rest =>
    match dec_gop t with
    | None => [err (-2)]
    | Some o => let h0 := hset_trace [] h in
                let h' := gstep h0 o in gobserve (gstatus h0 o) h' :: grun_obs h' rest
    end
  end.

(* T 1 [pool; ncolors; T _ ops]  ->  T 0 [observation after each op]            (hand model)
   T 2 [pool; ncolors; T _ ops]  ->  T 0 [observation after each op]            (translated functions) *)
Definition run_case (t : tree) : tree :=
  match t with
  | T 1 [T pool _; T ncol _; T _ ops] => T 0 (run_obs (init pool ncol) ops)
  | T 2 [T pool _; T ncol _; T _ ops] => T 0 (grun_obs (ginit pool ncol) ops)
  | _ => err (-2)
  end.
