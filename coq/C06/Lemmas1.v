(* C06 — list / heap helper lemmas and the effect ("closed form") of every loop of the model. *)
From Coq Require Import ZArith List Bool Lia.
Import ListNotations.
From GV Require Import Common.Wire C06.Model.
Open Scope Z_scope.

(* ---------- lists ---------- *)
Lemma memz_In : forall x l, memz x l = true <-> In x l.
Proof.
  intros x l. unfold memz. rewrite existsb_exists. split.
  - intros [y [Hy He]]. apply Z.eqb_eq in He. subst. exact Hy.
  - intros H. exists x. split; [exact H | apply Z.eqb_refl].
Qed.

Lemma memz_false : forall x l, memz x l = false <-> ~ In x l.
Proof.
  intros x l. rewrite <- memz_In. destruct (memz x l).
  - split; [discriminate | intros H; exfalso; apply H; reflexivity].
  - split; [intros _ H; discriminate | reflexivity].
Qed.

Lemma removez_In : forall x y l, In y (removez x l) <-> In y l /\ y <> x.
Proof.
  intros x y l. unfold removez. rewrite filter_In. rewrite negb_true_iff, Z.eqb_neq. tauto.
Qed.

Lemma NoDup_removez : forall x l, NoDup l -> NoDup (removez x l).
Proof. intros x l H. unfold removez. apply NoDup_filter. exact H. Qed.

Lemma NoDup_map_filter : forall (A B : Type) (f : A -> B) (p : A -> bool) (l : list A),
  NoDup (map f l) -> NoDup (map f (filter p l)).
Proof.
  intros A B f p l. induction l as [|a l IH]; simpl; intros H.
  - constructor.
  - inversion H as [|x xs Hnin Hnd]; subst.
    destruct (p a); simpl.
    + constructor.
      * intros Hin. apply Hnin. apply in_map_iff in Hin. destruct Hin as [y [Hy Hin]].
        apply filter_In in Hin. destruct Hin as [Hin _]. apply in_map_iff. exists y. split; assumption.
      * apply IH. exact Hnd.
    + apply IH. exact Hnd.
Qed.

Lemma filter_filter : forall (A : Type) (p q : A -> bool) (l : list A),
  filter p (filter q l) = filter (fun x => q x && p x) l.
Proof.
  intros A p q l. induction l as [|a l IH]; simpl.
  - reflexivity.
  - destruct (q a) eqn:Hq; simpl.
    + destruct (p a); simpl; rewrite IH; reflexivity.
    + exact IH.
Qed.

Lemma filter_all : forall (A : Type) (p : A -> bool) (l : list A), (forall x, p x = true) -> filter p l = l.
Proof.
  intros A p l H. induction l as [|a l IH]; simpl.
  - reflexivity.
  - rewrite H. rewrite IH. reflexivity.
Qed.

Lemma fold_left_map : forall (A B C : Type) (f : A -> B -> A) (h : C -> B) (l : list C) (a : A),
  fold_left f (map h l) a = fold_left (fun a x => f a (h x)) l a.
Proof.
  intros A B C f h l. induction l as [|x l IH]; intros a; simpl.
  - reflexivity.
  - apply IH.
Qed.

Lemma NoDup_app_single : forall (A : Type) (l : list A) (x : A), NoDup l -> ~ In x l -> NoDup (l ++ [x]).
Proof.
  intros A l x Hnd Hnin. induction l as [|a l IH]; simpl.
  - constructor; [intros [] | constructor].
  - inversion Hnd as [|y ys Hy Hys]; subst. constructor.
    + intros Hin. apply in_app_iff in Hin. destruct Hin as [Hin | [Heq | []]].
      * exact (Hy Hin).
      * apply Hnin. left. symmetry. exact Heq.
    + apply IH; [exact Hys | intros Hin; apply Hnin; right; exact Hin].
Qed.

(* ---------- heap ---------- *)
Lemma upd_same : forall (A : Type) (f : Z -> A) k v, upd f k v k = v.
Proof. intros. unfold upd. rewrite Z.eqb_refl. reflexivity. Qed.

Lemma upd_other : forall (A : Type) (f : Z -> A) k v x, x <> k -> upd f k v x = f x.
Proof. intros A f k v x H. unfold upd. apply Z.eqb_neq in H. rewrite H. reflexivity. Qed.

(* the part of the state the invariant looks at *)
Record same_frame (st st' : state) : Prop := mkFrame {
  fr_coll : coll st' = coll st;
  fr_groups : groups st' = groups st;
  fr_rdata : rdata st' = rdata st;
  fr_rgroups : rgroups st' = rgroups st;
  fr_next_did : next_did st' = next_did st;
  fr_next_gid : next_gid st' = next_gid st
}.

Lemma same_frame_refl : forall st, same_frame st st.
Proof. intros st. constructor; reflexivity. Qed.

Lemma same_frame_trans : forall a b c, same_frame a b -> same_frame b c -> same_frame a c.
Proof.
  intros a b c [H1 H2 H3 H4 H5 H6] [K1 K2 K3 K4 K5 K6].
  constructor; congruence.
Qed.

(* ---------- SubsetGroup._add_data ---------- *)
Lemma gad_dsubs : forall g d st x,
  dsubs (group_add_data g d st) x = if x =? d then dsubs st d ++ [(next_sid st, g)] else dsubs st x.
Proof. intros. reflexivity. Qed.

Lemma gad_gsubs : forall g d st x,
  gsubs (group_add_data g d st) x = if x =? g then gsubs st g ++ [(next_sid st, d)] else gsubs st x.
Proof. intros. reflexivity. Qed.

Lemma gad_next_sid : forall g d st, next_sid (group_add_data g d st) = next_sid st + 1.
Proof. intros. reflexivity. Qed.

Lemma gad_frame : forall g d st, same_frame st (group_add_data g d st).
Proof. intros. constructor; reflexivity. Qed.

(* ---------- SubsetGroup._remove_data (repaired) : closed form of the loop ---------- *)
(* q's subset id is the id of an entry of l that belongs to dataset d *)
Definition hits (l : list (Z * Z)) (d : Z) (q : Z * Z) : bool :=
  existsb (fun p => (snd p =? d) && (fst q =? fst p)) l.

Definition grd_step (g d : Z) (st : state) (p : Z * Z) : state :=
  if snd p =? d
  then subset_delete (fst p) d
         (set_gsubs (upd (gsubs st) g (filter (fun q => negb (fst q =? fst p)) (gsubs st g))) st)
  else st.

Lemma grd_unfold : forall g d st, group_remove_data g d st = fold_left (grd_step g d) (gsubs st g) st.
Proof. intros. reflexivity. Qed.

Lemma grd_loop : forall g d l st,
  let st' := fold_left (grd_step g d) l st in
  (forall x, gsubs st' x = if x =? g then filter (fun q => negb (hits l d q)) (gsubs st g) else gsubs st x) /\
  (forall x, dsubs st' x = if x =? d then filter (fun q => negb (hits l d q)) (dsubs st d) else dsubs st x) /\
  next_sid st' = next_sid st /\ same_frame st st'.
Proof.
  intros g d l. induction l as [|p l IH]; intros st; simpl.
  - refine (conj _ (conj _ (conj _ _))).
    + intros x. destruct (x =? g) eqn:Hx.
      * apply Z.eqb_eq in Hx. subst. symmetry. apply filter_all. intros; reflexivity.
      * reflexivity.
    + intros x. destruct (x =? d) eqn:Hx.
      * apply Z.eqb_eq in Hx. subst. symmetry. apply filter_all. intros; reflexivity.
      * reflexivity.
    + reflexivity.
    + apply same_frame_refl.
  - specialize (IH (grd_step g d st p)). cbv zeta in IH.
    destruct IH as [IHg [IHd [IHn IHf]]].
    assert (Hstep : grd_step g d st p =
                    if snd p =? d
                    then subset_delete (fst p) d
                           (set_gsubs (upd (gsubs st) g (filter (fun q => negb (fst q =? fst p)) (gsubs st g))) st)
                    else st) by reflexivity.
    destruct (snd p =? d) eqn:Hp.
    + refine (conj _ (conj _ (conj _ _))).
      * intros x. rewrite IHg. rewrite Hstep. cbn. unfold upd. destruct (x =? g) eqn:Hx.
        -- rewrite Z.eqb_refl. rewrite filter_filter. apply filter_ext. intros q.
           symmetry. apply negb_orb.
        -- reflexivity.
      * intros x. rewrite IHd. rewrite Hstep. cbn. unfold upd. destruct (x =? d) eqn:Hx.
        -- rewrite Z.eqb_refl. rewrite filter_filter. apply filter_ext. intros q.
           symmetry. apply negb_orb.
        -- reflexivity.
      * rewrite IHn. rewrite Hstep. reflexivity.
      * eapply same_frame_trans; [| exact IHf]. rewrite Hstep. constructor; reflexivity.
    + rewrite Hstep in IHg, IHd, IHn, IHf |- *. refine (conj _ (conj _ (conj _ _))).
      * intros x. rewrite IHg. destruct (x =? g); [|reflexivity]. apply filter_ext. intros q. reflexivity.
      * intros x. rewrite IHd. destruct (x =? d); [|reflexivity]. apply filter_ext. intros q. reflexivity.
      * exact IHn.
      * exact IHf.
Qed.
