(* C06 — every dataset in a collection carries exactly one subset per subset group.
   Statements only; proofs are in Lemmas*.v.  `Inv` (the property) and the model are in Model.v. *)
From Coq Require Import ZArith List Bool.
From GV Require Import C06.Model C06.Lemmas C06.Examples.
Import ListNotations.
Open Scope Z_scope.

(* the empty collection over any pool of datasets satisfies the property *)
Theorem inv_init : forall pool ncol, Inv (init pool ncol).
Proof. exact Lemmas.inv_init. Qed.
Print Assumptions inv_init.

(* from any reachable state, any operation leads to a reachable state where the property holds again *)
Theorem inv_step : forall st o, reachable st -> Inv st /\ Inv (step st o) /\ reachable (step st o).
Proof. exact Lemmas.inv_step. Qed.
Print Assumptions inv_step.

(* there is an inductive strengthening of Inv: it holds initially, every operation preserves it, and it implies Inv *)
Theorem inv_strengthening : exists C : state -> Prop,
  (forall pool ncol, C (init pool ncol)) /\ (forall st o, C st -> C (step st o)) /\ (forall st, C st -> Inv st).
Proof. exact Lemmas.inv_strengthening. Qed.
Print Assumptions inv_strengthening.

(* the property holds after every history (any length, any pool) over
   {append, remove, re-append, new group, remove group, set state / label / style, merge, clear} *)
Theorem inv_reachable : forall pool ncol ops, Inv (fold_left step ops (init pool ncol)).
Proof. exact Lemmas.inv_reachable. Qed.
Print Assumptions inv_reachable.

(* exactly one subset per (dataset of the collection, live group); the dataset's and the group's view name the same one *)
Theorem exactly_one : forall pool ncol ops d g,
  let st := fold_left step ops (init pool ncol) in
  In d (coll st) -> In g (groups st) ->
  exists s, In (s, g) (dsubs st d) /\ In (s, d) (gsubs st g) /\
            (forall s', In (s', g) (dsubs st d) -> s' = s) /\ (forall s', In (s', d) (gsubs st g) -> s' = s).
Proof. exact Lemmas.exactly_one. Qed.
Print Assumptions exactly_one.

(* "and no others": a dataset carries as many subsets as there are groups, a group lists as many as there are datasets *)
Theorem counts : forall pool ncol ops,
  let st := fold_left step ops (init pool ncol) in
  (forall d, In d (coll st) -> length (dsubs st d) = length (groups st)) /\
  (forall g, In g (groups st) -> length (gsubs st g) = length (coll st)).
Proof. exact Lemmas.counts. Qed.
Print Assumptions counts.
