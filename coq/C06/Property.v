(* C06 — every dataset in a collection carries exactly one subset per subset group.
   Statements only; proofs are in Lemmas*.v.  `Inv` (the property) and the model are in Model.v. *)
From Coq Require Import ZArith List Bool.
From GV Require Import gen.Gen_groups C06.Model C06.Lemmas C06.GenEquiv1 C06.GenEquiv2 C06.GenEquiv C06.GenDelay1 C06.GenDelay2 C06.GenDelay C06.Examples.
Import ListNotations.
Open Scope Z_scope.

(* the empty collection over any pool of datasets satisfies the property *)
Theorem inv_init : forall pool ncol, Inv (init pool ncol).
Proof. exact Lemmas.inv_init. Qed.
Print Assumptions inv_init.

(* from any reachable state, any operation leads to a reachable state where the property holds again *)
Theorem inv_step : forall st o, reachable st -> Inv st /\ Inv (step st o) /\ reachable (step st o).
Proof. exact Lemmas.inv_step. Qed.
Print Assumptions inv_step.

(* there is an inductive strengthening of Inv: it holds initially, every operation preserves it, and it implies Inv *)
Theorem inv_strengthening : exists C : state -> Prop,
  (forall pool ncol, C (init pool ncol)) /\ (forall st o, C st -> C (step st o)) /\ (forall st, C st -> Inv st).
Proof. exact Lemmas.inv_strengthening. Qed.
Print Assumptions inv_strengthening.

(* the property holds after every history (any length, any pool) over
   {append, remove, re-append, new group, remove group, set state / label / style, merge, clear} *)
Theorem inv_reachable : forall pool ncol ops, Inv (fold_left step ops (init pool ncol)).
Proof. exact Lemmas.inv_reachable. Qed.
Print Assumptions inv_reachable.

(* exactly one subset per (dataset of the collection, live group); the dataset's and the group's view name the same one *)
Theorem exactly_one : forall pool ncol ops d g,
  let st := fold_left step ops (init pool ncol) in
  In d (coll st) -> In g (groups st) ->
  exists s, In (s, g) (dsubs st d) /\ In (s, d) (gsubs st g) /\
            (forall s', In (s', g) (dsubs st d) -> s' = s) /\ (forall s', In (s', d) (gsubs st g) -> s' = s).
Proof. exact Lemmas.exactly_one. Qed.
Print Assumptions exactly_one.

(* "and no others": a dataset carries as many subsets as there are groups, a group lists as many as there are datasets *)
Theorem counts : forall pool ncol ops,
  let st := fold_left step ops (init pool ncol) in
  (forall d, In d (coll st) -> length (dsubs st d) = length (groups st)) /\
  (forall g, In g (groups st) -> length (gsubs st g) = length (coll st)).
Proof. exact Lemmas.counts. Qed.
Print Assumptions counts.

(* ---------- the TRANSLATED functions (coq/gen/Gen_groups.v: regenerated from glue/core/{subset_group,data_collection,data,subset,hub}.py on every run) ----------
   heap / bop / bstep / ginit / HInv are in Model.v and gen/Gen_groups.v; Rel (same collection, hub idle, exactly the live groups subscribed
   with entry's handlers) and hop are in GenEquiv.v; entry (the two subscriptions of a group) is in GenEquiv2.v; Core is the inductive invariant. *)

(* on every related pair of states that satisfies the invariant, each translated operation makes the step of the hand model *)
Theorem gen_refines_model : forall h st o, Rel h st -> Core st -> is_extend o = false ->
  Rel (bstep h o) (step st (hop o)).
Proof. exact GenEquiv.gen_refines_model. Qed.
Print Assumptions gen_refines_model.

(* the property after every history of the translated append / remove / new_subset_group / remove_subset_group / clear / extend *)
Theorem gen_inv_reachable : forall pool ncol ops, HInv (fold_left bstep ops (ginit pool ncol)).
Proof. exact GenEquiv.gen_inv_reachable. Qed.
Print Assumptions gen_inv_reachable.

(* every heap the translated machine reaches is related to a state of the hand model that satisfies Core and Inv *)
Theorem gen_reachable_sim : forall pool ncol ops,
  exists st, Rel (fold_left bstep ops (ginit pool ncol)) st /\ Core st /\ Inv st.
Proof. exact GenEquiv.gen_reachable_sim. Qed.
Print Assumptions gen_reachable_sim.

(* SubsetGroup.register_to_hub subscribes the group to exactly the two collection messages, Add -> _add_data, Delete -> _remove_data,
   after the groups subscribed before it *)
Theorem gen_subscriptions : forall g gs h, h_subs h = map entry gs -> ~ In g gs ->
  h_subs (SubsetGroup_register_to_hub g h) = map entry (gs ++ [g]) /\
  (forall d, find_handlers (DataCollectionAddMessage d) (SubsetGroup_register_to_hub g h)
             = map (fun x => (x, H__add_data)) (gs ++ [g])) /\
  (forall d, find_handlers (DataCollectionDeleteMessage d) (SubsetGroup_register_to_hub g h)
             = map (fun x => (x, H__remove_data)) (gs ++ [g])).
Proof. exact GenEquiv.gen_subscriptions. Qed.
Print Assumptions gen_subscriptions.

(* SubsetGroup._add_data does nothing for a dataset the group already has a subset for *)
Theorem gen_add_data_guard : forall h g d, In d (map snd (h_gsubs h g)) -> SubsetGroup__add_data g d h = h.
Proof. exact GenEquiv.gen_add_data_guard. Qed.
Print Assumptions gen_add_data_guard.

(* the property after every history of translated operations, single or grouped in blocks `with dc.hub.delay_callbacks(): ...`
   (gstep (GDelayed ops) = hub_resume . ops . hub_pause: the collection messages wait in the queue and are delivered, in order,
   to the groups subscribed at that moment, when the block is left) *)
Theorem gen_inv_delayed : forall pool ncol ops, HInv (fold_left gstep ops (ginit pool ncol)).
Proof. exact GenDelay.gen_inv_delayed. Qed.
Print Assumptions gen_inv_delayed.

(* in particular one block of any operations, entered from any reachable heap, leaves the property restored *)
Theorem gen_block_restores : forall pool ncol ops blk,
  HInv (hub_resume (fold_left bstep blk (hub_pause (fold_left gstep ops (ginit pool ncol))))).
Proof. exact GenDelay.gen_block_restores. Qed.
Print Assumptions gen_block_restores.
