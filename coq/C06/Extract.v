From Coq Require Import ZArith ExtrOcamlBasic.
From GV Require Import Common.Wire C06.Model.
Extraction "c06_model.ml" run_case Z.add Z.mul Z.div_eucl Z.opp.
