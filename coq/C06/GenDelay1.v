(* C06 — operations inside `with hub.delay_callbacks()`: part 1, the invariant lemmas of the hand model for an arbitrary set E
   of populated (dataset, group) pairs (inside a block the populated pairs are not the live ones). *)
From Coq Require Import ZArith List Bool Lia.
Import ListNotations.
From GV Require Import Common.Wire gen.Gen_groups C06.Model C06.Lemmas1 C06.Lemmas2 C06.Lemmas3 C06.Lemmas
  C06.GenEquiv1 C06.GenEquiv2 C06.GenEquiv.
Open Scope Z_scope.

(* DataCollectionDeleteMessage(d) delivered to all groups *)
Lemma gcore_remove_all : forall st E d,
  GCore st E -> NoDup (groups st) -> (forall x g, E x g -> In g (groups st)) ->
  GCore (fold_left (fun st g => group_remove_data g d st) (groups st) st) (fun x g => E x g /\ x <> d).
Proof.
  intros st E d HG Hg HEg.
  pose proof (remove_sem st E d HG Hg HEg) as Hs. cbv zeta in Hs.
  destruct Hs as [HM [HN [Hng [Hdf' [Hgf' [Hn Hfr]]]]]].
  destruct Hfr as [F1 F2 F3 F4 F5 F6].
  destruct HG as [Hfd Hfg Hsd Hgd Hsg Hdg Hv Hdom Htot Hgfr Hub].
  constructor.
  - intros x g s H. rewrite Hn. apply HM in H. destruct H as [H _]. eapply Hfd. exact H.
  - intros g x s H. rewrite Hn. unfold N in H. destruct (Hgf' g) as [f Hf]. rewrite Hf in H.
    apply filter_In in H. destruct H as [H _]. eapply Hfg. exact H.
  - intros x. destruct (Hdf' x) as [f Hf]. rewrite Hf. apply NoDup_map_filter. apply Hsd.
  - intros x. destruct (Hdf' x) as [f Hf]. rewrite Hf. apply NoDup_map_filter. apply Hgd.
  - intros g. destruct (Hgf' g) as [f Hf]. rewrite Hf. apply NoDup_map_filter. apply Hsg.
  - intros g. destruct (Hgf' g) as [f Hf]. rewrite Hf. apply NoDup_map_filter. apply Hdg.
  - intros g Hgl x s. rewrite F2 in Hgl. rewrite HM. rewrite (HN g Hgl).
    rewrite (Hv g Hgl x s). tauto.
  - intros x g s H. apply HM in H. destruct H as [H Hne]. split; [eapply Hdom; exact H | exact Hne].
  - intros x g [HE Hne]. destruct (Htot x g HE) as [s Hs]. exists s. apply HM. split; assumption.
  - intros g Hgl. rewrite F2 in Hgl. rewrite F6. apply Hgfr. exact Hgl.
  - intros g Hge. rewrite F6 in Hge. destruct (Hgf' g) as [f Hf]. rewrite Hf. rewrite (Hub g Hge). reflexivity.
Qed.

(* remove_subset_group(g) *)
Lemma gcore_remove_group : forall st E g,
  GCore st E -> In g (groups st) ->
  GCore (fold_left (fun st p => subset_delete (fst p) (snd p) st) (gsubs st g) (set_groups (removez g (groups st)) st))
        (fun x g' => E x g' /\ g' <> g).
Proof.
  intros st E g HG Hmem.
  set (st1 := set_groups (removez g (groups st)) st).
  pose proof (remove_group_sem st E g HG Hmem) as Hs. cbv zeta in Hs.
  pose proof (rg_loop (gsubs st g) st1) as H1. cbv zeta in H1.
  pose proof (rg_loop (gsubs st g) st) as H0. cbv zeta in H0.
  destruct Hs as [HM [Hgs [Hdf' [Hn Hfr]]]].
  destruct H1 as [H1d [H1g [H1n H1f]]]. destruct H0 as [H0d [H0g [H0n H0f]]].
  destruct H1f as [F1 F2 F3 F4 F5 F6].
  set (st' := fold_left (fun st p => subset_delete (fst p) (snd p) st) (gsubs st g) st1) in *.
  set (st0 := fold_left (fun st p => subset_delete (fst p) (snd p) st) (gsubs st g) st) in *.
  assert (Hdd : forall x, dsubs st' x = dsubs st0 x).
  { intros x. rewrite H1d, H0d. reflexivity. }
  assert (HM' : forall x g' s, M st' x g' s <-> M st x g' s /\ g' <> g).
  { intros x g' s. unfold M. rewrite Hdd. apply HM. }
  destruct HG as [Hfd Hfg Hsd Hgd Hsg Hdg Hv Hdom Htot Hgfr Hub].
  constructor.
  - intros x g' s H. rewrite H1n. apply HM' in H. destruct H as [H _]. eapply Hfd. exact H.
  - intros g' x s H. rewrite H1n. unfold N in H. rewrite H1g in H. eapply Hfg. exact H.
  - intros x. rewrite Hdd. destruct (Hdf' x) as [f Hf]. fold st0 in Hf. rewrite Hf. apply NoDup_map_filter. apply Hsd.
  - intros x. rewrite Hdd. destruct (Hdf' x) as [f Hf]. fold st0 in Hf. rewrite Hf. apply NoDup_map_filter. apply Hgd.
  - intros g'. rewrite H1g. apply Hsg.
  - intros g'. rewrite H1g. apply Hdg.
  - intros g' Hg' x s. rewrite F2 in Hg'. simpl in Hg'. apply removez_In in Hg'. destruct Hg' as [Hg' Hne].
    rewrite HM'. unfold N. rewrite H1g. change (gsubs st1 g') with (gsubs st g').
    pose proof (Hv g' Hg' x s) as Hvv. unfold N in Hvv. tauto.
  - intros x g' s H. apply HM' in H. destruct H as [H Hne]. split; [eapply Hdom; exact H | exact Hne].
  - intros x g' [HE Hne]. destruct (Htot x g' HE) as [s Hs]. exists s. apply HM'. split; assumption.
  - intros g' Hgl. rewrite F2 in Hgl. simpl in Hgl. apply removez_In in Hgl. rewrite F6. apply Hgfr. apply Hgl.
  - intros g' Hge. rewrite F6 in Hge. rewrite H1g. apply Hub. exact Hge.
Qed.

(* new_subset_group: the fresh group g = next_gid is listed and then registered with the collection as it is *)
Lemma gcore_register : forall st st1 E g,
  GCore st E -> NoDup (coll st) -> (forall x g', E x g' -> In g' (groups st)) -> g = next_gid st ->
  coll st1 = coll st -> groups st1 = groups st ++ [g] -> next_gid st1 = g + 1 ->
  dsubs st1 = dsubs st -> gsubs st1 = gsubs st -> next_sid st1 = next_sid st ->
  GCore (group_register g st1) (fun x g' => E x g' \/ (g' = g /\ In x (coll st))).
Proof.
  intros st st1 E g HG Hc HEg Hg Hcoll1 Hgr1 Hng1 Hd1 Hgs1 Hns1.
  assert (Hgnew : ~ In g (groups st)).
  { intros Hin. apply (gc_gid_fresh _ _ HG) in Hin. lia. }
  assert (HG1 : GCore st1 E).
  { destruct HG as [Hfd Hfg Hsd Hgd Hsg Hdg Hv Hdom Htot Hgfr Hub].
    constructor; unfold M, N in *; rewrite ?Hd1, ?Hgs1, ?Hns1; try assumption.
    - intros g' Hg' x s. rewrite Hgr1 in Hg'. apply in_app_iff in Hg'. destruct Hg' as [Hg' | [Hg' | []]].
      + apply (Hv g' Hg' x s).
      + subst g'. rewrite (Hub g); [| lia]. split.
        * intros H. apply Hdom in H. apply HEg in H. contradiction.
        * intros [].
    - intros g' Hg'. rewrite Hgr1 in Hg'. rewrite Hng1. apply in_app_iff in Hg'. destruct Hg' as [Hg' | [Hg' | []]].
      + apply Hgfr in Hg'. lia.
      + subst g'. lia.
    - intros g' Hg'. rewrite Hng1 in Hg'. apply Hub. lia. }
  unfold group_register. rewrite register_loop_eq.
  eapply gcore_iff; [| apply gcore_add_pairs; [exact HG1 | apply nodup_pair_r; rewrite Hcoll1; exact Hc |]].
  - intros x g'. simpl. rewrite in_map_iff. rewrite Hcoll1. split.
    + intros [HE | [d0 [Heq Hin]]]; [left; exact HE | right]. inversion Heq; subst. split; [reflexivity | exact Hin].
    + intros [HE | [Hg' Hx]]; [left; exact HE | right]. exists x. subst g'. split; [reflexivity | exact Hx].
  - intros p Hp. apply in_map_iff in Hp. destruct Hp as [d [Hp Hin]]. subst p. simpl. split.
    + rewrite Hgr1. apply in_app_iff. right. left. reflexivity.
    + intros HE. apply HEg in HE. exact (Hgnew HE).
Qed.
