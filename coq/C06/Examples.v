(* C06 — non-vacuity and sanity runs. *)
From Coq Require Import ZArith List Bool Lia.
Import ListNotations.
From GV Require Import Common.Wire C06.Model C06.Lemmas.
Open Scope Z_scope.

(* a history with re-append, a group removed while a dataset is out, merge and clear *)
Definition h1 : list op :=
  [Append 0; NewGroup None; Append 1; NewGroup (Some (SLeaf 5)); Remove 0; RemoveGroup 0; Append 0;
   SetState 1 (SAnd (SLeaf 3) (SNot (SLeaf 6))); Merge [1; 2]; Append 2].
Definition s1 : state := run (init 3 7) h1.

Eval vm_compute in (coll s1, groups s1, map (dsubs s1) [0;1;2;3], map (gsubs s1) [0;1], rdata s1, rgroups s1).

(* the hypotheses of exactly_one / counts are met by a non-trivial state: 3 datasets, 1 live group *)
Example s1_nontrivial :
  coll s1 = [0; 3; 2] /\ groups s1 = [1] /\ In 3 (coll s1) /\ In 1 (groups s1) /\
  dsubs s1 0 = [(4, 1)] /\ dsubs s1 1 = [] /\ gsubs s1 1 = [(4, 0); (5, 3); (6, 2)].
Proof. vm_compute. intuition. Qed.

Example s1_reachable : reachable s1.
Proof. exists 3, 7, h1. reflexivity. Qed.

Example s1_inv : Inv s1.
Proof. apply (inv_reachable 3 7 h1). Qed.

(* the wire entry point on the same history *)
Eval vm_compute in
  (run_case (T 1 [T 2 []; T 7 []; T 0 [T 1 [T 0 []]; T 3 []; T 2 [T 0 []]; T 1 [T 0 []]]])).

(* ---- F-C06, kept as a record of what the repaired code excludes ----
   `_remove_data` of the unrepaired tree only drops the subset from the group's list. *)
Definition group_remove_data_old (g d : Z) (st : state) : state :=
  set_gsubs (upd (gsubs st) g (filter (fun q => negb (snd q =? d)) (gsubs st g))) st.
Definition do_remove_old (d : Z) (st : state) : state :=
  if negb (memz d (coll st)) then st
  else let st1 := set_coll (removez d (coll st)) st in
       fold_left (fun st g => group_remove_data_old g d st) (groups st1) st1.

(* remove(d); append(d): d carries two subsets of group 0, one of them unknown to the group *)
Example f_c06_witness :
  let st := do_append 0 (do_remove_old 0 (do_new_group None (do_append 0 (init 1 7)))) in
  dsubs st 0 = [(0, 0); (1, 0)] /\ gsubs st 0 = [(1, 0)] /\ ~ NoDup (map snd (dsubs st 0)).
Proof.
  vm_compute. repeat split; auto. intros H. inversion H as [|x xs Hnin _]. apply Hnin. left. reflexivity.
Qed.

(* Inv alone is not inductive (a state with one subset id used twice satisfies Inv's membership clauses but
   `remove_subset_group` deletes by identity); the strengthening `Core` rules such states out, and they are unreachable. *)
