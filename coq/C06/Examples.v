(* C06 — non-vacuity and sanity runs. *)
From Coq Require Import ZArith List Bool Lia.
Import ListNotations.
From GV Require Import Common.Wire C06.Model C06.Lemmas.
Open Scope Z_scope.

(* a history with re-append, a group removed while a dataset is out, merge and clear *)
Definition h1 : list op :=
  [Append 0; NewGroup None; Append 1; NewGroup (Some (SLeaf 5)); Remove 0; RemoveGroup 0; Append 0;
   SetState 1 (SAnd (SLeaf 3) (SNot (SLeaf 6))); Merge [1; 2]; Append 2].
Definition s1 : state := run (init 3 7) h1.

Eval vm_compute in (coll s1, groups s1, map (dsubs s1) [0;1;2;3], map (gsubs s1) [0;1], rdata s1, rgroups s1).

(* the hypotheses of exactly_one / counts are met by a non-trivial state: 3 datasets, 1 live group *)
Example s1_nontrivial :
  coll s1 = [0; 3; 2] /\ groups s1 = [1] /\ In 3 (coll s1) /\ In 1 (groups s1) /\
  dsubs s1 0 = [(4, 1)] /\ dsubs s1 1 = [] /\ gsubs s1 1 = [(4, 0); (5, 3); (6, 2)].
Proof. vm_compute. intuition. Qed.

Example s1_reachable : reachable s1.
Proof. exists 3, 7, h1. reflexivity. Qed.

Example s1_inv : Inv s1.
Proof. apply (inv_reachable 3 7 h1). Qed.

(* the wire entry point on the same history *)
Eval vm_compute in
  (run_case (T 1 [T 2 []; T 7 []; T 0 [T 1 [T 0 []]; T 3 []; T 2 [T 0 []]; T 1 [T 0 []]]])).

(* ---- F-C06, kept as a record of what the repaired code excludes ----
   `_remove_data` of the unrepaired tree only drops the subset from the group's list. *)
Definition group_remove_data_old (g d : Z) (st : state) : state :=
  set_gsubs (upd (gsubs st) g (filter (fun q => negb (snd q =? d)) (gsubs st g))) st.
Definition do_remove_old (d : Z) (st : state) : state :=
  if negb (memz d (coll st)) then st
  else let st1 := set_coll (removez d (coll st)) st in
       fold_left (fun st g => group_remove_data_old g d st) (groups st1) st1.

(* remove(d); append(d): d carries two subsets of group 0, one of them unknown to the group *)
Example f_c06_witness :
  let st := do_append 0 (do_remove_old 0 (do_new_group None (do_append 0 (init 1 7)))) in
  dsubs st 0 = [(0, 0); (1, 0)] /\ gsubs st 0 = [(1, 0)] /\ ~ NoDup (map snd (dsubs st 0)).
Proof.
  vm_compute. repeat split; auto. intros H. inversion H as [|x xs Hnin _]. apply Hnin. left. reflexivity.
Qed.

(* Inv alone is not inductive (a state with one subset id used twice satisfies Inv's membership clauses but
   `remove_subset_group` deletes by identity); the strengthening `Core` rules such states out, and they are unreachable. *)

(* ---------- the translated machine (coq/gen/Gen_groups.v) ---------- *)
From GV Require Import gen.Gen_groups C06.GenEquiv1 C06.GenEquiv2 C06.GenEquiv C06.GenDelay1 C06.GenDelay2 C06.GenDelay.

Definition gops1 : list bop :=
  [BAppend 0; BNewGroup; BAppend 1; BRemove 0; BAppend 0; BNewGroup; BRemoveGroup 0; BExtend [2; 1]].
Definition gheap1 : heap := fold_left bstep gops1 (ginit 3 7).

(* a non-trivial heap meets the hypotheses of gen_inv_reachable's clauses: 3 datasets, 1 live group, re-appended dataset *)
Example gheap1_nontrivial :
  h_data gheap1 = [1; 0; 2] /\ h_groups gheap1 = [1] /\
  h_dsubs gheap1 0 = [(4, 1)] /\ h_dsubs gheap1 1 = [(3, 1)] /\ h_gsubs gheap1 1 = [(3, 1); (4, 0); (5, 2)] /\
  map fst (h_subs gheap1) = [1] /\ h_paused gheap1 = 0 /\ h_queue gheap1 = [].
Proof. vm_compute. intuition. Qed.

Example gheap1_inv : HInv gheap1.
Proof. apply (gen_inv_reachable 3 7 gops1). Qed.

(* gen_refines_model's hypotheses are met (the relation is inhabited beyond the initial state) *)
Example gheap1_rel : exists st, Rel gheap1 st /\ Core st /\ coll st = [1; 0; 2].
Proof.
  destruct (gen_reachable_sim 3 7 gops1) as [st [HR [HC _]]]. exists st. split; [exact HR | split; [exact HC|]].
  rewrite <- (f_equal coll (rel_abs _ _ HR)). reflexivity.
Qed.

(* the order of effects of one append, as the translated code emits them *)
Example append_trace :
  h_trace (bstep (hset_trace [] (fold_left bstep [BNewGroup] (ginit 2 7))) (BAppend 0)) =
  [ERegisterData 0; EDeliver (DataCollectionAddMessage 0); EDeliver (SubsetCreateMessage (mkSub 0 0 0)); ESyncLinks].
Proof. reflexivity. Qed.

(* a block inside hub.delay_callbacks: the late DataCollectionAddMessage meets the guard of _add_data *)
Example delayed_block :
  let h := gstep (ginit 2 7) (GDelayed [BAppend 0; BNewGroup]) in
  h_data h = [0] /\ h_groups h = [0] /\ h_dsubs h 0 = [(0, 0)] /\ h_gsubs h 0 = [(0, 0)] /\ h_paused h = 0 /\ h_queue h = [].
Proof. vm_compute. intuition. Qed.

(* the guard is not vacuous *)
Example add_data_guard_fires :
  In 0 (map snd (h_gsubs (fold_left bstep [BAppend 0; BNewGroup] (ginit 2 7)) 0)).
Proof. vm_compute. left. reflexivity. Qed.

(* the wire entry point of the translated machine *)
Eval vm_compute in
  (run_case (T 2 [T 2 []; T 7 []; T 0 [T 1 [T 0 []]; T 3 []; T 11 [T 2 [T 0 []]; T 1 [T 0 []]]]])).

(* a history with blocks: a dataset removed and re-appended inside a block with a group created in between; a block that removes a group *)
Definition gops2 : list gop :=
  [GBasic (BAppend 0); GBasic BNewGroup; GDelayed [BRemove 0; BNewGroup; BAppend 0; BAppend 1]; GDelayed [BRemoveGroup 0; BRemove 1; BAppend 1]].
Definition gheap2 : heap := fold_left gstep gops2 (ginit 2 7).
Example gheap2_nontrivial :
  h_data gheap2 = [0; 1] /\ h_groups gheap2 = [1] /\ length (h_dsubs gheap2 0) = 1%nat /\ length (h_dsubs gheap2 1) = 1%nat /\
  length (h_gsubs gheap2 1) = 2%nat /\ h_paused gheap2 = 0 /\ h_queue gheap2 = [].
Proof. vm_compute. intuition. Qed.
Example gheap2_inv : HInv gheap2.
Proof. apply (gen_inv_delayed 2 7 gops2). Qed.
(* inside the block the in-block invariant is inhabited with a non-empty queue *)
Example in_block_queue :
  h_queue (fold_left bstep [BRemove 0; BNewGroup; BAppend 0] (hub_pause (fold_left gstep [GBasic (BAppend 0); GBasic BNewGroup] (ginit 2 7))))
  <> [].
Proof. vm_compute. discriminate. Qed.
