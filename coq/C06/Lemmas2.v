(* C06 — the proof-level invariant GCore (parameterised by the set E of (dataset, group) pairs that must be
   populated, so that it can be stated in the middle of a handler loop) and its preservation by `_add_data`. *)
From Coq Require Import ZArith List Bool Lia FinFun.
Import ListNotations.
From GV Require Import Common.Wire C06.Model C06.Lemmas1.
Open Scope Z_scope.

Definition M (st : state) (d g s : Z) : Prop := In (s, g) (dsubs st d).    (* dataset d carries subset s of group g *)
Definition N (st : state) (g d s : Z) : Prop := In (s, d) (gsubs st g).    (* group g lists subset s of dataset d *)

Record GCore (st : state) (E : Z -> Z -> Prop) : Prop := mkGCore {
  gc_fresh_d : forall d g s, M st d g s -> s < next_sid st;
  gc_fresh_g : forall g d s, N st g d s -> s < next_sid st;
  gc_sid_d : forall d, NoDup (map fst (dsubs st d));
  gc_gid_d : forall d, NoDup (map snd (dsubs st d));
  gc_sid_g : forall g, NoDup (map fst (gsubs st g));
  gc_did_g : forall g, NoDup (map snd (gsubs st g));
  gc_views : forall g, In g (groups st) -> forall d s, M st d g s <-> N st g d s;
  gc_dom : forall d g s, M st d g s -> E d g;
  gc_tot : forall d g, E d g -> exists s, M st d g s;
  gc_gid_fresh : forall g, In g (groups st) -> g < next_gid st;
  gc_unborn : forall g, next_gid st <= g -> gsubs st g = []
}.

Lemma gcore_iff : forall st (E E' : Z -> Z -> Prop),
  (forall d g, E d g <-> E' d g) -> GCore st E -> GCore st E'.
Proof.
  intros st E E' HE [H1 H2 H3 H4 H5 H6 H7 H8 H9 H10 H11].
  constructor; try assumption.
  - intros d g s HM. apply HE. eapply H8. exact HM.
  - intros d g HE'. apply H9. apply HE. exact HE'.
Qed.

(* keys are unique: two entries with the same first component are the same entry *)
Lemma nodup_fst_inj : forall (l : list (Z * Z)) s a b,
  NoDup (map fst l) -> In (s, a) l -> In (s, b) l -> a = b.
Proof.
  intros l s a b. induction l as [|p l IH]; simpl; intros Hnd Ha Hb.
  - destruct Ha.
  - inversion Hnd as [|x xs Hnin Hnd']; subst.
    destruct Ha as [Ha | Ha]; destruct Hb as [Hb | Hb].
    + subst p. inversion Hb. reflexivity.
    + subst p. exfalso. apply Hnin. simpl. apply in_map_iff. exists (s, b). split; [reflexivity | exact Hb].
    + subst p. exfalso. apply Hnin. simpl. apply in_map_iff. exists (s, a). split; [reflexivity | exact Ha].
    + apply IH; assumption.
Qed.

Lemma in_map_snd : forall (l : list (Z * Z)) b, In b (map snd l) <-> exists a, In (a, b) l.
Proof.
  intros l b. rewrite in_map_iff. split.
  - intros [[a b'] [Heq Hin]]. simpl in Heq. subst. exists a. exact Hin.
  - intros [a Hin]. exists (a, b). split; [reflexivity | exact Hin].
Qed.

Lemma in_map_fst : forall (l : list (Z * Z)) a, In a (map fst l) <-> exists b, In (a, b) l.
Proof.
  intros l a. rewrite in_map_iff. split.
  - intros [[a' b] [Heq Hin]]. simpl in Heq. subst. exists b. exact Hin.
  - intros [b Hin]. exists (a, b). split; [reflexivity | exact Hin].
Qed.

(* ---------- one `_add_data` ---------- *)
Lemma gad_M : forall g d st d' g' s,
  M (group_add_data g d st) d' g' s <-> M st d' g' s \/ (d' = d /\ g' = g /\ s = next_sid st).
Proof.
  intros g d st d' g' s. unfold M. rewrite gad_dsubs.
  destruct (d' =? d) eqn:Hd.
  - apply Z.eqb_eq in Hd. subst d'. rewrite in_app_iff. simpl. split.
    + intros [H | [H | []]]; [left; exact H | right]. inversion H. auto.
    + intros [H | [_ [Hg Hs]]]; [left; exact H | right; left]. subst. reflexivity.
  - apply Z.eqb_neq in Hd. split.
    + intros H. left. exact H.
    + intros [H | [Hd' _]]; [exact H | contradiction].
Qed.

Lemma gad_N : forall g d st g' d' s,
  N (group_add_data g d st) g' d' s <-> N st g' d' s \/ (g' = g /\ d' = d /\ s = next_sid st).
Proof.
  intros g d st g' d' s. unfold N. rewrite gad_gsubs.
  destruct (g' =? g) eqn:Hg.
  - apply Z.eqb_eq in Hg. subst g'. rewrite in_app_iff. simpl. split.
    + intros [H | [H | []]]; [left; exact H | right]. inversion H. auto.
    + intros [H | [_ [Hd Hs]]]; [left; exact H | right; left]. subst. reflexivity.
  - apply Z.eqb_neq in Hg. split.
    + intros H. left. exact H.
    + intros [H | [Hg' _]]; [exact H | contradiction].
Qed.

Lemma gcore_add : forall st E g d,
  GCore st E -> In g (groups st) -> ~ E d g ->
  GCore (group_add_data g d st) (fun d' g' => E d' g' \/ (d' = d /\ g' = g)).
Proof.
  intros st E g d HG Hg HnE.
  destruct HG as [Hfd Hfg Hsd Hgd Hsg Hdg Hv Hdom Htot Hgf Hub].
  constructor.
  - intros d' g' s HM. rewrite gad_next_sid. apply gad_M in HM.
    destruct HM as [HM | [_ [_ Hs]]]; [apply Hfd in HM; lia | lia].
  - intros g' d' s HN. rewrite gad_next_sid. apply gad_N in HN.
    destruct HN as [HN | [_ [_ Hs]]]; [apply Hfg in HN; lia | lia].
  - intros x. rewrite gad_dsubs. destruct (x =? d) eqn:Hx; [|apply Hsd].
    rewrite map_app. simpl. apply NoDup_app_single; [apply Hsd|].
    intros Hin. apply in_map_fst in Hin. destruct Hin as [b Hin]. apply (Hfd d b) in Hin. lia.
  - intros x. rewrite gad_dsubs. destruct (x =? d) eqn:Hx; [|apply Hgd].
    rewrite map_app. simpl. apply NoDup_app_single; [apply Hgd|].
    intros Hin. apply in_map_snd in Hin. destruct Hin as [a Hin]. apply HnE. apply (Hdom d g a). exact Hin.
  - intros x. rewrite gad_gsubs. destruct (x =? g) eqn:Hx; [|apply Hsg].
    rewrite map_app. simpl. apply NoDup_app_single; [apply Hsg|].
    intros Hin. apply in_map_fst in Hin. destruct Hin as [b Hin]. apply (Hfg g b) in Hin. lia.
  - intros x. rewrite gad_gsubs. destruct (x =? g) eqn:Hx; [|apply Hdg].
    rewrite map_app. simpl. apply NoDup_app_single; [apply Hdg|].
    intros Hin. apply in_map_snd in Hin. destruct Hin as [a Hin]. apply HnE. apply (Hdom d g a).
    apply (Hv g Hg). exact Hin.
  - intros g' Hg' d' s. rewrite gad_M, gad_N.
    assert (Hg'' : In g' (groups st)) by exact Hg'.
    rewrite (Hv g' Hg'' d' s). tauto.
  - intros d' g' s HM. apply gad_M in HM. destruct HM as [HM | [Hd' [Hg' _]]].
    + left. eapply Hdom. exact HM.
    + right. split; assumption.
  - intros d' g' [HE | [Hd' Hg']].
    + destruct (Htot d' g' HE) as [s Hs]. exists s. apply gad_M. left. exact Hs.
    + exists (next_sid st). apply gad_M. right. repeat split; assumption.
  - intros g' Hg'. apply Hgf. exact Hg'.
  - intros x Hx. rewrite gad_gsubs. destruct (x =? g) eqn:Hxg.
    + apply Z.eqb_eq in Hxg. subst x. apply Hgf in Hg.
      assert (Hn : next_gid (group_add_data g d st) = next_gid st) by reflexivity. rewrite Hn in Hx. lia.
    + apply Hub. exact Hx.
Qed.

(* ---------- a sequence of `_add_data` calls (hub delivery to several groups, or `register` over several datasets) ---------- *)
Definition add_pairs (ps : list (Z * Z)) (st : state) : state :=
  fold_left (fun st p => group_add_data (fst p) (snd p) st) ps st.

Lemma add_pairs_frame : forall ps st, same_frame st (add_pairs ps st).
Proof.
  induction ps as [|p ps IH]; intros st; simpl.
  - apply same_frame_refl.
  - eapply same_frame_trans; [apply gad_frame | apply IH].
Qed.

Lemma gcore_add_pairs : forall ps st E,
  GCore st E -> NoDup ps ->
  (forall p, In p ps -> In (fst p) (groups st) /\ ~ E (snd p) (fst p)) ->
  GCore (add_pairs ps st) (fun d g => E d g \/ In (g, d) ps).
Proof.
  induction ps as [|p ps IH]; intros st E HG Hnd Hpre; simpl.
  - eapply gcore_iff; [| exact HG]. intros d g. simpl. tauto.
  - inversion Hnd as [|x xs Hnin Hnd']; subst.
    destruct (Hpre p (or_introl eq_refl)) as [Hpg HpE].
    pose proof (gcore_add st E (fst p) (snd p) HG Hpg HpE) as HG1.
    specialize (IH (group_add_data (fst p) (snd p) st) _ HG1 Hnd').
    eapply gcore_iff; [| apply IH].
    + intros d g. simpl. split.
      * intros [[HE | [Hd Hg]] | Hin]; [left; exact HE | right; left | right; right; exact Hin].
        destruct p as [pg pd]. simpl in *. subst. reflexivity.
      * intros [HE | [Heq | Hin]]; [left; left; exact HE | left; right | right; exact Hin].
        subst p. simpl. split; reflexivity.
    + intros q Hq. destruct (Hpre q (or_intror Hq)) as [Hqg HqE]. split.
      * exact Hqg.
      * intros [HE | [Hd Hg]]; [exact (HqE HE)|].
        apply Hnin. destruct p as [pg pd], q as [qg qd]. simpl in *. subst. exact Hq.
Qed.

Lemma append_loop_eq : forall (d : Z) (gs : list Z) st,
  fold_left (fun st g => group_add_data g d st) gs st = add_pairs (map (fun g => (g, d)) gs) st.
Proof. intros d gs st. unfold add_pairs. rewrite fold_left_map. reflexivity. Qed.

Lemma register_loop_eq : forall (g : Z) (ds : list Z) st,
  fold_left (fun st d => group_add_data g d st) ds st = add_pairs (map (fun d => (g, d)) ds) st.
Proof. intros g ds st. unfold add_pairs. rewrite fold_left_map. reflexivity. Qed.

Lemma nodup_pair_l : forall (d : Z) (gs : list Z), NoDup gs -> NoDup (map (fun g : Z => (g, d)) gs).
Proof.
  intros d gs H. apply Injective_map_NoDup; [| exact H].
  intros x y Heq. inversion Heq. reflexivity.
Qed.

Lemma nodup_pair_r : forall (g : Z) (ds : list Z), NoDup ds -> NoDup (map (fun d : Z => (g, d)) ds).
Proof.
  intros g ds H. apply Injective_map_NoDup; [| exact H].
  intros x y Heq. inversion Heq. reflexivity.
Qed.
