(* C06 — the TRANSLATED functions against the hand model: part 3, the operations of DataCollection, the simulation
   relation, and the theorems about the generated machine. *)
From Coq Require Import ZArith List Bool Lia.
Import ListNotations.
From GV Require Import Common.Wire gen.Gen_groups C06.Model C06.Lemmas1 C06.Lemmas2 C06.Lemmas3 C06.Lemmas
  C06.GenEquiv1 C06.GenEquiv2.
Open Scope Z_scope.

(* heap h and hand-model state st show the same collection, and the hub is idle with exactly the live groups subscribed *)
Record Rel (h : heap) (st : state) : Prop := mkRel {
  rel_abs : abs h st = st;
  rel_subs : h_subs h = map entry (h_groups h);
  rel_paused : h_paused h = 0;
  rel_q : dcq (h_queue h) = [];
  rel_label : forall g, h_glabel h g = g_label (gattrs st g);
  rel_color : forall g, h_gcolor h g = g_style (gattrs st g)
}.

Lemma abs_idem : forall h st1 st', abs h st1 = st' -> abs h st' = st'.
Proof. intros h st1 st' H. subst st'. reflexivity. Qed.

Lemma rel_fields : forall h st, abs h st = st ->
  h_data h = coll st /\ h_groups h = groups st /\ h_dsubs h = dsubs st /\ h_gsubs h = gsubs st /\
  h_next_did h = next_did st /\ h_next_gid h = next_gid st /\ h_next_sid h = next_sid st /\
  h_sg_count h = sg_count st /\ h_ncolors h = ncolors st.
Proof.
  intros h st H.
  repeat split; [ exact (f_equal coll H) | exact (f_equal groups H) | exact (f_equal dsubs H) | exact (f_equal gsubs H)
                | exact (f_equal next_did H) | exact (f_equal next_gid H) | exact (f_equal next_sid H)
                | exact (f_equal sg_count H) | exact (f_equal ncolors H) ].
Qed.

(* ---------- leaving a delay_callbacks block that queued no collection message ---------- *)
Lemma dcq_nil_all : forall q, dcq q = [] -> forall m, In m q -> is_dc m = false.
Proof.
  intros q H m Hin. destruct (is_dc m) eqn:E; [|reflexivity].
  assert (Hf : In m (dcq q)) by (apply filter_In; split; assumption). rewrite H in Hf. destruct Hf.
Qed.

Lemma deliver_plain_queue : forall gs q h, h_subs h = map entry gs -> (forall m, In m q -> is_dc m = false) ->
  exists tr, fold_left (fun h m => deliver m h) q h = hset_trace tr h.
Proof.
  intros gs q. induction q as [|m q IH]; intros h Hs Hq; simpl.
  - exists (h_trace h). destruct h. reflexivity.
  - rewrite (deliver_sub h m gs Hs (Hq m (or_introl eq_refl))).
    destruct (IH (ev (EDeliver m) h)) as [tr Htr]; [exact Hs | intros x Hx; apply Hq; right; exact Hx |].
    exists tr. rewrite Htr. reflexivity.
Qed.

Lemma resume_plain : forall gs h, h_paused h = 1 -> dcq (h_queue h) = [] -> h_subs h = map entry gs ->
  exists tr, hub_resume h = hset_trace tr (hset_queue [] (hset_paused 0 h)).
Proof.
  intros gs h Hp Hq Hs. unfold hub_resume. cbv zeta. cbn [h_paused hset_paused]. rewrite Hp. cbn [Z.sub Z.eqb Z.add Z.opp Z.pos_sub].
  cbn [h_queue hset_paused].
  destruct (deliver_plain_queue gs (h_queue h) (hset_queue [] (hset_paused (1 - 1) h))) as [tr Htr];
    [exact Hs | apply dcq_nil_all; exact Hq |].
  exists tr. change (1 - 1) with 0 in Htr. exact Htr.
Qed.

Ltac evs := unfold ev; cbn [h_subs h_groups h_paused h_queue h_glabel h_gcolor hset_trace hset_queue hset_paused hset_subs hset_groups hset_data h_data h_dsubs h_gsubs].

(* ---------- DataCollection.append ---------- *)
Lemma append_rel : forall h st d, Rel h st -> Core st ->
  Rel (heap_of (DataCollection_append d h)) (do_append d st).
Proof.
  intros h st d HR HC. pose proof (rel_fields _ _ (rel_abs _ _ HR)) as [Fc [Fg [Fd [Fgs [Fnd [Fng [Fns [Fsg Fnc]]]]]]]].
  unfold DataCollection_append, do_append. rewrite hmemz_memz, Fc.
  destruct (memz d (coll st)) eqn:Hmem; [exact HR|].
  assert (Hk : is_dataset d h = known_data d st) by (unfold is_dataset, known_data; rewrite Fnd; reflexivity).
  rewrite Hk. destruct (known_data d st) eqn:Hkd; cbn [negb]; [|exact HR].
  apply memz_false in Hmem.
  pose proof (core_inv st HC) as HI.
  assert (Hnone : h_dsubs h d = []) by (rewrite Fd; apply (inv_removed_data _ HI d Hmem)).
  unfold dc_has_hub. cbv beta iota zeta. cbn [heap_of].
  set (h1 := hset_data (coll st ++ [d]) h).
  set (h2 := Data_register_to_hub d h1).
  assert (Hloop : fold_left (fun (h0 : heap) (s : sub) => Subset_register s h0) (subsets_of_data d h2) h2 = h2).
  { unfold subsets_of_data. change (h_dsubs h2 d) with (h_dsubs h d). rewrite Hnone. reflexivity. }
  rewrite Hloop. unfold hub_broadcast. change (h_paused h2) with (h_paused h). rewrite (rel_paused _ _ HR). cbn [Z.ltb Z.compare].
  rewrite (deliver_add h2 d (h_groups h)) by (exact (rel_subs _ _ HR)).
  set (h3 := ev (EDeliver (DataCollectionAddMessage d)) h2).
  set (st1 := set_rdata (removez d (rdata st)) (set_coll (coll st ++ [d]) st)).
  assert (Habs3 : abs h3 st1 = st1).
  { unfold abs, st1, h3, h2, h1. cbn. rewrite ?Fc, ?Fg, ?Fd, ?Fgs, ?Fnd, ?Fng, ?Fns, ?Fsg, ?Fnc. reflexivity. }
  destruct HC as [Hc Hgn HG Hdf Hrd Hrg].
  assert (HG1 : GCore (abs h3 st1) (live st)).
  { rewrite Habs3. eapply gcore_transport; [| | | | | exact HG]; reflexivity. }
  destruct (add_loop_eq d (h_groups h) h3 st1 (live st) HG1) as [Hab Hlf].
  { rewrite Fg. exact Hgn. }
  { intros g Hg. split; [exact Hg|]. intros [Hd _]. exact (Hmem Hd). }
  set (h4 := fold_left (fun h g => SubsetGroup__add_data g d h) (h_groups h) h3) in *.
  rewrite Habs3 in Hab. change (groups st1) with (groups st). rewrite <- Fg.
  constructor.
  - apply (abs_idem _ st1). exact Hab.
  - evs. rewrite (lf_subs _ _ Hlf), (lf_groups _ _ Hlf). exact (rel_subs _ _ HR).
  - evs. rewrite (lf_paused _ _ Hlf). exact (rel_paused _ _ HR).
  - evs. rewrite (lf_dcq _ _ Hlf). exact (rel_q _ _ HR).
  - intros g. evs. rewrite (lf_glabel _ _ Hlf). rewrite <- Hab. exact (rel_label _ _ HR g).
  - intros g. evs. rewrite (lf_gcolor _ _ Hlf). rewrite <- Hab. exact (rel_color _ _ HR g).
Qed.

(* ---------- DataCollection.remove ---------- *)
Lemma remove_rel : forall h st d, Rel h st -> Core st ->
  Rel (DataCollection_remove d h) (do_remove d st).
Proof.
  intros h st d HR HC. pose proof (rel_fields _ _ (rel_abs _ _ HR)) as [Fc [Fg [Fd [Fgs [Fnd [Fng [Fns [Fsg Fnc]]]]]]]].
  unfold DataCollection_remove, do_remove. rewrite hmemz_memz, Fc.
  destruct (memz d (coll st)) eqn:Hmem; cbn [negb]; [|exact HR].
  destruct HC as [Hc Hgn HG Hdf Hrd Hrg].
  unfold dc_has_hub. cbv beta iota zeta.
  rewrite (remove_first_removez _ _ Hc).
  set (h1 := hset_data (removez d (coll st)) h).
  set (h2 := ev (ERegistryUnregisterData d) h1).
  unfold hub_broadcast. change (h_paused h2) with (h_paused h). rewrite (rel_paused _ _ HR). cbn [Z.ltb Z.compare].
  rewrite (deliver_del h2 d (h_groups h)) by (exact (rel_subs _ _ HR)).
  set (h3 := ev (EDeliver (DataCollectionDeleteMessage d)) h2).
  set (st1 := set_rdata (removez d (rdata st) ++ [d]) (set_coll (removez d (coll st)) st)).
  assert (Habs3 : abs h3 st1 = st1).
  { unfold abs, st1, h3, h2, h1. cbn. rewrite ?Fc, ?Fg, ?Fd, ?Fgs, ?Fnd, ?Fng, ?Fns, ?Fsg, ?Fnc. reflexivity. }
  destruct (rm_loop_eq d (h_groups h) h3 st1) as [Hab Hlf].
  { rewrite Fg. exact Hgn. }
  { intros g _. change (h_gsubs h3) with (h_gsubs h). rewrite Fgs. apply (gc_sid_g _ _ HG). }
  { change (h_dsubs h3) with (h_dsubs h). rewrite Fd. apply (gc_sid_d _ _ HG). }
  { intros g p Hg Hp Hpd. change (h_gsubs h3) with (h_gsubs h) in Hp. change (h_dsubs h3) with (h_dsubs h).
    rewrite Fgs in Hp. rewrite Fd. rewrite Fg in Hg. destruct p as [s x]. cbn in *. subst x.
    apply (gc_views _ _ HG g Hg d s). exact Hp. }
  set (h4 := fold_left (fun h g => SubsetGroup__remove_data g d h) (h_groups h) h3) in *.
  rewrite Habs3 in Hab. change (groups st1) with (groups st). rewrite <- Fg.
  constructor.
  - apply (abs_idem _ st1). exact Hab.
  - rewrite (lf_subs _ _ Hlf), (lf_groups _ _ Hlf). exact (rel_subs _ _ HR).
  - rewrite (lf_paused _ _ Hlf). exact (rel_paused _ _ HR).
  - rewrite (lf_dcq _ _ Hlf). exact (rel_q _ _ HR).
  - intros g. rewrite (lf_glabel _ _ Hlf). rewrite <- Hab. exact (rel_label _ _ HR g).
  - intros g. rewrite (lf_gcolor _ _ Hlf). rewrite <- Hab. exact (rel_color _ _ HR g).
Qed.

(* ---------- DataCollection.new_subset_group ---------- *)
Lemma new_group_rel : forall h st, Rel h st -> Core st ->
  Rel (DataCollection_new_subset_group None None h) (do_new_group None st).
Proof.
  intros h st HR HC. pose proof (rel_fields _ _ (rel_abs _ _ HR)) as [Fc [Fg [Fd [Fgs [Fnd [Fng [Fns [Fsg Fnc]]]]]]]].
  destruct HC as [Hc Hgn HG Hdf Hrd Hrg].
  unfold DataCollection_new_subset_group, do_new_group. unfold new_SubsetGroup. cbv beta iota zeta.
  set (g := h_next_gid h).
  set (n := h_sg_count h).
  change (h_next_gid (hub_pause (hset_sg_count (n + 1) h))) with g.
  match goal with |- Rel (hub_resume (SubsetGroup_register _ ?hh)) _ => set (h1 := hh) end.
  set (a := mkGattr SEmpty (sg_count st + 1) (- 1 - (sg_count st) mod (ncolors st))).
  set (st1 := set_gattrs (upd (gattrs st) (next_gid st) a)
               (set_groups (groups st ++ [next_gid st]) (set_next_gid (next_gid st + 1) (set_sg_count (sg_count st + 1) st)))).
  assert (Habs1 : abs h1 st1 = st1).
  { unfold abs, st1, h1, g, n, hub_pause. cbn. rewrite ?Fc, ?Fg, ?Fd, ?Fgs, ?Fnd, ?Fng, ?Fns, ?Fsg, ?Fnc. reflexivity. }
  assert (Hgfresh : ~ In g (groups st)).
  { intros Hin. apply (gc_gid_fresh _ _ HG) in Hin. unfold g in Hin. lia. }
  destruct (register_eq g h1 st1) as [Hab Hlf].
  { change (h_gsubs h1) with (h_gsubs h). rewrite Fgs. apply (gc_unborn _ _ HG). unfold g. lia. }
  { intros x id Hin. change (h_dsubs h1) with (h_dsubs h) in Hin. change (h_next_sid h1) with (h_next_sid h).
    rewrite Fd in Hin. rewrite Fns. apply in_map_fst in Hin. destruct Hin as [b Hb]. exact (gc_fresh_d _ _ HG x b id Hb). }
  rewrite Habs1 in Hab.
  set (h0 := SubsetGroup_register_to_hub g h1) in *.
  set (h2 := SubsetGroup_register g h1) in *.
  assert (Hsubs2 : h_subs h2 = map entry (groups st ++ [g])).
  { rewrite (lf_subs _ _ Hlf). apply register_to_hub_subs; [|exact Hgfresh].
    change (h_subs h1) with (h_subs h). rewrite (rel_subs _ _ HR), Fg. reflexivity. }
  destruct (resume_plain (groups st ++ [g]) h2) as [tr Htr].
  { rewrite (lf_paused _ _ Hlf). change (h_paused h0) with (h_paused h + 1). rewrite (rel_paused _ _ HR). reflexivity. }
  { rewrite (lf_dcq _ _ Hlf). exact (rel_q _ _ HR). }
  { exact Hsubs2. }
  rewrite Htr.
  assert (Hst' : group_register (next_gid st) st1 = group_register g st1) by (unfold g; rewrite Fng; reflexivity).
  fold a. fold st1. rewrite Hst'.
  constructor.
  - apply (abs_idem _ st1). exact Hab.
  - evs. rewrite Hsubs2. rewrite (lf_groups _ _ Hlf). change (h_groups h0) with (h_groups h ++ [g]). rewrite Fg. reflexivity.
  - reflexivity.
  - reflexivity.
  - intros x. evs. rewrite (lf_glabel _ _ Hlf). rewrite <- Hab.
    change (gattrs (abs h2 st1)) with (upd (gattrs st) (next_gid st) a).
    change (h_glabel h0 x) with (hupd (h_glabel h) g (auto_label (n + 1)) x).
    unfold hupd, upd, g. rewrite Fng. destruct (x =? next_gid st).
    + unfold a, auto_label, n. cbn. rewrite Fsg. reflexivity.
    + exact (rel_label _ _ HR x).
  - intros x. evs. rewrite (lf_gcolor _ _ Hlf). rewrite <- Hab.
    change (gattrs (abs h2 st1)) with (upd (gattrs st) (next_gid st) a).
    change (h_gcolor h0 x) with (hupd (h_gcolor h) g (subset_color (Z.modulo n (h_ncolors h))) x).
    unfold hupd, upd, g. rewrite Fng. destruct (x =? next_gid st).
    + unfold a, subset_color, n. cbn [g_style]. rewrite Fsg, Fnc. reflexivity.
    + exact (rel_color _ _ HR x).
Qed.

(* ---------- DataCollection.remove_subset_group ---------- *)
Lemma remove_group_rel : forall h st g, Rel h st -> Core st ->
  Rel (DataCollection_remove_subset_group g h) (do_remove_group g st).
Proof.
  intros h st g HR HC. pose proof (rel_fields _ _ (rel_abs _ _ HR)) as [Fc [Fg [Fd [Fgs [Fnd [Fng [Fns [Fsg Fnc]]]]]]]].
  unfold DataCollection_remove_subset_group, do_remove_group. rewrite hmemz_memz, Fg.
  destruct (memz g (groups st)) eqn:Hmem; cbn [negb]; [|exact HR].
  apply memz_In in Hmem.
  destruct HC as [Hc Hgn HG Hdf Hrd Hrg].
  cbv beta iota zeta. unfold HubListener_unregister. cbv zeta.
  change (h_groups (hub_pause h)) with (h_groups h). rewrite Fg. rewrite (remove_first_removez _ _ Hgn).
  set (h1 := hset_groups (removez g (groups st)) (hub_pause h)).
  set (st1 := set_rgroups (rgroups st ++ [g]) (set_groups (removez g (groups st)) st)).
  assert (Habs1 : abs h1 st1 = st1).
  { unfold abs, st1, h1, hub_pause. cbn. rewrite ?Fc, ?Fg, ?Fd, ?Fgs, ?Fnd, ?Fng, ?Fns, ?Fsg, ?Fnc. reflexivity. }
  unfold subsets_of_group. change (h_gsubs h1 g) with (h_gsubs h g). change (gsubs st1 g) with (gsubs st g). rewrite Fgs.
  destruct (delete_loop_eq g (gsubs st g) h1 st1) as [Hab [Hlf Hgs]].
  { apply (gc_sid_g _ _ HG). }
  { intros x. change (h_dsubs h1) with (h_dsubs h). rewrite Fd. apply (gc_sid_d _ _ HG). }
  { intros p Hp. change (h_dsubs h1) with (h_dsubs h). rewrite Fd. destruct p as [s x]. cbn [fst snd].
    apply in_map_iff. exists (s, g). split; [reflexivity|]. apply (gc_views _ _ HG g Hmem x s). exact Hp. }
  set (h2 := fold_left (fun h s => Subset_delete s h) (map (fun p => mkSub (fst p) (snd p) g) (gsubs st g)) h1) in *.
  rewrite Habs1 in Hab.
  set (h3 := hub_unsubscribe_all g h2).
  assert (Hsubs3 : h_subs h3 = map entry (removez g (groups st))).
  { unfold h3, hub_unsubscribe_all. cbn [h_subs hset_subs]. rewrite (lf_subs _ _ Hlf). change (h_subs h1) with (h_subs h).
    rewrite (rel_subs _ _ HR), Fg. apply unsubscribe_subs. }
  destruct (resume_plain (removez g (groups st)) h3) as [tr Htr].
  { change (h_paused h3) with (h_paused h2). rewrite (lf_paused _ _ Hlf). change (h_paused h1) with (h_paused h + 1).
    rewrite (rel_paused _ _ HR). reflexivity. }
  { change (h_queue h3) with (h_queue h2). rewrite (lf_dcq _ _ Hlf). exact (rel_q _ _ HR). }
  { exact Hsubs3. }
  rewrite Htr.
  constructor.
  - apply (abs_idem _ st1). exact Hab.
  - evs. rewrite Hsubs3. change (h_groups h3) with (h_groups h2). rewrite (lf_groups _ _ Hlf). reflexivity.
  - reflexivity.
  - reflexivity.
  - intros x. evs. change (h_glabel h3) with (h_glabel h2). rewrite (lf_glabel _ _ Hlf). rewrite <- Hab. exact (rel_label _ _ HR x).
  - intros x. evs. change (h_gcolor h3) with (h_gcolor h2). rewrite (lf_gcolor _ _ Hlf). rewrite <- Hab. exact (rel_color _ _ HR x).
Qed.

(* an event on the trace changes nothing the relation looks at *)
Lemma rel_ev : forall h st e, Rel h st -> Rel (ev e h) st.
Proof. intros h st e [H1 H2 H3 H4 H5 H6]. constructor; assumption. Qed.

(* ---------- DataCollection.clear ---------- *)
Lemma remove_all_rel : forall l h st, Rel h st -> Core st ->
  Rel (fold_left (fun h d => DataCollection_remove d h) l h) (fold_left (fun st d => do_remove d st) l st).
Proof.
  induction l as [|d l IH]; intros h st HR HC; simpl; [exact HR|].
  apply IH; [apply remove_rel; assumption | apply core_remove; exact HC].
Qed.

Lemma clear_rel : forall h st, Rel h st -> Core st -> Rel (DataCollection_clear h) (step st Clear).
Proof.
  intros h st HR HC. unfold DataCollection_clear. cbv zeta. cbn [step].
  apply rel_ev.
  replace (coll st) with (h_data (ev (EIgnoreLinks 1) h)) by (exact (f_equal coll (rel_abs _ _ HR))).
  apply remove_all_rel; [apply rel_ev; exact HR | exact HC].
Qed.

(* ---------- the simulation ---------- *)
Definition hop (o : bop) : op :=
  match o with
  | BAppend d => Append d
  | BRemove d => Remove d
  | BNewGroup => NewGroup None
  | BRemoveGroup g => RemoveGroup g
  | BClear => Clear
  | BExtend _ => Clear          (* not used: extend has no single hand-model operation, see extend_sim *)
  end.

Definition is_extend (o : bop) : bool := match o with BExtend _ => true | _ => false end.

(* the translated functions make the steps of the hand model *)
Lemma gen_refines_model : forall h st o, Rel h st -> Core st -> is_extend o = false ->
  Rel (bstep h o) (step st (hop o)).
Proof.
  intros h st o HR HC Ho. destruct o; try discriminate; cbn [bstep hop step].
  - apply append_rel; assumption.
  - apply remove_rel; assumption.
  - apply new_group_rel; assumption.
  - apply remove_group_rel; assumption.
  - apply clear_rel; assumption.
Qed.

Definition Sim (h : heap) : Prop := exists st, Rel h st /\ Core st.

(* extend: a run of appends that stops at the first object that is not a dataset *)
Lemma extend_loop_sim : forall ds o,
  (match o with Done h | Raised _ h => Sim h end) ->
  match fold_left (fun o_ d => match o_ with Raised e_ h => Raised e_ h | Done h =>
           match DataCollection_append d h with Raised e_ h => Raised e_ h | Done h => Done h end end) ds o
  with Done h | Raised _ h => Sim h end.
Proof.
  induction ds as [|d ds IH]; intros o Ho; simpl; [exact Ho|].
  apply IH. destruct o as [h|e h]; [|exact Ho].
  destruct Ho as [st [HR HC]].
  pose proof (append_rel h st d HR HC) as HR'. pose proof (core_append st d HC) as HC'.
  destruct (DataCollection_append d h) as [h'|e h']; exists (do_append d st); split; assumption.
Qed.

Lemma sim_ev : forall h e, Sim h -> Sim (ev e h).
Proof. intros h e [st [HR HC]]. exists st. split; [apply rel_ev; exact HR | exact HC]. Qed.

Lemma extend_sim : forall ds h, Sim h -> Sim (heap_of (DataCollection_extend ds h)).
Proof.
  intros ds h HS. unfold DataCollection_extend. cbv zeta.
  pose proof (extend_loop_sim ds (Done (ev (EIgnoreLinks 1) h)) (sim_ev _ _ HS)) as H.
  destruct (fold_left _ ds (Done (ev (EIgnoreLinks 1) h))) as [h'|e h']; cbn [heap_of].
  - apply sim_ev. apply sim_ev. exact H.
  - exact H.
Qed.

Lemma bstep_sim : forall h o, Sim h -> Sim (bstep h o).
Proof.
  intros h o HS. destruct (is_extend o) eqn:Ho.
  - destruct o; try discriminate. cbn [bstep]. apply extend_sim. exact HS.
  - destruct HS as [st [HR HC]]. exists (step st (hop o)). split.
    + apply gen_refines_model; assumption.
    + apply core_step. exact HC.
Qed.

Lemma ginit_sim : forall pool ncol, Sim (ginit pool ncol).
Proof.
  intros pool ncol. exists (init pool ncol). split; [|apply core_init].
  constructor; try reflexivity.
Qed.

Lemma run_sim : forall ops h, Sim h -> Sim (fold_left bstep ops h).
Proof.
  induction ops as [|o ops IH]; intros h HS; simpl; [exact HS|]. apply IH. apply bstep_sim. exact HS.
Qed.

(* ---------- the property on the heap of the translated machine ---------- *)
Lemma core_exactly_one : forall st d g, Core st -> In d (coll st) -> In g (groups st) ->
  exists s, In (s, g) (dsubs st d) /\ In (s, d) (gsubs st g) /\
            (forall s', In (s', g) (dsubs st d) -> s' = s) /\ (forall s', In (s', d) (gsubs st g) -> s' = s).
Proof.
  intros st d g [Hc Hgn HG Hdf Hrd Hrg] Hd Hg.
  destruct HG as [Hfd Hfg Hsd Hgd Hsg Hdg Hv Hdom Htot Hgfr Hub].
  destruct (Htot d g (conj Hd Hg)) as [s Hs]. exists s.
  assert (Hsw : forall (l : list (Z * Z)) a b c, NoDup (map snd l) -> In (a, c) l -> In (b, c) l -> a = b).
  { induction l as [|p l IH]; simpl; intros a b c Hnd Ha Hb; [destruct Ha|].
    inversion Hnd as [|x xs Hnin Hnd']; subst.
    destruct Ha as [Ha | Ha]; destruct Hb as [Hb | Hb].
    - subst p. inversion Hb. reflexivity.
    - subst p. exfalso. apply Hnin. simpl. apply in_map_snd. exists b. exact Hb.
    - subst p. exfalso. apply Hnin. simpl. apply in_map_snd. exists a. exact Ha.
    - eapply IH; eassumption. }
  assert (Huniq : forall s', In (s', g) (dsubs st d) -> s' = s).
  { intros s' Hs'. eapply Hsw; [apply (Hgd d) | exact Hs' | exact Hs]. }
  split; [exact Hs | split; [apply (Hv g Hg d s); exact Hs | split; [exact Huniq|]]].
  intros s' Hs'. apply Huniq. apply (Hv g Hg d s'). exact Hs'.
Qed.

Lemma sim_hinv : forall h, Sim h -> HInv h.
Proof.
  intros h [st [HR HC]]. pose proof (rel_fields _ _ (rel_abs _ _ HR)) as [Fc [Fg [Fd [Fgs _]]]].
  pose proof HC as HC0. destruct HC as [Hc Hgn HG Hdf Hrd Hrg].
  constructor.
  - rewrite Fc. exact Hc.
  - rewrite Fg. exact Hgn.
  - intros d g. rewrite Fc, Fg, Fd, Fgs. apply core_exactly_one. exact HC0.
  - intros d s g. rewrite Fc, Fg, Fd. intros H. exact (gc_dom _ _ HG d g s H).
  - intros g s d. rewrite Fc, Fg, Fgs. intros Hg H. apply (gc_views _ _ HG g Hg d s) in H.
    exact (proj1 (gc_dom _ _ HG d g s H)).
  - rewrite (rel_subs _ _ HR). apply map_fst_entry.
  - exact (rel_paused _ _ HR).
Qed.

(* after every history of append / remove / new group / remove group / clear / extend on the translated machine *)
Lemma gen_inv_reachable : forall pool ncol ops, HInv (fold_left bstep ops (ginit pool ncol)).
Proof. intros. apply sim_hinv. apply run_sim. apply ginit_sim. Qed.

(* every reachable heap of the translated machine is the image of a reachable state of the hand model *)
Lemma gen_reachable_sim : forall pool ncol ops, exists st, Rel (fold_left bstep ops (ginit pool ncol)) st /\ Core st /\ Inv st.
Proof.
  intros. destruct (run_sim ops _ (ginit_sim pool ncol)) as [st [HR HC]]. exists st.
  split; [exact HR | split; [exact HC | apply core_inv; exact HC]].
Qed.

(* SubsetGroup.register_to_hub: which message goes to which handler *)
Lemma gen_subscriptions : forall g gs h, h_subs h = map entry gs -> ~ In g gs ->
  h_subs (SubsetGroup_register_to_hub g h) = map entry (gs ++ [g]) /\
  (forall d, find_handlers (DataCollectionAddMessage d) (SubsetGroup_register_to_hub g h)
             = map (fun x => (x, H__add_data)) (gs ++ [g])) /\
  (forall d, find_handlers (DataCollectionDeleteMessage d) (SubsetGroup_register_to_hub g h)
             = map (fun x => (x, H__remove_data)) (gs ++ [g])).
Proof.
  intros g gs h H Hn. pose proof (register_to_hub_subs g gs h H Hn) as Hs.
  split; [exact Hs|]. split; intros d; [apply find_handlers_add | apply find_handlers_del]; exact Hs.
Qed.

(* SubsetGroup._add_data: the guard makes the handler idempotent *)
Lemma gen_add_data_guard : forall h g d, In d (map snd (h_gsubs h g)) -> SubsetGroup__add_data g d h = h.
Proof. exact add_data_skip. Qed.
