(* C06 — the TRANSLATED functions against the hand model: part 2, the hub's delivery loops, SubsetGroup.register,
   remove_subset_group's loop. *)
From Coq Require Import ZArith List Bool Lia.
Import ListNotations.
From GV Require Import Common.Wire gen.Gen_groups C06.Model C06.Lemmas1 C06.Lemmas2 C06.Lemmas3 C06.Lemmas C06.GenEquiv1.
Open Scope Z_scope.

(* what SubsetGroup.register_to_hub leaves in the hub's table for group g: the two subscriptions and their handlers *)
Definition entry (g : Z) : Z * list (mclass * handler) :=
  (g, [(C_DataCollectionAddMessage, H__add_data); (C_DataCollectionDeleteMessage, H__remove_data)]).

Lemma find_handlers_add : forall h d gs, h_subs h = map entry gs ->
  find_handlers (DataCollectionAddMessage d) h = map (fun g => (g, H__add_data)) gs.
Proof.
  intros h d gs H. unfold find_handlers. rewrite H. clear H. induction gs as [|g gs IH]; simpl; [reflexivity|].
  f_equal. exact IH.
Qed.

Lemma find_handlers_del : forall h d gs, h_subs h = map entry gs ->
  find_handlers (DataCollectionDeleteMessage d) h = map (fun g => (g, H__remove_data)) gs.
Proof.
  intros h d gs H. unfold find_handlers. rewrite H. clear H. induction gs as [|g gs IH]; simpl; [reflexivity|].
  f_equal. exact IH.
Qed.

Lemma find_handlers_sub : forall h m gs, h_subs h = map entry gs -> is_dc m = false -> find_handlers m h = [].
Proof.
  intros h m gs H Hm. unfold find_handlers. rewrite H. clear H.
  destruct m; try discriminate; induction gs as [|g gs IH]; simpl; auto.
Qed.

Lemma deliver_add : forall h d gs, h_subs h = map entry gs ->
  deliver (DataCollectionAddMessage d) h =
  fold_left (fun h g => SubsetGroup__add_data g d h) gs (ev (EDeliver (DataCollectionAddMessage d)) h).
Proof.
  intros h d gs H. unfold deliver. rewrite (find_handlers_add h d gs H). rewrite fold_left_map. reflexivity.
Qed.

Lemma deliver_del : forall h d gs, h_subs h = map entry gs ->
  deliver (DataCollectionDeleteMessage d) h =
  fold_left (fun h g => SubsetGroup__remove_data g d h) gs (ev (EDeliver (DataCollectionDeleteMessage d)) h).
Proof.
  intros h d gs H. unfold deliver. rewrite (find_handlers_del h d gs H). rewrite fold_left_map. reflexivity.
Qed.

Lemma deliver_sub : forall h m gs, h_subs h = map entry gs -> is_dc m = false -> deliver m h = ev (EDeliver m) h.
Proof. intros h m gs H Hm. unfold deliver. rewrite (find_handlers_sub h m gs H Hm). reflexivity. Qed.

(* ---------- subscribe / unsubscribe ---------- *)
Lemma put_sub_new : forall g c hd l, ~ In g (map fst l) -> put_sub g c hd l = l ++ [(g, [(c, hd)])].
Proof.
  intros g c hd l H. induction l as [|p l IH]; simpl; [reflexivity|].
  simpl in H. destruct (fst p =? g) eqn:Hp.
  - apply Z.eqb_eq in Hp. exfalso. apply H. left. exact Hp.
  - f_equal. apply IH. intros Hin. apply H. right. exact Hin.
Qed.

Lemma put_sub_last : forall g c hd cont l, ~ In g (map fst l) ->
  put_sub g c hd (l ++ [(g, cont)]) = l ++ [(g, put_class c hd cont)].
Proof.
  intros g c hd cont l H. induction l as [|p l IH]; simpl.
  - rewrite Z.eqb_refl. reflexivity.
  - simpl in H. destruct (fst p =? g) eqn:Hp.
    + apply Z.eqb_eq in Hp. exfalso. apply H. left. exact Hp.
    + f_equal. apply IH. intros Hin. apply H. right. exact Hin.
Qed.

Lemma map_fst_entry : forall gs, map fst (map entry gs) = gs.
Proof. induction gs as [|g gs IH]; simpl; [reflexivity | f_equal; exact IH]. Qed.

Lemma register_to_hub_subs : forall g gs h, h_subs h = map entry gs -> ~ In g gs ->
  h_subs (SubsetGroup_register_to_hub g h) = map entry (gs ++ [g]).
Proof.
  intros g gs h H Hn. unfold SubsetGroup_register_to_hub, hub_subscribe. cbv zeta. cbn [h_subs hset_subs]. rewrite H.
  assert (Hn' : ~ In g (map fst (map entry gs))) by (rewrite map_fst_entry; exact Hn).
  rewrite (put_sub_new g _ _ _ Hn'). rewrite (put_sub_last g _ _ _ _ Hn').
  rewrite map_app. reflexivity.
Qed.

Lemma unsubscribe_subs : forall g gs,
  filter (fun p : Z * list (mclass * handler) => negb (fst p =? g)) (map entry gs) = map entry (removez g gs).
Proof.
  intros g gs. unfold removez. induction gs as [|x gs IH]; simpl; [reflexivity|].
  destruct (x =? g); simpl; [exact IH | f_equal; exact IH].
Qed.

(* ---------- delivery of DataCollectionAddMessage(d): every guard fails (the dataset is new to the groups) ---------- *)
Lemma in_fst_M : forall st d x, In x (map fst (dsubs st d)) -> exists g, M st d g x.
Proof. intros st d x H. apply in_map_fst in H. exact H. Qed.

Lemma add_loop_eq : forall d gs h st E,
  GCore (abs h st) E -> NoDup gs -> (forall g, In g gs -> In g (h_groups h) /\ ~ E d g) ->
  abs (fold_left (fun h g => SubsetGroup__add_data g d h) gs h) st
    = fold_left (fun st g => group_add_data g d st) gs (abs h st) /\
  lowframe h (fold_left (fun h g => SubsetGroup__add_data g d h) gs h).
Proof.
  intros d gs. induction gs as [|g gs IH]; intros h st E HG Hnd Hpre; simpl.
  - split; [reflexivity | apply lowframe_refl].
  - inversion Hnd as [|x xs Hnin Hnd']; subst.
    destruct (Hpre g (or_introl eq_refl)) as [Hgl HnE].
    assert (Hguard : ~ In d (map snd (h_gsubs h g))).
    { intros Hin. apply in_map_snd in Hin. destruct Hin as [s Hs]. apply HnE.
      apply (gc_dom _ _ HG d g s). apply (gc_views _ _ HG g Hgl d s). exact Hs. }
    assert (Hfr : forall x, In x (map fst (h_dsubs h d)) -> x < h_next_sid h).
    { intros x Hx. apply in_map_fst in Hx. destruct Hx as [b Hb]. exact (gc_fresh_d _ _ HG d b x Hb). }
    destruct (add_data_eq h st g d Hguard Hfr) as [Habs Hlf].
    pose proof (gcore_add _ _ g d HG Hgl HnE) as HG1. rewrite <- Habs in HG1.
    destruct (IH (SubsetGroup__add_data g d h) st _ HG1 Hnd') as [IHa IHf].
    + intros g' Hg'. destruct (Hpre g' (or_intror Hg')) as [Hgl' HnE']. split.
      * rewrite (lf_groups _ _ Hlf). exact Hgl'.
      * intros [HE | [_ Heq]]; [exact (HnE' HE) | subst g'; exact (Hnin Hg')].
    + split; [rewrite IHa, Habs; reflexivity | eapply lowframe_trans; eassumption].
Qed.

(* ---------- delivery of DataCollectionDeleteMessage(d) ---------- *)
Lemma remove_data_eq : forall g d h st,
  NoDup (map fst (h_gsubs h g)) -> NoDup (map fst (h_dsubs h d)) ->
  (forall p, In p (h_gsubs h g) -> snd p = d -> In (fst p) (map fst (h_dsubs h d))) ->
  abs (SubsetGroup__remove_data g d h) st = group_remove_data g d (abs h st) /\
  lowframe h (SubsetGroup__remove_data g d h).
Proof.
  intros g d h st Hg Hd Hatt. rewrite remove_data_unfold. rewrite grd_unfold. unfold subsets_of_group.
  apply rd_loop_eq; assumption.
Qed.

Lemma rm_loop_eq : forall d gs h st,
  NoDup gs -> (forall g, In g gs -> NoDup (map fst (h_gsubs h g))) -> NoDup (map fst (h_dsubs h d)) ->
  (forall g p, In g gs -> In p (h_gsubs h g) -> snd p = d -> In (fst p, g) (h_dsubs h d)) ->
  abs (fold_left (fun h g => SubsetGroup__remove_data g d h) gs h) st
    = fold_left (fun st g => group_remove_data g d st) gs (abs h st) /\
  lowframe h (fold_left (fun h g => SubsetGroup__remove_data g d h) gs h).
Proof.
  intros d gs. induction gs as [|g gs IH]; intros h st Hnd Hgs Hd Hatt; simpl.
  - split; [reflexivity | apply lowframe_refl].
  - inversion Hnd as [|x xs Hnin Hnd']; subst.
    destruct (remove_data_eq g d h st (Hgs g (or_introl eq_refl)) Hd) as [Habs Hlf].
    { intros p Hp Hpd. apply in_map_iff. exists (fst p, g). split; [reflexivity|]. apply (Hatt g p); auto. left. reflexivity. }
    set (h1 := SubsetGroup__remove_data g d h) in *.
    pose proof (grd_loop g d (gsubs (abs h st) g) (abs h st)) as Hcl. cbv zeta in Hcl.
    rewrite <- grd_unfold in Hcl. rewrite <- Habs in Hcl. destruct Hcl as [Hcg [Hcd _]].
    change (gsubs (abs h1 st)) with (h_gsubs h1) in Hcg. change (dsubs (abs h1 st)) with (h_dsubs h1) in Hcd.
    change (gsubs (abs h st)) with (h_gsubs h) in Hcg, Hcd. change (dsubs (abs h st)) with (h_dsubs h) in Hcd.
    destruct (IH h1 st Hnd') as [IHa IHf].
    + intros g' Hg'. rewrite Hcg. destruct (g' =? g) eqn:E.
      * apply Z.eqb_eq in E. subst g'. contradiction.
      * apply Hgs. right. exact Hg'.
    + rewrite Hcd. rewrite Z.eqb_refl. apply NoDup_map_filter. exact Hd.
    + intros g' p Hg' Hp Hpd. rewrite Hcg in Hp. destruct (g' =? g) eqn:E.
      * apply Z.eqb_eq in E. subst g'. contradiction.
      * rewrite Hcd. rewrite Z.eqb_refl. apply filter_In. split.
        -- apply (Hatt g' p); auto. right. exact Hg'.
        -- apply negb_true_iff. apply hits_false. cbn [fst]. intros Hin.
           assert (H1 : In (fst p, g) (h_dsubs h d)) by (apply (Hatt g (fst p, d)); auto; left; reflexivity).
           assert (H2 : In (fst p, g') (h_dsubs h d)) by (apply (Hatt g' p); auto; right; exact Hg').
           pose proof (nodup_fst_inj _ _ _ _ Hd H1 H2) as Heq. subst g'. rewrite Z.eqb_refl in E. discriminate.
    + split; [rewrite IHa, Habs; reflexivity | eapply lowframe_trans; eassumption].
Qed.

(* ---------- remove_subset_group: `for s in subset_grp.subsets: s.delete()` ---------- *)
Lemma delete_loop_eq : forall g l h st,
  NoDup (map fst l) -> (forall x, NoDup (map fst (h_dsubs h x))) ->
  (forall p, In p l -> In (fst p) (map fst (h_dsubs h (snd p)))) ->
  abs (fold_left (fun h s => Subset_delete s h) (map (fun p => mkSub (fst p) (snd p) g) l) h) st
    = fold_left (fun st p => subset_delete (fst p) (snd p) st) l (abs h st) /\
  lowframe h (fold_left (fun h s => Subset_delete s h) (map (fun p => mkSub (fst p) (snd p) g) l) h) /\
  h_gsubs (fold_left (fun h s => Subset_delete s h) (map (fun p => mkSub (fst p) (snd p) g) l) h) = h_gsubs h.
Proof.
  intros g l. induction l as [|p l IH]; intros h st Hl Hd Hatt; simpl.
  - split; [reflexivity | split; [apply lowframe_refl | reflexivity]].
  - inversion Hl as [|x xs Hnin Hl']; subst.
    set (s := mkSub (fst p) (snd p) g).
    destruct (subset_delete_eq h st s (Hd (snd p)) (Hatt p (or_introl eq_refl))) as [Habs [Hlf [_ Hgs]]].
    set (h1 := Subset_delete s h) in *.
    assert (Hds : h_dsubs h1 = upd (h_dsubs h) (snd p) (filter (fun q => negb (fst q =? fst p)) (h_dsubs h (snd p)))).
    { change (h_dsubs h1) with (dsubs (abs h1 st)). rewrite Habs. reflexivity. }
    destruct (IH h1 st Hl') as [IHa [IHf IHg]].
    + intros x0. rewrite Hds. unfold upd. destruct (x0 =? snd p) eqn:E; [apply NoDup_map_filter|]; apply Hd.
    + intros q Hq. rewrite Hds. unfold upd. destruct (snd q =? snd p) eqn:E.
      * apply Z.eqb_eq in E. pose proof (Hatt q (or_intror Hq)) as Hin. rewrite E in Hin.
        apply in_map_iff in Hin. destruct Hin as [r [Hr Hrin]]. apply in_map_iff. exists r. split; [exact Hr|].
        apply filter_In. split; [exact Hrin|]. apply negb_true_iff. apply Z.eqb_neq. rewrite Hr.
        intros Heq. apply Hnin. rewrite <- Heq. apply in_map. exact Hq.
      * apply Hatt. right. exact Hq.
    + split; [rewrite IHa, Habs; reflexivity | split; [eapply lowframe_trans; eassumption | rewrite IHg; exact Hgs]].
Qed.

(* ---------- SubsetGroup.register: the two loops of the code against the fused loop of the hand model ---------- *)
Fixpoint pairs (n : Z) (ds : list Z) : list (Z * Z) :=
  match ds with [] => [] | d :: r => (n, d) :: pairs (n + 1) r end.
Fixpoint nseq (n : Z) (ds : list Z) : Z := match ds with [] => n | _ :: r => nseq (n + 1) r end.
Fixpoint Gseq (g n : Z) (ds : list Z) (G : Z -> list (Z * Z)) : Z -> list (Z * Z) :=
  match ds with [] => G | d :: r => Gseq g (n + 1) r (upd G g (G g ++ [(n, d)])) end.
Fixpoint Dseq (g n : Z) (ds : list Z) (D : Z -> list (Z * Z)) : Z -> list (Z * Z) :=
  match ds with [] => D | d :: r => Dseq g (n + 1) r (upd D d (D d ++ [(n, g)])) end.

Lemma Gseq_at : forall g ds n G, Gseq g n ds G g = G g ++ pairs n ds.
Proof.
  intros g ds. induction ds as [|d r IH]; intros n G; simpl.
  - symmetry. apply app_nil_r.
  - rewrite IH. unfold upd. rewrite Z.eqb_refl. rewrite <- app_assoc. reflexivity.
Qed.

Lemma hand_reg : forall g ds st,
  fold_left (fun st d => group_add_data g d st) ds st =
  set_next_sid (nseq (next_sid st) ds)
    (set_gsubs (Gseq g (next_sid st) ds (gsubs st)) (set_dsubs (Dseq g (next_sid st) ds (dsubs st)) st)).
Proof.
  intros g ds. induction ds as [|d r IH]; intros st; simpl.
  - destruct st. reflexivity.
  - rewrite IH. reflexivity.
Qed.

Definition reg1_step (g : Z) (h : heap) (d : Z) : heap :=
  let '(s, h) := new_GroupedSubset d g h in
  hset_gsubs (hupd (h_gsubs h) g (h_gsubs h g ++ [stored_on_group s])) h.

Lemma gen_reg1 : forall g ds h,
  h_gsubs (fold_left (reg1_step g) ds h) = Gseq g (h_next_sid h) ds (h_gsubs h) /\
  h_next_sid (fold_left (reg1_step g) ds h) = nseq (h_next_sid h) ds /\
  h_dsubs (fold_left (reg1_step g) ds h) = h_dsubs h /\
  lowframe h (fold_left (reg1_step g) ds h).
Proof.
  intros g ds. induction ds as [|d r IH]; intros h; simpl.
  - repeat split; try reflexivity.
  - destruct (IH (reg1_step g h d)) as [I1 [I2 [I3 I4]]].
    split; [rewrite I1; reflexivity|]. split; [rewrite I2; reflexivity|]. split; [rewrite I3; reflexivity|].
    eapply lowframe_trans; [| exact I4]. constructor; reflexivity.
Qed.

Definition reg2_step (h : heap) (p : Z * sub) : heap := BaseData_add_subset (fst p) (snd p) None h.

Lemma gen_reg2 : forall g ds n h,
  (forall x id, In id (map fst (h_dsubs h x)) -> id < n) ->
  h_dsubs (fold_left reg2_step (combine ds (map (fun p => mkSub (fst p) (snd p) g) (pairs n ds))) h)
    = Dseq g n ds (h_dsubs h) /\
  h_gsubs (fold_left reg2_step (combine ds (map (fun p => mkSub (fst p) (snd p) g) (pairs n ds))) h) = h_gsubs h /\
  h_next_sid (fold_left reg2_step (combine ds (map (fun p => mkSub (fst p) (snd p) g) (pairs n ds))) h) = h_next_sid h /\
  lowframe h (fold_left reg2_step (combine ds (map (fun p => mkSub (fst p) (snd p) g) (pairs n ds))) h).
Proof.
  intros g ds. induction ds as [|d r IH]; intros n h Hfr; simpl.
  - repeat split; try reflexivity.
  - set (s := mkSub n d g).
    assert (Hfresh : ~ In (sub_id s) (map fst (h_dsubs h d))).
    { cbn. intros Hin. apply Hfr in Hin. lia. }
    destruct (add_subset_eq h (init 0 0) d s eq_refl Hfresh) as [Habs [Hlf Hsid]].
    unfold reg2_step at 2 4 6 8. cbn [fst snd].
    set (h1 := BaseData_add_subset d s None h) in *.
    assert (Hds : h_dsubs h1 = upd (h_dsubs h) d (h_dsubs h d ++ [(n, g)])).
    { change (h_dsubs h1) with (dsubs (abs h1 (init 0 0))). rewrite Habs. reflexivity. }
    assert (Hgs : h_gsubs h1 = h_gsubs h).
    { change (h_gsubs h1) with (gsubs (abs h1 (init 0 0))). rewrite Habs. reflexivity. }
    destruct (IH (n + 1) h1) as [I1 [I2 [I3 I4]]].
    + intros x id Hin. rewrite Hds in Hin. unfold upd in Hin. destruct (x =? d).
      * rewrite map_app in Hin. apply in_app_iff in Hin. destruct Hin as [Hin | [Hin | []]].
        -- apply Hfr in Hin. lia.
        -- cbn in Hin. lia.
      * apply Hfr in Hin. lia.
    + split; [rewrite I1, Hds; reflexivity|]. split; [rewrite I2; exact Hgs|]. split; [rewrite I3; exact Hsid|].
      eapply lowframe_trans; eassumption.
Qed.

Lemma fold_left_ext : forall (A B : Type) (f f' : A -> B -> A) (l : list B) (a : A),
  (forall a b, f a b = f' a b) -> fold_left f l a = fold_left f' l a.
Proof.
  intros A B f f' l. induction l as [|b l IH]; intros a H; simpl; [reflexivity|].
  rewrite H. apply IH. exact H.
Qed.

Lemma register_eq : forall g h st,
  h_gsubs h g = [] -> (forall x id, In id (map fst (h_dsubs h x)) -> id < h_next_sid h) ->
  abs (SubsetGroup_register g h) st = group_register g (abs h st) /\
  lowframe (SubsetGroup_register_to_hub g h) (SubsetGroup_register g h).
Proof.
  intros g h st Hempty Hfr. unfold SubsetGroup_register. cbv zeta.
  set (h0 := SubsetGroup_register_to_hub g h).
  assert (E1 : (fun (h : heap) (d : Z) => let '(s, h1) := new_GroupedSubset d g h in
                  hset_gsubs (hupd (h_gsubs h1) g (h_gsubs h1 g ++ [stored_on_group s])) h1) = reg1_step g) by reflexivity.
  rewrite E1.
  destruct (gen_reg1 g (h_data h0) h0) as [G1 [G2 [G3 G4]]].
  set (h1 := fold_left (reg1_step g) (h_data h0) h0) in *.
  rewrite (fold_left_ext _ _ _ reg2_step) by (intros a [d s]; reflexivity).
  assert (Hsub : subsets_of_group g h1 = map (fun p => mkSub (fst p) (snd p) g) (pairs (h_next_sid h0) (h_data h0))).
  { unfold subsets_of_group. rewrite G1. rewrite Gseq_at. change (h_gsubs h0 g) with (h_gsubs h g). rewrite Hempty. reflexivity. }
  rewrite Hsub. rewrite (lf_data _ _ G4).
  destruct (gen_reg2 g (h_data h0) (h_next_sid h0) h1) as [K1 [K2 [K3 K4]]].
  { intros x id Hin. rewrite G3 in Hin. exact (Hfr x id Hin). }
  set (h2 := fold_left reg2_step _ h1) in *.
  split.
  - unfold group_register. rewrite hand_reg. unfold abs at 1.
    pose proof (lowframe_trans _ _ _ G4 K4) as F.
    rewrite (lf_data _ _ F), (lf_groups _ _ F), (lf_did _ _ F), (lf_gid _ _ F), (lf_sg _ _ F), (lf_nc _ _ F), K1, K2, K3, G1, G2, G3.
    reflexivity.
  - eapply lowframe_trans; eassumption.
Qed.
