(* C06 — operations inside `with hub.delay_callbacks()`: part 2, the invariant that holds inside a block (collection messages
   wait in the queue) and what delivering the queue does. *)
From Coq Require Import ZArith List Bool Lia.
Import ListNotations.
From GV Require Import Common.Wire gen.Gen_groups C06.Model C06.Lemmas1 C06.Lemmas2 C06.Lemmas3 C06.Lemmas
  C06.GenEquiv1 C06.GenEquiv2 C06.GenEquiv C06.GenDelay1.
Open Scope Z_scope.

(* the collection a heap shows, without ghosts *)
Definition A (h : heap) : state := abs h (init 0 0).

(* the last collection message about dataset d in a queue: Some true = Add, Some false = Delete *)
Definition about (m : message) (d : Z) : option bool :=
  match m with
  | DataCollectionAddMessage x => if x =? d then Some true else None
  | DataCollectionDeleteMessage x => if x =? d then Some false else None
  | _ => None
  end.
Fixpoint last_msg (q : list message) (d : Z) : option bool :=
  match q with
  | [] => None
  | m :: r => match last_msg r d with Some b => Some b | None => about m d end
  end.

Lemma last_msg_app : forall q m d,
  last_msg (q ++ [m]) d = match about m d with Some b => Some b | None => last_msg q d end.
Proof.
  induction q as [|x q IH]; intros m d; simpl.
  - destruct (about m d); reflexivity.
  - rewrite IH. destruct (about m d); [reflexivity|]. reflexivity.
Qed.

Lemma last_msg_plain : forall q d, dcq q = [] -> last_msg q d = None.
Proof.
  induction q as [|m q IH]; intros d H; simpl; [reflexivity|].
  unfold dcq in H. simpl in H. destruct (is_dc m) eqn:E; [discriminate|].
  rewrite (IH d H). destruct m; try discriminate; reflexivity.
Qed.

(* ---------- delivery of DataCollectionAddMessage(d) when some groups already have the dataset (the guard of _add_data) ---------- *)
Lemma add_loop_guarded : forall d gs h E,
  GCore (A h) E -> NoDup gs -> (forall g, In g gs -> In g (h_groups h)) ->
  GCore (A (fold_left (fun h g => SubsetGroup__add_data g d h) gs h)) (fun x g => E x g \/ (x = d /\ In g gs)) /\
  lowframe h (fold_left (fun h g => SubsetGroup__add_data g d h) gs h).
Proof.
  intros d gs. induction gs as [|g gs IH]; intros h E HG Hnd Hin; simpl.
  - split; [eapply gcore_iff; [| exact HG]; intros; tauto | apply lowframe_refl].
  - inversion Hnd as [|x xs Hnin Hnd']; subst.
    assert (Hgl : In g (groups (A h))) by (apply Hin; left; reflexivity).
    destruct (in_dec Z.eq_dec d (map snd (h_gsubs h g))) as [Hhas | Hnot].
    + rewrite (add_data_skip h g d Hhas).
      assert (HE : E d g).
      { apply in_map_snd in Hhas. destruct Hhas as [s Hs]. apply (gc_dom _ _ HG d g s).
        apply (gc_views _ _ HG g Hgl d s). exact Hs. }
      destruct (IH h E HG Hnd') as [IG IF]; [intros g' Hg'; apply Hin; right; exact Hg'|].
      split; [|exact IF]. eapply gcore_iff; [| exact IG]. intros x g'. simpl. split.
      * intros [H | [Hx Hg']]; [left; exact H | right; split; [exact Hx | right; exact Hg']].
      * intros [H | [Hx [Hg' | Hg']]]; [left; exact H | left; subst; exact HE | right; split; assumption].
    + assert (HnE : ~ E d g).
      { intros HE. destruct (gc_tot _ _ HG d g HE) as [s Hs]. apply Hnot. apply in_map_snd. exists s.
        apply (gc_views _ _ HG g Hgl d s). exact Hs. }
      assert (Hfr : forall x, In x (map fst (h_dsubs h d)) -> x < h_next_sid h).
      { intros x Hx. apply in_map_fst in Hx. destruct Hx as [b Hb]. exact (gc_fresh_d _ _ HG d b x Hb). }
      destruct (add_data_eq h (init 0 0) g d Hnot Hfr) as [Habs Hlf].
      pose proof (gcore_add _ _ g d HG Hgl HnE) as HG1. fold (A h) in Habs. rewrite <- Habs in HG1.
      destruct (IH (SubsetGroup__add_data g d h) _ HG1 Hnd') as [IG IF].
      { intros g' Hg'. rewrite (lf_groups _ _ Hlf). apply Hin. right. exact Hg'. }
      split; [| eapply lowframe_trans; eassumption].
      eapply gcore_iff; [| exact IG]. intros x g'. simpl. split.
      * intros [[H | [Hx Hg']] | [Hx Hg']]; [left; exact H | right; split; [exact Hx | left; symmetry; exact Hg'] | right; split; [exact Hx | right; exact Hg']].
      * intros [H | [Hx [Hg' | Hg']]]; [left; left; exact H | left; right; split; [exact Hx | symmetry; exact Hg'] | right; split; assumption].
Qed.

(* ---------- delivering the queue when the outermost block is left ---------- *)
Lemma last_msg_dcq : forall q d, last_msg q d = last_msg (dcq q) d.
Proof.
  induction q as [|m q IH]; intros d; simpl; [reflexivity|].
  unfold dcq. simpl. fold (dcq q). destruct (is_dc m) eqn:E; simpl; rewrite <- IH.
  - reflexivity.
  - destruct (last_msg q d); [reflexivity|]. destruct m; try discriminate; reflexivity.
Qed.

Lemma deliver_queue : forall q h E,
  GCore (A h) E -> NoDup (h_groups h) -> (forall x g, E x g -> In g (h_groups h)) ->
  h_subs h = map entry (h_groups h) ->
  exists E', GCore (A (fold_left (fun h m => deliver m h) q h)) E' /\
             (forall x g, E' x g -> In g (h_groups h)) /\
             (forall d g, In g (h_groups h) -> (E' d g <-> match last_msg q d with Some b => b = true | None => E d g end)) /\
             lowframe h (fold_left (fun h m => deliver m h) q h).
Proof.
  induction q as [|m q IH]; intros h E HG Hnd HEg Hs; simpl.
  - exists E. split; [exact HG | split; [exact HEg | split; [intros; tauto | apply lowframe_refl]]].
  - assert (Hstep : exists E1, GCore (A (deliver m h)) E1 /\ (forall x g, E1 x g -> In g (h_groups h)) /\
                      (forall d g, In g (h_groups h) -> (E1 d g <-> match about m d with Some b => b = true | None => E d g end)) /\
                      lowframe h (deliver m h)).
    { destruct m as [d | d | s | s].
      - rewrite (deliver_add h d (h_groups h) Hs).
        destruct (add_loop_guarded d (h_groups h) (ev (EDeliver (DataCollectionAddMessage d)) h) E HG Hnd) as [G1 F1];
          [intros g Hg; exact Hg|].
        eexists. split; [exact G1|]. split; [|split].
        + intros x g [H | [_ H]]; [apply HEg in H; exact H | exact H].
        + intros x g Hg. cbn [about]. rewrite (Z.eqb_sym d x). destruct (x =? d) eqn:Ex.
          * apply Z.eqb_eq in Ex. split; [reflexivity | intros _; right; split; assumption].
          * apply Z.eqb_neq in Ex. split; [intros [H | [H _]]; [exact H | contradiction] | intros H; left; exact H].
        + destruct F1. constructor; assumption.
      - rewrite (deliver_del h d (h_groups h) Hs).
        set (h0 := ev (EDeliver (DataCollectionDeleteMessage d)) h).
        destruct (rm_loop_eq d (h_groups h) h0 (init 0 0)) as [Hab Hlf].
        { exact Hnd. }
        { intros g _. apply (gc_sid_g _ _ HG). }
        { apply (gc_sid_d _ _ HG). }
        { intros g p Hg Hp Hpd. destruct p as [s x]. cbn in *. subst x. apply (gc_views _ _ HG g Hg d s). exact Hp. }
        pose proof (gcore_remove_all (A h0) E d HG Hnd HEg) as G1.
        change (groups (A h0)) with (h_groups h) in G1. fold (A h0) in Hab. rewrite <- Hab in G1.
        eexists. split; [exact G1|]. split; [|split].
        + intros x g [H _]. apply HEg in H. exact H.
        + intros x g Hg. cbn [about]. rewrite (Z.eqb_sym d x). destruct (x =? d) eqn:Ex.
          * apply Z.eqb_eq in Ex. split; [intros [_ H]; contradiction | discriminate].
          * apply Z.eqb_neq in Ex. tauto.
        + destruct Hlf. constructor; assumption.
      - rewrite (deliver_sub h (SubsetCreateMessage s) (h_groups h) Hs eq_refl). exists E.
        split; [exact HG | split; [exact HEg | split; [intros; cbn; tauto | constructor; reflexivity]]].
      - rewrite (deliver_sub h (SubsetDeleteMessage s) (h_groups h) Hs eq_refl). exists E.
        split; [exact HG | split; [exact HEg | split; [intros; cbn; tauto | constructor; reflexivity]]]. }
    destruct Hstep as [E1 [G1 [D1 [I1 F1]]]].
    destruct (IH (deliver m h) E1 G1) as [E' [G' [D' [I' F']]]].
    + rewrite (lf_groups _ _ F1). exact Hnd.
    + intros x g H. rewrite (lf_groups _ _ F1). exact (D1 x g H).
    + rewrite (lf_subs _ _ F1), (lf_groups _ _ F1). exact Hs.
    + exists E'. split; [exact G' | split; [|split]].
      * intros x g H. rewrite <- (lf_groups _ _ F1). exact (D' x g H).
      * intros d g Hg. rewrite (I' d g) by (rewrite (lf_groups _ _ F1); exact Hg).
        destruct (last_msg q d); [tauto|]. apply I1. exact Hg.
      * eapply lowframe_trans; eassumption.
Qed.
