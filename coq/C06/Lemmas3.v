(* C06 — effect of the removal loops: DataCollectionDeleteMessage to every group's (repaired) `_remove_data`,
   and `remove_subset_group`'s loop of `Subset.delete`. *)
From Coq Require Import ZArith List Bool Lia.
Import ListNotations.
From GV Require Import Common.Wire C06.Model C06.Lemmas1 C06.Lemmas2.
Open Scope Z_scope.

Lemma existsb_ext_in : forall (A : Type) (f g : A -> bool) (l : list A),
  (forall x, In x l -> f x = g x) -> existsb f l = existsb g l.
Proof.
  intros A f g l. induction l as [|a l IH]; simpl; intros H.
  - reflexivity.
  - rewrite (H a (or_introl eq_refl)). rewrite IH; [reflexivity|]. intros x Hx. apply H. right. exact Hx.
Qed.

Lemma hits_true : forall l d q, hits l d q = true <-> In (fst q, d) l.
Proof.
  intros l d q. unfold hits. rewrite existsb_exists. split.
  - intros [p [Hp Hb]]. apply andb_true_iff in Hb. destruct Hb as [H1 H2].
    apply Z.eqb_eq in H1. apply Z.eqb_eq in H2. destruct p as [a b]. simpl in *. subst. exact Hp.
  - intros H. exists (fst q, d). split; [exact H|]. simpl. rewrite !Z.eqb_refl. reflexivity.
Qed.

Lemma hits_false : forall l d q, hits l d q = false <-> ~ In (fst q, d) l.
Proof.
  intros l d q. rewrite <- hits_true. destruct (hits l d q).
  - split; [discriminate | intros H; exfalso; apply H; reflexivity].
  - split; [intros _ H; discriminate | reflexivity].
Qed.

(* ---------- delivery of DataCollectionDeleteMessage(d) to the groups gs ---------- *)
Lemma rm_loop : forall d gs st, NoDup gs ->
  let st' := fold_left (fun st g => group_remove_data g d st) gs st in
  (forall g, gsubs st' g = if memz g gs then filter (fun q => negb (hits (gsubs st g) d q)) (gsubs st g) else gsubs st g) /\
  (forall x, dsubs st' x = if x =? d
                           then filter (fun q => negb (existsb (fun g => hits (gsubs st g) d q) gs)) (dsubs st d)
                           else dsubs st x) /\
  next_sid st' = next_sid st /\ same_frame st st'.
Proof.
  intros d gs. induction gs as [|g gs IH]; intros st Hnd; simpl.
  - refine (conj _ (conj _ (conj _ _))).
    + intros g. reflexivity.
    + intros x. destruct (x =? d) eqn:Hx; [|reflexivity].
      apply Z.eqb_eq in Hx. subst. symmetry. apply filter_all. intros; reflexivity.
    + reflexivity.
    + apply same_frame_refl.
  - inversion Hnd as [|y ys Hnin Hnd']; subst.
    pose proof (grd_loop g d (gsubs st g) st) as H1. cbv zeta in H1. rewrite <- grd_unfold in H1.
    destruct H1 as [H1g [H1d [H1n H1f]]].
    specialize (IH (group_remove_data g d st) Hnd'). cbv zeta in IH.
    destruct IH as [IHg [IHd [IHn IHf]]].
    refine (conj _ (conj _ (conj _ _))).
    + intros x. rewrite IHg. rewrite !H1g. unfold memz. simpl. fold (memz x gs).
      destruct (x =? g) eqn:Hx.
      * apply Z.eqb_eq in Hx. subst x. apply memz_false in Hnin. rewrite Hnin. simpl. reflexivity.
      * simpl. reflexivity.
    + intros x. rewrite IHd. rewrite !H1d. destruct (x =? d) eqn:Hx; [|reflexivity].
      rewrite Z.eqb_refl. rewrite filter_filter. apply filter_ext. intros q.
      rewrite negb_orb. f_equal. f_equal. apply existsb_ext_in. intros g' Hg'.
      rewrite H1g. destruct (g' =? g) eqn:Hgg; [|reflexivity].
      apply Z.eqb_eq in Hgg. subst g'. contradiction.
    + rewrite IHn. exact H1n.
    + eapply same_frame_trans; [exact H1f | exact IHf].
Qed.

(* what removing dataset d does to the two views, under the invariant *)
Lemma remove_sem : forall st E d,
  GCore st E -> NoDup (groups st) -> (forall x g, E x g -> In g (groups st)) ->
  let st' := fold_left (fun st g => group_remove_data g d st) (groups st) st in
  (forall x g s, M st' x g s <-> M st x g s /\ x <> d) /\
  (forall g, In g (groups st) -> forall x s, N st' g x s <-> N st g x s /\ x <> d) /\
  (forall g, ~ In g (groups st) -> gsubs st' g = gsubs st g) /\
  (forall x, exists f, dsubs st' x = filter f (dsubs st x)) /\
  (forall g, exists f, gsubs st' g = filter f (gsubs st g)) /\
  next_sid st' = next_sid st /\ same_frame st st'.
Proof.
  intros st E d HG Hnd HEg.
  pose proof (rm_loop d (groups st) st Hnd) as H. cbv zeta in H. cbv zeta.
  destruct H as [Hg [Hd [Hn Hf]]].
  destruct HG as [Hfd Hfg Hsd Hgd Hsg Hdg Hv Hdom Htot Hgf Hub].
  refine (conj _ (conj _ (conj _ (conj _ (conj _ (conj _ _)))))).
  - intros x g s. unfold M. rewrite Hd. destruct (x =? d) eqn:Hx.
    + apply Z.eqb_eq in Hx. subst x. rewrite filter_In. split.
      * intros [Hin Hb]. exfalso. apply negb_true_iff in Hb.
        assert (Hgl : In g (groups st)) by (eapply HEg; eapply Hdom; exact Hin).
        assert (Hex : existsb (fun g0 => hits (gsubs st g0) d (s, g)) (groups st) = true).
        { apply existsb_exists. exists g. split; [exact Hgl|]. apply hits_true. simpl.
          apply (Hv g Hgl d s). exact Hin. }
        rewrite Hex in Hb. discriminate.
      * intros [_ Hne]. exfalso. apply Hne. reflexivity.
    + apply Z.eqb_neq in Hx. tauto.
  - intros g Hgl x s. unfold N. rewrite Hg. apply memz_In in Hgl. rewrite Hgl.
    rewrite filter_In. rewrite negb_true_iff. rewrite hits_false. simpl. split.
    + intros [Hin Hnh]. split; [exact Hin|]. intros Heq. subst x. exact (Hnh Hin).
    + intros [Hin Hne]. split; [exact Hin|]. intros Hin'. apply Hne.
      eapply nodup_fst_inj; [apply (Hsg g) | exact Hin | exact Hin'].
  - intros g Hngl. rewrite Hg. apply memz_false in Hngl. rewrite Hngl. reflexivity.
  - intros x. rewrite Hd. destruct (x =? d) eqn:Hx.
    + apply Z.eqb_eq in Hx. subst x. eexists. reflexivity.
    + exists (fun _ => true). symmetry. apply filter_all. intros; reflexivity.
  - intros g. rewrite Hg. destruct (memz g (groups st)).
    + eexists. reflexivity.
    + exists (fun _ => true). symmetry. apply filter_all. intros; reflexivity.
  - exact Hn.
  - exact Hf.
Qed.

(* ---------- remove_subset_group : `for s in grp.subsets: s.delete()` ---------- *)
Lemma sd_dsubs : forall s d st x,
  dsubs (subset_delete s d st) x = if x =? d then filter (fun p => negb (fst p =? s)) (dsubs st d) else dsubs st x.
Proof. intros. reflexivity. Qed.

Lemma rg_loop : forall l st,
  let st' := fold_left (fun st p => subset_delete (fst p) (snd p) st) l st in
  (forall x, dsubs st' x = filter (fun q => negb (hits l x q)) (dsubs st x)) /\
  (forall x, gsubs st' x = gsubs st x) /\
  next_sid st' = next_sid st /\ same_frame st st'.
Proof.
  induction l as [|p l IH]; intros st; simpl.
  - refine (conj _ (conj _ (conj _ _))).
    + intros x. symmetry. apply filter_all. intros; reflexivity.
    + intros x. reflexivity.
    + reflexivity.
    + apply same_frame_refl.
  - specialize (IH (subset_delete (fst p) (snd p) st)). cbv zeta in IH.
    destruct IH as [IHd [IHg [IHn IHf]]].
    refine (conj _ (conj _ (conj _ _))).
    + intros x. rewrite IHd. rewrite sd_dsubs. rewrite (Z.eqb_sym (snd p) x).
      destruct (x =? snd p) eqn:Hx.
      * apply Z.eqb_eq in Hx. subst x. rewrite filter_filter. apply filter_ext. intros q.
        simpl. symmetry. apply negb_orb.
      * apply filter_ext. intros q. reflexivity.
    + intros x. rewrite IHg. reflexivity.
    + rewrite IHn. reflexivity.
    + eapply same_frame_trans; [| exact IHf]. constructor; reflexivity.
Qed.

Lemma remove_group_sem : forall st E g,
  GCore st E -> In g (groups st) ->
  let st' := fold_left (fun st p => subset_delete (fst p) (snd p) st) (gsubs st g) st in
  (forall x g' s, M st' x g' s <-> M st x g' s /\ g' <> g) /\
  (forall x, gsubs st' x = gsubs st x) /\
  (forall x, exists f, dsubs st' x = filter f (dsubs st x)) /\
  next_sid st' = next_sid st /\ same_frame st st'.
Proof.
  intros st E g HG Hgl.
  pose proof (rg_loop (gsubs st g) st) as H. cbv zeta in H. cbv zeta.
  destruct H as [Hd [Hg [Hn Hf]]].
  destruct HG as [Hfd Hfg Hsd Hgd Hsg Hdg Hv Hdom Htot Hgf Hub].
  refine (conj _ (conj _ (conj _ (conj _ _)))).
  - intros x g' s. unfold M. rewrite Hd. rewrite filter_In. rewrite negb_true_iff. rewrite hits_false. simpl.
    split.
    + intros [Hin Hnh]. split; [exact Hin|]. intros Heq. subst g'. apply Hnh. apply (Hv g Hgl x s). exact Hin.
    + intros [Hin Hne]. split; [exact Hin|]. intros Hin'. apply Hne.
      apply (Hv g Hgl x s) in Hin'. unfold M in Hin'.
      eapply nodup_fst_inj; [apply (Hsd x) | exact Hin | exact Hin'].
  - exact Hg.
  - intros x. rewrite Hd. eexists. reflexivity.
  - exact Hn.
  - exact Hf.
Qed.
