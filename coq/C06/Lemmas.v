(* C06 — the invariant is established by `init`, preserved by every operation, and implies the property `Inv`. *)
From Coq Require Import ZArith List Bool Lia Permutation.
Import ListNotations.
From GV Require Import Common.Wire C06.Model C06.Lemmas1 C06.Lemmas2 C06.Lemmas3.
Open Scope Z_scope.

Definition live (st : state) (d g : Z) : Prop := In d (coll st) /\ In g (groups st).

Record Core (st : state) : Prop := mkCore {
  c_coll : NoDup (coll st);
  c_groups : NoDup (groups st);
  c_g : GCore st (live st);
  c_did_fresh : forall d, In d (coll st) -> 0 <= d < next_did st;
  c_rdata : forall d, In d (rdata st) -> ~ In d (coll st);
  c_rgroups : forall g, In g (rgroups st) -> ~ In g (groups st) /\ g < next_gid st
}.

(* GCore only reads the heap, the group list and the two counters *)
Lemma gcore_transport : forall st st' E,
  (forall x, dsubs st' x = dsubs st x) -> (forall x, gsubs st' x = gsubs st x) ->
  next_sid st' = next_sid st -> groups st' = groups st -> next_gid st' = next_gid st ->
  GCore st E -> GCore st' E.
Proof.
  intros st st' E Hd Hg Hn Hgr Hng [H1 H2 H3 H4 H5 H6 H7 H8 H9 H10 H11].
  constructor; unfold M, N in *.
  - intros d g s H. rewrite Hn. rewrite Hd in H. eapply H1. exact H.
  - intros g d s H. rewrite Hn. rewrite Hg in H. eapply H2. exact H.
  - intros d. rewrite Hd. apply H3.
  - intros d. rewrite Hd. apply H4.
  - intros g. rewrite Hg. apply H5.
  - intros g. rewrite Hg. apply H6.
  - intros g Hgl d s. rewrite Hd, Hg. rewrite Hgr in Hgl. apply H7. exact Hgl.
  - intros d g s H. rewrite Hd in H. eapply H8. exact H.
  - intros d g H. destruct (H9 d g H) as [s Hs]. exists s. rewrite Hd. exact Hs.
  - intros g Hgl. rewrite Hng. rewrite Hgr in Hgl. apply H10. exact Hgl.
  - intros g Hge. rewrite Hg. rewrite Hng in Hge. apply H11. exact Hge.
Qed.

Lemma core_init : forall pool ncol, Core (init pool ncol).
Proof.
  intros pool ncol. constructor.
  - constructor.
  - constructor.
  - constructor; unfold M, N; simpl.
    + intros d g s [].
    + intros g d s [].
    + intros d. constructor.
    + intros d. constructor.
    + intros g. constructor.
    + intros g. constructor.
    + intros g [].
    + intros d g s [].
    + intros d g [[] _].
    + intros g [].
    + intros g _. reflexivity.
  - intros d [].
  - intros d [].
  - intros g [].
Qed.

(* ---------- attribute setters ---------- *)
Lemma core_set_attr : forall st g f, Core st -> Core (set_attr g f st).
Proof.
  intros st g f HC. unfold set_attr. destruct (known_group g st); [|exact HC].
  destruct HC as [H1 H2 H3 H4 H5 H6]. constructor; try assumption.
  eapply gcore_transport; [| | | | | exact H3]; reflexivity.
Qed.

(* ---------- append ---------- *)
Lemma core_append : forall st d, Core st -> Core (do_append d st).
Proof.
  intros st d HC. unfold do_append.
  destruct (memz d (coll st)) eqn:Hmem; [exact HC|].
  destruct (known_data d st) eqn:Hk; simpl; [|exact HC].
  apply memz_false in Hmem.
  destruct HC as [Hc Hg HG Hdf Hrd Hrg].
  set (st1 := set_rdata (removez d (rdata st)) (set_coll (coll st ++ [d]) st)).
  assert (HG1 : GCore st1 (live st)).
  { eapply gcore_transport; [| | | | | exact HG]; reflexivity. }
  assert (Hgr1 : groups st1 = groups st) by reflexivity.
  rewrite append_loop_eq.
  pose proof (add_pairs_frame (map (fun g => (g, d)) (groups st)) st1) as Hfr.
  destruct Hfr as [F1 F2 F3 F4 F5 F6].
  assert (HGf : GCore (add_pairs (map (fun g => (g, d)) (groups st)) st1)
                      (fun d' g' => live st d' g' \/ In (g', d') (map (fun g => (g, d)) (groups st)))).
  { apply gcore_add_pairs.
    - exact HG1.
    - apply nodup_pair_l. exact Hg.
    - intros p Hp. apply in_map_iff in Hp. destruct Hp as [g [Hp Hin]]. subst p. simpl. split.
      + exact Hin.
      + intros [Hd _]. exact (Hmem Hd). }
  constructor.
  - rewrite F1. simpl. apply NoDup_app_single; assumption.
  - rewrite F2. exact Hg.
  - eapply gcore_iff; [| exact HGf]. intros d' g'. unfold live. rewrite F1, F2. simpl.
    rewrite in_map_iff. rewrite in_app_iff. simpl. split.
    + intros [[Hd' Hg'] | [g0 [Heq Hin]]].
      * split; [left; exact Hd' | exact Hg'].
      * inversion Heq; subst. split; [right; left; reflexivity | exact Hin].
    + intros [[Hd' | [Hd' | []]] Hg'].
      * left. split; assumption.
      * right. exists g'. subst d'. split; [reflexivity | exact Hg'].
  - intros x. rewrite F1, F5. simpl. rewrite in_app_iff. simpl. intros [Hx | [Hx | []]].
    + apply Hdf. exact Hx.
    + subst x. unfold known_data in Hk. apply andb_true_iff in Hk. destruct Hk as [Hk0 Hk].
      apply Z.ltb_lt in Hk. apply Z.leb_le in Hk0. split; assumption.
  - intros x. rewrite F3, F1. simpl. rewrite removez_In. rewrite in_app_iff. simpl.
    intros [Hx Hne] [Hin | [Heq | []]].
    + exact (Hrd x Hx Hin).
    + apply Hne. symmetry. exact Heq.
  - intros g'. rewrite F4, F2, F6. simpl. apply Hrg.
Qed.

(* ---------- remove ---------- *)
Lemma core_remove : forall st d, Core st -> Core (do_remove d st).
Proof.
  intros st d HC. unfold do_remove.
  destruct (memz d (coll st)) eqn:Hmem; simpl; [|exact HC].
  apply memz_In in Hmem.
  destruct HC as [Hc Hg HG Hdf Hrd Hrg].
  set (st1 := set_rdata (removez d (rdata st) ++ [d]) (set_coll (removez d (coll st)) st)).
  assert (HG1 : GCore st1 (live st)).
  { eapply gcore_transport; [| | | | | exact HG]; reflexivity. }
  assert (Hgr1 : groups st1 = groups st) by reflexivity.
  pose proof (remove_sem st1 (live st) d HG1) as Hs. rewrite Hgr1 in Hs.
  specialize (Hs Hg (fun x g H => proj2 H)). cbv zeta in Hs.
  destruct Hs as [HM [HN [Hng [Hdf' [Hgf' [Hn Hfr]]]]]].
  destruct Hfr as [F1 F2 F3 F4 F5 F6].
  destruct HG1 as [Hfd Hfg Hsd Hgd Hsg Hdg Hv Hdom Htot Hgfr Hub].
  constructor.
  - rewrite F1. simpl. apply NoDup_removez. exact Hc.
  - rewrite F2. exact Hg.
  - constructor.
    + intros x g s H. rewrite Hn. apply HM in H. destruct H as [H _]. eapply Hfd. exact H.
    + intros g x s H. rewrite Hn. unfold N in H. destruct (Hgf' g) as [f Hf]. rewrite Hf in H.
      apply filter_In in H. destruct H as [H _]. eapply Hfg. exact H.
    + intros x. destruct (Hdf' x) as [f Hf]. rewrite Hf. apply NoDup_map_filter. apply Hsd.
    + intros x. destruct (Hdf' x) as [f Hf]. rewrite Hf. apply NoDup_map_filter. apply Hgd.
    + intros g. destruct (Hgf' g) as [f Hf]. rewrite Hf. apply NoDup_map_filter. apply Hsg.
    + intros g. destruct (Hgf' g) as [f Hf]. rewrite Hf. apply NoDup_map_filter. apply Hdg.
    + intros g Hgl x s. rewrite F2 in Hgl. simpl in Hgl. rewrite HM. rewrite (HN g Hgl).
      rewrite (Hv g Hgl x s). tauto.
    + intros x g s H. apply HM in H. destruct H as [H Hne]. apply Hdom in H. destruct H as [Hx Hgl].
      unfold live. rewrite F1, F2. simpl. split; [apply removez_In; split; assumption | exact Hgl].
    + intros x g [Hx Hgl]. rewrite F1 in Hx. rewrite F2 in Hgl. simpl in Hx, Hgl.
      apply removez_In in Hx. destruct Hx as [Hx Hne].
      destruct (Htot x g (conj Hx Hgl)) as [s Hs]. exists s. apply HM. split; assumption.
    + intros g Hgl. rewrite F2 in Hgl. rewrite F6. apply Hgfr. exact Hgl.
    + intros g Hge. rewrite F6 in Hge. destruct (Hgf' g) as [f Hf]. rewrite Hf. rewrite (Hub g Hge). reflexivity.
  - intros x. rewrite F1, F5. simpl. rewrite removez_In. intros [Hx _]. apply Hdf. exact Hx.
  - intros x. rewrite F3, F1. simpl. rewrite in_app_iff. rewrite !removez_In. simpl.
    intros [[Hx Hne] | [Hx | []]] [Hin Hne'].
    + exact (Hrd x Hx Hin).
    + apply Hne'. symmetry. exact Hx.
  - intros g. rewrite F4, F2, F6. simpl. apply Hrg.
Qed.

Lemma core_remove_all : forall l st, Core st -> Core (fold_left (fun st d => do_remove d st) l st).
Proof.
  induction l as [|d l IH]; intros st HC; simpl.
  - exact HC.
  - apply IH. apply core_remove. exact HC.
Qed.

(* ---------- new group ---------- *)
Lemma core_new_group : forall st e, Core st -> Core (do_new_group e st).
Proof.
  intros st e HC. unfold do_new_group, group_register.
  destruct HC as [Hc Hg HG Hdf Hrd Hrg].
  set (g := next_gid st).
  set (st1 := set_gattrs _ _).
  assert (Hcoll1 : coll st1 = coll st) by reflexivity.
  assert (Hgr1 : groups st1 = groups st ++ [g]) by reflexivity.
  assert (Hng1 : next_gid st1 = g + 1) by reflexivity.
  assert (Hgnew : ~ In g (groups st)).
  { intros Hin. apply (gc_gid_fresh _ _ HG) in Hin. unfold g in Hin. lia. }
  assert (HG1 : GCore st1 (live st)).
  { destruct HG as [Hfd Hfg Hsd Hgd Hsg Hdg Hv Hdom Htot Hgfr Hub].
    constructor; try assumption.
    - intros g' Hg' x s. rewrite Hgr1 in Hg'. apply in_app_iff in Hg'. destruct Hg' as [Hg' | [Hg' | []]].
      + apply (Hv g' Hg' x s).
      + subst g'. unfold M, N. change (dsubs st1 x) with (dsubs st x). change (gsubs st1 g) with (gsubs st g).
        rewrite (Hub g); [| unfold g; lia]. split.
        * intros H. apply Hdom in H. destruct H as [_ H]. contradiction.
        * intros [].
    - intros g' Hg'. rewrite Hgr1 in Hg'. rewrite Hng1. apply in_app_iff in Hg'. destruct Hg' as [Hg' | [Hg' | []]].
      + apply Hgfr in Hg'. unfold g. lia.
      + subst g'. lia.
    - intros g' Hg'. rewrite Hng1 in Hg'. change (gsubs st1 g') with (gsubs st g'). apply Hub. unfold g in Hg'. lia. }
  rewrite register_loop_eq.
  pose proof (add_pairs_frame (map (fun d => (g, d)) (coll st1)) st1) as Hfr.
  destruct Hfr as [F1 F2 F3 F4 F5 F6].
  assert (HGf : GCore (add_pairs (map (fun d => (g, d)) (coll st1)) st1)
                      (fun d' g' => live st d' g' \/ In (g', d') (map (fun d => (g, d)) (coll st1)))).
  { apply gcore_add_pairs.
    - exact HG1.
    - apply nodup_pair_r. rewrite Hcoll1. exact Hc.
    - intros p Hp. apply in_map_iff in Hp. destruct Hp as [d [Hp Hin]]. subst p. simpl. split.
      + apply in_app_iff. right. left. reflexivity.
      + intros [_ Hgl]. exact (Hgnew Hgl). }
  constructor.
  - rewrite F1. exact Hc.
  - rewrite F2, Hgr1. apply NoDup_app_single; assumption.
  - eapply gcore_iff; [| exact HGf]. intros d' g'. unfold live. rewrite F1, F2, Hgr1, Hcoll1.
    rewrite in_map_iff. rewrite in_app_iff. simpl. split.
    + intros [[Hd' Hg'] | [d0 [Heq Hin]]].
      * split; [exact Hd' | left; exact Hg'].
      * inversion Heq; subst. split; [exact Hin | right; left; reflexivity].
    + intros [Hd' [Hg' | [Hg' | []]]].
      * left. split; assumption.
      * right. exists d'. subst g'. split; [reflexivity | exact Hd'].
  - intros x. rewrite F1, F5. apply Hdf.
  - intros x. rewrite F3, F1. apply Hrd.
  - intros g'. rewrite F4, F2, F6, Hgr1, Hng1. intros Hin. destruct (Hrg g' Hin) as [Hn Hlt]. split.
    + intros H. apply in_app_iff in H. destruct H as [H | [H | []]]; [exact (Hn H) | unfold g in H; lia].
    + unfold g. lia.
Qed.

(* ---------- remove group ---------- *)
Lemma core_remove_group : forall st g, Core st -> Core (do_remove_group g st).
Proof.
  intros st g HC. unfold do_remove_group.
  destruct (memz g (groups st)) eqn:Hmem; simpl; [|exact HC].
  apply memz_In in Hmem.
  destruct HC as [Hc Hg HG Hdf Hrd Hrg].
  set (st1 := set_rgroups (rgroups st ++ [g]) (set_groups (removez g (groups st)) st)).
  change (gsubs st1 g) with (gsubs st g).
  (* the loop only reads dsubs: run the closed form on st (group still listed), then transport *)
  pose proof (remove_group_sem st (live st) g HG Hmem) as Hs. cbv zeta in Hs.
  pose proof (rg_loop (gsubs st g) st1) as H1. cbv zeta in H1.
  pose proof (rg_loop (gsubs st g) st) as H0. cbv zeta in H0.
  destruct Hs as [HM [Hgs [Hdf' [Hn Hfr]]]].
  destruct H1 as [H1d [H1g [H1n H1f]]]. destruct H0 as [H0d [H0g [H0n H0f]]].
  destruct H1f as [F1 F2 F3 F4 F5 F6].
  set (st' := fold_left (fun st p => subset_delete (fst p) (snd p) st) (gsubs st g) st1) in *.
  set (st0 := fold_left (fun st p => subset_delete (fst p) (snd p) st) (gsubs st g) st) in *.
  assert (Hdd : forall x, dsubs st' x = dsubs st0 x).
  { intros x. rewrite H1d, H0d. reflexivity. }
  assert (HM' : forall x g' s, M st' x g' s <-> M st x g' s /\ g' <> g).
  { intros x g' s. unfold M. rewrite Hdd. apply HM. }
  destruct HG as [Hfd Hfg Hsd Hgd Hsg Hdg Hv Hdom Htot Hgfr Hub].
  constructor.
  - rewrite F1. exact Hc.
  - rewrite F2. simpl. apply NoDup_removez. exact Hg.
  - constructor.
    + intros x g' s H. rewrite H1n. apply HM' in H. destruct H as [H _]. eapply Hfd. exact H.
    + intros g' x s H. rewrite H1n. unfold N in H. rewrite H1g in H. eapply Hfg. exact H.
    + intros x. rewrite Hdd. destruct (Hdf' x) as [f Hf]. fold st0 in Hf. rewrite Hf. apply NoDup_map_filter. apply Hsd.
    + intros x. rewrite Hdd. destruct (Hdf' x) as [f Hf]. fold st0 in Hf. rewrite Hf. apply NoDup_map_filter. apply Hgd.
    + intros g'. rewrite H1g. apply Hsg.
    + intros g'. rewrite H1g. apply Hdg.
    + intros g' Hg' x s. rewrite F2 in Hg'. simpl in Hg'. apply removez_In in Hg'. destruct Hg' as [Hg' Hne].
      rewrite HM'. unfold N. rewrite H1g. change (gsubs st1 g') with (gsubs st g').
      pose proof (Hv g' Hg' x s) as Hvv. unfold N in Hvv. tauto.
    + intros x g' s H. apply HM' in H. destruct H as [H Hne]. apply Hdom in H. destruct H as [Hx Hgl].
      unfold live. rewrite F1, F2. simpl. split; [exact Hx | apply removez_In; split; assumption].
    + intros x g' [Hx Hgl]. rewrite F1 in Hx. rewrite F2 in Hgl. simpl in Hx, Hgl.
      apply removez_In in Hgl. destruct Hgl as [Hgl Hne].
      destruct (Htot x g' (conj Hx Hgl)) as [s Hs]. exists s. apply HM'. split; assumption.
    + intros g' Hgl. rewrite F2 in Hgl. simpl in Hgl. apply removez_In in Hgl. rewrite F6. apply Hgfr. apply Hgl.
    + intros g' Hge. rewrite F6 in Hge. rewrite H1g. apply Hub. exact Hge.
  - intros x. rewrite F1, F5. apply Hdf.
  - intros x. rewrite F3, F1. apply Hrd.
  - intros g'. rewrite F4, F2, F6. simpl. rewrite in_app_iff. rewrite removez_In. simpl.
    intros [Hin | [Heq | []]].
    + destruct (Hrg g' Hin) as [Hn' Hlt]. split; [intros [H _]; exact (Hn' H) | exact Hlt].
    + subst g'. split; [intros [_ H]; apply H; reflexivity | apply Hgfr; exact Hmem].
Qed.

(* ---------- every operation ---------- *)
Lemma core_step : forall st o, Core st -> Core (step st o).
Proof.
  intros st o HC. destruct o; simpl.
  - apply core_append. exact HC.
  - apply core_remove. exact HC.
  - apply core_new_group. exact HC.
  - apply core_remove_group. exact HC.
  - apply core_set_attr. exact HC.
  - apply core_set_attr. exact HC.
  - apply core_set_attr. exact HC.
  - destruct (length ds <? 2)%nat; [exact HC|].
    apply core_remove_all. apply core_append.
    destruct HC as [H1 H2 H3 H4 H5 H6]. constructor; try assumption.
    + eapply gcore_transport; [| | | | | exact H3]; reflexivity.
    + intros d Hd. simpl. apply H4 in Hd. lia.
  - apply core_remove_all. exact HC.
Qed.

Lemma core_run : forall ops st, Core st -> Core (run st ops).
Proof.
  unfold run. induction ops as [|o ops IH]; intros st HC; simpl.
  - exact HC.
  - apply IH. apply core_step. exact HC.
Qed.

(* ---------- Core implies the property ---------- *)
Lemma core_inv : forall st, Core st -> Inv st.
Proof.
  intros st [Hc Hg HG Hdf Hrd Hrg].
  destruct HG as [Hfd Hfg Hsd Hgd Hsg Hdg Hv Hdom Htot Hgfr Hub].
  assert (Hgrp : forall g, In g (groups st) -> forall d, In d (map snd (gsubs st g)) <-> In d (coll st)).
  { intros g Hgl d. rewrite in_map_snd. split.
    - intros [s Hs]. apply (Hv g Hgl d s) in Hs. apply Hdom in Hs. apply Hs.
    - intros Hd. destruct (Htot d g (conj Hd Hgl)) as [s Hs]. exists s. apply (Hv g Hgl d s). exact Hs. }
  constructor.
  - exact Hc.
  - exact Hg.
  - intros d Hd. split; [apply Hgd|]. intros g. rewrite in_map_snd. split.
    + intros [s Hs]. apply (Hdom d g s) in Hs. apply Hs.
    + intros Hgl. apply Htot. split; assumption.
  - intros g Hgl. split; [apply Hdg | apply Hgrp; exact Hgl].
  - intros d g s _ Hgl. apply (Hv g Hgl d s).
  - intros d Hnd. split.
    + destruct (dsubs st d) as [|[s g] l] eqn:Hl; [reflexivity|].
      exfalso. apply Hnd. assert (HM : M st d g s) by (unfold M; rewrite Hl; left; reflexivity).
      apply Hdom in HM. apply HM.
    + intros g Hgl Hin. apply Hnd. apply (Hgrp g Hgl d). exact Hin.
  - intros g Hngl d Hin. apply in_map_snd in Hin. destruct Hin as [s Hs]. apply Hngl.
    apply (Hdom d g s) in Hs. apply Hs.
  - exact Hrd.
  - intros g Hin. apply Hrg. exact Hin.
  - intros d d' g s s' _ _. split; reflexivity.
Qed.

(* ---------- the theorems of Property.v ---------- *)
Lemma inv_init : forall pool ncol, Inv (init pool ncol).
Proof. intros. apply core_inv. apply core_init. Qed.

(* the proof-level invariant Core is inductive; Inv is what it gives at every reachable state *)
Lemma reachable_core : forall st, reachable st -> Core st.
Proof. intros st [pool [ncol [ops Heq]]]. subst. apply core_run. apply core_init. Qed.

Lemma inv_step : forall st o, reachable st -> Inv st /\ Inv (step st o) /\ reachable (step st o).
Proof.
  intros st o Hr. pose proof (reachable_core st Hr) as HC. split; [|split].
  - apply core_inv. exact HC.
  - apply core_inv. apply core_step. exact HC.
  - destruct Hr as [pool [ncol [ops Heq]]]. exists pool, ncol, (ops ++ [o]). subst.
    unfold run. rewrite fold_left_app. reflexivity.
Qed.

Lemma inv_strengthening : exists C : state -> Prop,
  (forall pool ncol, C (init pool ncol)) /\ (forall st o, C st -> C (step st o)) /\ (forall st, C st -> Inv st).
Proof.
  exists Core. split; [exact core_init | split; [exact core_step | exact core_inv]].
Qed.

Lemma inv_reachable : forall pool ncol ops, Inv (fold_left step ops (init pool ncol)).
Proof. intros pool ncol ops. apply core_inv. apply (core_run ops). apply core_init. Qed.

(* exactly one subset per (dataset of the collection, live group), and it is the one the group lists *)
Lemma exactly_one : forall pool ncol ops d g,
  let st := fold_left step ops (init pool ncol) in
  In d (coll st) -> In g (groups st) ->
  exists s, In (s, g) (dsubs st d) /\ In (s, d) (gsubs st g) /\
            (forall s', In (s', g) (dsubs st d) -> s' = s) /\ (forall s', In (s', d) (gsubs st g) -> s' = s).
Proof.
  intros pool ncol ops d g st Hd Hg.
  pose proof (core_run ops _ (core_init pool ncol)) as HC. fold st in HC. unfold run in HC. fold st in HC.
  destruct HC as [Hc Hgn HG Hdf Hrd Hrg].
  destruct HG as [Hfd Hfg Hsd Hgd Hsg Hdg Hv Hdom Htot Hgfr Hub].
  destruct (Htot d g (conj Hd Hg)) as [s Hs]. exists s.
  assert (Huniq : forall s', In (s', g) (dsubs st d) -> s' = s).
  { intros s' Hs'. unfold M in Hs.
    assert (Hsw : forall (l : list (Z * Z)) a b c, NoDup (map snd l) -> In (a, c) l -> In (b, c) l -> a = b).
    { induction l as [|p l IH]; simpl; intros a b c Hnd Ha Hb; [destruct Ha|].
      inversion Hnd as [|x xs Hnin Hnd']; subst.
      destruct Ha as [Ha | Ha]; destruct Hb as [Hb | Hb].
      - subst p. inversion Hb. reflexivity.
      - subst p. exfalso. apply Hnin. simpl. apply in_map_snd. exists b. exact Hb.
      - subst p. exfalso. apply Hnin. simpl. apply in_map_snd. exists a. exact Ha.
      - eapply IH; eassumption. }
    eapply Hsw; [apply (Hgd d) | exact Hs' | exact Hs]. }
  split; [exact Hs | split; [apply (Hv g Hg d s); exact Hs | split; [exact Huniq|]]].
  intros s' Hs'. apply Huniq. apply (Hv g Hg d s'). exact Hs'.
Qed.

(* counting form: a dataset of the collection has as many subsets as there are groups, a group as many as there are datasets *)
Lemma counts : forall pool ncol ops,
  let st := fold_left step ops (init pool ncol) in
  (forall d, In d (coll st) -> length (dsubs st d) = length (groups st)) /\
  (forall g, In g (groups st) -> length (gsubs st g) = length (coll st)).
Proof.
  intros pool ncol ops st.
  pose proof (inv_reachable pool ncol ops) as HI. fold st in HI.
  destruct HI as [I1 I2 I3 I4 I5 I6 I7 I8 I9 I10].
  split.
  - intros d Hd. destruct (I3 d Hd) as [Hnd Hiff].
    rewrite <- (map_length snd). apply Permutation_length.
    apply NoDup_Permutation; assumption.
  - intros g Hg. destruct (I4 g Hg) as [Hnd Hiff].
    rewrite <- (map_length snd). apply Permutation_length.
    apply NoDup_Permutation; assumption.
Qed.
