(* C06 — operations inside `with hub.delay_callbacks()`: part 3, every translated operation keeps the in-block invariant,
   entering and leaving a block, and the theorem over histories with delayed blocks. *)
From Coq Require Import ZArith List Bool Lia.
Import ListNotations.
From GV Require Import Common.Wire gen.Gen_groups C06.Model C06.Lemmas1 C06.Lemmas2 C06.Lemmas3 C06.Lemmas
  C06.GenEquiv1 C06.GenEquiv2 C06.GenEquiv C06.GenDelay1 C06.GenDelay2.
Open Scope Z_scope.

(* inside one open block: E is the set of populated (dataset, group) pairs; the queue says what is still to come *)
Record PInv (h : heap) (E : Z -> Z -> Prop) : Prop := mkPInv {
  p_core : GCore (A h) E;
  p_data : NoDup (h_data h);
  p_groups : NoDup (h_groups h);
  p_dom : forall x g, E x g -> In g (h_groups h);
  p_fresh : forall d, In d (h_data h) -> 0 <= d < h_next_did h;
  p_subs : h_subs h = map entry (h_groups h);
  p_paused : h_paused h = 1;
  p_qa : forall d b, last_msg (h_queue h) d = Some b -> (b = true <-> In d (h_data h));
  p_qb : forall d, last_msg (h_queue h) d = None -> forall g, In g (h_groups h) -> (E d g <-> In d (h_data h))
}.
Definition PSim (h : heap) : Prop := exists E, PInv h E.

Lemma gcore_A : forall h h' E,
  h_dsubs h' = h_dsubs h -> h_gsubs h' = h_gsubs h -> h_next_sid h' = h_next_sid h ->
  h_groups h' = h_groups h -> h_next_gid h' = h_next_gid h -> GCore (A h) E -> GCore (A h') E.
Proof.
  intros h h' E H1 H2 H3 H4 H5 HG. eapply gcore_transport; [| | | | | exact HG]; cbn; congruence.
Qed.

(* ---------- entering ---------- *)
Lemma enter_block : forall h, Sim h -> PSim (hub_pause h).
Proof.
  intros h [st [HR HC]]. pose proof (rel_fields _ _ (rel_abs _ _ HR)) as [Fc [Fg [Fd [Fgs [Fnd [Fng [Fns _]]]]]]].
  destruct HC as [Hc Hgn HG Hdf Hrd Hrg].
  exists (live st). constructor.
  - eapply gcore_transport; [| | | | | exact HG]; cbn; congruence.
  - cbn. rewrite Fc. exact Hc.
  - cbn. rewrite Fg. exact Hgn.
  - intros x g [_ H]. cbn. rewrite Fg. exact H.
  - intros d. cbn. rewrite Fc, Fnd. apply Hdf.
  - exact (rel_subs _ _ HR).
  - cbn. rewrite (rel_paused _ _ HR). reflexivity.
  - intros d b H. cbn in H. rewrite last_msg_dcq, (rel_q _ _ HR) in H. discriminate.
  - intros d _ g Hg. cbn in *. unfold live. rewrite <- Fc, <- Fg. tauto.
Qed.

(* ---------- leaving ---------- *)
Lemma leave_block : forall h, PSim h -> Sim (hub_resume h).
Proof.
  intros h [E [HG Hd Hg HE Hf Hs Hp Hqa Hqb]].
  unfold hub_resume. cbv zeta. cbn [h_paused hset_paused h_queue]. rewrite Hp. cbn [Z.sub Z.add Z.opp Z.pos_sub Z.eqb].
  set (h0 := hset_queue [] (hset_paused 0 h)).
  assert (HG0 : GCore (A h0) E) by (eapply gcore_A; [| | | | | exact HG]; reflexivity).
  destruct (deliver_queue (h_queue h) h0 E HG0 Hg HE Hs) as [E' [G' [D' [I' F']]]].
  set (h' := fold_left (fun h m => deliver m h) (h_queue h) h0) in *.
  set (stz := mkState [] [] (fun _ => []) (fun _ => [])
                (fun g => mkGattr SEmpty (h_glabel h' g) (h_gcolor h' g)) [] [] 0 0 0 0 0).
  exists (abs h' stz). split.
  - constructor.
    + reflexivity.
    + rewrite (lf_subs _ _ F'), (lf_groups _ _ F'). exact Hs.
    + rewrite (lf_paused _ _ F'). reflexivity.
    + rewrite (lf_dcq _ _ F'). reflexivity.
    + intros g. reflexivity.
    + intros g. reflexivity.
  - assert (Hdat : h_data h' = h_data h) by (rewrite (lf_data _ _ F'); reflexivity).
    assert (Hgr : h_groups h' = h_groups h) by (rewrite (lf_groups _ _ F'); reflexivity).
    constructor.
    + cbn. rewrite Hdat. exact Hd.
    + cbn. rewrite Hgr. exact Hg.
    + eapply gcore_iff; [| eapply gcore_transport; [| | | | | exact G']; reflexivity].
      intros d g. unfold live. cbn [coll groups abs]. rewrite Hdat, Hgr. split.
      * intros H. pose proof (D' d g H) as Hgl. split; [|exact Hgl]. apply (I' d g Hgl) in H.
        destruct (last_msg (h_queue h) d) as [b|] eqn:El.
        -- apply (Hqa d b El). exact H.
        -- apply (Hqb d El g Hgl). exact H.
      * intros [Hdd Hgl]. apply (I' d g Hgl).
        destruct (last_msg (h_queue h) d) as [b|] eqn:El.
        -- apply (Hqa d b El). exact Hdd.
        -- apply (Hqb d El g Hgl). exact Hdd.
    + intros d. cbn. rewrite Hdat, (lf_did _ _ F'). apply Hf.
    + intros d [].
    + intros g [].
Qed.

(* ---------- the operations inside a block ---------- *)
Lemma pinv_ev : forall h E e, PInv h E -> PInv (ev e h) E.
Proof. intros h E e [H1 H2 H3 H4 H5 H6 H7 H8 H9]. constructor; assumption. Qed.

(* `for s in data.subsets: s.register()` when the dataset still carries subsets (it was removed inside the block) *)
Lemma reg_loop_frame : forall d l h,
  (forall p, In p l -> In (fst p) (map fst (h_dsubs h d))) ->
  lowframe h (fold_left (fun h s => Subset_register s h) (map (fun p => mkSub (fst p) d (snd p)) l) h) /\
  h_queue (fold_left (fun h s => Subset_register s h) (map (fun p => mkSub (fst p) d (snd p)) l) h) = h_queue h /\
  h_dsubs (fold_left (fun h s => Subset_register s h) (map (fun p => mkSub (fst p) d (snd p)) l) h) = h_dsubs h /\
  h_gsubs (fold_left (fun h s => Subset_register s h) (map (fun p => mkSub (fst p) d (snd p)) l) h) = h_gsubs h /\
  h_next_sid (fold_left (fun h s => Subset_register s h) (map (fun p => mkSub (fst p) d (snd p)) l) h) = h_next_sid h.
Proof.
  intros d l. induction l as [|p l IH]; intros h Hin; simpl.
  - repeat split; reflexivity.
  - assert (Hstep : Subset_register (mkSub (fst p) d (snd p)) h = hset_bcast (hupd (h_bcast h) (fst p) true) h).
    { unfold Subset_register, BaseData_add_subset. cbn [sub_data sub_id]. rewrite sub_in_data. cbn [sub_id].
      rewrite (existsb_fst_true _ _ (Hin p (or_introl eq_refl))). reflexivity. }
    rewrite Hstep.
    destruct (IH (hset_bcast (hupd (h_bcast h) (fst p) true) h)) as [I1 [I2 [I3 [I4 I5]]]].
    { intros q Hq. apply (Hin q). right. exact Hq. }
    split; [eapply lowframe_trans; [| exact I1]; constructor; reflexivity|].
    split; [rewrite I2; reflexivity|]. split; [rewrite I3; reflexivity|]. split; [rewrite I4; reflexivity | rewrite I5; reflexivity].
Qed.

Lemma append_pinv : forall h E d, PInv h E -> PInv (heap_of (DataCollection_append d h)) E.
Proof.
  intros h E d HP. pose proof HP as [HG Hd Hg HE Hf Hs Hp Hqa Hqb].
  unfold DataCollection_append. rewrite hmemz_memz.
  destruct (memz d (h_data h)) eqn:Hmem; [exact HP|].
  destruct (is_dataset d h) eqn:Hk; cbn [negb]; [|exact HP].
  apply memz_false in Hmem.
  unfold dc_has_hub. cbv beta iota zeta. cbn [heap_of].
  apply pinv_ev.
  set (h1 := hset_data (h_data h ++ [d]) h).
  set (h2 := Data_register_to_hub d h1).
  unfold subsets_of_data.
  destruct (reg_loop_frame d (h_dsubs h2 d) h2) as [F1 [F2 [F3 [F4 F5]]]].
  { intros p Hp'. apply in_map. exact Hp'. }
  set (h3 := fold_left (fun h s => Subset_register s h) (map (fun p => mkSub (fst p) d (snd p)) (h_dsubs h2 d)) h2) in *.
  unfold hub_broadcast. rewrite (lf_paused _ _ F1). change (h_paused h2) with (h_paused h). rewrite Hp. cbn [Z.ltb Z.compare].
  assert (Hdat : h_data h3 = h_data h ++ [d]) by (rewrite (lf_data _ _ F1); reflexivity).
  constructor; cbn [h_data h_groups h_subs h_paused h_queue h_next_did hset_queue].
  - eapply gcore_A; [| | | | | exact HG]; cbn [h_dsubs h_gsubs h_next_sid h_groups h_next_gid hset_queue];
      rewrite ?F3, ?F4, ?F5, ?(lf_groups _ _ F1), ?(lf_gid _ _ F1); reflexivity.
  - rewrite Hdat. apply NoDup_app_single; assumption.
  - rewrite (lf_groups _ _ F1). exact Hg.
  - intros x g H. rewrite (lf_groups _ _ F1). exact (HE x g H).
  - intros x. rewrite Hdat, (lf_did _ _ F1). intros Hx. apply in_app_iff in Hx. destruct Hx as [Hx | [Hx | []]].
    + apply Hf. exact Hx.
    + subst x. unfold is_dataset in Hk. apply andb_true_iff in Hk. destruct Hk as [K1 K2].
      apply Z.leb_le in K1. apply Z.ltb_lt in K2. cbn. lia.
  - rewrite (lf_subs _ _ F1), (lf_groups _ _ F1). exact Hs.
  - rewrite (lf_paused _ _ F1). exact Hp.
  - intros x b. rewrite F2. change (h_queue h2) with (h_queue h). rewrite last_msg_app. cbn [about]. rewrite Hdat.
    rewrite in_app_iff. cbn [In]. destruct (d =? x) eqn:Ex.
    + apply Z.eqb_eq in Ex. intros Hb. inversion Hb. split; [intros _; right; left; exact Ex | reflexivity].
    + apply Z.eqb_neq in Ex. intros Hb. rewrite (Hqa x b Hb). split; [intros H; left; exact H | intros [H | [H | []]]; [exact H | contradiction]].
  - intros x. rewrite F2. change (h_queue h2) with (h_queue h). rewrite last_msg_app. cbn [about]. rewrite Hdat, (lf_groups _ _ F1).
    destruct (d =? x) eqn:Ex; [discriminate|]. apply Z.eqb_neq in Ex. intros Hn g Hgl. rewrite (Hqb x Hn g Hgl).
    rewrite in_app_iff. cbn [In]. split; [intros H; left; exact H | intros [H | [H | []]]; [exact H | contradiction]].
Qed.

Lemma remove_pinv : forall h E d, PInv h E -> PInv (DataCollection_remove d h) E.
Proof.
  intros h E d HP. pose proof HP as [HG Hd Hg HE Hf Hs Hp Hqa Hqb].
  unfold DataCollection_remove. rewrite hmemz_memz.
  destruct (memz d (h_data h)) eqn:Hmem; cbn [negb]; [|exact HP].
  apply memz_In in Hmem.
  unfold dc_has_hub. cbv beta iota zeta. rewrite (remove_first_removez _ _ Hd).
  unfold hub_broadcast, ev. cbn [h_paused hset_trace hset_data]. rewrite Hp. cbn [Z.ltb Z.compare].
  constructor; unfold ev; cbn [h_data h_groups h_subs h_paused h_queue h_next_did hset_queue hset_trace hset_data].
  - eapply gcore_A; [| | | | | exact HG]; reflexivity.
  - apply NoDup_removez. exact Hd.
  - exact Hg.
  - exact HE.
  - intros x Hx. apply removez_In in Hx. apply Hf. apply Hx.
  - exact Hs.
  - exact Hp.
  - intros x b. rewrite last_msg_app. cbn [about]. rewrite removez_In. destruct (d =? x) eqn:Ex.
    + apply Z.eqb_eq in Ex. intros Hb. inversion Hb. split; [discriminate | intros [_ H]; exfalso; apply H; symmetry; exact Ex].
    + apply Z.eqb_neq in Ex. intros Hb. rewrite (Hqa x b Hb). split; [intros H; split; [exact H | intros Heq; apply Ex; symmetry; exact Heq] | intros [H _]; exact H].
  - intros x. rewrite last_msg_app. cbn [about]. destruct (d =? x) eqn:Ex; [discriminate|]. apply Z.eqb_neq in Ex.
    intros Hn g Hgl. rewrite (Hqb x Hn g Hgl). rewrite removez_In.
    split; [intros H; split; [exact H | intros Heq; apply Ex; symmetry; exact Heq] | intros [H _]; exact H].
Qed.

(* an inner block (new_subset_group / remove_subset_group) closes while the outer one stays open: nothing is delivered *)
Lemma resume_inner : forall h, h_paused h = 2 -> hub_resume h = hset_paused 1 h.
Proof. intros h Hp. unfold hub_resume. cbv zeta. cbn [h_paused hset_paused]. rewrite Hp. reflexivity. Qed.

Lemma new_group_pinv : forall h E, PInv h E -> exists E', PInv (DataCollection_new_subset_group None None h) E'.
Proof.
  intros h E HP. pose proof HP as [HG Hd Hg HE Hf Hs Hp Hqa Hqb].
  unfold DataCollection_new_subset_group. unfold new_SubsetGroup. cbv beta iota zeta.
  set (g := h_next_gid h).
  set (n := h_sg_count h).
  change (h_next_gid (hub_pause (hset_sg_count (n + 1) h))) with g.
  match goal with |- exists _, PInv (hub_resume (SubsetGroup_register _ ?hh)) _ => set (h1 := hh) end.
  assert (Hgfresh : ~ In g (h_groups h)).
  { intros Hin. apply (gc_gid_fresh _ _ HG) in Hin. unfold g in Hin. cbn in Hin. lia. }
  destruct (register_eq g h1 (init 0 0)) as [Hab Hlf].
  { change (h_gsubs h1) with (h_gsubs h). apply (gc_unborn _ _ HG). unfold g. cbn. lia. }
  { intros x id Hin. change (h_dsubs h1) with (h_dsubs h) in Hin. change (h_next_sid h1) with (h_next_sid h).
    apply in_map_fst in Hin. destruct Hin as [b Hb]. exact (gc_fresh_d _ _ HG x b id Hb). }
  set (h0 := SubsetGroup_register_to_hub g h1) in *.
  set (h2 := SubsetGroup_register g h1) in *.
  pose proof (gcore_register (A h) (A h1) E g HG Hd HE eq_refl eq_refl eq_refl eq_refl eq_refl eq_refl eq_refl) as G2.
  fold (A h1) in Hab. rewrite <- Hab in G2. fold (A h2) in G2.
  assert (Hsubs2 : h_subs h2 = map entry (h_groups h ++ [g])).
  { rewrite (lf_subs _ _ Hlf). apply register_to_hub_subs; [|exact Hgfresh]. exact Hs. }
  rewrite resume_inner by (rewrite (lf_paused _ _ Hlf); change (h_paused h0) with (h_paused h + 1); rewrite Hp; reflexivity).
  assert (Hdat : h_data h2 = h_data h) by (rewrite (lf_data _ _ Hlf); reflexivity).
  assert (Hgr : h_groups h2 = h_groups h ++ [g]) by (rewrite (lf_groups _ _ Hlf); reflexivity).
  eexists. constructor; cbn [h_data h_groups h_subs h_paused h_queue h_next_did hset_paused].
  - eapply gcore_A; [| | | | | exact G2]; reflexivity.
  - rewrite Hdat. exact Hd.
  - rewrite Hgr. apply NoDup_app_single; assumption.
  - intros x g' [H | [H _]]; rewrite Hgr; apply in_app_iff; [left; exact (HE x g' H) | right; left; symmetry; exact H].
  - intros x. rewrite Hdat, (lf_did _ _ Hlf). apply Hf.
  - rewrite Hsubs2, Hgr. reflexivity.
  - reflexivity.
  - intros x b. rewrite last_msg_dcq, (lf_dcq _ _ Hlf). change (h_queue h0) with (h_queue h). rewrite <- last_msg_dcq.
    rewrite Hdat. apply Hqa.
  - intros x. rewrite last_msg_dcq, (lf_dcq _ _ Hlf). change (h_queue h0) with (h_queue h). rewrite <- last_msg_dcq.
    rewrite Hdat, Hgr. intros Hn g' Hg'. apply in_app_iff in Hg'. destruct Hg' as [Hg' | [Hg' | []]].
    + rewrite <- (Hqb x Hn g' Hg'). split; [intros [H | [H _]]; [exact H | subst g'; contradiction] | intros H; left; exact H].
    + subst g'. change (coll (A h)) with (h_data h).
      split; [intros [H | [_ H]]; [apply HE in H; contradiction | exact H] | intros H; right; split; [reflexivity | exact H]].
Qed.

Lemma remove_group_pinv : forall h E g, PInv h E -> exists E', PInv (DataCollection_remove_subset_group g h) E'.
Proof.
  intros h E g HP. pose proof HP as [HG Hd Hg HE Hf Hs Hp Hqa Hqb].
  unfold DataCollection_remove_subset_group. rewrite hmemz_memz.
  destruct (memz g (h_groups h)) eqn:Hmem; cbn [negb]; [|exists E; exact HP].
  apply memz_In in Hmem.
  cbv beta iota zeta. unfold HubListener_unregister. cbv zeta.
  change (h_groups (hub_pause h)) with (h_groups h). rewrite (remove_first_removez _ _ Hg).
  set (h1 := hset_groups (removez g (h_groups h)) (hub_pause h)).
  unfold subsets_of_group. change (h_gsubs h1 g) with (h_gsubs h g).
  destruct (delete_loop_eq g (h_gsubs h g) h1 (init 0 0)) as [Hab [Hlf Hgs]].
  { apply (gc_sid_g _ _ HG). }
  { intros x. apply (gc_sid_d _ _ HG). }
  { intros p Hp'. destruct p as [s x]. cbn [fst snd]. change (h_dsubs h1) with (h_dsubs h).
    apply in_map_iff. exists (s, g). split; [reflexivity|]. apply (gc_views _ _ HG g Hmem x s). exact Hp'. }
  set (h2 := fold_left (fun h s => Subset_delete s h) (map (fun p => mkSub (fst p) (snd p) g) (h_gsubs h g)) h1) in *.
  pose proof (gcore_remove_group (A h) E g HG Hmem) as G2.
  change (set_groups (removez g (groups (A h))) (A h)) with (A h1) in G2. change (gsubs (A h) g) with (h_gsubs h g) in G2.
  fold (A h1) in Hab. rewrite <- Hab in G2. fold (A h2) in G2.
  set (h3 := hub_unsubscribe_all g h2).
  assert (Hsubs3 : h_subs h3 = map entry (removez g (h_groups h))).
  { unfold h3, hub_unsubscribe_all. cbn [h_subs hset_subs]. rewrite (lf_subs _ _ Hlf). change (h_subs h1) with (h_subs h).
    rewrite Hs. apply unsubscribe_subs. }
  rewrite resume_inner by (change (h_paused h3) with (h_paused h2); rewrite (lf_paused _ _ Hlf);
                           change (h_paused h1) with (h_paused h + 1); rewrite Hp; reflexivity).
  assert (Hdat : h_data h2 = h_data h) by (rewrite (lf_data _ _ Hlf); reflexivity).
  assert (Hgr : h_groups h2 = removez g (h_groups h)) by (rewrite (lf_groups _ _ Hlf); reflexivity).
  eexists. constructor; cbn [h_data h_groups h_subs h_paused h_queue h_next_did hset_paused];
    change (h_data h3) with (h_data h2); change (h_groups h3) with (h_groups h2); change (h_queue h3) with (h_queue h2);
    change (h_next_did h3) with (h_next_did h2).
  - eapply gcore_A; [| | | | | exact G2]; reflexivity.
  - rewrite Hdat. exact Hd.
  - rewrite Hgr. apply NoDup_removez. exact Hg.
  - intros x g' [H Hne]. rewrite Hgr. apply removez_In. split; [exact (HE x g' H) | exact Hne].
  - intros x. rewrite Hdat, (lf_did _ _ Hlf). apply Hf.
  - rewrite Hsubs3, Hgr. reflexivity.
  - reflexivity.
  - intros x b. rewrite last_msg_dcq, (lf_dcq _ _ Hlf). change (h_queue h1) with (h_queue h). rewrite <- last_msg_dcq.
    rewrite Hdat. apply Hqa.
  - intros x. rewrite last_msg_dcq, (lf_dcq _ _ Hlf). change (h_queue h1) with (h_queue h). rewrite <- last_msg_dcq.
    rewrite Hdat, Hgr. intros Hn g' Hg'. apply removez_In in Hg'. destruct Hg' as [Hg' Hne].
    rewrite <- (Hqb x Hn g' Hg'). tauto.
Qed.

(* ---------- every operation, inside a block ---------- *)
Lemma psim_ev : forall h e, PSim h -> PSim (ev e h).
Proof. intros h e [E HP]. exists E. apply pinv_ev. exact HP. Qed.

Lemma remove_all_psim : forall l h, PSim h -> PSim (fold_left (fun h d => DataCollection_remove d h) l h).
Proof.
  induction l as [|d l IH]; intros h HS; simpl; [exact HS|].
  apply IH. destruct HS as [E HP]. exists E. apply remove_pinv. exact HP.
Qed.

Lemma extend_loop_psim : forall ds o,
  (match o with Done h | Raised _ h => PSim h end) ->
  match fold_left (fun o_ d => match o_ with Raised e_ h => Raised e_ h | Done h =>
           match DataCollection_append d h with Raised e_ h => Raised e_ h | Done h => Done h end end) ds o
  with Done h | Raised _ h => PSim h end.
Proof.
  induction ds as [|d ds IH]; intros o Ho; simpl; [exact Ho|].
  apply IH. destruct o as [h|e h]; [|exact Ho].
  destruct Ho as [E HP]. pose proof (append_pinv h E d HP) as HP'.
  destruct (DataCollection_append d h) as [h'|e h']; exists E; exact HP'.
Qed.

Lemma bstep_psim : forall h o, PSim h -> PSim (bstep h o).
Proof.
  intros h o HS. destruct o; cbn [bstep].
  - destruct HS as [E HP]. exists E. apply append_pinv. exact HP.
  - destruct HS as [E HP]. exists E. apply remove_pinv. exact HP.
  - destruct HS as [E HP]. apply (new_group_pinv h E HP).
  - destruct HS as [E HP]. apply (remove_group_pinv h E g HP).
  - unfold DataCollection_clear. cbv zeta. apply psim_ev. apply remove_all_psim. apply psim_ev. exact HS.
  - unfold DataCollection_extend. cbv zeta.
    pose proof (extend_loop_psim ds (Done (ev (EIgnoreLinks 1) h)) (psim_ev _ _ HS)) as H.
    destruct (fold_left _ ds (Done (ev (EIgnoreLinks 1) h))) as [h'|e h']; cbn [heap_of].
    + apply psim_ev. apply psim_ev. exact H.
    + exact H.
Qed.

Lemma block_psim : forall ops h, PSim h -> PSim (fold_left bstep ops h).
Proof.
  induction ops as [|o ops IH]; intros h HS; simpl; [exact HS|]. apply IH. apply bstep_psim. exact HS.
Qed.

(* ---------- histories with delayed blocks ---------- *)
Lemma gstep_sim : forall h o, Sim h -> Sim (gstep h o).
Proof.
  intros h o HS. destruct o as [b | ops]; cbn [gstep].
  - apply bstep_sim. exact HS.
  - apply leave_block. apply block_psim. apply enter_block. exact HS.
Qed.

Lemma grun_sim : forall ops h, Sim h -> Sim (fold_left gstep ops h).
Proof.
  induction ops as [|o ops IH]; intros h HS; simpl; [exact HS|]. apply IH. apply gstep_sim. exact HS.
Qed.

(* the property after every history of translated operations, alone or grouped in blocks inside hub.delay_callbacks() *)
Lemma gen_inv_delayed : forall pool ncol ops, HInv (fold_left gstep ops (ginit pool ncol)).
Proof. intros. apply sim_hinv. apply grun_sim. apply ginit_sim. Qed.

(* one block, whatever it contains, from any state the machine can be in *)
Lemma gen_block_restores : forall pool ncol ops blk,
  HInv (hub_resume (fold_left bstep blk (hub_pause (fold_left gstep ops (ginit pool ncol))))).
Proof.
  intros. pose proof (gen_inv_delayed pool ncol (ops ++ [GDelayed blk])) as H. rewrite fold_left_app in H. exact H.
Qed.
