(* Python-flavoured integer / list / slice primitives used by the generated
   (translated) code and by the hand models.  Definitions only; the lemmas
   are in PyIntLemmas.v so the model still runs when a proof breaks. *)
From Coq Require Import ZArith List Bool.
Import ListNotations.
Open Scope Z_scope.

(* result of a function that may raise *)
Inductive result (A : Type) : Type := Ok (a : A) | Err (e : Z).
Arguments Ok {A} a.
Arguments Err {A} e.
Definition ValueError : Z := 1.
Definition IndexError : Z := 2.
Definition TypeError : Z := 3.
Definition OutOfFuel : Z := 99.

Definition zlen {A} (l : list A) : Z := Z.of_nat (length l).

(* l[i] with Python's negative indexing; out of range -> 0 (callers guard) *)
Definition znth (l : list Z) (i : Z) : Z :=
  if i <? 0 then nth (Z.to_nat (zlen l + i)) l 0 else nth (Z.to_nat i) l 0.

Fixpoint upd_nat (l : list Z) (i : nat) (v : Z) : list Z :=
  match l, i with
  | [], _ => []
  | _ :: t, O => v :: t
  | h :: t, S i => h :: upd_nat t i v
  end.

(* l[i] = v *)
Definition zupd (l : list Z) (i : Z) (v : Z) : list Z :=
  if i <? 0 then upd_nat l (Z.to_nat (zlen l + i)) v else upd_nat l (Z.to_nat i) v.

Definition zprod (l : list Z) : Z := fold_left Z.mul l 1.

(* Python list comparison  a <= b  (lexicographic) *)
Fixpoint list_le (a b : list Z) : bool :=
  match a, b with
  | [], _ => true
  | _ :: _, [] => false
  | x :: a', y :: b' => if x <? y then true else if y <? x then false else list_le a' b'
  end.

(* range(a, b, s) for s > 0 ; [] for s <= 0 (Python raises for 0; callers guard) *)
Definition range_len (a b s : Z) : Z :=
  if (s <=? 0) then 0 else if b <=? a then 0 else (b - a + s - 1) / s.

Definition py_range (a b s : Z) : list Z :=
  map (fun k => a + Z.of_nat k * s) (seq 0 (Z.to_nat (range_len a b s))).

(* slice objects: each field may be None *)
Record slice : Type := Slice { sl_start : option Z; sl_stop : option Z; sl_step : option Z }.

(* slice.indices(n)  (CPython PySlice_Unpack + PySlice_AdjustIndices); None = ValueError (step 0) *)
Definition slice_indices (s : slice) (n : Z) : option (Z * Z * Z) :=
  let step := match sl_step s with None => 1 | Some k => k end in
  if step =? 0 then None else
  let neg := step <? 0 in
  let start :=
    match sl_start s with
    | None => if neg then n - 1 else 0
    | Some a =>
      if a <? 0 then (let a' := a + n in if a' <? 0 then (if neg then -1 else 0) else a')
      else if a >=? n then (if neg then n - 1 else n) else a
    end in
  let stop :=
    match sl_stop s with
    | None => if neg then -1 else n
    | Some b =>
      if b <? 0 then (let b' := b + n in if b' <? 0 then (if neg then -1 else 0) else b')
      else if b >=? n then (if neg then n - 1 else n) else b
    end in
  Some (start, stop, step).

(* the positions selected by a positive-step slice on a length-n sequence *)
Definition slice_elems (s : slice) (n : Z) : list Z :=
  match slice_indices s n with
  | Some (b, e, k) => py_range b e k
  | None => []
  end.

Definition mk_slice3 (t : Z * Z * Z) : slice :=
  let '(a, b, c) := t in Slice (Some a) (Some b) (Some c).
