(* Wire format shared by every model: a rose tree of integers.
   The OCaml driver parses one S-expression per line into [tree], calls the
   property's [run_case : tree -> tree] and prints the resulting tree.
   Decoding of the tree into the model's own types happens here, in Gallina,
   so the driver stays generic. *)
From Coq Require Import ZArith List Bool.
Import ListNotations.
Open Scope Z_scope.

Inductive tree : Type := T (n : Z) (kids : list tree).

Definition tag (t : tree) : Z := match t with T n _ => n end.
Definition kids (t : tree) : list tree := match t with T _ k => k end.

Definition leaf (n : Z) : tree := T n [].
Definition zs (l : list Z) : tree := T 0 (map leaf l).
Definition of_bool (b : bool) : Z := if b then 1 else 0.
Definition bools (l : list bool) : tree := zs (map of_bool l).
Definition to_zs (t : tree) : list Z := map tag (kids t).
Definition to_bools (t : tree) : list bool := map (fun k => negb (tag k =? 0)) (kids t).
Definition err (code : Z) : tree := T (-1) [leaf code].

(* n-th child with an explicit failure value, so malformed input is visible *)
Definition kid (i : nat) (t : tree) : tree := nth i (kids t) (T (-999) []).

Definition opt_z (t : tree) : option Z :=
  match t with T 0 [] => None | T _ (T v _ :: _) => Some v | T _ [] => None end.
Definition of_opt_z (o : option Z) : tree :=
  match o with None => T 0 [] | Some v => T 1 [leaf v] end.
