(* C08 — region containment is geometrically exact and equivariant under move / rotate / copy.
   Statements only; every proof is `exact` of a lemma of C08/Lemmas*.v.  Angles are pairs (c, s) on the unit circle. *)
From Coq Require Import ZArith List Bool QArith.
Import ListNotations.
From GV Require Import Common.Wire gen.Gen_rotate C08.Model C08.Lemmas.
Open Scope Q_scope.

(* Rectangle: off the boundary, contains p <-> p = centre + R(c,s)(u,v) with |u| < w/2, |v| < h/2, in whichever of the
   three theta-branches the code may take for this angle (B0: s = 0, B90: c = 0, Bgen: any angle). *)
Theorem rect_contains_geometric : forall x0 x1 y0 y1 b c s p,
  c * c + s * s == 1 -> branch_ok b c s -> ~ rect_margin x0 x1 y0 y1 c s p == 0 ->
  (rect_contains x0 x1 y0 y1 b c s p = true <->
   exists u v, qabs u < half (x1 - x0) /\ qabs v < half (y1 - y0) /\
     fst p == fst (rect_center x0 x1 y0 y1) + (c * u - s * v) /\
     snd p == snd (rect_center x0 x1 y0 y1) + (s * u + c * v)).
Proof. exact Lemmas.rect_contains_geometric. Qed.
Print Assumptions rect_contains_geometric.

(* ... and the three branches agree wherever their guards overlap *)
Theorem rect_branches_agree : forall x0 x1 y0 y1 b c s p,
  c * c + s * s == 1 -> branch_ok b c s -> ~ rect_margin x0 x1 y0 y1 c s p == 0 ->
  rect_contains x0 x1 y0 y1 b c s p = rect_contains x0 x1 y0 y1 Bgen c s p.
Proof. exact Lemmas.rect_branches_agree. Qed.
Print Assumptions rect_branches_agree.

(* Ellipse (semi-axes > 0): contains p <-> p = centre + R(c,s)(u,v) with u^2/rx^2 + v^2/ry^2 < 1, in every branch; exact everywhere *)
Theorem ell_contains_geometric : forall xc yc rx ry, 0 < rx -> 0 < ry -> forall b c s p,
  c * c + s * s == 1 -> branch_ok b c s ->
  (ell_contains xc yc rx ry b c s p = true <->
   exists u v, sq u / sq rx + sq v / sq ry < 1 /\
     fst p == xc + (c * u - s * v) /\ snd p == yc + (s * u + c * v)).
Proof. exact Lemmas.ell_contains_geometric. Qed.
Print Assumptions ell_contains_geometric.

(* prefilter_sound: no bounding-box pre-filter rejects a point that passes the test it guards *)
Theorem prefilter_sound_rect : forall x0 x1 y0 y1 c s p, c * c + s * s == 1 ->
  rect_inner x0 x1 y0 y1 c s p = true -> bbox_keep (rect_corners_rot x0 x1 y0 y1 c s) p = true.
Proof. exact Lemmas.rect_prefilter_sound. Qed.
Print Assumptions prefilter_sound_rect.

Theorem prefilter_sound_ellipse : forall xc yc rx ry, 0 < rx -> 0 < ry -> forall c s p, c * c + s * s == 1 ->
  ell_inner xc yc rx ry c s p = true -> ell_keep xc yc rx ry p = true.
Proof. exact Lemmas.ell_prefilter_sound. Qed.
Print Assumptions prefilter_sound_ellipse.

Theorem prefilter_sound_polygon : forall vs p, crossing_odd vs p = true -> bbox_keep vs p = true.
Proof. exact Lemmas.poly_prefilter_sound. Qed.
Print Assumptions prefilter_sound_polygon.

(* move_equivariant: for every class, move_to(t) translates the contained set by t - center and makes t the centre
   (a range region is moved along its own axis; an empty polygon is undefined) *)
Theorem move_equivariant : forall r t p, wf r ->
  contains (move_to r t) p = contains r (psub p (psub t (center r))) /\
  pteq (center (move_to r t)) (move_target r t).
Proof. exact Lemmas.move_equivariant. Qed.
Print Assumptions move_equivariant.

(* rotate_equivariant: rotate_to on a rectangle / ellipse = turning the region about its centre from the old to the new angle *)
Theorem rotate_equivariant_rect : forall x0 x1 y0 y1 b c s skip c' s' p,
  c * c + s * s == 1 -> c' * c' + s' * s' == 1 ->
  contains (rotate_to (Rect x0 x1 y0 y1 b c s) Bgen skip c' s') p =
  contains (Rect x0 x1 y0 y1 Bgen c s) (turn (rect_center x0 x1 y0 y1) c s c' s' p).
Proof. exact Lemmas.rect_rotate_equivariant. Qed.
Print Assumptions rotate_equivariant_rect.

Theorem rotate_equivariant_ellipse : forall xc yc rx ry b c s skip c' s' p, 0 < rx -> 0 < ry ->
  c * c + s * s == 1 -> c' * c' + s' * s' == 1 ->
  contains (rotate_to (Ellipse xc yc rx ry b c s) Bgen skip c' s') p =
  contains (Ellipse xc yc rx ry Bgen c s) (turn (xc, yc) c s c' s' p).
Proof. exact Lemmas.ell_rotate_equivariant. Qed.
Print Assumptions rotate_equivariant_ellipse.

(* polygon: rotate_to turns every vertex about the centre; skipping (repaired test: dtheta = 0 mod 2 pi) is exact for the zero angle *)
Theorem rotate_polygon_vertices : forall vs b c s,
  rotate_to (Poly vs) b false c s =
  Poly (map (fun v => padd (rot c s (psub v (poly_center vs))) (poly_center vs)) vs).
Proof. exact Lemmas.poly_rotate_vertices. Qed.
Print Assumptions rotate_polygon_vertices.

Theorem rotate_polygon_skip_exact : forall vs b c s, c == 1 -> s == 0 ->
  rotate_to (Poly vs) b true c s = Poly vs /\
  Forall2 pteq (map (fun v => padd (rot c s (psub v (poly_center vs))) (poly_center vs)) vs) vs.
Proof. exact Lemmas.poly_rotate_skip_exact. Qed.
Print Assumptions rotate_polygon_skip_exact.

(* polygon_representation_invariant: a closed vertex list (first vertex repeated) and the open one select the same points;
   so does the list started at the next vertex *)
Theorem polygon_representation_invariant : forall a t p,
  poly_contains ((a :: t) ++ [a]) p = poly_contains (a :: t) p.
Proof. exact Lemmas.polygon_representation_invariant. Qed.
Print Assumptions polygon_representation_invariant.

Theorem polygon_cyclic_shift_invariant : forall a t p, crossing_odd (t ++ [a]) p = crossing_odd (a :: t) p.
Proof. exact Lemmas.crossing_odd_cyclic. Qed.
Print Assumptions polygon_cyclic_shift_invariant.

(* rect_polygon_agree (unrotated case): the polygon returned by to_polygon(), tested with the even-odd rule, selects the same
   points as the rectangle off its edge lines (rotated rectangles: checked by the harness through the to_polygon operation) *)
Theorem rect_polygon_agree_axis : forall x0 x1 y0 y1 c s p, x0 < x1 -> y0 < y1 ->
  ~ fst p == x0 -> ~ fst p == x1 -> ~ snd p == y0 -> ~ snd p == y1 ->
  poly_contains (rect_to_polygon x0 x1 y0 y1 B0 c s) p = rect_contains x0 x1 y0 y1 B0 c s p.
Proof. exact Lemmas.rect_polygon_agree_axis. Qed.
Print Assumptions rect_polygon_agree_axis.

(* copy_then_ops: in the model's operation semantics (state = region + position angle) a copy carries the whole state, so any
   operation sequence applied to the copy gives what it gives on the original; a save / restore keeps the region, and the angle too
   except for polygons, which restart at theta = 0 (VertexROIBase saves the vertices only; glue's test-suite pins that) *)
Theorem copy_then_ops : forall st ops, t_apply st TCopy = st /\ t_apply_ops (t_apply st TCopy) ops = t_apply_ops st ops.
Proof. intros st ops. split; [exact (Lemmas.copy_identity st)|exact (Lemmas.copy_then_ops st ops)]. Qed.
Print Assumptions copy_then_ops.

Theorem restore_then_ops : forall st ops, fst (t_apply st TRestore) = fst st /\
  ((forall vs, fst st <> Poly vs) -> t_apply_ops (t_apply st TRestore) ops = t_apply_ops st ops).
Proof. intros st ops. split; [exact (Lemmas.restore_region st)|exact (Lemmas.restore_then_ops st ops)]. Qed.
Print Assumptions restore_then_ops.

(* Roi.rotate_by(dtheta) = rotate_to(theta + dtheta) on the tracked state (region, position angle); angles are rotation pairs and
   theta + dtheta is the composition of the rotations.  by_ops l = the steps rotate_by d_1 .. rotate_by d_n, each with the branch /
   skip flags the code's float tests give for it. *)
Theorem rotate_by_is_rotate_to : forall st b skip c s,
  t_apply st (TRotateBy b skip c s) =
  t_apply st (TRotateTo b skip (fst (ang_add (snd st) (c, s))) (snd (ang_add (snd st) (c, s)))).
Proof. exact Lemmas.rotate_by_is_rotate_to. Qed.
Print Assumptions rotate_by_is_rotate_to.

(* n successive increments store theta + d_1 + ... + d_n (rectangle, ellipse, polygon), which is theta + (d_1 + ... + d_n): one rotation
   by the sum, on the unit circle when the d_i are -- however often the running angle passes a multiple of pi *)
Theorem rotate_by_angle_sum : forall st l, rotatable (fst st) ->
  snd (t_apply_ops st (by_ops l)) = fold_left ang_add (map snd l) (snd st).
Proof. exact Lemmas.rotate_by_angle_sum. Qed.
Print Assumptions rotate_by_angle_sum.

Theorem rotate_by_sum_is_one_rotation : forall th d l, fold_left ang_add (d :: l) th = ang_add th (ang_total (d :: l)).
Proof. exact Lemmas.ang_sum_total. Qed.
Print Assumptions rotate_by_sum_is_one_rotation.

Theorem rotate_by_sum_on_unit_circle : forall l th, on_unit (fst th) (snd th) -> Forall (fun d => on_unit (fst d) (snd d)) l ->
  on_unit (fst (fold_left ang_add l th)) (snd (fold_left ang_add l th)).
Proof. exact Lemmas.ang_sum_unit. Qed.
Print Assumptions rotate_by_sum_on_unit_circle.

(* rectangles and ellipses: n increments leave exactly the state that ONE rotate_by of the total increment leaves *)
Theorem rotate_by_collapse : forall r th l xb xs d, (forall vs, r <> Poly vs) -> rotatable r ->
  t_apply_ops (r, th) (by_ops (l ++ [(xb, xs, d)])) =
  let total := ang_total (map snd l ++ [d]) in t_apply (r, th) (TRotateBy xb xs (fst total) (snd total)).
Proof. exact Lemmas.rotate_by_collapse. Qed.
Print Assumptions rotate_by_collapse.

(* polygons: one rotate_by(d) turns every vertex about the centre by (an angle pair equal to) d itself -- the difference
   (theta + d) - theta that PolygonalROI.rotate_to takes -- and stores theta + d *)
Theorem rotate_by_polygon : forall vs th b c s, on_unit (fst th) (snd th) ->
  exists c' s', c' == c /\ s' == s /\
    (t_apply (Poly vs, th) (TRotateBy b false c s) =
     (Poly (map (fun v => padd (rot c' s' (psub v (poly_center vs))) (poly_center vs)) vs), ang_add th (c, s)))%type.
Proof. exact Lemmas.rotate_by_polygon. Qed.
Print Assumptions rotate_by_polygon.

(* the angle logic of the model's rotate_by / rotate_to IS the code's: Gen_rotate.* is regenerated from glue/core/roi.py on every run *)
Theorem translated_rotate_by_step : forall st b skip c s,
  t_apply st (TRotateBy b skip c s) =
  t_rotate_to st b skip (fst (Gen_rotate.rotate_by_arg (Some (snd st)) (c, s))) (snd (Gen_rotate.rotate_by_arg (Some (snd st)) (c, s))).
Proof. exact Lemmas.gen_rotate_by_step. Qed.
Print Assumptions translated_rotate_by_step.

Theorem translated_rotate_to_polygon : forall vs th b skip c s,
  let theta := Gen_rotate.poly_rotate_to_theta (Some (c, s)) in
  let dtheta := Gen_rotate.poly_rotate_to_dtheta th theta in
  let m := Gen_rotate.poly_rotate_to_matrix_angle th theta dtheta in
  t_rotate_to (Poly vs, th) b skip c s = (rotate_to (Poly vs) b skip (fst m) (snd m), Gen_rotate.poly_rotate_to_new_theta th theta dtheta).
Proof. exact Lemmas.gen_rotate_to_polygon. Qed.
Print Assumptions translated_rotate_to_polygon.

Theorem translated_polygon_skip_test : forall self_theta theta dtheta,
  Gen_rotate.poly_rotate_to_skip_quantity self_theta theta dtheta = dtheta /\
  Gen_rotate.poly_rotate_to_skip_half_turns = 2%Z /\ Gen_rotate.poly_rotate_to_skip_atol == 1 # 1000000000.
Proof. exact Lemmas.gen_polygon_skip_test. Qed.
Print Assumptions translated_polygon_skip_test.

Theorem translated_rotate_to_rect_ellipse : forall x0 x1 y0 y1 b0 c0 s0 th b skip c s,
  t_rotate_to (Rect x0 x1 y0 y1 b0 c0 s0, th) b skip c s = (Rect x0 x1 y0 y1 b c s, Gen_rotate.rect_rotate_to_theta th (Some (c, s))) /\
  t_rotate_to (Ellipse x0 x1 y0 y1 b0 c0 s0, th) b skip c s = (Ellipse x0 x1 y0 y1 b c s, Gen_rotate.ellipse_rotate_to_theta th (Some (c, s))) /\
  Gen_rotate.rect_rotate_to_theta th None = ang_zero /\ Gen_rotate.ellipse_rotate_to_theta th None = ang_zero.
Proof. exact Lemmas.gen_rotate_to_rect_ellipse. Qed.
Print Assumptions translated_rotate_to_rect_ellipse.

(* the model's In / Out verdicts (the only ones compared with the implementation) are sound for the geometric definitions *)
Theorem rect_verdict_sound : forall x0 x1 y0 y1 eps b c s p, 0 <= eps -> c * c + s * s == 1 -> branch_ok b c s ->
  (classify eps (Rect x0 x1 y0 y1 b c s) p = VIn -> rect_geom x0 x1 y0 y1 c s p) /\
  (classify eps (Rect x0 x1 y0 y1 b c s) p = VOut -> ~ rect_geom x0 x1 y0 y1 c s p).
Proof. exact Lemmas.rect_classify_sound. Qed.
Print Assumptions rect_verdict_sound.
