(* C08 — region containment is geometrically exact and equivariant under move / rotate / copy.
   Statements only; every proof is `exact` of a lemma of C08/Lemmas*.v.  Angles are pairs (c, s) on the unit circle. *)
From Coq Require Import ZArith List Bool QArith.
Import ListNotations.
From GV Require Import Common.Wire C08.Model C08.Lemmas.
Open Scope Q_scope.

(* Rectangle: off the boundary, contains p <-> p = centre + R(c,s)(u,v) with |u| < w/2, |v| < h/2, in whichever of the
   three theta-branches the code may take for this angle (B0: s = 0, B90: c = 0, Bgen: any angle). *)
Theorem rect_contains_geometric : forall x0 x1 y0 y1 b c s p,
  c * c + s * s == 1 -> branch_ok b c s -> ~ rect_margin x0 x1 y0 y1 c s p == 0 ->
  (rect_contains x0 x1 y0 y1 b c s p = true <->
   exists u v, qabs u < half (x1 - x0) /\ qabs v < half (y1 - y0) /\
     fst p == fst (rect_center x0 x1 y0 y1) + (c * u - s * v) /\
     snd p == snd (rect_center x0 x1 y0 y1) + (s * u + c * v)).
Proof. exact Lemmas.rect_contains_geometric. Qed.
Print Assumptions rect_contains_geometric.

(* ... and the three branches agree wherever their guards overlap *)
Theorem rect_branches_agree : forall x0 x1 y0 y1 b c s p,
  c * c + s * s == 1 -> branch_ok b c s -> ~ rect_margin x0 x1 y0 y1 c s p == 0 ->
  rect_contains x0 x1 y0 y1 b c s p = rect_contains x0 x1 y0 y1 Bgen c s p.
Proof. exact Lemmas.rect_branches_agree. Qed.
Print Assumptions rect_branches_agree.

(* Ellipse (semi-axes > 0): contains p <-> p = centre + R(c,s)(u,v) with u^2/rx^2 + v^2/ry^2 < 1, in every branch; exact everywhere *)
Theorem ell_contains_geometric : forall xc yc rx ry, 0 < rx -> 0 < ry -> forall b c s p,
  c * c + s * s == 1 -> branch_ok b c s ->
  (ell_contains xc yc rx ry b c s p = true <->
   exists u v, sq u / sq rx + sq v / sq ry < 1 /\
     fst p == xc + (c * u - s * v) /\ snd p == yc + (s * u + c * v)).
Proof. exact Lemmas.ell_contains_geometric. Qed.
Print Assumptions ell_contains_geometric.

(* prefilter_sound: no bounding-box pre-filter rejects a point that passes the test it guards *)
Theorem prefilter_sound_rect : forall x0 x1 y0 y1 c s p, c * c + s * s == 1 ->
  rect_inner x0 x1 y0 y1 c s p = true -> bbox_keep (rect_corners_rot x0 x1 y0 y1 c s) p = true.
Proof. exact Lemmas.rect_prefilter_sound. Qed.
Print Assumptions prefilter_sound_rect.

Theorem prefilter_sound_ellipse : forall xc yc rx ry, 0 < rx -> 0 < ry -> forall c s p, c * c + s * s == 1 ->
  ell_inner xc yc rx ry c s p = true -> ell_keep xc yc rx ry p = true.
Proof. exact Lemmas.ell_prefilter_sound. Qed.
Print Assumptions prefilter_sound_ellipse.

Theorem prefilter_sound_polygon : forall vs p, crossing_odd vs p = true -> bbox_keep vs p = true.
Proof. exact Lemmas.poly_prefilter_sound. Qed.
Print Assumptions prefilter_sound_polygon.

(* move_equivariant: for every class, move_to(t) translates the contained set by t - center and makes t the centre
   (a range region is moved along its own axis; an empty polygon is undefined) *)
Theorem move_equivariant : forall r t p, wf r ->
  contains (move_to r t) p = contains r (psub p (psub t (center r))) /\
  pteq (center (move_to r t)) (move_target r t).
Proof. exact Lemmas.move_equivariant. Qed.
Print Assumptions move_equivariant.

(* rotate_equivariant: rotate_to on a rectangle / ellipse = turning the region about its centre from the old to the new angle *)
Theorem rotate_equivariant_rect : forall x0 x1 y0 y1 b c s skip c' s' p,
  c * c + s * s == 1 -> c' * c' + s' * s' == 1 ->
  contains (rotate_to (Rect x0 x1 y0 y1 b c s) Bgen skip c' s') p =
  contains (Rect x0 x1 y0 y1 Bgen c s) (turn (rect_center x0 x1 y0 y1) c s c' s' p).
Proof. exact Lemmas.rect_rotate_equivariant. Qed.
Print Assumptions rotate_equivariant_rect.

Theorem rotate_equivariant_ellipse : forall xc yc rx ry b c s skip c' s' p, 0 < rx -> 0 < ry ->
  c * c + s * s == 1 -> c' * c' + s' * s' == 1 ->
  contains (rotate_to (Ellipse xc yc rx ry b c s) Bgen skip c' s') p =
  contains (Ellipse xc yc rx ry Bgen c s) (turn (xc, yc) c s c' s' p).
Proof. exact Lemmas.ell_rotate_equivariant. Qed.
Print Assumptions rotate_equivariant_ellipse.

(* polygon: rotate_to turns every vertex about the centre; skipping (repaired test: dtheta = 0 mod 2 pi) is exact for the zero angle *)
Theorem rotate_polygon_vertices : forall vs b c s,
  rotate_to (Poly vs) b false c s =
  Poly (map (fun v => padd (rot c s (psub v (poly_center vs))) (poly_center vs)) vs).
Proof. exact Lemmas.poly_rotate_vertices. Qed.
Print Assumptions rotate_polygon_vertices.

Theorem rotate_polygon_skip_exact : forall vs b c s, c == 1 -> s == 0 ->
  rotate_to (Poly vs) b true c s = Poly vs /\
  Forall2 pteq (map (fun v => padd (rot c s (psub v (poly_center vs))) (poly_center vs)) vs) vs.
Proof. exact Lemmas.poly_rotate_skip_exact. Qed.
Print Assumptions rotate_polygon_skip_exact.

(* polygon_representation_invariant: a closed vertex list (first vertex repeated) and the open one select the same points;
   so does the list started at the next vertex *)
Theorem polygon_representation_invariant : forall a t p,
  poly_contains ((a :: t) ++ [a]) p = poly_contains (a :: t) p.
Proof. exact Lemmas.polygon_representation_invariant. Qed.
Print Assumptions polygon_representation_invariant.

Theorem polygon_cyclic_shift_invariant : forall a t p, crossing_odd (t ++ [a]) p = crossing_odd (a :: t) p.
Proof. exact Lemmas.crossing_odd_cyclic. Qed.
Print Assumptions polygon_cyclic_shift_invariant.

(* rect_polygon_agree (unrotated case): the polygon returned by to_polygon(), tested with the even-odd rule, selects the same
   points as the rectangle off its edge lines (rotated rectangles: checked by the harness through the to_polygon operation) *)
Theorem rect_polygon_agree_axis : forall x0 x1 y0 y1 c s p, x0 < x1 -> y0 < y1 ->
  ~ fst p == x0 -> ~ fst p == x1 -> ~ snd p == y0 -> ~ snd p == y1 ->
  poly_contains (rect_to_polygon x0 x1 y0 y1 B0 c s) p = rect_contains x0 x1 y0 y1 B0 c s p.
Proof. exact Lemmas.rect_polygon_agree_axis. Qed.
Print Assumptions rect_polygon_agree_axis.

(* copy_then_ops: in the model's operation semantics (state = region + position angle) a copy carries the whole state, so any
   operation sequence applied to the copy gives what it gives on the original; a save / restore keeps the region, and the angle too
   except for polygons, which restart at theta = 0 (VertexROIBase saves the vertices only; glue's test-suite pins that) *)
Theorem copy_then_ops : forall st ops, t_apply st TCopy = st /\ t_apply_ops (t_apply st TCopy) ops = t_apply_ops st ops.
Proof. intros st ops. split; [exact (Lemmas.copy_identity st)|exact (Lemmas.copy_then_ops st ops)]. Qed.
Print Assumptions copy_then_ops.

Theorem restore_then_ops : forall st ops, fst (t_apply st TRestore) = fst st /\
  ((forall vs, fst st <> Poly vs) -> t_apply_ops (t_apply st TRestore) ops = t_apply_ops st ops).
Proof. intros st ops. split; [exact (Lemmas.restore_region st)|exact (Lemmas.restore_then_ops st ops)]. Qed.
Print Assumptions restore_then_ops.

(* the model's In / Out verdicts (the only ones compared with the implementation) are sound for the geometric definitions *)
Theorem rect_verdict_sound : forall x0 x1 y0 y1 eps b c s p, 0 <= eps -> c * c + s * s == 1 -> branch_ok b c s ->
  (classify eps (Rect x0 x1 y0 y1 b c s) p = VIn -> rect_geom x0 x1 y0 y1 c s p) /\
  (classify eps (Rect x0 x1 y0 y1 b c s) p = VOut -> ~ rect_geom x0 x1 y0 y1 c s p).
Proof. exact Lemmas.rect_classify_sound. Qed.
Print Assumptions rect_verdict_sound.
