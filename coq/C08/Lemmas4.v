(* C08 — incremental rotation: Roi.rotate_by(dtheta) = rotate_to(theta + dtheta) on the tracked state (region, position angle).
   Angles are rotation pairs (cosine, sine); theta + dtheta is the composition of the two rotations, so n successive
   rotate_by d_1 .. d_n are ONE rotation by the composition d_1 + ... + d_n -- whatever multiple of pi the running
   angle passes on the way (a wrap of the stored angle modulo pi is not a rotation by the sum). *)
From Coq Require Import ZArith List Bool QArith Lqa Lia Setoid Morphisms.
Import ListNotations.
From GV Require Import Common.Wire C08.Model C08.QBase C08.Lemmas1.
Open Scope Q_scope.

(* ------------------------------------------------------------------ the algebra of rotation pairs *)
Lemma ang_add_assoc a b c : ang_add (ang_add a b) c = ang_add a (ang_add b c).
Proof.
  destruct a as [a1 a2], b as [b1 b2], c as [c1 c2]. unfold ang_add, rot_compose. cbn [fst snd].
  f_equal; apply Qred_complete; rewrite !Qred_correct; ring.
Qed.
Lemma ang_add_comm a b : ang_add a b = ang_add b a.
Proof.
  destruct a as [a1 a2], b as [b1 b2]. unfold ang_add, rot_compose. cbn [fst snd].
  f_equal; apply Qred_complete; ring.
Qed.
Lemma ang_add_unit a b : on_unit (fst a) (snd a) -> on_unit (fst b) (snd b) -> on_unit (fst (ang_add a b)) (snd (ang_add a b)).
Proof.
  destruct a as [a1 a2], b as [b1 b2]. unfold on_unit, ang_add, rot_compose. cbn [fst snd]. intros Ha Hb.
  rewrite !Qred_correct.
  transitivity ((a1 * a1 + a2 * a2) * (b1 * b1 + b2 * b2)); [ring|]. rewrite Ha, Hb. ring.
Qed.
(* (theta + d) - theta = d on the unit circle: the difference PolygonalROI.rotate_to takes is the increment of rotate_by *)
Lemma ang_add_sub th d : on_unit (fst th) (snd th) ->
  fst (ang_sub (ang_add th d) th) == fst d /\ snd (ang_sub (ang_add th d) th) == snd d.
Proof.
  destruct th as [t1 t2], d as [d1 d2]. unfold on_unit, ang_sub, ang_add, rot_compose, rot_inverse. cbn [fst snd]. intros Ht.
  rewrite !Qred_correct. split.
  - transitivity (d1 * (t1 * t1 + t2 * t2)); [ring|]. rewrite Ht. ring.
  - transitivity (d2 * (t1 * t1 + t2 * t2)); [ring|]. rewrite Ht. ring.
Qed.

(* the sum of a non-empty list of increments *)
Definition ang_total (ds : list (Q * Q)) : Q * Q :=
  match ds with [] => (1, 0) | d :: t => fold_left ang_add t d end.
Lemma fold_ang_add_shift l : forall th d, fold_left ang_add l (ang_add th d) = ang_add th (fold_left ang_add l d).
Proof.
  induction l as [|x l IH]; intros th d; cbn [fold_left]; [reflexivity|].
  rewrite ang_add_assoc. apply IH.
Qed.
(* theta + d_1 + ... + d_n = theta + (d_1 + ... + d_n) *)
Lemma ang_sum_total th d l : fold_left ang_add (d :: l) th = ang_add th (ang_total (d :: l)).
Proof. cbn [fold_left ang_total]. apply fold_ang_add_shift. Qed.
Lemma ang_sum_unit l : forall th, on_unit (fst th) (snd th) -> Forall (fun d => on_unit (fst d) (snd d)) l ->
  on_unit (fst (fold_left ang_add l th)) (snd (fold_left ang_add l th)).
Proof.
  induction l as [|x l IH]; intros th Ht Hl; cbn [fold_left]; [exact Ht|].
  inversion Hl as [|? ? Hx Hl']; subst. apply IH; [apply ang_add_unit; assumption|assumption].
Qed.

(* ------------------------------------------------------------------ rotate_by on the tracked state *)
(* one incremental step: branch flag of the new angle, skip flag of the polygon's isclose test, increment (cosine, sine) *)
Definition by_step := (branch * bool * (Q * Q))%type.
Definition by_op (x : by_step) : top := TRotateBy (fst (fst x)) (snd (fst x)) (fst (snd x)) (snd (snd x)).
Definition by_ops (l : list by_step) : list top := map by_op l.
Definition rotatable (r : roi) : Prop :=
  match r with Rect _ _ _ _ _ _ _ | Ellipse _ _ _ _ _ _ _ | Poly _ => True | _ => False end.

(* rotate_by(d) is rotate_to(theta + d) *)
Theorem rotate_by_is_rotate_to st b skip c s :
  t_apply st (TRotateBy b skip c s) =
  t_apply st (TRotateTo b skip (fst (ang_add (snd st) (c, s))) (snd (ang_add (snd st) (c, s)))).
Proof. reflexivity. Qed.

Lemma t_rotate_to_angle st b skip c s : rotatable (fst st) ->
  snd (t_rotate_to st b skip c s) = (c, s) /\ rotatable (fst (t_rotate_to st b skip c s)).
Proof.
  destruct st as [r th]. destruct r; cbn [fst rotatable]; intros H; try contradiction; unfold t_rotate_to; cbn [fst snd rotate_to];
    try (split; [reflexivity|exact I]).
  destruct skip; split; try reflexivity; exact I.
Qed.

Lemma t_apply_ops_app st l1 l2 : t_apply_ops st (l1 ++ l2) = t_apply_ops (t_apply_ops st l1) l2.
Proof. unfold t_apply_ops. apply fold_left_app. Qed.

(* the stored angle after n increments is theta + d_1 + ... + d_n (every class that can be rotated) *)
Lemma rotate_by_angle_and_class l : forall st, rotatable (fst st) ->
  snd (t_apply_ops st (by_ops l)) = fold_left ang_add (map snd l) (snd st) /\ rotatable (fst (t_apply_ops st (by_ops l))).
Proof.
  induction l as [|x l IH]; intros st Hr; [split; [reflexivity|exact Hr]|].
  cbn [by_ops map]. change (t_apply_ops st (by_op x :: map by_op l)) with (t_apply_ops (t_apply st (by_op x)) (by_ops l)).
  destruct x as [[xb xs] [xc xsn]]. unfold by_op. cbn [fst snd t_apply].
  destruct (t_rotate_to_angle st xb xs (fst (rotate_by_target (snd st) (xc, xsn))) (snd (rotate_by_target (snd st) (xc, xsn))) Hr)
    as [Ea Hr'].
  destruct (IH _ Hr') as [E1 E2]. split; [|exact E2].
  rewrite E1, Ea. cbn [fold_left fst snd map]. reflexivity.
Qed.

Theorem rotate_by_angle_sum st l : rotatable (fst st) ->
  snd (t_apply_ops st (by_ops l)) = fold_left ang_add (map snd l) (snd st).
Proof. intros H. apply (rotate_by_angle_and_class l st H). Qed.

(* rectangles and ellipses carry the angle as a parameter: n increments leave exactly the region that ONE rotate_by of the
   total increment leaves (with the branch flag of the last step) *)
Definition same_shape (r r' : roi) : Prop :=
  match r, r' with
  | Rect x0 x1 y0 y1 _ _ _, Rect a0 a1 b0 b1 _ _ _ => x0 = a0 /\ x1 = a1 /\ y0 = b0 /\ y1 = b1
  | Ellipse xc yc rx ry _ _ _, Ellipse a b c d _ _ _ => xc = a /\ yc = b /\ rx = c /\ ry = d
  | _, _ => False
  end.
Lemma same_shape_refl r : (forall vs, r <> Poly vs) -> rotatable r -> same_shape r r.
Proof. destruct r; cbn; intros Hp H; try contradiction; auto. exfalso. apply (Hp vs). reflexivity. Qed.
Lemma rotate_by_keeps_shape l : forall r0 st, same_shape r0 (fst st) -> same_shape r0 (fst (t_apply_ops st (by_ops l))).
Proof.
  induction l as [|x l IH]; intros r0 st H; [exact H|].
  cbn [by_ops map]. change (t_apply_ops st (by_op x :: map by_op l)) with (t_apply_ops (t_apply st (by_op x)) (by_ops l)).
  apply IH. destruct st as [r th]. destruct x as [[xb xs] [xc xsn]]. unfold by_op. cbn [fst snd t_apply].
  destruct r0, r; cbn in H |- *; try contradiction; exact H.
Qed.
Lemma same_shape_step r0 r th th' b skip c s : same_shape r0 r ->
  fst (t_apply (r, th) (TRotateBy b skip c s)) = fst (t_apply (r0, th') (TRotateTo b skip (fst (ang_add th (c, s))) (snd (ang_add th (c, s))))).
Proof.
  destruct r0, r; cbn; intros H; try contradiction.
  - destruct H as (-> & -> & -> & ->). reflexivity.
  - destruct H as (-> & -> & -> & ->). reflexivity.
Qed.

Lemma ang_sum_snoc L : forall th dx, ang_add (fold_left ang_add L th) dx = ang_add th (ang_total (L ++ [dx])).
Proof.
  destruct L as [|y L']; intros th dx; [reflexivity|].
  cbn [app ang_total fold_left]. rewrite fold_left_app. cbn [fold_left].
  rewrite fold_ang_add_shift. apply ang_add_assoc.
Qed.

Theorem rotate_by_collapse r th l xb xs d : (forall vs, r <> Poly vs) -> rotatable r ->
  t_apply_ops (r, th) (by_ops (l ++ [(xb, xs, d)])) =
  let total := ang_total (map snd l ++ [d]) in t_apply (r, th) (TRotateBy xb xs (fst total) (snd total)).
Proof.
  intros Hp Hr. destruct d as [xc xsn]. cbv zeta.
  pose proof (ang_sum_snoc (map snd l) th (xc, xsn)) as Eang.
  remember (ang_total (map snd l ++ [(xc, xsn)])) as T eqn:ET. destruct T as [tc ts]. cbn [fst snd].
  replace (by_ops (l ++ [(xb, xs, (xc, xsn))])) with (by_ops l ++ [TRotateBy xb xs xc xsn]) by (unfold by_ops; rewrite map_app; reflexivity).
  rewrite t_apply_ops_app. change (t_apply_ops ?st [?o]) with (t_apply st o).
  pose proof (rotate_by_angle_sum (r, th) l Hr) as Ea. cbn [fst snd] in Ea.
  pose proof (rotate_by_keeps_shape l r (r, th) (same_shape_refl r Hp Hr)) as Hs. cbn [fst] in Hs.
  remember (t_apply_ops (r, th) (by_ops l)) as st1 eqn:E1. destruct st1 as [r1 th1].
  cbn [fst snd] in Ea, Hs. subst th1.
  cbn [fst snd t_apply]. unfold rotate_by_target. rewrite Eang.
  destruct r, r1; cbn in Hs; try contradiction; try (exfalso; apply (Hp vs); reflexivity).
  - destruct Hs as (-> & -> & -> & ->). reflexivity.
  - destruct Hs as (-> & -> & -> & ->). reflexivity.
Qed.

(* a polygon turns its vertices: one rotate_by(d) on a polygon whose stored angle is on the unit circle turns every vertex about
   the centre by an angle pair equal to d (the difference (theta + d) - theta that PolygonalROI.rotate_to takes), and stores theta + d *)
Theorem rotate_by_polygon vs th b c s : on_unit (fst th) (snd th) ->
  exists c' s', c' == c /\ s' == s /\
    (t_apply (Poly vs, th) (TRotateBy b false c s) =
     (Poly (map (fun v => padd (rot c' s' (psub v (poly_center vs))) (poly_center vs)) vs), ang_add th (c, s)))%type.
Proof.
  intros Hu. destruct (ang_add_sub th (c, s) Hu) as [E1 E2]. cbn [fst snd] in E1, E2.
  exists (fst (ang_sub (ang_add th (c, s)) th)), (snd (ang_sub (ang_add th (c, s)) th)).
  split; [exact E1|]. split; [exact E2|].
  cbn [t_apply fst snd]. unfold rotate_by_target, t_rotate_to, poly_rotate_dtheta. cbn [fst snd rotate_to].
  reflexivity.
Qed.
(* ... so n increments on a polygon store theta + d_1 + ... + d_n, and every step turned the vertices by its own d_i: the total
   turn is the composition, independent of where the running angle stands relative to the multiples of pi *)
