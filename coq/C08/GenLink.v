(* C08 — the model's rotate_by / rotate_to angle logic is the code's: the definitions of coq/gen/Gen_rotate.v are REGENERATED from
   glue/core/roi.py on every run (tools/gen/gen_rotate.py: Roi.rotate_by, Rectangular / Elliptical / Polygonal / Projected3d rotate_to);
   the lemmas below tie them to the model's operations.  A change of the wrapped quantity, of the modulus of the skip test, of the
   angle handed to rotation_matrix_2d or of the stored theta changes the generated Gallina and breaks a lemma (or the translation). *)
From Coq Require Import ZArith List Bool QArith.
Import ListNotations.
From GV Require Import Common.Wire C08.Model gen.Gen_rotate.
Open Scope Q_scope.

(* Roi.rotate_by(dtheta) hands theta + dtheta to rotate_to (theta = 0 for a class without the attribute) *)
Theorem gen_rotate_by th d :
  Gen_rotate.rotate_by_arg (Some th) d = rotate_by_target th d /\ Gen_rotate.rotate_by_arg None d = ang_add ang_zero d.
Proof. split; reflexivity. Qed.

(* the model's TRotateBy step runs the generated argument through the model's rotate_to *)
Theorem gen_rotate_by_step st b skip c s :
  t_apply st (TRotateBy b skip c s) =
  t_rotate_to st b skip (fst (Gen_rotate.rotate_by_arg (Some (snd st)) (c, s))) (snd (Gen_rotate.rotate_by_arg (Some (snd st)) (c, s))).
Proof. reflexivity. Qed.

(* RectangularROI / EllipticalROI.rotate_to store the angle they are given (None -> 0) and nothing else changes *)
Theorem gen_rotate_to_rect_ellipse x0 x1 y0 y1 b0 c0 s0 th b skip c s :
  t_rotate_to (Rect x0 x1 y0 y1 b0 c0 s0, th) b skip c s = (Rect x0 x1 y0 y1 b c s, Gen_rotate.rect_rotate_to_theta th (Some (c, s))) /\
  t_rotate_to (Ellipse x0 x1 y0 y1 b0 c0 s0, th) b skip c s = (Ellipse x0 x1 y0 y1 b c s, Gen_rotate.ellipse_rotate_to_theta th (Some (c, s))) /\
  Gen_rotate.rect_rotate_to_theta th None = ang_zero /\ Gen_rotate.ellipse_rotate_to_theta th None = ang_zero.
Proof. repeat split; reflexivity. Qed.

(* PolygonalROI.rotate_to: dtheta = theta - self.theta; the vertices turn by dtheta about the centre; theta is stored *)
Theorem gen_rotate_to_polygon vs th b skip c s :
  let theta := Gen_rotate.poly_rotate_to_theta (Some (c, s)) in
  let dtheta := Gen_rotate.poly_rotate_to_dtheta th theta in
  let m := Gen_rotate.poly_rotate_to_matrix_angle th theta dtheta in
  t_rotate_to (Poly vs, th) b skip c s = (rotate_to (Poly vs) b skip (fst m) (snd m), Gen_rotate.poly_rotate_to_new_theta th theta dtheta).
Proof. reflexivity. Qed.

(* ... and the rotation is skipped on the test isclose(dtheta % (2 pi), 0, atol = 1e-9): the reduced quantity is dtheta itself and the modulus
   is the FULL turn -- the only reduction under which "skipped" means "dtheta is the identity rotation up to 1e-9" for every shape
   (modulo pi a polygon without half-turn symmetry would lose a half turn: finding F-C08, seeded change C08-8) *)
Theorem gen_polygon_skip_test self_theta theta dtheta :
  Gen_rotate.poly_rotate_to_skip_quantity self_theta theta dtheta = dtheta /\
  Gen_rotate.poly_rotate_to_skip_half_turns = 2%Z /\ Gen_rotate.poly_rotate_to_skip_atol == 1 # 1000000000.
Proof. repeat split; reflexivity. Qed.

(* Projected3dROI.rotate_to forwards the angle unchanged *)
Theorem gen_projected_rotate_to t : Gen_rotate.projected_rotate_to_arg t = t.
Proof. reflexivity. Qed.
