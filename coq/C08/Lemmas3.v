(* C08 — rotation (rectangle / ellipse parameter update, polygon vertex rotation), polygon representation
   invariance, polygon pre-filter soundness, verdict soundness for circles. *)
From Coq Require Import ZArith List Bool QArith Lqa Lia Setoid Morphisms.
Import ListNotations.
From GV Require Import Common.Wire C08.Model C08.QBase C08.Lemmas1 C08.Lemmas2.
Open Scope Q_scope.

(* ------------------------------------------------------------------ rotate_equivariant *)
(* the point q = centre + R(c,s) R(c',s')^-1 (p - centre): p turned back by the new angle and forth by the old one *)
Definition turn (ctr : pt) (c s c' s' : Q) (p : pt) : pt := padd (rot c s (rot_back c' s' (psub p ctr))) ctr.

Lemma turn_uv ctr c s c' s' p : on_unit c s ->
  pteq (rot_back c s (psub (turn ctr c s c' s' p) ctr)) (rot_back c' s' (psub p ctr)).
Proof.
  intros Hu. unfold turn.
  set (w := rot_back c' s' (psub p ctr)).
  assert (E : psub (padd (rot c s w) ctr) ctr = psub (rot c s w) (0, 0)).
  { apply psub_canon; unfold padd; cbn [fst snd]; qr; ring. }
  rewrite E.
  assert (E2 : pteq (psub (rot c s w) (0, 0)) (rot c s w)).
  { split; [rewrite psub_fst|rewrite psub_snd]; cbn [fst snd]; ring. }
  destruct E2 as [E2 E3].
  destruct (rot_back_rot c s w Hu) as [R1 R2].
  unfold rot_back at 1. cbn [fst snd]. split; cbn [fst snd]; qr; rewrite E2, E3.
  - unfold rot_back in R1. cbn [fst snd] in R1. qr_in R1. exact R1.
  - unfold rot_back in R2. cbn [fst snd] in R2. qr_in R2. exact R2.
Qed.

(* rectangle: rotate_to stores the new angle; the new region is the old one turned about the centre *)
Theorem rect_rotate_equivariant x0 x1 y0 y1 b c s skip c' s' p : on_unit c s -> on_unit c' s' ->
  contains (rotate_to (Rect x0 x1 y0 y1 b c s) Bgen skip c' s') p =
  contains (Rect x0 x1 y0 y1 Bgen c s) (turn (rect_center x0 x1 y0 y1) c s c' s' p).
Proof.
  intros Hu Hu'. cbn [rotate_to contains].
  rewrite (rect_gen_eq_inner x0 x1 y0 y1 c' s' p Hu'), (rect_gen_eq_inner x0 x1 y0 y1 c s _ Hu).
  unfold rect_inner. cbv zeta.
  destruct (turn_uv (rect_center x0 x1 y0 y1) c s c' s' p Hu) as [E1 E2].
  rewrite (Qleb_comp _ _ (qabs_comp _ _ E1) _ _ (Qeq_refl _)), (Qleb_comp _ _ (qabs_comp _ _ E2) _ _ (Qeq_refl _)).
  reflexivity.
Qed.

Theorem ell_rotate_equivariant xc yc rx ry b c s skip c' s' p : 0 < rx -> 0 < ry -> on_unit c s -> on_unit c' s' ->
  contains (rotate_to (Ellipse xc yc rx ry b c s) Bgen skip c' s') p =
  contains (Ellipse xc yc rx ry Bgen c s) (turn (xc, yc) c s c' s' p).
Proof.
  intros Hrx Hry Hu Hu'. cbn [rotate_to contains]. unfold ell_contains.
  destruct (Qeqb rx 0 || Qeqb ry 0); [reflexivity|].
  rewrite (ell_gen_eq_inner xc yc rx ry Hrx Hry c' s' p Hu'), (ell_gen_eq_inner xc yc rx ry Hrx Hry c s _ Hu).
  unfold ell_inner.
  pose proof (turn_uv (xc, yc) c s c' s' p Hu) as E.
  rewrite (Qltb_comp _ _ (ell_q_pteq rx ry _ _ E) _ _ (Qeq_refl _)). reflexivity.
Qed.

(* polygon: rotate_to turns every vertex about the centre (unless the repaired skip test holds),
   and skipping is exact for the zero angle *)
Theorem poly_rotate_vertices vs b c s :
  rotate_to (Poly vs) b false c s =
  Poly (map (fun v => padd (rot c s (psub v (poly_center vs))) (poly_center vs)) vs).
Proof. reflexivity. Qed.

Theorem poly_rotate_skip_exact vs b c s : c == 1 -> s == 0 ->
  rotate_to (Poly vs) b true c s = Poly vs /\
  Forall2 pteq (map (fun v => padd (rot c s (psub v (poly_center vs))) (poly_center vs)) vs) vs.
Proof.
  intros Hc Hs. split; [reflexivity|].
  induction vs as [|v t IH] in |- *; [constructor|].
  set (ctr := poly_center (v :: t)) in *.
  assert (G : forall l, Forall2 pteq (map (fun v0 => padd (rot c s (psub v0 ctr)) ctr) l) l).
  { induction l as [|a l IHl]; cbn [map]; constructor; auto.
    unfold padd, rot, psub. split; cbn [fst snd]; qr; rewrite Hc, Hs; ring. }
  apply G.
Qed.

(* ------------------------------------------------------------------ polygon representation *)
Lemma parity_app l1 l2 : parity (l1 ++ l2) = xorb (parity l1) (parity l2).
Proof.
  induction l1 as [|b t IH]; cbn [app parity]; [destruct (parity l2); reflexivity|].
  rewrite IH. destruct b, (parity t), (parity l2); reflexivity.
Qed.

Lemma edges_open_snoc vs x d : vs <> [] -> edges_open (vs ++ [x]) = edges_open vs ++ [(last vs d, x)].
Proof.
  induction vs as [|a [|b t] IH]; [congruence|reflexivity|]. intros _.
  change ((a :: b :: t) ++ [x]) with (a :: (b :: t) ++ [x]).
  change (edges_open (a :: (b :: t) ++ [x])) with ((a, b) :: edges_open ((b :: t) ++ [x])).
  rewrite IH by congruence. reflexivity.
Qed.

Lemma last_snoc {A} (l : list A) x d : last (l ++ [x]) d = x.
Proof. induction l as [|a [|b t] IH]; cbn in *; auto. Qed.

Lemma last_default_irrel {A} (l : list A) d d' : l <> [] -> last l d = last l d'.
Proof.
  induction l as [|a [|b t] IH]; [congruence|reflexivity|]. intros _.
  change (last (a :: b :: t) d) with (last (b :: t) d). change (last (a :: b :: t) d') with (last (b :: t) d').
  apply IH. congruence.
Qed.

Lemma edge_cross_degenerate p a : edge_cross p a a = false.
Proof. unfold edge_cross. rewrite eqb_reflx. reflexivity. Qed.

Lemma crossing_odd_closed a t p : crossing_odd ((a :: t) ++ [a]) p = crossing_odd (a :: t) p.
Proof.
  unfold crossing_odd, edges.
  change ((a :: t) ++ [a]) with (a :: t ++ [a]) at 1. cbv iota beta.
  change (a :: t ++ [a]) with ((a :: t) ++ [a]).
  rewrite (edges_open_snoc (a :: t) a a) by congruence. rewrite last_snoc.
  rewrite !map_app, !parity_app. cbn [map parity fst snd]. rewrite edge_cross_degenerate.
  destruct (parity _), (edge_cross p (last (a :: t) a) a); reflexivity.
Qed.

Lemma qmin_list_snoc_dup d a t : qmin_list d ((a :: t) ++ [a]) == qmin_list d (a :: t).
Proof.
  apply qmin_list_unique; [destruct t; discriminate| |].
  - intros x Hin. apply qmin_list_le. apply in_app_or in Hin. destruct Hin as [|[<-|[]]]; [assumption|left; reflexivity].
  - exists (qmin_list d (a :: t)). split; [|reflexivity]. apply in_or_app. left. apply qmin_list_in. congruence.
Qed.
Lemma qmax_list_snoc_dup d a t : qmax_list d ((a :: t) ++ [a]) == qmax_list d (a :: t).
Proof.
  apply qmax_list_unique; [destruct t; discriminate| |].
  - intros x Hin. apply qmax_list_ge. apply in_app_or in Hin. destruct Hin as [|[<-|[]]]; [assumption|left; reflexivity].
  - exists (qmax_list d (a :: t)). split; [|reflexivity]. apply in_or_app. left. apply qmax_list_in. congruence.
Qed.

(* polygon_representation_invariant: repeating the first vertex at the end (a "closed" vertex list) selects the same points *)
Theorem polygon_representation_invariant a t p :
  poly_contains ((a :: t) ++ [a]) p = poly_contains (a :: t) p.
Proof.
  unfold poly_contains. cbv zeta. rewrite crossing_odd_closed.
  cut (bbox_keep ((a :: t) ++ [a]) p = bbox_keep (a :: t) p); [intros ->; reflexivity|].
  unfold bbox_keep. cbv zeta. rewrite !map_app. cbn [map].
  pose proof (qmin_list_snoc_dup 0 (fst a) (map fst t)) as E1. pose proof (qmax_list_snoc_dup 0 (fst a) (map fst t)) as E2.
  pose proof (qmin_list_snoc_dup 0 (snd a) (map snd t)) as E3. pose proof (qmax_list_snoc_dup 0 (snd a) (map snd t)) as E4.
  cbn [app] in *. cbn [app]. unfold pt in *.
  rewrite (Qred_eq _ _ E1), (Qred_eq _ _ E2), (Qred_eq _ _ E3), (Qred_eq _ _ E4). reflexivity.
Qed.

(* starting the vertex list at the second vertex (cyclic shift) does not change the crossing parity *)
Theorem crossing_odd_cyclic a t p : crossing_odd (t ++ [a]) p = crossing_odd (a :: t) p.
Proof.
  destruct t as [|b t]; [reflexivity|].
  unfold crossing_odd, edges.
  change ((b :: t) ++ [a]) with (b :: t ++ [a]) at 1. cbv iota beta.
  change (b :: t ++ [a]) with ((b :: t) ++ [a]).
  rewrite (edges_open_snoc (b :: t) a b) by congruence. rewrite last_snoc.
  change (edges_open (a :: b :: t)) with ((a, b) :: edges_open (b :: t)).
  change (last (a :: b :: t) a) with (last (b :: t) a).
  assert (L : last (b :: t) a = last (b :: t) b) by (apply last_default_irrel; congruence).
  rewrite L.
  set (X := edges_open (b :: t)). set (f := fun e : pt * pt => edge_cross p (fst e) (snd e)).
  change (((a, b) :: X) ++ [(last (b :: t) b, a)]) with ((a, b) :: (X ++ [(last (b :: t) b, a)])).
  cbn [map parity]. rewrite !map_app, !parity_app. cbn [map parity].
  destruct (parity (map f X)), (f (last (b :: t) b, a)), (f (a, b)); reflexivity.
Qed.

(* ------------------------------------------------------------------ prefilter_sound (polygon) *)
(* a closed chain of vertices changes side of any two-valued classification an even number of times *)
Lemma chain_parity (f : pt -> bool) a t :
  parity (map (fun e => xorb (f (fst e)) (f (snd e))) (edges_open (a :: t))) = xorb (f a) (f (last (a :: t) a)).
Proof.
  revert a; induction t as [|b t IH]; intros a.
  - cbn. destruct (f a); reflexivity.
  - change (edges_open (a :: b :: t)) with ((a, b) :: edges_open (b :: t)). cbn [map parity fst snd]. rewrite IH.
    change (last (a :: b :: t) a) with (last (b :: t) a). rewrite (last_default_irrel (b :: t) a b) by congruence.
    destruct (f a), (f b), (f (last (b :: t) b)); reflexivity.
Qed.
Lemma cycle_parity (f : pt -> bool) vs :
  parity (map (fun e => xorb (f (fst e)) (f (snd e))) (edges vs)) = false.
Proof.
  destruct vs as [|a t]; [reflexivity|]. unfold edges. rewrite map_app, parity_app, chain_parity.
  cbn [map parity fst snd]. destruct (f a), (f (last (a :: t) a)); reflexivity.
Qed.

Lemma edges_open_in vs e : In e (edges_open vs) -> In (fst e) vs /\ In (snd e) vs.
Proof.
  induction vs as [|a [|b t] IH]; [intros []|intros []|].
  change (edges_open (a :: b :: t)) with ((a, b) :: edges_open (b :: t)). intros [<-|Hin].
  - cbn [fst snd]. split; [left; reflexivity|right; left; reflexivity].
  - destruct (IH Hin). split; right; assumption.
Qed.
Lemma last_in {A} (l : list A) d : l <> [] -> In (last l d) l.
Proof.
  induction l as [|a [|b t] IH]; [congruence|left; reflexivity|]. intros _.
  change (last (a :: b :: t) d) with (last (b :: t) d). right. apply IH. congruence.
Qed.
Lemma edges_in vs e : In e (edges vs) -> In (fst e) vs /\ In (snd e) vs.
Proof.
  destruct vs as [|a t]; [intros []|]. unfold edges. intros Hin. apply in_app_or in Hin. destruct Hin as [Hin|[<-|[]]].
  - apply edges_open_in; assumption.
  - cbn [fst snd]. split; [apply last_in; congruence|left; reflexivity].
Qed.

Lemma parity_true_in l : parity l = true -> In true l.
Proof.
  induction l as [|b t IH]; [discriminate|]. cbn [parity]. destruct b; [left; reflexivity|].
  intros H. right. apply IH. destruct (parity t); [reflexivity|discriminate].
Qed.

(* what a crossing edge says about the point *)
Lemma edge_cross_true p a b : edge_cross p a b = true ->
  ((snd a <= snd p /\ snd p < snd b) \/ (snd b <= snd p /\ snd p < snd a)) /\
  (fst p < fst a \/ fst p < fst b).
Proof.
  unfold edge_cross.
  destruct (Qltb (snd p) (snd a)) eqn:Ya, (Qltb (snd p) (snd b)) eqn:Yb; cbn [eqb]; try discriminate; b2p.
  - (* a above, b not above: dy < 0 *)
    assert (D : Qltb 0 (snd b - snd a) = false) by (b2p; lra). rewrite D. intros H. b2p.
    split; [right; lra|].
    destruct (Qlt_le_dec (fst p) (fst a)) as [|Ha]; [left; assumption|].
    destruct (Qlt_le_dec (fst p) (fst b)) as [|Hb]; [right; assumption|]. exfalso.
    assert (0 <= (snd a - snd p) * (fst p - fst b)) by (apply Qmult_le_0_compat; lra).
    assert (0 <= (snd p - snd b) * (fst p - fst a)) by (apply Qmult_le_0_compat; lra).
    nra.
  - (* b above, a not above: dy > 0 *)
    assert (D : Qltb 0 (snd b - snd a) = true) by (b2p; lra). rewrite D. intros H. b2p.
    split; [left; lra|].
    destruct (Qlt_le_dec (fst p) (fst a)) as [|Ha]; [left; assumption|].
    destruct (Qlt_le_dec (fst p) (fst b)) as [|Hb]; [right; assumption|]. exfalso.
    assert (0 <= (snd b - snd p) * (fst p - fst a)) by (apply Qmult_le_0_compat; lra).
    assert (0 <= (snd p - snd a) * (fst p - fst b)) by (apply Qmult_le_0_compat; lra).
    nra.
Qed.

(* a point strictly to the left of both end points sees every edge that changes side *)
Lemma edge_cross_left p a b : fst p < fst a -> fst p < fst b ->
  edge_cross p a b = xorb (Qltb (snd p) (snd a)) (Qltb (snd p) (snd b)).
Proof.
  intros Ha Hb. unfold edge_cross.
  destruct (Qltb (snd p) (snd a)) eqn:Ya, (Qltb (snd p) (snd b)) eqn:Yb; cbn [eqb xorb]; try reflexivity; b2p.
  - assert (D : Qltb 0 (snd b - snd a) = false) by (b2p; lra). rewrite D. b2p.
    assert (0 <= (snd p - snd b) * (fst a - fst p)) by (apply Qmult_le_0_compat; lra).
    assert (0 < (snd a - snd p) * (fst b - fst p)) by (apply Qmult_lt_0_compat; lra).
    nra.
  - assert (D : Qltb 0 (snd b - snd a) = true) by (b2p; lra). rewrite D. b2p.
    assert (0 <= (snd p - snd a) * (fst b - fst p)) by (apply Qmult_le_0_compat; lra).
    assert (0 < (snd b - snd p) * (fst a - fst p)) by (apply Qmult_lt_0_compat; lra).
    nra.
Qed.

(* prefilter_sound (polygon): the bounding box of the vertices never rejects a point with odd crossing number *)
Theorem poly_prefilter_sound vs p : crossing_odd vs p = true -> bbox_keep vs p = true.
Proof.
  intros Hodd.
  assert (Hne : vs <> []) by (intros ->; discriminate).
  unfold crossing_odd in Hodd.
  pose proof (parity_true_in _ Hodd) as Hin. apply in_map_iff in Hin. destruct Hin as [[a b] [Hc He]].
  cbn [fst snd] in Hc. destruct (edges_in vs _ He) as [Ia Ib]. cbn [fst snd] in Ia, Ib.
  destruct (edge_cross_true p a b Hc) as [Hy Hx].
  pose proof (qmin_list_le 0 _ _ (in_map fst _ _ Ia)) as A1. pose proof (qmax_list_ge 0 _ _ (in_map fst _ _ Ia)) as A2.
  pose proof (qmin_list_le 0 _ _ (in_map snd _ _ Ia)) as A3. pose proof (qmax_list_ge 0 _ _ (in_map snd _ _ Ia)) as A4.
  pose proof (qmin_list_le 0 _ _ (in_map fst _ _ Ib)) as B1. pose proof (qmax_list_ge 0 _ _ (in_map fst _ _ Ib)) as B2.
  pose proof (qmin_list_le 0 _ _ (in_map snd _ _ Ib)) as B3. pose proof (qmax_list_ge 0 _ _ (in_map snd _ _ Ib)) as B4.
  unfold bbox_keep. cbv zeta. rewrite !andb_true_iff, !Qleb_le. qr. unfold pt in A1, A2, A3, A4, B1, B2, B3, B4 |- *.
  repeat split; try lra.
  (* the left bound: otherwise every side change is a crossing and a closed chain has an even number of them *)
  destruct (Qlt_le_dec (fst p) (qmin_list 0 (map fst vs))) as [Hl|]; [exfalso|assumption].
  assert (E : map (fun e => edge_cross p (fst e) (snd e)) (edges vs) =
              map (fun e => xorb ((fun v => Qltb (snd p) (snd v)) (fst e)) ((fun v => Qltb (snd p) (snd v)) (snd e))) (edges vs)).
  { apply map_ext_in. intros e Hine. destruct (edges_in vs e Hine) as [I1 I2].
    apply edge_cross_left.
    - pose proof (qmin_list_le 0 _ _ (in_map fst _ _ I1)). unfold pt in *. lra.
    - pose proof (qmin_list_le 0 _ _ (in_map fst _ _ I2)). unfold pt in *. lra. }
  assert (C : parity (map (fun e => edge_cross p (fst e) (snd e)) (edges vs)) = false).
  { rewrite E. exact (cycle_parity (fun v => Qltb (snd p) (snd v)) vs). }
  rewrite C in Hodd. discriminate.
Qed.

(* ------------------------------------------------------------------ circle / annulus / range: the tests are the definitions;
   what is proved is that the verdict band is sound for them *)
Lemma circle_classify_sound eps xc yc r p : 0 <= eps -> 0 <= r ->
  (classify eps (Circle xc yc r) p = VIn -> dist2 p (xc, yc) < sq r) /\
  (classify eps (Circle xc yc r) p = VOut -> sq r < dist2 p (xc, yc)).
Proof.
  intros He Hr. unfold classify. cbv zeta. cbn [near contains].
  destruct (near_circle _ _ _) eqn:En; [split; discriminate|].
  unfold circle_contains.
  destruct (Qltb (dist2 p (xc, yc)) (sq r)) eqn:Ec; split; try discriminate; intros _; b2p; [assumption|].
  unfold near_circle in En. apply andb_false_iff in En.
  assert (Er : qabs r = r) by (destruct (qabs_spec r) as [[? ->]|[? ->]]; [reflexivity|lra]).
  rewrite Er in En. unfold sq in *.
  destruct En as [En|En]; b2p; [nra|].
  destruct (Qeq_dec (dist2 p (xc, yc)) (r * r)) as [E|E]; [|lra]. exfalso. nra.
Qed.

Lemma range_classify_sound eps (isx : bool) lo hi (p : pt) : 0 <= eps ->
  let v := if isx then fst p else snd p in
  (classify eps (Range isx lo hi) p = VIn -> lo < v /\ v < hi) /\
  (classify eps (Range isx lo hi) p = VOut -> v < lo \/ hi < v).
Proof.
  intros He v. unfold classify. cbv zeta. cbn [near contains]. fold v.
  destruct (Qleb (qabs (v - lo)) eps || Qleb (qabs (v - hi)) eps) eqn:En; [split; discriminate|].
  unfold range_contains. fold v.
  destruct (Qltb lo v && Qltb v hi) eqn:Ec; split; try discriminate; intros _.
  - b2p. lra.
  - apply andb_false_iff in Ec. b2p. revert H H0. dabs; intros; destruct Ec; b2p; lra.
Qed.

(* ------------------------------------------------------------------ rect_polygon_agree (unrotated rectangle) *)
(* the even-odd rule on RectangularROI.to_polygon()'s five vertices is the rectangle test, off the four edge lines *)
Ltac decide_cmp :=
  repeat match goal with
  | |- context [Qltb ?a ?b] =>
    first [ let H := fresh in assert (H : Qltb a b = true) by (apply Qltb_lt; nra); rewrite H; clear H
          | let H := fresh in assert (H : Qltb a b = false) by (apply Qltb_ge; nra); rewrite H; clear H ]
  | |- context [Qleb ?a ?b] =>
    first [ let H := fresh in assert (H : Qleb a b = true) by (apply Qleb_le; nra); rewrite H; clear H
          | let H := fresh in assert (H : Qleb a b = false) by (apply Qleb_gt; nra); rewrite H; clear H ]
  end.

Theorem rect_polygon_agree_axis x0 x1 y0 y1 c s p : x0 < x1 -> y0 < y1 ->
  ~ fst p == x0 -> ~ fst p == x1 -> ~ snd p == y0 -> ~ snd p == y1 ->
  poly_contains (rect_to_polygon x0 x1 y0 y1 B0 c s) p = rect_contains x0 x1 y0 y1 B0 c s p.
Proof.
  intros Hx Hy N1 N2 N3 N4. destruct p as [px py]. cbn [fst snd] in *.
  unfold poly_contains, rect_to_polygon, rect_contains. cbv zeta.
  assert (E1 : Qred (qmin_list 0 (map fst [(x0, y0); (x1, y0); (x1, y1); (x0, y1); (x0, y0)])) == x0).
  { rewrite Qred_correct. cbn [map fst qmin_list]. dabs; lra. }
  assert (E2 : Qred (qmax_list 0 (map fst [(x0, y0); (x1, y0); (x1, y1); (x0, y1); (x0, y0)])) == x1).
  { rewrite Qred_correct. cbn [map fst qmax_list]. dabs; lra. }
  assert (E3 : Qred (qmin_list 0 (map snd [(x0, y0); (x1, y0); (x1, y1); (x0, y1); (x0, y0)])) == y0).
  { rewrite Qred_correct. cbn [map snd qmin_list]. dabs; lra. }
  assert (E4 : Qred (qmax_list 0 (map snd [(x0, y0); (x1, y0); (x1, y1); (x0, y1); (x0, y0)])) == y1).
  { rewrite Qred_correct. cbn [map snd qmax_list]. dabs; lra. }
  unfold bbox_keep. cbv zeta. cbn [fst snd].
  rewrite (Qleb_comp _ _ E1 _ _ (Qeq_refl px)), (Qleb_comp _ _ (Qeq_refl px) _ _ E2),
          (Qleb_comp _ _ E3 _ _ (Qeq_refl py)), (Qleb_comp _ _ (Qeq_refl py) _ _ E4).
  unfold crossing_odd, edges. cbn [edges_open last app map fst snd parity]. unfold edge_cross. cbn [fst snd].
  assert (Px : px < x0 \/ (x0 < px /\ px < x1) \/ x1 < px).
  { destruct (Qlt_le_dec px x0); [left; assumption|]. destruct (Qlt_le_dec x1 px); [right; right; assumption|].
    right; left. split; [destruct (Qeq_dec px x0); [contradiction|lra]|destruct (Qeq_dec px x1); [contradiction|lra]]. }
  assert (Py : py < y0 \/ (y0 < py /\ py < y1) \/ y1 < py).
  { destruct (Qlt_le_dec py y0); [left; assumption|]. destruct (Qlt_le_dec y1 py); [right; right; assumption|].
    right; left. split; [destruct (Qeq_dec py y0); [contradiction|lra]|destruct (Qeq_dec py y1); [contradiction|lra]]. }
  destruct Px as [Px|[[Px Px']|Px]], Py as [Py|[[Py Py']|Py]]; decide_cmp; reflexivity.
Qed.

(* ------------------------------------------------------------------ copy / restore inside operation sequences *)
(* copy() carries the whole state (position angle included): operating on the copy is operating on the original *)
Theorem copy_identity st : t_apply st TCopy = st.
Proof. reflexivity. Qed.
Theorem copy_then_ops st ops : t_apply_ops (t_apply st TCopy) ops = t_apply_ops st ops.
Proof. reflexivity. Qed.
(* a save / restore keeps the region; it also keeps the angle, except that a restored polygon restarts at theta = 0 *)
Theorem restore_region st : fst (t_apply st TRestore) = fst st.
Proof. destruct st as [r th]. destruct r; reflexivity. Qed.
Theorem restore_then_ops st ops : (forall vs, fst st <> Poly vs) ->
  t_apply_ops (t_apply st TRestore) ops = t_apply_ops st ops.
Proof.
  destruct st as [r th]. destruct r; cbn [fst]; intros H; try reflexivity. exfalso. apply (H vs). reflexivity.
Qed.
(* for a polygon the position angle matters: turning to the angle it already has changes nothing when the skip test holds,
   and the vertices turn by the difference of the angles otherwise *)
Theorem polygon_rotate_to_is_relative vs th b c s :
  t_apply (Poly vs, th) (TRotateTo b false c s) =
  (rotate_to (Poly vs) b false (fst (rot_compose (c, s) (rot_inverse th))) (snd (rot_compose (c, s) (rot_inverse th))), (c, s)).
Proof. reflexivity. Qed.
