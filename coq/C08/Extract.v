From Coq Require Import ZArith ExtrOcamlBasic.
From GV Require Import Common.Wire C08.Model.
Extraction "c08_model.ml" run_case Z.add Z.mul Z.div_eucl Z.opp.
