(* C08 — executable model of glue/core/roi.py containment over Q.
   Rotation angles are pairs (c, s) with c*c + s*s == 1 (DESIGN 4.2); the branch
   flag B0 | B90 | Bgen says which of the code's three theta-branches runs (the
   harness derives it from the float theta with its own copy of the isclose tests).
   Definitions only; proofs are in Lemmas*.v. *)
From Coq Require Import ZArith List Bool QArith.
Import ListNotations.
From GV Require Import Common.Wire.
Open Scope Q_scope.

(* ---------- boolean comparisons on Q ---------- *)
Definition Qltb (a b : Q) : bool := negb (Qle_bool b a).
Definition Qleb (a b : Q) : bool := Qle_bool a b.
Definition Qeqb (a b : Q) : bool := Qeq_bool a b.
Definition qmin (a b : Q) : Q := if Qle_bool a b then a else b.
Definition qmax (a b : Q) : Q := if Qle_bool a b then b else a.
Definition qabs (a : Q) : Q := if Qle_bool 0 a then a else - a.
Definition half (a : Q) : Q := a / 2.

Definition pt := (Q * Q)%type.

Fixpoint qmin_list (d : Q) (l : list Q) : Q :=
  match l with [] => d | [a] => a | a :: t => qmin a (qmin_list d t) end.
Fixpoint qmax_list (d : Q) (l : list Q) : Q :=
  match l with [] => d | [a] => a | a :: t => qmax a (qmax_list d t) end.
(* Qred only normalises the representation (Qred q == q); it keeps the extracted model's integers short *)
Fixpoint qsum (l : list Q) : Q := match l with [] => 0 | a :: t => Qred (a + qsum t) end.

(* rotation by the angle with cosine c and sine s, and by its opposite *)
Definition rot (c s : Q) (p : pt) : pt := (Qred (c * fst p - s * snd p), Qred (s * fst p + c * snd p)).
Definition rot_back (c s : Q) (p : pt) : pt := (Qred (c * fst p + s * snd p), Qred (- s * fst p + c * snd p)).
Definition padd (p q : pt) : pt := (Qred (fst p + fst q), Qred (snd p + snd q)).
Definition psub (p q : pt) : pt := (Qred (fst p - fst q), Qred (snd p - snd q)).

(* ---------- regions ---------- *)
Inductive branch := B0 | B90 | Bgen.

Inductive roi :=
| Rect (xmin xmax ymin ymax : Q) (b : branch) (c s : Q)
| Ellipse (xc yc rx ry : Q) (b : branch) (c s : Q)
| Circle (xc yc r : Q)
| Annulus (xc yc ri ro : Q)
| Range (is_x : bool) (lo hi : Q)
| Poly (vs : list pt).

(* ---------- rectangle ---------- *)
Definition rect_center (xmin xmax ymin ymax : Q) : pt :=
  (xmin + half (xmax - xmin), ymin + half (ymax - ymin)).

(* RectangularROI.to_polygon: unrotated corners in the first branch, otherwise rotated corners + centre *)
Definition rect_corners_rot (xmin xmax ymin ymax c s : Q) : list pt :=
  let w2 := half (xmax - xmin) in
  let h2 := half (ymax - ymin) in
  let ctr := rect_center xmin xmax ymin ymax in
  map (fun q => padd (rot c s q) ctr)
      [(- w2, - h2); (w2, - h2); (w2, h2); (- w2, h2); (- w2, - h2)].

Definition rect_to_polygon (xmin xmax ymin ymax : Q) (b : branch) (c s : Q) : list pt :=
  match b with
  | B0 => [(xmin, ymin); (xmax, ymin); (xmax, ymax); (xmin, ymax); (xmin, ymin)]
  | _ => rect_corners_rot xmin xmax ymin ymax c s
  end.

(* staged: the extrema are computed once per region, then the test is applied to each point *)
Definition bbox_keep (vs : list pt) : pt -> bool :=
  let x0 := Qred (qmin_list 0 (map fst vs)) in
  let x1 := Qred (qmax_list 0 (map fst vs)) in
  let y0 := Qred (qmin_list 0 (map snd vs)) in
  let y1 := Qred (qmax_list 0 (map snd vs)) in
  fun p => Qleb x0 (fst p) && Qleb (fst p) x1 && Qleb y0 (snd p) && Qleb (snd p) y1.

(* the test applied to the points that pass the pre-filter in the general branch *)
Definition rect_inner (xmin xmax ymin ymax c s : Q) (p : pt) : bool :=
  let q := rot_back c s (psub p (rect_center xmin xmax ymin ymax)) in
  Qleb (qabs (fst q)) (half (xmax - xmin)) && Qleb (qabs (snd q)) (half (ymax - ymin)).

Definition rect_contains (xmin xmax ymin ymax : Q) (b : branch) (c s : Q) : pt -> bool :=
  match b with
  | B0 => fun p => Qltb xmin (fst p) && Qltb (fst p) xmax && Qltb ymin (snd p) && Qltb (snd p) ymax
  | B90 =>
    let ctr := rect_center xmin xmax ymin ymax in
    let xext := half (ymax - ymin) in
    let yext := half (xmax - xmin) in
    fun p =>
    Qltb (fst ctr - xext) (fst p) && Qltb (fst p) (fst ctr + xext) &&
    Qltb (snd ctr - yext) (snd p) && Qltb (snd p) (snd ctr + yext)
  | Bgen =>
    let keep := bbox_keep (rect_corners_rot xmin xmax ymin ymax c s) in
    fun p => keep p && rect_inner xmin xmax ymin ymax c s p
  end.

(* ---------- ellipse ---------- *)
Definition sq (a : Q) : Q := a * a.
Definition ell_q (rx ry : Q) (q : pt) : Q := sq (fst q) / sq rx + sq (snd q) / sq ry.

(* EllipticalROI.bounds *)
Definition ell_bounds (xc yc rx ry : Q) (b : branch) : (Q * Q) * (Q * Q) :=
  match b with
  | B0 => ((xc - rx, xc + rx), (yc - ry, yc + ry))
  | B90 => ((xc - ry, xc + ry), (yc - rx, yc + rx))
  | Bgen => let r := qmax rx ry in ((xc - r, xc + r), (yc - r, yc + r))
  end.

Definition ell_keep (xc yc rx ry : Q) (p : pt) : bool :=
  let bd := ell_bounds xc yc rx ry Bgen in
  Qleb (fst (fst bd)) (fst p) && Qleb (fst p) (snd (fst bd)) &&
  Qleb (fst (snd bd)) (snd p) && Qleb (snd p) (snd (snd bd)).

Definition ell_inner (xc yc rx ry c s : Q) (p : pt) : bool :=
  Qltb (ell_q rx ry (rot_back c s (psub p (xc, yc)))) 1.

(* a zero semi-axis makes the float quotient inf or nan, and the comparison False *)
Definition ell_contains (xc yc rx ry : Q) (b : branch) (c s : Q) (p : pt) : bool :=
  if Qeqb rx 0 || Qeqb ry 0 then false else
  match b with
  | B0 => Qltb (ell_q rx ry (psub p (xc, yc))) 1
  | B90 => Qltb (ell_q ry rx (psub p (xc, yc))) 1
  | Bgen => ell_keep xc yc rx ry p && ell_inner xc yc rx ry c s p
  end.

(* ---------- circle, annulus, range ---------- *)
Definition dist2 (p q : pt) : Q := sq (fst p - fst q) + sq (snd p - snd q).
Definition circle_contains (xc yc r : Q) (p : pt) : bool := Qltb (dist2 p (xc, yc)) (sq r).
(* r >= ri & r < ro with r = sqrt(d2) and 0 < ri < ro (enforced by defined()) *)
Definition annulus_contains (xc yc ri ro : Q) (p : pt) : bool :=
  Qleb (sq ri) (dist2 p (xc, yc)) && Qltb (dist2 p (xc, yc)) (sq ro).
Definition range_contains (is_x : bool) (lo hi : Q) (p : pt) : bool :=
  let v := if is_x then fst p else snd p in Qltb lo v && Qltb v hi.

(* ---------- polygon: even-odd rule on the horizontal ray to the right ---------- *)
(* does the edge a->b cross the ray { (x', y) : x' > x } ?  (half-open rule on the ordinates) *)
Definition edge_cross (p a b : pt) : bool :=
  let ya := Qltb (snd p) (snd a) in
  let yb := Qltb (snd p) (snd b) in
  if Bool.eqb ya yb then false
  else
    (* abscissa of the edge at height y is to the right of x, without division *)
    let dy := snd b - snd a in
    let lhs := (fst p - fst a) * dy in
    let rhs := (snd p - snd a) * (fst b - fst a) in
    if Qltb 0 dy then Qltb lhs rhs else Qltb rhs lhs.

(* consecutive pairs of an open vertex list *)
Fixpoint edges_open (vs : list pt) : list (pt * pt) :=
  match vs with
  | a :: ((b :: _) as t) => (a, b) :: edges_open t
  | _ => []
  end.
(* all edges including the implicit closing edge last -> first *)
Definition edges (vs : list pt) : list (pt * pt) :=
  match vs with
  | [] => []
  | a :: _ => edges_open vs ++ [(last vs a, a)]
  end.

Fixpoint parity (l : list bool) : bool :=
  match l with [] => false | b :: t => xorb b (parity t) end.

Definition crossing_odd (vs : list pt) (p : pt) : bool :=
  parity (map (fun e => edge_cross p (fst e) (snd e)) (edges vs)).

(* points_inside_poly: bbox pre-filter, then matplotlib's Path.contains_points (oracle: even-odd rule) *)
Definition poly_contains (vs : list pt) : pt -> bool :=
  let keep := bbox_keep vs in
  fun p => keep p && crossing_odd vs p.

(* ---------- polygon centre (PolygonalROI.mean / area / centroid / center, repaired closed test and zero-area test) ---------- *)
Definition pt_eqb (a b : pt) : bool := Qeqb (fst a) (fst b) && Qeqb (snd a) (snd b).
Definition poly_closed (vs : list pt) : bool :=
  match vs with
  | a :: _ :: _ => pt_eqb (last vs a) a
  | _ => false
  end.
Definition qlen (l : list pt) : Q := inject_Z (Z.of_nat (length l)).
(* the vertices that enter the mean and the centroid sums *)
Definition poly_core (vs : list pt) : list pt := if poly_closed vs then removelast vs else vs.
Definition poly_mean (vs : list pt) : pt :=
  let l := poly_core vs in
  (Qred (qsum (map fst l) / qlen l), Qred (qsum (map snd l) / qlen l)).
Definition cross2 (a b : pt) : Q := fst a * snd b - snd a * fst b.
Definition rel_to (m : pt) (vs : list pt) : list pt := map (fun v => psub v m) vs.
(* twice the signed area: consecutive pairs of the full list, plus the closing term when not closed *)
Definition poly_area2 (vs : list pt) : Q :=
  let r := rel_to (poly_mean vs) vs in
  let main := qsum (map (fun e => cross2 (fst e) (snd e)) (edges_open r)) in
  if poly_closed vs then main
  else match r with [] => main | a :: _ => main + cross2 (last r a) a end.
Definition poly_area_signed (vs : list pt) : Q := half (poly_area2 vs).
(* cyclic (previous, current) pairs of the core list: x_[indices], x_ with indices = arange(n) - 1 *)
Definition cyc_pairs (l : list pt) : list (pt * pt) :=
  match l with
  | [] => []
  | a :: _ => combine (last l a :: removelast l) l
  end.
Definition poly_centroid (vs : list pt) : pt :=
  let m := poly_mean vs in
  if Nat.eqb (length vs) 3 then m else
  let l := rel_to m (poly_core vs) in
  let prs := cyc_pairs l in
  let scl := 1 / (6 * poly_area_signed vs) in
  (qsum (map (fun e => (fst (fst e) + fst (snd e)) * cross2 (fst e) (snd e)) prs) * scl + fst m,
   qsum (map (fun e => (snd (fst e) + snd (snd e)) * cross2 (fst e) (snd e)) prs) * scl + snd m).
(* repaired zero-area test: area() <= 1e-12 * extent^2 with extent = max(ptp(vx), ptp(vy)) *)
Definition poly_extent (vs : list pt) : Q :=
  qmax (qmax_list 0 (map fst vs) - qmin_list 0 (map fst vs)) (qmax_list 0 (map snd vs) - qmin_list 0 (map snd vs)).
Definition area_tol : Q := 1 # 1000000000000.
Definition poly_center (vs : list pt) : pt :=
  let r := if Qleb (qabs (poly_area_signed vs)) (area_tol * (poly_extent vs * poly_extent vs))
           then poly_mean vs else poly_centroid vs in
  (Qred (fst r), Qred (snd r)).

(* ---------- contains / center / move_to / rotate_to / to_polygon ---------- *)
Definition contains (r : roi) : pt -> bool :=
  match r with
  | Rect x0 x1 y0 y1 b c s => rect_contains x0 x1 y0 y1 b c s
  | Ellipse xc yc rx ry b c s => ell_contains xc yc rx ry b c s
  | Circle xc yc r => circle_contains xc yc r
  | Annulus xc yc ri ro => annulus_contains xc yc ri ro
  | Range isx lo hi => range_contains isx lo hi
  | Poly vs => poly_contains vs
  end.

(* RangeROI.center() is a scalar: reported as (centre, centre) so that translation by it acts on the ranged axis *)
Definition center (r : roi) : pt :=
  match r with
  | Rect x0 x1 y0 y1 _ _ _ => rect_center x0 x1 y0 y1
  | Ellipse xc yc _ _ _ _ _ => (xc, yc)
  | Circle xc yc _ => (xc, yc)
  | Annulus xc yc _ _ => (xc, yc)
  | Range _ lo hi => (half (lo + hi), half (lo + hi))
  | Poly vs => poly_center vs
  end.

Definition move_to (r : roi) (t : pt) : roi :=
  match r with
  | Rect x0 x1 y0 y1 b c s =>
    let d := psub t (rect_center x0 x1 y0 y1) in
    Rect (x0 + fst d) (x1 + fst d) (y0 + snd d) (y1 + snd d) b c s
  | Ellipse _ _ rx ry b c s => Ellipse (fst t) (snd t) rx ry b c s
  | Circle _ _ r => Circle (fst t) (snd t) r
  | Annulus _ _ ri ro => Annulus (fst t) (snd t) ri ro
  | Range isx lo hi =>
    let tv := if isx then fst t else snd t in
    let d := tv - half (lo + hi) in Range isx (lo + d) (hi + d)
  | Poly vs => let d := psub t (poly_center vs) in Poly (map (fun v => padd v d) vs)
  end.

(* rotate_to: rectangles and ellipses store the new angle (branch flag + cosine/sine of the NEW theta);
   a polygon rotates its vertices about its centre by dtheta (cosine/sine of DELTA theta) unless the
   repaired skip test (dtheta = 0 mod 2 pi) holds, which the flag [skip] says. *)
Definition rotate_to (r : roi) (b : branch) (skip : bool) (c s : Q) : roi :=
  match r with
  | Rect x0 x1 y0 y1 _ _ _ => Rect x0 x1 y0 y1 b c s
  | Ellipse xc yc rx ry _ _ _ => Ellipse xc yc rx ry b c s
  | Poly vs =>
    if skip then Poly vs
    else let ctr := poly_center vs in Poly (map (fun v => padd (rot c s (psub v ctr)) ctr) vs)
  | _ => r
  end.

Definition to_polygon (r : roi) : roi :=
  match r with
  | Rect x0 x1 y0 y1 b c s => Poly (rect_to_polygon x0 x1 y0 y1 b c s)
  | _ => r
  end.

(* ---------- boundary band: exact rational (squared) distances, conservative ---------- *)
Inductive verdict := VOut | VIn | VNear.

(* signed sup-norm distance to the rectangle's boundary in the rectangle's own frame (negative inside) *)
Definition rect_margin (x0 x1 y0 y1 c s : Q) (p : pt) : Q :=
  let q := rot_back c s (psub p (rect_center x0 x1 y0 y1)) in
  qmax (qabs (fst q) - half (x1 - x0)) (qabs (snd q) - half (y1 - y0)).

(* |sqrt(d2) - r| <= eps, r >= 0, eps >= 0, without square roots *)
Definition near_circle (d2 r eps : Q) : bool :=
  Qleb d2 (sq (r + eps)) && (Qleb r eps || Qleb (sq (r - eps)) d2).

(* squared distance from p to the segment ab *)
Definition seg_dist2 (p a b : pt) : Q :=
  let d := psub b a in
  let w := psub p a in
  let L := sq (fst d) + sq (snd d) in
  let t := fst w * fst d + snd w * snd d in
  if Qleb L 0 then dist2 p a
  else if Qleb t 0 then dist2 p a
  else if Qleb L t then dist2 p b
  else sq (cross2 w d) / L.

Definition near (eps : Q) (r : roi) (p : pt) : bool :=
  match r with
  | Rect x0 x1 y0 y1 _ c s => Qleb (qabs (rect_margin x0 x1 y0 y1 c s p)) eps
  | Ellipse xc yc rx ry _ c s =>
    (* a point at distance <= eps from the ellipse lies between the ellipse scaled by 1 -/+ eps/min(rx,ry) *)
    let m := qmin (qabs rx) (qabs ry) in
    if Qleb m 0 then true else
    let k := eps / m in
    let q := ell_q rx ry (rot_back c s (psub p (xc, yc))) in
    Qleb q (sq (1 + k)) && (Qleb 1 k || Qleb (sq (1 - k)) q)
  | Circle xc yc r => near_circle (dist2 p (xc, yc)) (qabs r) eps
  | Annulus xc yc ri ro =>
    near_circle (dist2 p (xc, yc)) (qabs ri) eps || near_circle (dist2 p (xc, yc)) (qabs ro) eps
  | Range isx lo hi =>
    let v := if isx then fst p else snd p in
    Qleb (qabs (v - lo)) eps || Qleb (qabs (v - hi)) eps
  | Poly vs => existsb (fun e => Qleb (seg_dist2 p (fst e) (snd e)) (sq eps)) (edges vs)
  end.

Definition classify (eps : Q) (r : roi) : pt -> verdict :=
  let ct := contains r in
  fun p => if near eps r p then VNear else if ct p then VIn else VOut.

(* ---------- Projected3dROI.contains3d: homogeneous projection, then the 2-d region ---------- *)
Definition dot4 (row : list Q) (x y z : Q) : Q :=
  match row with
  | [a; b; c; d] => a * x + b * y + c * z + d
  | _ => 0
  end.
Definition project (m : list (list Q)) (x y z : Q) : option pt :=
  match m with
  | [r0; r1; _; r3] =>
    let w := dot4 r3 x y z in
    if Qeqb w 0 then None else Some (Qred (dot4 r0 x y z / w), Qred (dot4 r1 x y z / w))
  | _ => None
  end.
Definition classify3d (eps : Q) (m : list (list Q)) (r : roi) : Q * Q * Q -> verdict :=
  let cl := classify eps r in
  fun p3 =>
  match project m (fst (fst p3)) (snd (fst p3)) (snd p3) with
  | None => VNear
  | Some p => cl p
  end.

(* ---------- CategoricalROI.contains: membership of the code in the sorted unique category codes ---------- *)
Definition cat_contains (cats : list Z) (k : Z) : bool := existsb (Z.eqb k) cats.

(* ---------- operations applied before the containment query ---------- *)
Inductive op :=
| OMove (t : pt)
| ORotate (b : branch) (skip : bool) (c s : Q)
| OToPolygon.

Definition apply_op (r : roi) (o : op) : roi :=
  match o with
  | OMove t => move_to r t
  | ORotate b skip c s => rotate_to r b skip c s
  | OToPolygon => to_polygon r
  end.
Definition apply_ops (r : roi) (ops : list op) : roi := fold_left apply_op ops r.

(* ---------- tracked state: the region together with its position angle theta (cosine, sine) ----------
   rotate_to is absolute: a polygon turns by theta_new - theta_old, so the angle is part of the state that copy() must carry.
   copy() keeps everything; a save / restore keeps everything too except that a restored polygon starts again at theta = 0
   (VertexROIBase saves the vertices only; glue's own test-suite pins `theta == 0` after the round trip). *)
Definition tstate := (roi * (Q * Q))%type.
Definition roi_theta (r : roi) : Q * Q :=
  match r with Rect _ _ _ _ _ c s => (c, s) | Ellipse _ _ _ _ _ c s => (c, s) | _ => (1, 0) end.
Definition tinit (r : roi) : tstate := (r, roi_theta r).
Definition rot_compose (a b : Q * Q) : Q * Q := (Qred (fst a * fst b - snd a * snd b), Qred (snd a * fst b + fst a * snd b)).
Definition rot_inverse (a : Q * Q) : Q * Q := (fst a, - snd a).
(* angles are rotation pairs (cosine, sine): theta + dtheta is the composition of the rotations, theta - theta' composes with the inverse *)
Definition ang := (Q * Q)%type.
Definition ang_zero : ang := (1, 0).
(* getattr(self, 'theta', 0.0): a class without a theta attribute (Projected3dROI) reads as angle 0 *)
Definition theta_or_zero (t : option ang) : ang := match t with Some a => a | None => ang_zero end.
Definition ang_add (a b : Q * Q) : Q * Q := rot_compose a b.
Definition ang_sub (a b : Q * Q) : Q * Q := rot_compose a (rot_inverse b).
(* Roi.rotate_by(dtheta): self.rotate_to(getattr(self, 'theta', 0.0) + dtheta) -- the angle handed to rotate_to *)
Definition rotate_by_target (theta dtheta : Q * Q) : Q * Q := ang_add theta dtheta.
(* PolygonalROI.rotate_to(theta): dtheta = theta - self.theta is what the vertices are turned by *)
Definition poly_rotate_dtheta (theta self_theta : Q * Q) : Q * Q := ang_sub theta self_theta.
Inductive top :=
| TMove (t : pt)
| TRotateTo (b : branch) (skip : bool) (c s : Q)      (* absolute position angle; skip = the code's isclose test on the difference *)
| TToPolygon
| TCopy
| TRestore
| TRotateBy (b : branch) (skip : bool) (c s : Q).     (* relative: (c, s) = cosine / sine of dtheta; b = branch of the NEW angle *)
(* rotate_to(theta) on the tracked state *)
Definition t_rotate_to (st : tstate) (b : branch) (skip : bool) (c s : Q) : tstate :=
  let r := fst st in let th := snd st in
  match r with
  | Poly _ => let d := poly_rotate_dtheta (c, s) th in (rotate_to r b skip (fst d) (snd d), (c, s))
  | Rect _ _ _ _ _ _ _ | Ellipse _ _ _ _ _ _ _ => (rotate_to r b skip c s, (c, s))
  | _ => st
  end.
Definition t_apply (st : tstate) (o : top) : tstate :=
  let r := fst st in let th := snd st in
  match o with
  | TMove t => (move_to r t, th)
  | TRotateTo b skip c s => t_rotate_to st b skip c s
  | TRotateBy b skip c s => let n := rotate_by_target th (c, s) in t_rotate_to st b skip (fst n) (snd n)
  | TToPolygon => match r with Rect _ _ _ _ _ _ _ => (to_polygon r, (1, 0)) | _ => st end
  | TCopy => st
  | TRestore => match r with Poly _ => (r, (1, 0)) | _ => st end
  end.
Definition t_apply_ops (st : tstate) (ops : list top) : tstate := fold_left t_apply ops st.

(* ---------- wire ---------- *)
Definition dec_q (t : tree) : Q :=
  match t with
  | T _ [T n _; T d _] => Qmake n (Z.to_pos d)
  | _ => 0
  end.
Definition enc_q (q : Q) : tree := T 0 [leaf (Qnum q); leaf (Zpos (Qden q))].
Definition dec_pt (t : tree) : pt :=
  match t with T _ [a; b] => (dec_q a, dec_q b) | _ => (0, 0) end.
Definition dec_branch (t : tree) : branch :=
  match t with T 0 _ => B0 | T 1 _ => B90 | _ => Bgen end.
Definition dec_bool (t : tree) : bool := negb (tag t =? 0)%Z.

Definition dec_roi (t : tree) : option roi :=
  match t with
  | T 1 [a; b; c; d; br; cc; ss] => Some (Rect (dec_q a) (dec_q b) (dec_q c) (dec_q d) (dec_branch br) (dec_q cc) (dec_q ss))
  | T 2 [a; b; c; d; br; cc; ss] => Some (Ellipse (dec_q a) (dec_q b) (dec_q c) (dec_q d) (dec_branch br) (dec_q cc) (dec_q ss))
  | T 3 [a; b; c] => Some (Circle (dec_q a) (dec_q b) (dec_q c))
  | T 4 [a; b; c; d] => Some (Annulus (dec_q a) (dec_q b) (dec_q c) (dec_q d))
  | T 5 [ix; a; b] => Some (Range (dec_bool ix) (dec_q a) (dec_q b))
  | T 6 vs => Some (Poly (map dec_pt vs))
  | _ => None
  end.
Definition dec_op (t : tree) : op :=
  match t with
  | T 1 [a; b] => OMove (dec_q a, dec_q b)
  | T 2 [br; sk; cc; ss] => ORotate (dec_branch br) (dec_bool sk) (dec_q cc) (dec_q ss)
  | _ => OToPolygon
  end.
Definition dec_top (t : tree) : top :=
  match t with
  | T 1 [a; b] => TMove (dec_q a, dec_q b)
  | T 6 [br; sk; cc; ss] => TRotateTo (dec_branch br) (dec_bool sk) (dec_q cc) (dec_q ss)
  | T 4 _ => TCopy
  | T 5 _ => TRestore
  | T 7 [br; sk; cc; ss] => TRotateBy (dec_branch br) (dec_bool sk) (dec_q cc) (dec_q ss)
  | _ => TToPolygon
  end.
Definition enc_verdict (v : verdict) : tree :=
  leaf (match v with VOut => 0 | VIn => 1 | VNear => 2 end)%Z.
Definition undefined_roi (r : roi) : bool :=
  match r with Poly [] => true | _ => false end.
Definition dec_p3 (t : tree) : Q * Q * Q :=
  match t with T _ [a; b; c] => (dec_q a, dec_q b, dec_q c) | _ => (0, 0, 0) end.

(* results: (0 (0 cx cy) (0 verdicts...) (0 cos_theta sin_theta)) ; (-1 code) on malformed input or an undefined region *)
Definition run_case (t : tree) : tree :=
  match t with
  | T 1 [eps; r; T _ ops; T _ pts] =>
    match dec_roi r with
    | None => err 2
    | Some r0 =>
      if undefined_roi r0 then err 1 else
      let st := t_apply_ops (tinit r0) (map dec_top ops) in
      let r1 := fst st in
      let ctr := center r1 in
      let cl := classify (dec_q eps) r1 in
      T 0 [T 0 [enc_q (Qred (fst ctr)); enc_q (Qred (snd ctr))];
           T 0 (map (fun p => enc_verdict (cl (dec_pt p))) pts);
           T 0 [enc_q (Qred (fst (snd st))); enc_q (Qred (snd (snd st)))]]
    end
  | T 2 [eps; T _ m; r; T _ ops; T _ pts] =>
    match dec_roi r with
    | None => err 2
    | Some r0 =>
      if undefined_roi r0 then err 1 else
      let r1 := fst (t_apply_ops (tinit r0) (map dec_top ops)) in
      let mm := map (fun row => map dec_q (kids row)) m in
      let cl := classify3d (dec_q eps) mm r1 in
      T 0 (map (fun p => enc_verdict (cl (dec_p3 p))) pts)
    end
  | T 3 [cats; xs] => bools (map (cat_contains (to_zs cats)) (to_zs xs))
  | _ => err 2
  end.
