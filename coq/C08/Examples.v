(* C08 — non-vacuity: concrete, non-trivial instances of every hypothesis used in Property.v, and sanity runs of the model. *)
From Coq Require Import ZArith List Bool QArith Lqa.
Import ListNotations.
From GV Require Import Common.Wire C08.Model C08.Lemmas.
Open Scope Q_scope.

(* a Pythagorean angle, and the axis-aligned ones *)
Example unit_345 : on_unit (3 # 5) (4 # 5). Proof. unfold on_unit. reflexivity. Qed.
Example unit_b0 : on_unit (-1) 0 /\ branch_ok B0 (-1) 0. Proof. split; reflexivity. Qed.
Example unit_b90 : on_unit 0 (-1) /\ branch_ok B90 0 (-1). Proof. split; reflexivity. Qed.

(* rectangle 4 x 2 about (2,1), rotated by atan2(4,3): its centre and (2, 5/2), (3, 5/2) (outside the unrotated rectangle) are
   inside; (4, 1) is outside although it lies on the unrotated rectangle; none of them is on the boundary *)
Example rect_in : rect_contains 0 4 0 2 Bgen (3 # 5) (4 # 5) (2, 1) = true. Proof. vm_compute. reflexivity. Qed.
Example rect_in2 : rect_contains 0 4 0 2 Bgen (3 # 5) (4 # 5) (2, 5 # 2) = true. Proof. vm_compute. reflexivity. Qed.
Example rect_in3 : rect_contains 0 4 0 2 Bgen (3 # 5) (4 # 5) (3, 5 # 2) = true. Proof. vm_compute. reflexivity. Qed.
Example rect_out : rect_contains 0 4 0 2 Bgen (3 # 5) (4 # 5) (4, 1) = false. Proof. vm_compute. reflexivity. Qed.
Example rect_off_boundary : ~ rect_margin 0 4 0 2 (3 # 5) (4 # 5) (3, 5 # 2) == 0.
Proof. vm_compute. discriminate. Qed.
(* the geometric side of the equivalence is inhabited: (3, 5/2) = centre + R(1.4, 0.1)... *)
Example rect_geom_witness : rect_geom 0 4 0 2 (3 # 5) (4 # 5) (3, 5 # 2).
Proof.
  apply (rect_contains_geometric 0 4 0 2 Bgen (3 # 5) (4 # 5) (3, 5 # 2) unit_345 I rect_off_boundary). exact rect_in3.
Qed.
(* the three branches on one input: theta = pi through B0 and through Bgen *)
Example branches_same : rect_contains 0 4 0 2 B0 (-1) 0 (1, 1 # 2) = rect_contains 0 4 0 2 Bgen (-1) 0 (1, 1 # 2).
Proof. vm_compute. reflexivity. Qed.
(* 90 degrees: the extents are swapped: (2, 2.5) is inside the turned 4 x 2 rectangle, (3.5, 1) is not *)
Example b90_swapped : rect_contains 0 4 0 2 B90 0 1 (2, 5 # 2) = true /\ rect_contains 0 4 0 2 B90 0 1 (7 # 2, 1) = false.
Proof. vm_compute. split; reflexivity. Qed.

(* ellipse with semi-axes 3, 1 *)
Example ell_hyp : 0 < 3 /\ 0 < 1. Proof. split; reflexivity. Qed.
Example ell_in : ell_contains 0 0 3 1 Bgen (3 # 5) (4 # 5) (3 # 2, 2) = true. Proof. vm_compute. reflexivity. Qed.
Example ell_out : ell_contains 0 0 3 1 Bgen (3 # 5) (4 # 5) (2, 0) = false. Proof. vm_compute. reflexivity. Qed.

(* polygons: an L-shape (concave), open and closed; a point in the notch is outside, a point in the foot is inside *)
Definition Lshape : list pt := [(0, 0); (4, 0); (4, 1); (1, 1); (1, 3); (0, 3)].
Example L_wf : wf (Poly Lshape). Proof. cbn. discriminate. Qed.
Example L_in : poly_contains Lshape (3, 1 # 2) = true /\ poly_contains Lshape (3, 2) = false.
Proof. vm_compute. split; reflexivity. Qed.
Example L_closed_same : poly_contains (Lshape ++ [(0, 0)]) (3, 1 # 2) = true. Proof. vm_compute. reflexivity. Qed.
(* centre of the closed list = centre of the open list (the repaired closed-polygon test, F-C08b) *)
Example L_center_closed : poly_center (Lshape ++ [(0, 0)]) = poly_center Lshape. Proof. vm_compute. reflexivity. Qed.
Example L_center : poly_center Lshape = (3 # 2, 1). Proof. vm_compute. reflexivity. Qed.
(* move_to puts the centre where requested and translates the set *)
Example L_move_center : center (move_to (Poly Lshape) (10, 10)) = (10, 10). Proof. vm_compute. reflexivity. Qed.
Example L_move_contains :
  contains (move_to (Poly Lshape) (10, 10)) (3 + (10 - (3 # 2)), (1 # 2) + (10 - 1)) = true.
Proof. vm_compute. reflexivity. Qed.
(* rotation by pi is the point reflection about the centre, not the identity (F-C08: the repaired code does not skip it) *)
Example L_rotate_pi :
  rotate_to (Poly Lshape) B0 false (-1) 0 = Poly [(3, 2); (-1, 2); (-1, 1); (2, 1); (2, -1); (3, -1)].
Proof. vm_compute. reflexivity. Qed.
Example L_rotate_pi_differs :
  contains (rotate_to (Poly Lshape) B0 false (-1) 0) (7 # 2, 1 # 2) = false /\ contains (Poly Lshape) (7 # 2, 1 # 2) = true.
Proof. vm_compute. split; reflexivity. Qed.

(* a symmetric bow-tie has zero signed area: the centre is the mean, also when the area is only zero up to rounding noise
   (repaired zero-area test: |area| <= 1e-12 extent^2) *)
Example bowtie_center : poly_center [(0, 0); (4, 3); (4, 0); (0, 3)] = (2, 3 # 2). Proof. vm_compute. reflexivity. Qed.
Example bowtie_noise_center :
  poly_center [(0, 0); (4, 3 + (1 # 1000000000000000)); (4, 0); (0, 3)] = (2, 6000000000000001 # 4000000000000000).
Proof. vm_compute. reflexivity. Qed.

(* rotate a polygon, copy it, turn the copy back to angle 0: the original vertices come back, because the copy carries theta;
   had the copy restarted at theta = 0 (the seeded change C08-3) the last step would be skipped and the turned vertices kept *)
Example L_rotate_copy_back :
  fst (t_apply_ops (tinit (Poly Lshape)) [TRotateTo Bgen false (3 # 5) (4 # 5); TCopy; TRotateTo B0 false 1 0]) = Poly Lshape.
Proof. vm_compute. reflexivity. Qed.
Example L_rotate_copy_theta :
  snd (t_apply_ops (tinit (Poly Lshape)) [TRotateTo Bgen false (3 # 5) (4 # 5); TCopy]) = (3 # 5, 4 # 5).
Proof. vm_compute. reflexivity. Qed.
(* a restored polygon restarts at theta = 0, a restored rectangle keeps its angle *)
Example L_restore_theta :
  snd (t_apply_ops (tinit (Poly Lshape)) [TRotateTo Bgen false (3 # 5) (4 # 5); TRestore]) = (1, 0) /\
  snd (t_apply_ops (tinit (Rect 0 4 0 2 B0 1 0)) [TRotateTo Bgen false (3 # 5) (4 # 5); TRestore]) = (3 # 5, 4 # 5).
Proof. vm_compute. split; reflexivity. Qed.

(* incremental rotation: rotate_by(2.214) twice on the L-shape (accumulated angle 4.43 > pi) is ONE rotate_to of the composed angle
   (-7/25, -24/25); the angle wrapped modulo pi, (7/25, 24/25), is a different polygon (the seeded change C08-8) *)
Example L_by_twice :
  t_apply_ops (tinit (Poly Lshape)) [TRotateBy Bgen false (-3 # 5) (4 # 5); TRotateBy Bgen false (-3 # 5) (4 # 5)] =
  t_apply_ops (tinit (Poly Lshape)) [TRotateTo Bgen false (-7 # 25) (-24 # 25)].
Proof. vm_compute. reflexivity. Qed.
Example L_by_twice_not_mod_pi :
  fst (t_apply_ops (tinit (Poly Lshape)) [TRotateBy Bgen false (-3 # 5) (4 # 5); TRotateBy Bgen false (-3 # 5) (4 # 5)]) <>
  fst (t_apply_ops (tinit (Poly Lshape)) [TRotateTo Bgen false (7 # 25) (24 # 25)]).
Proof. vm_compute. discriminate. Qed.
Example by_hyps : rotatable (Poly Lshape) /\ on_unit (-3 # 5) (4 # 5) /\ (forall vs, Rect 0 4 0 2 B0 1 0 <> Poly vs) /\ rotatable (Rect 0 4 0 2 B0 1 0).
Proof. repeat split; try exact I; try reflexivity. discriminate. Qed.
(* rectangle: three increments of pi/2 + 2.214 + 2.214 collapse to one rotate_by of the total *)
Example rect_by_collapse :
  t_apply_ops (tinit (Rect 0 4 0 2 B0 1 0)) (by_ops [(B90, false, (0, 1)); (Bgen, false, (-3 # 5, 4 # 5)); (Bgen, false, (-3 # 5, 4 # 5))]) =
  (Rect 0 4 0 2 Bgen (24 # 25) (-7 # 25), (24 # 25, -7 # 25)).
Proof. vm_compute. reflexivity. Qed.

(* verdicts: inside, outside, and within eps of the boundary *)
Example verdicts :
  map (classify (1 # 1024) (Rect 0 4 0 2 Bgen (3 # 5) (4 # 5))) [(2, 1); (4, 1); (4, 2); (4 + (1 # 4096), 2)] = [VIn; VOut; VNear; VNear].
Proof. vm_compute. reflexivity. Qed.
Example verdict_near : classify (1 # 1024) (Circle 0 0 1) (3 # 5, 4 # 5) = VNear /\ classify (1 # 1024) (Circle 0 0 1) (1 # 2, 1 # 2) = VIn.
Proof. vm_compute. split; reflexivity. Qed.

(* wire entry point: a rotated rectangle, one move, two points *)
Example wire_run :
  run_case (T 1 [T 0 [leaf 1; leaf 1024];
                 T 1 [T 0 [leaf 0; leaf 1]; T 0 [leaf 4; leaf 1]; T 0 [leaf 0; leaf 1]; T 0 [leaf 2; leaf 1]; leaf 2; T 0 [leaf 3; leaf 5]; T 0 [leaf 4; leaf 5]];
                 T 0 [T 1 [T 0 [leaf 10; leaf 1]; T 0 [leaf 10; leaf 1]]];
                 T 0 [T 0 [T 0 [leaf 10; leaf 1]; T 0 [leaf 10; leaf 1]]; T 0 [T 0 [leaf 12; leaf 1]; T 0 [leaf 10; leaf 1]]]])
  = T 0 [T 0 [T 0 [leaf 10; leaf 1]; T 0 [leaf 10; leaf 1]]; T 0 [leaf 1; leaf 0]; T 0 [T 0 [leaf 3; leaf 5]; T 0 [leaf 4; leaf 5]]].
Proof. vm_compute. reflexivity. Qed.
