(* C08 — general facts about the boolean comparisons on Q used by the model, and the tactics
   that turn boolean goals into linear / non-linear arithmetic over Q. *)
From Coq Require Import ZArith List Bool QArith Qabs Lqa Lia Setoid Morphisms.
Import ListNotations.
From GV Require Import Common.Wire C08.Model.
Open Scope Q_scope.

Lemma Qleb_le a b : Qleb a b = true <-> a <= b.
Proof. unfold Qleb. apply Qle_bool_iff. Qed.
Lemma Qleb_gt a b : Qleb a b = false <-> b < a.
Proof.
  unfold Qleb. split; intro H.
  - apply Qnot_le_lt. intro Hle. apply Qle_bool_iff in Hle. congruence.
  - destruct (Qle_bool a b) eqn:E; auto. apply Qle_bool_iff in E. lra.
Qed.
Lemma Qltb_lt a b : Qltb a b = true <-> a < b.
Proof. unfold Qltb. rewrite negb_true_iff. apply (Qleb_gt b a). Qed.
Lemma Qltb_ge a b : Qltb a b = false <-> b <= a.
Proof. unfold Qltb. rewrite negb_false_iff. apply (Qleb_le b a). Qed.
Lemma Qeqb_eq a b : Qeqb a b = true <-> a == b.
Proof. unfold Qeqb. apply Qeq_bool_iff. Qed.
Lemma Qeqb_neq a b : Qeqb a b = false <-> ~ a == b.
Proof.
  unfold Qeqb. split; intro H.
  - intro E. apply Qeq_bool_iff in E. congruence.
  - destruct (Qeq_bool a b) eqn:E; auto. apply Qeq_bool_iff in E. contradiction.
Qed.

Lemma qabs_spec a : (0 <= a /\ qabs a = a) \/ (a < 0 /\ qabs a = - a).
Proof.
  unfold qabs. destruct (Qle_bool 0 a) eqn:E.
  - left. split; auto. apply Qle_bool_iff; auto.
  - right. split; auto. apply (Qleb_gt 0 a); auto.
Qed.
Lemma qmin_spec a b : (a <= b /\ qmin a b = a) \/ (b < a /\ qmin a b = b).
Proof.
  unfold qmin. destruct (Qle_bool a b) eqn:E.
  - left. split; auto. apply Qle_bool_iff; auto.
  - right. split; auto. apply (Qleb_gt a b); auto.
Qed.
Lemma qmax_spec a b : (a <= b /\ qmax a b = b) \/ (b < a /\ qmax a b = a).
Proof.
  unfold qmax. destruct (Qle_bool a b) eqn:E.
  - left. split; auto. apply Qle_bool_iff; auto.
  - right. split; auto. apply (Qleb_gt a b); auto.
Qed.

(* morphisms: everything the model computes respects == *)
Global Instance Qltb_comp : Proper (Qeq ==> Qeq ==> eq) Qltb.
Proof.
  intros a a' Ha b b' Hb. apply eq_true_iff_eq. rewrite !Qltb_lt. rewrite Ha, Hb. tauto.
Qed.
Global Instance Qleb_comp : Proper (Qeq ==> Qeq ==> eq) Qleb.
Proof.
  intros a a' Ha b b' Hb. apply eq_true_iff_eq. rewrite !Qleb_le. rewrite Ha, Hb. tauto.
Qed.
Global Instance Qeqb_comp : Proper (Qeq ==> Qeq ==> eq) Qeqb.
Proof.
  intros a a' Ha b b' Hb. apply eq_true_iff_eq. rewrite !Qeqb_eq. rewrite Ha, Hb. tauto.
Qed.
Global Instance qabs_comp : Proper (Qeq ==> Qeq) qabs.
Proof.
  intros a a' Ha. destruct (qabs_spec a) as [[? ->]|[? ->]], (qabs_spec a') as [[? ->]|[? ->]]; lra.
Qed.
Global Instance qmin_comp : Proper (Qeq ==> Qeq ==> Qeq) qmin.
Proof.
  intros a a' Ha b b' Hb.
  destruct (qmin_spec a b) as [[? ->]|[? ->]], (qmin_spec a' b') as [[? ->]|[? ->]]; lra.
Qed.
Global Instance qmax_comp : Proper (Qeq ==> Qeq ==> Qeq) qmax.
Proof.
  intros a a' Ha b b' Hb.
  destruct (qmax_spec a b) as [[? ->]|[? ->]], (qmax_spec a' b') as [[? ->]|[? ->]]; lra.
Qed.
Global Instance half_comp : Proper (Qeq ==> Qeq) half.
Proof. intros a a' Ha. unfold half. rewrite Ha. reflexivity. Qed.
Global Instance sq_comp : Proper (Qeq ==> Qeq) sq.
Proof. intros a a' Ha. unfold sq. rewrite Ha. reflexivity. Qed.

Lemma half_eq a : half a == a * (1 # 2).
Proof. unfold half. field. Qed.

(* points up to == *)
Definition pteq (a b : pt) : Prop := fst a == fst b /\ snd a == snd b.
Lemma pteq_refl a : pteq a a.
Proof. split; reflexivity. Qed.
Lemma pteq_sym a b : pteq a b -> pteq b a.
Proof. intros [H1 H2]; split; symmetry; auto. Qed.
Lemma pteq_trans a b c : pteq a b -> pteq b c -> pteq a c.
Proof. intros [H1 H2] [H3 H4]; split; etransitivity; eauto. Qed.

(* Qred gives canonical forms: == becomes Leibniz equality *)
Lemma Qred_eq a b : a == b -> Qred a = Qred b.
Proof. apply Qred_complete. Qed.

(* ---------- tactics ---------- *)
(* booleans to propositions, in hypotheses and goal *)
Ltac b2p :=
  repeat match goal with
  | H : _ && _ = true |- _ => apply andb_true_iff in H; destruct H
  | H : _ || _ = false |- _ => apply orb_false_iff in H; destruct H
  | H : negb _ = true |- _ => apply negb_true_iff in H
  | H : negb _ = false |- _ => apply negb_false_iff in H
  | H : Qltb _ _ = true |- _ => apply Qltb_lt in H
  | H : Qltb _ _ = false |- _ => apply Qltb_ge in H
  | H : Qleb _ _ = true |- _ => apply Qleb_le in H
  | H : Qleb _ _ = false |- _ => apply Qleb_gt in H
  | H : Qeqb _ _ = true |- _ => apply Qeqb_eq in H
  | H : Qeqb _ _ = false |- _ => apply Qeqb_neq in H
  | |- _ && _ = true => apply andb_true_iff; split
  | |- _ || _ = false => apply orb_false_iff; split
  | |- Qltb _ _ = true => apply Qltb_lt
  | |- Qltb _ _ = false => apply Qltb_ge
  | |- Qleb _ _ = true => apply Qleb_le
  | |- Qleb _ _ = false => apply Qleb_gt
  | |- Qeqb _ _ = true => apply Qeqb_eq
  | |- Qeqb _ _ = false => apply Qeqb_neq
  end.

(* case analysis on every qabs / qmin / qmax in sight *)
Ltac dabs :=
  repeat match goal with
  | |- context [qabs ?a] =>
    let H := fresh "Habs" in let E := fresh "Eabs" in
    destruct (qabs_spec a) as [[H E]|[H E]]; rewrite E in *; clear E
  | H0 : context [qabs ?a] |- _ =>
    let H := fresh "Habs" in let E := fresh "Eabs" in
    destruct (qabs_spec a) as [[H E]|[H E]]; rewrite E in *; clear E
  | |- context [qmax ?a ?b] =>
    let H := fresh "Hmax" in let E := fresh "Emax" in
    destruct (qmax_spec a b) as [[H E]|[H E]]; rewrite E in *; clear E
  | H0 : context [qmax ?a ?b] |- _ =>
    let H := fresh "Hmax" in let E := fresh "Emax" in
    destruct (qmax_spec a b) as [[H E]|[H E]]; rewrite E in *; clear E
  | |- context [qmin ?a ?b] =>
    let H := fresh "Hmin" in let E := fresh "Emin" in
    destruct (qmin_spec a b) as [[H E]|[H E]]; rewrite E in *; clear E
  | H0 : context [qmin ?a ?b] |- _ =>
    let H := fresh "Hmin" in let E := fresh "Emin" in
    destruct (qmin_spec a b) as [[H E]|[H E]]; rewrite E in *; clear E
  end.

(* name every normalised term and remember that it equals its argument *)
Ltac qred_elim :=
  repeat match goal with
  | |- context [Qred ?x] =>
    let H := fresh "Hred" in let y := fresh "r" in
    pose proof (Qred_correct x) as H; set (y := Qred x) in *; clearbody y
  | H0 : context [Qred ?x] |- _ =>
    let H := fresh "Hred" in let y := fresh "r" in
    pose proof (Qred_correct x) as H; set (y := Qred x) in *; clearbody y
  end.

(* unit circle: the four axis-aligned points *)
Lemma unit_s0 c s : c * c + s * s == 1 -> s == 0 -> c == 1 \/ c == -1.
Proof.
  intros H Hs.
  assert (E : (c - 1) * (c + 1) == 0) by (rewrite Hs in H; lra).
  apply Qmult_integral in E. destruct E; [left|right]; lra.
Qed.
Lemma unit_c0 c s : c * c + s * s == 1 -> c == 0 -> s == 1 \/ s == -1.
Proof.
  intros H Hc.
  assert (E : (s - 1) * (s + 1) == 0) by (rewrite Hc in H; lra).
  apply Qmult_integral in E. destruct E; [left|right]; lra.
Qed.

(* lists of rationals *)
Lemma qmin_list_le d l a : In a l -> qmin_list d l <= a.
Proof.
  induction l as [|b t IH]; simpl; [tauto|].
  intros [->|Hin].
  - destruct t; [lra|]. destruct (qmin_spec a (qmin_list d (q :: t))) as [[? ->]|[? ->]]; lra.
  - destruct t as [|c t]; [destruct Hin|].
    specialize (IH Hin). destruct (qmin_spec b (qmin_list d (c :: t))) as [[? ->]|[? ->]]; lra.
Qed.
Lemma qmax_list_ge d l a : In a l -> a <= qmax_list d l.
Proof.
  induction l as [|b t IH]; simpl; [tauto|].
  intros [->|Hin].
  - destruct t; [lra|]. destruct (qmax_spec a (qmax_list d (q :: t))) as [[? ->]|[? ->]]; lra.
  - destruct t as [|c t]; [destruct Hin|].
    specialize (IH Hin). destruct (qmax_spec b (qmax_list d (c :: t))) as [[? ->]|[? ->]]; lra.
Qed.
Lemma qmin_list_in d l : l <> [] -> In (qmin_list d l) l.
Proof.
  induction l as [|b t IH]; [congruence|]. intros _. simpl.
  destruct t as [|c t]; [left; reflexivity|].
  destruct (qmin_spec b (qmin_list d (c :: t))) as [[? ->]|[? ->]]; [left; reflexivity|].
  right. apply IH. congruence.
Qed.
Lemma qmax_list_in d l : l <> [] -> In (qmax_list d l) l.
Proof.
  induction l as [|b t IH]; [congruence|]. intros _. simpl.
  destruct t as [|c t]; [left; reflexivity|].
  destruct (qmax_spec b (qmax_list d (c :: t))) as [[? ->]|[? ->]]; [right; apply IH; congruence|].
  left; reflexivity.
Qed.

(* extrema of a list, characterised up to == : a lower bound that is attained *)
Lemma qmin_list_unique d l m : l <> [] -> (forall a, In a l -> m <= a) -> (exists a, In a l /\ a == m) -> qmin_list d l == m.
Proof.
  intros Hne Hlb [a [Hin Ha]].
  pose proof (qmin_list_le d l a Hin). pose proof (Hlb _ (qmin_list_in d l Hne)). lra.
Qed.
Lemma qmax_list_unique d l m : l <> [] -> (forall a, In a l -> a <= m) -> (exists a, In a l /\ a == m) -> qmax_list d l == m.
Proof.
  intros Hne Hub [a [Hin Ha]].
  pose proof (qmax_list_ge d l a Hin). pose proof (Hub _ (qmax_list_in d l Hne)). lra.
Qed.

Lemma F2_in_l {A B} (P : A -> B -> Prop) l l' a : Forall2 P l l' -> In a l -> exists a', In a' l' /\ P a a'.
Proof.
  induction 1 as [|x y l l' Hxy HF IH]; intros Hin; [destruct Hin|].
  destruct Hin as [<-|Hin].
  - exists y; split; [left; auto|auto].
  - destruct (IH Hin) as [a' [? ?]]. exists a'; split; [right; auto|auto].
Qed.
Lemma F2_in_r {A B} (P : A -> B -> Prop) l l' a' : Forall2 P l l' -> In a' l' -> exists a, In a l /\ P a a'.
Proof.
  induction 1 as [|x y l l' Hxy HF IH]; intros Hin; [destruct Hin|].
  destruct Hin as [<-|Hin].
  - exists x; split; [left; auto|auto].
  - destruct (IH Hin) as [a [? ?]]. exists a; split; [right; auto|auto].
Qed.

(* translating every element translates the extrema *)
Lemma qmin_list_shift d l l' k : l <> [] -> Forall2 (fun a a' => a' == a + k) l l' -> qmin_list d l' == qmin_list d l + k.
Proof.
  intros Hne HF.
  assert (Hne' : l' <> []) by (destruct HF; congruence).
  apply qmin_list_unique; auto.
  - intros a' Hin'. destruct (F2_in_r _ _ _ _ HF Hin') as [a [Hin Ha]].
    pose proof (qmin_list_le d l a Hin). lra.
  - destruct (F2_in_l _ _ _ _ HF (qmin_list_in d l Hne)) as [a' [Hin' Ha']]. exists a'. split; auto.
Qed.
Lemma qmax_list_shift d l l' k : l <> [] -> Forall2 (fun a a' => a' == a + k) l l' -> qmax_list d l' == qmax_list d l + k.
Proof.
  intros Hne HF.
  assert (Hne' : l' <> []) by (destruct HF; congruence).
  apply qmax_list_unique; auto.
  - intros a' Hin'. destruct (F2_in_r _ _ _ _ HF Hin') as [a [Hin Ha]].
    pose proof (qmax_list_ge d l a Hin). lra.
  - destruct (F2_in_l _ _ _ _ HF (qmax_list_in d l Hne)) as [a' [Hin' Ha']]. exists a'. split; auto.
Qed.
