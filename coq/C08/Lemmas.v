(* C08 — the lemmas Property.v refers to, proved in QBase / Lemmas1 (rectangle, ellipse) / Lemmas2 (translation) /
   Lemmas3 (rotation, polygon representation, polygon pre-filter, verdict soundness) / Lemmas4 (incremental rotation rotate_by). *)
From GV Require Export C08.Model C08.QBase C08.Lemmas1 C08.Lemmas2 C08.Lemmas3 C08.Lemmas4 C08.GenLink.

Definition rect_contains_geometric := Lemmas1.rect_contains_geometric.
Definition rect_branches_agree := Lemmas1.rect_branches_agree.
Definition ell_contains_geometric := Lemmas1.ell_contains_geometric.
Definition ell_branches_agree := Lemmas1.ell_branches_agree.
Definition rect_prefilter_sound := Lemmas1.rect_prefilter_sound.
Definition ell_prefilter_sound := Lemmas1.ell_prefilter_sound.
Definition rect_classify_sound := Lemmas1.rect_classify_sound.
Definition move_equivariant := Lemmas2.move_equivariant.
Definition rect_rotate_equivariant := Lemmas3.rect_rotate_equivariant.
Definition ell_rotate_equivariant := Lemmas3.ell_rotate_equivariant.
Definition poly_rotate_vertices := Lemmas3.poly_rotate_vertices.
Definition poly_rotate_skip_exact := Lemmas3.poly_rotate_skip_exact.
Definition polygon_representation_invariant := Lemmas3.polygon_representation_invariant.
Definition crossing_odd_cyclic := Lemmas3.crossing_odd_cyclic.
Definition poly_prefilter_sound := Lemmas3.poly_prefilter_sound.
Definition circle_classify_sound := Lemmas3.circle_classify_sound.
Definition range_classify_sound := Lemmas3.range_classify_sound.
Definition rect_polygon_agree_axis := Lemmas3.rect_polygon_agree_axis.
Definition copy_identity := Lemmas3.copy_identity.
Definition copy_then_ops := Lemmas3.copy_then_ops.
Definition restore_region := Lemmas3.restore_region.
Definition restore_then_ops := Lemmas3.restore_then_ops.
Definition rotate_by_is_rotate_to := Lemmas4.rotate_by_is_rotate_to.
Definition rotate_by_angle_sum := Lemmas4.rotate_by_angle_sum.
Definition ang_sum_total := Lemmas4.ang_sum_total.
Definition ang_sum_unit := Lemmas4.ang_sum_unit.
Definition rotate_by_collapse := Lemmas4.rotate_by_collapse.
Definition rotate_by_polygon := Lemmas4.rotate_by_polygon.
Definition gen_rotate_by := GenLink.gen_rotate_by.
Definition gen_rotate_by_step := GenLink.gen_rotate_by_step.
Definition gen_rotate_to_rect_ellipse := GenLink.gen_rotate_to_rect_ellipse.
Definition gen_rotate_to_polygon := GenLink.gen_rotate_to_polygon.
Definition gen_polygon_skip_test := GenLink.gen_polygon_skip_test.
