(* C08 — rectangle and ellipse: geometric exactness, pre-filter soundness, branch agreement. *)
From Coq Require Import ZArith List Bool QArith Lqa Lia Setoid Morphisms.
Import ListNotations.
From GV Require Import Common.Wire C08.Model C08.QBase.
Open Scope Q_scope.

Definition on_unit (c s : Q) : Prop := c * c + s * s == 1.
(* which angles a branch is exact for: the code takes B0 when theta is a multiple of pi, B90 for odd multiples of pi/2 *)
Definition branch_ok (b : branch) (c s : Q) : Prop :=
  match b with B0 => s == 0 | B90 => c == 0 | Bgen => True end.

Ltac qr := repeat rewrite Qred_correct.
Ltac qr_in H := repeat rewrite Qred_correct in H.

Lemma rot_back_rot c s q : on_unit c s -> pteq (rot_back c s (rot c s q)) q.
Proof.
  unfold on_unit, rot, rot_back, pteq; intros H; cbn [fst snd]; qr. split.
  - transitivity ((c * c + s * s) * fst q); [ring|rewrite H; ring].
  - transitivity ((c * c + s * s) * snd q); [ring|rewrite H; ring].
Qed.
Lemma rot_rot_back c s q : on_unit c s -> pteq (rot c s (rot_back c s q)) q.
Proof.
  unfold on_unit, rot, rot_back, pteq; intros H; cbn [fst snd]; qr. split.
  - transitivity ((c * c + s * s) * fst q); [ring|rewrite H; ring].
  - transitivity ((c * c + s * s) * snd q); [ring|rewrite H; ring].
Qed.

(* ------------------------------------------------------------------ rectangle *)
Section Rect.
Variables x0 x1 y0 y1 : Q.
Let cx := fst (rect_center x0 x1 y0 y1).
Let cy := snd (rect_center x0 x1 y0 y1).
Let w2 := half (x1 - x0).
Let h2 := half (y1 - y0).

(* the geometric definition: p is the image of a point of the open axis-parallel box under the rotation about the centre *)
Definition rect_geom (c s : Q) (p : pt) : Prop :=
  exists u v, qabs u < w2 /\ qabs v < h2 /\
    fst p == cx + (c * u - s * v) /\ snd p == cy + (s * u + c * v).

Definition rect_uv (c s : Q) (p : pt) : pt := rot_back c s (psub p (rect_center x0 x1 y0 y1)).

Lemma rect_uv_fst c s p : fst (rect_uv c s p) == c * (fst p - cx) + s * (snd p - cy).
Proof. unfold rect_uv, rot_back, psub, cx, cy; cbn [fst snd]; qr. ring. Qed.
Lemma rect_uv_snd c s p : snd (rect_uv c s p) == - s * (fst p - cx) + c * (snd p - cy).
Proof. unfold rect_uv, rot_back, psub, cx, cy; cbn [fst snd]; qr. ring. Qed.

Lemma rect_uv_inv c s p : on_unit c s ->
  fst p == cx + (c * fst (rect_uv c s p) - s * snd (rect_uv c s p)) /\
  snd p == cy + (s * fst (rect_uv c s p) + c * snd (rect_uv c s p)).
Proof.
  intros H. rewrite rect_uv_fst, rect_uv_snd. unfold on_unit in H. split.
  - transitivity (cx + (c * c + s * s) * (fst p - cx)); [rewrite H; ring|ring].
  - transitivity (cy + (c * c + s * s) * (snd p - cy)); [rewrite H; ring|ring].
Qed.

Lemma rect_geom_iff c s p : on_unit c s ->
  rect_geom c s p <-> qabs (fst (rect_uv c s p)) < w2 /\ qabs (snd (rect_uv c s p)) < h2.
Proof.
  intros H. split.
  - intros [u [v [Hu [Hv [Hx Hy]]]]].
    assert (Eu : fst (rect_uv c s p) == u).
    { rewrite rect_uv_fst, Hx, Hy. unfold on_unit in H.
      transitivity ((c * c + s * s) * u); [ring|rewrite H; ring]. }
    assert (Ev : snd (rect_uv c s p) == v).
    { rewrite rect_uv_snd, Hx, Hy. unfold on_unit in H.
      transitivity ((c * c + s * s) * v); [ring|rewrite H; ring]. }
    rewrite Eu, Ev. auto.
  - intros [Hu Hv]. exists (fst (rect_uv c s p)), (snd (rect_uv c s p)).
    destruct (rect_uv_inv c s p H). auto.
Qed.


Lemma rect_inner_iff c s p :
  rect_inner x0 x1 y0 y1 c s p = true <-> qabs (fst (rect_uv c s p)) <= w2 /\ qabs (snd (rect_uv c s p)) <= h2.
Proof.
  unfold rect_inner, rect_uv, w2, h2. cbv zeta. rewrite andb_true_iff, !Qleb_le. tauto.
Qed.

(* the four corners appear in to_polygon's vertex list; their coordinates *)
Lemma corner_bounds c s a b :
  In (a, b) [(- w2, - h2); (w2, - h2); (w2, h2); (- w2, h2)] ->
  let vs := rect_corners_rot x0 x1 y0 y1 c s in
  qmin_list 0 (map fst vs) <= cx + (c * a - s * b) /\ cx + (c * a - s * b) <= qmax_list 0 (map fst vs) /\
  qmin_list 0 (map snd vs) <= cy + (s * a + c * b) /\ cy + (s * a + c * b) <= qmax_list 0 (map snd vs).
Proof.
  intros Hin vs.
  assert (Hv : In (padd (rot c s (a, b)) (rect_center x0 x1 y0 y1)) vs).
  { unfold vs, rect_corners_rot. fold w2 h2. cbv zeta.
    apply (in_map (fun q => padd (rot c s q) (rect_center x0 x1 y0 y1))).
    cbn [In] in *. tauto. }
  assert (Ex : fst (padd (rot c s (a, b)) (rect_center x0 x1 y0 y1)) == cx + (c * a - s * b)).
  { unfold padd, rot, cx. cbn [fst snd]. qr. ring. }
  assert (Ey : snd (padd (rot c s (a, b)) (rect_center x0 x1 y0 y1)) == cy + (s * a + c * b)).
  { unfold padd, rot, cy. cbn [fst snd]. qr. ring. }
  pose proof (qmin_list_le 0 _ _ (in_map fst _ _ Hv)) as H1.
  pose proof (qmax_list_ge 0 _ _ (in_map fst _ _ Hv)) as H2.
  pose proof (qmin_list_le 0 _ _ (in_map snd _ _ Hv)) as H3.
  pose proof (qmax_list_ge 0 _ _ (in_map snd _ _ Hv)) as H4.
  rewrite Ex in H1, H2. rewrite Ey in H3, H4. tauto.
Qed.

(* prefilter_sound (rectangle): the bounding box of to_polygon() never rejects a point that passes the rotated test *)
Lemma rect_prefilter_sound c s p : on_unit c s ->
  rect_inner x0 x1 y0 y1 c s p = true -> bbox_keep (rect_corners_rot x0 x1 y0 y1 c s) p = true.
Proof.
  intros Hu Hin. apply rect_inner_iff in Hin. destruct Hin as [Hu1 Hv1].
  destruct (rect_uv_inv c s p Hu) as [Hx Hy].
  set (u := fst (rect_uv c s p)) in *. set (v := snd (rect_uv c s p)) in *.
  pose proof (corner_bounds c s (- w2) (- h2)) as C1. pose proof (corner_bounds c s w2 (- h2)) as C2.
  pose proof (corner_bounds c s w2 h2) as C3. pose proof (corner_bounds c s (- w2) h2) as C4.
  cbn [In] in C1, C2, C3, C4.
  destruct C1 as [A1 [A2 [A3 A4]]]; [tauto|]. destruct C2 as [B1 [B2 [B3 B4]]]; [tauto|].
  destruct C3 as [D1 [D2 [D3 D4]]]; [tauto|]. destruct C4 as [E1 [E2 [E3 E4]]]; [tauto|].
  unfold bbox_keep. cbv zeta. rewrite !andb_true_iff, !Qleb_le. qr.
  set (mx := qmin_list 0 _) in *. set (Mx := qmax_list 0 _) in *.
  set (my := qmin_list 0 _) in *. set (My := qmax_list 0 _) in *.
  assert (Hu2 : - w2 <= u <= w2) by (revert Hu1; dabs; intros; lra).
  assert (Hv2 : - h2 <= v <= h2) by (revert Hv1; dabs; intros; lra).
  clear Hu1 Hv1.
  destruct (Qlt_le_dec c 0) as [Hc|Hc], (Qlt_le_dec s 0) as [Hs|Hs]; repeat split; nra.
Qed.

(* in the general branch the pre-filter is invisible *)
Lemma rect_gen_eq_inner c s p : on_unit c s ->
  rect_contains x0 x1 y0 y1 Bgen c s p = rect_inner x0 x1 y0 y1 c s p.
Proof.
  intros Hu. unfold rect_contains. cbv zeta.
  destruct (rect_inner x0 x1 y0 y1 c s p) eqn:E.
  - rewrite (rect_prefilter_sound c s p Hu E). reflexivity.
  - apply andb_false_r.
Qed.

Lemma rect_margin_eq c s p :
  rect_margin x0 x1 y0 y1 c s p = qmax (qabs (fst (rect_uv c s p)) - w2) (qabs (snd (rect_uv c s p)) - h2).
Proof. reflexivity. Qed.

Lemma cx_eq : cx == x0 + (x1 - x0) * (1 # 2).
Proof. unfold cx, rect_center. cbn [fst]. rewrite half_eq. reflexivity. Qed.
Lemma cy_eq : cy == y0 + (y1 - y0) * (1 # 2).
Proof. unfold cy, rect_center. cbn [snd]. rewrite half_eq. reflexivity. Qed.

(* rect_contains_geometric: off the boundary, contains answers the geometric question in each branch the code can take *)
Theorem rect_contains_geometric b c s p : on_unit c s -> branch_ok b c s ->
  ~ rect_margin x0 x1 y0 y1 c s p == 0 ->
  (rect_contains x0 x1 y0 y1 b c s p = true <-> rect_geom c s p).
Proof.
  intros Hu Hb Hm. rewrite (rect_geom_iff c s p Hu). rewrite rect_margin_eq in Hm.
  pose proof (rect_uv_fst c s p) as Eu. pose proof (rect_uv_snd c s p) as Ev.
  set (u := fst (rect_uv c s p)) in *. set (v := snd (rect_uv c s p)) in *.
  destruct b.
  - (* first branch: theta = 0 mod pi *)
    cbn in Hb. destruct (unit_s0 c s Hu Hb) as [Hc|Hc]; rewrite Hb, Hc in Eu, Ev;
    pose proof cx_eq as Ecx; pose proof cy_eq as Ecy; unfold w2, h2; rewrite !half_eq;
    unfold rect_contains; rewrite !andb_true_iff, !Qltb_lt;
    clear Hm; dabs; split; intros; repeat split; try lra.
  - (* second branch: theta = pi/2 mod pi; the extents are swapped *)
    cbn in Hb. destruct (unit_c0 c s Hu Hb) as [Hs|Hs]; rewrite Hb, Hs in Eu, Ev;
    pose proof cx_eq as Ecx; pose proof cy_eq as Ecy; unfold w2, h2; rewrite !half_eq;
    unfold rect_contains; cbv zeta; fold cx cy; rewrite !half_eq; rewrite !andb_true_iff, !Qltb_lt;
    clear Hm; dabs; split; intros; repeat split; try lra.
  - (* general branch *)
    rewrite (rect_gen_eq_inner c s p Hu), rect_inner_iff. fold u v.
    revert Hm. dabs; intros; split; intros; lra.
Qed.

(* the three branches agree wherever their guards overlap *)
Corollary rect_branches_agree b c s p : on_unit c s -> branch_ok b c s ->
  ~ rect_margin x0 x1 y0 y1 c s p == 0 ->
  rect_contains x0 x1 y0 y1 b c s p = rect_contains x0 x1 y0 y1 Bgen c s p.
Proof.
  intros Hu Hb Hm. apply eq_true_iff_eq.
  rewrite (rect_contains_geometric b c s p Hu Hb Hm), (rect_contains_geometric Bgen c s p Hu I Hm). tauto.
Qed.

(* the verdict of the model is sound for the geometric definition *)
Lemma rect_classify_sound eps b c s p : 0 <= eps -> on_unit c s -> branch_ok b c s ->
  (classify eps (Rect x0 x1 y0 y1 b c s) p = VIn -> rect_geom c s p) /\
  (classify eps (Rect x0 x1 y0 y1 b c s) p = VOut -> ~ rect_geom c s p).
Proof.
  intros He Hu Hb. unfold classify. cbv zeta. cbn [near contains].
  destruct (Qleb (qabs (rect_margin x0 x1 y0 y1 c s p)) eps) eqn:En; [split; discriminate|].
  apply Qleb_gt in En.
  assert (Hm : ~ rect_margin x0 x1 y0 y1 c s p == 0) by (revert En; dabs; intros; lra).
  pose proof (rect_contains_geometric b c s p Hu Hb Hm) as G.
  destruct (rect_contains x0 x1 y0 y1 b c s p); split; try discriminate; intros _.
  - apply G; reflexivity.
  - intro Hg. apply G in Hg. discriminate.
Qed.

End Rect.

(* ------------------------------------------------------------------ ellipse *)
Section Ell.
Variables xc yc rx ry : Q.
Hypothesis Hrx : 0 < rx.
Hypothesis Hry : 0 < ry.

Definition ell_geom (c s : Q) (p : pt) : Prop :=
  exists u v, sq u / sq rx + sq v / sq ry < 1 /\
    fst p == xc + (c * u - s * v) /\ snd p == yc + (s * u + c * v).

Definition ell_uv (c s : Q) (p : pt) : pt := rot_back c s (psub p (xc, yc)).

Lemma ell_uv_fst c s p : fst (ell_uv c s p) == c * (fst p - xc) + s * (snd p - yc).
Proof. unfold ell_uv, rot_back, psub; cbn [fst snd]; qr. ring. Qed.
Lemma ell_uv_snd c s p : snd (ell_uv c s p) == - s * (fst p - xc) + c * (snd p - yc).
Proof. unfold ell_uv, rot_back, psub; cbn [fst snd]; qr. ring. Qed.

Lemma ell_q_pteq a b : pteq a b -> ell_q rx ry a == ell_q rx ry b.
Proof. intros [H1 H2]. unfold ell_q. rewrite H1, H2. reflexivity. Qed.

Lemma ell_geom_iff c s p : on_unit c s -> (ell_geom c s p <-> ell_q rx ry (ell_uv c s p) < 1).
Proof.
  intros H. unfold on_unit in H. split.
  - intros [u [v [Hq [Hx Hy]]]].
    assert (E : pteq (ell_uv c s p) (u, v)).
    { split; cbn [fst snd].
      - rewrite ell_uv_fst, Hx, Hy. transitivity ((c * c + s * s) * u); [ring|rewrite H; ring].
      - rewrite ell_uv_snd, Hx, Hy. transitivity ((c * c + s * s) * v); [ring|rewrite H; ring]. }
    rewrite (ell_q_pteq _ _ E). exact Hq.
  - intros Hq. exists (fst (ell_uv c s p)), (snd (ell_uv c s p)). split; [exact Hq|].
    rewrite ell_uv_fst, ell_uv_snd. split.
    + transitivity (xc + (c * c + s * s) * (fst p - xc)); [rewrite H; ring|ring].
    + transitivity (yc + (c * c + s * s) * (snd p - yc)); [rewrite H; ring|ring].
Qed.

Lemma rx_nz : ~ rx == 0. Proof. lra. Qed.
Lemma ry_nz : ~ ry == 0. Proof. lra. Qed.
Lemma sq_rx_pos : 0 < sq rx. Proof. unfold sq. nra. Qed.
Lemma sq_ry_pos : 0 < sq ry. Proof. unfold sq. nra. Qed.

Lemma ell_inner_iff c s p : ell_inner xc yc rx ry c s p = true <-> ell_q rx ry (ell_uv c s p) < 1.
Proof. unfold ell_inner, ell_uv. apply Qltb_lt. Qed.

(* prefilter_sound (ellipse): the square of half-width max(rx, ry) contains the rotated ellipse *)
Lemma ell_prefilter_sound c s p : on_unit c s ->
  ell_inner xc yc rx ry c s p = true -> ell_keep xc yc rx ry p = true.
Proof.
  intros Hu Hin. apply ell_inner_iff in Hin.
  pose proof (ell_uv_fst c s p) as Eu. pose proof (ell_uv_snd c s p) as Ev.
  unfold ell_q in Hin.
  set (u := fst (ell_uv c s p)) in *. set (v := snd (ell_uv c s p)) in *.
  set (dx := fst p - xc) in *. set (dy := snd p - yc) in *.
  set (A := sq u / sq rx) in *. set (B := sq v / sq ry) in *.
  assert (EA : A * sq rx == sq u) by (unfold A; field; pose proof sq_rx_pos; lra).
  assert (EB : B * sq ry == sq v) by (unfold B; field; pose proof sq_ry_pos; lra).
  assert (HA : 0 <= A).
  { destruct (Qlt_le_dec A 0) as [Hn|]; [|assumption]. exfalso.
    pose proof sq_rx_pos. assert (0 <= sq u) by (unfold sq; nra). nra. }
  assert (HB : 0 <= B).
  { destruct (Qlt_le_dec B 0) as [Hn|]; [|assumption]. exfalso.
    pose proof sq_ry_pos. assert (0 <= sq v) by (unfold sq; nra). nra. }
  assert (Hn : dx * dx + dy * dy == sq u + sq v).
  { unfold sq. rewrite Eu, Ev. unfold on_unit in Hu.
    transitivity ((c * c + s * s) * (dx * dx + dy * dy)); [rewrite Hu; ring|ring]. }
  unfold ell_keep, ell_bounds. cbn [fst snd]. rewrite !andb_true_iff, !Qleb_le.
  set (r := qmax rx ry).
  assert (Hr : rx <= r /\ ry <= r) by (unfold r; dabs; lra).
  assert (Hrr : sq u + sq v < r * r).
  { rewrite <- EA, <- EB. unfold sq in *.
    assert (rx * rx <= r * r) by nra. assert (ry * ry <= r * r) by nra.
    assert (A * (rx * rx) <= A * (r * r)) by nra. assert (B * (ry * ry) <= B * (r * r)) by nra.
    assert ((A + B) * (r * r) < 1 * (r * r)) by (apply Qmult_lt_compat_r; nra). lra. }
  assert (Hdx : dx * dx < r * r) by nra. assert (Hdy : dy * dy < r * r) by nra.
  assert (0 < r) by lra.
  unfold dx, dy in *. repeat split; nra.
Qed.

Lemma ell_gen_eq_inner c s p : on_unit c s ->
  ell_keep xc yc rx ry p && ell_inner xc yc rx ry c s p = ell_inner xc yc rx ry c s p.
Proof.
  intros Hu. destruct (ell_inner xc yc rx ry c s p) eqn:E.
  - rewrite (ell_prefilter_sound c s p Hu E). reflexivity.
  - apply andb_false_r.
Qed.

(* ell_contains_geometric: contains answers the geometric question in each branch the code can take (the tests are
   strict in every branch, so no point needs to be excluded) *)
Theorem ell_contains_geometric b c s p : on_unit c s -> branch_ok b c s ->
  (ell_contains xc yc rx ry b c s p = true <-> ell_geom c s p).
Proof.
  intros Hu Hb. rewrite (ell_geom_iff c s p Hu).
  unfold ell_contains.
  assert (Z1 : Qeqb rx 0 = false) by (apply Qeqb_neq; exact rx_nz).
  assert (Z2 : Qeqb ry 0 = false) by (apply Qeqb_neq; exact ry_nz).
  rewrite Z1, Z2. cbn [orb].
  pose proof (ell_uv_fst c s p) as Eu. pose proof (ell_uv_snd c s p) as Ev.
  destruct b.
  - cbn in Hb. rewrite Qltb_lt. unfold ell_q, psub. cbn [fst snd]. qr.
    assert (E1 : sq (fst (ell_uv c s p)) == sq (fst p - xc)).
    { destruct (unit_s0 c s Hu Hb) as [Hc|Hc]; rewrite Eu, Hb, Hc; unfold sq; ring. }
    assert (E2 : sq (snd (ell_uv c s p)) == sq (snd p - yc)).
    { destruct (unit_s0 c s Hu Hb) as [Hc|Hc]; rewrite Ev, Hb, Hc; unfold sq; ring. }
    rewrite E1, E2. tauto.
  - cbn in Hb. rewrite Qltb_lt. unfold ell_q, psub. cbn [fst snd]. qr.
    assert (E1 : sq (fst (ell_uv c s p)) == sq (snd p - yc)).
    { destruct (unit_c0 c s Hu Hb) as [Hs|Hs]; rewrite Eu, Hb, Hs; unfold sq; ring. }
    assert (E2 : sq (snd (ell_uv c s p)) == sq (fst p - xc)).
    { destruct (unit_c0 c s Hu Hb) as [Hs|Hs]; rewrite Ev, Hb, Hs; unfold sq; ring. }
    rewrite E1, E2. split; intros; lra.
  - rewrite (ell_gen_eq_inner c s p Hu). apply ell_inner_iff.
Qed.

Corollary ell_branches_agree b c s p : on_unit c s -> branch_ok b c s ->
  ell_contains xc yc rx ry b c s p = ell_contains xc yc rx ry Bgen c s p.
Proof.
  intros Hu Hb. apply eq_true_iff_eq.
  rewrite (ell_contains_geometric b c s p Hu Hb), (ell_contains_geometric Bgen c s p Hu I). tauto.
Qed.

End Ell.
