(* C08 — translation: move_to translates the set of contained points and places the centre (every class). *)
From Coq Require Import ZArith List Bool QArith Lqa Lia Setoid Morphisms.
Import ListNotations.
From GV Require Import Common.Wire C08.Model C08.QBase C08.Lemmas1.
Open Scope Q_scope.

Ltac hf := repeat rewrite half_eq.
Ltac hf_in H := repeat rewrite half_eq in H.

(* boolean equalities between conjunctions of comparisons *)
Ltac beq := apply eq_true_iff_eq; rewrite ?andb_true_iff, ?orb_true_iff, ?Qltb_lt, ?Qleb_le, ?Qeqb_eq.

Definition shift (d : pt) (v : pt) : pt := padd v d.

Lemma shift_fst d v : fst (shift d v) == fst v + fst d.
Proof. unfold shift, padd; cbn [fst snd]; qr; reflexivity. Qed.
Lemma shift_snd d v : snd (shift d v) == snd v + snd d.
Proof. unfold shift, padd; cbn [fst snd]; qr; reflexivity. Qed.
Lemma psub_fst p q : fst (psub p q) == fst p - fst q.
Proof. unfold psub; cbn [fst snd]; qr; reflexivity. Qed.
Lemma psub_snd p q : snd (psub p q) == snd p - snd q.
Proof. unfold psub; cbn [fst snd]; qr; reflexivity. Qed.

(* psub yields canonical forms: equal differences are equal points *)
Lemma psub_canon p q p' q' :
  fst p - fst q == fst p' - fst q' -> snd p - snd q == snd p' - snd q' -> psub p q = psub p' q'.
Proof. intros H1 H2. unfold psub. rewrite (Qred_eq _ _ H1), (Qred_eq _ _ H2). reflexivity. Qed.

(* ------------------------------------------------------------------ lists of vertices *)
Lemma last_map {A B} (f : A -> B) l d : last (map f l) (f d) = f (last l d).
Proof. induction l as [|a [|b t] IH]; cbn in *; auto. Qed.
Lemma removelast_map {A B} (f : A -> B) l : removelast (map f l) = map f (removelast l).
Proof. induction l as [|a [|b t] IH]; cbn in *; auto. f_equal. exact IH. Qed.
Lemma edges_open_map (f : pt -> pt) vs :
  edges_open (map f vs) = map (fun e => (f (fst e), f (snd e))) (edges_open vs).
Proof. induction vs as [|a [|b t] IH]; cbn in *; auto. f_equal. exact IH. Qed.
Lemma edges_map (f : pt -> pt) vs :
  edges (map f vs) = map (fun e => (f (fst e), f (snd e))) (edges vs).
Proof.
  destruct vs as [|a t]; [reflexivity|].
  unfold edges. change (map f (a :: t)) with (f a :: map f t) at 1.
  cbv iota beta. rewrite map_app. cbn [map fst snd].
  change (f a :: map f t) with (map f (a :: t)). rewrite edges_open_map, last_map. reflexivity.
Qed.

(* ------------------------------------------------------------------ bounding box under translation *)
Lemma F2_map_shift_fst d vs : Forall2 (fun a a' => a' == a + fst d) (map fst vs) (map fst (map (shift d) vs)).
Proof. induction vs; cbn [map]; constructor; auto. apply shift_fst. Qed.
Lemma F2_map_shift_snd d vs : Forall2 (fun a a' => a' == a + snd d) (map snd vs) (map snd (map (shift d) vs)).
Proof. induction vs; cbn [map]; constructor; auto. apply shift_snd. Qed.

Lemma bbox_keep_shift_gen vs vs' d p p' : vs <> [] ->
  Forall2 (fun a a' => a' == a + fst d) (map fst vs) (map fst vs') ->
  Forall2 (fun a a' => a' == a + snd d) (map snd vs) (map snd vs') ->
  fst p' == fst p - fst d -> snd p' == snd p - snd d ->
  bbox_keep vs' p = bbox_keep vs p'.
Proof.
  intros Hne F1 F2 Hx Hy.
  assert (N1 : map fst vs <> []) by (destruct vs; cbn; congruence).
  assert (N2 : map snd vs <> []) by (destruct vs; cbn; congruence).
  pose proof (qmin_list_shift 0 _ _ _ N1 F1) as E1. pose proof (qmax_list_shift 0 _ _ _ N1 F1) as E2.
  pose proof (qmin_list_shift 0 _ _ _ N2 F2) as E3. pose proof (qmax_list_shift 0 _ _ _ N2 F2) as E4.
  unfold bbox_keep. cbv zeta. beq. qr. rewrite E1, E2, E3, E4, Hx, Hy.
  split; intros; repeat split; lra.
Qed.

Lemma bbox_keep_shift vs d p : vs <> [] ->
  bbox_keep (map (shift d) vs) p = bbox_keep vs (psub p d).
Proof.
  intros Hne. apply (bbox_keep_shift_gen vs _ d); auto.
  - apply F2_map_shift_fst. - apply F2_map_shift_snd. - apply psub_fst. - apply psub_snd.
Qed.

(* ------------------------------------------------------------------ crossing number under translation *)
Lemma edge_cross_shift d p a b : edge_cross p (shift d a) (shift d b) = edge_cross (psub p d) a b.
Proof.
  unfold edge_cross.
  pose proof (shift_fst d a) as Ax. pose proof (shift_snd d a) as Ay.
  pose proof (shift_fst d b) as Bx. pose proof (shift_snd d b) as By.
  pose proof (psub_fst p d) as Px. pose proof (psub_snd p d) as Py.
  assert (E1 : Qltb (snd p) (snd (shift d a)) = Qltb (snd (psub p d)) (snd a)).
  { beq. rewrite Ay, Py. split; intros; lra. }
  assert (E2 : Qltb (snd p) (snd (shift d b)) = Qltb (snd (psub p d)) (snd b)).
  { beq. rewrite By, Py. split; intros; lra. }
  rewrite E1, E2. cbv zeta.
  destruct (eqb _ _); [reflexivity|].
  assert (E3 : snd (shift d b) - snd (shift d a) == snd b - snd a) by (rewrite Ay, By; ring).
  assert (E4 : (fst p - fst (shift d a)) * (snd (shift d b) - snd (shift d a)) ==
               (fst (psub p d) - fst a) * (snd b - snd a)) by (rewrite Ax, Ay, By, Px; ring).
  assert (E5 : (snd p - snd (shift d a)) * (fst (shift d b) - fst (shift d a)) ==
               (snd (psub p d) - snd a) * (fst b - fst a)) by (rewrite Ax, Ay, Bx, Py; ring).
  rewrite (Qltb_comp _ _ (Qeq_refl 0) _ _ E3), (Qltb_comp _ _ E4 _ _ E5), (Qltb_comp _ _ E5 _ _ E4).
  reflexivity.
Qed.

Lemma crossing_odd_shift vs d p : crossing_odd (map (shift d) vs) p = crossing_odd vs (psub p d).
Proof.
  unfold crossing_odd. rewrite edges_map, map_map. f_equal.
  apply map_ext. intros [a b]. cbn [fst snd]. apply edge_cross_shift.
Qed.

Lemma poly_contains_shift vs d p : vs <> [] ->
  poly_contains (map (shift d) vs) p = poly_contains vs (psub p d).
Proof.
  intros Hne. unfold poly_contains. cbv zeta.
  rewrite (bbox_keep_shift vs d p Hne), crossing_odd_shift. reflexivity.
Qed.

(* ------------------------------------------------------------------ polygon centre under translation *)
Lemma pt_eqb_shift d a b : pt_eqb (shift d a) (shift d b) = pt_eqb a b.
Proof.
  unfold pt_eqb. beq. rewrite !shift_fst, !shift_snd. split; intros [? ?]; split; lra.
Qed.

Lemma poly_closed_shift d vs : poly_closed (map (shift d) vs) = poly_closed vs.
Proof.
  destruct vs as [|a [|b t]]; [reflexivity|reflexivity|].
  unfold poly_closed. cbn [map].
  change (shift d a :: shift d b :: map (shift d) t) with (map (shift d) (a :: b :: t)).
  rewrite last_map. apply pt_eqb_shift.
Qed.

Lemma poly_core_shift d vs : poly_core (map (shift d) vs) = map (shift d) (poly_core vs).
Proof.
  unfold poly_core. rewrite poly_closed_shift. destruct (poly_closed vs); [apply removelast_map|reflexivity].
Qed.

Lemma poly_core_nonempty vs : vs <> [] -> poly_core vs <> [].
Proof.
  intros Hne. unfold poly_core. destruct (poly_closed vs) eqn:E; [|assumption].
  destruct vs as [|a [|b t]]; cbn in E; try discriminate.
Qed.

Lemma qlen_cons a l : qlen (a :: l) == 1 + qlen l.
Proof.
  unfold qlen. cbn [length]. rewrite Nat2Z.inj_succ. unfold Z.succ. rewrite inject_Z_plus. ring.
Qed.
Lemma qlen_nonneg l : 0 <= qlen l.
Proof.
  induction l as [|a t IH].
  - unfold qlen. cbn. apply Qle_refl.
  - rewrite qlen_cons. lra.
Qed.
Lemma qlen_pos l : l <> [] -> 0 < qlen l.
Proof. destruct l; [congruence|]. intros _. rewrite qlen_cons. pose proof (qlen_nonneg l). lra. Qed.
Lemma qlen_map {A} (f : A -> pt) (l : list A) : qlen (map f l) = inject_Z (Z.of_nat (length l)).
Proof. unfold qlen. rewrite map_length. reflexivity. Qed.

Lemma qsum_shift_fst d l : qsum (map fst (map (shift d) l)) == qsum (map fst l) + qlen l * fst d.
Proof.
  induction l as [|a t IH]; [cbn; unfold qlen; cbn; ring|].
  cbn [map qsum]. qr. rewrite IH, shift_fst, qlen_cons. ring.
Qed.
Lemma qsum_shift_snd d l : qsum (map snd (map (shift d) l)) == qsum (map snd l) + qlen l * snd d.
Proof.
  induction l as [|a t IH]; [cbn; unfold qlen; cbn; ring|].
  cbn [map qsum]. qr. rewrite IH, shift_snd, qlen_cons. ring.
Qed.

Lemma qlen_shift d l : qlen (map (shift d) l) = qlen l.
Proof. unfold qlen. rewrite map_length. reflexivity. Qed.

Lemma poly_mean_shift d vs : vs <> [] ->
  fst (poly_mean (map (shift d) vs)) == fst (poly_mean vs) + fst d /\
  snd (poly_mean (map (shift d) vs)) == snd (poly_mean vs) + snd d.
Proof.
  intros Hne. unfold poly_mean. cbv zeta. rewrite poly_core_shift. cbn [fst snd]. qr.
  rewrite qsum_shift_fst, qsum_shift_snd, qlen_shift.
  pose proof (qlen_pos _ (poly_core_nonempty vs Hne)) as Hp.
  split; field; lra.
Qed.

Lemma rel_to_shift d vs l : vs <> [] ->
  rel_to (poly_mean (map (shift d) vs)) (map (shift d) l) = rel_to (poly_mean vs) l.
Proof.
  intros Hne. destruct (poly_mean_shift d vs Hne) as [Mx My].
  unfold rel_to. rewrite map_map. apply map_ext. intros v.
  apply psub_canon; [rewrite shift_fst, Mx|rewrite shift_snd, My]; ring.
Qed.

Lemma poly_area2_shift d vs : vs <> [] -> poly_area2 (map (shift d) vs) = poly_area2 vs.
Proof.
  intros Hne. unfold poly_area2. cbv zeta. rewrite (rel_to_shift d vs vs Hne), poly_closed_shift. reflexivity.
Qed.

Lemma poly_centroid_shift d vs : vs <> [] ->
  fst (poly_centroid (map (shift d) vs)) == fst (poly_centroid vs) + fst d /\
  snd (poly_centroid (map (shift d) vs)) == snd (poly_centroid vs) + snd d.
Proof.
  intros Hne. destruct (poly_mean_shift d vs Hne) as [Mx My].
  unfold poly_centroid. cbv zeta. rewrite map_length.
  destruct (Nat.eqb (length vs) 3); [split; assumption|].
  rewrite poly_core_shift, (rel_to_shift d vs _ Hne).
  unfold poly_area_signed. rewrite (poly_area2_shift d vs Hne).
  cbn [fst snd]. rewrite Mx, My. split; ring.
Qed.

Lemma poly_extent_shift d vs : vs <> [] -> poly_extent (map (shift d) vs) == poly_extent vs.
Proof.
  intros Hne. unfold poly_extent.
  assert (N1 : map fst vs <> []) by (destruct vs; cbn; congruence).
  assert (N2 : map snd vs <> []) by (destruct vs; cbn; congruence).
  rewrite (qmin_list_shift 0 _ _ _ N1 (F2_map_shift_fst d vs)), (qmax_list_shift 0 _ _ _ N1 (F2_map_shift_fst d vs)),
          (qmin_list_shift 0 _ _ _ N2 (F2_map_shift_snd d vs)), (qmax_list_shift 0 _ _ _ N2 (F2_map_shift_snd d vs)).
  apply qmax_comp; ring.
Qed.

Lemma poly_center_shift d vs : vs <> [] ->
  fst (poly_center (map (shift d) vs)) == fst (poly_center vs) + fst d /\
  snd (poly_center (map (shift d) vs)) == snd (poly_center vs) + snd d.
Proof.
  intros Hne. unfold poly_center. cbv zeta.
  unfold poly_area_signed. rewrite (poly_area2_shift d vs Hne).
  pose proof (poly_extent_shift d vs Hne) as Ex.
  assert (Et : area_tol * (poly_extent (map (shift d) vs) * poly_extent (map (shift d) vs)) ==
               area_tol * (poly_extent vs * poly_extent vs)) by (rewrite Ex; reflexivity).
  rewrite (Qleb_comp _ _ (Qeq_refl _) _ _ Et).
  destruct (Qleb _ _); cbn [fst snd]; qr.
  - apply (poly_mean_shift d vs Hne).
  - apply (poly_centroid_shift d vs Hne).
Qed.

(* ------------------------------------------------------------------ move_equivariant *)
Definition wf (r : roi) : Prop := match r with Poly vs => vs <> [] | _ => True end.
(* RangeROI.move_to takes the new centre of the ranged axis only *)
Definition move_target (r : roi) (t : pt) : pt :=
  match r with
  | Range isx _ _ => let tv := if isx then fst t else snd t in (tv, tv)
  | _ => t
  end.

Lemma rect_center_shift x0 x1 y0 y1 dx dy :
  fst (rect_center (x0 + dx) (x1 + dx) (y0 + dy) (y1 + dy)) == fst (rect_center x0 x1 y0 y1) + dx /\
  snd (rect_center (x0 + dx) (x1 + dx) (y0 + dy) (y1 + dy)) == snd (rect_center x0 x1 y0 y1) + dy.
Proof. unfold rect_center. cbn [fst snd]. hf. split; ring. Qed.

Lemma rect_move x0 x1 y0 y1 b c s t p :
  let d := psub t (rect_center x0 x1 y0 y1) in
  rect_contains (x0 + fst d) (x1 + fst d) (y0 + snd d) (y1 + snd d) b c s p =
  rect_contains x0 x1 y0 y1 b c s (psub p d).
Proof.
  intros d.
  pose proof (psub_fst p d) as Px. pose proof (psub_snd p d) as Py.
  destruct (rect_center_shift x0 x1 y0 y1 (fst d) (snd d)) as [Cx Cy].
  destruct b.
  - unfold rect_contains. beq. rewrite Px, Py. split; intros; repeat split; lra.
  - unfold rect_contains. cbv zeta. beq. rewrite Cx, Cy, Px, Py. hf. split; intros; repeat split; lra.
  - unfold rect_contains. cbv zeta. f_equal.
    + (* pre-filter: the corners are translated by d *)
      apply (bbox_keep_shift_gen (rect_corners_rot x0 x1 y0 y1 c s) _ d); auto.
      * unfold rect_corners_rot; cbn; congruence.
      * unfold rect_corners_rot. cbv zeta. cbn [map].
        repeat constructor; unfold padd, rot; cbn [fst snd]; qr; rewrite Cx; hf; ring.
      * unfold rect_corners_rot. cbv zeta. cbn [map].
        repeat constructor; unfold padd, rot; cbn [fst snd]; qr; rewrite Cy; hf; ring.
    + (* rotated test: same (u, v) *)
      unfold rect_inner. cbv zeta.
      assert (E : psub p (rect_center (x0 + fst d) (x1 + fst d) (y0 + snd d) (y1 + snd d)) =
                  psub (psub p d) (rect_center x0 x1 y0 y1)).
      { apply psub_canon; [rewrite Cx, Px|rewrite Cy, Py]; ring. }
      rewrite E.
      assert (W : half (x1 + fst d - (x0 + fst d)) == half (x1 - x0)) by (hf; ring).
      assert (H : half (y1 + snd d - (y0 + snd d)) == half (y1 - y0)) by (hf; ring).
      rewrite (Qleb_comp _ _ (Qeq_refl _) _ _ W), (Qleb_comp _ _ (Qeq_refl _) _ _ H). reflexivity.
Qed.

Lemma ell_move xc yc rx ry b c s t p :
  ell_contains (fst t) (snd t) rx ry b c s p = ell_contains xc yc rx ry b c s (psub p (psub t (xc, yc))).
Proof.
  set (d := psub t (xc, yc)).
  pose proof (psub_fst p d) as Px. pose proof (psub_snd p d) as Py.
  pose proof (psub_fst t (xc, yc)) as Dx. pose proof (psub_snd t (xc, yc)) as Dy. fold d in Dx, Dy. cbn [fst snd] in Dx, Dy.
  assert (E : psub p (fst t, snd t) = psub (psub p d) (xc, yc)).
  { apply psub_canon; cbn [fst snd]; [rewrite Px, Dx|rewrite Py, Dy]; ring. }
  unfold ell_contains. destruct (Qeqb rx 0 || Qeqb ry 0); [reflexivity|].
  destruct b.
  - rewrite E. reflexivity.
  - rewrite E. reflexivity.
  - unfold ell_inner. rewrite E. f_equal.
    unfold ell_keep, ell_bounds. cbn [fst snd]. beq. rewrite Px, Py, Dx, Dy.
    split; intros; repeat split; lra.
Qed.

Lemma dist2_move t xc yc p : dist2 p (fst t, snd t) == dist2 (psub p (psub t (xc, yc))) (xc, yc).
Proof.
  unfold dist2. cbn [fst snd]. rewrite !psub_fst, !psub_snd. cbn [fst snd]. unfold sq. ring.
Qed.

(* move_equivariant: moving to t translates the contained set by t - center and makes t the centre *)
Theorem move_equivariant r t p : wf r ->
  contains (move_to r t) p = contains r (psub p (psub t (center r))) /\
  pteq (center (move_to r t)) (move_target r t).
Proof.
  intros Hwf. destruct r as [x0 x1 y0 y1 b c s|xc yc rx ry b c s|xc yc rr|xc yc ri ro|isx lo hi|vs].
  - split.
    + cbn [move_to contains center]. apply rect_move.
    + cbn [move_to center move_target].
      destruct (rect_center_shift x0 x1 y0 y1 (fst (psub t (rect_center x0 x1 y0 y1))) (snd (psub t (rect_center x0 x1 y0 y1)))) as [Cx Cy].
      split; [rewrite Cx, psub_fst|rewrite Cy, psub_snd]; ring.
  - split; [cbn [move_to contains center]; apply ell_move|split; reflexivity].
  - split; [|split; reflexivity]. cbn [move_to contains center]. unfold circle_contains.
    rewrite (Qltb_comp _ _ (dist2_move t xc yc p) _ _ (Qeq_refl _)). reflexivity.
  - split; [|split; reflexivity]. cbn [move_to contains center]. unfold annulus_contains.
    rewrite (Qltb_comp _ _ (dist2_move t xc yc p) _ _ (Qeq_refl _)),
            (Qleb_comp _ _ (Qeq_refl _) _ _ (dist2_move t xc yc p)). reflexivity.
  - cbn [move_to contains center move_target]. split.
    + unfold range_contains. destruct isx; beq; rewrite ?psub_fst, ?psub_snd; cbn [fst snd]; hf;
        split; intros; repeat split; lra.
    + split; cbn [fst snd]; hf; ring.
  - cbn in Hwf. cbn [move_to contains center move_target]. split.
    + apply (poly_contains_shift vs (psub t (poly_center vs)) p Hwf).
    + destruct (poly_center_shift (psub t (poly_center vs)) vs Hwf) as [Cx Cy].
      split; [change (map _ vs) with (map (shift (psub t (poly_center vs))) vs); rewrite Cx, psub_fst
             |change (map _ vs) with (map (shift (psub t (poly_center vs))) vs); rewrite Cy, psub_snd]; ring.
Qed.
