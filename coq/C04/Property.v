From Coq Require Import ZArith List Bool.
Import ListNotations.
From GV Require Import Common.PyInt gen.Gen_array C04.Model C04.Lemmas C04.Discharge.
Open Scope Z_scope.

(* SliceSubsetState.to_mask(data, view) = SliceSubsetState.to_mask(data)[view], pointwise and with the same shape,
   for every basic view (integers incl. negative ones, positive-step slices, shorter tuples, the empty tuple).
   The exactness of the translated combine_slices is the explicit first premise (combine_slices_exact_hyp, proved under C20). *)
Theorem slice_state_view :
  (forall v s n r, 0 <= n -> pos_step v -> pos_step s ->
      combine_slices v s n = Ok r ->
      forall k, 0 <= k < zlen (slice_elems v n) ->
        mem k (slice_elems (mk_slice3 r) (zlen (slice_elems v n))) = mem (nth (Z.to_nat k) (slice_elems v n) 0) (slice_elems s n)) ->
  forall shape slices view sh m,
    Forall (fun n => 0 <= n) shape -> Forall pos_step slices -> view_pos_steps view ->
    view_ok shape view = true ->
    slice_state_mask shape slices view = Ok (sh, m) ->
    sh = sel_shape (sel_of shape view) /\
    forall j, in_box sh j -> m j = slices_full_mask shape slices (to_under (sel_of shape view) j).
Proof. exact Lemmas.slice_state_view. Qed.
Print Assumptions slice_state_view.

(* ... and without a view the model is the full-size mask (mask[slices] = True) itself *)
Theorem slice_state_full :
  (forall v s n r, 0 <= n -> pos_step v -> pos_step s ->
      combine_slices v s n = Ok r ->
      forall k, 0 <= k < zlen (slice_elems v n) ->
        mem k (slice_elems (mk_slice3 r) (zlen (slice_elems v n))) = mem (nth (Z.to_nat k) (slice_elems v n) 0) (slice_elems s n)) ->
  forall shape slices sh m,
    Forall (fun n => 0 <= n) shape -> Forall pos_step slices ->
    slice_state_mask shape slices [] = Ok (sh, m) ->
    sh = shape /\ forall j, in_box shape j -> m j = slices_full_mask shape slices j.
Proof. exact Lemmas.slice_state_full. Qed.
Print Assumptions slice_state_full.

(* The pixel-space ROI shortcut (evaluate on the slab [0:1] of the axes the ROI does not name, broadcast back) gives,
   for every element of every view, the ROI predicate at the pixel coordinates of that element; the generic path is
   used when the view removes a dimension. *)
Theorem roi_shortcut_view :
  forall (own : bool) (P : list Z -> bool) shape axis_ids view,
    Forall (fun a => 0 <= a) axis_ids ->
    fst (roi_pixel_mask own P shape axis_ids view) = sel_shape (sel_of shape view) /\
    forall j, snd (roi_pixel_mask own P shape axis_ids view) j = P (roi_coords axis_ids (to_under (sel_of shape view) j)).
Proof. exact Lemmas.roi_shortcut_view. Qed.
Print Assumptions roi_shortcut_view.

(* World coordinates: if the dependent-axis set covers the true dependencies of the world function, every element of
   every view is the world function at the pixel coordinates of that element, with the shape of the view. *)
Theorem world_view :
  forall (A : Type) (W : list Z -> A) shape dep view,
    (forall c, W (zero_nondep dep 0 c) = W c) ->
    fst (world_calculate A W shape dep view) = sel_shape (sel_of shape view) /\
    forall j, snd (world_calculate A W shape dep view) j = W (to_under (sel_of shape view) j).
Proof. exact Lemmas.world_view. Qed.
Print Assumptions world_view.

(* IndexedData: reading the parent with the translated view is reading (parent[indices])[view], element by element and
   with the same shape; the translation is a function of the current indices only, so this also holds after they are reassigned. *)
Theorem indexed_view :
  forall pshape indices view,
    Forall (fun n => 0 <= n) pshape -> indices_ok pshape indices ->
    view_pos_steps view -> view_ok (reduced_shape pshape indices) view = true ->
    sel_shape (sel_of pshape (indices_view indices)) = reduced_shape pshape indices /\
    sel_shape (sel_of pshape (to_original_view indices view)) = sel_shape (sel_of (reduced_shape pshape indices) view) /\
    forall j, in_box (sel_shape (sel_of (reduced_shape pshape indices) view)) j ->
      to_under (sel_of pshape (to_original_view indices view)) j =
      to_under (sel_of pshape (indices_view indices)) (to_under (sel_of (reduced_shape pshape indices) view) j).
Proof. exact Lemmas.indexed_view. Qed.
Print Assumptions indexed_view.

(* The combine_slices premise of slice_state_view / slice_state_full is discharged by C20's proof over the translated
   code (C20.CombineProof.combine_core, via C04.Discharge): the premise itself, and the two theorems without it. *)
Theorem combine_slices_premise_holds :
  forall v s n r, 0 <= n -> pos_step v -> pos_step s ->
    combine_slices v s n = Ok r ->
    forall k, 0 <= k < zlen (slice_elems v n) ->
      mem k (slice_elems (mk_slice3 r) (zlen (slice_elems v n))) = mem (nth (Z.to_nat k) (slice_elems v n) 0) (slice_elems s n).
Proof. exact Discharge.combine_slices_premise_holds. Qed.
Print Assumptions combine_slices_premise_holds.

Theorem slice_state_view_closed :
  forall shape slices view sh m,
    Forall (fun n => 0 <= n) shape -> Forall pos_step slices -> view_pos_steps view ->
    view_ok shape view = true ->
    slice_state_mask shape slices view = Ok (sh, m) ->
    sh = sel_shape (sel_of shape view) /\
    forall j, in_box sh j -> m j = slices_full_mask shape slices (to_under (sel_of shape view) j).
Proof. exact Discharge.slice_state_view_closed. Qed.
Print Assumptions slice_state_view_closed.

Theorem slice_state_full_closed :
  forall shape slices sh m,
    Forall (fun n => 0 <= n) shape -> Forall pos_step slices ->
    slice_state_mask shape slices [] = Ok (sh, m) ->
    sh = shape /\ forall j, in_box shape j -> m j = slices_full_mask shape slices j.
Proof. exact Discharge.slice_state_full_closed. Qed.
Print Assumptions slice_state_full_closed.
