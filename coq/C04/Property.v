From Coq Require Import ZArith QArith Qabs List Bool.
Import ListNotations.
From GV Require Import Common.PyInt gen.Gen_array gen.Gen_viewprog C04.Model C04.Lemmas C04.Discharge C04.Lemmas2 C04.Lemmas3 gen.Gen_axiscorr C04.Lemmas4.
Open Scope Z_scope.

(* SliceSubsetState.to_mask(data, view) = SliceSubsetState.to_mask(data)[view], pointwise and with the same shape,
   for every basic view (integers incl. negative ones, positive-step slices, shorter tuples, the empty tuple).
   The exactness of the translated combine_slices is the explicit first premise (combine_slices_exact_hyp, proved under C20). *)
Theorem slice_state_view :
  (forall v s n r, 0 <= n -> pos_step v -> pos_step s ->
      combine_slices v s n = Ok r ->
      forall k, 0 <= k < zlen (slice_elems v n) ->
        mem k (slice_elems (mk_slice3 r) (zlen (slice_elems v n))) = mem (nth (Z.to_nat k) (slice_elems v n) 0) (slice_elems s n)) ->
  forall shape slices view sh m,
    Forall (fun n => 0 <= n) shape -> Forall pos_step slices -> view_pos_steps view ->
    view_ok shape view = true ->
    slice_state_mask shape slices view = Ok (sh, m) ->
    sh = sel_shape (sel_of shape view) /\
    forall j, in_box sh j -> m j = slices_full_mask shape slices (to_under (sel_of shape view) j).
Proof. exact Lemmas.slice_state_view. Qed.
Print Assumptions slice_state_view.

(* ... and without a view the model is the full-size mask (mask[slices] = True) itself *)
Theorem slice_state_full :
  (forall v s n r, 0 <= n -> pos_step v -> pos_step s ->
      combine_slices v s n = Ok r ->
      forall k, 0 <= k < zlen (slice_elems v n) ->
        mem k (slice_elems (mk_slice3 r) (zlen (slice_elems v n))) = mem (nth (Z.to_nat k) (slice_elems v n) 0) (slice_elems s n)) ->
  forall shape slices sh m,
    Forall (fun n => 0 <= n) shape -> Forall pos_step slices ->
    slice_state_mask shape slices [] = Ok (sh, m) ->
    sh = shape /\ forall j, in_box shape j -> m j = slices_full_mask shape slices j.
Proof. exact Lemmas.slice_state_full. Qed.
Print Assumptions slice_state_full.

(* The pixel-space ROI shortcut (evaluate on the slab [0:1] of the axes the ROI does not name, broadcast back) gives,
   for every element of every view, the ROI predicate at the pixel coordinates of that element; the generic path is
   used when the view removes a dimension. *)
Theorem roi_shortcut_view :
  forall (own : bool) (P : list Z -> bool) shape axis_ids view,
    Forall (fun a => 0 <= a) axis_ids ->
    fst (roi_pixel_mask own P shape axis_ids view) = sel_shape (sel_of shape view) /\
    forall j, snd (roi_pixel_mask own P shape axis_ids view) j = P (roi_coords axis_ids (to_under (sel_of shape view) j)).
Proof. exact Lemmas.roi_shortcut_view. Qed.
Print Assumptions roi_shortcut_view.

(* World coordinates: if the dependent-axis set covers the true dependencies of the world function, every element of
   every view is the world function at the pixel coordinates of that element, with the shape of the view. *)
Theorem world_view :
  forall (A : Type) (W : list Z -> A) shape dep view,
    (forall c, W (zero_nondep dep 0 c) = W c) ->
    fst (world_calculate A W shape dep view) = sel_shape (sel_of shape view) /\
    forall j, snd (world_calculate A W shape dep view) j = W (to_under (sel_of shape view) j).
Proof. exact Lemmas.world_view. Qed.
Print Assumptions world_view.

(* IndexedData: reading the parent with the translated view is reading (parent[indices])[view], element by element and
   with the same shape; the translation is a function of the current indices only, so this also holds after they are reassigned. *)
Theorem indexed_view :
  forall pshape indices view,
    Forall (fun n => 0 <= n) pshape -> indices_ok pshape indices ->
    view_pos_steps view -> view_ok (reduced_shape pshape indices) view = true ->
    sel_shape (sel_of pshape (indices_view indices)) = reduced_shape pshape indices /\
    sel_shape (sel_of pshape (to_original_view indices view)) = sel_shape (sel_of (reduced_shape pshape indices) view) /\
    forall j, in_box (sel_shape (sel_of (reduced_shape pshape indices) view)) j ->
      to_under (sel_of pshape (to_original_view indices view)) j =
      to_under (sel_of pshape (indices_view indices)) (to_under (sel_of (reduced_shape pshape indices) view) j).
Proof. exact Lemmas.indexed_view. Qed.
Print Assumptions indexed_view.

(* The combine_slices premise of slice_state_view / slice_state_full is discharged by C20's proof over the translated
   code (C20.CombineProof.combine_core, via C04.Discharge): the premise itself, and the two theorems without it. *)
Theorem combine_slices_premise_holds :
  forall v s n r, 0 <= n -> pos_step v -> pos_step s ->
    combine_slices v s n = Ok r ->
    forall k, 0 <= k < zlen (slice_elems v n) ->
      mem k (slice_elems (mk_slice3 r) (zlen (slice_elems v n))) = mem (nth (Z.to_nat k) (slice_elems v n) 0) (slice_elems s n).
Proof. exact Discharge.combine_slices_premise_holds. Qed.
Print Assumptions combine_slices_premise_holds.

Theorem slice_state_view_closed :
  forall shape slices view sh m,
    Forall (fun n => 0 <= n) shape -> Forall pos_step slices -> view_pos_steps view ->
    view_ok shape view = true ->
    slice_state_mask shape slices view = Ok (sh, m) ->
    sh = sel_shape (sel_of shape view) /\
    forall j, in_box sh j -> m j = slices_full_mask shape slices (to_under (sel_of shape view) j).
Proof. exact Discharge.slice_state_view_closed. Qed.
Print Assumptions slice_state_view_closed.

Theorem slice_state_full_closed :
  forall shape slices sh m,
    Forall (fun n => 0 <= n) shape -> Forall pos_step slices ->
    slice_state_mask shape slices [] = Ok (sh, m) ->
    sh = shape /\ forall j, in_box shape j -> m j = slices_full_mask shape slices j.
Proof. exact Discharge.slice_state_full_closed. Qed.
Print Assumptions slice_state_full_closed.

(* ---- round 4: leaves that are functions of the WHOLE array (ParsedSubsetState / ParsedComponentLink expressions with
   reductions and position-dependent functions), evaluation order, codes of categorical views.
   An array is its row-major value list; a view of any kind (basic, index arrays, boolean mask, IndexedData's implicit
   view) is the list `pos` of flat positions it selects; in_range n pos: every position is inside the array.
   The model of ParsedSubsetState.to_mask(data, view) is parsed_mask_view: evaluate on the whole array, apply the view
   afterwards. *)

(* "view of mask = mask of view" holds for a parsed leaf exactly under the predicate `belementwise`: pushing the view
   inside the expression (every {x} read through the view) gives the view of the full mask ... *)
Theorem parsed_view_pushdown_elementwise :
  forall e, belementwise e = true ->
  forall xs pos, in_range (length xs) pos -> parsed_mask_pushdown e xs pos = parsed_mask_view e xs pos.
Proof. exact Lemmas2.elementwise_mask_pushdown. Qed.
Print Assumptions parsed_view_pushdown_elementwise.

(* ... the same for the values of a derived attribute defined by an expression (ParsedComponentLink) ... *)
Theorem parsed_values_pushdown_elementwise :
  forall e, aelementwise e = true ->
  forall xs pos, in_range (length xs) pos -> parsed_values_pushdown e xs pos = parsed_values_view e xs pos.
Proof. exact Lemmas2.elementwise_values_pushdown. Qed.
Print Assumptions parsed_values_pushdown_elementwise.

(* ... and it is wrong for a leaf that is not element-wise ("above the average" on [1; 2; 30] under the view [0:2]).
   Full statement that does NOT hold:  forall e xs pos, in_range (length xs) pos -> parsed_mask_pushdown e xs pos = parsed_mask_view e xs pos.
   The code pushes the view inside for EVERY ParsedComponentLink (known finding parsed-link-whole-array-view). *)
Theorem parsed_pushdown_refuted :
  exists e xs pos, in_range (length xs) pos /\ belementwise e = false /\ parsed_mask_pushdown e xs pos <> parsed_mask_view e xs pos.
Proof. exact Lemmas2.pushdown_refuted. Qed.
Print Assumptions parsed_pushdown_refuted.

(* every primitive whole-array construct of the expression language has such a witness *)
Theorem parsed_pushdown_refuted_each :
  Forall (fun e => aelementwise e = false /\
                   exists xs pos, in_range (length xs) pos /\ parsed_values_pushdown e xs pos <> parsed_values_view e xs pos)
         [ASum AX; AMax AX; AMin AX; ASize; AArange; ACumsum AX; ARoll 1 AX].
Proof. exact Lemmas2.pushdown_refuted_each. Qed.
Print Assumptions parsed_pushdown_refuted_each.

(* Evaluation order. Trivial because the model is a pure function without hidden state, and stated for that reason: the
   answer to a request does not depend on the requests made before or after it on the same array. The correspondence
   compares the implementation under both orders (view first on a fresh twin / full first) with this one answer. *)
Theorem session_order_independent :
  forall Q A (answer : Q -> A) (pre post : list Q) (r : Q) (d : A),
    nth (length pre) (session answer (pre ++ r :: post)) d = answer r.
Proof. exact Lemmas2.session_order_independent. Qed.
Print Assumptions session_order_independent.

Theorem parsed_view_first_eq_full_first :
  forall e xs pos,
    nth 0 (session (parsed_answer e xs) [RView pos; RFull]) [] = nth 1 (session (parsed_answer e xs) [RFull; RView pos]) [] /\
    nth 1 (session (parsed_answer e xs) [RView pos; RFull]) [] = nth 0 (session (parsed_answer e xs) [RFull; RView pos]) [] /\
    nth 0 (session (parsed_answer e xs) [RView pos; RFull]) [] = gather false pos (nth 1 (session (parsed_answer e xs) [RView pos; RFull]) []).
Proof. exact Lemmas2.parsed_view_first_eq_full_first. Qed.
Print Assumptions parsed_view_first_eq_full_first.

(* Categorical attributes: a view that inherits the categories of its parent (categorical_ndarray.__array_finalize__) and
   looks its labels up in them has the parent's categories and exactly the view of the parent's codes ... *)
Theorem categorical_view_codes :
  forall l pos, in_range (length l) pos ->
    fst (cat_view pos l) = fst (cat_full l) /\ snd (cat_view pos l) = gather 0 pos (snd (cat_full l)).
Proof. exact Lemmas2.categorical_view_codes. Qed.
Print Assumptions categorical_view_codes.

(* ... whichever of the two is asked for first ... *)
Theorem categorical_view_first_eq_full_first :
  forall l pos, in_range (length l) pos ->
    let a := session (cat_answer l) [RView pos; RFull] in
    let b := session (cat_answer l) [RFull; RView pos] in
    nth 0 a ([], []) = nth 1 b ([], []) /\ nth 1 a ([], []) = nth 0 b ([], []) /\
    snd (nth 0 a ([], [])) = gather 0 pos (snd (nth 1 a ([], []))) /\ fst (nth 0 a ([], [])) = fst (nth 1 a ([], [])).
Proof. exact Lemmas2.categorical_view_first_eq_full_first. Qed.
Print Assumptions categorical_view_first_eq_full_first.

(* ... whereas a view that derives the categories from the labels it contains numbers them differently (['a'; 'b'] under [1:]) *)
Theorem categorical_recompute_refuted :
  exists l pos, in_range (length l) pos /\ snd (cat_view_recomputed pos l) <> gather 0 pos (snd (cat_full l)).
Proof. exact Lemmas2.categorical_recompute_refuted. Qed.
Print Assumptions categorical_recompute_refuted.

(* ---- the three functions are TRANSLATED from the current source (tools/gen/gen_viewprog.py -> coq/gen/Gen_viewprog.v, fail-closed);
   the translated programs, run by the interpreters of Model.v (which is what run_case runs), are the model of the theorems above. *)
Theorem gen_to_mask_is_view_of_full :
  forall e xs,
    gen_mask to_mask_prog e xs None = Some (beval e xs) /\
    forall pos, gen_mask to_mask_prog e xs (Some pos) = Some (parsed_mask_view e xs pos).
Proof. exact Lemmas2.gen_to_mask_is_view_of_full. Qed.
Print Assumptions gen_to_mask_is_view_of_full.

Theorem gen_link_compute_elementwise :
  forall e xs, aelementwise e = true ->
    gen_values link_compute_prog e xs None = Some (aeval e xs) /\
    forall pos, in_range (length xs) pos -> gen_values link_compute_prog e xs (Some pos) = Some (parsed_values_view e xs pos).
Proof. exact Lemmas2.gen_link_compute_elementwise. Qed.
Print Assumptions gen_link_compute_elementwise.

Theorem gen_link_compute_pushdown_or_view :
  forall e xs pos,
    gen_values link_compute_prog e xs (Some pos) = Some (parsed_values_pushdown e xs pos) \/
    gen_values link_compute_prog e xs (Some pos) = Some (parsed_values_view e xs pos).
Proof. exact Lemmas2.gen_link_compute_pushdown_or_view. Qed.
Print Assumptions gen_link_compute_pushdown_or_view.

Theorem gen_finalize_inherits :
  forall warm pos l, gen_cat_view finalize_prog warm pos l = cat_view pos l.
Proof. exact Lemmas2.gen_finalize_inherits. Qed.
Print Assumptions gen_finalize_inherits.

(* ---- for BASIC views the positions are computed by the model (basic_positions: sel_of / to_under / flat_index, the same
   definitions the fast-path theorems above are about) and lie inside the array, so nothing is left to assume: *)
Theorem basic_view_positions_in_range :
  forall shape view n,
    Forall (fun k => 0 <= k) shape -> view_pos_steps view -> view_ok shape view = true ->
    Z.of_nat n = zprod shape ->
    in_range n (basic_positions shape view).
Proof. exact Lemmas3.basic_view_positions_in_range. Qed.
Print Assumptions basic_view_positions_in_range.

Theorem parsed_view_pushdown_elementwise_basic :
  forall e shape view xs,
    belementwise e = true ->
    Forall (fun k => 0 <= k) shape -> view_pos_steps view -> view_ok shape view = true -> zlen xs = zprod shape ->
    parsed_mask_pushdown e xs (basic_positions shape view) = parsed_mask_view e xs (basic_positions shape view).
Proof. exact Lemmas3.elementwise_mask_pushdown_basic. Qed.
Print Assumptions parsed_view_pushdown_elementwise_basic.

Theorem categorical_view_codes_basic :
  forall shape view l,
    Forall (fun k => 0 <= k) shape -> view_pos_steps view -> view_ok shape view = true -> zlen l = zprod shape ->
    fst (cat_view (basic_positions shape view) l) = fst (cat_full l) /\
    snd (cat_view (basic_positions shape view) l) = gather 0 (basic_positions shape view) (snd (cat_full l)).
Proof. exact Lemmas3.categorical_view_codes_basic. Qed.
Print Assumptions categorical_view_codes_basic.

(* ---------- round 5: the covering-dependent-axes hypothesis of world_view made checkable for AffineCoordinates ---------- *)

(* The TRANSLATED body of AffineCoordinates.axis_correlation_matrix declares a dependence exactly for the non-zero entries
   (no tolerance, whatever the magnitude) of exactly M[:-1, :-1]. *)
Theorem gen_axis_corr_entry_exact :
  forall x : Q, axis_corr_entry x = negb (Qeq_bool x 0).
Proof. exact Lemmas4.gen_axis_corr_entry_exact. Qed.
Print Assumptions gen_axis_corr_entry_exact.

Theorem gen_axis_corr_entry_nonzero :
  forall x : Q, axis_corr_entry x = true <-> ~ (x == 0)%Q.
Proof. exact Lemmas4.gen_axis_corr_entry_nonzero. Qed.
Print Assumptions gen_axis_corr_entry_nonzero.

Theorem gen_axis_corr_submatrix_is :
  forall M, axis_corr_submatrix M = map (fun r => removelast r) (removelast M).
Proof. exact Lemmas4.gen_axis_corr_submatrix_is. Qed.
Print Assumptions gen_axis_corr_submatrix_is.

(* The TRANSLATED dependent_axes is: reverse both axes, graph = identity | matrix | transpose, start from row `axis`,
   n rounds of "everything reachable in one step", indices of the set bits; (axis,) for LegacyCoordinates. *)
Theorem gen_dependent_axes_closed :
  forall corr axis, run_dep dependent_axes_prog false corr axis = Some (dep_closed corr axis).
Proof. exact Lemmas4.gen_dependent_axes_closed. Qed.
Print Assumptions gen_dependent_axes_closed.

(* The dependent axes COMPUTED from the matrix cover the true dependencies of the affine world function: the hypothesis of
   world_view holds for every matrix over Q, whatever the magnitude of its entries. *)
Theorem affine_dep_covers :
  forall M axis, affine_rect M ->
  forall c, affine_world M axis (zero_nondep (affine_dep M axis) 0 c) = affine_world M axis c.
Proof. exact Lemmas4.affine_dep_covers. Qed.
Print Assumptions affine_dep_covers.

(* world_view instantiated: no hypothesis about dep is left *)
Theorem affine_world_view :
  forall M axis shape view, affine_rect M ->
  fst (world_calculate Q (affine_world M axis) shape (affine_dep M axis) view) = sel_shape (sel_of shape view) /\
  forall j, snd (world_calculate Q (affine_world M axis) shape (affine_dep M axis) view) j
            = affine_world M axis (to_under (sel_of shape view) j).
Proof. exact Lemmas4.affine_world_view. Qed.
Print Assumptions affine_world_view.

(* Both layers of the fast path (_calculate zeroes the axes outside dependent_axes; pixel2world_single_axis replaces the axes
   outside the row of the correlation matrix by the first pixel of the request), both computed from M by the translated code:
   every element of every view is the world function at that element's pixel coordinates, with the shape of the view. *)
Theorem affine_world_view2 :
  forall M axis shape view, affine_rect M ->
  fst (world_calculate2 Q (affine_world M axis) shape (affine_dep M axis) (affine_rowdep M axis) view) = sel_shape (sel_of shape view) /\
  forall j, snd (world_calculate2 Q (affine_world M axis) shape (affine_dep M axis) (affine_rowdep M axis) view) j
            = affine_world M axis (to_under (sel_of shape view) j).
Proof. exact Lemmas4.affine_world_view2. Qed.
Print Assumptions affine_world_view2.

(* With a tolerance (np.isclose: |x| <= 1e-8 is "zero") an axis with a non-zero entry of 1e-10 is dropped and a view not
   starting at pixel 0 is wrong. *)
Theorem affine_rowdep_tolerance_refuted :
  exists M axis shape view j,
    affine_rect M /\
    snd (world_calculate2 Q (affine_world M axis) shape (affine_dep_with isclose_zero_entry M axis)
                          (affine_rowdep_with isclose_zero_entry M axis) view) j
    <> affine_world M axis (to_under (sel_of shape view) j).
Proof. exact Lemmas4.affine_rowdep_tolerance_refuted. Qed.
Print Assumptions affine_rowdep_tolerance_refuted.

(* ... and any dep that misses an axis with a non-zero (however small) entry gives a wrong value. *)
Theorem affine_dep_drop_refuted :
  exists M axis shape view j dep,
    (exists i, ~ (nth i (nth axis (affine_linear M) []) 0%Q == 0)%Q /\ mem (Z.of_nat i) dep = false) /\
    snd (world_calculate Q (affine_world M axis) shape dep view) j <> affine_world M axis (to_under (sel_of shape view) j).
Proof. exact Lemmas4.affine_dep_drop_refuted. Qed.
Print Assumptions affine_dep_drop_refuted.
