(* C04 -- discharge of the combine_slices premise of slice_state_view / slice_state_full.
   The premise (exactness of the machine-translated Gen_array.combine_slices, pointwise membership form)
   follows from C20.CombineProof.combine_core, which is proved over the translated code itself. *)
From Coq Require Import ZArith List Bool Lia.
Import ListNotations.
From GV Require Import Common.PyInt gen.Gen_array C04.Model C04.Lemmas.
From GV Require C20.CombineProof.
Open Scope Z_scope.

(* C04.Lemmas.pos_step and C20.CombineProof.pos_step are two constants with the same body *)
Lemma pos_step_equiv : forall s, C04.Lemmas.pos_step s <-> C20.CombineProof.pos_step s.
Proof. intros s. unfold C04.Lemmas.pos_step, C20.CombineProof.pos_step. tauto. Qed.

Lemma mem_true_iff : forall x l, mem x l = true <-> In x l.
Proof.
  intros x l. unfold mem. rewrite existsb_exists. split.
  - intros (y & Hy & E). apply Z.eqb_eq in E. subst y. exact Hy.
  - intros H. exists x. split; [exact H | apply Z.eqb_refl].
Qed.

Lemma bool_eq_iff : forall a b : bool, (a = true <-> b = true) -> a = b.
Proof.
  intros [|] [|] [H1 H2]; try reflexivity.
  - symmetry. apply H1. reflexivity.
  - apply H2. reflexivity.
Qed.

Theorem combine_slices_premise_holds :
  forall v s n r, 0 <= n -> pos_step v -> pos_step s ->
    combine_slices v s n = Ok r ->
    forall k, 0 <= k < zlen (slice_elems v n) ->
      mem k (slice_elems (mk_slice3 r) (zlen (slice_elems v n))) = mem (nth (Z.to_nat k) (slice_elems v n) 0) (slice_elems s n).
Proof.
  intros v s n r Hn Hv Hs Hr k Hk.
  apply pos_step_equiv in Hv. apply pos_step_equiv in Hs.
  destruct (CombineProof.slice_indices_pos v n Hv) as (b1 & e1 & k1 & E1 & Hk1).
  destruct (CombineProof.slice_indices_pos s n Hs) as (b2 & e2 & k2 & E2 & Hk2).
  destruct (CombineProof.combine_core v s n b1 e1 k1 b2 e2 k2 E1 E2 Hk1 Hk2)
    as (a & b & c & Hcomb & Ha & Hb & Hc & Hmem).
  rewrite Hcomb in Hr. injection Hr as <-.
  assert (HV1 : slice_elems v n = py_range b1 e1 k1) by (unfold slice_elems; rewrite E1; reflexivity).
  assert (HV2 : slice_elems s n = py_range b2 e2 k2) by (unfold slice_elems; rewrite E2; reflexivity).
  rewrite HV1, HV2 in *. rewrite CombineProof.zlen_py_range in *.
  rewrite CombineProof.slice_elems_mk3 by assumption.
  assert (Hnth : nth (Z.to_nat k) (py_range b1 e1 k1) 0 = b1 + k * k1).
  { rewrite <- (CombineProof.znth_py_range b1 e1 k1 k Hk). unfold znth.
    destruct (k <? 0) eqn:E; [lia | reflexivity]. }
  rewrite Hnth.
  assert (Hlt : b1 + k * k1 < e1) by (apply CombineProof.range_len_lt; lia).
  apply bool_eq_iff. rewrite !mem_true_iff. split.
  - intros Hi.
    assert (Hcm : CombineProof.common b1 e1 k1 b2 e2 k2 (b1 + k * k1))
      by (apply Hmem; exists k; split; [exact Hi | reflexivity]).
    destruct Hcm as (_ & H2 & _ & H4).
    apply CombineProof.In_py_range; [exact Hk2|]. split; assumption.
  - intros Hy. apply CombineProof.In_py_range in Hy; [|exact Hk2]. destruct Hy as [H2 H4].
    assert (Hcm : CombineProof.common b1 e1 k1 b2 e2 k2 (b1 + k * k1)).
    { unfold CombineProof.common. repeat split; try lia; try assumption.
      exists k. lia. }
    apply Hmem in Hcm. destruct Hcm as (i & Hi & Heq).
    assert (i = k) by nia. subst i. exact Hi.
Qed.

(* the two C04 theorems with the premise removed *)
Theorem slice_state_view_closed :
  forall shape slices view sh m,
    Forall (fun n => 0 <= n) shape -> Forall pos_step slices -> view_pos_steps view ->
    view_ok shape view = true ->
    slice_state_mask shape slices view = Ok (sh, m) ->
    sh = sel_shape (sel_of shape view) /\
    forall j, in_box sh j -> m j = slices_full_mask shape slices (to_under (sel_of shape view) j).
Proof. exact (C04.Lemmas.slice_state_view combine_slices_premise_holds). Qed.

Theorem slice_state_full_closed :
  forall shape slices sh m,
    Forall (fun n => 0 <= n) shape -> Forall pos_step slices ->
    slice_state_mask shape slices [] = Ok (sh, m) ->
    sh = shape /\ forall j, in_box shape j -> m j = slices_full_mask shape slices j.
Proof. exact (C04.Lemmas.slice_state_full combine_slices_premise_holds). Qed.

Print Assumptions combine_slices_premise_holds.
Print Assumptions slice_state_view_closed.
Print Assumptions slice_state_full_closed.
