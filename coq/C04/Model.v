(* C04 — executable model of the hand-written view fast paths:
     slice_state_mask     SliceSubsetState.to_mask              (glue/core/subset.py)
     roi_pixel_shortcut   RoiSubsetStateNd.to_mask, pixel space (glue/core/subset.py)
     world_calculate      CoordinateComponent._calculate        (glue/core/component.py)
     indexed_view         IndexedData._to_original_view         (glue/core/data_derived.py)
   Definitions only; proofs in Lemmas.v.

   Views are basic Numpy views: a list, possibly shorter than the number of axes, of integers
   and slices (None / Ellipsis / () are the empty list). *)
From Coq Require Import ZArith List Bool.
Import ListNotations.
From GV Require Import Common.Wire Common.PyInt gen.Gen_array.
Open Scope Z_scope.

Inductive ventry := VInt (i : Z) | VSlice (s : slice).

(* what a view does to one axis: fix a position (the axis disappears) or select positions *)
Inductive axis_sel := Fixed (p : Z) | Positions (l : list Z).

Definition range0 (n : Z) : list Z := py_range 0 n 1.
Definition norm_index (i n : Z) : Z := if i <? 0 then i + n else i.

Fixpoint sel_of (shape : list Z) (view : list ventry) : list axis_sel :=
  match shape with
  | [] => []
  | n :: shape' =>
    match view with
    | [] => Positions (range0 n) :: sel_of shape' []
    | VInt i :: view' => Fixed (norm_index i n) :: sel_of shape' view'
    | VSlice s :: view' => Positions (slice_elems s n) :: sel_of shape' view'
    end
  end.

Fixpoint sel_shape (sels : list axis_sel) : list Z :=
  match sels with
  | [] => []
  | Fixed _ :: r => sel_shape r
  | Positions l :: r => zlen l :: sel_shape r
  end.

(* index in the full array of element j of the viewed array *)
Fixpoint to_under (sels : list axis_sel) (j : list Z) : list Z :=
  match sels with
  | [] => []
  | Fixed p :: r => p :: to_under r j
  | Positions l :: r =>
    match j with
    | i :: j' => nth (Z.to_nat i) l 0 :: to_under r j'
    | [] => []
    end
  end.

(* integers must be in range (Numpy raises IndexError otherwise); at most ndim entries *)
Fixpoint view_ok (shape : list Z) (view : list ventry) : bool :=
  match view, shape with
  | [], _ => true
  | _ :: _, [] => false
  | VInt i :: v', n :: s' => (- n <=? i) && (i <? n) && view_ok s' v'
  | VSlice _ :: v', _ :: s' => view_ok s' v'
  end.

Fixpoint prod_idx (axes : list (list Z)) : list (list Z) :=
  match axes with
  | [] => [[]]
  | p :: rest => flat_map (fun i => map (cons i) (prod_idx rest)) p
  end.
Definition box (sh : list Z) : list (list Z) := prod_idx (map range0 sh).

Definition mem (x : Z) (l : list Z) : bool := existsb (Z.eqb x) l.

(* ---------- SliceSubsetState.to_mask ---------- *)

Definition full_slice : slice := Slice None None None.

(* the slices of the state, padded with slice(None) (SliceSubsetState._pad_slices) *)
Definition hd_slice (l : list slice) : slice := match l with [] => full_slice | s :: _ => s end.

(* subslices: None = a scalar entry of the view falls outside the slices -> the mask is all False *)
Fixpoint subslices (shape : list Z) (slices : list slice) (view : list ventry) : result (option (list slice)) :=
  match shape with
  | [] => Ok (Some [])
  | n :: shape' =>
    let s := hd_slice slices in
    match view with
    | [] =>
      match subslices shape' (tl slices) [] with
      | Ok (Some r) => Ok (Some (s :: r))
      | other => other
      end
    | VInt i :: view' =>
      match slice_indices s n with
      | None => Err ValueError
      | Some (beg, end_, stp) =>
        let index := norm_index i n in
        if (index <? beg) || (index >=? end_) || negb ((index - beg) mod stp =? 0)
        then Ok None
        else subslices shape' (tl slices) view'
      end
    | VSlice v :: view' =>
      match combine_slices v s n with
      | Err e => Err e
      | Ok r =>
        match subslices shape' (tl slices) view' with
        | Ok (Some rest) => Ok (Some (mk_slice3 r :: rest))
        | other => other
        end
      end
    end
  end.

(* mask = zeros(shape); mask[tuple(subslices)] = True *)
Fixpoint set_by_slices (sh : list Z) (subs : list slice) (j : list Z) : bool :=
  match sh, subs, j with
  | n :: sh', s :: subs', i :: j' => mem i (slice_elems s n) && set_by_slices sh' subs' j'
  | _, _, _ => true
  end.

Definition slice_state_mask (shape : list Z) (slices : list slice) (view : list ventry)
  : result (list Z * (list Z -> bool)) :=
  let sh := sel_shape (sel_of shape view) in
  match subslices shape slices view with
  | Err e => Err e
  | Ok None => Ok (sh, fun _ => false)
  | Ok (Some subs) => Ok (sh, set_by_slices sh subs)
  end.

(* the full-size mask: mask[tuple(slices)] = True on the whole array *)
Fixpoint slices_full_mask (shape : list Z) (slices : list slice) (i : list Z) : bool :=
  match shape, i with
  | n :: shape', x :: i' => mem x (slice_elems (hd_slice slices) n) && slices_full_mask shape' (tl slices) i'
  | _, _ => true
  end.

(* ---------- RoiSubsetStateNd.to_mask in pixel space ---------- *)

Definition has_int (view : list ventry) : bool := existsb (fun e => match e with VInt _ => true | _ => false end) view.

(* coordinates handed to the ROI: those of the axes it names *)
Definition roi_coords (axis_ids : list Z) (c : list Z) : list Z := map (fun a => nth (Z.to_nat a) c 0) axis_ids.

(* the slab: element 0 along every axis the ROI does not name *)
Fixpoint collapse (axis_ids : list Z) (k : Z) (j : list Z) : list Z :=
  match j with
  | [] => []
  | i :: j' => (if mem k axis_ids then i else 0) :: collapse axis_ids (k + 1) j'
  end.

(* own = every attribute of the ROI is a pixel component ID of THIS dataset (att in data.pixel_component_ids);
   pixel IDs of another, linked dataset are evaluated generically: their att.axis is an axis of the other dataset *)
Definition roi_pixel_mask (own : bool) (P : list Z -> bool) (shape : list Z) (axis_ids : list Z) (view : list ventry)
  : list Z * (list Z -> bool) :=
  let sels := sel_of shape view in
  let sh := sel_shape sels in
  if has_int view || negb own then
    (* the view removes a dimension: generic evaluation on every element *)
    (sh, fun j => P (roi_coords axis_ids (to_under sels j)))
  else
    (* evaluate on the slab [0:1] of the other axes, then broadcast back *)
    (sh, fun j => P (roi_coords axis_ids (to_under sels (collapse axis_ids 0 j)))).

(* ---------- CoordinateComponent._calculate (world) ---------- *)

(* pixel coordinates at which the world function is evaluated for element j of the result:
   axes outside dep are replaced by 0 (computed once, broadcast later) *)
Fixpoint zero_nondep (dep : list Z) (k : Z) (c : list Z) : list Z :=
  match c with
  | [] => []
  | x :: c' => (if mem k dep then x else 0) :: zero_nondep dep (k + 1) c'
  end.

(* optimised path (every entry of the view is a scalar or a slice): per axis pix_coord = arange(n)[view[i]],
   final_shape = the lengths of the non-scalar ones, final_slice drops the scalar ones *)
Definition world_calculate (A : Type) (W : list Z -> A) (shape : list Z) (dep : list Z) (view : list ventry)
  : list Z * (list Z -> A) :=
  let sels := sel_of shape view in
  (sel_shape sels, fun j => W (zero_nondep dep 0 (to_under sels j))).

(* ---------- IndexedData._to_original_view ---------- *)

(* indices: Some i = the dimension is removed at index i ; None = kept *)
Fixpoint to_original_view (indices : list (option Z)) (view : list ventry) : list ventry :=
  match indices with
  | [] => []
  | Some i :: r => VInt i :: to_original_view r view
  | None :: r =>
    match view with
    | [] => VSlice full_slice :: to_original_view r []
    | e :: view' => e :: to_original_view r view'
    end
  end.

Definition indices_view (indices : list (option Z)) : list ventry :=
  map (fun o => match o with Some i => VInt i | None => VSlice full_slice end) indices.

(* ---------- wire ---------- *)
Definition dec_slice (t : tree) : slice :=
  Slice (opt_z (kid 0 t)) (opt_z (kid 1 t)) (opt_z (kid 2 t)).
Definition dec_ventry (t : tree) : ventry :=
  match t with T 1 (T i _ :: _) => VInt i | _ => VSlice (dec_slice t) end.
Definition dec_view (t : tree) : list ventry := map dec_ventry (kids t).
Definition dec_optz (t : tree) : option Z := opt_z t.

Fixpoint flat_index (shape i : list Z) : Z :=
  match shape, i with
  | n :: s', j :: i' => j * zprod s' + flat_index s' i'
  | _, _ => 0
  end.

Definition nthb (l : list bool) (k : Z) : bool := nth (Z.to_nat k) l false.

Definition enc_mask (r : list Z * (list Z -> bool)) : tree :=
  let '(sh, m) := r in T 1 [zs sh; bools (map m (box sh))].

Definition run_case (t : tree) : tree :=
  match t with
  (* SliceSubsetState.to_mask(data, view) *)
  | T 1 [sh; T _ sl; vw] =>
      let shape := to_zs sh in
      if negb (view_ok shape (dec_view vw)) then err IndexError else
      match slice_state_mask shape (map dec_slice sl) (dec_view vw) with
      | Err e => err e
      | Ok r => enc_mask r
      end
  (* RoiSubsetState on pixel axes: table = roi.contains on the grid of the named axes (row-major over them) *)
  | T 2 [sh; ax; tsh; tb; vw; T own _] =>
      let shape := to_zs sh in
      if negb (view_ok shape (dec_view vw)) then err IndexError else
      let P := fun c => nthb (to_bools tb) (flat_index (to_zs tsh) c) in
      enc_mask (roi_pixel_mask (negb (own =? 0)) P shape (to_zs ax) (dec_view vw))
  (* world component: returns for every element the pixel tuple the world function is evaluated at *)
  | T 3 [sh; dep; vw] =>
      let shape := to_zs sh in
      if negb (view_ok shape (dec_view vw)) then err IndexError else
      let '(osh, f) := world_calculate (list Z) (fun c => c) shape (to_zs dep) (dec_view vw) in
      T 1 [zs osh; T 0 (map (fun j => zs (f j)) (box osh))]
  (* IndexedData: the element of the parent read for every element of indexed[view] *)
  | T 4 [sh; T _ idx; vw] =>
      let shape := to_zs sh in
      let indices := map dec_optz idx in
      let ov := to_original_view indices (dec_view vw) in
      if negb (view_ok shape ov) then err IndexError else
      let sels := sel_of shape ov in
      T 1 [zs (sel_shape sels); zs (map (fun j => flat_index shape (to_under sels j)) (box (sel_shape sels)))]
  | _ => err (-2)
  end.
