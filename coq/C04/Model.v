(* C04 — executable model of the hand-written view fast paths:
     slice_state_mask     SliceSubsetState.to_mask              (glue/core/subset.py)
     roi_pixel_shortcut   RoiSubsetStateNd.to_mask, pixel space (glue/core/subset.py)
     world_calculate      CoordinateComponent._calculate        (glue/core/component.py)
     indexed_view         IndexedData._to_original_view         (glue/core/data_derived.py)
   Definitions only; proofs in Lemmas.v.

   Views are basic Numpy views: a list, possibly shorter than the number of axes, of integers
   and slices (None / Ellipsis / () are the empty list). *)
From Coq Require Import ZArith QArith Qabs List Bool.
Import ListNotations.
From GV Require Import Common.Wire Common.PyInt gen.Gen_array gen.Gen_viewprog gen.Gen_axiscorr.
Open Scope Z_scope.

Inductive ventry := VInt (i : Z) | VSlice (s : slice).

(* what a view does to one axis: fix a position (the axis disappears) or select positions *)
Inductive axis_sel := Fixed (p : Z) | Positions (l : list Z).

Definition range0 (n : Z) : list Z := py_range 0 n 1.
Definition norm_index (i n : Z) : Z := if i <? 0 then i + n else i.

Fixpoint sel_of (shape : list Z) (view : list ventry) : list axis_sel :=
  match shape with
  | [] => []
  | n :: shape' =>
    match view with
    | [] => Positions (range0 n) :: sel_of shape' []
    | VInt i :: view' => Fixed (norm_index i n) :: sel_of shape' view'
    | VSlice s :: view' => Positions (slice_elems s n) :: sel_of shape' view'
    end
  end.

Fixpoint sel_shape (sels : list axis_sel) : list Z :=
  match sels with
  | [] => []
  | Fixed _ :: r => sel_shape r
  | Positions l :: r => zlen l :: sel_shape r
  end.

(* index in the full array of element j of the viewed array *)
Fixpoint to_under (sels : list axis_sel) (j : list Z) : list Z :=
  match sels with
  | [] => []
  | Fixed p :: r => p :: to_under r j
  | Positions l :: r =>
    match j with
    | i :: j' => nth (Z.to_nat i) l 0 :: to_under r j'
    | [] => []
    end
  end.

(* integers must be in range (Numpy raises IndexError otherwise); at most ndim entries *)
Fixpoint view_ok (shape : list Z) (view : list ventry) : bool :=
  match view, shape with
  | [], _ => true
  | _ :: _, [] => false
  | VInt i :: v', n :: s' => (- n <=? i) && (i <? n) && view_ok s' v'
  | VSlice _ :: v', _ :: s' => view_ok s' v'
  end.

Fixpoint prod_idx (axes : list (list Z)) : list (list Z) :=
  match axes with
  | [] => [[]]
  | p :: rest => flat_map (fun i => map (cons i) (prod_idx rest)) p
  end.
Definition box (sh : list Z) : list (list Z) := prod_idx (map range0 sh).

Definition mem (x : Z) (l : list Z) : bool := existsb (Z.eqb x) l.

(* ---------- SliceSubsetState.to_mask ---------- *)

Definition full_slice : slice := Slice None None None.

(* the slices of the state, padded with slice(None) (SliceSubsetState._pad_slices) *)
Definition hd_slice (l : list slice) : slice := match l with [] => full_slice | s :: _ => s end.

(* subslices: None = a scalar entry of the view falls outside the slices -> the mask is all False *)
Fixpoint subslices (shape : list Z) (slices : list slice) (view : list ventry) : result (option (list slice)) :=
  match shape with
  | [] => Ok (Some [])
  | n :: shape' =>
    let s := hd_slice slices in
    match view with
    | [] =>
      match subslices shape' (tl slices) [] with
      | Ok (Some r) => Ok (Some (s :: r))
      | other => other
      end
    | VInt i :: view' =>
      match slice_indices s n with
      | None => Err ValueError
      | Some (beg, end_, stp) =>
        let index := norm_index i n in
        if (index <? beg) || (index >=? end_) || negb ((index - beg) mod stp =? 0)
        then Ok None
        else subslices shape' (tl slices) view'
      end
    | VSlice v :: view' =>
      match combine_slices v s n with
      | Err e => Err e
      | Ok r =>
        match subslices shape' (tl slices) view' with
        | Ok (Some rest) => Ok (Some (mk_slice3 r :: rest))
        | other => other
        end
      end
    end
  end.

(* mask = zeros(shape); mask[tuple(subslices)] = True *)
Fixpoint set_by_slices (sh : list Z) (subs : list slice) (j : list Z) : bool :=
  match sh, subs, j with
  | n :: sh', s :: subs', i :: j' => mem i (slice_elems s n) && set_by_slices sh' subs' j'
  | _, _, _ => true
  end.

Definition slice_state_mask (shape : list Z) (slices : list slice) (view : list ventry)
  : result (list Z * (list Z -> bool)) :=
  let sh := sel_shape (sel_of shape view) in
  match subslices shape slices view with
  | Err e => Err e
  | Ok None => Ok (sh, fun _ => false)
  | Ok (Some subs) => Ok (sh, set_by_slices sh subs)
  end.

(* the full-size mask: mask[tuple(slices)] = True on the whole array *)
Fixpoint slices_full_mask (shape : list Z) (slices : list slice) (i : list Z) : bool :=
  match shape, i with
  | n :: shape', x :: i' => mem x (slice_elems (hd_slice slices) n) && slices_full_mask shape' (tl slices) i'
  | _, _ => true
  end.

(* ---------- RoiSubsetStateNd.to_mask in pixel space ---------- *)

Definition has_int (view : list ventry) : bool := existsb (fun e => match e with VInt _ => true | _ => false end) view.

(* coordinates handed to the ROI: those of the axes it names *)
Definition roi_coords (axis_ids : list Z) (c : list Z) : list Z := map (fun a => nth (Z.to_nat a) c 0) axis_ids.

(* the slab: element 0 along every axis the ROI does not name *)
Fixpoint collapse (axis_ids : list Z) (k : Z) (j : list Z) : list Z :=
  match j with
  | [] => []
  | i :: j' => (if mem k axis_ids then i else 0) :: collapse axis_ids (k + 1) j'
  end.

(* own = every attribute of the ROI is a pixel component ID of THIS dataset (att in data.pixel_component_ids);
   pixel IDs of another, linked dataset are evaluated generically: their att.axis is an axis of the other dataset *)
Definition roi_pixel_mask (own : bool) (P : list Z -> bool) (shape : list Z) (axis_ids : list Z) (view : list ventry)
  : list Z * (list Z -> bool) :=
  let sels := sel_of shape view in
  let sh := sel_shape sels in
  if has_int view || negb own then
    (* the view removes a dimension: generic evaluation on every element *)
    (sh, fun j => P (roi_coords axis_ids (to_under sels j)))
  else
    (* evaluate on the slab [0:1] of the other axes, then broadcast back *)
    (sh, fun j => P (roi_coords axis_ids (to_under sels (collapse axis_ids 0 j)))).

(* ---------- CoordinateComponent._calculate (world) ---------- *)

(* pixel coordinates at which the world function is evaluated for element j of the result:
   axes outside dep are replaced by 0 (computed once, broadcast later) *)
Fixpoint zero_nondep (dep : list Z) (k : Z) (c : list Z) : list Z :=
  match c with
  | [] => []
  | x :: c' => (if mem k dep then x else 0) :: zero_nondep dep (k + 1) c'
  end.

(* optimised path (every entry of the view is a scalar or a slice): per axis pix_coord = arange(n)[view[i]],
   final_shape = the lengths of the non-scalar ones, final_slice drops the scalar ones *)
Definition world_calculate (A : Type) (W : list Z -> A) (shape : list Z) (dep : list Z) (view : list ventry)
  : list Z * (list Z -> A) :=
  let sels := sel_of shape view in
  (sel_shape sels, fun j => W (zero_nondep dep 0 (to_under sels j))).

(* ---------- IndexedData._to_original_view ---------- *)

(* indices: Some i = the dimension is removed at index i ; None = kept *)
Fixpoint to_original_view (indices : list (option Z)) (view : list ventry) : list ventry :=
  match indices with
  | [] => []
  | Some i :: r => VInt i :: to_original_view r view
  | None :: r =>
    match view with
    | [] => VSlice full_slice :: to_original_view r []
    | e :: view' => e :: to_original_view r view'
    end
  end.

Definition indices_view (indices : list (option Z)) : list ventry :=
  map (fun o => match o with Some i => VInt i | None => VSlice full_slice end) indices.

(* ---------- whole-array leaves: ParsedSubsetState / ParsedComponentLink (glue/core/parse.py) ---------- *)

(* An array is its row-major list of values; a view (of ANY kind: basic, index arrays, boolean mask, the implicit view
   of an IndexedData) is the list of flat positions it selects, in the order of the result. *)
Definition gather {A} (d : A) (pos : list Z) (l : list A) : list A := map (fun i => nth (Z.to_nat i) l d) pos.

Fixpoint map2 {A B C} (f : A -> B -> C) (l1 : list A) (l2 : list B) : list C :=
  match l1, l2 with
  | a :: r1, b :: r2 => f a b :: map2 f r1 r2
  | _, _ => []
  end.

(* expressions over one referenced attribute {x}; a scalar is broadcast to the size of the array *)
Inductive aexpr :=
| AX                              (* {x} *)
| AConst (c : Z)
| AArange                         (* np.arange({x}.size).reshape({x}.shape) : position-dependent *)
| ASize                           (* {x}.size *)
| ASum (a : aexpr)                (* np.sum(a) *)
| AMax (a : aexpr)                (* np.max(a) *)
| AMin (a : aexpr)                (* np.min(a) *)
| ACumsum (a : aexpr)             (* np.cumsum(a).reshape(np.shape(a)) *)
| ARoll (k : Z) (a : aexpr)       (* np.roll(a, k) *)
| AAdd (a b : aexpr) | ASub (a b : aexpr) | AMul (a b : aexpr).

Inductive bexpr :=
| BGt (a b : aexpr) | BGe (a b : aexpr) | BEq (a b : aexpr)
| BAnd (p q : bexpr) | BOr (p q : bexpr) | BNot (p : bexpr).

Definition zsum (l : list Z) : Z := fold_right Z.add 0 l.
Definition zmax (l : list Z) : Z := match l with [] => 0 | x :: r => fold_right Z.max x r end.
Definition zmin (l : list Z) : Z := match l with [] => 0 | x :: r => fold_right Z.min x r end.
Fixpoint cumsum (acc : Z) (l : list Z) : list Z :=
  match l with [] => [] | x :: r => (acc + x) :: cumsum (acc + x) r end.
(* np.roll: result[i] = a[(i - k) mod n] *)
Definition roll (k : Z) (l : list Z) : list Z :=
  map (fun i => nth (Z.to_nat ((Z.of_nat i - k) mod zlen l)) l 0) (seq 0 (length l)).

Fixpoint aeval (e : aexpr) (xs : list Z) : list Z :=
  let n := length xs in
  match e with
  | AX => xs
  | AConst c => repeat c n
  | AArange => map Z.of_nat (seq 0 n)
  | ASize => repeat (Z.of_nat n) n
  | ASum a => repeat (zsum (aeval a xs)) n
  | AMax a => repeat (zmax (aeval a xs)) n
  | AMin a => repeat (zmin (aeval a xs)) n
  | ACumsum a => cumsum 0 (aeval a xs)
  | ARoll k a => roll k (aeval a xs)
  | AAdd a b => map2 Z.add (aeval a xs) (aeval b xs)
  | ASub a b => map2 Z.sub (aeval a xs) (aeval b xs)
  | AMul a b => map2 Z.mul (aeval a xs) (aeval b xs)
  end.

Fixpoint beval (e : bexpr) (xs : list Z) : list bool :=
  match e with
  | BGt a b => map2 Z.gtb (aeval a xs) (aeval b xs)
  | BGe a b => map2 Z.geb (aeval a xs) (aeval b xs)
  | BEq a b => map2 Z.eqb (aeval a xs) (aeval b xs)
  | BAnd p q => map2 andb (beval p xs) (beval q xs)
  | BOr p q => map2 orb (beval p xs) (beval q xs)
  | BNot p => map negb (beval p xs)
  end.

(* element-wise: the value at a position depends on the referenced value at that position only *)
Fixpoint aelementwise (e : aexpr) : bool :=
  match e with
  | AX | AConst _ => true
  | AAdd a b | ASub a b | AMul a b => aelementwise a && aelementwise b
  | _ => false
  end.
Fixpoint belementwise (e : bexpr) : bool :=
  match e with
  | BGt a b | BGe a b | BEq a b => aelementwise a && aelementwise b
  | BAnd p q | BOr p q => belementwise p && belementwise q
  | BNot p => belementwise p
  end.

(* ParsedSubsetState.to_mask(data, view): the leaf is a function of the WHOLE array, the view is applied afterwards *)
Definition parsed_mask_view (e : bexpr) (xs : list Z) (pos : list Z) : list bool := gather false pos (beval e xs).
(* pushing the view inside (every {x} read as data[x, view]): what ParsedComponentLink.compute does for derived attributes *)
Definition parsed_mask_pushdown (e : bexpr) (xs : list Z) (pos : list Z) : list bool := beval e (gather 0 pos xs).
Definition parsed_values_view (e : aexpr) (xs : list Z) (pos : list Z) : list Z := gather 0 pos (aeval e xs).
Definition parsed_values_pushdown (e : aexpr) (xs : list Z) (pos : list Z) : list Z := aeval e (gather 0 pos xs).

(* a model request and a session of requests against the same array: the model has no hidden state, the answers are a map *)
Inductive request := RFull | RView (pos : list Z).
Definition session {Q A} (answer : Q -> A) (rs : list Q) : list A := map answer rs.
Definition parsed_answer (e : bexpr) (xs : list Z) (r : request) : list bool :=
  match r with RFull => beval e xs | RView pos => parsed_mask_view e xs pos end.

(* ---------- categorical attributes: categories and codes (glue/utils/array.py categorical_ndarray) ---------- *)

Fixpoint insert_sorted (x : Z) (l : list Z) : list Z :=
  match l with
  | [] => [x]
  | y :: r => if x <? y then x :: l else if x =? y then l else y :: insert_sorted x r
  end.
(* unique(): the sorted distinct labels *)
Definition cat_unique (l : list Z) : list Z := fold_right insert_sorted [] l.
Fixpoint index_of (x : Z) (cats : list Z) : Z :=
  match cats with
  | [] => -1
  | c :: r => if x =? c then 0 else let k := index_of x r in if k <? 0 then -1 else 1 + k
  end.
(* index_lookup(data, categories) *)
Definition index_lookup (l cats : list Z) : list Z := map (fun x => index_of x cats) l.

Definition cat_full (l : list Z) : list Z * list Z := (cat_unique l, index_lookup l (cat_unique l)).
(* a view inherits the categories of its parent (__array_finalize__) and looks its own labels up in them *)
Definition cat_view (pos : list Z) (l : list Z) : list Z * list Z :=
  (cat_unique l, index_lookup (gather 0 pos l) (cat_unique l)).
(* a view that does NOT inherit them derives categories from the labels it contains *)
Definition cat_view_recomputed (pos : list Z) (l : list Z) : list Z * list Z := cat_full (gather 0 pos l).
Definition cat_answer (l : list Z) (r : request) : list Z * list Z :=
  match r with RFull => cat_full l | RView pos => cat_view pos l end.

(* ---------- the translated view code (coq/gen/Gen_viewprog.v, regenerated from glue on every run) ---------- *)

Definition venv (A : Type) := list (nat * A).
Fixpoint vlookup {A} (env : venv A) (k : nat) : option A :=
  match env with
  | [] => None
  | (n, a) :: r => if Nat.eqb n k then Some a else vlookup r k
  end.

(* full = evaluate(data); pushed = evaluate(data, view); index = Some (fun r => r[view]) when a view is given, None when view is None *)
Fixpoint veval {A} (full pushed : A) (index : option (A -> A)) (env : venv A) (e : vexpr) : option A :=
  match e with
  | VEvalFull => Some full
  | VEvalView => Some pushed
  | VVar k => vlookup env k
  | VIndexView e' =>
      match index, veval full pushed index env e' with
      | Some f, Some a => Some (f a)
      | _, _ => None
      end
  end.

(* the environment after the statement and the returned value, if any; None = an error (unknown name, r[None]) *)
Fixpoint vexec {A} (full pushed : A) (index : option (A -> A)) (s : vstmt) (env : venv A) : option (venv A * option A) :=
  match s with
  | VSkip => Some (env, None)
  | VAssign k e => match veval full pushed index env e with Some a => Some ((k, a) :: env, None) | None => None end
  | VReturn e => match veval full pushed index env e with Some a => Some (env, Some a) | None => None end
  | VIfViewNotNone body => match index with Some _ => vexec full pushed index body env | None => Some (env, None) end
  | VSeq a b =>
      match vexec full pushed index a env with
      | Some (env', None) => vexec full pushed index b env'
      | other => other
      end
  end.
Definition vrun {A} (full pushed : A) (index : option (A -> A)) (s : vstmt) : option A :=
  match vexec full pushed index s [] with Some (_, Some a) => Some a | _ => None end.

(* a translated to_mask / compute on the expression e, the array xs and view = None | Some positions *)
Definition gen_mask (prog : vstmt) (e : bexpr) (xs : list Z) (view : option (list Z)) : option (list bool) :=
  match view with
  | None => vrun (beval e xs) (beval e xs) None prog
  | Some pos => vrun (beval e xs) (parsed_mask_pushdown e xs pos) (Some (gather false pos)) prog
  end.
Definition gen_values (prog : vstmt) (e : aexpr) (xs : list Z) (view : option (list Z)) : option (list Z) :=
  match view with
  | None => vrun (aeval e xs) (aeval e xs) None prog
  | Some pos => vrun (aeval e xs) (parsed_values_pushdown e xs pos) (Some (gather 0 pos)) prog
  end.

(* a categorical array: its labels and the categories it has stored (_categories), if any *)
Record carr := { c_labels : list Z; c_cats : option (list Z) }.
(* the `categories` property: what is stored, otherwise computed from the labels *)
Definition get_categories (a : carr) : list Z := match c_cats a with Some c => c | None => cat_unique (c_labels a) end.
Fixpoint fcond_eval (c : fcond) (is_cat : bool) (obj : carr) : bool :=
  match c with
  | FIsCategorical => is_cat
  | FHasCategories => match c_cats obj with Some _ => true | None => false end
  | FAnd a b => fcond_eval a is_cat obj && fcond_eval b is_cat obj
  | FOr a b => fcond_eval a is_cat obj || fcond_eval b is_cat obj
  | FNot a => negb (fcond_eval a is_cat obj)
  end.
(* the categories stored in a new view after __array_finalize__(self, obj) *)
Fixpoint fexec (s : fstmt) (is_cat : bool) (obj : carr) (cur : option (list Z)) : option (list Z) :=
  match s with
  | FSkip => cur
  | FSetCategories FCategoriesProperty => Some (get_categories obj)
  | FSetCategories FCategoriesRaw => c_cats obj
  | FIf c body => if fcond_eval c is_cat obj then fexec body is_cat obj cur else cur
  | FSeq a b => fexec b is_cat obj (fexec a is_cat obj cur)
  end.
(* categories and codes of the view `pos` of a column l whose categories have (warm) / have not (cold) been looked up before *)
Definition gen_cat_view (prog : fstmt) (warm : bool) (pos l : list Z) : list Z * list Z :=
  let parent := {| c_labels := l; c_cats := if warm then Some (cat_unique l) else None |} in
  let v := {| c_labels := gather 0 pos l; c_cats := fexec prog true parent None |} in
  (get_categories v, index_lookup (c_labels v) (get_categories v)).

(* ---------- wire ---------- *)
Definition dec_slice (t : tree) : slice :=
  Slice (opt_z (kid 0 t)) (opt_z (kid 1 t)) (opt_z (kid 2 t)).
Definition dec_ventry (t : tree) : ventry :=
  match t with T 1 (T i _ :: _) => VInt i | _ => VSlice (dec_slice t) end.
Definition dec_view (t : tree) : list ventry := map dec_ventry (kids t).
Definition dec_optz (t : tree) : option Z := opt_z t.

Fixpoint flat_index (shape i : list Z) : Z :=
  match shape, i with
  | n :: s', j :: i' => j * zprod s' + flat_index s' i'
  | _, _ => 0
  end.

Definition nthb (l : list bool) (k : Z) : bool := nth (Z.to_nat k) l false.

Fixpoint dec_aexpr (t : tree) : aexpr :=
  match t with
  | T 1 [T c _] => AConst c
  | T 2 _ => AArange
  | T 3 _ => ASize
  | T 4 [a] => ASum (dec_aexpr a)
  | T 5 [a] => AMax (dec_aexpr a)
  | T 6 [a] => ACumsum (dec_aexpr a)
  | T 7 [T k _; a] => ARoll k (dec_aexpr a)
  | T 8 [a; b] => AAdd (dec_aexpr a) (dec_aexpr b)
  | T 9 [a; b] => ASub (dec_aexpr a) (dec_aexpr b)
  | T 10 [a; b] => AMul (dec_aexpr a) (dec_aexpr b)
  | T 12 [a] => AMin (dec_aexpr a)
  | _ => AX
  end.
Fixpoint dec_bexpr (t : tree) : bexpr :=
  match t with
  | T 1 [a; b] => BGe (dec_aexpr a) (dec_aexpr b)
  | T 2 [a; b] => BEq (dec_aexpr a) (dec_aexpr b)
  | T 3 [p; q] => BAnd (dec_bexpr p) (dec_bexpr q)
  | T 4 [p; q] => BOr (dec_bexpr p) (dec_bexpr q)
  | T 5 [p] => BNot (dec_bexpr p)
  | T _ [a; b] => BGt (dec_aexpr a) (dec_aexpr b)
  | _ => BGt AX AX
  end.

(* a view on the wire: T 0 entries = a basic view (positions computed here with sel_of / to_under);
   T 1 [result shape; flat positions] = any other view, positions supplied (numpy's own indexing of arange(size)) *)
(* the flat (row-major) positions a basic view selects, in the order of the result *)
Definition basic_positions (shape : list Z) (view : list ventry) : list Z :=
  let sels := sel_of shape view in
  map (fun j => flat_index shape (to_under sels j)) (box (sel_shape sels)).

Definition positions_of (shape : list Z) (t : tree) : option (list Z * list Z) :=
  match t with
  | T 1 [rsh; pos] => Some (to_zs rsh, to_zs pos)
  | T 0 _ =>
      let view := dec_view t in
      if negb (view_ok shape view) then None else
      Some (sel_shape (sel_of shape view), basic_positions shape view)
  | _ => None
  end.

Definition enc_mask (r : list Z * (list Z -> bool)) : tree :=
  let '(sh, m) := r in T 1 [zs sh; bools (map m (box sh))].

(* ---------- round 5: a concrete affine world function, its dependent axes computed from the matrix ---------- *)
(* AffineCoordinates(M): M is the (nd+1) x (nd+1) matrix over Q in glue's (x, y, z) order, last row (0 .. 0 1).
   The dependent axes are NOT an input here: they are computed from M by the TRANSLATED entry predicate
   (Gen_axiscorr.axis_corr_entry, on Gen_axiscorr.axis_corr_submatrix) and the TRANSLATED dependent_axes program. *)

Definition mat_get (m : list (list bool)) (i j : nat) : bool := nth j (nth i m []) false.
Definition mat_rows (m : list (list bool)) : nat := length m.
Definition mat_cols (m : list (list bool)) : nat := length (hd [] m).
Definition graph_identity : nat -> nat -> bool := Nat.eqb.
Definition graph_or_matrix (m : list (list bool)) (g : nat -> nat -> bool) : nat -> nat -> bool :=
  fun i j => g i j || ((i <? mat_rows m)%nat && (j <? mat_cols m)%nat && mat_get m i j).
Definition graph_or_transpose (g : nat -> nat -> bool) : nat -> nat -> bool := fun i j => g i j || g j i.
(* graph[dep].any(axis=0): column j is set when some selected row has it set *)
Definition dep_step (n : nat) (g : nat -> nat -> bool) (dep : nat -> bool) : nat -> bool :=
  fun j => existsb (fun i => dep i && g i j) (seq 0 n).
Definition dep_nonzero (n : nat) (dep : nat -> bool) : list Z := map Z.of_nat (filter dep (seq 0 n)).

Record dstate := DState { ds_mat : list (list bool); ds_n : nat; ds_graph : nat -> nat -> bool; ds_dep : nat -> bool;
                          ds_ret : option (list Z) }.

Definition exec_loop (n : nat) (g : nat -> nat -> bool) (s : dloop) (dep : nat -> bool) : nat -> bool :=
  match s with LDepStep => dep_step n g dep end.

(* corr = wcs.axis_correlation_matrix ; legacy = isinstance(wcs, LegacyCoordinates) *)
Definition exec_dstmt (legacy : bool) (corr : list (list bool)) (axis : nat) (s : dstmt) (st : dstate) : dstate :=
  match ds_ret st with
  | Some _ => st
  | None =>
    match s with
    | DLegacyReturnAxis => if legacy then DState (ds_mat st) (ds_n st) (ds_graph st) (ds_dep st) (Some [Z.of_nat axis]) else st
    | DMatrix rr rc =>
        let m1 := if rc then map (@rev bool) corr else corr in
        DState (if rr then rev m1 else m1) (ds_n st) (ds_graph st) (ds_dep st) None
    | DN => DState (ds_mat st) (Nat.max (mat_rows (ds_mat st)) (mat_cols (ds_mat st))) (ds_graph st) (ds_dep st) None
    | DGraphIdentity => DState (ds_mat st) (ds_n st) graph_identity (ds_dep st) None
    | DGraphOrMatrix => DState (ds_mat st) (ds_n st) (graph_or_matrix (ds_mat st) (ds_graph st)) (ds_dep st) None
    | DGraphOrTranspose => DState (ds_mat st) (ds_n st) (graph_or_transpose (ds_graph st)) (ds_dep st) None
    | DDepRow => DState (ds_mat st) (ds_n st) (ds_graph st) (ds_graph st axis) None
    | DLoopN body =>
        DState (ds_mat st) (ds_n st) (ds_graph st)
               (Nat.iter (ds_n st) (fun dep => fold_left (fun d s' => exec_loop (ds_n st) (ds_graph st) s' d) body dep) (ds_dep st)) None
    | DReturnNonzero => DState (ds_mat st) (ds_n st) (ds_graph st) (ds_dep st) (Some (dep_nonzero (ds_n st) (ds_dep st)))
    end
  end.

Definition run_dep (prog : list dstmt) (legacy : bool) (corr : list (list bool)) (axis : nat) : option (list Z) :=
  ds_ret (fold_left (fun st s => exec_dstmt legacy corr axis s st) prog
                    (DState [] 0 (fun _ _ => false) (fun _ => false) None)).

(* dependent_axes(AffineCoordinates(M), axis) with an arbitrary entry predicate (the translated one below) *)
Definition affine_dep_with (entry : Q -> bool) (M : list (list Q)) (axis : nat) : list Z :=
  match run_dep dependent_axes_prog false (map (map entry) (axis_corr_submatrix M)) axis with
  | Some l => l
  | None => []
  end.
Definition affine_dep (M : list (list Q)) (axis : nat) : list Z := affine_dep_with axis_corr_entry M axis.

(* the world coordinate of numpy axis `axis` at the pixel c (numpy order): row nd-1-axis of M applied to (x, y, z, 1);
   with both axes of M[:-1, :-1] reversed that is row `axis` applied to c, plus the offset of that row *)
Fixpoint dotq (r : list Q) (c : list Z) : Q :=
  match r, c with
  | x :: r', y :: c' => (x * inject_Z y + dotq r' c')%Q
  | _, _ => 0%Q
  end.
Definition affine_linear (M : list (list Q)) : list (list Q) := rev (map (@rev Q) (map (fun r => removelast r) (removelast M))).
Definition affine_offsets (M : list (list Q)) : list Q := rev (map (fun r => last r 0%Q) (removelast M)).
Definition affine_world (M : list (list Q)) (axis : nat) (c : list Z) : Q :=
  Qred (dotq (nth axis (affine_linear M) []) c + nth axis (affine_offsets M) 0%Q).

(* pixel2world_single_axis (glue/core/coordinate_helpers.py), called by _calculate on the meshgrid of the per-axis pixel coordinates:
   a pixel axis whose entry in row `world_axis` of wcs.axis_correlation_matrix is not set is replaced by p.flat[0], the
   coordinate of the FIRST element of the request, and broadcast.  rd k = that entry for numpy axis k. *)
Fixpoint keep_rowdep (rd : nat -> bool) (k : nat) (c c0 : list Z) : list Z :=
  match c, c0 with
  | x :: c', x0 :: c0' => (if rd k then x else x0) :: keep_rowdep rd (S k) c' c0'
  | _, _ => c
  end.
Definition world_calculate2 (A : Type) (W : list Z -> A) (shape : list Z) (dep : list Z) (rd : nat -> bool) (view : list ventry)
  : list Z * (list Z -> A) :=
  let sels := sel_of shape view in
  let first := zero_nondep dep 0 (to_under sels (map (fun _ => 0) (sel_shape sels))) in
  (sel_shape sels, fun j => W (keep_rowdep rd 0 (zero_nondep dep 0 (to_under sels j)) first)).
Definition affine_rowdep_with (entry : Q -> bool) (M : list (list Q)) (axis : nat) : nat -> bool :=
  mat_get (rev (map (@rev bool) (map (map entry) (axis_corr_submatrix M)))) axis.
Definition affine_rowdep (M : list (list Q)) (axis : nat) : nat -> bool := affine_rowdep_with axis_corr_entry M axis.

(* what np.isclose(x, 0) with numpy's default tolerances calls "zero": |x| <= 1e-8 (a dep computed with it drops genuinely small scales) *)
Definition isclose_zero_entry (x : Q) : bool := negb (Qle_bool (Qabs x) (1 # 100000000)).

Definition dec_q (t : tree) : Q :=
  match t with
  | T _ [T n _; T d _] => Qmake n (Z.to_pos d)
  | _ => 0%Q
  end.
Definition enc_q (q : Q) : tree := T 0 [leaf (Qnum q); leaf (Zpos (Qden q))].

Definition run_case (t : tree) : tree :=
  match t with
  (* SliceSubsetState.to_mask(data, view) *)
  | T 1 [sh; T _ sl; vw] =>
      let shape := to_zs sh in
      if negb (view_ok shape (dec_view vw)) then err IndexError else
      match slice_state_mask shape (map dec_slice sl) (dec_view vw) with
      | Err e => err e
      | Ok r => enc_mask r
      end
  (* RoiSubsetState on pixel axes: table = roi.contains on the grid of the named axes (row-major over them) *)
  | T 2 [sh; ax; tsh; tb; vw; T own _] =>
      let shape := to_zs sh in
      if negb (view_ok shape (dec_view vw)) then err IndexError else
      let P := fun c => nthb (to_bools tb) (flat_index (to_zs tsh) c) in
      enc_mask (roi_pixel_mask (negb (own =? 0)) P shape (to_zs ax) (dec_view vw))
  (* world component: returns for every element the pixel tuple the world function is evaluated at *)
  | T 3 [sh; dep; vw] =>
      let shape := to_zs sh in
      if negb (view_ok shape (dec_view vw)) then err IndexError else
      let '(osh, f) := world_calculate (list Z) (fun c => c) shape (to_zs dep) (dec_view vw) in
      T 1 [zs osh; T 0 (map (fun j => zs (f j)) (box osh))]
  (* IndexedData: the element of the parent read for every element of indexed[view] *)
  | T 4 [sh; T _ idx; vw] =>
      let shape := to_zs sh in
      let indices := map dec_optz idx in
      let ov := to_original_view indices (dec_view vw) in
      if negb (view_ok shape ov) then err IndexError else
      let sels := sel_of shape ov in
      T 1 [zs (sel_shape sels); zs (map (fun j => flat_index shape (to_under sels j)) (box (sel_shape sels)))]
  (* categorical attribute: categories and codes of the full column (T 2 []) / of a view, through the TRANSLATED __array_finalize__;
     warm = the categories of the column had been looked up before the view was taken (full-first) or not (view-first) *)
  | T 5 [sh; lab; vw; T warm _] =>
      match vw with
      | T 2 _ => let '(cats, codes) := cat_full (to_zs lab) in T 1 [sh; zs codes; zs cats]
      | _ =>
        match positions_of (to_zs sh) vw with
        | None => err IndexError
        | Some (rsh, pos) =>
            let '(cats, codes) := gen_cat_view finalize_prog (negb (warm =? 0)) pos (to_zs lab) in T 1 [zs rsh; zs codes; zs cats]
        end
      end
  (* ParsedSubsetState.to_mask(data, view), the TRANSLATED function; T 2 [] = view is None *)
  | T 6 [sh; xs; be; vw] =>
      match vw with
      | T 2 _ => match gen_mask to_mask_prog (dec_bexpr be) (to_zs xs) None with Some m => T 1 [sh; bools m] | None => err TypeError end
      | _ =>
        match positions_of (to_zs sh) vw with
        | None => err IndexError
        | Some (rsh, pos) =>
            match gen_mask to_mask_prog (dec_bexpr be) (to_zs xs) (Some pos) with Some m => T 1 [zs rsh; bools m] | None => err TypeError end
        end
      end
  (* ParsedComponentLink.compute(data, view), the TRANSLATED function *)
  | T 7 [sh; xs; ae; vw] =>
      match vw with
      | T 2 _ => match gen_values link_compute_prog (dec_aexpr ae) (to_zs xs) None with Some m => T 1 [sh; zs m] | None => err TypeError end
      | _ =>
        match positions_of (to_zs sh) vw with
        | None => err IndexError
        | Some (rsh, pos) =>
            match gen_values link_compute_prog (dec_aexpr ae) (to_zs xs) (Some pos) with Some m => T 1 [zs rsh; zs m] | None => err TypeError end
        end
      end
  (* the same attribute as the property demands it: the view of the full evaluation *)
  | T 8 [sh; xs; ae; vw] =>
      match positions_of (to_zs sh) vw with
      | None => err IndexError
      | Some (rsh, pos) => T 1 [zs rsh; zs (parsed_values_view (dec_aexpr ae) (to_zs xs) pos)]
      end
  (* world attribute under AffineCoordinates(M): the values of the view, and the dependent axes computed from M *)
  | T 9 [sh; T _ rows; T axis _; vw] =>
      let shape := to_zs sh in
      if negb (view_ok shape (dec_view vw)) then err IndexError else
      let M := map (fun r => map dec_q (kids r)) rows in
      let a := Z.to_nat axis in
      let dep := affine_dep M a in
      let '(osh, f) := world_calculate2 Q (affine_world M a) shape dep (affine_rowdep M a) (dec_view vw) in
      T 1 [zs osh; T 0 (map (fun j => enc_q (f j)) (box osh)); zs dep]
  | _ => err (-2)
  end.
