(* C04 — proofs: the view fast paths agree with the full evaluation. *)
From Coq Require Import ZArith List Bool Lia ZifyBool.
Import ListNotations.
From GV Require Import Common.PyInt gen.Gen_array C04.Model.
From GV Require Import C10.Lemmas1.     (* py_range facts (In_py_range1, nth_py_range1, ...) *)
Open Scope Z_scope.

(* ---------- ranges, slices ---------- *)

Lemma zlen_range0 : forall n, 0 <= n -> zlen (range0 n) = n.
Proof. intros. unfold zlen, range0. rewrite py_range1_length. lia. Qed.

Lemma nth_range0 : forall n k d, 0 <= k < n -> nth (Z.to_nat k) (range0 n) d = k.
Proof. intros. unfold range0. rewrite nth_py_range1 by lia. lia. Qed.

Lemma mem_true_iff : forall x l, mem x l = true <-> In x l.
Proof.
  intros x l. unfold mem. rewrite existsb_exists. split.
  - intros [y [Hy E]]. apply Z.eqb_eq in E. subst. exact Hy.
  - intros H. exists x. split; [exact H|apply Z.eqb_refl].
Qed.

Lemma range_len_pos_step : forall b e k, 0 < k -> b < e -> range_len b e k = (e - b + k - 1) / k.
Proof.
  intros b e k Hk Hbe. unfold range_len.
  replace (k <=? 0) with false by lia. replace (e <=? b) with false by lia. reflexivity.
Qed.

Lemma range_len_empty : forall b e k, e <= b -> range_len b e k = 0.
Proof. intros b e k H. unfold range_len. destruct (k <=? 0); [reflexivity|]. replace (e <=? b) with true by lia. reflexivity. Qed.

(* membership in range(b, e, k), k > 0 *)
Lemma In_py_range : forall b e k x, 0 < k -> In x (py_range b e k) <-> b <= x < e /\ (x - b) mod k = 0.
Proof.
  intros b e k x Hk. unfold py_range. rewrite in_map_iff. split.
  - intros [j [Ex Hj]]. apply in_seq in Hj.
    destruct (Z_lt_le_dec b e) as [Hbe|Hbe].
    + rewrite range_len_pos_step in Hj by lia.
      assert (Hjz : 0 <= Z.of_nat j < (e - b + k - 1) / k) by lia.
      assert (Hm : k * ((e - b + k - 1) / k) <= e - b + k - 1) by (apply Z.mul_div_le; lia).
      subst x. split; [nia|].
      replace (b + Z.of_nat j * k - b) with (Z.of_nat j * k) by lia. apply Z.mod_mul. lia.
    + rewrite range_len_empty in Hj by lia. simpl in Hj. lia.
  - intros [[Hb He] Hm].
    exists (Z.to_nat ((x - b) / k)).
    assert (Hq : 0 <= (x - b) / k) by (apply Z.div_pos; lia).
    assert (Hx : x - b = k * ((x - b) / k)).
    { pose proof (Z.div_mod (x - b) k ltac:(lia)). lia. }
    split; [lia|]. apply in_seq. rewrite range_len_pos_step by lia.
    assert ((x - b) / k < (e - b + k - 1) / k).
    { replace (e - b + k - 1) with ((e - b - 1) + 1 * k) by lia. rewrite Z.div_add by lia.
      assert ((x - b) / k <= (e - b - 1) / k) by (apply Z.div_le_mono; lia). lia. }
    lia.
Qed.

Definition pos_step (s : slice) : Prop := match sl_step s with None => True | Some k => 0 < k end.

Lemma slice_indices_pos : forall s n, 0 <= n -> pos_step s ->
  exists b e k, slice_indices s n = Some (b, e, k) /\ 0 < k /\ 0 <= b <= n /\ 0 <= e <= n.
Proof.
  intros [st sp sk] n Hn Hs. unfold pos_step in Hs. simpl in Hs.
  unfold slice_indices. simpl sl_step.
  set (k := match sk with None => 1 | Some k => k end).
  assert (Hk : 0 < k) by (unfold k; destruct sk; lia).
  replace (k =? 0) with false by lia. replace (k <? 0) with false by lia. simpl.
  destruct st as [a|], sp as [b|]; simpl;
    repeat (match goal with |- context [if ?c then _ else _] => destruct c eqn:? end);
    eexists; eexists; eexists; (split; [reflexivity|]); lia.
Qed.

(* positions selected by a positive-step slice lie inside the axis *)
Lemma slice_elems_bounds : forall s n x, 0 <= n -> pos_step s -> In x (slice_elems s n) -> 0 <= x < n.
Proof.
  intros s n x Hn Hs Hx. destruct (slice_indices_pos s n Hn Hs) as [b [e [k [E [Hk [Hb He]]]]]].
  unfold slice_elems in Hx. rewrite E in Hx. apply In_py_range in Hx; lia.
Qed.

Lemma slice_elems_full : forall n, 0 <= n -> slice_elems full_slice n = range0 n.
Proof.
  intros n Hn. unfold slice_elems, full_slice, slice_indices. simpl. reflexivity.
Qed.

Lemma nth_In_default : forall (l : list Z) k, 0 <= k < zlen l -> In (nth (Z.to_nat k) l 0) l.
Proof. intros l k H. apply nth_In. unfold zlen in H. lia. Qed.

(* ---------- boxes ---------- *)

Definition in_box (sh : list Z) (c : list Z) : Prop := Forall2 (fun n j => 0 <= j < n) sh c.

Lemma In_prod_idx : forall axes c, In c (prod_idx axes) <-> Forall2 (fun p j => In j p) axes c.
Proof.
  induction axes as [|p axes IH]; intros c; simpl.
  - split.
    + intros [H|[]]. subst c. constructor.
    + intros H. inversion H. left. reflexivity.
  - rewrite in_flat_map. split.
    + intros [i [Hi Hc]]. apply in_map_iff in Hc. destruct Hc as [c' [Hc Hc']]. subst c.
      constructor; [exact Hi|]. apply IH. exact Hc'.
    + intros H. inversion H as [|? j ? c' Hj Hc']; subst. exists j. split; [exact Hj|].
      apply in_map. apply IH. exact Hc'.
Qed.

Lemma In_range0 : forall n x, In x (range0 n) <-> 0 <= x < n.
Proof. intros. unfold range0. apply In_py_range1. Qed.

Lemma In_box_iff : forall sh c, In c (box sh) <-> in_box sh c.
Proof.
  intros sh c. unfold box, in_box. rewrite In_prod_idx.
  revert c. induction sh as [|n sh IH]; intros c; simpl.
  - split; intros H; inversion H; constructor.
  - split; intros H; inversion H as [|? j ? c' Hj Hc']; subst; constructor.
    + apply In_range0. exact Hj.
    + apply IH. exact Hc'.
    + apply In_range0. exact Hj.
    + apply IH. exact Hc'.
Qed.

(* ---------- 1. SliceSubsetState.to_mask ---------- *)
Lemma view_ok_nil : forall shape, view_ok shape [] = true.
Proof. destruct shape; reflexivity. Qed.

Section SliceState.
  (* exactness of the translated combine_slices, taken here as a hypothesis: the positions of the combined
     slice within the view are exactly the view positions that the second slice selects
     (proved separately under C20; see notes/C04.md) *)
  Hypothesis combine_slices_exact_hyp :
    forall v s n r, 0 <= n -> pos_step v -> pos_step s ->
      combine_slices v s n = Ok r ->
      forall k, 0 <= k < zlen (slice_elems v n) ->
        mem k (slice_elems (mk_slice3 r) (zlen (slice_elems v n))) = mem (nth (Z.to_nat k) (slice_elems v n) 0) (slice_elems s n).

  Definition view_pos_steps (view : list ventry) : Prop :=
    Forall (fun e => match e with VInt _ => True | VSlice s => pos_step s end) view.

  Definition mask_of_subs (sh : list Z) (r : option (list slice)) (j : list Z) : bool :=
    match r with None => false | Some subs => set_by_slices sh subs j end.

  Lemma hd_slice_pos : forall slices, Forall pos_step slices -> pos_step (hd_slice slices).
  Proof. intros [|s l] H; simpl; [exact I|]. inversion H; assumption. Qed.

  Lemma tl_pos : forall slices, Forall pos_step slices -> Forall pos_step (tl slices).
  Proof. intros [|s l] H; simpl; [constructor|]. inversion H; assumption. Qed.

  Lemma subslices_spec : forall shape slices view r,
    Forall (fun n => 0 <= n) shape -> Forall pos_step slices -> view_pos_steps view ->
    view_ok shape view = true ->
    subslices shape slices view = Ok r ->
    forall j, in_box (sel_shape (sel_of shape view)) j ->
      mask_of_subs (sel_shape (sel_of shape view)) r j = slices_full_mask shape slices (to_under (sel_of shape view) j).
  Proof.
    induction shape as [|n shape IH]; intros slices view r Hsh Hsl Hv Hok Hr j Hj.
    - simpl in Hr. injection Hr as Hr. subst r. simpl. destruct j; reflexivity.
    - inversion Hsh as [|? ? Hn Hsh']; subst.
      pose proof (hd_slice_pos slices Hsl) as Hs. pose proof (tl_pos slices Hsl) as Hsl'.
      destruct view as [|e view].
      + (* axis not mentioned by the view *)
        simpl in Hr.
        destruct (subslices shape (tl slices) []) as [[rest|]|err] eqn:Er; try discriminate; injection Hr as Hr; subst r;
          simpl sel_of in *; simpl sel_shape in *; rewrite zlen_range0 in * by lia;
          inversion Hj as [|? k ? j' Hk Hj']; subst; simpl to_under; simpl slices_full_mask;
          rewrite nth_range0 by lia;
          pose proof (IH (tl slices) [] _ Hsh' Hsl' (Forall_nil _) (view_ok_nil _) Er j' Hj') as IHr.
        * simpl. simpl in IHr. rewrite IHr. reflexivity.
        * simpl. simpl in IHr. rewrite <- IHr. rewrite andb_false_r. reflexivity.
      + inversion Hv as [|? ? He Hv']; subst.
        destruct e as [i|v].
        * (* integer entry *)
          simpl in Hok. apply andb_true_iff in Hok. destruct Hok as [Hi Hok].
          simpl in Hr.
          destruct (slice_indices_pos (hd_slice slices) n Hn Hs) as [b [en [k [Esi [Hk [Hb Hen]]]]]].
          rewrite Esi in Hr.
          simpl sel_of in *. simpl sel_shape in *. simpl to_under. simpl slices_full_mask.
          assert (Hidx : 0 <= norm_index i n < n) by (unfold norm_index; destruct (i <? 0) eqn:E; lia).
          assert (Hmem : mem (norm_index i n) (slice_elems (hd_slice slices) n) =
                         negb ((norm_index i n <? b) || (norm_index i n >=? en) || negb ((norm_index i n - b) mod k =? 0))).
          { unfold slice_elems. rewrite Esi.
            destruct (mem (norm_index i n) (py_range b en k)) eqn:Em.
            - apply mem_true_iff in Em. apply In_py_range in Em; [|exact Hk]. lia.
            - destruct ((norm_index i n <? b) || (norm_index i n >=? en) || negb ((norm_index i n - b) mod k =? 0)) eqn:Eo; [reflexivity|].
              exfalso. assert (In (norm_index i n) (py_range b en k)) by (apply In_py_range; [exact Hk|lia]).
              apply mem_true_iff in H. congruence. }
          rewrite Hmem.
          destruct ((norm_index i n <? b) || (norm_index i n >=? en) || negb ((norm_index i n - b) mod k =? 0)) eqn:Eo.
          -- injection Hr as Hr. subst r. reflexivity.
          -- simpl. apply (IH (tl slices) view r Hsh' Hsl' Hv' Hok Hr j Hj).
        * (* slice entry *)
          simpl in Hok. simpl in Hr.
          destruct (combine_slices v (hd_slice slices) n) as [r3|err] eqn:Ec; [|discriminate].
          simpl sel_of in *. simpl sel_shape in *.
          inversion Hj as [|? k0 ? j' Hk0 Hj']; subst. simpl to_under. simpl slices_full_mask.
          pose proof (combine_slices_exact_hyp v (hd_slice slices) n r3 Hn He Hs Ec k0 Hk0) as Hex.
          destruct (subslices shape (tl slices) view) as [[rest|]|err] eqn:Er; try discriminate; injection Hr as Hr; subst r;
            pose proof (IH (tl slices) view _ Hsh' Hsl' Hv' Hok Er j' Hj') as IHr.
          -- simpl. simpl in IHr. rewrite Hex, IHr. reflexivity.
          -- simpl. simpl in IHr. rewrite <- IHr. rewrite andb_false_r. reflexivity.
  Qed.

  (* SliceSubsetState.to_mask(data, view) == SliceSubsetState.to_mask(data)[view], pointwise and in shape *)
  Lemma slice_state_view : forall shape slices view sh m,
    Forall (fun n => 0 <= n) shape -> Forall pos_step slices -> view_pos_steps view ->
    view_ok shape view = true ->
    slice_state_mask shape slices view = Ok (sh, m) ->
    sh = sel_shape (sel_of shape view) /\
    forall j, in_box sh j -> m j = slices_full_mask shape slices (to_under (sel_of shape view) j).
  Proof.
    intros shape slices view sh m Hsh Hsl Hv Hok Hm. unfold slice_state_mask in Hm.
    destruct (subslices shape slices view) as [r|err] eqn:Er; [|discriminate].
    pose proof (subslices_spec shape slices view r Hsh Hsl Hv Hok Er) as Hspec.
    destruct r as [subs|]; injection Hm as Hsh' Hm'; subst sh m; (split; [reflexivity|]); intros j Hj; apply (Hspec j Hj).
  Qed.

  (* without a view the model is the full-size mask itself (mask[slices] = True) *)
  Lemma slice_state_full : forall shape slices sh m,
    Forall (fun n => 0 <= n) shape -> Forall pos_step slices ->
    slice_state_mask shape slices [] = Ok (sh, m) ->
    sh = shape /\ forall j, in_box shape j -> m j = slices_full_mask shape slices j.
  Proof.
    intros shape slices sh m Hsh Hsl Hm.
    destruct (slice_state_view shape slices [] sh m Hsh Hsl (Forall_nil _) (view_ok_nil _) Hm) as [E1 E2].
    assert (Eshape : sel_shape (sel_of shape []) = shape).
    { clear -Hsh. induction Hsh as [|n shape Hn Hsh IH]; simpl; [reflexivity|]. rewrite zlen_range0 by lia. rewrite IH. reflexivity. }
    assert (Eund : forall j, in_box shape j -> to_under (sel_of shape []) j = j).
    { clear -Hsh. induction Hsh as [|n shape Hn Hsh IH]; intros j Hj; inversion Hj; subst; simpl; [reflexivity|].
      rewrite nth_range0 by lia. rewrite IH by assumption. reflexivity. }
    rewrite Eshape in E1. split; [exact E1|]. intros j Hj. rewrite E2 by (rewrite E1; exact Hj). rewrite Eund by exact Hj. reflexivity.
  Qed.
End SliceState.

(* ---------- 2. ROI pixel-space shortcut ---------- *)

Definition all_positions (sels : list axis_sel) : Prop :=
  Forall (fun s => match s with Positions _ => True | Fixed _ => False end) sels.

Lemma sel_of_no_int : forall shape view, has_int view = false -> all_positions (sel_of shape view).
Proof.
  induction shape as [|n shape IH]; intros view H; simpl; [constructor|].
  destruct view as [|e view].
  - constructor; [exact I|]. apply IH. reflexivity.
  - unfold has_int in H. simpl in H. destruct e as [i|s]; [discriminate|].
    constructor; [exact I|]. apply IH. exact H.
Qed.

Lemma to_under_collapse : forall sels ids k j a,
  all_positions sels -> k <= a -> mem a ids = true ->
  nth (Z.to_nat (a - k)) (to_under sels (collapse ids k j)) 0 = nth (Z.to_nat (a - k)) (to_under sels j) 0.
Proof.
  induction sels as [|s sels IH]; intros ids k j a Hall Hk Ha; [reflexivity|].
  inversion Hall as [|? ? Hs Hall']; subst. destruct s as [p|l]; [destruct Hs|].
  destruct j as [|i j]; [reflexivity|]. simpl.
  destruct (Z.eq_dec a k) as [E|E].
  - subst a. replace (Z.to_nat (k - k)) with O by lia. simpl. rewrite Ha. reflexivity.
  - replace (Z.to_nat (a - k)) with (S (Z.to_nat (a - (k + 1)))) by lia. simpl.
    apply IH; [exact Hall'|lia|exact Ha].
Qed.

Lemma roi_coords_collapse : forall sels ids j,
  all_positions sels -> Forall (fun a => 0 <= a) ids ->
  roi_coords ids (to_under sels (collapse ids 0 j)) = roi_coords ids (to_under sels j).
Proof.
  intros sels ids j Hall Hids. unfold roi_coords. apply map_ext_in. intros a Ha.
  assert (Ha0 : 0 <= a) by (rewrite Forall_forall in Hids; apply Hids; exact Ha).
  pose proof (to_under_collapse sels ids 0 j a Hall Ha0 (proj2 (mem_true_iff a ids) Ha)) as H.
  replace (a - 0) with a in H by lia. exact H.
Qed.

(* the slab-and-broadcast result equals the ROI evaluated at every element of the view, whenever the view keeps
   the dimensionality; otherwise the generic path is taken *)
Lemma roi_shortcut_view : forall (own : bool) (P : list Z -> bool) shape axis_ids view,
  Forall (fun a => 0 <= a) axis_ids ->
  fst (roi_pixel_mask own P shape axis_ids view) = sel_shape (sel_of shape view) /\
  forall j, snd (roi_pixel_mask own P shape axis_ids view) j = P (roi_coords axis_ids (to_under (sel_of shape view) j)).
Proof.
  intros own P shape ids view Hids. unfold roi_pixel_mask.
  destruct (has_int view) eqn:Ei; simpl; [split; [reflexivity|]; intros j; reflexivity|].
  destruct own; simpl; (split; [reflexivity|]); intros j; [|reflexivity].
  rewrite roi_coords_collapse; [reflexivity|apply sel_of_no_int; exact Ei|exact Hids].
Qed.

(* ---------- 3. world coordinates ---------- *)

Lemma world_view : forall (A : Type) (W : list Z -> A) shape dep view,
  (* the dependent-axis set covers the true dependencies of this world coordinate *)
  (forall c, W (zero_nondep dep 0 c) = W c) ->
  fst (world_calculate A W shape dep view) = sel_shape (sel_of shape view) /\
  forall j, snd (world_calculate A W shape dep view) j = W (to_under (sel_of shape view) j).
Proof.
  intros A W shape dep view Hdep. unfold world_calculate. simpl. split; [reflexivity|].
  intros j. apply Hdep.
Qed.

(* ---------- 4. IndexedData ---------- *)

Fixpoint reduced_shape (pshape : list Z) (indices : list (option Z)) : list Z :=
  match pshape, indices with
  | n :: p', Some _ :: r => reduced_shape p' r
  | n :: p', None :: r => n :: reduced_shape p' r
  | _, _ => []
  end.

Fixpoint indices_ok (pshape : list Z) (indices : list (option Z)) : Prop :=
  match pshape, indices with
  | n :: p', Some i :: r => - n <= i < n /\ indices_ok p' r
  | n :: p', None :: r => indices_ok p' r
  | [], [] => True
  | _, _ => False
  end.

(* parent[to_original_view(view)] == parent[indices][view], pointwise and in shape *)
Lemma indexed_view : forall pshape indices view,
  Forall (fun n => 0 <= n) pshape -> indices_ok pshape indices ->
  view_pos_steps view -> view_ok (reduced_shape pshape indices) view = true ->
  sel_shape (sel_of pshape (indices_view indices)) = reduced_shape pshape indices /\
  sel_shape (sel_of pshape (to_original_view indices view)) = sel_shape (sel_of (reduced_shape pshape indices) view) /\
  forall j, in_box (sel_shape (sel_of (reduced_shape pshape indices) view)) j ->
    to_under (sel_of pshape (to_original_view indices view)) j =
    to_under (sel_of pshape (indices_view indices)) (to_under (sel_of (reduced_shape pshape indices) view) j).
Proof.
  induction pshape as [|n pshape IH]; intros indices view Hsh Hio Hv Hok.
  - destruct indices; simpl in Hio; [|destruct Hio]. simpl. split; [reflexivity|split; [reflexivity|intros j _; reflexivity]].
  - inversion Hsh as [|? ? Hn Hsh']; subst.
    destruct indices as [|[i|] indices]; simpl in Hio; try destruct Hio.
    + (* removed dimension *)
      destruct (IH indices view Hsh' H0 Hv Hok) as [I1 [I2 I3]].
      simpl. repeat split; [exact I1|exact I2|]. intros j Hj. rewrite (I3 j Hj). reflexivity.
    + (* kept dimension *)
      simpl reduced_shape in *. simpl indices_view. simpl to_original_view.
      destruct view as [|e view].
      * destruct (IH indices [] Hsh' Hio (Forall_nil _) (view_ok_nil _)) as [I1 [I2 I3]].
        simpl sel_of. rewrite slice_elems_full by lia. simpl sel_shape. rewrite zlen_range0 by lia.
        repeat split; [rewrite I1; reflexivity|rewrite I2; reflexivity|].
        intros j Hj. inversion Hj as [|? k ? j' Hk Hj']; subst. simpl to_under.
        rewrite (I3 j' Hj'). rewrite !nth_range0 by lia. reflexivity.
      * inversion Hv as [|? ? He Hv']; subst. destruct e as [k|s].
        -- simpl in Hok. apply andb_true_iff in Hok. destruct Hok as [Hk Hok].
           destruct (IH indices view Hsh' Hio Hv' Hok) as [I1 [I2 I3]].
           simpl sel_of. rewrite slice_elems_full by lia. simpl sel_shape. rewrite zlen_range0 by lia.
           repeat split; [rewrite I1; reflexivity|exact I2|].
           intros j Hj. simpl to_under. rewrite (I3 j Hj).
           assert (Hidx : 0 <= norm_index k n < n) by (unfold norm_index; destruct (k <? 0) eqn:E; lia).
           rewrite nth_range0 by lia. reflexivity.
        -- simpl in Hok.
           destruct (IH indices view Hsh' Hio Hv' Hok) as [I1 [I2 I3]].
           simpl sel_of. rewrite slice_elems_full by lia. simpl sel_shape. rewrite zlen_range0 by lia.
           repeat split; [rewrite I1; reflexivity|rewrite I2; reflexivity|].
           intros j Hj. inversion Hj as [|? k ? j' Hk Hj']; subst. simpl to_under.
           rewrite (I3 j' Hj').
           assert (Hb : 0 <= nth (Z.to_nat k) (slice_elems s n) 0 < n).
           { apply (slice_elems_bounds s n _ Hn He). apply nth_In_default. exact Hk. }
           rewrite nth_range0 by lia. reflexivity.
Qed.
