(* C04 — non-vacuity examples and sanity evaluations. *)
From Coq Require Import ZArith List Bool Lia.
Import ListNotations.
From GV Require Import Common.Wire Common.PyInt gen.Gen_array C04.Model C04.Lemmas C04.Lemmas2.
Open Scope Z_scope.

Definition ex_shape := [3; 4].
Definition ex_slices := [Slice (Some 1) None None; Slice None None (Some 2)].
Definition ex_view := [VInt (-1); VSlice (Slice (Some 1) None None)].

(* SliceSubsetState(d, [1:, ::2]).to_mask(d, view=(-1, slice(1, None))) : row 2, columns 1..3 -> [F, T, F] *)
Example ex_slice_mask :
  match slice_state_mask ex_shape ex_slices ex_view with
  | Ok (sh, m) => Some (sh, map m (box sh))
  | Err _ => None
  end = Some ([3], [false; true; false]).
Proof. vm_compute. reflexivity. Qed.

(* the hypotheses of slice_state_view are met by this instance *)
Example ex_slice_hyps :
  Forall (fun n => 0 <= n) ex_shape /\ Forall pos_step ex_slices /\ view_pos_steps ex_view /\ view_ok ex_shape ex_view = true.
Proof.
  repeat split; try reflexivity.
  - repeat constructor; lia.
  - repeat constructor.
  - repeat constructor.
Qed.

(* the combine_slices hypothesis on a concrete non-trivial instance: [1:] combined with [::2] over length 4 *)
Example ex_combine :
  match combine_slices (Slice (Some 1) None None) (Slice None None (Some 2)) 4 with
  | Ok r => map (fun k => mem k (slice_elems (mk_slice3 r) 3)) [0; 1; 2]
  | Err _ => []
  end = map (fun k => mem (nth (Z.to_nat k) (slice_elems (Slice (Some 1) None None) 4) 0) (slice_elems (Slice None None (Some 2)) 4)) [0; 1; 2].
Proof. vm_compute. reflexivity. Qed.

(* a scalar entry outside the slices gives the all-False mask *)
Example ex_slice_out :
  match slice_state_mask ex_shape ex_slices [VInt 0] with
  | Ok (sh, m) => Some (sh, map m (box sh))
  | Err _ => None
  end = Some ([4], [false; false; false; false]).
Proof. vm_compute. reflexivity. Qed.

(* ROI on axes 0 and 2 of a 2 x 3 x 4 cube: slab-and-broadcast under the view [:, 1:, ::2] *)
Definition ex_P (c : list Z) : bool := match c with [a; b] => (a =? 1) && (1 <=? b) | _ => false end.
Example ex_roi :
  let '(sh, m) := roi_pixel_mask true ex_P [2; 3; 4] [0; 2] [VSlice full_slice; VSlice (Slice (Some 1) None None); VSlice (Slice None None (Some 2))] in
  (sh, map m (box sh)) = ([2; 2; 2], [false; false; false; false; false; true; false; true]).
Proof. vm_compute. reflexivity. Qed.
Example ex_roi_hyp : Forall (fun a => 0 <= a) [0; 2]. Proof. repeat constructor; lia. Qed.

(* world coordinate depending on axis 1 only: evaluated at pixel tuples with axis 0 zeroed *)
Example ex_world :
  let '(sh, f) := world_calculate (list Z) (fun c => c) ex_shape [1] [VInt 2; VSlice (Slice None None (Some 2))] in
  (sh, map f (box sh)) = ([2], [[0; 0]; [0; 2]]).
Proof. vm_compute. reflexivity. Qed.
(* a world function that only looks at axis 1 satisfies the dependency hypothesis for dep = [1] *)
Example ex_world_hyp : forall c, (fun c : list Z => nth 1 c 0) (zero_nondep [1] 0 c) = (fun c : list Z => nth 1 c 0) c.
Proof. intros [|a [|b c]]; reflexivity. Qed.

(* IndexedData(parent 2x3x4, indices (None, 1, None)) under the view (slice(1, None), 0) *)
Example ex_indexed :
  to_original_view [None; Some 1; None] [VSlice (Slice (Some 1) None None); VInt 0] =
  [VSlice (Slice (Some 1) None None); VInt 1; VInt 0].
Proof. reflexivity. Qed.
Example ex_indexed_hyps : indices_ok [2; 3; 4] [None; Some 1; None] /\ view_ok (reduced_shape [2; 3; 4] [None; Some 1; None]) [VSlice (Slice (Some 1) None None); VInt 0] = true.
Proof. split; [simpl; lia|reflexivity]. Qed.

(* ---- round 4 ---- *)
(* "above the average": {x} * size > sum({x}) on [1; 2; 30]; the view [0:2] applied afterwards / pushed inside *)
Definition ex_above_mean : bexpr := BGt (AMul AX ASize) (ASum AX).
Example ex_parsed_view : parsed_mask_view ex_above_mean [1; 2; 30] [0; 1] = [false; false]. Proof. vm_compute. reflexivity. Qed.
Example ex_parsed_push : parsed_mask_pushdown ex_above_mean [1; 2; 30] [0; 1] = [false; true]. Proof. vm_compute. reflexivity. Qed.
(* a non-trivial element-wise leaf meets the hypothesis of parsed_view_pushdown_elementwise, with positions in range *)
Definition ex_elementwise : bexpr := BAnd (BGt (AMul AX (AConst 2)) (AConst 3)) (BNot (BEq AX (AConst 30))).
Example ex_elementwise_hyp : belementwise ex_elementwise = true /\ Lemmas2.in_range (length [1; 2; 30]) [2; 0; 2].
Proof. split; [reflexivity|repeat constructor; simpl; lia]. Qed.
Example ex_elementwise_run : parsed_mask_pushdown ex_elementwise [1; 2; 30] [2; 0; 2] = [false; false; false]
                             /\ parsed_mask_view ex_elementwise [1; 2; 4] [2; 0; 2] = [true; false; true].
Proof. split; vm_compute; reflexivity. Qed.
(* cumsum, roll, arange *)
Example ex_cumsum_roll : aeval (AAdd (ACumsum AX) (ARoll 1 AArange)) [5; 1; 2] = [5 + 2; 6 + 0; 8 + 1]. Proof. vm_compute. reflexivity. Qed.
(* categories and codes of ['c'; 'a'; 'b'; 'a'] and of its view [2:] with inherited / recomputed categories *)
Example ex_cat_full : cat_full [99; 97; 98; 97] = ([97; 98; 99], [2; 0; 1; 0]). Proof. vm_compute. reflexivity. Qed.
Example ex_cat_view : cat_view [2; 3] [99; 97; 98; 97] = ([97; 98; 99], [1; 0]). Proof. vm_compute. reflexivity. Qed.
Example ex_cat_view_re : cat_view_recomputed [0; 2] [99; 97; 98; 97] = ([98; 99], [1; 0]). Proof. vm_compute. reflexivity. Qed.
(* a session: view first, then full, then another view *)
Example ex_session : session (cat_answer [99; 97; 98; 97]) [RView [0; 2]; RFull; RView [3]]
                     = [([97; 98; 99], [2; 1]); ([97; 98; 99], [2; 0; 1; 0]); ([97; 98; 99], [0])].
Proof. vm_compute. reflexivity. Qed.

(* round 5: a 3-d cube whose spectral axis has a scale of 2e-10 (matrix in x, y, z order; numpy axis 0 = the spectral one) *)
From Coq Require Import QArith.
From GV Require Import gen.Gen_axiscorr C04.Lemmas4.
Definition cube : list (list Q) := [[1 # 2; 0; 0; 10]; [0; 1 # 2; 0; 20]; [0; 0; 2 # 10000000000; 5 # 10000000]; [0; 0; 0; 1]]%Q.
Example cube_rect : affine_rect cube. Proof. exists 4%nat. repeat constructor. Qed.
Example cube_dep : affine_dep cube 0 = [0%Z]. Proof. vm_compute. reflexivity. Qed.
Example cube_rowdep : map (affine_rowdep cube 0) [0; 1; 2]%nat = [true; false; false]. Proof. vm_compute. reflexivity. Qed.
Example cube_rowdep_tolerance : map (affine_rowdep_with isclose_zero_entry cube 0) [0; 1; 2]%nat = [false; false; false]. Proof. vm_compute. reflexivity. Qed.
Example sheared_dep : affine_dep [[1; 1 # 1000000000000; 0]; [0; 1; 0]; [0; 0; 1]]%Q 0 = [0%Z; 1%Z]. Proof. vm_compute. reflexivity. Qed.
Eval vm_compute in snd (world_calculate2 Q (affine_world cube 0) [6; 4; 5]%Z (affine_dep cube 0) (affine_rowdep cube 0)
                          [VSlice (Slice (Some 2%Z) (Some 5%Z) None)]) [1; 0; 0]%Z.
