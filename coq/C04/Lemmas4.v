(* Round 5: the dependent-axis hypothesis of world_view made checkable for AffineCoordinates.
   dep is COMPUTED from the matrix by the translated entry predicate and the translated dependent_axes program. *)
From Coq Require Import ZArith QArith Qabs List Bool Lia Arith.
Import ListNotations.
From GV Require Import Common.Wire Common.PyInt gen.Gen_array gen.Gen_viewprog gen.Gen_axiscorr C04.Model C04.Lemmas.
Open Scope Z_scope.

(* ---- the translated predicate is exact non-zero-ness ---- *)
Lemma gen_axis_corr_entry_exact : forall x : Q, axis_corr_entry x = negb (Qeq_bool x 0).
Proof. intro x. reflexivity. Qed.

Lemma gen_axis_corr_entry_nonzero : forall x : Q, axis_corr_entry x = true <-> ~ (x == 0)%Q.
Proof.
  intro x. rewrite gen_axis_corr_entry_exact, negb_true_iff. split.
  - intros H E. apply Qeq_bool_iff in E. congruence.
  - intro H. destruct (Qeq_bool x 0) eqn:E; auto. apply Qeq_bool_iff in E. contradiction.
Qed.

Lemma gen_axis_corr_submatrix_is : forall M, axis_corr_submatrix M = map (fun r => removelast r) (removelast M).
Proof. reflexivity. Qed.

(* ---- the translated dependent_axes program in closed form ---- *)
Definition dep_closed (corr : list (list bool)) (axis : nat) : list Z :=
  let m := rev (map (@rev bool) corr) in
  let n := Nat.max (mat_rows m) (mat_cols m) in
  let g := graph_or_transpose (graph_or_matrix m graph_identity) in
  dep_nonzero n (Nat.iter n (dep_step n g) (g axis)).

Lemma gen_dependent_axes_closed : forall corr axis, run_dep dependent_axes_prog false corr axis = Some (dep_closed corr axis).
Proof. reflexivity. Qed.

Lemma gen_dependent_axes_legacy : forall corr axis, run_dep dependent_axes_prog true corr axis = Some [Z.of_nat axis].
Proof. reflexivity. Qed.

Lemma dep_step_mono : forall n g dep j, (forall i, g i i = true) -> (j < n)%nat -> dep j = true -> dep_step n g dep j = true.
Proof.
  intros n g dep j Hg Hj Hd. unfold dep_step. apply existsb_exists. exists j. split.
  - apply in_seq. lia.
  - rewrite Hd, Hg. reflexivity.
Qed.

Lemma dep_iter_mono : forall k n g dep j, (forall i, g i i = true) -> (j < n)%nat -> dep j = true ->
  Nat.iter k (dep_step n g) dep j = true.
Proof. induction k as [|k IH]; simpl; intros n g dep j Hg Hj Hd; auto. apply dep_step_mono; auto. Qed.

Lemma dep_closed_covers : forall corr axis j,
  let m := rev (map (@rev bool) corr) in
  (axis < mat_rows m)%nat -> (j < mat_cols m)%nat -> mat_get m axis j = true ->
  mem (Z.of_nat j) (dep_closed corr axis) = true.
Proof.
  intros corr axis j m Ha Hj Hm. unfold dep_closed. fold m.
  set (n := Nat.max (mat_rows m) (mat_cols m)).
  set (g := graph_or_transpose (graph_or_matrix m graph_identity)).
  assert (Hg : forall i, g i i = true).
  { intro i. unfold g, graph_or_transpose, graph_or_matrix, graph_identity. rewrite Nat.eqb_refl. reflexivity. }
  assert (Hjn : (j < n)%nat) by (unfold n; lia).
  unfold mem, dep_nonzero. apply existsb_exists. exists (Z.of_nat j). split; [|apply Z.eqb_refl].
  apply in_map. apply filter_In. split; [apply in_seq; lia|].
  apply dep_iter_mono; auto.
  unfold g, graph_or_transpose, graph_or_matrix.
  apply Nat.ltb_lt in Ha. apply Nat.ltb_lt in Hj. rewrite Ha, Hj, Hm. simpl. rewrite orb_true_r. reflexivity.
Qed.

(* ---- the affine world function ---- *)
Lemma dotq_zero_nondep : forall r dep k c,
  (forall i, (i < length r)%nat -> ~ (nth i r 0%Q == 0)%Q -> mem (k + Z.of_nat i) dep = true) ->
  (dotq r (zero_nondep dep k c) == dotq r c)%Q.
Proof.
  induction r as [|x r IH]; intros dep k c H; destruct c as [|y c]; simpl; try reflexivity.
  assert (IHr : (dotq r (zero_nondep dep (k + 1) c) == dotq r c)%Q).
  { apply IH. intros i Hi Hn. replace (k + 1 + Z.of_nat i) with (k + Z.of_nat (S i)) by lia. apply H; simpl; [lia | exact Hn]. }
  rewrite IHr.
  destruct (mem k dep) eqn:Em; [reflexivity|].
  destruct (Qeq_dec x 0) as [E|E].
  - rewrite E. ring.
  - exfalso. specialize (H 0%nat). simpl in H. rewrite Z.add_0_r in H. rewrite H in Em; [discriminate | lia | exact E].
Qed.

Lemma rev_map_rev_map : forall (f : Q -> bool) (s : list (list Q)),
  rev (map (@rev bool) (map (map f) s)) = map (map f) (rev (map (@rev Q) s)).
Proof.
  intros f s. rewrite map_rev. f_equal. rewrite !map_map. apply map_ext. intro r. symmetry. apply map_rev.
Qed.

Lemma In_removelast : forall (A : Type) (x : A) l, In x (removelast l) -> In x l.
Proof.
  induction l as [|a l IH]; simpl; auto. destruct l as [|b l]; simpl in *; [tauto|]. intros [H|H]; auto.
Qed.

Lemma length_removelast : forall (A : Type) (l : list A), length (removelast l) = pred (length l).
Proof. induction l as [|a l IH]; simpl; auto. destruct l as [|b l]; simpl in *; auto. Qed.

(* every row of M has the same length (M is a matrix) *)
Definition affine_rect (M : list (list Q)) : Prop := exists c, Forall (fun r => length r = c) M.

Lemma affine_linear_rect : forall M, affine_rect M -> exists c, Forall (fun r => length r = c) (affine_linear M).
Proof.
  intros M [c H]. exists (pred c). unfold affine_linear. apply Forall_forall. intros r Hr.
  apply in_rev in Hr. apply in_map_iff in Hr. destruct Hr as [r1 [E1 H1]]. apply in_map_iff in H1. destruct H1 as [r0 [E0 H0]].
  subst. rewrite rev_length, length_removelast. apply In_removelast in H0.
  rewrite Forall_forall in H. rewrite (H _ H0). reflexivity.
Qed.

Lemma mat_get_map : forall (f : Q -> bool) L a i, (i < length (nth a L []))%nat ->
  mat_get (map (map f) L) a i = f (nth i (nth a L []) 0%Q).
Proof.
  intros f L a i Hi. unfold mat_get.
  change (@nil bool) with (map f []). rewrite map_nth.
  rewrite (nth_indep _ false (f 0%Q)) by (rewrite map_length; exact Hi). apply map_nth.
Qed.

Lemma affine_dep_covers : forall M axis, affine_rect M ->
  forall c, affine_world M axis (zero_nondep (affine_dep M axis) 0 c) = affine_world M axis c.
Proof.
  intros M axis Hrect c. unfold affine_world. apply Qred_complete.
  rewrite dotq_zero_nondep; [reflexivity|].
  intros i Hi Hnz. rewrite Z.add_0_l.
  unfold affine_dep, affine_dep_with. rewrite gen_dependent_axes_closed.
  set (L := affine_linear M) in *.
  assert (Ha : (axis < length L)%nat).
  { destruct (Nat.lt_ge_cases axis (length L)) as [H|H]; auto. rewrite (nth_overflow L [] H) in Hi. simpl in Hi. lia. }
  destruct (affine_linear_rect M Hrect) as [w Hw]. fold L in Hw. rewrite Forall_forall in Hw.
  assert (Hrow : length (nth axis L []) = w) by (apply Hw, nth_In, Ha).
  assert (Hhd : length (hd [] L) = w).
  { destruct L as [|r0 L'] eqn:EL; [simpl in Ha; lia|]. simpl. apply Hw. left. reflexivity. }
  assert (Em : rev (map (@rev bool) (map (map axis_corr_entry) (axis_corr_submatrix M))) = map (map axis_corr_entry) L).
  { rewrite gen_axis_corr_submatrix_is. apply rev_map_rev_map. }
  apply dep_closed_covers; cbv zeta; rewrite Em.
  - unfold mat_rows. rewrite map_length. exact Ha.
  - unfold mat_cols. destruct L as [|r0 L'] eqn:EL; [simpl in Ha; lia|]. simpl in *. rewrite map_length. lia.
  - rewrite mat_get_map by exact Hi. apply gen_axis_corr_entry_nonzero. exact Hnz.
Qed.

Lemma dotq_keep_rowdep : forall r rd k c c0,
  (forall i, (i < length r)%nat -> ~ (nth i r 0%Q == 0)%Q -> rd (k + i)%nat = true) ->
  (dotq r (keep_rowdep rd k c c0) == dotq r c)%Q.
Proof.
  induction r as [|x r IH]; intros rd k c c0 H; destruct c as [|y c]; destruct c0 as [|y0 c0]; simpl; try reflexivity.
  assert (IHr : (dotq r (keep_rowdep rd (S k) c c0) == dotq r c)%Q).
  { apply IH. intros i Hi Hn. replace (S k + i)%nat with (k + S i)%nat by lia. apply H; simpl; [lia | exact Hn]. }
  rewrite IHr.
  destruct (rd k) eqn:Em; [reflexivity|].
  destruct (Qeq_dec x 0) as [E|E].
  - rewrite E. ring.
  - exfalso. specialize (H 0%nat). simpl in H. rewrite Nat.add_0_r in H. rewrite H in Em; [discriminate | lia | exact E].
Qed.

Lemma affine_rowdep_covers : forall M axis i,
  (i < length (nth axis (affine_linear M) []))%nat -> ~ (nth i (nth axis (affine_linear M) []) 0%Q == 0)%Q ->
  affine_rowdep M axis i = true.
Proof.
  intros M axis i Hi Hnz. unfold affine_rowdep, affine_rowdep_with.
  rewrite gen_axis_corr_submatrix_is, rev_map_rev_map. fold (affine_linear M).
  rewrite mat_get_map by exact Hi. apply gen_axis_corr_entry_nonzero. exact Hnz.
Qed.

(* both layers: _calculate's dependent axes and pixel2world_single_axis's row of the correlation matrix, both COMPUTED from M
   by the translated code: the fast path equals the full evaluation, element by element and in shape *)
Lemma affine_world_view2 : forall M axis shape view, affine_rect M ->
  fst (world_calculate2 Q (affine_world M axis) shape (affine_dep M axis) (affine_rowdep M axis) view) = sel_shape (sel_of shape view) /\
  forall j, snd (world_calculate2 Q (affine_world M axis) shape (affine_dep M axis) (affine_rowdep M axis) view) j
            = affine_world M axis (to_under (sel_of shape view) j).
Proof.
  intros M axis shape view H. split; [reflexivity|]. intro j. simpl.
  rewrite <- (affine_dep_covers M axis H (to_under (sel_of shape view) j)).
  unfold affine_world. apply Qred_complete.
  rewrite dotq_keep_rowdep; [reflexivity|].
  intros i Hi Hnz. simpl. apply affine_rowdep_covers; assumption.
Qed.

(* the fast path with the COMPUTED dependent axes equals the full evaluation *)
Lemma affine_world_view : forall M axis shape view, affine_rect M ->
  fst (world_calculate Q (affine_world M axis) shape (affine_dep M axis) view) = sel_shape (sel_of shape view) /\
  forall j, snd (world_calculate Q (affine_world M axis) shape (affine_dep M axis) view) j
            = affine_world M axis (to_under (sel_of shape view) j).
Proof. intros M axis shape view H. apply world_view. apply affine_dep_covers. exact H. Qed.

(* a correlation matrix computed with a tolerance (np.isclose: |x| <= 1e-8 counts as zero) drops an axis whose entry is non-zero,
   however small: the element is evaluated at the first pixel of the request and the view is wrong *)
Lemma affine_rowdep_tolerance_refuted :
  exists M axis shape view j,
    affine_rect M /\
    snd (world_calculate2 Q (affine_world M axis) shape (affine_dep_with isclose_zero_entry M axis)
                          (affine_rowdep_with isclose_zero_entry M axis) view) j
    <> affine_world M axis (to_under (sel_of shape view) j).
Proof.
  exists [[1 # 10000000000; 5]; [0; 1]]%Q, 0%nat, [4], [VSlice (Slice (Some 1) None None)], [1].
  split.
  - exists 2%nat. repeat constructor.
  - intro H. vm_compute in H. discriminate H.
Qed.

(* ... and so does any dep that misses an axis with a non-zero entry (here the empty one) *)
Lemma affine_dep_drop_refuted :
  exists M axis shape view j dep,
    (exists i, ~ (nth i (nth axis (affine_linear M) []) 0%Q == 0)%Q /\ mem (Z.of_nat i) dep = false) /\
    snd (world_calculate Q (affine_world M axis) shape dep view) j <> affine_world M axis (to_under (sel_of shape view) j).
Proof.
  exists [[1 # 1000000000000; 0; 0]; [0; 3; 0]; [0; 0; 1]]%Q, 1%nat, [2; 5], [VInt 1; VSlice (Slice (Some 2) None (Some 2))], [1], [0].
  split.
  - exists 1%nat. split; [intro H; vm_compute in H; discriminate H | reflexivity].
  - intro H. vm_compute in H. discriminate H.
Qed.
