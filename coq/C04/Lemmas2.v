(* C04 — proofs, part 2: whole-array leaves (ParsedSubsetState / ParsedComponentLink), evaluation order,
   codes of categorical views. *)
From Coq Require Import ZArith List Bool Lia.
Import ListNotations.
From GV Require Import Common.PyInt gen.Gen_viewprog C04.Model.
Open Scope Z_scope.

(* every position of the view lies inside the array of n elements *)
Definition in_range (n : nat) (pos : list Z) : Prop := Forall (fun i => 0 <= i < Z.of_nat n) pos.

(* ---------- lists ---------- *)

Lemma gather_length : forall A (d : A) pos l, length (gather d pos l) = length pos.
Proof. intros. unfold gather. apply map_length. Qed.

Lemma nth_repeat_lt : forall A (a d : A) m i, (i < m)%nat -> nth i (repeat a m) d = a.
Proof.
  intros A a d m. induction m as [|m IH]; intros i Hi; [lia|].
  destruct i as [|i]; simpl; [reflexivity|]. apply IH. lia.
Qed.

Lemma gather_repeat : forall A (a d : A) n pos, in_range n pos -> gather d pos (repeat a n) = repeat a (length pos).
Proof.
  intros A a d n pos H. induction H as [|i pos Hi H IH]; simpl; [reflexivity|].
  rewrite IH. f_equal. apply nth_repeat_lt. lia.
Qed.

Lemma map2_length : forall A B C (f : A -> B -> C) l1 l2, length l1 = length l2 -> length (map2 f l1 l2) = length l1.
Proof.
  intros A B C f l1. induction l1 as [|a l1 IH]; intros [|b l2] H; simpl in *; try reflexivity; try discriminate.
  f_equal. apply IH. lia.
Qed.

Lemma nth_map2 : forall A B C (f : A -> B -> C) l1 l2 i d1 d2 d,
  (i < length l1)%nat -> (i < length l2)%nat -> nth i (map2 f l1 l2) d = f (nth i l1 d1) (nth i l2 d2).
Proof.
  intros A B C f l1. induction l1 as [|a l1 IH]; intros [|b l2] i d1 d2 d H1 H2; simpl in *; try lia.
  destruct i as [|i]; [reflexivity|]. apply IH; lia.
Qed.

Lemma gather_map2 : forall A B C (f : A -> B -> C) d1 d2 d n pos l1 l2,
  length l1 = n -> length l2 = n -> in_range n pos ->
  map2 f (gather d1 pos l1) (gather d2 pos l2) = gather d pos (map2 f l1 l2).
Proof.
  intros A B C f d1 d2 d n pos l1 l2 H1 H2 H. induction H as [|i pos Hi H IH]; simpl; [reflexivity|].
  rewrite IH. f_equal. symmetry. apply nth_map2; lia.
Qed.

Lemma gather_map : forall A B (f : A -> B) d1 d n pos l,
  length l = n -> in_range n pos -> map f (gather d1 pos l) = gather d pos (map f l).
Proof.
  intros A B f d1 d n pos l Hl H. induction H as [|i pos Hi H IH]; simpl; [reflexivity|].
  rewrite IH. f_equal. rewrite (nth_indep (map f l) d (f d1)) by (rewrite map_length; lia). symmetry. apply map_nth.
Qed.

Lemma cumsum_length : forall l acc, length (cumsum acc l) = length l.
Proof. induction l as [|x l IH]; intros acc; simpl; [reflexivity|]. rewrite IH. reflexivity. Qed.

Lemma roll_length : forall k l, length (roll k l) = length l.
Proof. intros. unfold roll. rewrite map_length, seq_length. reflexivity. Qed.

Lemma aeval_length : forall e xs, length (aeval e xs) = length xs.
Proof.
  induction e as [| c | | | a IHa | a IHa | a IHa | a IHa | k a IHa | a IHa b IHb | a IHa b IHb | a IHa b IHb]; intros xs; simpl;
    try reflexivity; try apply repeat_length;
    try (rewrite map_length, seq_length; reflexivity);
    try (rewrite cumsum_length; apply IHa);
    try (rewrite roll_length; apply IHa);
    (rewrite map2_length; [apply IHa | rewrite IHa, IHb; reflexivity]).
Qed.

Lemma beval_length : forall e xs, length (beval e xs) = length xs.
Proof.
  induction e as [a b | a b | a b | p IHp q IHq | p IHp q IHq | p IHp]; intros xs; simpl;
    try (rewrite map2_length; [apply aeval_length | rewrite !aeval_length; reflexivity]);
    try (rewrite map2_length; [apply IHp | rewrite IHp, IHq; reflexivity]).
  rewrite map_length. apply IHp.
Qed.

(* ---------- 1. the view may be pushed inside exactly the element-wise leaves ---------- *)

Lemma elementwise_values_pushdown : forall e, aelementwise e = true ->
  forall xs pos, in_range (length xs) pos -> parsed_values_pushdown e xs pos = parsed_values_view e xs pos.
Proof.
  unfold parsed_values_pushdown, parsed_values_view.
  induction e as [| c | | | a IHa | a IHa | a IHa | a IHa | k a IHa | a IHa b IHb | a IHa b IHb | a IHa b IHb];
    intros He xs pos Hp; simpl in He; try discriminate; simpl.
  - reflexivity.
  - rewrite gather_length. symmetry. apply gather_repeat. exact Hp.
  - apply andb_true_iff in He. destruct He as [Ha Hb]. rewrite (IHa Ha xs pos Hp), (IHb Hb xs pos Hp).
    apply (gather_map2 _ _ _ Z.add 0 0 0 (length xs)); [apply aeval_length|apply aeval_length|exact Hp].
  - apply andb_true_iff in He. destruct He as [Ha Hb]. rewrite (IHa Ha xs pos Hp), (IHb Hb xs pos Hp).
    apply (gather_map2 _ _ _ Z.sub 0 0 0 (length xs)); [apply aeval_length|apply aeval_length|exact Hp].
  - apply andb_true_iff in He. destruct He as [Ha Hb]. rewrite (IHa Ha xs pos Hp), (IHb Hb xs pos Hp).
    apply (gather_map2 _ _ _ Z.mul 0 0 0 (length xs)); [apply aeval_length|apply aeval_length|exact Hp].
Qed.

Lemma elementwise_mask_pushdown : forall e, belementwise e = true ->
  forall xs pos, in_range (length xs) pos -> parsed_mask_pushdown e xs pos = parsed_mask_view e xs pos.
Proof.
  unfold parsed_mask_pushdown, parsed_mask_view.
  induction e as [a b | a b | a b | p IHp q IHq | p IHp q IHq | p IHp]; intros He xs pos Hp; simpl in He; simpl.
  - apply andb_true_iff in He. destruct He as [Ha Hb].
    pose proof (elementwise_values_pushdown a Ha xs pos Hp) as Ea. pose proof (elementwise_values_pushdown b Hb xs pos Hp) as Eb.
    unfold parsed_values_pushdown, parsed_values_view in Ea, Eb. rewrite Ea, Eb.
    apply (gather_map2 _ _ _ Z.gtb 0 0 false (length xs)); [apply aeval_length|apply aeval_length|exact Hp].
  - apply andb_true_iff in He. destruct He as [Ha Hb].
    pose proof (elementwise_values_pushdown a Ha xs pos Hp) as Ea. pose proof (elementwise_values_pushdown b Hb xs pos Hp) as Eb.
    unfold parsed_values_pushdown, parsed_values_view in Ea, Eb. rewrite Ea, Eb.
    apply (gather_map2 _ _ _ Z.geb 0 0 false (length xs)); [apply aeval_length|apply aeval_length|exact Hp].
  - apply andb_true_iff in He. destruct He as [Ha Hb].
    pose proof (elementwise_values_pushdown a Ha xs pos Hp) as Ea. pose proof (elementwise_values_pushdown b Hb xs pos Hp) as Eb.
    unfold parsed_values_pushdown, parsed_values_view in Ea, Eb. rewrite Ea, Eb.
    apply (gather_map2 _ _ _ Z.eqb 0 0 false (length xs)); [apply aeval_length|apply aeval_length|exact Hp].
  - apply andb_true_iff in He. destruct He as [Ha Hb]. rewrite (IHp Ha xs pos Hp), (IHq Hb xs pos Hp).
    apply (gather_map2 _ _ _ andb false false false (length xs)); [apply beval_length|apply beval_length|exact Hp].
  - apply andb_true_iff in He. destruct He as [Ha Hb]. rewrite (IHp Ha xs pos Hp), (IHq Hb xs pos Hp).
    apply (gather_map2 _ _ _ orb false false false (length xs)); [apply beval_length|apply beval_length|exact Hp].
  - rewrite (IHp He xs pos Hp). apply (gather_map _ _ negb false false (length xs)); [apply beval_length|exact Hp].
Qed.

(* ... and for a leaf that is NOT element-wise the push-down is wrong: "above the average" on [1; 2; 30] under the view [0:2] *)
Lemma pushdown_refuted : exists e xs pos,
  in_range (length xs) pos /\ belementwise e = false /\ parsed_mask_pushdown e xs pos <> parsed_mask_view e xs pos.
Proof.
  exists (BGt (AMul AX ASize) (ASum AX)), [1; 2; 30], [0; 1].
  split; [repeat constructor; simpl; lia|]. split; [reflexivity|]. vm_compute. discriminate.
Qed.

(* every primitive whole-array construct has such a witness (the view [1:2] of [1; 2; 3]) *)
Lemma pushdown_refuted_each :
  Forall (fun e => aelementwise e = false /\
                   exists xs pos, in_range (length xs) pos /\ parsed_values_pushdown e xs pos <> parsed_values_view e xs pos)
         [ASum AX; AMax AX; AMin AX; ASize; AArange; ACumsum AX; ARoll 1 AX].
Proof.
  repeat constructor; exists [1; 2; 3], [1]; (split; [repeat constructor; simpl; lia|]); vm_compute; discriminate.
Qed.

(* ---------- 2. evaluation order: the model has no hidden state ---------- *)

(* Trivial, and stated for exactly that reason: the model's answer to a request is a pure function of the array and the
   request, so it does not depend on the requests answered before or after it. The correspondence compares the
   implementation under both orders (view first on a fresh twin / full first) with this one answer. *)
Lemma session_order_independent : forall Q A (answer : Q -> A) (pre post : list Q) (r : Q) (d : A),
  nth (length pre) (session answer (pre ++ r :: post)) d = answer r.
Proof.
  intros. unfold session. rewrite map_app. rewrite app_nth2 by (rewrite map_length; lia).
  rewrite map_length, Nat.sub_diag. reflexivity.
Qed.

Lemma parsed_view_first_eq_full_first : forall e xs pos,
  nth 0 (session (parsed_answer e xs) [RView pos; RFull]) [] = nth 1 (session (parsed_answer e xs) [RFull; RView pos]) [] /\
  nth 1 (session (parsed_answer e xs) [RView pos; RFull]) [] = nth 0 (session (parsed_answer e xs) [RFull; RView pos]) [] /\
  nth 0 (session (parsed_answer e xs) [RView pos; RFull]) [] = gather false pos (nth 1 (session (parsed_answer e xs) [RView pos; RFull]) []).
Proof. intros. repeat split; reflexivity. Qed.

(* ---------- 3. categorical attributes: codes of a view ---------- *)

Lemma index_lookup_gather : forall cats l pos, in_range (length l) pos ->
  index_lookup (gather 0 pos l) cats = gather 0 pos (index_lookup l cats).
Proof.
  intros cats l pos H. unfold index_lookup. apply (gather_map _ _ (fun x => index_of x cats) 0 0 (length l)); [reflexivity|exact H].
Qed.

(* a view that inherits the categories of its parent has the parent's categories and the view of the parent's codes *)
Lemma categorical_view_codes : forall l pos, in_range (length l) pos ->
  fst (cat_view pos l) = fst (cat_full l) /\ snd (cat_view pos l) = gather 0 pos (snd (cat_full l)).
Proof. intros l pos H. unfold cat_view, cat_full. simpl. split; [reflexivity|]. apply index_lookup_gather. exact H. Qed.

(* ... in either order of the requests *)
Lemma categorical_view_first_eq_full_first : forall l pos, in_range (length l) pos ->
  let a := session (cat_answer l) [RView pos; RFull] in
  let b := session (cat_answer l) [RFull; RView pos] in
  nth 0 a ([], []) = nth 1 b ([], []) /\ nth 1 a ([], []) = nth 0 b ([], []) /\
  snd (nth 0 a ([], [])) = gather 0 pos (snd (nth 1 a ([], []))) /\ fst (nth 0 a ([], [])) = fst (nth 1 a ([], [])).
Proof.
  intros l pos H. simpl. destruct (categorical_view_codes l pos H) as [E1 E2].
  split; [reflexivity|]. split; [reflexivity|]. split; [exact E2 | exact E1].
Qed.

(* a view that derives its categories from its own labels numbers them differently: ['a'; 'b'] under the view [1:] *)
Lemma categorical_recompute_refuted : exists l pos, in_range (length l) pos /\
  snd (cat_view_recomputed pos l) <> gather 0 pos (snd (cat_full l)).
Proof. exists [1; 2], [1]. split; [repeat constructor; simpl; lia|]. vm_compute. discriminate. Qed.

(* ---------- 4. the translated functions (coq/gen/Gen_viewprog.v) are the model ---------- *)

(* ParsedSubsetState.to_mask, as translated from the current source: the full evaluation, then the view *)
Lemma gen_to_mask_is_view_of_full : forall e xs,
  gen_mask to_mask_prog e xs None = Some (beval e xs) /\
  forall pos, gen_mask to_mask_prog e xs (Some pos) = Some (parsed_mask_view e xs pos).
Proof. intros e xs. split; [reflexivity|]. intros pos. reflexivity. Qed.

(* ParsedComponentLink.compute, as translated: correct for element-wise expressions (whether it pushes the view inside, as
   the code does today, or evaluates first and indexes afterwards) *)
Lemma gen_link_compute_elementwise : forall e xs, aelementwise e = true ->
  gen_values link_compute_prog e xs None = Some (aeval e xs) /\
  forall pos, in_range (length xs) pos -> gen_values link_compute_prog e xs (Some pos) = Some (parsed_values_view e xs pos).
Proof.
  intros e xs He. split; [reflexivity|]. intros pos Hp. cbn.
  first [reflexivity | f_equal; apply elementwise_values_pushdown; assumption].
Qed.

(* ... and it is one of the two: the push-down (today: the known finding for whole-array expressions) or the view of the full evaluation *)
Lemma gen_link_compute_pushdown_or_view : forall e xs pos,
  gen_values link_compute_prog e xs (Some pos) = Some (parsed_values_pushdown e xs pos) \/
  gen_values link_compute_prog e xs (Some pos) = Some (parsed_values_view e xs pos).
Proof. intros e xs pos. first [left; reflexivity | right; reflexivity]. Qed.

(* categorical_ndarray.__array_finalize__, as translated: the view inherits the categories of its parent whether or not the
   parent had looked them up before (warm / cold) *)
Lemma gen_finalize_inherits : forall warm pos l, gen_cat_view finalize_prog warm pos l = cat_view pos l.
Proof. intros [|] pos l; reflexivity. Qed.
