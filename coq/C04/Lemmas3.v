(* C04 — proofs, part 3: the flat positions the model computes for a basic view lie inside the array, so the
   in_range premise of the whole-array theorems (Lemmas2) is discharged for every basic view. *)
From Coq Require Import ZArith List Bool Lia.
Import ListNotations.
From GV Require Import Common.PyInt gen.Gen_array C04.Model C04.Lemmas C04.Lemmas2.
Open Scope Z_scope.

Lemma fold_mul_acc : forall l a, fold_left Z.mul l a = a * fold_left Z.mul l 1.
Proof.
  induction l as [|x l IH]; intros a; [simpl; lia|].
  cbn [fold_left]. rewrite (IH (a * x)), (IH (1 * x)). ring.
Qed.

Lemma zprod_cons_mul : forall x l, zprod (x :: l) = x * zprod l.
Proof. intros x l. unfold zprod. cbn [fold_left]. rewrite fold_mul_acc. ring. Qed.

Lemma flat_index_in_range : forall shape i, in_box shape i -> 0 <= flat_index shape i < zprod shape.
Proof.
  intros shape i H. induction H as [|n j shape i Hj H IH]; [unfold zprod; simpl; lia|].
  simpl flat_index. rewrite zprod_cons_mul. nia.
Qed.

(* element j of the view is an element of the array *)
Lemma to_under_in_box : forall shape view j,
  Forall (fun n => 0 <= n) shape -> view_pos_steps view -> view_ok shape view = true ->
  in_box (sel_shape (sel_of shape view)) j -> in_box shape (to_under (sel_of shape view) j).
Proof.
  induction shape as [|n shape IH]; intros view j Hsh Hv Hok Hj.
  - simpl in *. constructor.
  - inversion Hsh as [|? ? Hn Hsh']; subst. destruct view as [|e view].
    + simpl sel_of in *. simpl sel_shape in Hj. rewrite zlen_range0 in Hj by lia.
      inversion Hj as [|? k ? j' Hk Hj']; subst. simpl to_under. rewrite nth_range0 by lia.
      constructor; [lia|]. apply (IH [] j' Hsh' (Forall_nil _) (view_ok_nil _) Hj').
    + inversion Hv as [|? ? He Hv']; subst. destruct e as [i|s].
      * simpl in Hok. apply andb_true_iff in Hok. destruct Hok as [Hi Hok].
        simpl sel_of in *. simpl sel_shape in Hj. simpl to_under.
        constructor; [unfold norm_index; destruct (i <? 0) eqn:E; lia|].
        apply (IH view j Hsh' Hv' Hok Hj).
      * simpl in Hok. simpl sel_of in *. simpl sel_shape in Hj.
        inversion Hj as [|? k ? j' Hk Hj']; subst. simpl to_under.
        constructor.
        -- apply (slice_elems_bounds s n _ Hn He). apply nth_In_default. exact Hk.
        -- apply (IH view j' Hsh' Hv' Hok Hj').
Qed.

Lemma basic_view_positions_in_range : forall shape view n,
  Forall (fun k => 0 <= k) shape -> view_pos_steps view -> view_ok shape view = true ->
  Z.of_nat n = zprod shape ->
  in_range n (basic_positions shape view).
Proof.
  intros shape view n Hsh Hv Hok Hn. unfold in_range, basic_positions. apply Forall_forall. intros p Hp.
  apply in_map_iff in Hp. destruct Hp as [j [Ep Hj]]. subst p.
  apply In_box_iff in Hj.
  pose proof (flat_index_in_range shape _ (to_under_in_box shape view j Hsh Hv Hok Hj)) as Hb. lia.
Qed.

(* the two whole-array theorems for basic views, with nothing left to assume about the positions *)
Lemma elementwise_mask_pushdown_basic : forall e shape view xs,
  belementwise e = true ->
  Forall (fun k => 0 <= k) shape -> view_pos_steps view -> view_ok shape view = true -> zlen xs = zprod shape ->
  parsed_mask_pushdown e xs (basic_positions shape view) = parsed_mask_view e xs (basic_positions shape view).
Proof.
  intros e shape view xs He Hsh Hv Hok Hn. apply elementwise_mask_pushdown; [exact He|].
  apply basic_view_positions_in_range; assumption.
Qed.

Lemma categorical_view_codes_basic : forall shape view l,
  Forall (fun k => 0 <= k) shape -> view_pos_steps view -> view_ok shape view = true -> zlen l = zprod shape ->
  fst (cat_view (basic_positions shape view) l) = fst (cat_full l) /\
  snd (cat_view (basic_positions shape view) l) = gather 0 (basic_positions shape view) (snd (cat_full l)).
Proof.
  intros shape view l Hsh Hv Hok Hn. apply categorical_view_codes. apply basic_view_positions_in_range; assumption.
Qed.
