(* C05 -- the link between the per-function stores of the translated memoize (Memo.spec_hist, refined by the translated programs:
   MemoLemmas.memoize_refines_store) and the ONE memo list of the C01 / C05 evaluator (C01.Heap.memo with mlookup / mstore / mclear,
   used by C01.Model.with_memo and C05.Model.with_memo_e / clear_path).

   joined sp m : the per-function stores sp, put together, are observationally the memo m (same lookup for every key), and store f holds
                 keys of function f only.
   Every history of calls and clears preserves it; the results are equal; clear_mask_caches (clear_cache on every function) = mclear of
   every function = the empty memo.  Then: with_memo_e IS one flat_call around the nested computation, clear_path IS a history of clears. *)
From Coq Require Import List Bool Arith Lia.
Import ListNotations.
From GV Require Import gen.Gen_memo C01.Heap C01.HeapLemmas C01.Model C05.Memo C05.MemoLemmas C05.Model.

Definition joined (sp : list dict) (m : memo) : Prop :=
  (forall f k, k_fn k <> f -> mlookup k (nth f sp []) = None) /\
  (forall k, mlookup k m = mlookup k (nth (k_fn k) sp [])).

Lemma key_eqb_fn : forall a b, key_eqb a b = true -> k_fn a = k_fn b.
Proof. intros a b H. apply key_eqb_eq in H. subst. reflexivity. Qed.

Lemma mlookup_mclear : forall f k m, mlookup k (mclear f m) = if Nat.eqb (k_fn k) f then None else mlookup k m.
Proof.
  intros f k m. destruct (Nat.eqb (k_fn k) f) eqn:E.
  - apply Nat.eqb_eq in E. apply mlookup_clear_same. exact E.
  - apply Nat.eqb_neq in E. apply mlookup_clear_other. exact E.
Qed.

Lemma mlookup_filter_ne : forall k k' d,
  mlookup k (filter (fun e => negb (key_eqb (fst e) k')) d) = if key_eqb k k' then None else mlookup k d.
Proof.
  intros k k' d. induction d as [|[k2 a] t IH]; simpl.
  - destruct (key_eqb k k'); reflexivity.
  - destruct (key_eqb k2 k') eqn:E2; simpl.
    + rewrite IH. destruct (key_eqb k k') eqn:E; [reflexivity|].
      destruct (key_eqb k k2) eqn:E3; [|reflexivity].
      apply key_eqb_eq in E3. apply key_eqb_eq in E2. subst. rewrite key_eqb_refl in E. discriminate.
    + destruct (key_eqb k k2) eqn:E3.
      * apply key_eqb_eq in E3. subst k2. rewrite E2. reflexivity.
      * exact IH.
Qed.

Lemma mlookup_dset : forall k k' a d, mlookup k (dset k' a d) = if key_eqb k k' then Some a else mlookup k d.
Proof.
  intros k k' a d. unfold dset. simpl. destruct (key_eqb k k') eqn:E; [reflexivity|].
  rewrite mlookup_filter_ne, E. reflexivity.
Qed.

Lemma nth_set_nth_lt : forall (l : list dict) f g x, f < length l ->
  nth g (set_nth f x l) [] = if Nat.eqb g f then x else nth g l [].
Proof.
  induction l as [|h t IH]; intros f g x Hf; simpl in Hf; [lia|].
  destruct f as [|f]; destruct g as [|g]; simpl; try reflexivity. apply IH. lia.
Qed.

Lemma joined_nil : forall n, joined (repeat [] n) [].
Proof.
  intros n. assert (H : forall f, nth f (repeat (@nil (key * addr)) n) [] = []).
  { intro f. destruct (le_lt_dec n f) as [Hf|Hf].
    - apply nth_overflow. rewrite repeat_length. exact Hf.
    - apply nth_repeat. }
  split; intros; rewrite H; reflexivity.
Qed.

(* ---- one call *)
Lemma call_link : forall sp m f c, joined sp m -> k_fn (c_key c) = f ->
  snd (flat_call (length sp) f c m) = snd (spec_call f c sp) /\
  joined (fst (spec_call f c sp)) (fst (flat_call (length sp) f c m)).
Proof.
  intros sp m f c [J1 J2] Hk. unfold flat_call, spec_call.
  destruct (length sp <=? f) eqn:Hf; [split; [reflexivity | split; assumption]|].
  apply Nat.leb_gt in Hf.
  destruct (c_mkraise c); [split; [reflexivity | split; assumption]|].
  destruct (negb (c_hash c)); [split; [reflexivity | split; assumption]|].
  rewrite (J2 (c_key c)), Hk.
  destruct (mlookup (c_key c) (nth f sp [])) as [a|] eqn:El; [split; [reflexivity | split; assumption]|].
  destruct (c_res c) as [a|]; [|split; [reflexivity | split; assumption]].
  simpl. split; [reflexivity|]. split.
  - intros g k Hg. rewrite nth_set_nth_lt by exact Hf.
    destruct (Nat.eqb g f) eqn:Eg; [|apply J1; exact Hg].
    apply Nat.eqb_eq in Eg. subst g. rewrite mlookup_dset.
    destruct (key_eqb k (c_key c)) eqn:Ek; [|apply J1; exact Hg].
    apply key_eqb_fn in Ek. congruence.
  - intro k. rewrite mlookup_store, nth_set_nth_lt by exact Hf.
    destruct (Nat.eqb (k_fn k) f) eqn:Eg.
    + apply Nat.eqb_eq in Eg. rewrite mlookup_dset. destruct (key_eqb k (c_key c)); [reflexivity|].
      rewrite J2, Eg. reflexivity.
    + apply Nat.eqb_neq in Eg. destruct (key_eqb k (c_key c)) eqn:Ek; [|apply J2].
      apply key_eqb_fn in Ek. congruence.
Qed.

(* ---- clear_cache(f) = mclear f *)
Lemma clear_link : forall sp m f, joined sp m -> joined (set_nth f [] sp) (mclear f m).
Proof.
  intros sp m f [J1 J2]. split.
  - intros g k Hg. rewrite nth_set_nth_nil. destruct (Nat.eqb g f); [reflexivity | apply J1; exact Hg].
  - intro k. rewrite mlookup_mclear, nth_set_nth_nil. destruct (Nat.eqb (k_fn k) f); [reflexivity | apply J2].
Qed.

(* ---- clear_mask_caches() = the empty memo *)
Lemma clear_all_link : forall sp, joined (spec_clear_list (seq 0 (length sp)) sp) [].
Proof.
  intros sp. destruct clear_mask_caches_empties_every_store as [_ H].
  split; intros; rewrite H; reflexivity.
Qed.

(* ---- every history *)
Lemma hist_link : forall h sp m, joined sp m -> well_keyed h ->
  snd (flat_hist (length sp) h m) = snd (spec_hist h sp) /\
  joined (fst (spec_hist h sp)) (fst (flat_hist (length sp) h m)).
Proof.
  induction h as [|o t IH]; intros sp m J W; [split; [reflexivity | exact J]|].
  inversion W as [|? ? Ho Wt]; subst.
  destruct o as [f c | f | ]; cbn [flat_hist spec_hist].
  - simpl in Ho. destruct (call_link sp m f c J Ho) as [Hr Hj].
    pose proof (spec_call_length f c sp) as Hl.
    destruct (spec_call f c sp) as [sp1 r1]. destruct (flat_call (length sp) f c m) as [m1 r1']. simpl in *.
    destruct (IH sp1 m1 Hj Wt) as [Hr2 Hj2]. rewrite Hl in Hr2, Hj2.
    destruct (spec_hist t sp1) as [sp2 rs]. destruct (flat_hist (length sp) t m1) as [m2 rs']. simpl in *.
    split; [congruence | exact Hj2].
  - destruct (IH _ _ (clear_link sp m f J) Wt) as [H1 H2]. rewrite set_nth_length in H1, H2. split; assumption.
  - destruct (IH _ _ (clear_all_link sp) Wt) as [H1 H2]. rewrite spec_clear_list_length in H1, H2. split; assumption.
Qed.

(* ---- "put together" literally: the concatenation of the stores *)
Lemma mlookup_app : forall k a b, mlookup k (a ++ b) = match mlookup k a with Some x => Some x | None => mlookup k b end.
Proof.
  intros k a b. induction a as [|[k' x] t IH]; simpl; [reflexivity|]. destruct (key_eqb k k'); [reflexivity | exact IH].
Qed.

Lemma mlookup_concat_off : forall sp off k,
  (forall i k', k_fn k' <> off + i -> mlookup k' (nth i sp []) = None) ->
  mlookup k (concat sp) = if k_fn k <? off then None else mlookup k (nth (k_fn k - off) sp []).
Proof.
  induction sp as [|d t IH]; intros off k H; simpl.
  - destruct (k_fn k <? off); [reflexivity|]. destruct (k_fn k - off); reflexivity.
  - rewrite mlookup_app.
    assert (Ht : forall i k', k_fn k' <> S off + i -> mlookup k' (nth i t []) = None).
    { intros i k' Hi. apply (H (S i) k'). lia. }
    rewrite (IH (S off) k Ht).
    pose proof (H 0 k) as H0. simpl in H0.
    destruct (k_fn k <? off) eqn:E1.
    + apply Nat.ltb_lt in E1. rewrite H0 by lia.
      assert (E2 : k_fn k <? S off = true) by (apply Nat.ltb_lt; lia). rewrite E2. reflexivity.
    + apply Nat.ltb_ge in E1. destruct (k_fn k - off) as [|j] eqn:Ej.
      * assert (E2 : k_fn k <? S off = true) by (apply Nat.ltb_lt; lia). rewrite E2.
        destruct (mlookup k d); reflexivity.
      * assert (E2 : k_fn k <? S off = false) by (apply Nat.ltb_ge; lia). rewrite E2.
        rewrite H0 by lia. replace (k_fn k - S off) with j by lia. reflexivity.
Qed.

Lemma joined_concat : forall sp m, joined sp m -> forall k, mlookup k (concat sp) = mlookup k m.
Proof.
  intros sp m [J1 J2] k. rewrite (mlookup_concat_off sp 0 k).
  - simpl. rewrite Nat.sub_0_r. symmetry. apply J2.
  - intros i k' Hi. apply J1. simpl in Hi. exact Hi.
Qed.

(* THE LINKING LEMMA.  For every number of decorated functions and every history of calls and clears whose keys carry their function:
   the hand model's per-function stores and the ONE memo of the C01 / C05 model give the same results, and afterwards every key has the
   same lookup in the stores put together as in the memo. *)
Theorem stores_joined_are_memo : forall n h, well_keyed h ->
  snd (spec_hist h (repeat [] n)) = snd (flat_hist n h []) /\
  forall k, mlookup k (concat (fst (spec_hist h (repeat [] n)))) = mlookup k (fst (flat_hist n h [])).
Proof.
  intros n h W. destruct (hist_link h (repeat [] n) [] (joined_nil n) W) as [H1 H2]. rewrite repeat_length in H1, H2.
  split; [symmetry; exact H1 | apply joined_concat; exact H2].
Qed.

(* clear_cache on every function (what clear_mask_caches does) = mclear of every function: afterwards no key of a decorated function is found;
   with every key below n this is the empty memo of the model's scope 2. *)
Theorem clear_fns_all : forall n m k,
  mlookup k (clear_fns (seq 0 n) m) = if k_fn k <? n then None else mlookup k m.
Proof.
  intros n m k. unfold clear_fns.
  assert (G : forall fs m, mlookup k (fold_left (fun m f => mclear f m) fs m) = if existsb (Nat.eqb (k_fn k)) fs then None else mlookup k m).
  { induction fs as [|f t IH]; intros m0; simpl; [reflexivity|].
    rewrite IH, mlookup_mclear. destruct (Nat.eqb (k_fn k) f); simpl; [destruct (existsb _ t); reflexivity | reflexivity]. }
  rewrite G. destruct (k_fn k <? n) eqn:E.
  - apply Nat.ltb_lt in E. assert (Ht : existsb (Nat.eqb (k_fn k)) (seq 0 n) = true).
    { apply existsb_exists. exists (k_fn k). split; [apply in_seq; lia | apply Nat.eqb_refl]. }
    rewrite Ht. reflexivity.
  - apply Nat.ltb_ge in E. destruct (existsb (Nat.eqb (k_fn k)) (seq 0 n)) eqn:Ex; [|reflexivity].
    apply existsb_exists in Ex. destruct Ex as [x [Hin Hx]]. apply Nat.eqb_eq in Hx. apply in_seq in Hin. lia.
Qed.

(* COROLLARY: the translated programs against the model's ONE memo. *)
Theorem translated_memoize_is_model_memo : forall n h, well_keyed h -> exists st0 st',
  decorate_all memoize_pre memoize_post n = Some st0 /\
  run_hist memoize_wrapper clear_cache_body h st0 = Some (st', snd (flat_hist n h [])) /\
  (forall k, mlookup k (concat (m_dicts st')) = mlookup k (fst (flat_hist n h []))) /\
  handles_ok st'.
Proof.
  intros n h W. destruct (memoize_refines_store n h) as [st0 [st' [H0 [H1 H2]]]].
  destruct (stores_joined_are_memo n h W) as [L1 L2].
  exists st0, st'. split; [exact H0|]. split; [rewrite <- L1; exact H1|]. split.
  - intro k. rewrite H2. apply L2.
  - exact (consulted_dict_is_cleared_dict n h st0 st' _ H0 H1).
Qed.

(* ---- the evaluator's two memo operations ARE flat_call / flat_hist steps.
   with_memo_e (every node of evalE goes through it, and nothing else of evalE touches st_memo): a hit is one call that finds the key; otherwise
   it is the nested computation followed by one call whose the wrapped function outcome is the computation's.  Exact side condition: the nested
   computation did not itself store the key its caller is about to store (a state object is not its own descendant). *)
Theorem with_memo_e_is_wrapper_call : forall n hk f id d v form compute st, f < n ->
  let k := mkkey f id d v form in
  let st' := fst (compute st) in
  let oa := snd (compute st) in
  (mlookup k (st_memo st) = None -> mlookup k (st_memo st') = None) ->
  let out := with_memo_e hk (Some f) id d v form compute st in
  match (if hk then mlookup k (st_memo st) else None) with
  | Some a => out = (st, Some a) /\ forall ores, flat_call n f (mkcall false hk k ores) (st_memo st) = (st_memo st, RVal a)
  | None => st_heap (fst out) = st_heap st' /\ snd out = oa /\
            flat_call n f (mkcall false hk k oa) (st_memo st') = (st_memo (fst out), res_of (snd out))
  end.
Proof.
  intros n hk f id d v form compute st Hf k st' oa Hside out.
  assert (Hn : n <=? f = false) by (apply Nat.leb_gt; exact Hf).
  subst out. unfold with_memo_e, flat_call. rewrite Hn. fold k. simpl c_mkraise. simpl c_hash. simpl c_key. simpl c_res.
  destruct hk; simpl negb.
  - destruct (mlookup k (st_memo st)) as [a|] eqn:El.
    + split; [reflexivity|]. intros ores. cbv iota. reflexivity.
    + specialize (Hside eq_refl). subst st' oa. destruct (compute st) as [s1 [a|]]; simpl in *; rewrite Hside; auto.
  - subst st' oa. destruct (compute st) as [s1 [a|]]; simpl; auto.
Qed.

(* clear_path (the only other place the model changes st_memo): a history of clear_cache calls, or clear_mask_caches *)
Theorem clear_path_is_clear_cache : forall n pol p tops reach st,
  st_heap (clear_path pol p tops reach st) = st_heap st /\
  st_memo (clear_path pol p tops reach st) = fst (flat_hist n (clear_hops pol p tops reach) (st_memo st)).
Proof.
  intros n pol p tops reach st. unfold clear_path, clear_hops.
  assert (G : forall fs m, clear_fns fs m = fst (flat_hist n (map HClear fs) m)).
  { induction fs as [|f t IH]; intros m; simpl; [reflexivity | apply IH]. }
  destruct (pol p) as [[s b]|]; [|split; reflexivity].
  destruct s as [|[|[|s]]]; simpl; split; try reflexivity; apply G.
Qed.
