(* C05 -- the translated memoize / clear_cache: equal to the hand model's per-function store for every history, and the dict a wrapper
   consults IS the dict clear_cache empties, after every history. *)
From Coq Require Import List Bool Arith Lia.
Import ListNotations.
From GV Require Import gen.Gen_memo C01.Heap C05.Memo.

Definition canon (n : nat) : list wrapper := map (fun f => mkw (Some f) (Some f)) (seq 0 n).

Lemma canon_S : forall n, canon (S n) = canon n ++ [mkw (Some n) (Some n)].
Proof. intros n. unfold canon. rewrite seq_S, map_app. reflexivity. Qed.

Lemma canon_length : forall n, length (canon n) = n.
Proof. intros n. unfold canon. rewrite map_length, seq_length. reflexivity. Qed.

Lemma nth_error_seq0 : forall n a f, f < n -> nth_error (seq a n) f = Some (a + f).
Proof.
  induction n as [|n IH]; intros a f Hf; [lia|].
  destruct f as [|f]; simpl; [f_equal; lia|]. rewrite IH by lia. f_equal. lia.
Qed.

Lemma nth_error_canon_lt : forall n f, f < n -> nth_error (canon n) f = Some (mkw (Some f) (Some f)).
Proof.
  intros n f Hf. unfold canon.
  rewrite (map_nth_error (fun g => mkw (Some g) (Some g)) f (seq 0 n) (nth_error_seq0 n 0 f Hf)). reflexivity.
Qed.

Lemma nth_error_canon_ge : forall n f, n <= f -> nth_error (canon n) f = None.
Proof. intros n f Hf. apply nth_error_None. unfold canon. rewrite map_length, seq_length. exact Hf. Qed.

Lemma set_nth_same : forall (A : Type) (l : list A) f x, nth_error l f = Some x -> set_nth f x l = l.
Proof.
  induction l as [|h t IH]; intros f x H; [destruct f; reflexivity|].
  destruct f as [|f]; simpl in *; [inversion H; reflexivity|]. rewrite IH by exact H. reflexivity.
Qed.

Lemma set_nth_length : forall (A : Type) (l : list A) f x, length (set_nth f x l) = length l.
Proof. induction l as [|h t IH]; intros f x; [destruct f; reflexivity|]. destruct f; simpl; [reflexivity|]. rewrite IH. reflexivity. Qed.

Lemma set_nth_oob : forall (A : Type) (l : list A) f x, length l <= f -> set_nth f x l = l.
Proof.
  induction l as [|h t IH]; intros f x H; [destruct f; reflexivity|].
  destruct f as [|f]; simpl in *; [lia|]. rewrite IH by lia. reflexivity.
Qed.

(* ---- memoize(func): every decoration allocates one new dict; the closure cell and the attribute both refer to it *)
Lemma decorate_canon : forall n,
  decorate memoize_pre memoize_post (mkm (repeat [] n) (canon n)) = Some (mkm (repeat [] (S n)) (canon (S n))).
Proof.
  intros n. rewrite canon_S. unfold decorate, memoize_pre, memoize_post. cbn.
  rewrite repeat_length. rewrite <- repeat_cons. reflexivity.
Qed.

Lemma decorate_all_canon : forall n, decorate_all memoize_pre memoize_post n = Some (mkm (repeat [] n) (canon n)).
Proof.
  induction n as [|n IH]; [reflexivity|]. simpl. rewrite IH. apply decorate_canon.
Qed.

(* ---- one call of the translated wrapper = one step of the hand model's store; cell and attribute unchanged *)
Lemma call_step : forall sp f c,
  call_wrapper memoize_wrapper f c (mkm sp (canon (length sp))) =
  (mkm (fst (spec_call f c sp)) (canon (length sp)), snd (spec_call f c sp)).
Proof.
  intros sp f c. unfold call_wrapper, spec_call. simpl m_ws. simpl m_dicts.
  destruct (length sp <=? f) eqn:Hf.
  - apply Nat.leb_le in Hf. rewrite nth_error_canon_ge by exact Hf. reflexivity.
  - apply Nat.leb_gt in Hf. rewrite nth_error_canon_lt by exact Hf.
    pose proof (set_nth_same _ (canon (length sp)) f _ (nth_error_canon_lt _ _ Hf)) as Hs.
    destruct c as [mk h k r]. unfold memoize_wrapper. simpl w_cell. simpl w_cache.
    destruct mk; [destruct r; cbn; rewrite Hs; reflexivity|].
    destruct h; [|destruct r; cbn; rewrite Hs; reflexivity].
    cbn. destruct (mlookup k (nth f sp [])) eqn:Hl; cbn.
    + rewrite Hs. reflexivity.
    + destruct r; cbn; rewrite Hs; reflexivity.
Qed.

Lemma spec_call_length : forall f c sp, length (fst (spec_call f c sp)) = length sp.
Proof.
  intros f c sp. unfold spec_call.
  destruct (length sp <=? f); [reflexivity|]. destruct (c_mkraise c); [reflexivity|].
  destruct (negb (c_hash c)); [reflexivity|]. destruct (mlookup _ _); [reflexivity|].
  destruct (c_res c); simpl; [apply set_nth_length | reflexivity].
Qed.

(* ---- clear_cache(f): empties exactly the dict wrapper f consults; an undecorated function is ignored *)
Lemma clear_step : forall sp f,
  clear_one clear_cache_body f (mkm sp (canon (length sp))) = Some (mkm (set_nth f [] sp) (canon (length sp))).
Proof.
  intros sp f. unfold clear_one, clear_cache_body. simpl m_ws. simpl m_dicts.
  destruct (le_lt_dec (length sp) f) as [Hf|Hf].
  - rewrite nth_error_canon_ge by exact Hf. cbn. rewrite set_nth_oob by exact Hf. reflexivity.
  - rewrite nth_error_canon_lt by exact Hf. cbn. reflexivity.
Qed.

Lemma spec_clear_list_length : forall fs sp, length (spec_clear_list fs sp) = length sp.
Proof. induction fs as [|f t IH]; intros sp; simpl; [reflexivity|]. rewrite IH. apply set_nth_length. Qed.

Lemma clear_list_step : forall fs sp,
  clear_list clear_cache_body fs (mkm sp (canon (length sp))) = Some (mkm (spec_clear_list fs sp) (canon (length sp))).
Proof.
  induction fs as [|f t IH]; intros sp; simpl; [reflexivity|].
  rewrite clear_step. pose proof (IH (set_nth f [] sp)) as H. rewrite set_nth_length in H. exact H.
Qed.

(* ---- every history *)
Lemma run_hist_refines : forall h sp,
  run_hist memoize_wrapper clear_cache_body h (mkm sp (canon (length sp))) =
  Some (mkm (fst (spec_hist h sp)) (canon (length sp)), snd (spec_hist h sp)) /\
  length (fst (spec_hist h sp)) = length sp.
Proof.
  induction h as [|o t IH]; intros sp; [split; reflexivity|].
  destruct o as [f c | f | ]; cbn [run_hist spec_hist].
  - rewrite call_step. pose proof (spec_call_length f c sp) as Hl.
    destruct (spec_call f c sp) as [sp1 r] eqn:E. simpl in *.
    destruct (IH sp1) as [H1 H2]. rewrite Hl in H1. rewrite H1.
    destruct (spec_hist t sp1) as [sp2 rs]. simpl in *. split; [reflexivity | lia].
  - rewrite clear_step. destruct (IH (set_nth f [] sp)) as [H1 H2]. rewrite set_nth_length in H1, H2.
    split; [exact H1 | exact H2].
  - cbn [m_ws]. rewrite canon_length. rewrite clear_list_step.
    destruct (IH (spec_clear_list (seq 0 (length sp)) sp)) as [H1 H2]. rewrite spec_clear_list_length in H1, H2.
    split; [exact H1 | exact H2].
Qed.

Theorem memoize_refines_store : forall n h, exists st0 st',
  decorate_all memoize_pre memoize_post n = Some st0 /\
  run_hist memoize_wrapper clear_cache_body h st0 = Some (st', snd (spec_hist h (repeat [] n))) /\
  m_dicts st' = fst (spec_hist h (repeat [] n)).
Proof.
  intros n h. exists (mkm (repeat [] n) (canon n)).
  destruct (run_hist_refines h (repeat [] n)) as [H1 _]. rewrite repeat_length in H1.
  eexists. split; [apply decorate_all_canon|]. split; [exact H1 | reflexivity].
Qed.

Lemma canon_handles_ok : forall sp, handles_ok (mkm sp (canon (length sp))).
Proof.
  intros sp f w H. simpl in *.
  destruct (le_lt_dec (length sp) f) as [Hf|Hf].
  - rewrite nth_error_canon_ge in H by exact Hf. discriminate.
  - rewrite nth_error_canon_lt in H by exact Hf. inversion H; subst. exists f. simpl. auto.
Qed.

Theorem consulted_dict_is_cleared_dict : forall n h st0 st' rs,
  decorate_all memoize_pre memoize_post n = Some st0 ->
  run_hist memoize_wrapper clear_cache_body h st0 = Some (st', rs) ->
  handles_ok st'.
Proof.
  intros n h st0 st' rs H0 H1. rewrite decorate_all_canon in H0. inversion H0; subst st0. clear H0.
  destruct (run_hist_refines h (repeat [] n)) as [H2 H3]. rewrite repeat_length in H2.
  rewrite H2 in H1. inversion H1; subst.
  pose proof (canon_handles_ok (fst (spec_hist h (repeat [] n)))) as Hc. rewrite H3, repeat_length in Hc. exact Hc.
Qed.

(* ---- clear_mask_caches = clear_cache on every decorated to_mask: afterwards every store is empty *)
Lemma nth_set_nth_nil : forall (l : list dict) f g, nth f (set_nth g [] l) [] = if Nat.eqb f g then [] else nth f l [].
Proof.
  induction l as [|h t IH]; intros f g.
  - destruct g; destruct f; simpl; try reflexivity. destruct (Nat.eqb f g); reflexivity.
  - destruct g as [|g]; destruct f as [|f]; simpl; try reflexivity. apply IH.
Qed.

Lemma spec_clear_list_nth : forall fs sp f,
  nth f (spec_clear_list fs sp) [] = if existsb (Nat.eqb f) fs then [] else nth f sp [].
Proof.
  induction fs as [|g t IH]; intros sp f; simpl; [reflexivity|].
  rewrite IH, nth_set_nth_nil. destruct (Nat.eqb f g); simpl; [destruct (existsb _ t); reflexivity | reflexivity].
Qed.

Theorem clear_mask_caches_empties_every_store :
  clear_mask_caches_walk = 1 /\
  forall sp f, nth f (spec_clear_list (seq 0 (length sp)) sp) [] = [].
Proof.
  split; [reflexivity|]. intros sp f. rewrite spec_clear_list_nth.
  destruct (existsb (Nat.eqb f) (seq 0 (length sp))) eqn:E; [reflexivity|].
  apply nth_overflow. destruct (le_lt_dec (length sp) f) as [Hf|Hf]; [exact Hf|].
  exfalso. assert (existsb (Nat.eqb f) (seq 0 (length sp)) = true) as Ht.
  { apply existsb_exists. exists f. split; [apply in_seq; lia | apply Nat.eqb_refl]. }
  rewrite Ht in E. discriminate.
Qed.

(* ---- the bounded variant that REPLACES the dict when it is full: refuted.  Three different keys with bound 2 (the third store re-binds the
   closure variable), clear_mask_caches, the third request again after the function's value changed: the wrapper still returns the old value,
   because clear_cache emptied the dict `__memoize_cache` refers to, which is no longer the dict the wrapper consults. *)
Definition k_ (i : nat) : key := mkkey 0 i 0 0 0.
Definition refute_hist : list hop :=
  [HCall 0 (mkcall false true (k_ 1) (Some 1)); HCall 0 (mkcall false true (k_ 2) (Some 2)); HCall 0 (mkcall false true (k_ 3) (Some 3));
   HClearAll; HCall 0 (mkcall false true (k_ 3) (Some 7))].

Theorem rebinding_refuted :
  exists h st0 st' rs,
    decorate_all memoize_pre memoize_post 1 = Some st0 /\
    run_hist (wrapper_rebinding 2) clear_cache_body h st0 = Some (st', rs) /\
    rs <> snd (spec_hist h (repeat [] 1)) /\
    ~ handles_ok st'.
Proof.
  exists refute_hist. eexists. eexists. eexists.
  split; [vm_compute; reflexivity|]. split; [vm_compute; reflexivity|]. split.
  - vm_compute. intro H. discriminate H.
  - intro H. destruct (H 0 _ eq_refl) as [r [H1 [H2 _]]]. simpl in H1, H2. congruence.
Qed.
