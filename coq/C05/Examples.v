(* C05 -- non-vacuity, sanity runs, and the witnesses for the policy of the unrepaired tree. *)
From Coq Require Import List Bool Arith Lia.
Import ListNotations.
From GV Require Import gen.Gen_memo C01.Heap C01.Model C05.Memo C05.Model C05.Lemmas.

(* parts x > 1 (slot 0) and x < 5 (slot 1) on 4 elements; the values version decides the masks *)
Definition fr0 : fresh_fn := fun n p dv l d v =>
  match n, dv with
  | 0, 0 => Some [false; true; true; true]   | 0, _ => Some [true; true; false; false]
  | 1, 0 => Some [true; true; true; false]   | 1, _ => Some [false; true; true; true]
  | 2, _ => match l with 1 => Some [true; false; true; false] | _ => None end      (* needs the link *)
  | _, _ => Some [false; false; false; false]
  end.

(* (x > 1) & (x < 5): And memoised in cache 6, the inequalities in cache 9 *)
Definition eand : nexpr := NBin 1 (Some 6) BAnd (NLeaf 2 (Some 9) 0) (NLeaf 3 (Some 9) 1).
Definition rand : req := mkreq 0 0 true FKW eand.
Definition elink : nexpr := NNot 4 (Some 10) (NLeaf 5 (Some 9) 2).
Definition rlink : req := mkreq 0 0 true FKW elink.

Definition den0 : world -> nat -> nat -> nat -> option mask := fun w i d v =>
  let l := fun n => lm_of fr0 w n d v in
  match i with
  | 1 => evalo l (erase eand) | 2 => l 0 | 3 => l 1
  | 4 => evalo l (erase elink) | 5 => l 2
  | _ => None
  end.

Definition hist0 : list op :=
  [OEval rand; OEval rlink; OUpdateComponents [6] [6; 9] [rand]; OEval rand; OAddLink; OEval rlink; OMoveTo [0]; OEval rand; ORemoveLink; OEval rlink].

Example hist0_ok : ops_ok den0 fr0 hist0 world0.
Proof. simpl. unfold req_okE. simpl. repeat split; try reflexivity; repeat constructor; reflexivity. Qed.

Example hist0_has_no_setattr : forall o, In o hist0 -> is_setattr o = false.
Proof. intros o H. simpl in H. repeat (destruct H as [H|H]; [subst o; reflexivity|]). contradiction. Qed.

(* the history is non-trivial: masks, an exception before the link exists, a listener during the update *)
Eval vm_compute in snd (run table_policy fr0 hist0 world0 empty_state).
Eval vm_compute in fresh_run fr0 hist0 world0.

(* WITNESSES for the policy of the unrepaired tree (glue-core @ 56f48f0), which is why policy_covers is needed:
   (x > 1) & (x < 5) is the only attached subset; update_components clears the function cache of And
   (its top-level class) only, and only after the broadcast *)
Definition hist_nested : list op := [OEval rand; OUpdateComponents [6] [6; 9] []; OEval rand].
Example stale_nested_refuted_orig :
  snd (run policy_orig fr0 hist_nested world0 empty_state) <> fresh_run fr0 hist_nested world0.
Proof. vm_compute. intro H. inversion H. Qed.

Definition hist_listener : list op := [OEval rand; OUpdateComponents [6; 9] [6; 9] [rand]].
Example stale_listener_refuted_orig :
  snd (run policy_orig fr0 hist_listener world0 empty_state) <> fresh_run fr0 hist_listener world0.
Proof. vm_compute. intro H. inversion H. Qed.

Definition hist_link : list op := [OAddLink; OEval rlink; ORemoveLink; OEval rlink].
Example stale_link_refuted_orig :
  snd (run policy_orig fr0 hist_link world0 empty_state) <> fresh_run fr0 hist_link world0.
Proof. vm_compute. intro H. inversion H. Qed.

Definition hist_move : list op := [OEval rand; OMoveTo [0]; OEval rand].
Definition fr1 : fresh_fn := fun n p dv l d v =>
  match n, p with 0, 0 => Some [false; true; true; true] | 0, _ => Some [true; false; false; true] | _, _ => Some [true; true; true; false] end.
Example stale_move_to_refuted_orig :
  snd (run policy_orig fr1 hist_move world0 empty_state) <> fresh_run fr1 hist_move world0.
Proof. vm_compute. intro H. inversion H. Qed.

(* the same histories under the policy of the current source *)
Example nested_now_fresh :
  snd (run table_policy fr0 hist_nested world0 empty_state) = fresh_run fr0 hist_nested world0 /\
  snd (run table_policy fr0 hist_listener world0 empty_state) = fresh_run fr0 hist_listener world0 /\
  snd (run table_policy fr0 hist_link world0 empty_state) = fresh_run fr0 hist_link world0 /\
  snd (run table_policy fr1 hist_move world0 empty_state) = fresh_run fr1 hist_move world0.
Proof. vm_compute. repeat split; reflexivity. Qed.

(* an exception is not cached: evaluate without the link (raises), add the link, evaluate *)
Example exception_not_cached :
  snd (run (fun _ => None) fr0 [OEval rlink; OAddLink; OEval rlink] world0 empty_state)
  = [None; Some [false; true; false; true]].
Proof. vm_compute. reflexivity. Qed.

(* ---- Round 6: non-vacuity of the linking theorems: a well-keyed history over two decorated functions with a hit, clear_cache(0), a recomputation,
   an unhashable call, a raising function, clear_mask_caches; the one memo returns the non-trivial results below, and so do the translated programs. *)
Definition lk (f i : nat) : key := mkkey f i 0 0 0.
Definition link_hist : list hop :=
  [HCall 0 (mkcall false true (lk 0 1) (Some 5)); HCall 1 (mkcall false true (lk 1 1) (Some 6)); HCall 0 (mkcall false true (lk 0 1) (Some 7));
   HClear 0; HCall 0 (mkcall false true (lk 0 1) (Some 7)); HCall 1 (mkcall false true (lk 1 1) (Some 9));
   HCall 1 (mkcall false false (lk 1 1) (Some 9)); HCall 1 (mkcall false true (lk 1 2) None);
   HClearAll; HCall 1 (mkcall false true (lk 1 1) (Some 9))].
Example link_hist_well_keyed : well_keyed link_hist.
Proof. repeat constructor. Qed.
Example link_hist_results :
  snd (flat_hist 2 link_hist []) = [RVal 5; RVal 6; RVal 5; RVal 7; RVal 6; RVal 9; RExc X_FUNC; RVal 9] /\
  mlookup (lk 1 1) (fst (flat_hist 2 link_hist [])) = Some 9 /\ mlookup (lk 0 1) (fst (flat_hist 2 link_hist [])) = None.
Proof. vm_compute. auto. Qed.
Example link_hist_translated : exists st0 st',
  decorate_all memoize_pre memoize_post 2 = Some st0 /\
  run_hist memoize_wrapper clear_cache_body link_hist st0 =
    Some (st', [RVal 5; RVal 6; RVal 5; RVal 7; RVal 6; RVal 9; RExc X_FUNC; RVal 9]) /\
  mlookup (lk 1 1) (concat (m_dicts st')) = Some 9.
Proof.
  destruct (translated_memoize_is_model_memo 2 link_hist link_hist_well_keyed) as [st0 [st' [H0 [H1 [H2 _]]]]].
  exists st0, st'. split; [exact H0|]. split; [exact H1|]. rewrite H2. reflexivity.
Qed.
(* the side condition of with_memo_e_is_wrapper_call holds at the And node of hist0's first request (nested: two inequality evaluations) *)
Example with_memo_e_side_condition_met :
  let compute := fun st => match evalE (lm_of fr0 world0) true 0 0 FPOS (NLeaf 2 (Some 9) 0) st with
                           | (st1, Some x) => match evalE (lm_of fr0 world0) true 0 0 FPOS (NLeaf 3 (Some 9) 1) st1 with
                                              | (st2, Some y) => salloc_e st2 (map2 andb (sget st2 x) (sget st2 y))
                                              | (st2, None) => (st2, None) end
                           | (st1, None) => (st1, None) end in
  mlookup (mkkey 6 1 0 0 FKW) (st_memo (fst (compute empty_state))) = None /\
  snd (with_memo_e true (Some 6) 1 0 0 FKW compute empty_state) = Some 2 /\
  length (st_memo (fst (with_memo_e true (Some 6) 1 0 0 FKW compute empty_state))) = 3.
Proof. vm_compute. auto. Qed.
