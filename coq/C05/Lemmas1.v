(* C05 -- one evaluation through the memo store, with exceptions, in a fixed world:
   from a coherent store the result is the fresh value (or the fresh exception), nothing that existed is
   altered, the store stays coherent. *)
From Coq Require Import List Bool Arith Lia.
Import ListNotations.
From GV Require Import C01.Heap C01.HeapLemmas C01.Model C01.Lemmas1 C05.Model.

Lemma sem_okE_all_forall : forall den lm d v l,
  (fix all (l : list nexpr) : Prop := match l with [] => True | c :: t => sem_okE den lm d v c /\ all t end) l
  <-> Forall (sem_okE den lm d v) l.
Proof.
  induction l as [|c t IH]; simpl.
  - split; auto.
  - split.
    + intros [H1 H2]. constructor; auto. apply IH; auto.
    + intro H. inversion H; subst. split; auto. apply IH; auto.
Qed.

Lemma sem_okE_den : forall den lm d v e,
  sem_okE den lm d v e -> den (nid e) d v = evalo (fun n => lm n d v) (erase e).
Proof. intros den lm d v e H. destruct e; simpl in H; tauto. Qed.

(* outcome of one evaluation step *)
Definition goodE (den : nat -> nat -> nat -> option mask) (val : option mask) (st st' : state) (r : option addr) : Prop :=
  frame (st_heap st) (st_heap st') /\
  coherentE den st' /\
  memo_mono st st' /\
  match r with
  | Some a => a < length (st_heap st') /\ val = Some (sget st' a)
  | None => val = None
  end.

Definition freshE (st : state) (r : option addr) : Prop :=
  match r with Some a => length (st_heap st) <= a | None => True end.

Lemma memo_mono_refl : forall st, memo_mono st st.
Proof. intros st k a H. left; auto. Qed.

Lemma memo_mono_trans : forall s1 s2 s3,
  length (st_heap s1) <= length (st_heap s2) -> memo_mono s1 s2 -> memo_mono s2 s3 -> memo_mono s1 s3.
Proof.
  intros s1 s2 s3 L M12 M23 k a H.
  destruct (M23 k a H) as [H2|H2].
  - apply M12; auto.
  - right. lia.
Qed.

Lemma coherentE_frame : forall den st h',
  coherentE den st -> frame (st_heap st) h' -> coherentE den (mkstate h' (st_memo st)).
Proof.
  intros den st h' C [L F] k a H. simpl in *.
  destruct (C k a H) as [Ha Hv]. split; [lia|]. rewrite F; auto.
Qed.

Lemma goodE_alloc : forall den st st2 m,
  coherentE den st2 -> frame (st_heap st) (st_heap st2) -> memo_mono st st2 ->
  let q := salloc_e st2 m in
  goodE den (Some m) st (fst q) (snd q) /\ freshE st (snd q).
Proof.
  intros den st st2 m C F M. unfold salloc_e, salloc, halloc, goodE, freshE. simpl.
  split; [split; [|split; [|split; [|split]]]|].
  - eapply frame_trans; eauto. apply frame_alloc.
  - apply (coherentE_frame den st2 (st_heap st2 ++ [m])); auto. apply frame_alloc.
  - intros k a H. simpl in *. apply M; auto.
  - rewrite app_length. simpl. lia.
  - unfold sget. simpl. rewrite hget_alloc_new. reflexivity.
  - destruct F; auto.
Qed.

Lemma goodE_none : forall den st st1,
  frame (st_heap st) (st_heap st1) -> coherentE den st1 -> memo_mono st st1 ->
  goodE den None st st1 None /\ freshE st None.
Proof. intros den st st1 F C M. unfold goodE, freshE. simpl. split; [split; [auto|split; [auto|split; auto]]|auto]. Qed.

Lemma with_memo_e_good : forall den hk fn id d v form compute st val,
  coherentE den st -> den id d v = val ->
  (let q := compute st in goodE den val st (fst q) (snd q) /\ freshE st (snd q)) ->
  let q := with_memo_e hk fn id d v form compute st in goodE den val st (fst q) (snd q).
Proof.
  intros den hk fn id d v form compute st val C Hden Hc. unfold with_memo_e.
  destruct fn as [f|]; [|apply Hc].
  destruct hk; [|apply Hc].
  destruct (mlookup (mkkey f id d v form) (st_memo st)) as [a|] eqn:E.
  - simpl. destruct (C _ _ E) as [Ha Hv]. simpl in Hv.
    unfold goodE. simpl. split; [apply frame_refl|]. split; [auto|]. split; [apply memo_mono_refl|].
    split; auto. rewrite <- Hden. rewrite Hv. reflexivity.
  - destruct (compute st) as [st' [a|]] eqn:Ec; simpl in *.
    + destruct Hc as [[F [C' [M [Ha Hv]]]] Hfresh].
      unfold goodE. simpl. split; [auto|]. split; [|split; [|split; auto]].
      * intros k b H. simpl in H.
        destruct (key_eqb k (mkkey f id d v form)) eqn:Ek.
        -- apply key_eqb_eq in Ek. subst k. inversion H; subst b. simpl. split; auto.
           rewrite Hden. rewrite Hv. reflexivity.
        -- apply C'; auto.
      * intros k b H. simpl in H.
        destruct (key_eqb k (mkkey f id d v form)) eqn:Ek.
        -- inversion H; subst b. right; auto.
        -- apply M; auto.
    + destruct Hc as [G _]. exact G.
Qed.

Section FaithfulE.
  Variable lm : nat -> nat -> nat -> option mask.
  Variable den : nat -> nat -> nat -> option mask.
  Variable hk : bool.
  Variable d v : nat.

  Let lmv := fun n => lm n d v.
  Let ev := fun c s => evalE lm hk d v FKW c s.

  Lemma or_loop_good : forall (cs : list nexpr) (st s : state) (r : addr),
    Forall (fun c => forall form st0, coherentE den st0 -> sem_okE den lm d v c ->
                       let q := evalE lm hk d v form c st0 in
                       goodE den (evalo lmv (erase c)) st0 (fst q) (snd q)) cs ->
    Forall (sem_okE den lm d v) cs ->
    length (st_heap st) <= r -> r < length (st_heap s) ->
    frame (st_heap st) (st_heap s) -> coherentE den s -> memo_mono st s ->
    (forall k a, mlookup k (st_memo s) = Some a -> a <> r) ->
    let q := or_loop ev r cs s in
    goodE den (fold_left (fun acc c' => lift2 orb acc (evalo lmv c')) (map erase cs) (Some (sget s r))) st (fst q) (snd q)
    /\ freshE st (snd q).
  Proof.
    induction cs as [|c cs IH]; intros st s r HIH Hok Hr Hrs F C M Hne; simpl.
    - unfold goodE, freshE. simpl. split; [split; [auto|split; [auto|split; [auto|split; auto]]]|auto].
    - inversion HIH as [|? ? Hc HIH']; subst. inversion Hok as [|? ? Okc Hok']; subst.
      specialize (Hc FKW s C Okc).
      change (evalE lm hk d v FKW c s) with (ev c s) in Hc.
      destruct (ev c s) as [s1 [y|]] eqn:E; simpl in Hc.
      + destruct Hc as [F1 [C1 [M1 [Hy Hvy]]]].
        destruct F1 as [L1 F1].
        assert (Hr1 : r < length (st_heap s1)) by lia.
        assert (Hne1 : forall k a, mlookup k (st_memo s1) = Some a -> a <> r).
        { intros k a H. destruct (M1 k a H) as [H1|H1]; [eapply Hne; eauto|lia]. }
        rewrite Hvy. simpl.
        match goal with |- context [fold_left _ _ (Some ?acc)] =>
          replace acc with (sget (mkstate (hior (st_heap s1) r y) (st_memo s1)) r) end.
        2:{ unfold sget. simpl. unfold hior. rewrite hget_hset_same by auto.
            rewrite F1 by auto. reflexivity. }
        apply IH; auto.
        * simpl. unfold hior. rewrite hset_length. auto.
        * simpl. unfold hior. apply frame_hset_fresh; auto.
          apply (frame_trans _ (st_heap s)); auto. split; auto.
        * intros k a H. simpl in *. destruct (C1 k a H) as [Ha Hv]. split.
          -- unfold hior. rewrite hset_length. auto.
          -- unfold hior. rewrite hget_hset_other; auto. intro Hx. apply (Hne1 k a H). auto.
        * intros k a H. simpl in H.
          destruct (M1 k a H) as [H1|H1].
          -- apply M; auto.
          -- right. destruct F as [LF _]. lia.
      + destruct Hc as [F1 [C1 [M1 Hnone]]]. rewrite Hnone. simpl.
        assert (Hfold : forall l, fold_left (fun acc c' => lift2 orb acc (evalo lmv c')) l None = None).
        { induction l as [|x l IHl]; simpl; auto. }
        rewrite Hfold.
        apply goodE_none; auto.
        * apply (frame_trans _ (st_heap s)); auto.
        * apply (memo_mono_trans st s s1); auto. destruct F; auto.
  Qed.

  Lemma evalo_bin : forall i fn op a b,
    evalo lmv (erase (NBin i fn op a b)) = lift2 (bop op) (evalo lmv (erase a)) (evalo lmv (erase b)).
  Proof. intros i fn op a b. destruct op; reflexivity. Qed.

  Lemma evalE_good : forall e form st,
    coherentE den st -> sem_okE den lm d v e ->
    let q := evalE lm hk d v form e st in
    goodE den (evalo lmv (erase e)) st (fst q) (snd q).
  Proof.
    induction e as [i fn n|i fn op a b IHa IHb|i fn a IHa|i fn l IHl] using nexpr_ind'; intros form st C Ok.
    - (* leaf *)
      simpl. apply with_memo_e_good; auto.
      + apply (sem_okE_den _ _ _ _ _ Ok).
      + unfold lmv. destruct (lm n d v) as [m|] eqn:El.
        * apply goodE_alloc; auto. apply frame_refl. apply memo_mono_refl.
        * simpl. apply goodE_none; auto. apply frame_refl. apply memo_mono_refl.
    - (* and / or / xor *)
      pose proof (sem_okE_den _ _ _ _ _ Ok) as Hden. simpl in Ok. destruct Ok as [_ [Oka Okb]].
      simpl evalE. apply with_memo_e_good; auto.
      rewrite evalo_bin.
      specialize (IHa FPOS st C Oka).
      destruct (evalE lm hk d v FPOS a st) as [st1 [x|]] eqn:Ea; simpl in IHa.
      + destruct IHa as [F1 [C1 [M1 [Hx Hvx]]]].
        specialize (IHb FPOS st1 C1 Okb).
        destruct (evalE lm hk d v FPOS b st1) as [st2 [y|]] eqn:Eb; simpl in IHb.
        * destruct IHb as [F2 [C2 [M2 [Hy Hvy]]]].
          assert (Hx2 : sget st2 x = sget st1 x).
          { unfold sget. destruct F2 as [_ F2]. rewrite F2; auto. }
          rewrite Hvx, Hvy. simpl. rewrite Hx2.
          apply goodE_alloc; auto.
          -- apply (frame_trans _ (st_heap st1)); auto.
          -- apply (memo_mono_trans st st1 st2); auto. destruct F1; auto.
        * destruct IHb as [F2 [C2 [M2 Hn]]]. rewrite Hn.
          replace (lift2 (bop op) (evalo lmv (erase a)) None) with (@None mask)
            by (destruct (evalo lmv (erase a)); reflexivity).
          apply goodE_none; auto.
          -- apply (frame_trans _ (st_heap st1)); auto.
          -- apply (memo_mono_trans st st1 st2); auto. destruct F1; auto.
      + destruct IHa as [F1 [C1 [M1 Hn]]]. rewrite Hn. simpl.
        apply goodE_none; auto.
    - (* not *)
      pose proof (sem_okE_den _ _ _ _ _ Ok) as Hden. simpl in Ok. destruct Ok as [_ Oka].
      simpl evalE. apply with_memo_e_good; auto.
      specialize (IHa FPOS st C Oka).
      change (evalo lmv (erase (NNot i fn a)))
        with (match evalo lmv (erase a) with Some x => Some (map negb x) | None => None end).
      destruct (evalE lm hk d v FPOS a st) as [st1 [x|]] eqn:Ea; simpl in IHa.
      + destruct IHa as [F1 [C1 [M1 [Hx Hvx]]]]. rewrite Hvx.
        apply goodE_alloc; auto.
      + destruct IHa as [F1 [C1 [M1 Hn]]]. rewrite Hn. apply goodE_none; auto.
    - (* n-ary or *)
      pose proof (sem_okE_den _ _ _ _ _ Ok) as Hden. simpl in Ok. destruct Ok as [_ Okl].
      apply sem_okE_all_forall in Okl.
      simpl evalE. apply with_memo_e_good; auto.
      destruct l as [|c0 cs].
      + simpl. apply goodE_none; auto. apply frame_refl. apply memo_mono_refl.
      + inversion IHl as [|? ? IH0 IHcs]; subst. inversion Okl as [|? ? Ok0 Okcs]; subst.
        change (evalo lmv (erase (NMulti i fn (c0 :: cs))))
          with (fold_left (fun acc c' => lift2 orb acc (evalo lmv c')) (map erase cs) (evalo lmv (erase c0))).
        specialize (IH0 FKW st C Ok0).
        destruct (evalE lm hk d v FKW c0 st) as [st0 [x0|]] eqn:E0; simpl in IH0.
        * destruct IH0 as [F0 [C0 [M0 [Hx0 Hv0]]]].
          pose proof (goodE_alloc den st st0 (sget st0 x0) C0 F0 M0) as [G1 Hfresh].
          unfold salloc_e in G1, Hfresh.
          destruct (salloc st0 (sget st0 x0)) as [st1 r] eqn:Es. simpl in G1, Hfresh.
          destruct G1 as [F1 [C1 [M1 [Hr Hvr]]]].
          assert (Hst1 : st1 = mkstate (st_heap st0 ++ [sget st0 x0]) (st_memo st0) /\ r = length (st_heap st0))
            by (unfold salloc, halloc in Es; inversion Es; split; reflexivity).
          destruct Hst1 as [Hst1 Hr0].
          assert (Hne : forall k a, mlookup k (st_memo st1) = Some a -> a <> r).
          { intros k a H. subst st1 r. simpl in H. destruct (C0 k a H) as [Ha _]. lia. }
          pose proof (or_loop_good cs st st1 r IHcs Okcs Hfresh Hr F1 C1 M1 Hne) as G.
          inversion Hvr as [Hvr2]. rewrite <- Hvr2 in G. rewrite Hv0. subst st1. subst r. exact G.
        * destruct IH0 as [F0 [C0 [M0 Hn]]]. rewrite Hn.
          assert (Hfold : forall l, fold_left (fun acc c' => lift2 orb acc (evalo lmv c')) l None = None).
          { induction l as [|x l IHl']; simpl; auto. }
          rewrite Hfold. apply goodE_none; auto.
  Qed.
End FaithfulE.
