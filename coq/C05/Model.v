(* C05 -- results always reflect the current data, regions and links: never a stale cache.
   Executable model, definitions only.  Extends C01's heap / memo model:

   [world]     versions of the inputs: parameters of every elementary state (bumped by move_to and by
               attribute setters / in-place edits of its region), the numerical values of the datasets
               (bumped by update_components / update_values_from_data), the links (bumped by add / remove link)
   [fresh]     what an elementary state computes in a world, or that it raises IncompatibleAttribute
   [evalE]     the implementation-shaped evaluator of C01 with exceptions: an exception propagates, is not
               cached, and leaves the results cached on the way
   [op]/[step] histories of evaluation and mutation; every mutation applies the cache-clearing policy that
               tools/gen/gen_memo.py extracts from the source ([Gen_memo.policy_of])
   [run_case]  wire entry point. *)
From Coq Require Import ZArith List Bool Arith.
Import ListNotations.
From GV Require Import Common.Wire gen.Gen_memo C01.Heap C01.Model C05.Memo.
Close Scope Z_scope.

(* ------------------------------------------------------------------ specification: fresh evaluation *)
Definition lift2 (f : bool -> bool -> bool) (a b : option mask) : option mask :=
  match a, b with Some x, Some y => Some (map2 f x y) | _, _ => None end.

(* elementwise evaluation where a part may raise: the whole selection raises *)
Fixpoint evalo (lm : nat -> option mask) (e : expr) : option mask :=
  match e with
  | Leaf n => lm n
  | And a b => lift2 andb (evalo lm a) (evalo lm b)
  | Or a b => lift2 orb (evalo lm a) (evalo lm b)
  | Xor a b => lift2 xorb (evalo lm a) (evalo lm b)
  | Not a => match evalo lm a with Some x => Some (map negb x) | None => None end
  | MultiOr l =>
    match l with
    | [] => None
    | c :: t => fold_left (fun acc c' => lift2 orb acc (evalo lm c')) t (evalo lm c)
    end
  end.

(* ------------------------------------------------------------------ the evaluator with exceptions *)
Definition with_memo_e (hk : bool) (fn : option nat) (id d v form : nat)
           (compute : state -> state * option addr) (st : state) : state * option addr :=
  match fn with
  | Some f =>
    if hk then
      let k := mkkey f id d v form in
      match mlookup k (st_memo st) with
      | Some a => (st, Some a)
      | None =>
        match compute st with
        | (st', Some a) => (mkstate (st_heap st') (mstore k a (st_memo st')), Some a)
        | (st', None) => (st', None)          (* an exception is not remembered *)
        end
      end
    else compute st
  | None => compute st
  end.

Definition salloc_e (st : state) (m : mask) : state * option addr :=
  let '(s, a) := salloc st m in (s, Some a).

(* the loop of MultiOrState.to_mask: `result |= child mask` for the remaining children, stopping at the first exception *)
Definition or_loop (ev : nexpr -> state -> state * option addr) (r : addr) : list nexpr -> state -> state * option addr :=
  fix loop (cs : list nexpr) (s : state) : state * option addr :=
    match cs with
    | [] => (s, Some r)
    | c :: t =>
      match ev c s with
      | (s', Some y) => loop t (mkstate (hior (st_heap s') r y) (st_memo s'))
      | (s', None) => (s', None)
      end
    end.

Section EvalE.
  Variable lm : nat -> nat -> nat -> option mask.   (* fresh result of leaf n on data d under view v, in the current world *)
  Variable hk : bool.
  Variable d v : nat.

  Fixpoint evalE (form : nat) (e : nexpr) (st : state) : state * option addr :=
    match e with
    | NLeaf id fn n =>
      with_memo_e hk fn id d v form
        (fun st => match lm n d v with Some m => salloc_e st m | None => (st, None) end) st
    | NBin id fn op a b =>
      with_memo_e hk fn id d v form (fun st =>
        match evalE FPOS a st with
        | (st1, Some x) =>
          match evalE FPOS b st1 with
          | (st2, Some y) => salloc_e st2 (map2 (bop op) (sget st2 x) (sget st2 y))
          | (st2, None) => (st2, None)
          end
        | (st1, None) => (st1, None)
        end) st
    | NNot id fn a =>
      with_memo_e hk fn id d v form (fun st =>
        match evalE FPOS a st with
        | (st1, Some x) => salloc_e st1 (map negb (sget st1 x))
        | (st1, None) => (st1, None)
        end) st
    | NMulti id fn l =>
      with_memo_e hk fn id d v form (fun st =>
        match l with
        | [] => (st, None)
        | c0 :: cs =>
          match evalE FKW c0 st with
          | (st0, Some x0) =>
            let '(st1, r) := salloc st0 (sget st0 x0) in
            or_loop (fun c s => evalE FKW c s) r cs st1
          | (st0, None) => (st0, None)
          end
        end) st
    end.
End EvalE.

(* ------------------------------------------------------------------ worlds *)
Definition vmap := list (nat * nat).
Fixpoint vget (m : vmap) (k : nat) : nat :=
  match m with [] => 0 | (k', x) :: t => if Nat.eqb k k' then x else vget t k end.
Definition vbump (m : vmap) (k : nat) : vmap := (k, S (vget m k)) :: m.

Record world := mkworld { w_p : vmap;      (* version of the parameters of each elementary state *)
                          w_d : nat;       (* version of the numerical values (any dataset) *)
                          w_l : nat }.     (* version of the links *)
Definition world0 : world := mkworld [] 0 0.

(* fresh results, as a function of the versions *)
Definition fresh_fn := nat -> nat -> nat -> nat -> nat -> nat -> option mask.   (* leaf pver dver lver data view *)
Definition lm_of (fr : fresh_fn) (w : world) : nat -> nat -> nat -> option mask :=
  fun n d v => fr n (vget (w_p w) n) (w_d w) (w_l w) d v.

(* ------------------------------------------------------------------ histories *)
(* the mutation paths, numbered as in tools/gen/gen_memo.py *)
Definition P_UPDATE_COMPONENTS : nat := 0.
Definition P_UPDATE_VALUES : nat := 1.
Definition P_SETATTR : nat := 2.
Definition P_MOVE_TO : nat := 3.
Definition P_LINKS : nat := 4.
Definition P_ALIGNED : nat := 5.
Definition P_REMOVE_COMPONENT : nat := 6.
Definition P_REPLACE_COMPONENT : nat := 7.

Inductive op : Type :=
| OEval (r : req)
| OUpdateComponents (tops reach : list nat) (listeners : list req)   (* Data.update_components; hub listeners evaluate during the broadcast *)
| OUpdateValues (tops reach : list nat) (listeners : list req)       (* Data.update_values_from_data (possibly a new shape) *)
| OMoveTo (leaves : list nat)                                        (* state.move_to(...) on a node: the regions of these parts move *)
| OSetAttr (leaves : list nat)                                       (* a setter / an in-place edit of the region of a part (all parts sharing it) *)
| OAddLink
| ORemoveLink
| OAligned                                                           (* the link change also changed which datasets are pixel aligned *)
| ORemoveComponent                                                   (* Data.remove_component of an existing attribute (and of what is derived from it) *)
| OReplaceComponent                                                  (* Data.add_component on an attribute that exists: its values are replaced *)
| OReplaceState.                                                     (* subset.subset_state = another state object: nothing to do with the store *)

(* cache-clearing policy of a mutation path: None = nothing is cleared;
   Some (scope, before): 0 = the function caches of the top-level states of the attached subsets ([tops]),
   1 = those of every state reachable from them ([reach]), 2 = every function cache; [before] = the clearing
   precedes the hub broadcast *)
Definition policy := nat -> option (nat * bool).

Definition clear_fns (fs : list nat) (m : memo) : memo := fold_left (fun m f => mclear f m) fs m.

Definition apply_scope (scope : nat) (tops reach : list nat) (m : memo) : memo :=
  match scope with
  | 0 => clear_fns tops m
  | 1 => clear_fns reach m
  | 2 => []
  | _ => m
  end.

Definition clear_path (pol : policy) (p : nat) (tops reach : list nat) (st : state) : state :=
  match pol p with
  | Some (scope, _) => mkstate (st_heap st) (apply_scope scope tops reach (st_memo st))
  | None => st
  end.

(* the same as a history of clear_cache(f) / clear_mask_caches() calls (C05.Memo.hop; MemoLink.clear_path_is_clear_cache) *)
Definition clear_hops (pol : policy) (p : nat) (tops reach : list nat) : list hop :=
  match pol p with
  | Some (0, _) => map HClear tops
  | Some (1, _) => map HClear reach
  | Some (2, _) => [HClearAll]
  | _ => []
  end.

Definition is_before (pol : policy) (p : nat) : bool :=
  match pol p with Some (_, b) => b | None => true end.

(* result of a request: the mask, or None when the evaluation raised *)
Definition eval_reqE (fr : fresh_fn) (w : world) (r : req) (st : state) : state * option mask :=
  match evalE (lm_of fr w) (r_hk r) (r_d r) (r_v r) (r_form r) (r_e r) st with
  | (st', Some a) => (st', Some (sget st' a))
  | (st', None) => (st', None)
  end.

Fixpoint run_reqsE (fr : fresh_fn) (w : world) (rs : list req) (st : state) : state * list (option mask) :=
  match rs with
  | [] => (st, [])
  | r :: t =>
    let '(st1, o) := eval_reqE fr w r st in
    let '(st2, os) := run_reqsE fr w t st1 in
    (st2, o :: os)
  end.

Definition bump_all (m : vmap) (ks : list nat) : vmap := fold_left vbump ks m.

(* a values update: new values, then (clear ; broadcast) or (broadcast ; clear) as the source orders them *)
Definition update_step (pol : policy) (fr : fresh_fn) (p : nat) (tops reach : list nat) (ls : list req)
           (w : world) (st : state) : world * state * list (option mask) :=
  let w' := mkworld (w_p w) (S (w_d w)) (w_l w) in
  if is_before pol p then
    let '(st2, os) := run_reqsE fr w' ls (clear_path pol p tops reach st) in (w', st2, os)
  else
    let '(st1, os) := run_reqsE fr w' ls st in (w', clear_path pol p tops reach st1, os).

Definition step (pol : policy) (fr : fresh_fn) (o : op) (w : world) (st : state) : world * state * list (option mask) :=
  match o with
  | OEval r => let '(st', res) := eval_reqE fr w r st in (w, st', [res])
  | OUpdateComponents tops reach ls => update_step pol fr P_UPDATE_COMPONENTS tops reach ls w st
  | OUpdateValues tops reach ls => update_step pol fr P_UPDATE_VALUES tops reach ls w st
  | OMoveTo ks => (mkworld (bump_all (w_p w) ks) (w_d w) (w_l w), clear_path pol P_MOVE_TO [] [] st, [])
  | OSetAttr ks => (mkworld (bump_all (w_p w) ks) (w_d w) (w_l w), clear_path pol P_SETATTR [] [] st, [])
  | OAddLink => (mkworld (w_p w) (w_d w) (S (w_l w)), clear_path pol P_LINKS [] [] st, [])
  | ORemoveLink => (mkworld (w_p w) (w_d w) (S (w_l w)), clear_path pol P_LINKS [] [] st, [])
  | OAligned => (mkworld (w_p w) (w_d w) (S (w_l w)), clear_path pol P_ALIGNED [] [] st, [])
  | ORemoveComponent => (mkworld (w_p w) (S (w_d w)) (w_l w), clear_path pol P_REMOVE_COMPONENT [] [] st, [])
  | OReplaceComponent => (mkworld (w_p w) (S (w_d w)) (w_l w), clear_path pol P_REPLACE_COMPONENT [] [] st, [])
  | OReplaceState => (w, st, [])
  end.

Fixpoint run (pol : policy) (fr : fresh_fn) (ops : list op) (w : world) (st : state) : world * state * list (option mask) :=
  match ops with
  | [] => (w, st, [])
  | o :: t =>
    let '(w1, st1, r1) := step pol fr o w st in
    let '(w2, st2, r2) := run pol fr t w1 st1 in
    (w2, st2, r1 ++ r2)
  end.

(* what a freshly constructed, never evaluated copy of the same objects returns for the same requests *)
Definition fresh_req (fr : fresh_fn) (w : world) (r : req) : option mask :=
  evalo (fun n => lm_of fr w n (r_d r) (r_v r)) (erase (r_e r)).

Definition world_after (o : op) (w : world) : world :=
  match o with
  | OEval _ | OReplaceState => w
  | OUpdateComponents _ _ _ | OUpdateValues _ _ _ | ORemoveComponent | OReplaceComponent => mkworld (w_p w) (S (w_d w)) (w_l w)
  | OMoveTo ks | OSetAttr ks => mkworld (bump_all (w_p w) ks) (w_d w) (w_l w)
  | OAddLink | ORemoveLink | OAligned => mkworld (w_p w) (w_d w) (S (w_l w))
  end.

Definition fresh_step (fr : fresh_fn) (o : op) (w : world) : list (option mask) :=
  match o with
  | OEval r => [fresh_req fr w r]
  | OUpdateComponents _ _ ls | OUpdateValues _ _ ls => map (fresh_req fr (world_after o w)) ls
  | _ => []
  end.

Fixpoint fresh_run (fr : fresh_fn) (ops : list op) (w : world) : list (option mask) :=
  match ops with
  | [] => []
  | o :: t => fresh_step fr o w ++ fresh_run fr t (world_after o w)
  end.

(* ------------------------------------------------------------------ specification of coherence *)
(* [den w i d v]: what the state object i denotes on (d, v) in world w (None: it raises) *)
Definition coherentE (den : nat -> nat -> nat -> option mask) (st : state) : Prop :=
  forall k a, mlookup k (st_memo st) = Some a ->
    a < length (st_heap st) /\ den (k_id k) (k_d k) (k_v k) = Some (hget (st_heap st) a).

Fixpoint sem_okE (den : nat -> nat -> nat -> option mask) (lm : nat -> nat -> nat -> option mask) (d v : nat) (e : nexpr) : Prop :=
  den (nid e) d v = evalo (fun n => lm n d v) (erase e) /\
  match e with
  | NLeaf _ _ _ => True
  | NBin _ _ _ a b => sem_okE den lm d v a /\ sem_okE den lm d v b
  | NNot _ _ a => sem_okE den lm d v a
  | NMulti _ _ l =>
    (fix all (l : list nexpr) : Prop := match l with [] => True | c :: t => sem_okE den lm d v c /\ all t end) l
  end.

Definition req_okE (den : world -> nat -> nat -> nat -> option mask) (fr : fresh_fn) (w : world) (r : req) : Prop :=
  sem_okE (den w) (lm_of fr w) (r_d r) (r_v r) (r_e r).

(* every request of the history uses identities consistently in the world in which it is made *)
Definition op_ok (den : world -> nat -> nat -> nat -> option mask) (fr : fresh_fn) (o : op) (w : world) : Prop :=
  match o with
  | OEval r => req_okE den fr w r
  | OUpdateComponents _ _ ls | OUpdateValues _ _ ls => Forall (req_okE den fr (world_after o w)) ls
  | _ => True
  end.

Fixpoint ops_ok (den : world -> nat -> nat -> nat -> option mask) (fr : fresh_fn) (ops : list op) (w : world) : Prop :=
  match ops with
  | [] => True
  | o :: t => op_ok den fr o w /\ ops_ok den fr t (world_after o w)
  end.

(* the mutation path of an operation, if it is a mutation *)
Definition path_of (o : op) : option nat :=
  match o with
  | OEval _ | OReplaceState => None
  | OUpdateComponents _ _ _ => Some P_UPDATE_COMPONENTS
  | OUpdateValues _ _ _ => Some P_UPDATE_VALUES
  | OMoveTo _ => Some P_MOVE_TO
  | OSetAttr _ => Some P_SETATTR
  | OAddLink | ORemoveLink => Some P_LINKS
  | OAligned => Some P_ALIGNED
  | ORemoveComponent => Some P_REMOVE_COMPONENT
  | OReplaceComponent => Some P_REPLACE_COMPONENT
  end.

(* the policy invalidates everything, before the broadcast, on every mutation path the history uses *)
Definition policy_covers (pol : policy) (ops : list op) : Prop :=
  forall o p, In o ops -> path_of o = Some p -> pol p = Some (2, true).

Definition is_setattr (o : op) : bool := match o with OSetAttr _ => true | _ => false end.

(* ------------------------------------------------------------------ the policies *)
(* the one regenerated from the current source *)
Definition table_policy : policy := fun p =>
  match scope_of p with Some s => Some (s, before_of p) | None => None end.

(* the one of the tree before the repairs (glue-core @ 56f48f0): update_components / update_values_from_data clear
   the function cache of the top-level state of each attached subset, after the broadcast; nothing else clears *)
Definition policy_orig : policy := fun p =>
  match p with 0 | 1 => Some (0, false) | _ => None end.

(* ------------------------------------------------------------------ wire *)
Local Open Scope Z_scope.

Definition dec_omask (t : tree) : option mask :=
  match t with T 1 [m] => Some (to_bools m) | _ => None end.
Definition enc_omask (o : option mask) : tree :=
  match o with Some m => T 1 [bools m] | None => T 0 [] end.

(* fresh table:  (0 (0 n pver dver lver d v res) ...) *)
Definition fresh_tab := list (nat * nat * nat * nat * nat * nat * option mask).
Definition dec_fresh (t : tree) : fresh_tab :=
  map (fun e => match e with
                | T _ [T n _; T p _; T dv _; T l _; T d _; T v _; r] => (zn n, zn p, zn dv, zn l, zn d, zn v, dec_omask r)
                | _ => (0%nat, 0%nat, 0%nat, 0%nat, 0%nat, 0%nat, None)
                end) (kids t).
Fixpoint fresh_lookup (tb : fresh_tab) (n p dv l d v : nat) : option mask :=
  match tb with
  | [] => None
  | (n', p', dv', l', d', v', r) :: t =>
    if Nat.eqb n n' && Nat.eqb p p' && Nat.eqb dv dv' && Nat.eqb l l' && Nat.eqb d d' && Nat.eqb v v'
    then r else fresh_lookup t n p dv l d v
  end.

Definition nats (t : tree) : list nat := map zn (to_zs t).

Definition dec_reqs (t : tree) : option (list req) := sequence (map dec_req (kids t)).

Definition dec_op (t : tree) : option op :=
  match t with
  | T 1 [r] => match dec_req r with Some r' => Some (OEval r') | None => None end
  | T 2 [tops; reach; ls] =>
    match dec_reqs ls with Some l => Some (OUpdateComponents (nats tops) (nats reach) l) | None => None end
  | T 3 [tops; reach; ls] =>
    match dec_reqs ls with Some l => Some (OUpdateValues (nats tops) (nats reach) l) | None => None end
  | T 4 [ks] => Some (OMoveTo (nats ks))
  | T 5 [ks] => Some (OSetAttr (nats ks))
  | T 6 [] => Some OAddLink
  | T 7 [] => Some ORemoveLink
  | T 8 [] => Some OAligned
  | T 9 [] => Some OReplaceState
  | T 10 [] => Some ORemoveComponent
  | T 11 [] => Some OReplaceComponent
  | _ => None
  end.

(* ---- the translated memoize / clear_cache (C05.Memo) on a history of calls and clears *)
Definition dec_hop (t : tree) : option hop :=
  match t with
  | T 1%Z [T f _; T mk _; T h _; T kid _; T 0%Z []] => Some (HCall (zn f) (mkcall (negb (Z.eqb mk 0)) (negb (Z.eqb h 0)) (mkkey 0 (zn kid) 0 0 0) None))
  | T 1%Z [T f _; T mk _; T h _; T kid _; T 1%Z [T a _]] => Some (HCall (zn f) (mkcall (negb (Z.eqb mk 0)) (negb (Z.eqb h 0)) (mkkey 0 (zn kid) 0 0 0) (Some (zn a))))
  | T 2%Z [T f _] => Some (HClear (zn f))
  | T 3%Z [] => Some HClearAll
  | _ => None
  end.

Definition enc_res (r : res) : tree :=
  match r with RVal a => T 1%Z [leaf (nz a)] | RExc x => T 2%Z [leaf (nz x)] | RStuck => T 3%Z [] end.


Definition run_case (t : tree) : tree :=
  match t with
  (* 1: a history under the policy of the current source: results as the code returns them, and what fresh objects return *)
  | T 1 [ft; T _ ops] =>
    match sequence (map dec_op ops) with
    | Some ops' =>
      let fr := fresh_lookup (dec_fresh ft) in
      let '(_, _, res) := run table_policy fr ops' world0 empty_state in
      T 1 [T 0 (map enc_omask res); T 0 (map enc_omask (fresh_run fr ops' world0))]
    | None => err 1
    end
  (* 2: the same history under the policy of the unrepaired tree *)
  | T 2 [ft; T _ ops] =>
    match sequence (map dec_op ops) with
    | Some ops' =>
      let fr := fresh_lookup (dec_fresh ft) in
      let '(_, _, res) := run policy_orig fr ops' world0 empty_state in
      T 1 [T 0 (map enc_omask res); T 0 (map enc_omask (fresh_run fr ops' world0))]
    | None => err 1
    end
  (* 3: the policy table as the model sees it *)
  | T 3 [T p _] =>
    match table_policy (zn p) with
    | Some (s, b) => T 1 [leaf (nz s); leaf (of_bool b); leaf (of_bool (uncond_of (zn p)))]
    | None => T 0 []
    end
  (* 4: n decorated functions, a history of calls / clear_cache / clear_mask_caches through the translated memoize *)
  | T 4 [T n _; T _ ops] =>
    match sequence (map dec_hop ops), decorate_all memoize_pre memoize_post (zn n) with
    | Some h, Some st0 =>
      match run_hist memoize_wrapper clear_cache_body h st0 with
      | Some (st1, rs) =>
        T 1 [T 0 (map enc_res rs);
             T 0 (map (fun w => T 0 [match w_cell w with Some r => leaf (nz r) | None => leaf (-1) end;
                                     match w_cache w with Some r => leaf (nz r) | None => leaf (-1) end]) (m_ws st1));
             T 0 (map (fun d => leaf (nz (length d))) (m_dicts st1))]
      | None => err 4
      end
    | _, _ => err 3
    end
  | _ => err 2
  end.
