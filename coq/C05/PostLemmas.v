(* C05 -- post-processing reads of cached values: proofs. *)
From Coq Require Import List Bool Arith Lia.
Import ListNotations.
From GV Require Import gen.Gen_memo C05.Post.

(* ------------------------------------------------------------------ (1) reads with post-processing *)
Section PostReads.
  Variables K S V R : Type.
  Variable keqb : K -> K -> bool.
  Hypothesis keqb_eq : forall a b, keqb a b = true -> a = b.
  Variable compute : K -> V.
  Variable post : S -> V -> R.

  Lemma cached_value_sound : forall cache k,
    pcache_ok K V compute cache ->
    fst (cached_value K V keqb compute cache k) = compute k /\
    pcache_ok K V compute (snd (cached_value K V keqb compute cache k)).
  Proof.
    intros cache k Hok. unfold cached_value. destruct cache as [[k' x]|].
    - destruct (keqb k k') eqn:E; simpl.
      + apply keqb_eq in E. subst k'. split; auto.
      + split; auto. intros k2 x2 H. inversion H; subst; reflexivity.
    - simpl. split; auto. intros k2 x2 H. inversion H; subst; reflexivity.
  Qed.

  Theorem post_reads_fresh : forall ops k s cache,
    pcache_ok K V compute cache ->
    prun K S V R keqb compute post (k, s, cache) ops = pspec K S V R compute post k s ops.
  Proof.
    induction ops as [|o ops IH]; intros k s cache Hok; simpl; auto.
    destruct o as [k'|s'|]; simpl.
    - apply IH; auto.
    - apply IH; auto.
    - destruct (cached_value_sound cache k Hok) as [H1 H2].
      destruct (cached_value K V keqb compute cache k) as [x c'] eqn:E. simpl in *.
      rewrite H1. f_equal. apply IH; auto.
  Qed.
End PostReads.

(* the in-place variant is NOT fresh: read with normalize on, switch it off, read again *)
Definition witness_ops : list (pop unit (bool * bool)) :=
  [PSetPres _ _ (false, true); PRead _ _; PSetPres _ _ (false, false); PRead _ _].
Theorem inplace_post_refuted :
  exists (compute : unit -> list nat) (ops : list (pop unit (bool * bool))),
    prun_mut unit (bool * bool) (list nat) unit_eqb compute hist_post (tt, (false, false), None) ops
    <> pspec unit (bool * bool) (list nat) (list nat) compute hist_post tt (false, false) ops.
Proof.
  exists (fun _ => [3; 0; 2]), witness_ops. vm_compute. intro H. inversion H.
Qed.
(* ... while the immutable cell gives the fresh results on the same history *)
Lemma witness_immutable_fresh :
  prun unit (bool * bool) (list nat) (list nat) unit_eqb (fun _ => [3; 0; 2]) hist_post (tt, (false, false), None) witness_ops
  = [[6; 0; 4]; [3; 0; 2]].
Proof. vm_compute. reflexivity. Qed.

(* ------------------------------------------------------------------ (2) the checker is sound *)
Definition approx (a : aset) (e : penv) : Prop := forall x, e x = 0 -> amem x a = true.

Lemma amem_app : forall x a b, amem x (a ++ b) = amem x a || amem x b.
Proof. intros. unfold amem. apply existsb_app. Qed.

Lemma amem_cons_same : forall x a, amem x (aadd x a) = true.
Proof. intros. unfold aadd. destruct (amem x a) eqn:E; auto. unfold amem. simpl. rewrite Nat.eqb_refl. reflexivity. Qed.

Lemma amem_cons_other : forall x y a, amem y a = true -> amem y (aadd x a) = true.
Proof. intros x y a H. unfold aadd. destruct (amem x a); auto. unfold amem in *. simpl. rewrite H. apply orb_true_r. Qed.

Lemma amem_aunion_l : forall x a b, amem x a = true -> amem x (aunion a b) = true.
Proof. intros. unfold aunion. rewrite amem_app, H. reflexivity. Qed.

Lemma amem_aunion_r : forall x a b, amem x b = true -> amem x (aunion a b) = true.
Proof.
  intros x a b H. unfold aunion. rewrite amem_app. destruct (amem x a) eqn:E; auto. simpl.
  unfold amem in *. apply existsb_exists in H as [z [Hin Hz]]. apply Nat.eqb_eq in Hz. subst z.
  apply existsb_exists. exists x. split; [|apply Nat.eqb_refl].
  apply filter_In. split; auto. apply negb_true_iff. exact E.
Qed.

Lemma iter_inv_approx : forall g n inv e, approx inv e -> approx (iter_inv g n inv) e.
Proof.
  intros g n. induction n as [|n IH]; intros inv e H; simpl; auto.
  destruct (g inv) as [p|]; auto. apply IH. intros x Hx. apply amem_aunion_l. apply H. exact Hx.
Qed.

Lemma amem_aremove : forall x y a, y <> x -> amem y a = true -> amem y (aremove x a) = true.
Proof.
  intros x y a Hne H. unfold amem, aremove in *. apply existsb_exists in H as [z [Hin Hz]].
  apply Nat.eqb_eq in Hz. subst z. apply existsb_exists. exists y. split.
  - apply filter_In. split; auto. apply negb_true_iff. apply Nat.eqb_neq. exact Hne.
  - apply Nat.eqb_refl.
Qed.

Lemma asubset_approx : forall p inv e, asubset p inv = true -> approx p e -> approx inv e.
Proof.
  intros p inv e Hs Ha x Hx. specialize (Ha x Hx). unfold asubset in Hs. rewrite forallb_forall in Hs.
  unfold amem in Ha. apply existsb_exists in Ha as [z [Hin Hz]]. apply Nat.eqb_eq in Hz. subst z. apply Hs. exact Hin.
Qed.

Lemma seq_an_cons : forall f s t a,
  seq_an f (s :: t) a = match f s a with Some a' => seq_an f t a' | None => None end.
Proof. reflexivity. Qed.

Lemma an_if : forall b1 b2 a,
  an (SIf b1 b2) a = match seq_an an b1 a, seq_an an b2 a with Some a1, Some a2 => Some (aunion a1 a2) | _, _ => None end.
Proof. reflexivity. Qed.

Lemma an_loop : forall b a,
  an (SLoop b) a = let inv := iter_inv (seq_an an b) (S (count_in n_assign b)) a in
                   match seq_an an b inv with Some p => if asubset p inv then Some inv else None | None => None end.
Proof. reflexivity. Qed.

Lemma exec_sound : forall e l e' w, exec e l e' w ->
  (forall a a', seq_an an l a = Some a' -> approx a e -> w = false /\ approx a' e') /\
  (forall body t inv p a', l = SLoop body :: t -> seq_an an body inv = Some p -> asubset p inv = true ->
       seq_an an t inv = Some a' -> approx inv e -> w = false /\ approx a' e').
Proof.
  intros e l e' w H.
  induction H as [e | e x c ys l t e' w Hl Ht IHt | e x t e' w Ht IHt | e t e' w Ht IHt | e c ys t e' w Ht IHt
                  | e a b t e1 w1 e' w Ha IHa Ht IHt | e a b t e1 w1 e' w Hb IHb Ht IHt
                  | e a t e' w Ht IHt | e a t e1 w1 e' w Ha IHa Hl IHl].
  - (* nil *) split.
    + intros a a' Hs Hap. simpl in Hs. inversion Hs; subst. auto.
    + intros body t inv p a' Heq. discriminate.
  - (* assign *) split; [|intros body t0 inv p a' Heq; discriminate].
    intros a a' Hs Hap. rewrite seq_an_cons in Hs. simpl in Hs.
    destruct IHt as [IH1 _]. eapply IH1; [exact Hs|].
    intros y Hy. unfold pupd in Hy. destruct (Nat.eqb y x) eqn:Eyx.
    + apply Nat.eqb_eq in Eyx. subst y.
      assert (Hc : c || existsb (fun y => amem y a) ys = true).
      { destruct (Hl Hy) as [Hc | [z [Hin Hz]]].
        - subst c. reflexivity.
        - apply orb_true_iff. right. apply existsb_exists. exists z. split; auto. }
      rewrite Hc. apply amem_cons_same.
    + apply Nat.eqb_neq in Eyx. specialize (Hap y Hy).
      destruct (c || existsb (fun y0 => amem y0 a) ys).
      * apply amem_cons_other. exact Hap.
      * apply amem_aremove; auto.
  - (* inplace *) split; [|intros body t0 inv p a' Heq; discriminate].
    intros a a' Hs Hap. rewrite seq_an_cons in Hs. simpl in Hs.
    destruct (amem x a) eqn:Ex; [discriminate|].
    destruct IHt as [IH1 _]. destruct (IH1 a a' Hs Hap) as [Hw Hap'].
    split; auto. rewrite Hw, orb_false_r. apply Nat.eqb_neq. intro H0. rewrite (Hap x H0) in Ex. discriminate.
  - (* inplace on the cache *) split; [|intros body t0 inv p a' Heq; discriminate].
    intros a a' Hs Hap. rewrite seq_an_cons in Hs. simpl in Hs. discriminate.
  - (* return *) split; [|intros body t0 inv p a' Heq; discriminate].
    intros a a' Hs Hap. rewrite seq_an_cons in Hs. simpl in Hs. destruct IHt as [IH1 _]. eapply IH1; eauto.
  - (* if, left *) split; [|intros body t0 inv p a' Heq; discriminate].
    intros a0 a' Hs Hap. rewrite seq_an_cons, an_if in Hs.
    destruct (seq_an an a a0) as [a1|] eqn:E1; [|discriminate].
    destruct (seq_an an b a0) as [a2|] eqn:E2; [|discriminate].
    destruct IHa as [IHa1 _]. destruct (IHa1 a0 a1 E1 Hap) as [Hw1 Hap1].
    destruct IHt as [IHt1 _].
    assert (Hap12 : approx (aunion a1 a2) e1).
    { intros x Hx. apply amem_aunion_l. exact (Hap1 x Hx). }
    destruct (IHt1 _ _ Hs Hap12) as [Hw Hap']. subst. auto.
  - (* if, right *) split; [|intros body t0 inv p a' Heq; discriminate].
    intros a0 a' Hs Hap. rewrite seq_an_cons, an_if in Hs.
    destruct (seq_an an a a0) as [a1|] eqn:E1; [|discriminate].
    destruct (seq_an an b a0) as [a2|] eqn:E2; [|discriminate].
    destruct IHb as [IHb1 _]. destruct (IHb1 a0 a2 E2 Hap) as [Hw1 Hap2].
    destruct IHt as [IHt1 _].
    assert (Hap12 : approx (aunion a1 a2) e1).
    { intros x Hx. apply amem_aunion_r. exact (Hap2 x Hx). }
    destruct (IHt1 _ _ Hs Hap12) as [Hw Hap']. subst. auto.
  - (* loop, no further iteration *)
    destruct IHt as [IHt1 _].
    assert (Second : forall body t0 inv p a', SLoop a :: t = SLoop body :: t0 -> seq_an an body inv = Some p -> asubset p inv = true ->
              seq_an an t0 inv = Some a' -> approx inv e -> w = false /\ approx a' e').
    { intros body t0 inv p a' Heq Hb Hsub Hs Hap. inversion Heq; subst. eapply IHt1; eauto. }
    split; [|exact Second].
    intros a0 a' Hs Hap. rewrite seq_an_cons, an_loop in Hs. cbv zeta in Hs.
    remember (iter_inv (seq_an an a) (S (count_in n_assign a)) a0) as inv eqn:Einv.
    destruct (seq_an an a inv) as [p|] eqn:Eb; [|discriminate].
    destruct (asubset p inv) eqn:Esub; [|discriminate].
    eapply Second; eauto.
    subst inv. apply iter_inv_approx. exact Hap.
  - (* loop, one more iteration *)
    destruct IHa as [IHa1 _]. destruct IHl as [_ IHl2].
    assert (Second : forall body t0 inv p a', SLoop a :: t = SLoop body :: t0 -> seq_an an body inv = Some p -> asubset p inv = true ->
              seq_an an t0 inv = Some a' -> approx inv e -> w1 || w = false /\ approx a' e').
    { intros body t0 inv p a' Heq Hb Hsub Hs Hap. inversion Heq; subst.
      destruct (IHa1 inv p Hb Hap) as [Hw1 Hap1].
      assert (Hinv : approx inv e1) by (eapply asubset_approx; eauto).
      destruct (IHl2 body t0 inv p a' eq_refl Hb Hsub Hs Hinv) as [Hw Hap']. subst. auto. }
    split; [|exact Second].
    intros a0 a' Hs Hap. rewrite seq_an_cons, an_loop in Hs. cbv zeta in Hs.
    remember (iter_inv (seq_an an a) (S (count_in n_assign a)) a0) as inv eqn:Einv.
    destruct (seq_an an a inv) as [p|] eqn:Eb; [|discriminate].
    destruct (asubset p inv) eqn:Esub; [|discriminate].
    eapply Second; eauto.
    subst inv. apply iter_inv_approx. exact Hap.
Qed.

(* a program the checker accepts never writes into the cached value, whatever branches are taken, however often loops run and whatever
   the right-hand sides that MAY alias actually return *)
Theorem safe_prog_sound : forall p, safe_prog p = true ->
  forall e e' w, clean e -> exec e p e' w -> w = false.
Proof.
  intros p Hs e e' w Hc He. unfold safe_prog in Hs.
  destruct (seq_an an p []) as [a'|] eqn:E; [|discriminate].
  destruct (exec_sound _ _ _ _ He) as [H1 _].
  apply (H1 [] a' E). intros x Hx. exfalso. exact (Hc x Hx).
Qed.

(* the checker is not vacuous: it rejects the in-place normalisation of an alias of the cached counts (the shape of seeded change C05-8:
   edges, unscaled = cache; scaled = np.asarray(unscaled); if ..: scaled /= ..) and that program does write into the cached value *)
Definition alias_prog : list pstmt := [SAssign 0 true []; SAssign 1 false [0]; SIf [SInplace 1] []].
Lemma alias_prog_rejected : safe_prog alias_prog = false.
Proof. vm_compute. reflexivity. Qed.
Lemma alias_prog_writes : exists e e', clean e /\ exec e alias_prog e' true.
Proof.
  exists (fun _ => 1), (pupd (pupd (fun _ => 1) 0 0) 1 0). split; [intros x H; discriminate|].
  unfold alias_prog.
  eapply E_assign with (l := 0); [intros _; left; reflexivity|].
  eapply E_assign with (l := 0); [intros _; right; exists 0; split; [left; reflexivity|reflexivity]|].
  change true with (true || false).
  eapply E_if_l; [|apply E_nil].
  change true with (Nat.eqb (pupd (pupd (fun _ : nat => 1) 0 0) 1 0 1) 0 || false).
  apply E_inplace. apply E_nil.
Qed.
(* ... and accepts the same program with a copy (`unscaled.astype(float)`) *)
Lemma copy_prog_accepted : safe_prog [SAssign 0 true []; SAssign 1 false []; SIf [SInplace 1] []] = true.
Proof. vm_compute. reflexivity. Qed.

(* ------------------------------------------------------------------ the regenerated table *)
(* every function of the current source that reads a cache entry passes the checker, except compute_fixed_resolution_buffer (which
   writes the invalid value into the result of get_mask(subset_state, view=<tuple of coordinate arrays>): that view is unhashable, so
   memoize calls the function without storing -- C01 memo_wrapper_plain -- and the array is not a cache entry; the scan does not see that) *)
Lemma post_table_safe : all_safe_except [post_fn_frb] = true.
Proof. vm_compute. reflexivity. Qed.

Lemma post_table_rows :
  (exists p, post_fn post_fn_histogram = Some p /\ safe_prog p = true) /\
  (exists p, post_fn post_fn_profile = Some p /\ safe_prog p = true) /\
  (exists p, post_fn post_fn_memoize = Some p /\ safe_prog p = true).
Proof. vm_compute. repeat split; eexists; split; reflexivity. Qed.

Theorem cached_values_never_written : forall n p,
  In (n, p) post_fns -> n <> post_fn_frb ->
  forall e e' w, clean e -> exec e p e' w -> w = false.
Proof.
  intros n p Hin Hne e e' w Hc He.
  pose proof post_table_safe as Ht. unfold all_safe_except in Ht. rewrite forallb_forall in Ht.
  specialize (Ht (n, p) Hin). simpl in Ht. apply orb_true_iff in Ht as [Hex | Hs].
  - unfold amem in Hex. simpl in Hex. rewrite orb_false_r in Hex. apply Nat.eqb_eq in Hex. contradiction.
  - eapply safe_prog_sound; eauto.
Qed.
