(* C05 -- semantics of the translated `memoize` / `clear_cache` (Gen_memo.memoize_pre / memoize_wrapper / memoize_post / clear_cache_body)
   over a heap of dict OBJECTS.  Definitions only (lemmas in MemoLemmas.v).

   A dict is an object with an identity (its index in [e_dicts]).  The closure variable `memo` of one `memoize(func)` call holds a REFERENCE
   ([e_cell]); `wrapper.__memoize_cache` holds a REFERENCE ([e_cache]); `{}` allocates a NEW object; `d.clear()` empties the object d refers
   to; an assignment to the closure variable re-binds the reference and leaves the object it pointed to (and every other reference to it) as is.

   [call]: what one call of the wrapper meets: does `_make_key` raise TypeError (an unhashable keyword value), is the key hashable (otherwise
   `memo[key]` / `memo[key] = ..` raise TypeError), the key, and what `func` returns now (None: it raises). *)
From Coq Require Import List Bool Arith.
Import ListNotations.
From GV Require Import gen.Gen_memo C01.Heap.

Definition dict := list (key * addr).

Definition dset (k : key) (a : addr) (d : dict) : dict := (k, a) :: filter (fun e => negb (key_eqb (fst e) k)) d.

Fixpoint set_nth {A : Type} (n : nat) (x : A) (l : list A) : list A :=
  match l, n with
  | [], _ => []
  | _ :: t, O => x :: t
  | h :: t, S n' => h :: set_nth n' x t
  end.

Record call := mkcall { c_mkraise : bool; c_hash : bool; c_key : key; c_res : option addr }.

Inductive val := VDict (r : nat) | VKey (hashable : bool) (k : key) | VAddr (a : addr) | VBool (b : bool).

Record env := mkenv { e_dicts : list dict; e_cell : option nat; e_cache : option nat; e_key : option val; e_result : option val }.

Definition X_TYPE := 1.
Definition X_KEY := 2.
Definition X_ATTR := 3.
Definition X_FUNC := 9.      (* whatever the wrapped function itself raises *)

Inductive eres := EV (v : val) (e : env) | EX (x : nat) | ESTUCK.

Fixpoint meval (c : call) (ex : mexpr) (e : env) : eres :=
  match ex with
  | MVar 0 => match e_cell e with Some r => EV (VDict r) e | None => ESTUCK end
  | MVar 1 => match e_key e with Some v => EV v e | None => ESTUCK end
  | MVar 2 => match e_result e with Some v => EV v e | None => ESTUCK end
  | MVar _ => ESTUCK
  | MNewDict => EV (VDict (length (e_dicts e))) (mkenv (e_dicts e ++ [[]]) (e_cell e) (e_cache e) (e_key e) (e_result e))
  | MMakeKey => if c_mkraise c then EX X_TYPE else EV (VKey (c_hash c) (c_key c)) e
  | MCallFunc => match c_res c with Some a => EV (VAddr a) e | None => EX X_FUNC end
  | MGetItem d k =>
    match meval c d e with
    | EV (VDict r) e1 =>
      match meval c k e1 with
      | EV (VKey h kk) e2 =>
        if h then match mlookup kk (nth r (e_dicts e2) []) with Some a => EV (VAddr a) e2 | None => EX X_KEY end
        else EX X_TYPE
      | EV _ _ => ESTUCK
      | o => o
      end
    | EV _ _ => ESTUCK
    | o => o
    end
  | MLenGe d n =>
    match meval c d e with
    | EV (VDict r) e1 => EV (VBool (n <=? length (nth r (e_dicts e1) []))) e1
    | EV _ _ => ESTUCK
    | o => o
    end
  | MFuncCache => match e_cache e with Some r => EV (VDict r) e | None => EX X_ATTR end
  end.

Inductive out := ONorm (e : env) | ORet (v : val) (e : env) | ORaise (x : nat) (e : env) | OStuck.

Definition setvar (x : nat) (v : val) (e : env) : option env :=
  match x, v with
  | 0, VDict r => Some (mkenv (e_dicts e) (Some r) (e_cache e) (e_key e) (e_result e))
  | 1, _ => Some (mkenv (e_dicts e) (e_cell e) (e_cache e) (Some v) (e_result e))
  | 2, _ => Some (mkenv (e_dicts e) (e_cell e) (e_cache e) (e_key e) (Some v))
  | _, _ => None
  end.

Definition with_dicts (e : env) (ds : list dict) : env := mkenv ds (e_cell e) (e_cache e) (e_key e) (e_result e).

(* statements; [n] is fuel (every theorem is about runs that do not exhaust it: OStuck is an outcome no theorem accepts) *)
Fixpoint mexec (n : nat) (c : call) (l : list mstmt) (e : env) : out :=
  match n with
  | O => OStuck
  | S n' =>
    match l with
    | [] => ONorm e
    | s :: t =>
      let k (o : out) := match o with ONorm e' => mexec n' c t e' | _ => o end in
      match s with
      | MSAssign x ex =>
        match meval c ex e with
        | EV v e1 => match setvar x v e1 with Some e2 => k (ONorm e2) | None => OStuck end
        | EX x' => ORaise x' e
        | ESTUCK => OStuck
        end
      | MSSetItem d kx vx =>
        match meval c d e with
        | EV (VDict r) e1 =>
          match meval c kx e1 with
          | EV (VKey h kk) e2 =>
            match meval c vx e2 with
            | EV (VAddr a) e3 =>
              if h then k (ONorm (with_dicts e3 (set_nth r (dset kk a (nth r (e_dicts e3) [])) (e_dicts e3))))
              else ORaise X_TYPE e3
            | EV _ _ => OStuck
            | EX x' => ORaise x' e2
            | ESTUCK => OStuck
            end
          | EV _ _ => OStuck
          | EX x' => ORaise x' e1
          | ESTUCK => OStuck
          end
        | EV _ _ => OStuck
        | EX x' => ORaise x' e
        | ESTUCK => OStuck
        end
      | MSReturn ex =>
        match meval c ex e with
        | EV v e1 => ORet v e1
        | EX x' => ORaise x' e
        | ESTUCK => OStuck
        end
      | MSTry b hs =>
        match mexec n' c b e with
        | ORaise x e1 =>
          k ((fix hd (hs : list mstmt) : out :=
                match hs with
                | [] => ORaise x e1
                | MSHandler cx hb :: r => if Nat.eqb cx x then mexec n' c hb e1 else hd r
                | _ :: _ => OStuck
                end) hs)
        | o => k o
        end
      | MSHandler _ _ => OStuck
      | MSIf cx a b =>
        match meval c cx e with
        | EV (VBool true) e1 => k (mexec n' c a e1)
        | EV (VBool false) e1 => k (mexec n' c b e1)
        | EV _ _ => OStuck
        | EX x' => ORaise x' e
        | ESTUCK => OStuck
        end
      | MSClear d =>
        match meval c d e with
        | EV (VDict r) e1 => k (ONorm (with_dicts e1 (set_nth r [] (e_dicts e1))))
        | EV _ _ => OStuck
        | EX x' => ORaise x' e
        | ESTUCK => OStuck
        end
      | MSSetCache ex =>
        match meval c ex e with
        | EV (VDict r) e1 => k (ONorm (mkenv (e_dicts e1) (e_cell e1) (Some r) (e_key e1) (e_result e1)))
        | EV _ _ => OStuck
        | EX x' => ORaise x' e
        | ESTUCK => OStuck
        end
      | MSPass => k (ONorm e)
      end
    end
  end.

Definition FUEL := 40.

(* ------------------------------------------------------------------ the process: decorated functions, calls, clears *)
(* one `memoize(func)` call leaves a wrapper: the closure cell and the attribute *)
Record wrapper := mkw { w_cell : option nat; w_cache : option nat }.
Record mstate := mkm { m_dicts : list dict; m_ws : list wrapper }.

Definition dummy_call : call := mkcall false true (mkkey 0 0 0 0 0) None.

(* memoize(func): run the statements around `def wrapper` in a new scope *)
Definition decorate (pre post : list mstmt) (st : mstate) : option mstate :=
  match mexec FUEL dummy_call (pre ++ post) (mkenv (m_dicts st) None None None None) with
  | ONorm e => Some (mkm (e_dicts e) (m_ws st ++ [mkw (e_cell e) (e_cache e)]))
  | _ => None
  end.

Fixpoint decorate_all (pre post : list mstmt) (n : nat) : option mstate :=
  match n with
  | O => Some (mkm [] [])
  | S n' => match decorate_all pre post n' with Some st => decorate pre post st | None => None end
  end.

Inductive res := RVal (a : addr) | RExc (x : nat) | RStuck.

Definition call_wrapper (wp : list mstmt) (f : nat) (c : call) (st : mstate) : mstate * res :=
  match nth_error (m_ws st) f with
  | None => (st, RStuck)
  | Some w =>
    match mexec FUEL c wp (mkenv (m_dicts st) (w_cell w) (w_cache w) None None) with
    | ORet (VAddr a) e => (mkm (e_dicts e) (set_nth f (mkw (e_cell e) (e_cache e)) (m_ws st)), RVal a)
    | ORaise x e => (mkm (e_dicts e) (set_nth f (mkw (e_cell e) (e_cache e)) (m_ws st)), RExc x)
    | _ => (st, RStuck)
    end
  end.

(* clear_cache(func) where func is the f-th decorated function, or an undecorated one (no such attribute) when f is out of range *)
Definition clear_one (cp : list mstmt) (f : nat) (st : mstate) : option mstate :=
  let cache := match nth_error (m_ws st) f with Some w => w_cache w | None => None end in
  match mexec FUEL dummy_call cp (mkenv (m_dicts st) None cache None None) with
  | ONorm e => Some (mkm (e_dicts e) (m_ws st))
  | _ => None
  end.

Fixpoint clear_list (cp : list mstmt) (fs : list nat) (st : mstate) : option mstate :=
  match fs with
  | [] => Some st
  | f :: t => match clear_one cp f st with Some st' => clear_list cp t st' | None => None end
  end.

Inductive hop :=
| HCall (f : nat) (c : call)
| HClear (f : nat)             (* clear_cache(f) *)
| HClearAll.                   (* clear_mask_caches(): clear_cache on every class's to_mask *)

Fixpoint run_hist (wp cp : list mstmt) (h : list hop) (st : mstate) : option (mstate * list res) :=
  match h with
  | [] => Some (st, [])
  | HCall f c :: t =>
    let '(st1, r) := call_wrapper wp f c st in
    match run_hist wp cp t st1 with Some (st2, rs) => Some (st2, r :: rs) | None => None end
  | HClear f :: t =>
    match clear_one cp f st with Some st1 => run_hist wp cp t st1 | None => None end
  | HClearAll :: t =>
    match clear_list cp (seq 0 (length (m_ws st))) st with Some st1 => run_hist wp cp t st1 | None => None end
  end.

(* ------------------------------------------------------------------ the hand model: one store per decorated function (C01.Heap.mlookup on it);
   clear_cache(f) empties store f.  This is what C01 / C05 [with_memo] / [with_memo_e] / [mclear] describe per function. *)
Definition spec_call (f : nat) (c : call) (sp : list dict) : list dict * res :=
  if length sp <=? f then (sp, RStuck) else
  let through := match c_res c with Some a => RVal a | None => RExc X_FUNC end in
  if c_mkraise c then (sp, through) else
  if negb (c_hash c) then (sp, through) else
  match mlookup (c_key c) (nth f sp []) with
  | Some a => (sp, RVal a)
  | None =>
    match c_res c with
    | Some a => (set_nth f (dset (c_key c) a (nth f sp [])) sp, RVal a)
    | None => (sp, RExc X_FUNC)             (* an exception is not remembered *)
    end
  end.

Fixpoint spec_clear_list (fs : list nat) (sp : list dict) : list dict :=
  match fs with [] => sp | f :: t => spec_clear_list t (set_nth f [] sp) end.

Fixpoint spec_hist (h : list hop) (sp : list dict) : list dict * list res :=
  match h with
  | [] => (sp, [])
  | HCall f c :: t => let '(sp1, r) := spec_call f c sp in let '(sp2, rs) := spec_hist t sp1 in (sp2, r :: rs)
  | HClear f :: t => spec_hist t (set_nth f [] sp)
  | HClearAll :: t => spec_hist t (spec_clear_list (seq 0 (length sp)) sp)
  end.

(* the variant with a bounded dict that is REPLACED when full (`nonlocal memo; if len(memo) >= bound: memo = {}`), for the refutation *)
Definition wrapper_rebinding (bound : nat) : list mstmt :=
  [MSTry [MSAssign 1 MMakeKey] [MSHandler 1 [MSReturn MCallFunc]];
   MSTry [MSReturn (MGetItem (MVar 0) (MVar 1))]
         [MSHandler 2 [MSAssign 2 MCallFunc; MSIf (MLenGe (MVar 0) bound) [MSAssign 0 MNewDict] [];
                       MSSetItem (MVar 0) (MVar 1) (MVar 2); MSReturn (MVar 2)];
          MSHandler 1 [MSReturn MCallFunc]]].

(* the handle invariant: the dict every wrapper consults is the dict clear_cache empties *)
Definition handles_ok (st : mstate) : Prop :=
  forall f w, nth_error (m_ws st) f = Some w -> exists r, w_cell w = Some r /\ w_cache w = Some r /\ r < length (m_dicts st).

(* ------------------------------------------------------------------ the SAME hand model on ONE store: C01.Heap's single [memo] list with
   [mlookup] / [mstore] / [mclear] -- the store of C01.Model.with_memo and C05.Model.with_memo_e / clear_path (scope 2 = []).  [n] decorated
   functions; the key of a call to function f carries f ([hop_keyed]: with_memo builds `mkkey f id d v form`). *)
Definition flat_call (n f : nat) (c : call) (m : memo) : memo * res :=
  if n <=? f then (m, RStuck) else
  let through := match c_res c with Some a => RVal a | None => RExc X_FUNC end in
  if c_mkraise c then (m, through) else
  if negb (c_hash c) then (m, through) else
  match mlookup (c_key c) m with
  | Some a => (m, RVal a)
  | None =>
    match c_res c with
    | Some a => (mstore (c_key c) a m, RVal a)
    | None => (m, RExc X_FUNC)
    end
  end.

Fixpoint flat_hist (n : nat) (h : list hop) (m : memo) : memo * list res :=
  match h with
  | [] => (m, [])
  | HCall f c :: t => let '(m1, r) := flat_call n f c m in let '(m2, rs) := flat_hist n t m1 in (m2, r :: rs)
  | HClear f :: t => flat_hist n t (mclear f m)
  | HClearAll :: t => flat_hist n t []
  end.

Definition hop_keyed (o : hop) : Prop := match o with HCall f c => k_fn (c_key c) = f | _ => True end.
Definition well_keyed (h : list hop) : Prop := Forall hop_keyed h.

Definition res_of (o : option addr) : res := match o with Some a => RVal a | None => RExc X_FUNC end.
