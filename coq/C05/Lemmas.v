(* C05 -- coherence of the memo store over histories of evaluation and mutation. *)
From Coq Require Import List Bool Arith Lia.
Import ListNotations.
From GV Require Import gen.Gen_memo C01.Heap C01.HeapLemmas C01.Model C01.Lemmas1 C05.Model.
From GV Require Export C05.Lemmas1.
From GV Require Import C05.Post C05.PostLemmas.
From GV Require C05.Memo C05.MemoLemmas C05.MemoLink.

Lemma coherentE_empty_memo : forall den h, coherentE den (mkstate h []).
Proof. intros den h k a H. simpl in H. discriminate. Qed.

(* one request *)
Lemma eval_reqE_good : forall fr den w r st,
  coherentE (den w) st -> req_okE den fr w r ->
  let q := eval_reqE fr w r st in
  coherentE (den w) (fst q) /\ frame (st_heap st) (st_heap (fst q)) /\ snd q = fresh_req fr w r.
Proof.
  intros fr den w r st C Ok. unfold eval_reqE, fresh_req.
  pose proof (evalE_good (lm_of fr w) (den w) (r_hk r) (r_d r) (r_v r) (r_e r) (r_form r) st C Ok) as G.
  destruct (evalE (lm_of fr w) (r_hk r) (r_d r) (r_v r) (r_form r) (r_e r) st) as [st' [a|]]; simpl in *.
  - destruct G as [F [C' [_ [_ Hv]]]]. split; [auto|]. split; [auto|]. symmetry. exact Hv.
  - destruct G as [F [C' [_ Hv]]]. split; [auto|]. split; [auto|]. symmetry. exact Hv.
Qed.

Lemma run_reqsE_good : forall fr den w rs st,
  coherentE (den w) st -> Forall (req_okE den fr w) rs ->
  let q := run_reqsE fr w rs st in
  coherentE (den w) (fst q) /\ frame (st_heap st) (st_heap (fst q)) /\ snd q = map (fresh_req fr w) rs.
Proof.
  intros fr den w rs. induction rs as [|r rs IH]; intros st C H; simpl.
  - split; auto. split; [apply frame_refl|reflexivity].
  - inversion H as [|? ? Ok H']; subst.
    pose proof (eval_reqE_good fr den w r st C Ok) as G.
    destruct (eval_reqE fr w r st) as [st1 o]. simpl in G. destruct G as [C1 [F1 Ho]].
    specialize (IH st1 C1 H'). destruct (run_reqsE fr w rs st1) as [st2 os]. simpl in *.
    destruct IH as [C2 [F2 Hos]]. split; auto. split.
    + apply (frame_trans _ (st_heap st1)); auto.
    + congruence.
Qed.

Lemma clear_all_coherent : forall pol p tops reach b den st,
  pol p = Some (2, b) -> coherentE den (clear_path pol p tops reach st) /\
                         st_heap (clear_path pol p tops reach st) = st_heap st.
Proof.
  intros pol p tops reach b den st H. unfold clear_path. rewrite H. simpl. split; auto.
  apply coherentE_empty_memo.
Qed.

(* one operation of a history, under a policy that invalidates on the path the operation uses *)
Lemma step_good : forall pol fr den o w st,
  coherentE (den w) st -> op_ok den fr o w ->
  (forall p, path_of o = Some p -> pol p = Some (2, true)) ->
  let q := step pol fr o w st in
  fst (fst q) = world_after o w /\
  coherentE (den (world_after o w)) (snd (fst q)) /\
  frame (st_heap st) (st_heap (snd (fst q))) /\
  snd q = fresh_step fr o w.
Proof.
  intros pol fr den o w st C Ok Hpol.
  destruct o as [r|tops reach ls|tops reach ls|ks|ks| | | | | |]; simpl in *.
  - (* eval *)
    pose proof (eval_reqE_good fr den w r st C Ok) as G.
    destruct (eval_reqE fr w r st) as [st' res]. simpl in *. destruct G as [C' [F Hr]].
    split; [auto|]. split; [auto|]. split; [auto|]. congruence.
  - (* update_components *)
    unfold update_step. specialize (Hpol _ eq_refl). unfold is_before. rewrite Hpol.
    destruct (clear_all_coherent pol P_UPDATE_COMPONENTS tops reach true
                (den (mkworld (w_p w) (S (w_d w)) (w_l w))) st Hpol) as [Cc Hh].
    pose proof (run_reqsE_good fr den _ ls _ Cc Ok) as G.
    destruct (run_reqsE fr (mkworld (w_p w) (S (w_d w)) (w_l w)) ls (clear_path pol P_UPDATE_COMPONENTS tops reach st)) as [st2 os].
    simpl in *. destruct G as [C2 [F2 Hos]]. rewrite Hh in F2. split; [auto|]. split; [auto|]. split; auto.
  - (* update_values_from_data *)
    unfold update_step. specialize (Hpol _ eq_refl). unfold is_before. rewrite Hpol.
    destruct (clear_all_coherent pol P_UPDATE_VALUES tops reach true
                (den (mkworld (w_p w) (S (w_d w)) (w_l w))) st Hpol) as [Cc Hh].
    pose proof (run_reqsE_good fr den _ ls _ Cc Ok) as G.
    destruct (run_reqsE fr (mkworld (w_p w) (S (w_d w)) (w_l w)) ls (clear_path pol P_UPDATE_VALUES tops reach st)) as [st2 os].
    simpl in *. destruct G as [C2 [F2 Hos]]. rewrite Hh in F2. split; [auto|]. split; [auto|]. split; auto.
  - specialize (Hpol _ eq_refl).
    destruct (clear_all_coherent pol P_MOVE_TO [] [] true (den (mkworld (bump_all (w_p w) ks) (w_d w) (w_l w))) st Hpol) as [Cc Hh].
    split; [auto|]. split; [auto|]. split; [rewrite Hh; apply frame_refl|auto].
  - specialize (Hpol _ eq_refl).
    destruct (clear_all_coherent pol P_SETATTR [] [] true (den (mkworld (bump_all (w_p w) ks) (w_d w) (w_l w))) st Hpol) as [Cc Hh].
    split; [auto|]. split; [auto|]. split; [rewrite Hh; apply frame_refl|auto].
  - specialize (Hpol _ eq_refl).
    destruct (clear_all_coherent pol P_LINKS [] [] true (den (mkworld (w_p w) (w_d w) (S (w_l w)))) st Hpol) as [Cc Hh].
    split; [auto|]. split; [auto|]. split; [rewrite Hh; apply frame_refl|auto].
  - specialize (Hpol _ eq_refl).
    destruct (clear_all_coherent pol P_LINKS [] [] true (den (mkworld (w_p w) (w_d w) (S (w_l w)))) st Hpol) as [Cc Hh].
    split; [auto|]. split; [auto|]. split; [rewrite Hh; apply frame_refl|auto].
  - specialize (Hpol _ eq_refl).
    destruct (clear_all_coherent pol P_ALIGNED [] [] true (den (mkworld (w_p w) (w_d w) (S (w_l w)))) st Hpol) as [Cc Hh].
    split; [auto|]. split; [auto|]. split; [rewrite Hh; apply frame_refl|auto].
  - specialize (Hpol _ eq_refl).
    destruct (clear_all_coherent pol P_REMOVE_COMPONENT [] [] true (den (mkworld (w_p w) (S (w_d w)) (w_l w))) st Hpol) as [Cc Hh].
    split; [auto|]. split; [auto|]. split; [rewrite Hh; apply frame_refl|auto].
  - specialize (Hpol _ eq_refl).
    destruct (clear_all_coherent pol P_REPLACE_COMPONENT [] [] true (den (mkworld (w_p w) (S (w_d w)) (w_l w))) st Hpol) as [Cc Hh].
    split; [auto|]. split; [auto|]. split; [rewrite Hh; apply frame_refl|auto].
  - split; [auto|]. split; [auto|]. split; [apply frame_refl|auto].
Qed.

(* MAIN: over every history, under a policy that invalidates (everything, before the broadcast) on the
   mutation paths the history uses: the store is coherent with the world reached, every result -- of the
   requests of the history and of the hub listeners that evaluate during a values update -- is the fresh
   one, and no array that existed at the start was altered. *)
Theorem coherent_reachable :
  forall (pol : policy) (fr : fresh_fn) (den : world -> nat -> nat -> nat -> option mask)
         (ops : list op) (w : world) (st : state),
    coherentE (den w) st -> ops_ok den fr ops w -> policy_covers pol ops ->
    let q := run pol fr ops w st in
    coherentE (den (fst (fst q))) (snd (fst q)) /\
    snd q = fresh_run fr ops w /\
    frame (st_heap st) (st_heap (snd (fst q))).
Proof.
  intros pol fr den ops. induction ops as [|o ops IH]; intros w st C Ok Hpol; simpl.
  - split; [auto|]. split; [auto|apply frame_refl].
  - destruct Ok as [Ok1 Ok2].
    assert (Hp1 : forall p, path_of o = Some p -> pol p = Some (2, true)).
    { intros p Hp. apply (Hpol o p); auto. left; auto. }
    pose proof (step_good pol fr den o w st C Ok1 Hp1) as G.
    destruct (step pol fr o w st) as [[w1 st1] r1]. simpl in G. destruct G as [Hw [C1 [F1 Hr1]]]. subst w1.
    assert (Hpol2 : policy_covers pol ops).
    { intros o' p Hin Hp. apply (Hpol o' p); auto. right; auto. }
    specialize (IH (world_after o w) st1 C1 Ok2 Hpol2).
    destruct (run pol fr ops (world_after o w) st1) as [[w2 st2] r2]. simpl in *.
    destruct IH as [C2 [Hr2 F2]]. split; auto. split.
    + congruence.
    + apply (frame_trans _ (st_heap st1)); auto.
Qed.

(* every request of every history returns what freshly constructed, never evaluated objects return *)
Theorem stale_free :
  forall (pol : policy) (fr : fresh_fn) (den : world -> nat -> nat -> nat -> option mask) (ops : list op),
    ops_ok den fr ops world0 -> policy_covers pol ops ->
    snd (run pol fr ops world0 empty_state) = fresh_run fr ops world0.
Proof.
  intros pol fr den ops Ok Hpol.
  apply (coherent_reachable pol fr den ops world0 empty_state); auto.
  apply coherentE_empty_memo.
Qed.

(* coherence holds after every operation: the theorem applies to every prefix *)
Lemma ops_ok_app : forall den fr ops1 ops2 w, ops_ok den fr (ops1 ++ ops2) w -> ops_ok den fr ops1 w.
Proof.
  intros den fr ops1. induction ops1 as [|o ops1 IH]; intros ops2 w H; simpl in *; auto.
  destruct H as [H1 H2]. split; auto. eapply IH; eauto.
Qed.

Theorem coherent_every_prefix :
  forall pol fr den ops1 ops2,
    ops_ok den fr (ops1 ++ ops2) world0 -> policy_covers pol (ops1 ++ ops2) ->
    let q := run pol fr ops1 world0 empty_state in
    coherentE (den (fst (fst q))) (snd (fst q)) /\ snd q = fresh_run fr ops1 world0.
Proof.
  intros pol fr den ops1 ops2 Ok Hpol.
  assert (Hpol1 : policy_covers pol ops1).
  { intros o p Hin Hp. apply (Hpol o p); auto. apply in_or_app; auto. }
  pose proof (coherent_reachable pol fr den ops1 world0 empty_state (coherentE_empty_memo _ _)
                (ops_ok_app _ _ _ _ _ Ok) Hpol1) as G.
  simpl in G. destruct G as [G1 [G2 _]]. intro q. subst q. split; assumption.
Qed.

(* ---------- the policy regenerated from the current source ---------- *)
Theorem table_policy_covers :
  forall p, In p [P_UPDATE_COMPONENTS; P_UPDATE_VALUES; P_MOVE_TO; P_LINKS; P_ALIGNED; P_REMOVE_COMPONENT] ->
            table_policy p = Some (2, true) /\ uncond_of p = true.
Proof.
  intros p H. simpl in H.
  repeat (destruct H as [H|H]; [subst p; vm_compute; split; reflexivity|]). contradiction.
Qed.

(* add_component replacing an existing attribute: every cached mask is dropped before the broadcast, under the guard
   `is_present` -- which is the definition of this operation; the guard itself is not discharged by the scan *)
Theorem table_policy_replace_component : table_policy P_REPLACE_COMPONENT = Some (2, true).
Proof. vm_compute. reflexivity. Qed.

(* PARTIAL (exact guard: the history assigns to no attribute of a state and edits no region in place):
   with the policy of the current source every result is the fresh one. *)
Theorem coherent_reachable_partial :
  forall (fr : fresh_fn) (den : world -> nat -> nat -> nat -> option mask) (ops : list op),
    ops_ok den fr ops world0 ->
    (forall o, In o ops -> is_setattr o = false) ->
    let q := run table_policy fr ops world0 empty_state in
    coherentE (den (fst (fst q))) (snd (fst q)) /\ snd q = fresh_run fr ops world0.
Proof.
  intros fr den ops Ok Hno.
  assert (Hpol : policy_covers table_policy ops).
  { intros o p Hin Hp. specialize (Hno o Hin).
    destruct o; simpl in Hp; inversion Hp; subst p; try discriminate;
      first [solve [refine (proj1 (table_policy_covers _ _)); simpl; auto 10] | apply table_policy_replace_component]. }
  pose proof (coherent_reachable table_policy fr den ops world0 empty_state (coherentE_empty_memo _ _) Ok Hpol) as G.
  simpl in G. destruct G as [G1 [G2 _]]. intro q. subst q. split; assumption.
Qed.

(* REFUTED at full strength for the current source: an assignment to an attribute of a memoised state is
   not followed by any invalidation (known finding setattr-no-invalidation).  Witness: evaluate x > 1,
   assign .right, evaluate again. *)
Definition wit_fr : fresh_fn := fun n p dv l d v =>
  match p with 0 => Some [true; true; false] | _ => Some [false; true; true] end.
Definition wit_leaf : nexpr := NLeaf 1 (Some 9) 0.
Definition wit_req : req := mkreq 0 0 true FKW wit_leaf.
Definition wit_ops : list op := [OEval wit_req; OSetAttr [0]; OEval wit_req].
Definition wit_den : world -> nat -> nat -> nat -> option mask :=
  fun w i d v => lm_of wit_fr w 0 d v.

Theorem stale_setattr_refuted :
  exists (fr : fresh_fn) (den : world -> nat -> nat -> nat -> option mask) (ops : list op),
    ops_ok den fr ops world0 /\
    snd (run table_policy fr ops world0 empty_state) <> fresh_run fr ops world0.
Proof.
  exists wit_fr, wit_den, wit_ops. split.
  - simpl. unfold req_okE. simpl. repeat split; reflexivity.
  - vm_compute. discriminate.
Qed.

(* the key of HistogramLayerState's histogram cache, in the current source: the attribute by IDENTITY, log, limits, bins *)
Theorem histogram_key_fields : hist_key_fields = [1; 2; 3; 4; 5].
Proof. vm_compute. reflexivity. Qed.

(* the recompute test of FloodFillSubsetState's private cache, in the current source: parameters, and the identity of the very
   array data[att] evaluates to now (a derived or linked attribute yields a new array whenever it is read, so it is recomputed) *)
Theorem floodfill_recompute_test : floodfill_key = 1.
Proof. vm_compute. reflexivity. Qed.

(* ---------- fresh evaluation is C01's elementwise evaluation when no part raises ---------- *)
Lemma fold_lift_some : forall (lt : nat -> mask) lm l acc,
  (forall n, lm n = Some (lt n)) ->
  Forall (fun c => evalo lm c = Some (eval lt c)) l ->
  fold_left (fun a c' => lift2 orb a (evalo lm c')) l (Some acc) =
  Some (fold_left (map2 orb) (map (eval lt) l) acc).
Proof.
  intros lt lm l. induction l as [|c l IH]; intros acc Hl H; simpl; auto.
  inversion H as [|? ? Hc Hl']; subst. rewrite Hc. simpl. apply IH; auto.
Qed.

Theorem evalo_total : forall (lt : nat -> mask) (lm : nat -> option mask) (e : expr),
  (forall n, lm n = Some (lt n)) -> wf e -> evalo lm e = Some (eval lt e).
Proof.
  intros lt lm e Hl.
  induction e as [n|a b IHa IHb|a b IHa IHb|a b IHa IHb|a IHa|l IHl] using expr_ind'; intro Hwf.
  - simpl. auto.
  - simpl in *. destruct Hwf. rewrite IHa, IHb by auto. reflexivity.
  - simpl in *. destruct Hwf. rewrite IHa, IHb by auto. reflexivity.
  - simpl in *. destruct Hwf. rewrite IHa, IHb by auto. reflexivity.
  - simpl in *. rewrite IHa by auto. reflexivity.
  - apply wf_multi in Hwf as [Hne Hall].
    destruct l as [|c t]; [congruence|].
    inversion IHl as [|? ? Hc Ht]; subst. inversion Hall as [|? ? Wc Wt]; subst.
    change (evalo lm (MultiOr (c :: t))) with (fold_left (fun a c' => lift2 orb a (evalo lm c')) t (evalo lm c)).
    change (eval lt (MultiOr (c :: t))) with (fold_left (map2 orb) (map (eval lt) t) (eval lt c)).
    rewrite Hc by auto. apply fold_lift_some; auto.
    rewrite Forall_forall in *. intros x Hx. apply Ht; auto.
Qed.

(* ---------- keyed caches (FloodFillSubsetState._mask_cache, HistogramLayerState._histogram_cache) ---------- *)
(* a one-entry cache that remembers (key, value) and recomputes when the key differs *)
Section Keyed.
  Variables K V : Type.
  Variable keqb : K -> K -> bool.
  Hypothesis keqb_eq : forall a b, keqb a b = true -> a = b.
  Variable compute : K -> V.            (* the key determines the value *)

  Definition keyed_get (cache : option (K * V)) (k : K) : V * option (K * V) :=
    match cache with
    | Some (k', x) => if keqb k k' then (x, cache) else (compute k, Some (k, compute k))
    | None => (compute k, Some (k, compute k))
    end.

  Definition keyed_ok (cache : option (K * V)) : Prop :=
    forall k x, cache = Some (k, x) -> x = compute k.

  Fixpoint keyed_run (cache : option (K * V)) (ks : list K) : list V :=
    match ks with
    | [] => []
    | k :: t => let '(x, c') := keyed_get cache k in x :: keyed_run c' t
    end.

  Lemma keyed_get_sound : forall cache k,
    keyed_ok cache -> fst (keyed_get cache k) = compute k /\ keyed_ok (snd (keyed_get cache k)).
  Proof.
    intros cache k Hok. unfold keyed_get. destruct cache as [[k' x]|].
    - destruct (keqb k k') eqn:E; simpl.
      + apply keqb_eq in E. subst k'. split; auto.
      + split; auto. intros k2 x2 H. inversion H; subst; reflexivity.
    - simpl. split; auto. intros k2 x2 H. inversion H; subst; reflexivity.
  Qed.

  Theorem keyed_cache_sound : forall ks cache,
    keyed_ok cache -> keyed_run cache ks = map compute ks.
  Proof.
    induction ks as [|k ks IH]; intros cache Hok; simpl; auto.
    destruct (keyed_get_sound cache k Hok) as [H1 H2].
    destruct (keyed_get cache k) as [x c']. simpl in *. rewrite H1. f_equal. apply IH; auto.
  Qed.
End Keyed.

(* re-export under this module's name (Property.v refers to Lemmas.<name>) *)
Definition evalE_good := Lemmas1.evalE_good.
(* post-processing reads of cached values (PostLemmas.v) *)
Definition post_reads_fresh := PostLemmas.post_reads_fresh.
Definition inplace_post_refuted := PostLemmas.inplace_post_refuted.
Definition safe_prog_sound := PostLemmas.safe_prog_sound.
Definition cached_values_never_written := PostLemmas.cached_values_never_written.
Definition post_table_rows := PostLemmas.post_table_rows.
(* the translated memoize / clear_cache over a heap of dict objects (MemoLemmas.v) *)
Definition memoize_refines_store := MemoLemmas.memoize_refines_store.
Definition consulted_dict_is_cleared_dict := MemoLemmas.consulted_dict_is_cleared_dict.
Definition clear_mask_caches_empties_every_store := MemoLemmas.clear_mask_caches_empties_every_store.
Definition rebinding_refuted := MemoLemmas.rebinding_refuted.

(* the per-function stores put together = the ONE memo of the C01 / C05 model; the evaluator's memo operations are wrapper calls (MemoLink.v) *)
Definition stores_joined_are_memo := MemoLink.stores_joined_are_memo.
Definition clear_fns_all := MemoLink.clear_fns_all.
Definition translated_memoize_is_model_memo := MemoLink.translated_memoize_is_model_memo.
Definition with_memo_e_is_wrapper_call := MemoLink.with_memo_e_is_wrapper_call.
Definition clear_path_is_clear_cache := MemoLink.clear_path_is_clear_cache.
