(* C05 -- post-processing reads of cached values.  Definitions only.

   (1) Keyed cache with presentation settings: the cache is keyed on the settings that define the value (x_att, x_log, limits, bins);
       other settings (normalize, cumulative, ...) are applied on top of the cached value at every read.  In the model the cached value is
       immutable: a read returns `post settings cached`.  The variant `*_mut` stores what the post-processing produced back into the cell
       (the in-place hazard: `scaled = np.asarray(unscaled); scaled /= ...`).
   (2) The programs of Gen_memo.post_fns (every function of the source that reads a cache entry, as assignments that may or may not share
       memory with the entry, and in-place modifications): concrete semantics over locations (location 0 = the cached value) and the
       checker `safe_prog` (may-alias analysis) that the table theorem runs on the regenerated programs. *)
From Coq Require Import List Bool Arith.
Import ListNotations.
From GV Require Import gen.Gen_memo.

(* ------------------------------------------------------------------ (1) reads with post-processing *)
Section PostReads.
  Variables K S V R : Type.
  Variable keqb : K -> K -> bool.
  Variable compute : K -> V.            (* the key determines the cached value *)
  Variable post : S -> V -> R.          (* the presentation settings are applied on top of it *)

  Inductive pop := PSetKey (k : K) | PSetPres (s : S) | PRead.

  (* current key settings, current presentation settings, the one-entry cache *)
  Definition pstate := (K * S * option (K * V))%type.

  Definition cached_value (cache : option (K * V)) (k : K) : V * option (K * V) :=
    match cache with
    | Some (k', x) => if keqb k k' then (x, cache) else (compute k, Some (k, compute k))
    | None => (compute k, Some (k, compute k))
    end.

  Definition pstep (st : pstate) (o : pop) : pstate * list R :=
    let '(k, s, cache) := st in
    match o with
    | PSetKey k' => ((k', s, cache), [])
    | PSetPres s' => ((k, s', cache), [])
    | PRead => let '(x, c') := cached_value cache k in ((k, s, c'), [post s x])
    end.

  Fixpoint prun (st : pstate) (ops : list pop) : list R :=
    match ops with
    | [] => []
    | o :: t => let '(st', out) := pstep st o in out ++ prun st' t
    end.

  (* what freshly constructed objects with the current settings return at each read *)
  Fixpoint pspec (k : K) (s : S) (ops : list pop) : list R :=
    match ops with
    | [] => []
    | PSetKey k' :: t => pspec k' s t
    | PSetPres s' :: t => pspec k s' t
    | PRead :: t => post s (compute k) :: pspec k s t
    end.

  Definition pcache_ok (cache : option (K * V)) : Prop := forall k x, cache = Some (k, x) -> x = compute k.
End PostReads.

(* the hazard: the post-processing works in place on the cell, so the cell holds what the last read produced *)
Section PostReadsMutable.
  Variables K S V : Type.
  Variable keqb : K -> K -> bool.
  Variable compute : K -> V.
  Variable post : S -> V -> V.

  Definition pstep_mut (st : pstate K S V) (o : pop K S) : pstate K S V * list V :=
    let '(k, s, cache) := st in
    match o with
    | PSetKey _ _ k' => ((k', s, cache), [])
    | PSetPres _ _ s' => ((k, s', cache), [])
    | PRead _ _ => let '(x, _) := cached_value K V keqb compute cache k in
                   let y := post s x in ((k, s, Some (k, y)), [y])
    end.

  Fixpoint prun_mut (st : pstate K S V) (ops : list (pop K S)) : list V :=
    match ops with
    | [] => []
    | o :: t => let '(st', out) := pstep_mut st o in out ++ prun_mut st' t
    end.
End PostReadsMutable.

(* a concrete instance (counts of a histogram; normalize / cumulative as in HistogramLayerState.histogram, over nat with the total as the
   unit so that no division is needed: normalised = each count times the number of bins ... the shape of the computation is what matters) *)
Definition hist_post (s : bool * bool) (v : list nat) : list nat :=
  let '(cumulative, normalize) := s in
  let fix cums (acc : nat) (l : list nat) : list nat := match l with [] => [] | a :: t => (acc + a) :: cums (acc + a) t end in
  let w := if cumulative then cums 0 v else v in
  if normalize then map (fun a => a * 2) w else w.

Definition unit_eqb (a b : unit) : bool := true.

(* ------------------------------------------------------------------ (2) programs that read a cache entry *)
(* concrete semantics: every local name is bound to a location; location 0 is the cached value *)
Definition penv := nat -> nat.
Definition pupd (e : penv) (x l : nat) : penv := fun y => if Nat.eqb y x then l else e y.

(* the location an assignment `x = e` may bind: it can be the cached value only if e may share memory with a cache entry (c) or with one of
   the names ys that currently is the cached value *)
Definition rhs_loc (e : penv) (c : bool) (ys : list nat) (l : nat) : Prop :=
  l = 0 -> c = true \/ exists y, In y ys /\ e y = 0.

(* exec e p e' w : running p from e may end in e' ; w = the cached value (location 0) was written *)
Inductive exec : penv -> list pstmt -> penv -> bool -> Prop :=
| E_nil : forall e, exec e [] e false
| E_assign : forall e x c ys l t e' w,
    rhs_loc e c ys l -> exec (pupd e x l) t e' w -> exec e (SAssign x c ys :: t) e' w
| E_inplace : forall e x t e' w,
    exec e t e' w -> exec e (SInplace x :: t) e' (Nat.eqb (e x) 0 || w)
| E_inplace_cache : forall e t e' w,
    exec e t e' w -> exec e (SInplaceCache :: t) e' true
| E_return : forall e c ys t e' w,       (* over-approximation: a return is a skip, what follows it is treated as reachable (an execution
                                            that stops there has performed a prefix of these writes) *)
    exec e t e' w -> exec e (SReturn c ys :: t) e' w
| E_if_l : forall e a b t e1 w1 e' w,
    exec e a e1 w1 -> exec e1 t e' w -> exec e (SIf a b :: t) e' (w1 || w)
| E_if_r : forall e a b t e1 w1 e' w,
    exec e b e1 w1 -> exec e1 t e' w -> exec e (SIf a b :: t) e' (w1 || w)
| E_loop_0 : forall e a t e' w,
    exec e t e' w -> exec e (SLoop a :: t) e' w
| E_loop_S : forall e a t e1 w1 e' w,
    exec e a e1 w1 -> exec e1 (SLoop a :: t) e' w -> exec e (SLoop a :: t) e' (w1 || w).

(* the checker: the set of names that may be bound to the cached value *)
Definition aset := list nat.
Definition amem (x : nat) (a : aset) : bool := existsb (Nat.eqb x) a.
Definition aremove (x : nat) (a : aset) : aset := filter (fun y => negb (Nat.eqb y x)) a.
Definition asubset (a b : aset) : bool := forallb (fun x => amem x b) a.
Definition aadd (x : nat) (a : aset) : aset := if amem x a then a else x :: a.
Definition aunion (a b : aset) : aset := a ++ filter (fun x => negb (amem x a)) b.
(* grow a candidate loop invariant: add what one more iteration of the body may leave, n times *)
Fixpoint iter_inv (g : aset -> option aset) (n : nat) (inv : aset) : aset :=
  match n with
  | 0 => inv
  | S n' => match g inv with Some p => iter_inv g n' (aunion inv p) | None => inv end
  end.

Definition seq_an (f : pstmt -> aset -> option aset) : list pstmt -> aset -> option aset :=
  fix go (l : list pstmt) (a : aset) : option aset :=
    match l with
    | [] => Some a
    | s :: t => match f s a with Some a' => go t a' | None => None end
    end.

(* number of assignments in a block (bounds the number of rounds the loop invariant can grow) *)
Definition count_in (f : pstmt -> nat) : list pstmt -> nat :=
  fix go (l : list pstmt) : nat := match l with [] => 0 | s :: t => f s + go t end.
Fixpoint n_assign (s : pstmt) : nat :=
  match s with
  | SAssign _ _ _ => 1
  | SIf a b => count_in n_assign a + count_in n_assign b
  | SLoop a => count_in n_assign a
  | _ => 0
  end.

Fixpoint an (s : pstmt) (a : aset) : option aset :=
  match s with
  | SAssign x c ys => Some (if c || existsb (fun y => amem y a) ys then aadd x a else aremove x a)
  | SInplace x => if amem x a then None else Some a
  | SInplaceCache => None
  | SReturn _ _ => Some a
  | SIf b1 b2 =>
    match seq_an an b1 a, seq_an an b2 a with
    | Some a1, Some a2 => Some (aunion a1 a2)
    | _, _ => None
    end
  | SLoop b =>
    (* loop invariant: grown from a by analysing the body repeatedly, then CHECKED to be stable (fail closed otherwise) *)
    let inv := iter_inv (seq_an an b) (S (count_in n_assign b)) a in
    match seq_an an b inv with
    | Some p => if asubset p inv then Some inv else None
    | None => None
    end
  end.

Definition safe_prog (p : list pstmt) : bool :=
  match seq_an an p [] with Some _ => true | None => false end.

(* no local name is the cached value when the function starts (parameters are not cache entries) *)
Definition clean (e : penv) : Prop := forall x, e x <> 0.

(* the rows of the regenerated table *)
Definition post_fn (n : nat) : option (list pstmt) :=
  match find (fun r => Nat.eqb (fst r) n) post_fns with Some r => Some (snd r) | None => None end.
(* every function that reads a cache entry is safe, except those listed *)
Definition all_safe_except (ex : list nat) : bool :=
  forallb (fun r => amem (fst r) ex || safe_prog (snd r)) post_fns.
