(* C05 -- results always reflect the current data, regions and links: never a stale cache.  Statements only. *)
From Coq Require Import List Bool Arith.
Import ListNotations.
From GV Require Import gen.Gen_memo C01.Heap C01.Model C05.Model C05.Post C05.Memo C05.Lemmas.

(* Over every history of evaluation requests and mutations (values updates with hub listeners evaluating during
   the broadcast, move_to, attribute assignment, link changes, state replacement), from any store coherent with
   the current world, under any cache-clearing policy that drops every cached mask before the broadcast on each
   mutation path the history uses: after the history the store is coherent with the world reached (every memo
   entry equals the fresh value of its key), EVERY result equals what freshly constructed, never evaluated
   objects return for the same request (the mask, or the exception), and nothing that existed was altered. *)
Theorem coherent_reachable :
  forall (pol : policy) (fr : fresh_fn) (den : world -> nat -> nat -> nat -> option mask)
         (ops : list op) (w : world) (st : state),
    coherentE (den w) st -> ops_ok den fr ops w -> policy_covers pol ops ->
    let q := run pol fr ops w st in
    coherentE (den (fst (fst q))) (snd (fst q)) /\
    snd q = fresh_run fr ops w /\
    frame (st_heap st) (st_heap (snd (fst q))).
Proof. exact Lemmas.coherent_reachable. Qed.
Print Assumptions coherent_reachable.

(* ... in particular after every operation of the history (every prefix) *)
Theorem coherent_every_prefix :
  forall pol fr den ops1 ops2,
    ops_ok den fr (ops1 ++ ops2) world0 -> policy_covers pol (ops1 ++ ops2) ->
    let q := run pol fr ops1 world0 empty_state in
    coherentE (den (fst (fst q))) (snd (fst q)) /\ snd q = fresh_run fr ops1 world0.
Proof. exact Lemmas.coherent_every_prefix. Qed.
Print Assumptions coherent_every_prefix.

Theorem stale_free :
  forall (pol : policy) (fr : fresh_fn) (den : world -> nat -> nat -> nat -> option mask) (ops : list op),
    ops_ok den fr ops world0 -> policy_covers pol ops ->
    snd (run pol fr ops world0 empty_state) = fresh_run fr ops world0.
Proof. exact Lemmas.stale_free. Qed.
Print Assumptions stale_free.

(* One evaluation with exceptions, in a fixed world: the result is the fresh value or the fresh exception,
   an exception is not cached, what was cached on the way is coherent. *)
Theorem evalE_good :
  forall (lm den : nat -> nat -> nat -> option mask) (hk : bool) (d v : nat) (e : nexpr) (form : nat) (st : state),
    coherentE den st -> sem_okE den lm d v e ->
    let q := evalE lm hk d v form e st in
    goodE den (evalo (fun n => lm n d v) (erase e)) st (fst q) (snd q).
Proof. exact Lemmas.evalE_good. Qed.
Print Assumptions evalE_good.

(* The policy regenerated from the CURRENT source drops every cached mask, before the broadcast, UNCONDITIONALLY
   (the clearing call is executed whenever the mutating statement is: not nested under a further condition), on
   update_components, update_values_from_data, move_to, link changes, pixel-alignment changes, remove_component. *)
Theorem table_policy_covers :
  forall p, In p [P_UPDATE_COMPONENTS; P_UPDATE_VALUES; P_MOVE_TO; P_LINKS; P_ALIGNED; P_REMOVE_COMPONENT] ->
            table_policy p = Some (2, true) /\ uncond_of p = true.
Proof. exact Lemmas.table_policy_covers. Qed.
Print Assumptions table_policy_covers.

(* add_component on an existing attribute clears everything before the broadcast under the guard `is_present`,
   i.e. exactly when it is this operation (the guard is read, not proved, by the scan: uncond_of 7 = false). *)
Theorem table_policy_replace_component : table_policy P_REPLACE_COMPONENT = Some (2, true).
Proof. exact Lemmas.table_policy_replace_component. Qed.
Print Assumptions table_policy_replace_component.

(* FULL STATEMENT (false for the current source, see stale_setattr_refuted):
     forall fr den ops, ops_ok den fr ops world0 ->
       snd (run table_policy fr ops world0 empty_state) = fresh_run fr ops world0.
   PARTIAL, exact guard = the history contains no assignment to an attribute of a state / in-place edit of its region: *)
Theorem coherent_reachable_partial :
  forall (fr : fresh_fn) (den : world -> nat -> nat -> nat -> option mask) (ops : list op),
    ops_ok den fr ops world0 ->
    (forall o, In o ops -> is_setattr o = false) ->
    let q := run table_policy fr ops world0 empty_state in
    coherentE (den (fst (fst q))) (snd (fst q)) /\ snd q = fresh_run fr ops world0.
Proof. exact Lemmas.coherent_reachable_partial. Qed.
Print Assumptions coherent_reachable_partial.

(* REFUTED: with the current source an assignment to an attribute of a memoised state leaves its cached mask
   (known finding setattr-no-invalidation); the witness replays on the implementation. *)
Theorem stale_setattr_refuted :
  exists (fr : fresh_fn) (den : world -> nat -> nat -> nat -> option mask) (ops : list op),
    ops_ok den fr ops world0 /\
    snd (run table_policy fr ops world0 empty_state) <> fresh_run fr ops world0.
Proof. exact Lemmas.stale_setattr_refuted. Qed.
Print Assumptions stale_setattr_refuted.

(* Fresh evaluation is C01's elementwise Boolean evaluation whenever no part raises. *)
Theorem evalo_total : forall (lt : nat -> mask) (lm : nat -> option mask) (e : expr),
  (forall n, lm n = Some (lt n)) -> wf e -> evalo lm e = Some (eval lt e).
Proof. exact Lemmas.evalo_total. Qed.
Print Assumptions evalo_total.

(* A one-entry cache keyed on a tuple that determines the value (FloodFillSubsetState, HistogramLayerState) returns,
   for every sequence of requests, what recomputation returns. *)
Theorem keyed_cache_sound :
  forall (K V : Type) (keqb : K -> K -> bool), (forall a b, keqb a b = true -> a = b) ->
  forall (compute : K -> V) (ks : list K) (cache : option (K * V)),
    keyed_ok K V compute cache -> keyed_run K V keqb compute cache ks = map compute ks.
Proof. exact Lemmas.keyed_cache_sound. Qed.
Print Assumptions keyed_cache_sound.

(* The cache key of HistogramLayerState.update_histogram in the current source: id(x_att), x_log, hist_x_min, hist_x_max,
   hist_n_bin (so two attributes with the same label do not share an entry). *)
Theorem histogram_key_fields : hist_key_fields = [1; 2; 3; 4; 5].
Proof. exact Lemmas.histogram_key_fields. Qed.
Print Assumptions histogram_key_fields.

(* FloodFillSubsetState recomputes its mask when its parameters differ or when data[att] is no longer the array the mask was
   computed from (so a derived / linked attribute, whose array is rebuilt on every read, is never served from the cache). *)
Theorem floodfill_recompute_test : floodfill_key = 1.
Proof. exact Lemmas.floodfill_recompute_test. Qed.
Print Assumptions floodfill_recompute_test.

(* ---- post-processing reads: settings that are NOT part of the cache key (normalize, cumulative, ...) are applied on top of the cached value
   at every read.  With an immutable cached value (a read returns `post settings cached`), for every history of key-setting changes,
   presentation-setting changes and reads, from any cache that holds a value its key determines, every read returns
   `post current_settings (compute current_key)` = what freshly constructed objects with the current settings return. *)
Theorem post_reads_fresh :
  forall (K S V R : Type) (keqb : K -> K -> bool), (forall a b, keqb a b = true -> a = b) ->
  forall (compute : K -> V) (post : S -> V -> R) (ops : list (pop K S)) (k : K) (s : S) (cache : option (K * V)),
    pcache_ok K V compute cache ->
    prun K S V R keqb compute post (k, s, cache) ops = pspec K S V R compute post k s ops.
Proof. exact Lemmas.post_reads_fresh. Qed.
Print Assumptions post_reads_fresh.

(* REFUTED for the variant whose post-processing works in place on the cell (the cell then holds what the last read produced):
   read with normalize on, switch it off, read again. *)
Theorem inplace_post_refuted :
  exists (compute : unit -> list nat) (ops : list (pop unit (bool * bool))),
    prun_mut unit (bool * bool) (list nat) unit_eqb compute hist_post (tt, (false, false), None) ops
    <> pspec unit (bool * bool) (list nat) (list nat) compute hist_post tt (false, false) ops.
Proof. exact Lemmas.inplace_post_refuted. Qed.
Print Assumptions inplace_post_refuted.

(* The checker of programs that read a cache entry is sound: a program it accepts never writes into the cached value (location 0), whichever
   branches are taken, however often loops run, whatever the right-hand sides that MAY share memory with the entry actually return. *)
Theorem safe_prog_sound : forall p, safe_prog p = true ->
  forall e e' w, clean e -> exec e p e' w -> w = false.
Proof. exact Lemmas.safe_prog_sound. Qed.
Print Assumptions safe_prog_sound.

(* On the table regenerated from the CURRENT source: no function that reads a cache entry (a `*_cache` attribute, memoize's dict, the result
   of a memoised to_mask / get_mask / update_histogram / update_profile / .profile / .histogram) modifies it in place -- every `/=`, `*=`,
   `x[..] =`, `.sort()`, `out=` is applied to a name that was re-bound to a new array (`.copy()`, `.astype(..)`, `np.array(..)`, arithmetic)
   first.  One row is exempt: compute_fixed_resolution_buffer (see PostLemmas.post_table_safe). *)
Theorem cached_values_never_written : forall n p,
  In (n, p) post_fns -> n <> post_fn_frb ->
  forall e e' w, clean e -> exec e p e' w -> w = false.
Proof. exact Lemmas.cached_values_never_written. Qed.
Print Assumptions cached_values_never_written.

(* the rows for HistogramLayerState.histogram, ProfileLayerState.profile and memoize's wrapper are in the table and pass the checker *)
Theorem post_table_rows :
  (exists p, post_fn post_fn_histogram = Some p /\ safe_prog p = true) /\
  (exists p, post_fn post_fn_profile = Some p /\ safe_prog p = true) /\
  (exists p, post_fn post_fn_memoize = Some p /\ safe_prog p = true).
Proof. exact Lemmas.post_table_rows. Qed.
Print Assumptions post_table_rows.

(* ---- `memoize`, `clear_cache` (glue/core/decorators.py) translated statement by statement (Gen_memo.memoize_pre / memoize_wrapper / memoize_post /
   clear_cache_body), run over a heap of dict OBJECTS (C05.Memo: the closure variable holds a reference, `__memoize_cache` holds a reference, `{}`
   allocates, `.clear()` empties the object).  For every number of decorated functions and EVERY history of calls (hashable or not, `_make_key`
   raising or not, the function raising or not), clear_cache(f) and clear_mask_caches(): the translated code returns exactly what the hand model's
   per-function store returns (look up, else compute and store; unhashable -> call through; an exception is not remembered; clear_cache(f) = store f
   becomes empty), and the dicts hold exactly the hand model's stores. *)
Theorem memoize_refines_store : forall n h, exists st0 st',
  decorate_all memoize_pre memoize_post n = Some st0 /\
  run_hist memoize_wrapper clear_cache_body h st0 = Some (st', snd (spec_hist h (repeat [] n))) /\
  m_dicts st' = fst (spec_hist h (repeat [] n)).
Proof. exact Lemmas.memoize_refines_store. Qed.
Print Assumptions memoize_refines_store.

(* After every history: for every decorated function, the dict its wrapper consults IS the dict `__memoize_cache` refers to, i.e. the one
   clear_cache / clear_mask_caches empty (however many distinct keys were stored in between). *)
Theorem consulted_dict_is_cleared_dict : forall n h st0 st' rs,
  decorate_all memoize_pre memoize_post n = Some st0 ->
  run_hist memoize_wrapper clear_cache_body h st0 = Some (st', rs) ->
  handles_ok st'.
Proof. exact Lemmas.consulted_dict_is_cleared_dict. Qed.
Print Assumptions consulted_dict_is_cleared_dict.

(* clear_mask_caches in the current source is the work-list walk over the whole class tree calling clear_cache on every class's own to_mask;
   clear_cache on every function leaves every store empty. *)
Theorem clear_mask_caches_empties_every_store :
  clear_mask_caches_walk = 1 /\
  forall sp f, nth f (spec_clear_list (seq 0 (length sp)) sp) [] = [].
Proof. exact Lemmas.clear_mask_caches_empties_every_store. Qed.
Print Assumptions clear_mask_caches_empties_every_store.

(* REFUTED for the bounded variant that re-binds the closure variable to a new dict when the old one is full (`nonlocal memo; if len(memo) >= N:
   memo = {}`): three keys with N = 2, clear_mask_caches, the third request again -> the stale value, and the wrapper's dict is not the handle's. *)
Theorem rebinding_refuted :
  exists h st0 st' rs,
    decorate_all memoize_pre memoize_post 1 = Some st0 /\
    run_hist (wrapper_rebinding 2) clear_cache_body h st0 = Some (st', rs) /\
    rs <> snd (spec_hist h (repeat [] 1)) /\
    ~ handles_ok st'.
Proof. exact Lemmas.rebinding_refuted. Qed.
Print Assumptions rebinding_refuted.

(* ---- Round 6: the link between the translated decorator and the memo of the evaluator.
   [flat_call] / [flat_hist] (C05.Memo) are the hand model on ONE store: C01.Heap's [memo] list with [mlookup] / [mstore] / [mclear], the store
   that C01.Model.with_memo and C05.Model.with_memo_e / clear_path use; clear_mask_caches = the empty list (the model's scope 2).
   [well_keyed]: the key of a call to decorated function f carries f (with_memo_e builds `mkkey f id d v form`).

   For every number of decorated functions and every such history of calls and clears: the per-function stores of the hand model that the
   translated programs refine return the same results as the one memo, and afterwards EVERY key has the same lookup in the stores put together
   (their concatenation) as in the memo. *)
Theorem stores_joined_are_memo : forall n h, well_keyed h ->
  snd (spec_hist h (repeat [] n)) = snd (flat_hist n h []) /\
  forall k, mlookup k (concat (fst (spec_hist h (repeat [] n)))) = mlookup k (fst (flat_hist n h [])).
Proof. exact Lemmas.stores_joined_are_memo. Qed.
Print Assumptions stores_joined_are_memo.

(* clear_cache on every one of the n decorated functions (what clear_mask_caches does) = mclear of every function: no key of a decorated function
   is found afterwards -- observationally the empty memo of the model's scope 2. *)
Theorem clear_fns_all : forall n m k,
  mlookup k (clear_fns (seq 0 n) m) = if k_fn k <? n then None else mlookup k m.
Proof. exact Lemmas.clear_fns_all. Qed.
Print Assumptions clear_fns_all.

(* COROLLARY.  The programs TRANSLATED from glue/core/decorators.py (memoize around n functions, then any well-keyed history through the translated
   wrapper / clear_cache / clear_mask_caches), run over the heap of dict objects, return exactly the results of the model's one memo, their dicts put
   together are observationally that memo, and every wrapper consults the dict its handle clears. *)
Theorem translated_memoize_is_model_memo : forall n h, well_keyed h -> exists st0 st',
  decorate_all memoize_pre memoize_post n = Some st0 /\
  run_hist memoize_wrapper clear_cache_body h st0 = Some (st', snd (flat_hist n h [])) /\
  (forall k, mlookup k (concat (m_dicts st')) = mlookup k (fst (flat_hist n h []))) /\
  handles_ok st'.
Proof. exact Lemmas.translated_memoize_is_model_memo. Qed.
Print Assumptions translated_memoize_is_model_memo.

(* The evaluator's memo behaviour is that of those programs.  evalE touches st_memo through with_memo_e only (at every node), step through
   clear_path only.  with_memo_e around ANY nested computation is: a hit = one wrapper call that finds the key (nothing computed); otherwise the
   nested computation followed by ONE wrapper call whose wrapped-function outcome is the computation's (value or exception; unhashable = call
   through).  Exact side condition: the nested computation did not itself store the key its caller is about to store (a state object is not its own
   descendant).  So coherent_reachable / stale_free / evalE_good speak about the translated decorator. *)
Theorem with_memo_e_is_wrapper_call : forall n hk f id d v form compute st, f < n ->
  let k := mkkey f id d v form in
  let st' := fst (compute st) in
  let oa := snd (compute st) in
  (mlookup k (st_memo st) = None -> mlookup k (st_memo st') = None) ->
  let out := with_memo_e hk (Some f) id d v form compute st in
  match (if hk then mlookup k (st_memo st) else None) with
  | Some a => out = (st, Some a) /\ forall ores, flat_call n f (mkcall false hk k ores) (st_memo st) = (st_memo st, RVal a)
  | None => st_heap (fst out) = st_heap st' /\ snd out = oa /\
            flat_call n f (mkcall false hk k oa) (st_memo st') = (st_memo (fst out), res_of (snd out))
  end.
Proof. exact Lemmas.with_memo_e_is_wrapper_call. Qed.
Print Assumptions with_memo_e_is_wrapper_call.

(* clear_path under any policy is a history of clear_cache(f) calls (scopes 0 / 1) or one clear_mask_caches() (scope 2) on the memo; the heap is untouched. *)
Theorem clear_path_is_clear_cache : forall n pol p tops reach st,
  st_heap (clear_path pol p tops reach st) = st_heap st /\
  st_memo (clear_path pol p tops reach st) = fst (flat_hist n (clear_hops pol p tops reach) (st_memo st)).
Proof. exact Lemmas.clear_path_is_clear_cache. Qed.
Print Assumptions clear_path_is_clear_cache.
