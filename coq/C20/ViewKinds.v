(* C20 — view_shape is a function of the view AS NUMPY READS IT (the kind of every index item matters), never of the
   view up to Python equality; call histories of a memoised view_shape. *)
From Coq Require Import ZArith List Bool Lia.
Import ListNotations.
From GV Require Import Common.PyInt gen.Gen_array gen.Gen_arraypure C20.Model C20.Lemmas C20.CombineProof C20.ViewShape.
Open Scope Z_scope.

Definition ventry_item (e : ventry) : vitem := match e with VInt i => VIInt i | VSlice s => VISlice s end.

(* ---- on ints and slices the full reading is the basic-indexing model (proved correct in ViewShape.v) ---- *)
Lemma vi_dims_basic (v : list ventry) : forall shape nell,
  vi_dims shape (map ventry_item v) nell = view_shape shape v.
Proof.
  induction v as [|e v IH]; intros shape nell; [destruct shape; reflexivity|].
  destruct shape as [|n s]; [destruct e; reflexivity|].
  destruct e as [i|sl]; cbn [map ventry_item vi_dims view_shape].
  - destruct ((i <? - n) || (i >=? n)); [reflexivity | apply IH].
  - rewrite IH. reflexivity.
Qed.

Lemma view_shape_too_long (v : list ventry) : forall shape,
  (length shape < length v)%nat -> view_shape shape v = None.
Proof.
  induction v as [|e v IH]; intros shape Hlen; [cbn in Hlen; lia|].
  destruct shape as [|n s]; [destruct e; reflexivity|].
  cbn [length] in Hlen. assert (Hs : (length s < length v)%nat) by lia.
  destruct e as [i|sl]; cbn [view_shape].
  - destruct ((i <? - n) || (i >=? n)); [reflexivity | apply IH, Hs].
  - rewrite (IH s Hs). destruct (slice_indices sl n) as [[[b e] k]|]; reflexivity.
Qed.

Lemma consumed_basic (v : list ventry) :
  fold_right Z.add 0 (map vi_consumes (map ventry_item v)) = Z.of_nat (length v).
Proof.
  induction v as [|e v IH]; [reflexivity|].
  cbn [map fold_right length]. rewrite IH. destruct e; cbn [ventry_item vi_consumes]; lia.
Qed.

Lemma no_ell_basic (v : list ventry) : filter vi_is_ell (map ventry_item v) = [].
Proof. induction v as [|e v IH]; [reflexivity|]. destruct e; cbn; exact IH. Qed.

Lemma no_bool_basic (v : list ventry) : existsb vi_is_bool (map ventry_item v) = false.
Proof. induction v as [|e v IH]; [reflexivity|]. destruct e; cbn; exact IH. Qed.

Lemma np_index_shape_basic (shape : list Z) (v : list ventry) :
  np_index_shape shape (map ventry_item v) = view_shape shape v.
Proof.
  unfold np_index_shape. rewrite consumed_basic, no_ell_basic, no_bool_basic. cbn [length Nat.ltb Nat.leb].
  unfold zlen. destruct (Z.of_nat (length shape) <? Z.of_nat (length v)) eqn:E.
  - symmetry. apply view_shape_too_long. lia.
  - rewrite vi_dims_basic. destruct (view_shape shape v); reflexivity.
Qed.

(* the translated view_shape around the numpy operation, on basic views: the per-axis lengths of the selected positions *)
Lemma view_shape_full_basic (shape : list Z) (v : list ventry) :
  Forall (fun n => 0 <= n) shape ->
  view_shape_full shape (Some (map ventry_item v)) = option_map (map zlen) (view_sel shape v).
Proof.
  intros Hs. unfold view_shape_full, view_shape_gen. rewrite np_index_shape_basic. now apply view_shape_correct.
Qed.

Lemma view_shape_full_none (shape : list Z) : view_shape_full shape None = Some shape.
Proof. reflexivity. Qed.

(* ---- equal as numpy reads them = equal ---- *)
Lemma optz_eqb_eq a b : optz_eqb a b = true -> a = b.
Proof. destruct a, b; cbn; try discriminate; try reflexivity. intros H. apply Z.eqb_eq in H. now subst. Qed.

Lemma slice_eqb_eq s t : slice_eqb s t = true -> s = t.
Proof.
  destruct s as [a b c], t as [a' b' c']. unfold slice_eqb. cbn [sl_start sl_stop sl_step]. intros H.
  apply andb_prop in H. destruct H as [H Hc]. apply andb_prop in H. destruct H as [Ha Hb].
  apply optz_eqb_eq in Ha, Hb, Hc. now subst.
Qed.

Lemma np_eq_item_eq a b : np_eq_item a b = true -> a = b.
Proof.
  destruct a, b; cbn; try discriminate; try reflexivity; intros H.
  - apply Z.eqb_eq in H. now subst.
  - apply Bool.eqb_prop in H. now subst.
  - apply slice_eqb_eq in H. now subst.
Qed.

Lemma np_eq_view_eq (v : list vitem) : forall w, np_eq_view v w = true -> v = w.
Proof.
  induction v as [|a v IH]; intros [|b w] H; cbn in H; try discriminate; [reflexivity|].
  apply andb_prop in H. destruct H as [H1 H2]. apply np_eq_item_eq in H1. apply IH in H2. now subst.
Qed.

Lemma view_shape_reads_kinds (shape : list Z) (v w : list vitem) :
  np_eq_view v w = true -> view_shape_full shape (Some v) = view_shape_full shape (Some w).
Proof. intros H. apply np_eq_view_eq in H. now subst. Qed.

(* ---- ... and NOT a function of the view up to Python equality: 1 == True, but x[1] drops an axis, x[True] adds one ---- *)
Lemma view_shape_python_equality_refuted :
  ~ exists f : list Z -> list vitem -> option (list Z),
      (forall sh v w, py_eq_view v w = true -> f sh v = f sh w) /\
      (forall sh v, f sh v = view_shape_full sh (Some v)).
Proof.
  intros [f [Hresp Hval]].
  pose proof (Hresp [3; 4] [VIInt 1] [VIBool true] eq_refl) as H.
  rewrite !Hval in H. vm_compute in H. discriminate.
Qed.

(* ---- histories: a memoised view_shape is exact for every history when its key equality only identifies views that
   numpy reads alike -- and with Python's equality as the key it is not ---- *)
Lemma zlist_eqb_eq (a : list Z) : forall b, zlist_eqb a b = true -> a = b.
Proof.
  unfold zlist_eqb. induction a as [|x a IH]; intros [|y b] H; cbn in H; try discriminate; [reflexivity|].
  apply andb_prop in H. destruct H as [Hl H]. apply andb_prop in H. destruct H as [Hx Hr].
  apply Z.eqb_eq in Hx. subst. f_equal. apply IH. now rewrite Hl, Hr.
Qed.

Definition memo_ok (m : memo) : Prop := Forall (fun e => snd e = np_index_shape (fst (fst e)) (snd (fst e))) m.

Lemma memo_lookup_ok keq (Hk : forall v w, keq v w = true -> forall sh, np_index_shape sh v = np_index_shape sh w)
  (m : memo) : memo_ok m -> forall sh v r, memo_lookup keq sh v m = Some r -> r = np_index_shape sh v.
Proof.
  induction m as [|[[sh' v'] r'] m IH]; intros Hm sh v r Hl; [discriminate|].
  inversion Hm as [|? ? He Hm']; subst. cbn [fst snd] in He. cbn [memo_lookup] in Hl.
  destruct (zlist_eqb sh sh' && keq v v') eqn:E.
  - apply andb_prop in E. destruct E as [Es Ek]. apply zlist_eqb_eq in Es. subst sh'.
    injection Hl as <-. rewrite He. symmetry. now apply Hk.
  - now apply IH.
Qed.

Lemma run_cached_exact keq
  (Hk : forall v w, keq v w = true -> forall sh, np_index_shape sh v = np_index_shape sh w)
  (calls : list (list Z * list vitem)) : forall m, memo_ok m ->
  run_cached keq m calls = map (fun c => np_index_shape (fst c) (snd c)) calls.
Proof.
  induction calls as [|[sh v] calls IH]; intros m Hm; [reflexivity|].
  cbn [run_cached map fst snd]. destruct (memo_lookup keq sh v m) as [r|] eqn:E.
  - rewrite (memo_lookup_ok keq Hk m Hm sh v r E). f_equal. now apply IH.
  - f_equal. apply IH. constructor; [reflexivity | exact Hm].
Qed.

Lemma memoised_view_shape_exact keq :
  (forall v w, keq v w = true -> forall sh, np_index_shape sh v = np_index_shape sh w) ->
  forall calls, run_cached keq [] calls = map (fun c => np_index_shape (fst c) (snd c)) calls.
Proof. intros Hk calls. apply run_cached_exact; [exact Hk | constructor]. Qed.

Lemma memoised_view_shape_typed_key calls :
  run_cached np_eq_view [] calls = map (fun c => np_index_shape (fst c) (snd c)) calls.
Proof.
  apply memoised_view_shape_exact. intros v w H sh. apply np_eq_view_eq in H. now subst.
Qed.

Lemma memoised_view_shape_python_key_refuted :
  exists calls, run_cached py_eq_view [] calls <> map (fun c => np_index_shape (fst c) (snd c)) calls.
Proof.
  exists [([3; 4], [VIInt 1]); ([3; 4], [VIBool true])]. vm_compute. discriminate.
Qed.
