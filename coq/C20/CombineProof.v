(* C20 -- combine_slices (translated code, Gen_array.combine_slices):
   applying the combined slice to the view selected by slice1 yields exactly the
   elements of the view that slice2 also selects, in order. *)
From Coq Require Import ZArith List Bool Lia ZifyBool Sorting.Sorted.
Import ListNotations.
From GV Require Import Common.PyInt gen.Gen_array C20.Model C20.Lemmas.
Open Scope Z_scope.
Ltac Zify.zify_post_hook ::= Z.to_euclidean_division_equations.

(* ------------------------------------------------------------------ sorted lists *)
Lemma SSorted_map {A B} (RA : A -> A -> Prop) (RB : B -> B -> Prop) (f : A -> B) (l : list A) :
  (forall x y, RA x y -> RB (f x) (f y)) ->
  StronglySorted RA l -> StronglySorted RB (map f l).
Proof.
  intros Hmono Hs. induction Hs as [|a l Hs IH Hall]; cbn [map]; constructor; [exact IH|].
  rewrite Forall_forall in *. intros y Hy. apply in_map_iff in Hy as (x & <- & Hx).
  apply Hmono, Hall, Hx.
Qed.

Lemma SSorted_filter {A} (R : A -> A -> Prop) (p : A -> bool) (l : list A) :
  StronglySorted R l -> StronglySorted R (filter p l).
Proof.
  intros Hs. induction Hs as [|a l Hs IH Hall]; cbn [filter]; [constructor|].
  destruct (p a); [|exact IH]. constructor; [exact IH|].
  rewrite Forall_forall in *. intros y Hy. apply filter_In in Hy as [Hy _]. auto.
Qed.

Lemma SSorted_seq (st len : nat) : StronglySorted lt (seq st len).
Proof.
  revert st. induction len as [|len IH]; intros st; cbn [seq]; constructor; [apply IH|].
  apply Forall_forall. intros y Hy. apply in_seq in Hy. lia.
Qed.

Lemma sorted_ext (l1 : list Z) : forall l2 : list Z,
  StronglySorted Z.lt l1 -> StronglySorted Z.lt l2 ->
  (forall x, In x l1 <-> In x l2) -> l1 = l2.
Proof.
  induction l1 as [|a l1 IH]; intros l2 H1 H2 Hin.
  - destruct l2 as [|b l2]; [reflexivity|]. exfalso. apply (Hin b). left; reflexivity.
  - destruct l2 as [|b l2]; [exfalso; apply (Hin a); left; reflexivity|].
    inversion H1 as [|? ? H1s H1a]; subst. inversion H2 as [|? ? H2s H2a]; subst.
    rewrite Forall_forall in H1a, H2a.
    assert (Hab : a = b).
    { assert (Ha : In a (b :: l2)) by (apply Hin; left; reflexivity).
      assert (Hb : In b (a :: l1)) by (apply Hin; left; reflexivity).
      destruct Ha as [Ha|Ha]; [congruence|]. destruct Hb as [Hb|Hb]; [congruence|].
      apply H2a in Ha. apply H1a in Hb. lia. }
    subst b. f_equal. apply IH; [assumption | assumption |].
    intros x. split; intros Hx.
    + assert (Hx' : In x (a :: l2)) by (apply Hin; right; exact Hx).
      destruct Hx' as [Hx'|Hx']; [|exact Hx']. apply H1a in Hx. lia.
    + assert (Hx' : In x (a :: l1)) by (apply Hin; right; exact Hx).
      destruct Hx' as [Hx'|Hx']; [|exact Hx']. apply H2a in Hx. lia.
Qed.

(* ------------------------------------------------------------------ divisibility helpers *)
Lemma divide_div_mul (k a : Z) : 0 < k -> (k | a) -> a = (a / k) * k.
Proof. intros Hk [t ->]. rewrite Z.div_mul by lia. reflexivity. Qed.

Lemma mod0_divide (k a : Z) : 0 < k -> (a mod k = 0 <-> (k | a)).
Proof. intros Hk. apply Z.mod_divide. lia. Qed.

(* if every common multiple w of k1,k2 in [0,u] is 0 or >= d, and d, u are common multiples,
   then d divides u *)
Lemma gap_divides (k1 k2 d u : Z) :
  0 < d -> 0 <= u -> (k1 | d) -> (k1 | u) -> (k2 | d) -> (k2 | u) ->
  (forall w, 0 <= w <= u -> (k1 | w) -> (k2 | w) -> w = 0 \/ d <= w) ->
  (d | u).
Proof.
  intros Hd Hu H1d H1u H2d H2u Hmin.
  apply mod0_divide; [exact Hd|].
  assert (Hr : 0 <= u mod d < d) by (apply Z.mod_pos_bound; exact Hd).
  assert (Hle : u mod d <= u) by (apply Z.mod_le; lia).
  assert (Heq : u mod d = u - d * (u / d)) by (rewrite Z.mod_eq; lia).
  destruct (Hmin (u mod d)) as [H0|Hge]; try lia.
  - rewrite Heq. apply Z.divide_sub_r; [exact H1u | apply Z.divide_mul_l; exact H1d].
  - rewrite Heq. apply Z.divide_sub_r; [exact H2u | apply Z.divide_mul_l; exact H2d].
Qed.

(* ------------------------------------------------------------------ py_range *)
Lemma range_len_nonneg (a b s : Z) : 0 <= range_len a b s.
Proof.
  unfold range_len. destruct (s <=? 0) eqn:E1; [lia|]. destruct (b <=? a) eqn:E2; [lia|].
  apply Z.div_pos; lia.
Qed.

Lemma zlen_py_range (a b s : Z) : zlen (py_range a b s) = range_len a b s.
Proof.
  unfold zlen, py_range. rewrite map_length, seq_length.
  apply Z2Nat.id, range_len_nonneg.
Qed.

Lemma range_len_lt (a b s k : Z) : 0 < s -> 0 <= k -> (k < range_len a b s <-> a + k * s < b).
Proof.
  intros Hs Hk. unfold range_len.
  destruct (s <=? 0) eqn:E1; [lia|]. destruct (b <=? a) eqn:E2; [nia|].
  assert (H1 : s * ((b - a + s - 1) / s) <= b - a + s - 1) by (apply Z.mul_div_le; lia).
  assert (H2 : b - a + s - 1 < s * ((b - a + s - 1) / s) + s)
    by (pose proof (Z.mul_succ_div_gt (b - a + s - 1) s ltac:(lia)); lia).
  split; intros H; nia.
Qed.

Lemma In_py_range (a b s x : Z) : 0 < s ->
  (In x (py_range a b s) <-> a <= x < b /\ (s | x - a)).
Proof.
  intros Hs. unfold py_range. rewrite in_map_iff. split.
  - intros (k & <- & Hk). apply in_seq in Hk.
    assert (Hk' : Z.of_nat k < range_len a b s) by lia.
    apply range_len_lt in Hk'; [|lia|lia].
    split; [nia|]. exists (Z.of_nat k). lia.
  - intros (Hx & t & Ht).
    assert (Ht0 : 0 <= t) by nia.
    exists (Z.to_nat t). split; [rewrite Z2Nat.id by lia; lia|].
    apply in_seq. split; [lia|]. cbn [Nat.add].
    assert (Hlt : t < range_len a b s) by (apply range_len_lt; lia).
    lia.
Qed.

Lemma py_range_sorted (a b s : Z) : 0 < s -> StronglySorted Z.lt (py_range a b s).
Proof.
  intros Hs. unfold py_range.
  apply (SSorted_map lt Z.lt); [|apply SSorted_seq].
  intros x y Hxy. nia.
Qed.

Lemma py_range_empty (a b s : Z) : range_len a b s = 0 -> py_range a b s = [].
Proof. intros H. unfold py_range. rewrite H. reflexivity. Qed.

Lemma znth_py_range (a b s i : Z) : 0 <= i < range_len a b s ->
  znth (py_range a b s) i = a + i * s.
Proof.
  intros Hi. unfold znth. destruct (i <? 0) eqn:E; [lia|].
  unfold py_range.
  set (f := fun k : nat => a + Z.of_nat k * s).
  rewrite (nth_indep _ 0 (f 0%nat)) by (rewrite map_length, seq_length; lia).
  rewrite map_nth, seq_nth by lia. unfold f. cbn [Nat.add]. rewrite Z2Nat.id by lia. reflexivity.
Qed.

(* ------------------------------------------------------------------ slice.indices *)
Definition pos_step (s : slice) : Prop := match sl_step s with None => True | Some k => 0 < k end.

Lemma slice_indices_pos (s : slice) (n : Z) : pos_step s ->
  exists b e k, slice_indices s n = Some (b, e, k) /\ 0 < k.
Proof.
  unfold pos_step, slice_indices. destruct (sl_step s) as [k|]; intros Hk.
  - destruct (k =? 0) eqn:E; [lia|]. do 3 eexists. split; [reflexivity | exact Hk].
  - cbn. do 3 eexists. split; [reflexivity | lia].
Qed.

Lemma slice_indices_step (s : slice) (n b e k : Z) :
  slice_indices s n = Some (b, e, k) -> k = match sl_step s with None => 1 | Some k => k end.
Proof.
  unfold slice_indices. cbv zeta.
  destruct (match sl_step s with None => 1 | Some k0 => k0 end =? 0); [discriminate|].
  intros H. inversion H. reflexivity.
Qed.

(* a slice with in-range non-negative fields is not clipped *)
Lemma slice_elems_mk3 (a b c L : Z) : 0 <= a -> 0 <= b <= L -> 0 < c ->
  slice_elems (mk_slice3 (a, b, c)) L = py_range a b c.
Proof.
  intros Ha Hb Hc. unfold slice_elems, mk_slice3, slice_indices. cbn [sl_step sl_start sl_stop].
  destruct (c =? 0) eqn:E0; [lia|]. destruct (c <? 0) eqn:E1; [lia|].
  destruct (a <? 0) eqn:E2; [lia|]. destruct (b <? 0) eqn:E3; [lia|].
  assert (Hstop : (if b >=? L then L else b) = b) by (destruct (b >=? L) eqn:E4; lia).
  rewrite Hstop.
  destruct (a >=? L) eqn:E5; [|reflexivity].
  rewrite !py_range_empty; [reflexivity | |]; unfold range_len;
    destruct (c <=? 0); try reflexivity.
  - destruct (b <=? a) eqn:E6; [reflexivity | lia].
  - destruct (b <=? L) eqn:E6; [reflexivity | lia].
Qed.

(* ------------------------------------------------------------------ the loop *)
(* the body of the translated for-loop (convertible to the lambda in Gen_array.combine_slices) *)
Definition stepF (beg1 step1 : Z) : list Z * bool -> Z -> list Z * bool :=
  fun (st0_ : (list Z) * (bool)) (idx : Z) => let '(indices, brk0_) := st0_ in
    if brk0_ then (indices, brk0_) else
    let '(indices, brk0_) := (if (((idx - beg1) mod step1) =? (0)) then
      let indices := indices ++ [((idx - beg1) / step1)] in
      let brk0_ := (if ((zlen indices) =? (2)) then
        let brk0_ := true in
        brk0_
      else
        brk0_) in
      (indices, brk0_)
    else
      (indices, brk0_)) in
    (indices, brk0_).

Lemma fold_stepF_brk (b1 k1 : Z) (l : list Z) (acc : list Z) :
  fold_left (stepF b1 k1) l (acc, true) = (acc, true).
Proof. induction l as [|x l IH]; cbn [fold_left]; [reflexivity|]. exact IH. Qed.

(* the loop collects (the view positions of) the first two hits *)
Lemma fold_stepF_take2 (b1 k1 : Z) (l : list Z) : forall acc : list Z,
  (length acc < 2)%nat ->
  fst (fold_left (stepF b1 k1) l (acc, false)) =
  acc ++ map (fun x => (x - b1) / k1)
             (firstn (2 - length acc) (filter (fun x => (x - b1) mod k1 =? 0) l)).
Proof.
  induction l as [|x l IH]; intros acc Hacc; cbn [fold_left filter].
  - rewrite firstn_nil. cbn. symmetry; apply app_nil_r.
  - unfold stepF at 2. cbv zeta.
    destruct ((x - b1) mod k1 =? 0) eqn:EP.
    + destruct (zlen (acc ++ [(x - b1) / k1]) =? 2) eqn:E2.
      * rewrite fold_stepF_brk. cbn [fst].
        assert (Hl : length acc = 1%nat).
        { unfold zlen in E2. rewrite app_length in E2. cbn [length] in E2. lia. }
        rewrite Hl. cbn [Nat.sub firstn map]. reflexivity.
      * assert (Hl : length acc = 0%nat).
        { unfold zlen in E2. rewrite app_length in E2. cbn [length] in E2. lia. }
        rewrite IH by (rewrite app_length; cbn [length]; lia).
        rewrite app_length, Hl. cbn [length Nat.add Nat.sub firstn map].
        rewrite <- app_assoc. reflexivity.
    + apply IH. exact Hacc.
Qed.

(* ------------------------------------------------------------------ arithmetic of the result *)
Definition common (b1 e1 k1 b2 e2 k2 y : Z) : Prop :=
  b1 <= y < e1 /\ b2 <= y < e2 /\ (k1 | y - b1) /\ (k2 | y - b2).

Lemma beg_spec (m b2 k2 : Z) : 0 < k2 ->
  let beg := if negb ((m - b2) mod k2 =? 0) then m + (k2 - (m - b2) mod k2) else m in
  m <= beg < m + k2 /\ (k2 | beg - b2).
Proof.
  intros Hk. cbv zeta.
  assert (Hr : 0 <= (m - b2) mod k2 < k2) by (apply Z.mod_pos_bound; exact Hk).
  destruct ((m - b2) mod k2 =? 0) eqn:E; cbn [negb].
  - split; [lia|]. apply mod0_divide; lia.
  - split; [lia|]. exists ((m - b2) / k2 + 1).
    rewrite Z.mod_eq by lia. lia.
Qed.

Lemma ceil_spec (a k : Z) : 0 < k ->
  let q := if negb (a mod k =? 0) then a / k + 1 else a / k in
  forall i, i < q <-> i * k < a.
Proof.
  intros Hk. cbv zeta. intros i.
  assert (Hr : 0 <= a mod k < k) by (apply Z.mod_pos_bound; exact Hk).
  assert (Ha : a = k * (a / k) + a mod k) by (apply Z.div_mod; lia).
  destruct (a mod k =? 0) eqn:E; cbn [negb]; split; intros H; nia.
Qed.

(* membership in the scanned range + hit test  <->  common element *)
Lemma scan_common (b1 e1 k1 b2 e2 k2 beg y : Z) :
  0 < k1 -> 0 < k2 ->
  Z.max b1 b2 <= beg < Z.max b1 b2 + k2 -> (k2 | beg - b2) ->
  (In y (filter (fun x => (x - b1) mod k1 =? 0) (py_range beg (Z.min e1 e2) k2))
   <-> common b1 e1 k1 b2 e2 k2 y).
Proof.
  intros Hk1 Hk2 Hbeg Hdiv. rewrite filter_In, In_py_range by exact Hk2.
  rewrite Z.eqb_eq, mod0_divide by exact Hk1. unfold common. split.
  - intros ((Hy & Hd2) & Hd1). repeat split; try lia; [exact Hd1|].
    replace (y - b2) with ((y - beg) + (beg - b2)) by lia.
    apply Z.divide_add_r; assumption.
  - intros (Hy1 & Hy2 & Hd1 & Hd2).
    assert (Hd : (k2 | y - beg)).
    { replace (y - beg) with ((y - b2) - (beg - b2)) by lia.
      apply Z.divide_sub_r; assumption. }
    repeat split; try lia; try assumption.
    destruct Hd as [t Ht].
    assert (Ht0 : 0 <= t).
    { destruct (Z_lt_le_dec t 0) as [Hn|]; [|assumption].
      assert (Hm : t * k2 <= -1 * k2) by (apply Z.mul_le_mono_nonneg_r; lia). lia. }
    nia.
Qed.

(* The core: what the translated function returns, described without reference to lists of s1 *)
Lemma combine_core (s1 s2 : slice) (n b1 e1 k1 b2 e2 k2 : Z) :
  slice_indices s1 n = Some (b1, e1, k1) -> slice_indices s2 n = Some (b2, e2, k2) ->
  0 < k1 -> 0 < k2 ->
  exists a b c, combine_slices s1 s2 n = Ok (a, b, c) /\
    0 <= a /\ 0 <= b <= range_len b1 e1 k1 /\ 0 < c /\
    (forall x, (exists i, In i (py_range a b c) /\ x = b1 + i * k1)
               <-> common b1 e1 k1 b2 e2 k2 x).
Proof.
  intros E1 E2 Hk1 Hk2.
  pose proof (range_len_nonneg b1 e1 k1) as HL0.
  unfold combine_slices. rewrite E1, E2.
  assert (Hneg : (k1 <? 0) || (k2 <? 0) = false) by lia. rewrite Hneg.
  destruct ((b2 >=? e1) || (e2 <=? b1)) eqn:Eov.
  { (* the two ranges do not overlap *)
    exists 0, 0, 1. split; [reflexivity|]. split; [lia|]. split; [lia|]. split; [lia|]. intros x; split.
    - intros (i & Hi & _). cbn in Hi. destruct Hi.
    - unfold common. intros (Hy1 & Hy2 & _). exfalso. lia. }
  cbv zeta.
  destruct (beg_spec (Z.max b1 b2) b2 k2 Hk2) as [Hbeg Hbdiv].
  set (beg := if negb ((Z.max b1 b2 - b2) mod k2 =? 0)
              then Z.max b1 b2 + (k2 - (Z.max b1 b2 - b2) mod k2) else Z.max b1 b2) in *.
  pose proof (ceil_spec (Z.min e1 e2 - b1) k1 Hk1) as Hq. cbv zeta in Hq.
  set (q := if negb ((Z.min e1 e2 - b1) mod k1 =? 0)
            then (Z.min e1 e2 - b1) / k1 + 1 else (Z.min e1 e2 - b1) / k1) in *.
  clearbody beg q.
  pose proof (fun y => scan_common b1 e1 k1 b2 e2 k2 beg y Hk1 Hk2 Hbeg Hbdiv) as HinFL.
  assert (HsFL : StronglySorted Z.lt
                   (filter (fun x => (x - b1) mod k1 =? 0) (py_range beg (Z.min e1 e2) k2)))
    by (apply SSorted_filter, py_range_sorted; exact Hk2).
  match goal with |- context [fold_left ?F ?l ([], false)] =>
    assert (HF : fst (fold_left F l ([], false)) =
                 [] ++ map (fun x => (x - b1) / k1)
                   (firstn (2 - length (@nil Z))
                      (filter (fun x => (x - b1) mod k1 =? 0) l)))
      by (exact (fold_stepF_take2 b1 k1 l [] ltac:(cbn; lia)));
    destruct (fold_left F l ([], false)) as [ind brk] eqn:EF
  end.
  cbn [fst app length Nat.sub] in HF. subst ind.
  set (FL := filter (fun x => (x - b1) mod k1 =? 0) (py_range beg (Z.min e1 e2) k2)) in *.
  clearbody FL. clear EF brk.
  destruct FL as [|x0 [|x1 rest]]; cbn [firstn map].
  - (* no common element *)
    exists 0, 0, 1. split; [reflexivity|]. split; [lia|]. split; [lia|]. split; [lia|]. intros x; split.
    + intros (i & Hi & _). cbn in Hi. destruct Hi.
    + intros Hc. apply HinFL in Hc. destruct Hc.
  - (* exactly one common element *)
    assert (Hc0 : common b1 e1 k1 b2 e2 k2 x0) by (apply HinFL; left; reflexivity).
    assert (Huniq : forall y, common b1 e1 k1 b2 e2 k2 y -> y = x0).
    { intros y Hy. apply HinFL in Hy. destruct Hy as [Hy|[]]. congruence. }
    destruct Hc0 as (Hx1 & Hx2 & Hd1 & Hd2).
    pose proof (divide_div_mul k1 (x0 - b1) Hk1 Hd1) as Hp.
    set (p := (x0 - b1) / k1) in *. clearbody p.
    exists p, (p + 1), 1. split; [reflexivity|].
    assert (Hp0 : 0 <= p) by nia.
    assert (HpL : p < range_len b1 e1 k1) by (apply range_len_lt; lia).
    split; [lia|]. split; [lia|]. split; [lia|]. intros x; split.
    + intros (i & Hi & ->). apply In_py_range in Hi; [|lia].
      assert (i = p) by lia. subst i.
      replace (b1 + p * k1) with x0 by lia.
      unfold common. repeat split; try lia; assumption.
    + intros Hc. apply Huniq in Hc. subst x.
      exists p. split; [|lia]. apply In_py_range; [lia|].
      split; [lia|]. exists 0. lia.
  - (* at least two common elements x0 < x1 *)
    assert (Hc0 : common b1 e1 k1 b2 e2 k2 x0) by (apply HinFL; left; reflexivity).
    assert (Hc1 : common b1 e1 k1 b2 e2 k2 x1) by (apply HinFL; right; left; reflexivity).
    inversion HsFL as [|? ? HsFL1 Hall0]; subst.
    inversion HsFL1 as [|? ? HsFL2 Hall1]; subst.
    rewrite Forall_forall in Hall0, Hall1.
    assert (Hlt : x0 < x1) by (apply Hall0; left; reflexivity).
    assert (Hmin : forall y, common b1 e1 k1 b2 e2 k2 y -> y = x0 \/ x1 <= y).
    { intros y Hy. apply HinFL in Hy. destruct Hy as [Hy|[Hy|Hy]]; [lia | lia |].
      apply Hall1 in Hy. lia. }
    clear HsFL HsFL1 HsFL2 Hall0 Hall1 HinFL.
    destruct Hc0 as (Hx01 & Hx02 & Hd01 & Hd02).
    destruct Hc1 as (Hx11 & Hx12 & Hd11 & Hd12).
    pose proof (divide_div_mul k1 (x0 - b1) Hk1 Hd01) as Hp.
    pose proof (divide_div_mul k1 (x1 - b1) Hk1 Hd11) as Hp'.
    replace (znth [(x0 - b1) / k1; (x1 - b1) / k1] 0) with ((x0 - b1) / k1) by reflexivity.
    replace (znth [(x0 - b1) / k1; (x1 - b1) / k1] 1) with ((x1 - b1) / k1) by reflexivity.
    set (p := (x0 - b1) / k1) in *. set (p' := (x1 - b1) / k1) in *. clearbody p p'.
    replace (zlen [p; p'] =? 0) with false by reflexivity.
    replace (zlen [p; p'] =? 1) with false by reflexivity.
    exists p, q, (p' - p). split; [reflexivity|].
    assert (Hp0 : 0 <= p) by nia.
    assert (Hr : 0 < p' - p) by nia.
    assert (Hd : x1 - x0 = (p' - p) * k1) by lia.
    assert (Hdk1 : (k1 | x1 - x0)) by (exists (p' - p); exact Hd).
    assert (Hdk2 : (k2 | x1 - x0)).
    { replace (x1 - x0) with ((x1 - b2) - (x0 - b2)) by lia.
      apply Z.divide_sub_r; assumption. }
    assert (Hq0 : 0 <= q).
    { destruct (Z_lt_le_dec q 0) as [Hneg'|]; [|assumption].
      assert (H0 : 0 < q -> False) by lia.
      assert (Hq1 : ~ (q * k1 < Z.min e1 e2 - b1)) by (intros H; apply Hq in H; lia).
      nia. }
    assert (HqL : q <= range_len b1 e1 k1).
    { destruct (Z.eq_dec q 0) as [->|Hqn]; [lia|].
      assert (Hq1 : q - 1 < range_len b1 e1 k1).
      { apply range_len_lt; [lia | lia |].
        assert (Hq2 : (q - 1) * k1 < Z.min e1 e2 - b1) by (apply Hq; lia). lia. }
      lia. }
    split; [lia|]. split; [lia|]. split; [lia|]. intros x; split.
    + (* every listed position is a common element *)
      intros (i & Hi & ->). apply In_py_range in Hi; [|lia].
      destruct Hi as (Hi & t & Ht).
      assert (Ht0 : 0 <= t) by nia.
      assert (Hiq : i * k1 < Z.min e1 e2 - b1) by (apply Hq; lia).
      assert (Hx : b1 + i * k1 = x0 + t * (x1 - x0)) by nia.
      assert (Hge : x0 <= b1 + i * k1) by nia.
      unfold common. repeat split; try lia.
      * exists i. lia.
      * rewrite Hx. replace (x0 + t * (x1 - x0) - b2) with ((x0 - b2) + t * (x1 - x0)) by lia.
        apply Z.divide_add_r; [assumption|]. apply Z.divide_mul_r. exact Hdk2.
    + (* every common element is listed *)
      intros Hc. pose proof (Hmin x Hc) as Hx0.
      destruct Hc as (Hc1 & Hc2 & Hcd1 & Hcd2).
      assert (Hdiv : (x1 - x0 | x - x0)).
      { apply (gap_divides k1 k2); try lia; try assumption.
        - replace (x - x0) with ((x - b1) - (x0 - b1)) by lia. apply Z.divide_sub_r; assumption.
        - replace (x - x0) with ((x - b2) - (x0 - b2)) by lia. apply Z.divide_sub_r; assumption.
        - intros w Hw Hw1 Hw2.
          destruct (Hmin (x0 + w)) as [Hy|Hy]; try lia.
          unfold common. repeat split; try lia.
          + replace (x0 + w - b1) with ((x0 - b1) + w) by lia. apply Z.divide_add_r; assumption.
          + replace (x0 + w - b2) with ((x0 - b2) + w) by lia. apply Z.divide_add_r; assumption. }
      destruct Hdiv as [t Ht].
      assert (Ht0 : 0 <= t) by nia.
      exists (p + t * (p' - p)). split; [|nia].
      apply In_py_range; [lia|]. split; [split; [nia|]|].
      * apply Hq. nia.
      * exists t. lia.
Qed.

(* ------------------------------------------------------------------ main theorem *)
Theorem combine_slices_exact : forall (s1 s2 : slice) (n : Z),
  0 <= n -> pos_step s1 -> pos_step s2 ->
  exists a b c, combine_slices s1 s2 n = Ok (a, b, c) /\
    map (znth (slice_elems s1 n)) (slice_elems (mk_slice3 (a, b, c)) (zlen (slice_elems s1 n)))
    = filter (fun x => existsb (Z.eqb x) (slice_elems s2 n)) (slice_elems s1 n).
Proof.
  intros s1 s2 n Hn Hs1 Hs2.
  destruct (slice_indices_pos s1 n Hs1) as (b1 & e1 & k1 & E1 & Hk1).
  destruct (slice_indices_pos s2 n Hs2) as (b2 & e2 & k2 & E2 & Hk2).
  destruct (combine_core s1 s2 n b1 e1 k1 b2 e2 k2 E1 E2 Hk1 Hk2)
    as (a & b & c & Hcomb & Ha & Hb & Hc & Hmem).
  exists a, b, c. split; [exact Hcomb|].
  assert (HV1 : slice_elems s1 n = py_range b1 e1 k1) by (unfold slice_elems; rewrite E1; reflexivity).
  assert (HV2 : slice_elems s2 n = py_range b2 e2 k2) by (unfold slice_elems; rewrite E2; reflexivity).
  rewrite HV1, HV2, zlen_py_range, slice_elems_mk3 by assumption.
  assert (Hmap : map (znth (py_range b1 e1 k1)) (py_range a b c)
                 = map (fun i => b1 + i * k1) (py_range a b c)).
  { apply map_ext_in. intros i Hi. apply In_py_range in Hi; [|exact Hc].
    apply znth_py_range. lia. }
  rewrite Hmap. apply sorted_ext.
  - apply (SSorted_map Z.lt Z.lt); [|apply py_range_sorted; exact Hc].
    intros x y Hxy. nia.
  - apply SSorted_filter, py_range_sorted. exact Hk1.
  - intros x. rewrite in_map_iff, filter_In, existsb_exists.
    rewrite In_py_range by exact Hk1.
    split.
    + intros (i & <- & Hi).
      assert (Hcm : common b1 e1 k1 b2 e2 k2 (b1 + i * k1))
        by (apply Hmem; exists i; split; [exact Hi | reflexivity]).
      destruct Hcm as (H1 & H2 & H3 & H4).
      split; [split; assumption|].
      exists (b1 + i * k1). split; [|apply Z.eqb_refl].
      apply In_py_range; [exact Hk2|]. split; assumption.
    + intros ((H1 & H3) & y & Hy & Heq). apply Z.eqb_eq in Heq. subst y.
      apply In_py_range in Hy; [|exact Hk2]. destruct Hy as [H2 H4].
      assert (Hcm : common b1 e1 k1 b2 e2 k2 x) by (unfold common; tauto).
      apply Hmem in Hcm. destruct Hcm as (i & Hi & ->).
      exists i. split; [reflexivity | exact Hi].
Qed.

(* ------------------------------------------------------------------ error path *)
(* a negative step in either slice raises ValueError (a zero step in the other one raises
   ValueError as well, from slice.indices, so no side condition is needed) *)
Theorem combine_slices_negative : forall (s1 s2 : slice) (n : Z),
  (exists k, sl_step s1 = Some k /\ k < 0) \/ (exists k, sl_step s2 = Some k /\ k < 0) ->
  combine_slices s1 s2 n = Err ValueError.
Proof.
  intros s1 s2 n Hneg. unfold combine_slices.
  destruct (slice_indices s1 n) as [[[b1 e1] k1]|] eqn:E1; [|reflexivity].
  destruct (slice_indices s2 n) as [[[b2 e2] k2]|] eqn:E2; [|reflexivity].
  apply slice_indices_step in E1. apply slice_indices_step in E2.
  assert (H : (k1 <? 0) || (k2 <? 0) = true).
  { destruct Hneg as [(k & Hk & Hlt)|(k & Hk & Hlt)].
    - rewrite Hk in E1. lia.
    - rewrite Hk in E2. lia. }
  rewrite H. reflexivity.
Qed.

Print Assumptions combine_slices_exact.
Print Assumptions combine_slices_negative.
