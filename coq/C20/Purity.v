(* C20 — the helpers are functions of their arguments: facts about the SOURCE of glue/utils/array.py, regenerated on
   every run into coq/gen/Gen_arraypure.v (helper_table: decorators, module state, function attributes, argument
   mutation, aliasing of arguments into results / attributes), checked here against explicit allow-lists with reasons. *)
From Coq Require Import ZArith List Bool String.
Import ListNotations.
From GV Require Import gen.Gen_arraypure.
Local Open Scope string_scope.

Definition mem (s : string) (l : list string) : bool := existsb (String.eqb s) l.
Definition subset (l1 l2 : list string) : bool := forallb (fun s => mem s l2) l1.
Definition is_nil {A} (l : list A) : bool := match l with [] => true | _ => false end.

(* the functions the anchors of the property name (methods of categorical_ndarray by qualified name) *)
Definition anchors : list string :=
  ["unbroadcast"; "broadcast_arrays_minimal"; "view_shape"; "find_chunk_shape"; "iterate_chunks"; "combine_slices";
   "unique"; "index_lookup"; "categorical_ndarray.__new__"; "categorical_ndarray.__array_finalize__";
   "categorical_ndarray._update_categories_and_codes"; "categorical_ndarray.categories";
   "categorical_ndarray.categories.setter"; "categorical_ndarray.codes"].

(* ---- allow-lists: (function, item, reason) ---- *)

(* a helper may hand one of its arguments back unchanged only here *)
Definition allowed_returns : list (string * string * string) :=
  [("unbroadcast", "array", "a 0-d array, or an object without strides, is already minimal: returned as it is");
   ("view_shape", "shape", "view None means the whole array: the shape argument itself is the answer")].

(* a helper may change an attribute of one of its arguments only here (all of them: the lazily computed caches of the
   categorical array object itself, written by its own methods) *)
Definition allowed_arg_writes : list (string * string * string) :=
  [("categorical_ndarray.__array_finalize__", "self.categories", "a new view inherits the categories of the array it was taken from");
   ("categorical_ndarray._update_categories_and_codes", "self._codes", "lazily computed cache of the object itself");
   ("categorical_ndarray._update_categories_and_codes", "self._categories", "lazily computed cache of the object itself");
   ("categorical_ndarray.categories.setter", "self._categories", "the public setter of the object's own categories");
   ("categorical_ndarray.categories.setter", "self._codes", "dropping the cached codes in the setter is the repair of known finding categories-setter-keeps-stale-codes");
   ("categorical_ndarray.jitter", "self._jitter", "explicit request to jitter the codes of this object")].

(* a helper may keep (a reference to) one of its arguments only here *)
Definition allowed_param_stored : list (string * string * string) :=
  [("categorical_ndarray.__new__", "result.categories <- categories", "the NEW view gets the categories that were asked for");
   ("categorical_ndarray.categories.setter", "self._categories <- value", "the setter stores what it is given")].

Definition property_getters : list string := ["categorical_ndarray.categories"; "categorical_ndarray.codes"].

Definition allowed_for (tbl : list (string * string * string)) (fn : string) : list string :=
  map (fun e => snd (fst e)) (filter (fun e => String.eqb (fst (fst e)) fn) tbl).

(* the only decorators a helper may carry: @property on the two getters, @categories.setter on the setter *)
Definition deco_ok (fn : string) (d : deco) : bool :=
  match d with
  | DProperty => mem fn property_getters
  | DSetter p => String.eqb fn ("categorical_ndarray." ++ p ++ ".setter")
  | DOther _ => false
  end.

(* no cache decorator, not re-bound at module level, no global / nonlocal, no module-level variable written or read, no
   function attribute used, no default value shared between calls *)
Definition row_stateless (r : fn_row) : bool :=
  forallb (deco_ok (r_name r)) (r_decos r) && negb (r_rebound r) && is_nil (r_globals r) && is_nil (r_module_writes r)
  && is_nil (r_module_reads r) && is_nil (r_func_attrs r) && is_nil (r_mutable_defaults r).

Definition row_alias_ok (r : fn_row) : bool :=
  subset (r_returns_param r) (allowed_for allowed_returns (r_name r))
  && subset (r_attr_writes r) (allowed_for allowed_arg_writes (r_name r))
  && subset (r_param_stored r) (allowed_for allowed_param_stored (r_name r)).

(* everything a row refers to is itself a row of the table (or the class, whose methods are rows) *)
Definition row_closed (names : list string) (r : fn_row) : bool :=
  forallb (fun c => mem c names || String.eqb c "categorical_ndarray") (r_calls r).

Definition table_names : list string := map r_name helper_table.
Definition class_name : string := "categorical_ndarray".

Definition table_ok : bool :=
  forallb (fun r => row_stateless r && row_alias_ok r && row_closed table_names r) helper_table
  && subset anchors table_names
  && forallb (fun e => negb (snd e)) class_attrs_gen.

Lemma table_ok_true : table_ok = true.
Proof. vm_compute. reflexivity. Qed.

Lemma is_nil_eq {A} (l : list A) : is_nil l = true -> l = [].
Proof. destruct l; [reflexivity | discriminate]. Qed.

Lemma mem_In (s : string) (l : list string) : mem s l = true -> In s l.
Proof.
  unfold mem. rewrite existsb_exists. intros [x [Hin Heq]]. apply String.eqb_eq in Heq. now subst.
Qed.

Lemma subset_In (l1 l2 : list string) : subset l1 l2 = true -> forall s, In s l1 -> In s l2.
Proof.
  unfold subset. rewrite forallb_forall. intros H s Hs. apply mem_In, H, Hs.
Qed.

Lemma row_facts (r : fn_row) : In r helper_table ->
  row_stateless r = true /\ row_alias_ok r = true /\ row_closed table_names r = true.
Proof.
  intros Hin. pose proof table_ok_true as H. unfold table_ok in H.
  apply andb_prop in H. destruct H as [H _]. apply andb_prop in H. destruct H as [H _].
  rewrite forallb_forall in H. specialize (H r Hin).
  apply andb_prop in H. destruct H as [H Hc]. apply andb_prop in H. destruct H as [Hs Ha]. now repeat split.
Qed.

(* the helpers carry no cache decorator and keep no state outside their arguments *)
Lemma helpers_stateless (r : fn_row) : In r helper_table ->
  (forall d, In d (r_decos r) -> deco_ok (r_name r) d = true) /\
  r_rebound r = false /\ r_globals r = [] /\ r_module_writes r = [] /\ r_module_reads r = [] /\
  r_func_attrs r = [] /\ r_mutable_defaults r = [].
Proof.
  intros Hin. destruct (row_facts r Hin) as [Hs _]. unfold row_stateless in Hs.
  repeat (apply andb_prop in Hs; let H := fresh "H" in destruct Hs as [Hs H]).
  rewrite forallb_forall in Hs. rewrite negb_true_iff in *.
  repeat split; auto using is_nil_eq.
Qed.

Lemma deco_ok_not_other fn d : deco_ok fn d = true -> d = DProperty \/ exists p, d = DSetter p.
Proof. destruct d; cbn; [now left | right; eauto | discriminate]. Qed.

(* what a helper hands back unchanged, changes on an argument, or keeps of an argument, is on the allow-list *)
Lemma helpers_alias_allowlist (r : fn_row) : In r helper_table ->
  (forall p, In p (r_returns_param r) -> In p (allowed_for allowed_returns (r_name r))) /\
  (forall w, In w (r_attr_writes r) -> In w (allowed_for allowed_arg_writes (r_name r))) /\
  (forall w, In w (r_param_stored r) -> In w (allowed_for allowed_param_stored (r_name r))).
Proof.
  intros Hin. destruct (row_facts r Hin) as [_ [Ha _]]. unfold row_alias_ok in Ha.
  apply andb_prop in Ha. destruct Ha as [Ha H3]. apply andb_prop in Ha. destruct Ha as [H1 H2].
  repeat split; apply subset_In; assumption.
Qed.

(* the table covers the anchors and is closed under "refers to"; no class attribute is a shared mutable value *)
Lemma helper_table_closed :
  (forall a, In a anchors -> In a table_names) /\
  (forall r, In r helper_table -> forall c, In c (r_calls r) -> In c table_names \/ c = class_name) /\
  (forall c n m, In (c, n, m) class_attrs_gen -> m = false).
Proof.
  pose proof table_ok_true as H. unfold table_ok in H.
  apply andb_prop in H. destruct H as [H Hcls]. apply andb_prop in H. destruct H as [_ Hanch].
  split; [apply subset_In, Hanch|]. split.
  - intros r Hin c Hc. destruct (row_facts r Hin) as [_ [_ Hcl]]. unfold row_closed in Hcl.
    rewrite forallb_forall in Hcl. specialize (Hcl c Hc). apply orb_prop in Hcl. destruct Hcl as [Hm | He].
    + left. now apply mem_In.
    + right. now apply String.eqb_eq.
  - intros c n m Hin. rewrite forallb_forall in Hcls. specialize (Hcls _ Hin). cbn in Hcls.
    now apply negb_true_iff in Hcls.
Qed.

(* the source of the known finding, read off the same table: the public setter of `categories` writes the stored
   categories and does NOT touch the cached codes *)
Definition setter_row_writes : list string :=
  flat_map (fun r => if String.eqb (r_name r) "categorical_ndarray.categories.setter" then r_attr_writes r else []) helper_table.
