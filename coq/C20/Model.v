(* C20 — executable model: translated functions (Gen_array) + hand models of
   view_shape, unbroadcast / broadcast_to and categorical arrays, behind the
   generic wire entry point [run_case]. *)
From Coq Require Import ZArith List Bool.
Import ListNotations.
From GV Require Import Common.Wire Common.PyInt gen.Gen_array.
Open Scope Z_scope.

(* ---------- proof-friendly reference versions of the translated functions ---------- *)

(* find_chunk_shape: process sizes from the last axis to the first *)
Fixpoint chunk_rev (sizes_rev : list Z) (rem : Z) : list Z :=
  match sizes_rev with
  | [] => []
  | size :: rest =>
    if rem >? size then size :: chunk_rev rest (rem / size)
    else rem :: chunk_rev rest 1
  end.
Definition m_find_chunk_shape (shape : list Z) (n_max : Z) : list Z :=
  rev (chunk_rev (rev shape) n_max).

(* per-axis tiling of [0, n) by steps of c, as (start, stop) pairs *)
Definition tiles (n c : Z) : list (Z * Z) :=
  map (fun b => (b, Z.min (b + c) n)) (py_range 0 n c).

(* all chunks: the first axis varies fastest (that is the order of the odometer loop) *)
Fixpoint m_chunks (shape cs : list Z) : list (list (Z * Z)) :=
  match shape, cs with
  | n :: shape', c :: cs' =>
    flat_map (fun rest => map (fun t => t :: rest) (tiles n c)) (m_chunks shape' cs')
  | _, _ => [[]]
  end.

(* ---------- hand models ---------- *)

(* view entries: integer index, slice, or newaxis-free basic indexing only *)
Inductive ventry := VInt (i : Z) | VSlice (s : slice).

(* shape of a[view] for basic indexing, view no longer than the shape;
   None = IndexError (integer out of range, too many indices) *)
Fixpoint view_shape (shape : list Z) (view : list ventry) : option (list Z) :=
  match view, shape with
  | [], _ => Some shape
  | _ :: _, [] => None
  | VInt i :: v', n :: s' =>
    if (i <? - n) || (i >=? n) then None else view_shape s' v'
  | VSlice sl :: v', n :: s' =>
    match slice_indices sl n, view_shape s' v' with
    | Some (b, e, k), Some r =>
      Some ((if k >? 0 then range_len b e k else range_len e b (- k)) :: r)
    | _, _ => None
    end
  end.

(* broadcast arrays: per-axis size and a flag "stride 0 on this axis" *)
Definition unbroadcast_shape (shape : list Z) (bflags : list bool) : list Z :=
  map (fun '(n, b) => if (b : bool) then 1 else n) (combine shape bflags).

(* row-major flat index <-> multi-index *)
Fixpoint flat_index (shape idx : list Z) : Z :=
  match shape, idx with
  | n :: s', i :: i' => i * zprod s' + flat_index s' i'
  | _, _ => 0
  end.

Fixpoint all_indices (shape : list Z) : list (list Z) :=
  match shape with
  | [] => [[]]
  | n :: s' => flat_map (fun i => map (cons i) (all_indices s')) (py_range 0 n 1)
  end.

(* the value of the broadcast array at idx = value of the small array at idx with flagged axes set to 0 *)
Definition collapse (bflags : list bool) (idx : list Z) : list Z :=
  map (fun '(i, b) => if (b : bool) then 0 else i) (combine idx bflags).

Definition broadcast_back (shape : list Z) (bflags : list bool) (small : list Z) : list Z :=
  let sshape := unbroadcast_shape shape bflags in
  map (fun idx => nth (Z.to_nat (flat_index sshape (collapse bflags idx))) small 0) (all_indices shape).

(* categorical: values are codes in a total order (Z); categories = sorted unique *)
Fixpoint insert_uniq (x : Z) (l : list Z) : list Z :=
  match l with
  | [] => [x]
  | y :: t => if x <? y then x :: l else if x =? y then l else y :: insert_uniq x t
  end.
Definition categories (vals : list Z) : list Z := fold_right insert_uniq [] vals.
Fixpoint index_of (x : Z) (l : list Z) : Z :=
  match l with
  | [] => -1
  | y :: t => if x =? y then 0 else let r := index_of x t in if r <? 0 then -1 else 1 + r
  end.
Definition codes (vals : list Z) : list Z := map (fun v => index_of v (categories vals)) vals.

(* ---------- wire ---------- *)
Definition dec_slice (t : tree) : slice :=
  Slice (opt_z (kid 0 t)) (opt_z (kid 1 t)) (opt_z (kid 2 t)).
Definition dec_optz (t : tree) : option Z := opt_z t.
Definition dec_optl (t : tree) : option (list Z) :=
  match t with T 0 _ => None | T _ l => Some (map tag l) end.
Definition enc_chunks (l : list (list (Z * Z))) : tree :=
  T 0 (map (fun ch => T 0 (map (fun '(a, b) => T 0 [leaf a; leaf b]) ch)) l).
Definition enc_res {A} (f : A -> tree) (r : result A) : tree :=
  match r with Ok a => T 1 [f a] | Err e => err e end.
Definition dec_ventry (t : tree) : ventry :=
  match t with T 1 (T i _ :: _) => VInt i | _ => VSlice (dec_slice t) end.

Definition fuel_for (shape : list Z) : nat := S (Z.to_nat (zprod (map (fun n => Z.max n 1) shape))).

Definition run_case (t : tree) : tree :=
  match t with
  | T 1 [sh; nm] => zs (find_chunk_shape (to_zs sh) (dec_optz nm))
  | T 2 [sh; cs; nm] =>
      enc_res enc_chunks (iterate_chunks (fuel_for (to_zs sh)) (to_zs sh) (dec_optl cs) (dec_optz nm))
  | T 3 [s1; s2; T n _] =>
      enc_res (fun '(a, b, c) => zs [a; b; c]) (combine_slices (dec_slice s1) (dec_slice s2) n)
  | T 4 [s; T n _] =>
      match slice_indices (dec_slice s) n with
      | Some (a, b, c) => T 1 [zs [a; b; c]] | None => err ValueError end
  | T 5 [sh; T _ v] =>
      match view_shape (to_zs sh) (map dec_ventry v) with Some r => T 1 [zs r] | None => err IndexError end
  | T 6 [sh; fl; small] =>
      T 0 [zs (unbroadcast_shape (to_zs sh) (to_bools fl)); zs (broadcast_back (to_zs sh) (to_bools fl) (to_zs small))]
  | T 7 [vals] => T 0 [zs (categories (to_zs vals)); zs (codes (to_zs vals))]
  | T 8 [cats; vals] => zs (map (fun v => index_of v (to_zs cats)) (to_zs vals))
  (* reference models, used to tie Gen to Model by correspondence as well as by proof *)
  | T 12 [sh; cs] => enc_chunks (m_chunks (to_zs sh) (to_zs cs))
  | T 13 [s; T n _] => zs (slice_elems (dec_slice s) n)
  | _ => err (-2)
  end.

(* ---------- vocabulary of the partition theorems ---------- *)
Definition in_tile (x : Z) (t : Z * Z) : bool := (fst t <=? x) && (x <? snd t).
Fixpoint in_chunk (idx : list Z) (ch : list (Z * Z)) : bool :=
  match idx, ch with
  | [], [] => true
  | x :: idx', t :: ch' => in_tile x t && in_chunk idx' ch'
  | _, _ => false
  end.
Definition count {A} (p : A -> bool) (l : list A) : nat := length (filter p l).
Definition chunk_size (ch : list (Z * Z)) : Z := zprod (map (fun t => snd t - fst t) ch).
