(* C20 — executable model: translated functions (Gen_array) + hand models of
   view_shape, unbroadcast / broadcast_to and categorical arrays, behind the
   generic wire entry point [run_case]. *)
From Coq Require Import ZArith List Bool.
Import ListNotations.
From GV Require Import Common.Wire Common.PyInt gen.Gen_array gen.Gen_arraypure.
Open Scope Z_scope.

(* ---------- proof-friendly reference versions of the translated functions ---------- *)

(* find_chunk_shape: process sizes from the last axis to the first *)
Fixpoint chunk_rev (sizes_rev : list Z) (rem : Z) : list Z :=
  match sizes_rev with
  | [] => []
  | size :: rest =>
    if rem >? size then size :: chunk_rev rest (rem / size)
    else rem :: chunk_rev rest 1
  end.
Definition m_find_chunk_shape (shape : list Z) (n_max : Z) : list Z :=
  rev (chunk_rev (rev shape) n_max).

(* per-axis tiling of [0, n) by steps of c, as (start, stop) pairs *)
Definition tiles (n c : Z) : list (Z * Z) :=
  map (fun b => (b, Z.min (b + c) n)) (py_range 0 n c).

(* all chunks: the first axis varies fastest (that is the order of the odometer loop) *)
Fixpoint m_chunks (shape cs : list Z) : list (list (Z * Z)) :=
  match shape, cs with
  | n :: shape', c :: cs' =>
    flat_map (fun rest => map (fun t => t :: rest) (tiles n c)) (m_chunks shape' cs')
  | _, _ => [[]]
  end.

(* ---------- hand models ---------- *)

(* view entries: integer index, slice, or newaxis-free basic indexing only *)
Inductive ventry := VInt (i : Z) | VSlice (s : slice).

(* shape of a[view] for basic indexing, view no longer than the shape;
   None = IndexError (integer out of range, too many indices) *)
Fixpoint view_shape (shape : list Z) (view : list ventry) : option (list Z) :=
  match view, shape with
  | [], _ => Some shape
  | _ :: _, [] => None
  | VInt i :: v', n :: s' =>
    if (i <? - n) || (i >=? n) then None else view_shape s' v'
  | VSlice sl :: v', n :: s' =>
    match slice_indices sl n, view_shape s' v' with
    | Some (b, e, k), Some r =>
      Some ((if k >? 0 then range_len b e k else range_len e b (- k)) :: r)
    | _, _ => None
    end
  end.

(* broadcast arrays: per-axis size and a flag "stride 0 on this axis" *)
Definition unbroadcast_shape (shape : list Z) (bflags : list bool) : list Z :=
  map (fun '(n, b) => if (b : bool) then 1 else n) (combine shape bflags).

(* row-major flat index <-> multi-index *)
Fixpoint flat_index (shape idx : list Z) : Z :=
  match shape, idx with
  | n :: s', i :: i' => i * zprod s' + flat_index s' i'
  | _, _ => 0
  end.

Fixpoint all_indices (shape : list Z) : list (list Z) :=
  match shape with
  | [] => [[]]
  | n :: s' => flat_map (fun i => map (cons i) (all_indices s')) (py_range 0 n 1)
  end.

(* the value of the broadcast array at idx = value of the small array at idx with flagged axes set to 0 *)
Definition collapse (bflags : list bool) (idx : list Z) : list Z :=
  map (fun '(i, b) => if (b : bool) then 0 else i) (combine idx bflags).

Definition broadcast_back (shape : list Z) (bflags : list bool) (small : list Z) : list Z :=
  let sshape := unbroadcast_shape shape bflags in
  map (fun idx => nth (Z.to_nat (flat_index sshape (collapse bflags idx))) small 0) (all_indices shape).

(* categorical: values are codes in a total order (Z); categories = sorted unique *)
Fixpoint insert_uniq (x : Z) (l : list Z) : list Z :=
  match l with
  | [] => [x]
  | y :: t => if x <? y then x :: l else if x =? y then l else y :: insert_uniq x t
  end.
Definition categories (vals : list Z) : list Z := fold_right insert_uniq [] vals.
Fixpoint index_of (x : Z) (l : list Z) : Z :=
  match l with
  | [] => -1
  | y :: t => if x =? y then 0 else let r := index_of x t in if r <? 0 then -1 else 1 + r
  end.
Definition codes (vals : list Z) : list Z := map (fun v => index_of v (categories vals)) vals.

(* ---------- view_shape as numpy READS the view: scalar items of every kind ----------
   A Python int and a Python / numpy bool are different index items for numpy although 1 == True and
   hash(1) == hash(True) in Python: an int selects along an axis and drops it, a scalar boolean consumes NO axis
   and adds one of length 1 (True) or 0 (False); together with ints it makes the index an "advanced" one. *)
Inductive vitem := VIInt (i : Z) | VIBool (b : bool) | VINone | VIEllipsis | VISlice (s : slice).

Definition vi_consumes (v : vitem) : Z := match v with VIInt _ | VISlice _ => 1 | _ => 0 end.
Definition vi_is_adv (v : vitem) : bool := match v with VIInt _ | VIBool _ => true | _ => false end.
Definition vi_is_bool (v : vitem) : bool := match v with VIBool _ => true | _ => false end.
Definition vi_is_ell (v : vitem) : bool := match v with VIEllipsis => true | _ => false end.
Definition vi_bool_true (v : vitem) : bool := match v with VIBool b => b | _ => true end.

(* dimensions contributed by the non-advanced items, in order; nell = number of axes the Ellipsis stands for;
   the axes left over at the end of the view are kept (implicit trailing Ellipsis).  None = IndexError *)
Fixpoint vi_dims (shape : list Z) (view : list vitem) (nell : nat) : option (list Z) :=
  match view with
  | [] => Some shape
  | VIInt i :: r =>
    match shape with
    | [] => None
    | n :: s' => if (i <? - n) || (i >=? n) then None else vi_dims s' r nell
    end
  | VISlice sl :: r =>
    match shape with
    | [] => None
    | n :: s' =>
      match slice_indices sl n, vi_dims s' r nell with
      | Some (b, e, k), Some d => Some ((if k >? 0 then range_len b e k else range_len e b (- k)) :: d)
      | _, _ => None
      end
    end
  | VINone :: r => option_map (cons 1) (vi_dims shape r nell)
  | VIBool _ :: r => vi_dims shape r nell
  | VIEllipsis :: r => option_map (app (firstn nell shape)) (vi_dims (skipn nell shape) r nell)
  end.

(* are the advanced items (ints and booleans) next to each other?  st: 0 = none seen yet, 1 = inside the run,
   2 = the run is over (a slice / None / Ellipsis came after it) *)
Fixpoint adv_consec (st : nat) (view : list vitem) : bool :=
  match view with
  | [] => true
  | v :: r =>
    if vi_is_adv v then (match st with 2%nat => false | _ => adv_consec 1 r end)
    else adv_consec (match st with 1%nat => 2%nat | s => s end) r
  end.

(* number of result dimensions produced before the first advanced item *)
Fixpoint dims_before_adv (view : list vitem) (nell : nat) : nat :=
  match view with
  | [] => 0
  | v :: r =>
    if vi_is_adv v then 0%nat
    else ((match v with VIEllipsis => nell | _ => 1%nat end) + dims_before_adv r nell)%nat
  end.

Definition np_index_shape (shape : list Z) (view : list vitem) : option (list Z) :=
  let consumed := fold_right Z.add 0 (map vi_consumes view) in
  let nells := length (filter vi_is_ell view) in
  if (1 <? nells)%nat then None
  else if zlen shape <? consumed then None
  else
    let nell := Z.to_nat (zlen shape - consumed) in
    match vi_dims shape view nell with
    | None => None
    | Some d =>
      if existsb vi_is_bool view then
        let adv := if forallb vi_bool_true view then 1 else 0 in
        let pos := if adv_consec 0 view then dims_before_adv view nell else 0%nat in
        Some (firstn pos d ++ adv :: skipn pos d)
      else Some d
    end.

(* the translated two lines of view_shape (coq/gen/Gen_arraypure.v) around the numpy operation *)
Definition view_shape_full (shape : list Z) (view : option (list vitem)) : option (list Z) :=
  view_shape_gen np_index_shape shape view.

(* ---------- call histories of a memoised view_shape: the class of "hidden state across calls" ----------
   a table of earlier calls, looked up with a key equality keq on views *)
Definition zlist_eqb (a b : list Z) : bool := (length a =? length b)%nat && forallb (fun '(x, y) => x =? y) (combine a b).
Definition memo := list (list Z * list vitem * option (list Z)).
Fixpoint memo_lookup (keq : list vitem -> list vitem -> bool) (sh : list Z) (v : list vitem) (m : memo)
  : option (option (list Z)) :=
  match m with
  | [] => None
  | (sh', v', r) :: m' => if zlist_eqb sh sh' && keq v v' then Some r else memo_lookup keq sh v m'
  end.
Fixpoint run_cached (keq : list vitem -> list vitem -> bool) (m : memo) (calls : list (list Z * list vitem))
  : list (option (list Z)) :=
  match calls with
  | [] => []
  | (sh, v) :: rest =>
    match memo_lookup keq sh v m with
    | Some r => r :: run_cached keq m rest
    | None => let r := np_index_shape sh v in r :: run_cached keq ((sh, v, r) :: m) rest
    end
  end.

(* Python's == on index items: 1 == True, 0 == False *)
Definition optz_eqb (a b : option Z) : bool :=
  match a, b with Some x, Some y => x =? y | None, None => true | _, _ => false end.
Definition slice_eqb (s t : slice) : bool :=
  optz_eqb (sl_start s) (sl_start t) && optz_eqb (sl_stop s) (sl_stop t) && optz_eqb (sl_step s) (sl_step t).
Definition py_eq_item (a b : vitem) : bool :=
  match a, b with
  | VIInt i, VIInt j => i =? j
  | VIBool x, VIBool y => Bool.eqb x y
  | VIInt i, VIBool y | VIBool y, VIInt i => i =? (if y then 1 else 0)
  | VINone, VINone | VIEllipsis, VIEllipsis => true
  | VISlice s, VISlice t => slice_eqb s t
  | _, _ => false
  end.
(* numpy's reading: the kind of the item matters *)
Definition np_eq_item (a b : vitem) : bool :=
  match a, b with
  | VIInt i, VIInt j => i =? j
  | VIBool x, VIBool y => Bool.eqb x y
  | VINone, VINone | VIEllipsis, VIEllipsis => true
  | VISlice s, VISlice t => slice_eqb s t
  | _, _ => false
  end.
Fixpoint forall2b {A} (f : A -> A -> bool) (a b : list A) : bool :=
  match a, b with
  | [], [] => true
  | x :: a', y :: b' => f x y && forall2b f a' b'
  | _, _ => false
  end.
Definition py_eq_view := forall2b py_eq_item.
Definition np_eq_view := forall2b np_eq_item.

(* ---------- categorical arrays as OBJECTS: data buffers, views, lazily cached categories / codes ----------
   values are ranks in a total order (Z); a missing code is -1 (NaN in the implementation) *)
Record cobj := mk_cobj { o_buf : nat; o_sel : list nat; o_cats : option (list Z); o_codes : option (list Z) }.
Record cheap := mk_cheap { h_bufs : list (list Z); h_objs : list cobj }.
Definition empty_heap : cheap := mk_cheap [] [].

Definition obj_values (h : cheap) (o : cobj) : list Z :=
  map (fun i => nth i (nth (o_buf o) (h_bufs h) []) 0) (o_sel o).
Definition lookup_codes (cats vals : list Z) : list Z := map (fun v => index_of v cats) vals.

(* what a caller sees (pure): .categories and .codes *)
Definition obs_cats (h : cheap) (o : cobj) : list Z :=
  match o_cats o with Some c => c | None => categories (obj_values h o) end.
Definition obs_codes (h : cheap) (o : cobj) : list Z :=
  match o_codes o with Some c => c | None => lookup_codes (obs_cats h o) (obj_values h o) end.

Definition dummy_obj : cobj := mk_cobj 0 [] None None.
Definition get_obj (h : cheap) (i : nat) : cobj := nth i (h_objs h) dummy_obj.
Fixpoint set_nth {A} (i : nat) (x : A) (l : list A) : list A :=
  match l, i with
  | [], _ => []
  | _ :: t, O => x :: t
  | y :: t, S j => y :: set_nth j x t
  end.
Definition set_obj (h : cheap) (i : nat) (o : cobj) : cheap := mk_cheap (h_bufs h) (set_nth i o (h_objs h)).

(* _update_categories_and_codes *)
Definition update_obj (h : cheap) (o : cobj) : cobj :=
  match o_cats o with
  | Some c => mk_cobj (o_buf o) (o_sel o) (Some c) (Some (lookup_codes c (obj_values h o)))
  | None => mk_cobj (o_buf o) (o_sel o) (Some (categories (obj_values h o))) (Some (codes (obj_values h o)))
  end.
(* the .categories getter: computes (and caches) only when there are no categories yet *)
Definition force_cats (h : cheap) (i : nat) : cheap :=
  let o := get_obj h i in
  match o_cats o with Some _ => h | None => set_obj h i (update_obj h o) end.
(* the .codes getter *)
Definition force_codes (h : cheap) (i : nat) : cheap :=
  let o := get_obj h i in
  match o_codes o with Some _ => h | None => set_obj h i (update_obj h o) end.

Inductive cop :=
| CNew (vals : list Z) (cats : option (list Z))
| CRewrap (src : nat) (copy : bool) (cats : option (list Z))      (* categorical_ndarray(src, copy=..., categories=...) *)
| CView (src : nat) (sel : list nat)                              (* src[index] / src.view(): positions within src *)
| CCodes (src : nat)
| CCats (src : nat).

Inductive cres := RObj (i : nat) | RVals (l : list Z) | RBad.

Definition add_obj (h : cheap) (o : cobj) : cheap := mk_cheap (h_bufs h) (h_objs h ++ [o]).

Definition cstep (h : cheap) (op : cop) : cheap * cres :=
  match op with
  | CNew vals cats =>
    let b := length (h_bufs h) in
    let h1 := mk_cheap (h_bufs h ++ [vals]) (h_objs h) in
    (add_obj h1 (mk_cobj b (seq 0 (length vals)) cats None), RObj (length (h_objs h)))
  | CRewrap src copy cats =>
    if (src <? length (h_objs h))%nat then
      (* a NEW view object is made of src (its __array_finalize__ reads src.categories), then the requested
         categories are assigned to the NEW object *)
      let h1 := force_cats h src in
      let o := get_obj h1 src in
      let inherited := obs_cats h1 o in
      let c := match cats with Some c => c | None => inherited end in
      if copy then
        let b := length (h_bufs h1) in
        let vals := obj_values h1 o in
        let h2 := mk_cheap (h_bufs h1 ++ [vals]) (h_objs h1) in
        (add_obj h2 (mk_cobj b (seq 0 (length vals)) (Some c) None), RObj (length (h_objs h)))
      else
        (add_obj h1 (mk_cobj (o_buf o) (o_sel o) (Some c) None), RObj (length (h_objs h)))
    else (h, RBad)
  | CView src sel =>
    if (src <? length (h_objs h))%nat then
      let h1 := force_cats h src in
      let o := get_obj h1 src in
      (add_obj h1 (mk_cobj (o_buf o) (map (fun k => nth k (o_sel o) 0%nat) sel) (Some (obs_cats h1 o)) None),
       RObj (length (h_objs h)))
    else (h, RBad)
  | CCodes src =>
    if (src <? length (h_objs h))%nat then
      let h1 := force_codes h src in (h1, RVals (obs_codes h1 (get_obj h1 src)))
    else (h, RBad)
  | CCats src =>
    if (src <? length (h_objs h))%nat then
      let h1 := force_cats h src in (h1, RVals (obs_cats h1 (get_obj h1 src)))
    else (h, RBad)
  end.

Fixpoint crun (h : cheap) (ops : list cop) : cheap * list cres :=
  match ops with
  | [] => (h, [])
  | op :: rest => let '(h1, r) := cstep h op in let '(h2, rs) := crun h1 rest in (h2, r :: rs)
  end.

(* the seeded shortcut, for the refutation only: hand the argument itself back and assign the categories to it *)
Definition rewrap_alias (h : cheap) (src : nat) (cats : list Z) : cheap :=
  let o := get_obj h src in set_obj h src (mk_cobj (o_buf o) (o_sel o) (Some cats) (o_codes o)).

(* ---------- wire ---------- *)
Definition dec_slice (t : tree) : slice :=
  Slice (opt_z (kid 0 t)) (opt_z (kid 1 t)) (opt_z (kid 2 t)).
Definition dec_optz (t : tree) : option Z := opt_z t.
Definition dec_optl (t : tree) : option (list Z) :=
  match t with T 0 _ => None | T _ l => Some (map tag l) end.
Definition enc_chunks (l : list (list (Z * Z))) : tree :=
  T 0 (map (fun ch => T 0 (map (fun '(a, b) => T 0 [leaf a; leaf b]) ch)) l).
Definition enc_res {A} (f : A -> tree) (r : result A) : tree :=
  match r with Ok a => T 1 [f a] | Err e => err e end.
Definition dec_ventry (t : tree) : ventry :=
  match t with T 1 (T i _ :: _) => VInt i | _ => VSlice (dec_slice t) end.

Definition dec_vitem (t : tree) : vitem :=
  match t with
  | T 1 (T i _ :: _) => VIInt i
  | T 2 (T b _ :: _) => VIBool (negb (b =? 0))
  | T 3 _ => VINone
  | T 4 _ => VIEllipsis
  | _ => VISlice (dec_slice t)
  end.
Definition dec_nats (t : tree) : list nat := map Z.to_nat (to_zs t).
Definition dec_cop (t : tree) : cop :=
  match t with
  | T 0 [vals; cats] => CNew (to_zs vals) (dec_optl cats)
  | T 1 [T src _; T copy _; cats] => CRewrap (Z.to_nat src) (negb (copy =? 0)) (dec_optl cats)
  | T 2 [T src _; sel] => CView (Z.to_nat src) (dec_nats sel)
  | T 3 [T src _] => CCodes (Z.to_nat src)
  | T _ (T src _ :: _) => CCats (Z.to_nat src)
  | _ => CCats 0
  end.
Definition enc_cres (r : cres) : tree :=
  match r with RObj i => T 1 [leaf (Z.of_nat i)] | RVals l => T 2 [zs l] | RBad => err (-3) end.

Definition fuel_for (shape : list Z) : nat := S (Z.to_nat (zprod (map (fun n => Z.max n 1) shape))).

Definition run_case (t : tree) : tree :=
  match t with
  | T 1 [sh; nm] => zs (find_chunk_shape (to_zs sh) (dec_optz nm))
  | T 2 [sh; cs; nm] =>
      enc_res enc_chunks (iterate_chunks (fuel_for (to_zs sh)) (to_zs sh) (dec_optl cs) (dec_optz nm))
  | T 3 [s1; s2; T n _] =>
      enc_res (fun '(a, b, c) => zs [a; b; c]) (combine_slices (dec_slice s1) (dec_slice s2) n)
  | T 4 [s; T n _] =>
      match slice_indices (dec_slice s) n with
      | Some (a, b, c) => T 1 [zs [a; b; c]] | None => err ValueError end
  | T 5 [sh; T _ v] =>
      match view_shape (to_zs sh) (map dec_ventry v) with Some r => T 1 [zs r] | None => err IndexError end
  | T 6 [sh; fl; small] =>
      T 0 [zs (unbroadcast_shape (to_zs sh) (to_bools fl)); zs (broadcast_back (to_zs sh) (to_bools fl) (to_zs small))]
  | T 7 [vals] => T 0 [zs (categories (to_zs vals)); zs (codes (to_zs vals))]
  | T 8 [cats; vals] => zs (map (fun v => index_of v (to_zs cats)) (to_zs vals))
  (* view_shape with the view as numpy reads it: T 20 [shape; T 0 [] (view None) | T 1 [items]] *)
  | T 20 [sh; T 0 _] => match view_shape_full (to_zs sh) None with Some r => T 1 [zs r] | None => err IndexError end
  | T 20 [sh; T _ v] =>
      match view_shape_full (to_zs sh) (Some (map dec_vitem v)) with Some r => T 1 [zs r] | None => err IndexError end
  (* a history of categorical-array objects: per op its result, then every object's values / categories / codes *)
  | T 21 ops =>
      let '(h, rs) := crun empty_heap (map dec_cop ops) in
      T 0 [T 0 (map enc_cres rs);
           T 0 (map (fun o => T 0 [zs (obj_values h o); zs (obs_cats h o); zs (obs_codes h o)]) (h_objs h))]
  (* reference models, used to tie Gen to Model by correspondence as well as by proof *)
  | T 12 [sh; cs] => enc_chunks (m_chunks (to_zs sh) (to_zs cs))
  | T 13 [s; T n _] => zs (slice_elems (dec_slice s) n)
  | _ => err (-2)
  end.

(* ---------- vocabulary of the partition theorems ---------- *)
Definition in_tile (x : Z) (t : Z * Z) : bool := (fst t <=? x) && (x <? snd t).
Fixpoint in_chunk (idx : list Z) (ch : list (Z * Z)) : bool :=
  match idx, ch with
  | [], [] => true
  | x :: idx', t :: ch' => in_tile x t && in_chunk idx' ch'
  | _, _ => false
  end.
Definition count {A} (p : A -> bool) (l : list A) : nat := length (filter p l).
Definition chunk_size (ch : list (Z * Z)) : Z := zprod (map (fun t => snd t - fst t) ch).
