(* C20 — non-vacuity and sanity evaluations *)
From Coq Require Import ZArith List Bool Lia.
Import ListNotations.
From GV Require Import Common.PyInt gen.Gen_array C20.Model.
Open Scope Z_scope.

Example chunk_shape_hyps : 1 <= 12 /\ Forall (fun s => 1 <= s) [3; 4; 5].
Proof. split; [lia | repeat constructor; lia]. Qed.
Example chunk_shape_value : find_chunk_shape [3; 4; 5] (Some 12) = [1; 2; 5].
Proof. reflexivity. Qed.
Example chunks_value :
  iterate_chunks 100 [3; 4] (Some [2; 3]) None = Ok (m_chunks [3; 4] [2; 3]).
Proof. vm_compute. reflexivity. Qed.
Example chunks_partition_hyps :
  Forall (fun c => 1 <= c) [2; 3] /\ length [2; 3] = length [3; 4] /\ Forall2 (fun x n => 0 <= x < n) [2; 3] [3; 4].
Proof. repeat split; repeat constructor; lia. Qed.
Example combine_value :
  combine_slices (Slice (Some 1) None (Some 2)) (Slice None None (Some 3)) 10 = Ok (1, 5, 3).
Proof. vm_compute. reflexivity. Qed.
Example categorical_value : categories [5; 3; 5; 9] = [3; 5; 9] /\ codes [5; 3; 5; 9] = [1; 0; 1; 2].
Proof. split; reflexivity. Qed.
