(* C20 — non-vacuity and sanity evaluations *)
From Coq Require Import ZArith List Bool Lia.
Import ListNotations.
From GV Require Import Common.PyInt gen.Gen_array C20.Model.
Open Scope Z_scope.

Example chunk_shape_hyps : 1 <= 12 /\ Forall (fun s => 1 <= s) [3; 4; 5].
Proof. split; [lia | repeat constructor; lia]. Qed.
Example chunk_shape_value : find_chunk_shape [3; 4; 5] (Some 12) = [1; 2; 5].
Proof. reflexivity. Qed.
Example chunks_value :
  iterate_chunks 100 [3; 4] (Some [2; 3]) None = Ok (m_chunks [3; 4] [2; 3]).
Proof. vm_compute. reflexivity. Qed.
Example chunks_partition_hyps :
  Forall (fun c => 1 <= c) [2; 3] /\ length [2; 3] = length [3; 4] /\ Forall2 (fun x n => 0 <= x < n) [2; 3] [3; 4].
Proof. repeat split; repeat constructor; lia. Qed.
Example combine_value :
  combine_slices (Slice (Some 1) None (Some 2)) (Slice None None (Some 3)) 10 = Ok (1, 5, 3).
Proof. vm_compute. reflexivity. Qed.
Example categorical_value : categories [5; 3; 5; 9] = [3; 5; 9] /\ codes [5; 3; 5; 9] = [1; 0; 1; 2].
Proof. split; reflexivity. Qed.

(* ---- round 4: views as numpy reads them, histories, categorical objects ---- *)
Example view_int_drops_axis : view_shape_full [3; 4] (Some [VIInt 1]) = Some [4].
Proof. vm_compute. reflexivity. Qed.
Example view_bool_adds_axis : view_shape_full [3; 4] (Some [VIBool true]) = Some [1; 3; 4].
Proof. vm_compute. reflexivity. Qed.
Example view_false_adds_empty_axis : view_shape_full [3; 4] (Some [VISlice (Slice None None None); VIBool false]) = Some [3; 0; 4].
Proof. vm_compute. reflexivity. Qed.
Example view_separated_advanced_go_first :
  view_shape_full [3; 4; 2] (Some [VIInt 1; VISlice (Slice None None None); VIBool true]) = Some [1; 4; 2].
Proof. vm_compute. reflexivity. Qed.
Example view_ellipsis_none : view_shape_full [3; 4; 2] (Some [VIEllipsis; VINone; VIInt 0]) = Some [3; 4; 1].
Proof. vm_compute. reflexivity. Qed.
Example view_none_is_whole : view_shape_full [3; 4] None = Some [3; 4].
Proof. reflexivity. Qed.
Example py_equal_views : py_eq_view [VIInt 1] [VIBool true] = true /\ np_eq_view [VIInt 1] [VIBool true] = false.
Proof. split; reflexivity. Qed.
(* a history: build, read the codes, re-wrap without copy with other categories, read both objects *)
Example cat_history_value :
  let '(h, rs) := crun empty_heap [CNew [1; 0; 2; 0] None; CCodes 0; CRewrap 0 false (Some [2; 1; 0]); CCodes 1; CCodes 0; CCats 0] in
  rs = [RObj 0; RVals [1; 0; 2; 0]; RObj 1; RVals [1; 2; 0; 2]; RVals [1; 0; 2; 0]; RVals [0; 1; 2]]
  /\ map o_buf (h_objs h) = [0%nat; 0%nat].
Proof. vm_compute. split; reflexivity. Qed.
Example rewrap_hyp : Nat.lt 0 (length (h_objs (fst (crun empty_heap [CNew [1; 0; 2; 0] None; CCodes 0])))).
Proof. vm_compute. constructor. Qed.
