(* C20 — "the predicted shape of a view equals the real one" for basic indexing (hand model):
   view_shape = the per-axis lengths of the positions the view really selects. *)
From Coq Require Import ZArith List Bool Lia.
Import ListNotations.
From GV Require Import Common.PyInt gen.Gen_array C20.Model C20.Lemmas C20.CombineProof.
Open Scope Z_scope.

(* positions selected along one axis by a slice with indices (b, e, k); k < 0 walks downwards *)
Definition sel_range (b e k : Z) : list Z :=
  if k >? 0 then py_range b e k else map Z.opp (py_range (- b) (- e) (- k)).

(* per kept axis, the list of positions selected by the view (None = IndexError) *)
Fixpoint view_sel (shape : list Z) (view : list ventry) : option (list (list Z)) :=
  match view, shape with
  | [], _ => Some (map (fun n => py_range 0 n 1) shape)
  | _ :: _, [] => None
  | VInt i :: v', n :: s' => if (i <? - n) || (i >=? n) then None else view_sel s' v'
  | VSlice sl :: v', n :: s' =>
    match slice_indices sl n, view_sel s' v' with
    | Some (b, e, k), Some r => Some (sel_range b e k :: r)
    | _, _ => None
    end
  end.

Lemma zlen_sel_range (b e k : Z) :
  zlen (sel_range b e k) = if k >? 0 then range_len b e k else range_len e b (- k).
Proof.
  unfold sel_range. destruct (k >? 0) eqn:E; [apply zlen_py_range|].
  unfold zlen. rewrite map_length. fold (zlen (py_range (- b) (- e) (- k))). rewrite zlen_py_range.
  unfold range_len. destruct (- k <=? 0) eqn:E1; [reflexivity|].
  destruct (- e <=? - b) eqn:E2; destruct (b <=? e) eqn:E3; try lia; try reflexivity.
  all: f_equal; lia.
Qed.

Lemma zlen_unit_range (n : Z) : 0 <= n -> zlen (py_range 0 n 1) = n.
Proof.
  intros Hn. rewrite zlen_py_range. unfold range_len. cbn [Z.leb Z.compare].
  destruct (n <=? 0) eqn:E; [lia|]. rewrite Z.div_1_r. lia.
Qed.

Lemma view_shape_correct (shape : list Z) (view : list ventry) :
  Forall (fun n => 0 <= n) shape ->
  view_shape shape view = option_map (map zlen) (view_sel shape view).
Proof.
  intros Hs. revert shape Hs. induction view as [|v view IH]; intros shape Hs.
  - destruct shape as [|n s]; cbn [view_shape view_sel option_map]; [reflexivity|].
    f_equal. rewrite map_map. rewrite <- (map_id (n :: s)) at 1. apply map_ext_in.
    intros a Ha. rewrite Forall_forall in Hs. symmetry. apply zlen_unit_range, Hs, Ha.
  - destruct shape as [|n s]; [destruct v; reflexivity|].
    inversion Hs as [|? ? Hn Hs']; subst.
    destruct v as [i|sl]; cbn [view_shape view_sel].
    + destruct ((i <? - n) || (i >=? n)); [reflexivity | apply IH, Hs'].
    + destruct (slice_indices sl n) as [[[b e] k]|]; [|reflexivity].
      rewrite (IH s Hs'). destruct (view_sel s view) as [r|]; cbn [option_map map]; [|reflexivity].
      now rewrite zlen_sel_range.
Qed.
