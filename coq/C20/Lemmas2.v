(* C20 — row-major indexing and the unbroadcast / broadcast round trip (hand model). *)
From Coq Require Import ZArith List Bool Lia ZifyBool.
Import ListNotations.
From GV Require Import Common.PyInt gen.Gen_array C20.Model C20.Lemmas.
Open Scope Z_scope.

Lemma py_range_unit (n : Z) : 0 <= n -> py_range 0 n 1 = map Z.of_nat (seq 0 (Z.to_nat n)).
Proof.
  intros Hn. unfold py_range, range_len. cbn [Z.leb Z.compare].
  destruct (n <=? 0) eqn:E.
  - assert (n = 0) by lia. subst. cbn. reflexivity.
  - replace ((n - 0 + 1 - 1) / 1) with n by (rewrite Z.div_1_r; lia).
    apply map_ext. intros k. lia.
Qed.

Lemma zprod_nonneg (l : list Z) : Forall (fun n => 0 <= n) l -> 0 <= zprod l.
Proof.
  induction 1 as [|x l Hx Hl IH]; [rewrite zprod_nil; lia | rewrite zprod_cons; nia].
Qed.

Lemma flat_map_const_length {A B} (f : A -> list B) (l : list A) (m : nat) :
  (forall a, In a l -> length (f a) = m) -> length (flat_map f l) = (length l * m)%nat.
Proof.
  induction l as [|a l IH]; intros H; cbn [flat_map length]; [reflexivity|].
  rewrite app_length, H by (cbn; auto). rewrite IH by (intros; apply H; cbn; auto). lia.
Qed.

Lemma all_indices_length (shape : list Z) : Forall (fun n => 0 <= n) shape ->
  length (all_indices shape) = Z.to_nat (zprod shape).
Proof.
  induction 1 as [|n s Hn Hs IH]; [reflexivity|].
  cbn [all_indices]. rewrite (flat_map_const_length _ _ (Z.to_nat (zprod s))).
  - rewrite py_range_unit, map_length, seq_length, zprod_cons by lia.
    pose proof (zprod_nonneg s Hs). nia.
  - intros a _. now rewrite map_length.
Qed.

(* nth inside a concatenation of equal-length blocks *)
Lemma nth_flat_map_blocks {A B} (f : A -> list B) (l : list A) (m : nat) (i r : nat) (d : B) (da : A) :
  (forall a, In a l -> length (f a) = m) -> (i < length l)%nat -> (r < m)%nat ->
  nth (i * m + r) (flat_map f l) d = nth r (f (nth i l da)) d.
Proof.
  revert i. induction l as [|a l IH]; intros i H Hi Hr; [cbn in Hi; lia|].
  cbn [flat_map]. destruct i as [|i].
  - cbn [Nat.mul Nat.add nth]. rewrite app_nth1; [reflexivity|]. rewrite H by (cbn; auto). exact Hr.
  - rewrite app_nth2; rewrite H by (cbn; auto); [|lia].
    replace (S i * m + r - m)%nat with (i * m + r)%nat by lia.
    cbn [nth]. apply IH; [intros; apply H; cbn; auto | cbn in Hi; lia | exact Hr].
Qed.

Lemma map_flat_map_comm {A B C} (f : B -> C) (g : A -> list B) (l : list A) :
  map f (flat_map g l) = flat_map (fun x => map f (g x)) l.
Proof. induction l as [|a l IH]; cbn [flat_map map]; [reflexivity|]. now rewrite map_app, IH. Qed.

Lemma flat_index_bounds (shape idx : list Z) :
  Forall2 (fun x n => 0 <= x < n) idx shape -> 0 <= flat_index shape idx < zprod shape.
Proof.
  induction 1 as [|x n idx s Hx Hr IH]; [unfold zprod; cbn; lia|].
  cbn [flat_index]. rewrite zprod_cons. nia.
Qed.

Lemma nth_flat_index (f : list Z -> Z) (shape idx : list Z) (d : Z) :
  Forall2 (fun x n => 0 <= x < n) idx shape ->
  nth (Z.to_nat (flat_index shape idx)) (map f (all_indices shape)) d = f idx.
Proof.
  intros H. revert f. induction H as [|x n idx s Hx Hr IH]; intros f; [reflexivity|].
  assert (Hs : Forall (fun n => 0 <= n) s).
  { clear -Hr. induction Hr; constructor; [lia | assumption]. }
  cbn [all_indices flat_index].
  pose proof (flat_index_bounds s idx Hr) as Hb.
  rewrite map_flat_map_comm.
  replace (Z.to_nat (x * zprod s + flat_index s idx))
    with (Z.to_nat x * Z.to_nat (zprod s) + Z.to_nat (flat_index s idx))%nat by nia.
  rewrite (nth_flat_map_blocks _ _ (Z.to_nat (zprod s)) _ _ d 0).
  - rewrite py_range_unit by lia.
    rewrite (nth_indep _ 0 (Z.of_nat 0)) by (rewrite map_length, seq_length; lia).
    rewrite map_nth, seq_nth by lia. cbn [Nat.add].
    rewrite Z2Nat.id by lia. rewrite map_map. apply (IH (fun i => f (x :: i))).
  - intros a _. rewrite !map_length. apply all_indices_length, Hs.
  - rewrite py_range_unit, map_length, seq_length by lia. lia.
  - lia.
Qed.

Lemma in_all_indices (shape idx : list Z) : Forall (fun n => 0 <= n) shape ->
  In idx (all_indices shape) -> Forall2 (fun x n => 0 <= x < n) idx shape.
Proof.
  intros Hs. revert idx. induction Hs as [|n s Hn Hs IH]; intros idx Hin.
  - cbn in Hin. destruct Hin as [<-|[]]. constructor.
  - cbn [all_indices] in Hin. apply in_flat_map in Hin as (i & Hi & Hin).
    apply in_map_iff in Hin as (rest & <- & Hrest).
    rewrite py_range_unit in Hi by lia. apply in_map_iff in Hi as (k & <- & Hk). apply in_seq in Hk.
    constructor; [lia | apply IH, Hrest].
Qed.

Lemma collapse_in_box (shape idx : list Z) (flags : list bool) :
  length flags = length shape -> Forall2 (fun x n => 0 <= x < n) idx shape ->
  Forall2 (fun x n => 0 <= x < n) (collapse flags idx) (unbroadcast_shape shape flags).
Proof.
  intros Hl H. revert flags Hl. induction H as [|x n idx s Hx Hr IH]; intros flags Hl.
  - destruct flags; [constructor | discriminate].
  - destruct flags as [|b flags]; [discriminate|].
    unfold collapse, unbroadcast_shape. cbn [combine map].
    constructor; [destruct b; lia | apply IH; cbn in Hl; lia].
Qed.

(* removing broadcast (stride-0) dimensions and broadcasting back reproduces the array:
   [f] is the array as a function of the index; stride 0 on the flagged axes means exactly
   that [f] does not depend on those index components *)
Lemma unbroadcast_roundtrip (shape : list Z) (flags : list bool) (f : list Z -> Z) :
  length flags = length shape -> Forall (fun n => 0 <= n) shape ->
  (forall idx, f idx = f (collapse flags idx)) ->
  broadcast_back shape flags (map f (all_indices (unbroadcast_shape shape flags)))
  = map f (all_indices shape).
Proof.
  intros Hl Hs Hf. unfold broadcast_back. apply map_ext_in. intros idx Hin.
  apply in_all_indices in Hin; [|exact Hs].
  rewrite nth_flat_index by (apply collapse_in_box; assumption).
  symmetry. apply Hf.
Qed.

Lemma unbroadcast_shape_minimal (shape : list Z) (flags : list bool) :
  length flags = length shape ->
  Forall2 (fun m '(n, b) => m = if (b : bool) then 1 else n) (unbroadcast_shape shape flags) (combine shape flags).
Proof.
  intros _. unfold unbroadcast_shape. induction (combine shape flags) as [|[n b] l IH]; cbn [map]; constructor; auto.
Qed.
