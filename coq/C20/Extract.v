From Coq Require Import ZArith ExtrOcamlBasic.
From GV Require Import Common.Wire C20.Model.
Extraction "c20_model.ml" run_case Z.add Z.mul Z.div_eucl Z.opp.
