(* C20 — the TRANSLATED generator [iterate_chunks] (Gen_array) enumerates exactly
   the product of the per-axis tilings [m_chunks], first axis fastest.

   Proof structure
   1. py_range / znth / zupd toolbox.
   2. Structural mirrors of the loop body:  [chunk] (the yielded slices),
      [carry] (the carry-propagating [for] loop), [next] (one odometer step).
   3. [after shape cs st]: the start vectors strictly after [st] in odometer order,
      defined by structural recursion; [step_spec] relates [next] and [after].
   4. [loop_run]: the loop started at [st] appends [chunk st :: map chunk (after st)].
   5. [m_chunks = map chunk (zeros :: after zeros)], the fuel bound, the theorems. *)
From Coq Require Import ZArith List Bool Lia ZifyBool.
Import ListNotations.
From GV Require Import Common.PyInt gen.Gen_array C20.Model C20.Lemmas.
Open Scope Z_scope.
Ltac Zify.zify_post_hook ::= Z.to_euclidean_division_equations.

(* ------------------------------------------------------------------ py_range *)
Lemma py_range_nil (a b s : Z) : b <= a -> py_range a b s = [].
Proof.
  intros Hba. unfold py_range, range_len.
  destruct (s <=? 0); [reflexivity|]. destruct (b <=? a) eqn:E; [reflexivity | lia].
Qed.

Lemma py_range_cons (a b s : Z) : 0 < s -> a < b ->
  py_range a b s = a :: py_range (a + s) b s.
Proof.
  intros Hs Hab. unfold py_range.
  assert (HL : Z.to_nat (range_len a b s) = S (Z.to_nat (range_len (a + s) b s))).
  { unfold range_len. destruct (s <=? 0) eqn:E0; [lia|].
    destruct (b <=? a) eqn:E1; [lia|]. destruct (b <=? a + s) eqn:E2; nia. }
  rewrite HL. cbn [seq map]. f_equal; [lia|].
  rewrite <- seq_shift, map_map. apply map_ext. intros k. lia.
Qed.

Lemma py_range_unit (n : nat) : py_range 0 (Z.of_nat n) 1 = map Z.of_nat (seq 0 n).
Proof.
  unfold py_range.
  assert (HL : Z.to_nat (range_len 0 (Z.of_nat n) 1) = n).
  { unfold range_len. cbn [Z.leb Z.compare]. destruct (Z.of_nat n <=? 0) eqn:E; nia. }
  rewrite HL. apply map_ext. intros k. lia.
Qed.

(* ------------------------------------------------------------------ znth / zupd *)
Lemma znth_of_nat (l : list Z) (k : nat) : znth l (Z.of_nat k) = nth k l 0.
Proof.
  unfold znth. destruct (Z.of_nat k <? 0) eqn:E; [lia|]. now rewrite Nat2Z.id.
Qed.

Lemma zupd_of_nat (l : list Z) (k : nat) (v : Z) : zupd l (Z.of_nat k) v = upd_nat l k v.
Proof.
  unfold zupd. destruct (Z.of_nat k <? 0) eqn:E; [lia|]. now rewrite Nat2Z.id.
Qed.

Lemma nth_app_at (p : list Z) (x : Z) (r : list Z) : nth (length p) (p ++ x :: r) 0 = x.
Proof. induction p as [|y p IH]; cbn [length app nth]; [reflexivity | exact IH]. Qed.

Lemma upd_nat_app_at (p : list Z) (x v : Z) (r : list Z) :
  upd_nat (p ++ x :: r) (length p) v = p ++ v :: r.
Proof. induction p as [|y p IH]; cbn [length app upd_nat]; [reflexivity | now rewrite IH]. Qed.

Lemma znth_app_at (p : list Z) (x : Z) (r : list Z) (k : nat) :
  length p = k -> znth (p ++ x :: r) (Z.of_nat k) = x.
Proof. intros <-. rewrite znth_of_nat. apply nth_app_at. Qed.

Lemma znth_app_at1 (p : list Z) (x y : Z) (r : list Z) (k : nat) :
  length p = k -> znth (p ++ x :: y :: r) (Z.of_nat k + 1) = y.
Proof.
  intros Hk. replace (Z.of_nat k + 1) with (Z.of_nat (S k)) by lia.
  replace (p ++ x :: y :: r) with ((p ++ [x]) ++ y :: r) by (now rewrite <- app_assoc).
  apply znth_app_at. rewrite app_length. cbn [length]. lia.
Qed.

Lemma zupd_app_at (p : list Z) (x v : Z) (r : list Z) (k : nat) :
  length p = k -> zupd (p ++ x :: r) (Z.of_nat k) v = p ++ v :: r.
Proof. intros <-. rewrite zupd_of_nat. apply upd_nat_app_at. Qed.

Lemma zupd_app_at1 (p : list Z) (x y v : Z) (r : list Z) (k : nat) :
  length p = k -> zupd (p ++ x :: y :: r) (Z.of_nat k + 1) v = p ++ x :: v :: r.
Proof.
  intros Hk. replace (Z.of_nat k + 1) with (Z.of_nat (S k)) by lia.
  replace (p ++ x :: y :: r) with ((p ++ [x]) ++ y :: r) by (now rewrite <- app_assoc).
  rewrite zupd_app_at by (rewrite app_length; cbn [length]; lia).
  now rewrite <- app_assoc.
Qed.

(* l[-1] is the last element *)
Lemma znth_m1 (l : list Z) : znth l (-1) = last l 0.
Proof.
  unfold znth, zlen. cbn [Z.ltb Z.compare].
  induction l as [|x l IH]; [reflexivity|].
  destruct l as [|y l]; [reflexivity|].
  cbn [last]. cbn [last] in IH. rewrite <- IH. cbn [length].
  replace (Z.to_nat (Z.of_nat (S (S (length l))) + -1)) with (S (Z.to_nat (Z.of_nat (S (length l)) + -1))) by lia.
  reflexivity.
Qed.

(* ------------------------------------------------------------------ comprehension over range(ndim) *)
Fixpoint zip3 {X} (f : Z -> Z -> Z -> X) (a b c : list Z) : list X :=
  match a, b, c with
  | x :: a', y :: b', z :: c' => f x y z :: zip3 f a' b' c'
  | _, _, _ => []
  end.

Lemma map_range_zip3 {X} (f : Z -> Z -> Z -> X) (a b c : list Z) (n : nat) :
  length a = n -> length b = n -> length c = n ->
  map (fun i => f (znth a i) (znth b i) (znth c i)) (py_range 0 (Z.of_nat n) 1) = zip3 f a b c.
Proof.
  rewrite py_range_unit, map_map.
  revert a b c. induction n as [|n IH]; intros a b c Ha Hb Hc.
  - destruct a; [|discriminate]. reflexivity.
  - destruct a as [|x a]; [discriminate|]. destruct b as [|y b]; [discriminate|].
    destruct c as [|z c]; [discriminate|].
    cbn [seq map zip3]. f_equal.
    rewrite <- seq_shift, map_map. rewrite <- (IH a b c) by (cbn [length] in *; lia).
    apply map_ext. intros k. rewrite !znth_of_nat. reflexivity.
Qed.

Lemma zip3_length {X} (f : Z -> Z -> Z -> X) (a b c : list Z) (n : nat) :
  length a = n -> length b = n -> length c = n -> length (zip3 f a b c) = n.
Proof.
  revert a b c. induction n as [|n IH]; intros a b c Ha Hb Hc.
  - destruct a; [|discriminate]. reflexivity.
  - destruct a as [|x a]; [discriminate|]. destruct b as [|y b]; [discriminate|].
    destruct c as [|z c]; [discriminate|]. cbn [zip3 length]. f_equal.
    apply IH; cbn [length] in *; lia.
Qed.

(* ------------------------------------------------------------------ structural mirrors of the loop body *)

(* the end indices and the yielded tuple of slices *)
Definition ends (shape cs st : list Z) : list Z :=
  zip3 (fun s c n => Z.min (s + c) n) st cs shape.
Definition chunk (shape cs st : list Z) : list (Z * Z) :=
  zip3 (fun s e _ => (s, e)) st (ends shape cs st) st.

Lemma chunk_cons (n c s : Z) (shape cs st : list Z) :
  chunk (n :: shape) (c :: cs) (s :: st) = (s, Z.min (s + c) n) :: chunk shape cs st.
Proof. reflexivity. Qed.

(* the carry loop  for i in range(ndim - 1): if st[i] >= shape[i]: st[i] = 0; st[i+1] += cs[i+1] *)
Fixpoint carry (shape cs st : list Z) : list Z :=
  match shape, cs, st with
  | n :: shape', _ :: cs', s :: st' =>
      match shape', cs', st' with
      | _ :: _, c' :: _, s' :: st'' =>
          if s >=? n then 0 :: carry shape' cs' (s' + c' :: st'')
          else s :: carry shape' cs' st'
      | _, _, _ => st
      end
  | _, _, _ => st
  end.

Lemma carry_cons2 (n n' c c' s s' : Z) (sh cs st : list Z) :
  carry (n :: n' :: sh) (c :: c' :: cs) (s :: s' :: st) =
  if s >=? n then 0 :: carry (n' :: sh) (c' :: cs) (s' + c' :: st)
  else s :: carry (n' :: sh) (c' :: cs) (s' :: st).
Proof. reflexivity. Qed.

Lemma carry_single (n c s : Z) : carry [n] [c] [s] = [s].
Proof. reflexivity. Qed.

(* one full odometer step: bump axis 0, then propagate carries *)
Definition next (shape cs st : list Z) : list Z :=
  match cs, st with
  | c :: _, s :: st' => carry shape cs (s + c :: st')
  | _, _ => st
  end.
