(* C20 — the TRANSLATED generator [iterate_chunks] (Gen_array) enumerates exactly
   the product of the per-axis tilings [m_chunks], first axis fastest.

   Proof structure
   1. py_range / znth / zupd toolbox.
   2. Structural mirrors of the loop body:  [chunk] (the yielded slices),
      [carry] (the carry-propagating [for] loop), [next] (one odometer step).
   3. [after shape cs st]: the start vectors strictly after [st] in odometer order,
      defined by structural recursion; [step_spec] relates [next] and [after].
   4. [loop_run]: the loop started at [st] appends [chunk st :: map chunk (after st)].
   5. [m_chunks = map chunk (zeros :: after zeros)], the fuel bound, the theorems. *)
From Coq Require Import ZArith List Bool Lia ZifyBool.
Import ListNotations.
From GV Require Import Common.PyInt gen.Gen_array C20.Model C20.Lemmas.
Open Scope Z_scope.
Ltac Zify.zify_post_hook ::= Z.to_euclidean_division_equations.

(* ------------------------------------------------------------------ py_range *)
Lemma py_range_nil (a b s : Z) : b <= a -> py_range a b s = [].
Proof.
  intros Hba. unfold py_range, range_len.
  destruct (s <=? 0); [reflexivity|]. destruct (b <=? a) eqn:E; [reflexivity | lia].
Qed.

Lemma py_range_cons (a b s : Z) : 0 < s -> a < b ->
  py_range a b s = a :: py_range (a + s) b s.
Proof.
  intros Hs Hab. unfold py_range.
  assert (HL : Z.to_nat (range_len a b s) = S (Z.to_nat (range_len (a + s) b s))).
  { unfold range_len. destruct (s <=? 0) eqn:E0; [lia|].
    destruct (b <=? a) eqn:E1; [lia|]. destruct (b <=? a + s) eqn:E2; nia. }
  rewrite HL. cbn [seq map]. f_equal; [lia|].
  rewrite <- seq_shift, map_map. apply map_ext. intros k. lia.
Qed.

Lemma py_range_unit (n : nat) : py_range 0 (Z.of_nat n) 1 = map Z.of_nat (seq 0 n).
Proof.
  unfold py_range.
  assert (HL : Z.to_nat (range_len 0 (Z.of_nat n) 1) = n).
  { unfold range_len. cbn [Z.leb Z.compare]. destruct (Z.of_nat n <=? 0) eqn:E; nia. }
  rewrite HL. apply map_ext. intros k. lia.
Qed.

(* ------------------------------------------------------------------ znth / zupd *)
Lemma znth_of_nat (l : list Z) (k : nat) : znth l (Z.of_nat k) = nth k l 0.
Proof.
  unfold znth. destruct (Z.of_nat k <? 0) eqn:E; [lia|]. now rewrite Nat2Z.id.
Qed.

Lemma zupd_of_nat (l : list Z) (k : nat) (v : Z) : zupd l (Z.of_nat k) v = upd_nat l k v.
Proof.
  unfold zupd. destruct (Z.of_nat k <? 0) eqn:E; [lia|]. now rewrite Nat2Z.id.
Qed.

Lemma nth_app_at (p : list Z) (x : Z) (r : list Z) : nth (length p) (p ++ x :: r) 0 = x.
Proof. induction p as [|y p IH]; cbn [length app nth]; [reflexivity | exact IH]. Qed.

Lemma upd_nat_app_at (p : list Z) (x v : Z) (r : list Z) :
  upd_nat (p ++ x :: r) (length p) v = p ++ v :: r.
Proof. induction p as [|y p IH]; cbn [length app upd_nat]; [reflexivity | now rewrite IH]. Qed.

Lemma znth_app_at (p : list Z) (x : Z) (r : list Z) (k : nat) :
  length p = k -> znth (p ++ x :: r) (Z.of_nat k) = x.
Proof. intros <-. rewrite znth_of_nat. apply nth_app_at. Qed.

Lemma znth_app_at1 (p : list Z) (x y : Z) (r : list Z) (k : nat) :
  length p = k -> znth (p ++ x :: y :: r) (Z.of_nat k + 1) = y.
Proof.
  intros Hk. replace (Z.of_nat k + 1) with (Z.of_nat (S k)) by lia.
  replace (p ++ x :: y :: r) with ((p ++ [x]) ++ y :: r) by (now rewrite <- app_assoc).
  apply znth_app_at. rewrite app_length. cbn [length]. lia.
Qed.

Lemma zupd_app_at (p : list Z) (x v : Z) (r : list Z) (k : nat) :
  length p = k -> zupd (p ++ x :: r) (Z.of_nat k) v = p ++ v :: r.
Proof. intros <-. rewrite zupd_of_nat. apply upd_nat_app_at. Qed.

Lemma zupd_app_at1 (p : list Z) (x y v : Z) (r : list Z) (k : nat) :
  length p = k -> zupd (p ++ x :: y :: r) (Z.of_nat k + 1) v = p ++ x :: v :: r.
Proof.
  intros Hk. replace (Z.of_nat k + 1) with (Z.of_nat (S k)) by lia.
  replace (p ++ x :: y :: r) with ((p ++ [x]) ++ y :: r) by (now rewrite <- app_assoc).
  rewrite zupd_app_at by (rewrite app_length; cbn [length]; lia).
  now rewrite <- app_assoc.
Qed.

(* l[-1] is the last element *)
Lemma znth_m1 (l : list Z) : znth l (-1) = last l 0.
Proof.
  unfold znth, zlen. cbn [Z.ltb Z.compare].
  induction l as [|x l IH]; [reflexivity|].
  destruct l as [|y l]; [reflexivity|].
  cbn [last]. cbn [last] in IH. rewrite <- IH. cbn [length].
  replace (Z.to_nat (Z.of_nat (S (S (length l))) + -1)) with (S (Z.to_nat (Z.of_nat (S (length l)) + -1))) by lia.
  reflexivity.
Qed.

(* ------------------------------------------------------------------ comprehension over range(ndim) *)
Fixpoint zip3 {X} (f : Z -> Z -> Z -> X) (a b c : list Z) : list X :=
  match a, b, c with
  | x :: a', y :: b', z :: c' => f x y z :: zip3 f a' b' c'
  | _, _, _ => []
  end.

Lemma map_range_zip3 {X} (f : Z -> Z -> Z -> X) (a b c : list Z) (n : nat) :
  length a = n -> length b = n -> length c = n ->
  map (fun i => f (znth a i) (znth b i) (znth c i)) (py_range 0 (Z.of_nat n) 1) = zip3 f a b c.
Proof.
  rewrite py_range_unit, map_map.
  revert a b c. induction n as [|n IH]; intros a b c Ha Hb Hc.
  - destruct a; [|discriminate]. reflexivity.
  - destruct a as [|x a]; [discriminate|]. destruct b as [|y b]; [discriminate|].
    destruct c as [|z c]; [discriminate|].
    cbn [seq map zip3]. f_equal.
    rewrite <- seq_shift, map_map. rewrite <- (IH a b c) by (cbn [length] in *; lia).
    apply map_ext. intros k. rewrite !znth_of_nat. reflexivity.
Qed.

Lemma zip3_length {X} (f : Z -> Z -> Z -> X) (a b c : list Z) (n : nat) :
  length a = n -> length b = n -> length c = n -> length (zip3 f a b c) = n.
Proof.
  revert a b c. induction n as [|n IH]; intros a b c Ha Hb Hc.
  - destruct a; [|discriminate]. reflexivity.
  - destruct a as [|x a]; [discriminate|]. destruct b as [|y b]; [discriminate|].
    destruct c as [|z c]; [discriminate|]. cbn [zip3 length]. f_equal.
    apply IH; cbn [length] in *; lia.
Qed.

(* ------------------------------------------------------------------ structural mirrors of the loop body *)

(* the end indices and the yielded tuple of slices *)
Definition ends (shape cs st : list Z) : list Z :=
  zip3 (fun s c n => Z.min (s + c) n) st cs shape.
Definition chunk (shape cs st : list Z) : list (Z * Z) :=
  zip3 (fun s e _ => (s, e)) st (ends shape cs st) st.

Lemma chunk_cons (n c s : Z) (shape cs st : list Z) :
  chunk (n :: shape) (c :: cs) (s :: st) = (s, Z.min (s + c) n) :: chunk shape cs st.
Proof. reflexivity. Qed.

(* the carry loop  for i in range(ndim - 1): if st[i] >= shape[i]: st[i] = 0; st[i+1] += cs[i+1] *)
Fixpoint carry (shape cs st : list Z) : list Z :=
  match shape, cs, st with
  | n :: shape', _ :: cs', s :: st' =>
      match shape', cs', st' with
      | _ :: _, c' :: _, s' :: st'' =>
          if s >=? n then 0 :: carry shape' cs' (s' + c' :: st'')
          else s :: carry shape' cs' st'
      | _, _, _ => st
      end
  | _, _, _ => st
  end.

Lemma carry_cons2 (n n' c c' s s' : Z) (sh cs st : list Z) :
  carry (n :: n' :: sh) (c :: c' :: cs) (s :: s' :: st) =
  if s >=? n then 0 :: carry (n' :: sh) (c' :: cs) (s' + c' :: st)
  else s :: carry (n' :: sh) (c' :: cs) (s' :: st).
Proof. reflexivity. Qed.

Lemma carry_single (n c s : Z) : carry [n] [c] [s] = [s].
Proof. reflexivity. Qed.

(* one full odometer step: bump axis 0, then propagate carries *)
Definition next (shape cs st : list Z) : list Z :=
  match cs, st with
  | c :: _, s :: st' => carry shape cs (s + c :: st')
  | _, _ => st
  end.

(* ------------------------------------------------------------------ one unfolding of the translated loop *)
Definition body_slices (shape cs : list Z) (ndim : Z) (st : list Z) : list (Z * Z) :=
  let end_index := map (fun i => Z.min (znth st i + znth cs i) (znth shape i)) (py_range 0 ndim 1) in
  map (fun i => (znth st i, znth end_index i)) (py_range 0 ndim 1).

Definition carry_body (shape cs : list Z) (st : list Z) (i : Z) : list Z :=
  if znth st i >=? znth shape i then
    zupd (zupd st i 0) (i + 1) (znth (zupd st i 0) (i + 1) + znth cs (i + 1))
  else st.

Definition body_next (shape cs : list Z) (ndim : Z) (st : list Z) : list Z :=
  fold_left (carry_body shape cs) (py_range 0 (ndim - 1) 1) (zupd st 0 (znth st 0 + znth cs 0)).

Lemma loop_unfold (fuel : nat) (shape cs : list Z) (ndim : Z) (st : list Z) (out : list (list (Z * Z))) :
  iterate_chunks_loop0 (S fuel) shape cs ndim st out =
  if list_le st shape then
    if znth (body_next shape cs ndim st) (-1) >=? znth shape (-1)
    then Ok (out ++ [body_slices shape cs ndim st])
    else iterate_chunks_loop0 fuel shape cs ndim (body_next shape cs ndim st)
           (out ++ [body_slices shape cs ndim st])
  else Ok out.
Proof. reflexivity. Qed.

Lemma body_slices_chunk (shape cs st : list Z) (n : nat) :
  length shape = n -> length cs = n -> length st = n ->
  body_slices shape cs (Z.of_nat n) st = chunk shape cs st.
Proof.
  intros Hs Hc Hst. unfold body_slices. cbv zeta.
  pose proof (map_range_zip3 (fun s c n => Z.min (s + c) n) st cs shape n Hst Hc Hs) as HE.
  cbv beta in HE. rewrite HE. fold (ends shape cs st).
  assert (HLe : length (ends shape cs st) = n) by (apply zip3_length; assumption).
  pose proof (map_range_zip3 (fun s e _ => (s, e)) st (ends shape cs st) st n Hst HLe Hst) as HC.
  cbv beta in HC. rewrite HC. reflexivity.
Qed.

Lemma fold_carry (shape2 : list Z) :
  forall (cs2 st2 ps pc pa : list Z) (k : nat),
  length ps = k -> length pc = k -> length pa = k ->
  length cs2 = length shape2 -> length st2 = length shape2 ->
  fold_left (carry_body (ps ++ shape2) (pc ++ cs2))
            (map Z.of_nat (seq k (pred (length shape2)))) (pa ++ st2)
  = pa ++ carry shape2 cs2 st2.
Proof.
  induction shape2 as [|n shape2 IH]; intros cs2 st2 ps pc pa k Hps Hpc Hpa Hcs Hst.
  - destruct cs2; [|discriminate]. destruct st2; [|discriminate]. reflexivity.
  - destruct cs2 as [|c cs2]; [discriminate|]. destruct st2 as [|s st2]; [discriminate|].
    destruct shape2 as [|n' sh].
    + destruct cs2; [|discriminate]. destruct st2; [|discriminate]. reflexivity.
    + destruct cs2 as [|c' cs2]; [discriminate|]. destruct st2 as [|s' st2]; [discriminate|].
      cbn [length pred seq map fold_left]. rewrite carry_cons2.
      assert (Hsh : ps ++ n :: n' :: sh = (ps ++ [n]) ++ n' :: sh) by (now rewrite <- app_assoc).
      assert (Hcc : pc ++ c :: c' :: cs2 = (pc ++ [c]) ++ c' :: cs2) by (now rewrite <- app_assoc).
      assert (Hl1 : forall (p : list Z) (x : Z), length p = k -> length (p ++ [x]) = S k)
        by (intros p x Hp; rewrite app_length; cbn [length]; lia).
      unfold carry_body at 2.
      rewrite (znth_app_at pa s (s' :: st2) k Hpa), (znth_app_at ps n (n' :: sh) k Hps).
      destruct (s >=? n) eqn:E.
      * rewrite (zupd_app_at pa s 0 (s' :: st2) k Hpa).
        rewrite (znth_app_at1 pa 0 s' st2 k Hpa), (znth_app_at1 pc c c' cs2 k Hpc).
        rewrite (zupd_app_at1 pa 0 s' (s' + c') st2 k Hpa).
        replace (pa ++ 0 :: s' + c' :: st2) with ((pa ++ [0]) ++ s' + c' :: st2)
          by (now rewrite <- app_assoc).
        rewrite Hsh, Hcc.
        pose proof (IH (c' :: cs2) (s' + c' :: st2) (ps ++ [n]) (pc ++ [c]) (pa ++ [0]) (S k)
                      (Hl1 _ _ Hps) (Hl1 _ _ Hpc) (Hl1 _ _ Hpa)
                      ltac:(cbn [length] in *; lia) ltac:(cbn [length] in *; lia)) as HI.
        cbn [length pred] in HI. rewrite HI. now rewrite <- app_assoc.
      * replace (pa ++ s :: s' :: st2) with ((pa ++ [s]) ++ s' :: st2)
          by (now rewrite <- app_assoc).
        rewrite Hsh, Hcc.
        pose proof (IH (c' :: cs2) (s' :: st2) (ps ++ [n]) (pc ++ [c]) (pa ++ [s]) (S k)
                      (Hl1 _ _ Hps) (Hl1 _ _ Hpc) (Hl1 _ _ Hpa)
                      ltac:(cbn [length] in *; lia) ltac:(cbn [length] in *; lia)) as HI.
        cbn [length pred] in HI. rewrite HI. now rewrite <- app_assoc.
Qed.

Lemma body_next_next (shape cs st : list Z) :
  length cs = length shape -> length st = length shape ->
  body_next shape cs (zlen cs) st = next shape cs st.
Proof.
  intros Hc Hst. unfold body_next, next.
  destruct cs as [|c cs'].
  - destruct shape; [|discriminate]. destruct st; [|discriminate]. reflexivity.
  - destruct st as [|s st']; [destruct shape; discriminate|].
    assert (H0 : zupd (s :: st') 0 (znth (s :: st') 0 + znth (c :: cs') 0) = (s + c) :: st')
      by reflexivity.
    rewrite H0.
    assert (Hn : zlen (c :: cs') - 1 = Z.of_nat (pred (length shape)))
      by (unfold zlen; rewrite Hc; cbn [length] in Hc; lia).
    rewrite Hn, py_range_unit.
    apply (fold_carry shape (c :: cs') (s + c :: st') [] [] [] 0%nat); auto.
Qed.

(* ------------------------------------------------------------------ the domain of start vectors *)
Fixpoint dom (shape cs st : list Z) : Prop :=
  match shape, cs, st with
  | [], [], [] => True
  | n :: shape', c :: cs', s :: st' => 1 <= c /\ 0 <= s < n /\ dom shape' cs' st'
  | _, _, _ => False
  end.

Lemma dom_length (shape : list Z) : forall cs st,
  dom shape cs st -> length cs = length shape /\ length st = length shape.
Proof.
  induction shape as [|n shape IH]; intros cs st Hd;
    destruct cs as [|c cs]; destruct st as [|s st]; cbn [dom] in Hd; try contradiction.
  - split; reflexivity.
  - destruct Hd as (_ & _ & Hd). destruct (IH cs st Hd) as [H1 H2]. cbn [length]. split; congruence.
Qed.

Lemma dom_list_le (shape cs st : list Z) : shape <> [] -> dom shape cs st -> list_le st shape = true.
Proof.
  intros Hne Hd. destruct shape as [|n shape]; [contradiction|].
  destruct cs as [|c cs]; destruct st as [|s st]; cbn [dom] in Hd; try contradiction.
  destruct Hd as (_ & Hs & _). cbn [list_le]. destruct (s <? n) eqn:E; [reflexivity | lia].
Qed.

Lemma dom_last (shape : list Z) : forall cs st,
  shape <> [] -> dom shape cs st -> last st 0 < last shape 0.
Proof.
  induction shape as [|n shape IH]; intros cs st Hne Hd; [contradiction|].
  destruct cs as [|c cs]; destruct st as [|s st]; cbn [dom] in Hd; try contradiction.
  destruct Hd as (_ & Hs & Hd).
  destruct shape as [|n' sh].
  - destruct cs; destruct st; cbn [dom] in Hd; try contradiction. cbn [last]. lia.
  - destruct cs as [|c' cs]; destruct st as [|s' st]; cbn [dom] in Hd; try contradiction.
    change (last (s' :: st) 0 < last (n' :: sh) 0).
    apply (IH (c' :: cs) (s' :: st)); [discriminate | exact Hd].
Qed.

Lemma carry_id (shape : list Z) : forall cs st, dom shape cs st -> carry shape cs st = st.
Proof.
  induction shape as [|n shape IH]; intros cs st Hd; [reflexivity|].
  destruct cs as [|c cs]; destruct st as [|s st]; cbn [dom] in Hd; try contradiction.
  destruct Hd as (_ & Hs & Hd).
  destruct shape as [|n' sh].
  - destruct cs; destruct st; cbn [dom] in Hd; try contradiction. reflexivity.
  - destruct cs as [|c' cs]; destruct st as [|s' st]; cbn [dom] in Hd; try contradiction.
    rewrite carry_cons2. destruct (s >=? n) eqn:E; [lia|].
    f_equal. apply IH. exact Hd.
Qed.

Lemma carry_length (shape : list Z) : forall cs st, length (carry shape cs st) = length st.
Proof.
  induction shape as [|n shape IH]; intros cs st; [reflexivity|].
  destruct cs as [|c cs]; destruct st as [|s st]; try reflexivity.
  destruct shape as [|n' sh]; destruct cs as [|c' cs]; destruct st as [|s' st]; try reflexivity.
  rewrite carry_cons2. destruct (s >=? n); cbn [length]; f_equal; rewrite IH; reflexivity.
Qed.

Lemma last_cons_ne (a d : Z) (l : list Z) : l <> [] -> last (a :: l) d = last l d.
Proof. intros Hne. destruct l; [contradiction | reflexivity]. Qed.

(* ------------------------------------------------------------------ odometer order *)
Definition expand (n c : Z) (L : list (list Z)) : list (list Z) :=
  flat_map (fun rest => map (fun b => b :: rest) (py_range 0 n c)) L.

(* start vectors strictly after st, first axis fastest *)
Fixpoint after (shape cs st : list Z) : list (list Z) :=
  match shape, cs, st with
  | n :: shape', c :: cs', s :: st' =>
      map (fun b => b :: st') (py_range (s + c) n c) ++ expand n c (after shape' cs' st')
  | _, _, _ => []
  end.

Lemma after_cons (n c s : Z) (shape cs st : list Z) :
  after (n :: shape) (c :: cs) (s :: st) =
  map (fun b => b :: st) (py_range (s + c) n c) ++ expand n c (after shape cs st).
Proof. reflexivity. Qed.

Lemma expand_nil (n c : Z) : expand n c [] = [].
Proof. reflexivity. Qed.

Lemma expand_cons (n c : Z) (x : list Z) (L : list (list Z)) :
  expand n c (x :: L) = map (fun b => b :: x) (py_range 0 n c) ++ expand n c L.
Proof. reflexivity. Qed.

(* one step of the odometer is the head of [after]; it overflows the last axis exactly when
   nothing is left *)
Lemma step_spec (shape : list Z) : forall cs st,
  shape <> [] -> dom shape cs st ->
  match after shape cs st with
  | [] => last (next shape cs st) 0 >= last shape 0
  | x :: l => next shape cs st = x /\ after shape cs x = l /\ dom shape cs x
  end.
Proof.
  induction shape as [|n shape IH]; intros cs st Hne Hd; [contradiction|].
  destruct cs as [|c cs]; destruct st as [|s st]; cbn [dom] in Hd; try contradiction.
  destruct Hd as (Hc & Hs & Hd). unfold next.
  destruct shape as [|n' sh].
  - destruct cs; destruct st; cbn [dom] in Hd; try contradiction.
    rewrite carry_single, after_cons. change (after [] [] []) with (@nil (list Z)).
    rewrite expand_nil, app_nil_r.
    destruct (Z_lt_le_dec (s + c) n) as [Hlt|Hge].
    + rewrite (py_range_cons (s + c) n c) by lia. cbn [map].
      split; [reflexivity|]. split.
      * rewrite after_cons. change (after [] [] []) with (@nil (list Z)).
        now rewrite expand_nil, app_nil_r.
      * cbn [dom]. lia.
    + rewrite py_range_nil by lia. cbn [map last]. lia.
  - destruct cs as [|c' cs]; destruct st as [|s' st]; cbn [dom] in Hd; try contradiction.
    rewrite carry_cons2.
    pose proof (IH (c' :: cs) (s' :: st) ltac:(discriminate) Hd) as HI. unfold next in HI.
    rewrite after_cons.
    destruct (Z_lt_le_dec (s + c) n) as [Hlt|Hge].
    + destruct (s + c >=? n) eqn:E; [lia|].
      rewrite (carry_id (n' :: sh) (c' :: cs) (s' :: st) Hd).
      rewrite (py_range_cons (s + c) n c) by lia. cbn [map app].
      split; [reflexivity|]. split; [now rewrite after_cons|].
      cbn [dom]. cbn [dom] in Hd. repeat split; try lia; apply Hd.
    + destruct (s + c >=? n) eqn:E; [|lia].
      rewrite py_range_nil by lia. cbn [map app].
      destruct (after (n' :: sh) (c' :: cs) (s' :: st)) as [|x' l'] eqn:EA.
      * rewrite expand_nil.
        assert (Hnn : carry (n' :: sh) (c' :: cs) (s' + c' :: st) <> []).
        { intros H0. pose proof (carry_length (n' :: sh) (c' :: cs) (s' + c' :: st)) as HL.
          rewrite H0 in HL. discriminate. }
        rewrite (last_cons_ne _ _ _ Hnn). rewrite last_cons_ne by discriminate. exact HI.
      * destruct HI as (Hx & Ha & Hdx).
        rewrite expand_cons, (py_range_cons 0 n c) by lia. cbn [map app].
        split; [now rewrite Hx|]. split.
        -- rewrite after_cons, Ha. reflexivity.
        -- cbn [dom]. repeat split; try lia. exact Hdx.
Qed.

(* ------------------------------------------------------------------ running the translated loop *)
Lemma loop_run (shape cs : list Z) : shape <> [] ->
  forall (l : list (list Z)) (st : list Z) (out : list (list (Z * Z))) (fuel : nat),
  dom shape cs st -> after shape cs st = l -> (length l < fuel)%nat ->
  iterate_chunks_loop0 fuel shape cs (zlen cs) st out
  = Ok (out ++ map (chunk shape cs) (st :: l)).
Proof.
  intros Hne l. induction l as [|x l IH]; intros st out fuel Hd Ha Hf;
    (destruct fuel as [|fuel]; [cbn [length] in Hf; lia|]);
    destruct (dom_length shape cs st Hd) as [Hlc Hls];
    rewrite loop_unfold, (dom_list_le shape cs st Hne Hd);
    rewrite (body_next_next shape cs st Hlc Hls);
    unfold zlen; rewrite (body_slices_chunk shape cs st (length cs) (eq_sym Hlc) eq_refl (eq_trans Hls (eq_sym Hlc)));
    rewrite !znth_m1;
    pose proof (step_spec shape cs st Hne Hd) as HS; rewrite Ha in HS.
  - destruct (last (next shape cs st) 0 >=? last shape 0) eqn:E; [reflexivity | lia].
  - destruct HS as (Hx & Hax & Hdx). rewrite Hx.
    pose proof (dom_last shape cs x Hne Hdx) as HL.
    destruct (last x 0 >=? last shape 0) eqn:E; [lia|].
    fold (zlen cs). rewrite (IH x (out ++ [chunk shape cs st]) fuel Hdx Hax ltac:(cbn [length] in Hf; lia)).
    rewrite <- app_assoc. reflexivity.
Qed.

(* ------------------------------------------------------------------ [m_chunks] in odometer order *)
Lemma map_chunk_expand (n c : Z) (shape cs : list Z) (L : list (list Z)) :
  map (chunk (n :: shape) (c :: cs)) (expand n c L) =
  flat_map (fun rest => map (fun t => t :: rest) (tiles n c)) (map (chunk shape cs) L).
Proof.
  induction L as [|a L IH]; [reflexivity|].
  rewrite expand_cons, map_app, IH. cbn [map flat_map]. f_equal.
  unfold tiles. rewrite !map_map. apply map_ext. intros b. apply chunk_cons.
Qed.

Definition zeros (cs : list Z) : list Z := repeat 0 (length cs).

Lemma dom_zeros (cs shape : list Z) :
  Forall2 (fun c n => 1 <= c <= n) cs shape -> dom shape cs (zeros cs).
Proof.
  unfold zeros. induction 1 as [|c n cs shape Hcn Hrest IH]; cbn [length repeat dom]; [exact I|].
  repeat split; try lia. exact IH.
Qed.

Lemma from_zeros (cs shape : list Z) :
  Forall2 (fun c n => 1 <= c <= n) cs shape ->
  map (chunk shape cs) (zeros cs :: after shape cs (zeros cs)) = m_chunks shape cs.
Proof.
  unfold zeros. induction 1 as [|c n cs shape Hcn Hrest IH]; [reflexivity|].
  cbn [length repeat]. rewrite after_cons. cbn [m_chunks]. rewrite <- IH.
  rewrite <- map_chunk_expand. f_equal.
  rewrite expand_cons, (py_range_cons 0 n c) by lia. reflexivity.
Qed.

(* ------------------------------------------------------------------ the fuel suffices *)
Lemma length_product {A B} (g : A -> B -> B) (T : list A) (L : list B) :
  length (flat_map (fun rest => map (fun t => g t rest) T) L) = (length T * length L)%nat.
Proof.
  induction L as [|a L IH]; cbn [flat_map length]; [lia|].
  rewrite app_length, map_length, IH. lia.
Qed.

Lemma length_tiles (n c : Z) : 1 <= c <= n -> 1 <= Z.of_nat (length (tiles n c)) <= n.
Proof.
  intros H. unfold tiles, py_range. rewrite !map_length, seq_length.
  destruct (range_len_spec 0 n c ltac:(lia) ltac:(lia)) as [HL Hpos]. rewrite HL in *. nia.
Qed.

Lemma m_chunks_length (cs shape : list Z) :
  Forall2 (fun c n => 1 <= c <= n) cs shape ->
  1 <= Z.of_nat (length (m_chunks shape cs)) <= zprod (map (fun n => Z.max n 1) shape).
Proof.
  induction 1 as [|c n cs shape Hcn Hrest IH]; [cbn; lia|].
  cbn [m_chunks map]. rewrite zprod_cons.
  rewrite (length_product (fun (t : Z * Z) rest => t :: rest)).
  pose proof (length_tiles n c Hcn) as HT. nia.
Qed.

Lemma loop_from_zeros (cs shape : list Z) (fuel : nat) :
  shape <> [] -> Forall2 (fun c n => 1 <= c <= n) cs shape -> (fuel_for shape <= fuel)%nat ->
  iterate_chunks_loop0 fuel shape cs (zlen cs) (repeat 0 (Z.to_nat (zlen cs))) []
  = Ok (m_chunks shape cs).
Proof.
  intros Hne HF Hfuel.
  replace (repeat 0 (Z.to_nat (zlen cs))) with (zeros cs)
    by (unfold zeros, zlen; now rewrite Nat2Z.id).
  rewrite (loop_run shape cs Hne (after shape cs (zeros cs)) (zeros cs) [] fuel
             (dom_zeros cs shape HF) eq_refl).
  - rewrite from_zeros by exact HF. reflexivity.
  - pose proof (m_chunks_length cs shape HF) as HL.
    rewrite <- (from_zeros cs shape HF) in HL. cbn [map length] in HL. rewrite map_length in HL.
    unfold fuel_for in Hfuel. lia.
Qed.

(* ------------------------------------------------------------------ the guards of iterate_chunks *)
Lemma zprod_pos_F2 (cs shape : list Z) :
  Forall2 (fun c n => 1 <= c <= n) cs shape -> 1 <= zprod shape.
Proof.
  induction 1 as [|c n cs shape Hcn Hrest IH]; [rewrite zprod_nil; lia|]. rewrite zprod_cons. nia.
Qed.

Lemma no_oversize (cs shape : list Z) :
  Forall2 (fun c n => 1 <= c <= n) cs shape ->
  existsb (fun xy : Z * Z => let '(x, y) := xy in x >? y) (combine cs shape) = false.
Proof.
  induction 1 as [|c n cs shape Hcn Hrest IH]; [reflexivity|].
  cbn [combine existsb]. rewrite IH. destruct (c >? n) eqn:E; [lia | reflexivity].
Qed.

Lemma F2_length {A B} (R : A -> B -> Prop) (a : list A) (b : list B) :
  Forall2 R a b -> length a = length b.
Proof. induction 1 as [|x y a b Hxy Hab IH]; cbn [length]; [reflexivity | now rewrite IH]. Qed.

Lemma zprod_zero (shape : list Z) : In 0 shape -> zprod shape = 0.
Proof.
  induction shape as [|n shape IH]; intros Hin; [destruct Hin|].
  rewrite zprod_cons. destruct Hin as [->|Hin]; [lia | rewrite (IH Hin); lia].
Qed.

(* ------------------------------------------------------------------ theorems *)

(* fuel monotonicity: every fuel >= fuel_for shape gives the same (complete) answer *)
Theorem iterate_chunks_is_product_fuel : forall (shape cs : list Z) (fuel : nat),
  shape <> [] -> Forall2 (fun c n => 1 <= c <= n) cs shape -> (fuel_for shape <= fuel)%nat ->
  iterate_chunks fuel shape (Some cs) None = Ok (m_chunks shape cs).
Proof.
  intros shape cs fuel Hne HF Hfuel. unfold iterate_chunks.
  pose proof (zprod_pos_F2 cs shape HF) as Hp.
  destruct (zprod shape =? 0) eqn:E0; [lia|].
  assert (HL : zlen cs =? zlen shape = true)
    by (unfold zlen; rewrite (F2_length _ _ _ HF); apply Z.eqb_refl).
  rewrite HL. cbn [negb]. rewrite (no_oversize cs shape HF).
  apply loop_from_zeros; assumption.
Qed.

Theorem iterate_chunks_is_product : forall (shape cs : list Z),
  shape <> [] -> Forall2 (fun c n => 1 <= c <= n) cs shape ->
  iterate_chunks (fuel_for shape) shape (Some cs) None = Ok (m_chunks shape cs).
Proof.
  intros shape cs Hne HF. apply iterate_chunks_is_product_fuel; [assumption | assumption | apply le_n].
Qed.

Theorem iterate_chunks_nmax_is_product_fuel : forall (shape : list Z) (n_max : Z) (fuel : nat),
  shape <> [] -> 1 <= n_max -> Forall (fun n => 1 <= n) shape -> (fuel_for shape <= fuel)%nat ->
  iterate_chunks fuel shape None (Some n_max)
  = Ok (m_chunks shape (find_chunk_shape shape (Some n_max))).
Proof.
  intros shape n_max fuel Hne Hn Hs Hfuel.
  destruct (chunk_shape_bound shape n_max Hn Hs) as (_ & HF & _).
  unfold iterate_chunks.
  pose proof (zprod_pos_F2 _ shape HF) as Hp.
  destruct (zprod shape =? 0) eqn:E0; [lia|].
  apply loop_from_zeros; assumption.
Qed.

Theorem iterate_chunks_nmax_is_product : forall (shape : list Z) (n_max : Z),
  shape <> [] -> 1 <= n_max -> Forall (fun n => 1 <= n) shape ->
  iterate_chunks (fuel_for shape) shape None (Some n_max)
  = Ok (m_chunks shape (find_chunk_shape shape (Some n_max))).
Proof.
  intros shape n_max Hne Hn Hs.
  apply iterate_chunks_nmax_is_product_fuel; [assumption | assumption | assumption | apply le_n].
Qed.

Theorem iterate_chunks_empty : forall shape cs nm, In 0 shape -> Forall (fun n => 0 <= n) shape ->
  forall fuel, iterate_chunks fuel shape cs nm = Ok [].
Proof.
  intros shape cs nm Hin _ fuel. unfold iterate_chunks.
  rewrite (zprod_zero shape Hin). cbn [Z.eqb].
  destruct cs; destruct nm; reflexivity.
Qed.

Print Assumptions iterate_chunks_is_product_fuel.
Print Assumptions iterate_chunks_is_product.
Print Assumptions iterate_chunks_nmax_is_product_fuel.
Print Assumptions iterate_chunks_nmax_is_product.
Print Assumptions iterate_chunks_empty.
