From Coq Require Import ZArith List Bool.
From GV Require Import C20.Lemmas.
Theorem placeholder : True. Proof. exact Lemmas.placeholder. Qed.
Print Assumptions placeholder.
