(* C20 — chunk, slice and broadcast helpers are exact.  Statements only; proofs in Lemmas.v.
   find_chunk_shape / iterate_chunks / combine_slices below are the Gallina text REGENERATED from
   /repo/glue/utils/array.py on every run (coq/gen/Gen_array.v). *)
From Coq Require Import ZArith List Bool Sorting.Sorted.
Import ListNotations.
From GV Require Import Common.PyInt gen.Gen_array C20.Model C20.Lemmas C20.Lemmas2 C20.OdometerProof C20.Final C20.CombineProof C20.ViewShape.
Open Scope Z_scope.

(* no chunk larger than the requested limit; chunk shape fits the array shape (translated code) *)
Theorem chunk_shape_bound : forall (shape : list Z) (n_max : Z),
  1 <= n_max -> Forall (fun s => 1 <= s) shape ->
  let c := find_chunk_shape shape (Some n_max) in
  length c = length shape /\ Forall2 (fun ci si => 1 <= ci <= si) c shape /\ 1 <= zprod c <= n_max.
Proof. exact Lemmas.chunk_shape_bound. Qed.
Print Assumptions chunk_shape_bound.

(* the translated loop is the reference recursion *)
Theorem find_chunk_shape_is_model : forall shape n,
  find_chunk_shape shape (Some n) = m_find_chunk_shape shape n.
Proof. exact Lemmas.gen_find_chunk_shape_eq. Qed.
Print Assumptions find_chunk_shape_is_model.

(* iterating in chunks visits every element exactly once (reference chunk list m_chunks = product of per-axis tilings) *)
Theorem chunks_partition : forall shape cs idx,
  Forall (fun c => 1 <= c) cs -> length cs = length shape ->
  Forall2 (fun x n => 0 <= x < n) idx shape ->
  count (in_chunk idx) (m_chunks shape cs) = 1%nat.
Proof. exact Lemmas.m_chunks_partition. Qed.
Print Assumptions chunks_partition.

(* every chunk is a non-empty box inside the array, no larger than the chunk shape *)
Theorem chunks_wellformed : forall shape cs,
  Forall (fun c => 1 <= c) cs -> Forall (fun n => 0 <= n) shape -> length cs = length shape ->
  Forall (fun ch => Forall2 (fun t n => 0 <= fst t /\ fst t < snd t /\ snd t <= n) ch shape /\
                    1 <= chunk_size ch <= zprod cs) (m_chunks shape cs).
Proof. exact Lemmas.m_chunks_wf. Qed.
Print Assumptions chunks_wellformed.

Theorem chunks_empty_shape : forall shape cs,
  length cs = length shape -> In 0 shape -> m_chunks shape cs = [].
Proof. exact Lemmas.m_chunks_empty. Qed.
Print Assumptions chunks_empty_shape.

(* categorical arrays: sorted unique categories, categories[codes] == values *)
Theorem categorical_spec : forall vals : list Z,
  StronglySorted Z.lt (categories vals) /\
  (forall y, In y (categories vals) <-> In y vals) /\
  Forall (fun c => 0 <= c < zlen (categories vals)) (codes vals) /\
  map (znth (categories vals)) (codes vals) = vals.
Proof. exact Lemmas.categorical_spec. Qed.
Print Assumptions categorical_spec.

Theorem slice_indices_bounds : forall s n b e k,
  0 <= n -> slice_indices s n = Some (b, e, k) -> 0 < k -> 0 <= b <= n /\ 0 <= e <= n.
Proof. exact Lemmas.slice_indices_bounds. Qed.
Print Assumptions slice_indices_bounds.

(* ---- the translated generator itself (odometer loop) ---- *)

(* the translated while-loop yields exactly the reference chunk list, in order *)
Theorem iterate_chunks_is_product : forall (shape cs : list Z),
  shape <> [] -> Forall2 (fun c n => 1 <= c <= n) cs shape ->
  iterate_chunks (fuel_for shape) shape (Some cs) None = Ok (m_chunks shape cs).
Proof. exact OdometerProof.iterate_chunks_is_product. Qed.
Print Assumptions iterate_chunks_is_product.

Theorem iterate_chunks_fuel_irrelevant : forall (shape cs : list Z) (fuel : nat),
  shape <> [] -> Forall2 (fun c n => 1 <= c <= n) cs shape -> (fuel_for shape <= fuel)%nat ->
  iterate_chunks fuel shape (Some cs) None = Ok (m_chunks shape cs).
Proof. exact OdometerProof.iterate_chunks_is_product_fuel. Qed.
Print Assumptions iterate_chunks_fuel_irrelevant.

Theorem iterate_chunks_empty : forall shape cs nm, In 0 shape -> Forall (fun n => 0 <= n) shape ->
  forall fuel, iterate_chunks fuel shape cs nm = Ok [].
Proof. exact OdometerProof.iterate_chunks_empty. Qed.
Print Assumptions iterate_chunks_empty.

(* C20, first sentence, on the translated code: with a limit n_max, every element is visited exactly once,
   every chunk is a non-empty box inside the array and no chunk is larger than the limit *)
Theorem iterate_chunks_nmax_visits_once : forall (shape : list Z) (n_max : Z),
  shape <> [] -> 1 <= n_max -> Forall (fun n => 1 <= n) shape ->
  exists chunks, iterate_chunks (fuel_for shape) shape None (Some n_max) = Ok chunks /\
    (forall idx, Forall2 (fun x n => 0 <= x < n) idx shape -> count (in_chunk idx) chunks = 1%nat) /\
    Forall (fun ch => Forall2 (fun t n => 0 <= fst t /\ fst t < snd t /\ snd t <= n) ch shape /\
                      1 <= chunk_size ch <= n_max) chunks.
Proof. exact Final.iterate_chunks_nmax_visits_once. Qed.
Print Assumptions iterate_chunks_nmax_visits_once.

Theorem iterate_chunks_shape_visits_once : forall (shape cs : list Z),
  shape <> [] -> Forall2 (fun c n => 1 <= c <= n) cs shape ->
  exists chunks, iterate_chunks (fuel_for shape) shape (Some cs) None = Ok chunks /\
    (forall idx, Forall2 (fun x n => 0 <= x < n) idx shape -> count (in_chunk idx) chunks = 1%nat) /\
    Forall (fun ch => Forall2 (fun t n => 0 <= fst t /\ fst t < snd t /\ snd t <= n) ch shape /\
                      1 <= chunk_size ch <= zprod cs) chunks.
Proof. exact Final.iterate_chunks_shape_visits_once. Qed.
Print Assumptions iterate_chunks_shape_visits_once.

(* removing broadcast dimensions and broadcasting back reproduces the array (hand model of stride-0 axes) *)
Theorem unbroadcast_roundtrip : forall (shape : list Z) (flags : list bool) (f : list Z -> Z),
  length flags = length shape -> Forall (fun n => 0 <= n) shape ->
  (forall idx, f idx = f (collapse flags idx)) ->
  broadcast_back shape flags (map f (all_indices (unbroadcast_shape shape flags))) = map f (all_indices shape).
Proof. exact Lemmas2.unbroadcast_roundtrip. Qed.
Print Assumptions unbroadcast_roundtrip.

(* C20, second sentence, on the translated combine_slices: applying the combined slice to the view selected by
   slice1 yields exactly those elements of the view that slice2 also selects, in order -- i.e. the combined slice
   lists precisely the positions, within the view, of the elements chosen by both. *)
Theorem combine_slices_exact : forall (s1 s2 : slice) (n : Z),
  0 <= n -> pos_step s1 -> pos_step s2 ->
  exists a b c, combine_slices s1 s2 n = Ok (a, b, c) /\
    map (znth (slice_elems s1 n)) (slice_elems (mk_slice3 (a, b, c)) (zlen (slice_elems s1 n)))
    = filter (fun x => existsb (Z.eqb x) (slice_elems s2 n)) (slice_elems s1 n).
Proof. exact CombineProof.combine_slices_exact. Qed.
Print Assumptions combine_slices_exact.

Theorem combine_slices_negative : forall (s1 s2 : slice) (n : Z),
  (exists k, sl_step s1 = Some k /\ k < 0) \/ (exists k, sl_step s2 = Some k /\ k < 0) ->
  combine_slices s1 s2 n = Err ValueError.
Proof. exact CombineProof.combine_slices_negative. Qed.
Print Assumptions combine_slices_negative.

(* the predicted shape of a basic-indexing view equals the real one: per kept axis, the length of the list of
   positions the view really selects (integers drop the axis, out-of-range integers are IndexError) *)
Theorem view_shape_correct : forall (shape : list Z) (view : list ventry),
  Forall (fun n => 0 <= n) shape ->
  view_shape shape view = option_map (map zlen) (view_sel shape view).
Proof. exact ViewShape.view_shape_correct. Qed.
Print Assumptions view_shape_correct.
