(* C20 — chunk, slice and broadcast helpers are exact.  Statements only; proofs in Lemmas.v.
   find_chunk_shape / iterate_chunks / combine_slices below are the Gallina text REGENERATED from
   /repo/glue/utils/array.py on every run (coq/gen/Gen_array.v). *)
From Coq Require Import ZArith List Bool Sorting.Sorted.
Import ListNotations.
From GV Require Import Common.PyInt gen.Gen_array C20.Model C20.Lemmas.
Open Scope Z_scope.

(* no chunk larger than the requested limit; chunk shape fits the array shape (translated code) *)
Theorem chunk_shape_bound : forall (shape : list Z) (n_max : Z),
  1 <= n_max -> Forall (fun s => 1 <= s) shape ->
  let c := find_chunk_shape shape (Some n_max) in
  length c = length shape /\ Forall2 (fun ci si => 1 <= ci <= si) c shape /\ 1 <= zprod c <= n_max.
Proof. exact Lemmas.chunk_shape_bound. Qed.
Print Assumptions chunk_shape_bound.

(* the translated loop is the reference recursion *)
Theorem find_chunk_shape_is_model : forall shape n,
  find_chunk_shape shape (Some n) = m_find_chunk_shape shape n.
Proof. exact Lemmas.gen_find_chunk_shape_eq. Qed.
Print Assumptions find_chunk_shape_is_model.

(* iterating in chunks visits every element exactly once (reference chunk list m_chunks = product of per-axis tilings) *)
Theorem chunks_partition : forall shape cs idx,
  Forall (fun c => 1 <= c) cs -> length cs = length shape ->
  Forall2 (fun x n => 0 <= x < n) idx shape ->
  count (in_chunk idx) (m_chunks shape cs) = 1%nat.
Proof. exact Lemmas.m_chunks_partition. Qed.
Print Assumptions chunks_partition.

(* every chunk is a non-empty box inside the array, no larger than the chunk shape *)
Theorem chunks_wellformed : forall shape cs,
  Forall (fun c => 1 <= c) cs -> Forall (fun n => 0 <= n) shape -> length cs = length shape ->
  Forall (fun ch => Forall2 (fun t n => 0 <= fst t /\ fst t < snd t /\ snd t <= n) ch shape /\
                    1 <= chunk_size ch <= zprod cs) (m_chunks shape cs).
Proof. exact Lemmas.m_chunks_wf. Qed.
Print Assumptions chunks_wellformed.

Theorem chunks_empty_shape : forall shape cs,
  length cs = length shape -> In 0 shape -> m_chunks shape cs = [].
Proof. exact Lemmas.m_chunks_empty. Qed.
Print Assumptions chunks_empty_shape.

(* categorical arrays: sorted unique categories, categories[codes] == values *)
Theorem categorical_spec : forall vals : list Z,
  StronglySorted Z.lt (categories vals) /\
  (forall y, In y (categories vals) <-> In y vals) /\
  Forall (fun c => 0 <= c < zlen (categories vals)) (codes vals) /\
  map (znth (categories vals)) (codes vals) = vals.
Proof. exact Lemmas.categorical_spec. Qed.
Print Assumptions categorical_spec.

Theorem slice_indices_bounds : forall s n b e k,
  0 <= n -> slice_indices s n = Some (b, e, k) -> 0 < k -> 0 <= b <= n /\ 0 <= e <= n.
Proof. exact Lemmas.slice_indices_bounds. Qed.
Print Assumptions slice_indices_bounds.
