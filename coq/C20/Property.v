(* C20 — chunk, slice and broadcast helpers are exact.  Statements only; proofs in Lemmas.v.
   find_chunk_shape / iterate_chunks / combine_slices below are the Gallina text REGENERATED from
   /repo/glue/utils/array.py on every run (coq/gen/Gen_array.v). *)
From Coq Require Import ZArith List Bool Sorting.Sorted.
Import ListNotations.
From GV Require Import Common.PyInt gen.Gen_array C20.Model C20.Lemmas C20.Lemmas2 C20.OdometerProof C20.Final C20.CombineProof C20.ViewShape.
From GV Require Import gen.Gen_arraypure C20.Purity C20.ViewKinds C20.CatObjects.
Open Scope Z_scope.

(* no chunk larger than the requested limit; chunk shape fits the array shape (translated code) *)
Theorem chunk_shape_bound : forall (shape : list Z) (n_max : Z),
  1 <= n_max -> Forall (fun s => 1 <= s) shape ->
  let c := find_chunk_shape shape (Some n_max) in
  length c = length shape /\ Forall2 (fun ci si => 1 <= ci <= si) c shape /\ 1 <= zprod c <= n_max.
Proof. exact Lemmas.chunk_shape_bound. Qed.
Print Assumptions chunk_shape_bound.

(* the translated loop is the reference recursion *)
Theorem find_chunk_shape_is_model : forall shape n,
  find_chunk_shape shape (Some n) = m_find_chunk_shape shape n.
Proof. exact Lemmas.gen_find_chunk_shape_eq. Qed.
Print Assumptions find_chunk_shape_is_model.

(* iterating in chunks visits every element exactly once (reference chunk list m_chunks = product of per-axis tilings) *)
Theorem chunks_partition : forall shape cs idx,
  Forall (fun c => 1 <= c) cs -> length cs = length shape ->
  Forall2 (fun x n => 0 <= x < n) idx shape ->
  count (in_chunk idx) (m_chunks shape cs) = 1%nat.
Proof. exact Lemmas.m_chunks_partition. Qed.
Print Assumptions chunks_partition.

(* every chunk is a non-empty box inside the array, no larger than the chunk shape *)
Theorem chunks_wellformed : forall shape cs,
  Forall (fun c => 1 <= c) cs -> Forall (fun n => 0 <= n) shape -> length cs = length shape ->
  Forall (fun ch => Forall2 (fun t n => 0 <= fst t /\ fst t < snd t /\ snd t <= n) ch shape /\
                    1 <= chunk_size ch <= zprod cs) (m_chunks shape cs).
Proof. exact Lemmas.m_chunks_wf. Qed.
Print Assumptions chunks_wellformed.

Theorem chunks_empty_shape : forall shape cs,
  length cs = length shape -> In 0 shape -> m_chunks shape cs = [].
Proof. exact Lemmas.m_chunks_empty. Qed.
Print Assumptions chunks_empty_shape.

(* categorical arrays: sorted unique categories, categories[codes] == values *)
Theorem categorical_spec : forall vals : list Z,
  StronglySorted Z.lt (categories vals) /\
  (forall y, In y (categories vals) <-> In y vals) /\
  Forall (fun c => 0 <= c < zlen (categories vals)) (codes vals) /\
  map (znth (categories vals)) (codes vals) = vals.
Proof. exact Lemmas.categorical_spec. Qed.
Print Assumptions categorical_spec.

Theorem slice_indices_bounds : forall s n b e k,
  0 <= n -> slice_indices s n = Some (b, e, k) -> 0 < k -> 0 <= b <= n /\ 0 <= e <= n.
Proof. exact Lemmas.slice_indices_bounds. Qed.
Print Assumptions slice_indices_bounds.

(* ---- the translated generator itself (odometer loop) ---- *)

(* the translated while-loop yields exactly the reference chunk list, in order *)
Theorem iterate_chunks_is_product : forall (shape cs : list Z),
  shape <> [] -> Forall2 (fun c n => 1 <= c <= n) cs shape ->
  iterate_chunks (fuel_for shape) shape (Some cs) None = Ok (m_chunks shape cs).
Proof. exact OdometerProof.iterate_chunks_is_product. Qed.
Print Assumptions iterate_chunks_is_product.

Theorem iterate_chunks_fuel_irrelevant : forall (shape cs : list Z) (fuel : nat),
  shape <> [] -> Forall2 (fun c n => 1 <= c <= n) cs shape -> (fuel_for shape <= fuel)%nat ->
  iterate_chunks fuel shape (Some cs) None = Ok (m_chunks shape cs).
Proof. exact OdometerProof.iterate_chunks_is_product_fuel. Qed.
Print Assumptions iterate_chunks_fuel_irrelevant.

Theorem iterate_chunks_empty : forall shape cs nm, In 0 shape -> Forall (fun n => 0 <= n) shape ->
  forall fuel, iterate_chunks fuel shape cs nm = Ok [].
Proof. exact OdometerProof.iterate_chunks_empty. Qed.
Print Assumptions iterate_chunks_empty.

(* C20, first sentence, on the translated code: with a limit n_max, every element is visited exactly once,
   every chunk is a non-empty box inside the array and no chunk is larger than the limit *)
Theorem iterate_chunks_nmax_visits_once : forall (shape : list Z) (n_max : Z),
  shape <> [] -> 1 <= n_max -> Forall (fun n => 1 <= n) shape ->
  exists chunks, iterate_chunks (fuel_for shape) shape None (Some n_max) = Ok chunks /\
    (forall idx, Forall2 (fun x n => 0 <= x < n) idx shape -> count (in_chunk idx) chunks = 1%nat) /\
    Forall (fun ch => Forall2 (fun t n => 0 <= fst t /\ fst t < snd t /\ snd t <= n) ch shape /\
                      1 <= chunk_size ch <= n_max) chunks.
Proof. exact Final.iterate_chunks_nmax_visits_once. Qed.
Print Assumptions iterate_chunks_nmax_visits_once.

Theorem iterate_chunks_shape_visits_once : forall (shape cs : list Z),
  shape <> [] -> Forall2 (fun c n => 1 <= c <= n) cs shape ->
  exists chunks, iterate_chunks (fuel_for shape) shape (Some cs) None = Ok chunks /\
    (forall idx, Forall2 (fun x n => 0 <= x < n) idx shape -> count (in_chunk idx) chunks = 1%nat) /\
    Forall (fun ch => Forall2 (fun t n => 0 <= fst t /\ fst t < snd t /\ snd t <= n) ch shape /\
                      1 <= chunk_size ch <= zprod cs) chunks.
Proof. exact Final.iterate_chunks_shape_visits_once. Qed.
Print Assumptions iterate_chunks_shape_visits_once.

(* removing broadcast dimensions and broadcasting back reproduces the array (hand model of stride-0 axes) *)
Theorem unbroadcast_roundtrip : forall (shape : list Z) (flags : list bool) (f : list Z -> Z),
  length flags = length shape -> Forall (fun n => 0 <= n) shape ->
  (forall idx, f idx = f (collapse flags idx)) ->
  broadcast_back shape flags (map f (all_indices (unbroadcast_shape shape flags))) = map f (all_indices shape).
Proof. exact Lemmas2.unbroadcast_roundtrip. Qed.
Print Assumptions unbroadcast_roundtrip.

(* C20, second sentence, on the translated combine_slices: applying the combined slice to the view selected by
   slice1 yields exactly those elements of the view that slice2 also selects, in order -- i.e. the combined slice
   lists precisely the positions, within the view, of the elements chosen by both. *)
Theorem combine_slices_exact : forall (s1 s2 : slice) (n : Z),
  0 <= n -> pos_step s1 -> pos_step s2 ->
  exists a b c, combine_slices s1 s2 n = Ok (a, b, c) /\
    map (znth (slice_elems s1 n)) (slice_elems (mk_slice3 (a, b, c)) (zlen (slice_elems s1 n)))
    = filter (fun x => existsb (Z.eqb x) (slice_elems s2 n)) (slice_elems s1 n).
Proof. exact CombineProof.combine_slices_exact. Qed.
Print Assumptions combine_slices_exact.

Theorem combine_slices_negative : forall (s1 s2 : slice) (n : Z),
  (exists k, sl_step s1 = Some k /\ k < 0) \/ (exists k, sl_step s2 = Some k /\ k < 0) ->
  combine_slices s1 s2 n = Err ValueError.
Proof. exact CombineProof.combine_slices_negative. Qed.
Print Assumptions combine_slices_negative.

(* the predicted shape of a basic-indexing view equals the real one: per kept axis, the length of the list of
   positions the view really selects (integers drop the axis, out-of-range integers are IndexError) *)
Theorem view_shape_correct : forall (shape : list Z) (view : list ventry),
  Forall (fun n => 0 <= n) shape ->
  view_shape shape view = option_map (map zlen) (view_sel shape view).
Proof. exact ViewShape.view_shape_correct. Qed.
Print Assumptions view_shape_correct.

(* ================= round 4: the helpers are exact in every call history (purity) ================= *)

(* read off the SOURCE of glue/utils/array.py (table regenerated on every run): no helper named by the property carries
   a decorator other than @property / @categories.setter on the categorical accessors (so: no cache decorator), none is
   re-bound at module level, declares a global, writes or reads a module-level variable, uses a function attribute as
   state, or has a default value shared between calls *)
Theorem helpers_stateless : forall r : fn_row, In r helper_table ->
  (forall d, In d (r_decos r) -> deco_ok (r_name r) d = true) /\
  r_rebound r = false /\ r_globals r = [] /\ r_module_writes r = [] /\ r_module_reads r = [] /\
  r_func_attrs r = [] /\ r_mutable_defaults r = [].
Proof. exact Purity.helpers_stateless. Qed.
Print Assumptions helpers_stateless.

(* what a helper hands back unchanged, changes on an argument, or keeps of an argument is on the explicit allow-lists of
   coq/C20/Purity.v (view_shape returns `shape` for view None; unbroadcast returns a 0-d array as it is; the categorical
   object's own lazily computed caches) *)
Theorem helpers_alias_allowlist : forall r : fn_row, In r helper_table ->
  (forall p, In p (r_returns_param r) -> In p (allowed_for allowed_returns (r_name r))) /\
  (forall w, In w (r_attr_writes r) -> In w (allowed_for allowed_arg_writes (r_name r))) /\
  (forall w, In w (r_param_stored r) -> In w (allowed_for allowed_param_stored (r_name r))).
Proof. exact Purity.helpers_alias_allowlist. Qed.
Print Assumptions helpers_alias_allowlist.

(* the table covers every anchor, is closed under "refers to", and no class attribute is a shared mutable value *)
Theorem helper_table_closed :
  (forall a, In a anchors -> In a table_names) /\
  (forall r, In r helper_table -> forall c, In c (r_calls r) -> In c table_names \/ c = class_name) /\
  (forall c n m, In (c, n, m) class_attrs_gen -> m = false).
Proof. exact Purity.helper_table_closed. Qed.
Print Assumptions helper_table_closed.

(* the TRANSLATED view_shape (two lines around the numpy operation) on int / slice views: the per-axis lengths of the
   positions really selected *)
Theorem view_shape_full_basic : forall (shape : list Z) (v : list ventry),
  Forall (fun n => 0 <= n) shape ->
  view_shape_full shape (Some (map ventry_item v)) = option_map (map zlen) (view_sel shape v).
Proof. exact ViewKinds.view_shape_full_basic. Qed.
Print Assumptions view_shape_full_basic.

(* view_shape is a function of the view as numpy reads it: index items of the same kind and value ... *)
Theorem view_shape_reads_kinds : forall (shape : list Z) (v w : list vitem),
  np_eq_view v w = true -> view_shape_full shape (Some v) = view_shape_full shape (Some w).
Proof. exact ViewKinds.view_shape_reads_kinds. Qed.
Print Assumptions view_shape_reads_kinds.

(* ... and NO function that identifies views equal for Python (1 == True, 0 == False) computes it: x[1] drops an axis,
   x[True] adds one *)
Theorem view_shape_python_equality_refuted :
  ~ exists f : list Z -> list vitem -> option (list Z),
      (forall sh v w, py_eq_view v w = true -> f sh v = f sh w) /\
      (forall sh v, f sh v = view_shape_full sh (Some v)).
Proof. exact ViewKinds.view_shape_python_equality_refuted. Qed.
Print Assumptions view_shape_python_equality_refuted.

(* call histories: a view_shape that remembers earlier calls is exact in EVERY history provided its key equality only
   identifies views numpy reads alike ... *)
Theorem memoised_view_shape_exact : forall keq : list vitem -> list vitem -> bool,
  (forall v w, keq v w = true -> forall sh, np_index_shape sh v = np_index_shape sh w) ->
  forall calls, run_cached keq [] calls = map (fun c => np_index_shape (fst c) (snd c)) calls.
Proof. exact ViewKinds.memoised_view_shape_exact. Qed.
Print Assumptions memoised_view_shape_exact.

(* ... and with Python equality as the key there is a history in which a call returns an earlier call's shape *)
Theorem memoised_view_shape_python_key_refuted :
  exists calls, run_cached py_eq_view [] calls <> map (fun c => np_index_shape (fst c) (snd c)) calls.
Proof. exact ViewKinds.memoised_view_shape_python_key_refuted. Qed.
Print Assumptions memoised_view_shape_python_key_refuted.

(* categorical arrays as objects: after ANY history of constructions, re-wrappings (copy or not, categories given or
   not), views / slices and reads of .codes / .categories, every object satisfies categories[codes] == values *)
Theorem cat_history_consistent : forall ops : list cop,
  let h := fst (crun empty_heap ops) in
  Forall (fun o => obs_codes h o = lookup_codes (obs_cats h o) (obj_values h o)) (h_objs h).
Proof. exact CatObjects.cat_history_consistent. Qed.
Print Assumptions cat_history_consistent.

(* ... and no call changes what an earlier object shows (values, categories, codes) *)
Theorem cat_history_pure : forall (ops : list cop) (op : cop),
  let h := fst (crun empty_heap ops) in
  let h' := fst (cstep h op) in
  forall j, (j < length (h_objs h))%nat -> obs3 h' (get_obj h' j) = obs3 h (get_obj h j).
Proof. exact CatObjects.cat_history_pure. Qed.
Print Assumptions cat_history_pure.

(* re-wrapping with explicit categories yields a NEW object (next index) with the requested categories and the source's
   values, on the SAME data buffer when copy=False and on a fresh one when copy=True *)
Theorem rewrap_new_object : forall (ops : list cop) (src : nat) (copy : bool) (cats : list Z),
  let h := fst (crun empty_heap ops) in
  (src < length (h_objs h))%nat ->
  let '(h', r) := cstep h (CRewrap src copy (Some cats)) in
  let n := length (h_objs h) in
  r = RObj n /\ length (h_objs h') = S n /\
  obs_cats h' (get_obj h' n) = cats /\
  obj_values h' (get_obj h' n) = obj_values h (get_obj h src) /\
  (copy = false -> o_buf (get_obj h' n) = o_buf (get_obj h src)) /\
  (copy = true -> o_buf (get_obj h' n) = length (h_bufs h)).
Proof. exact CatObjects.rewrap_new_object. Qed.
Print Assumptions rewrap_new_object.

(* handing the argument itself back and assigning the categories to it (no new view) changes the original's categories
   and leaves its cached codes stale *)
Theorem rewrap_alias_refuted :
  exists ops src cats,
    let h := fst (crun empty_heap ops) in
    let h' := rewrap_alias h src cats in
    obs_cats h' (get_obj h' src) <> obs_cats h (get_obj h src) /\
    obs_codes h' (get_obj h' src) <> lookup_codes (obs_cats h' (get_obj h' src)) (obj_values h' (get_obj h' src)).
Proof. exact CatObjects.rewrap_alias_refuted. Qed.
Print Assumptions rewrap_alias_refuted.
