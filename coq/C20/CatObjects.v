(* C20 — categorical arrays as objects: every history of constructions, re-wrappings (copy or not, with or without
   explicit categories), views / slices and reads of .codes / .categories keeps every object consistent
   (codes = positions of the values in the object's categories) and never changes what an EARLIER object shows. *)
From Coq Require Import ZArith List Bool Lia PeanoNat.
Import ListNotations.
From GV Require Import Common.PyInt gen.Gen_array gen.Gen_arraypure C20.Model.
Open Scope Z_scope.

Definition obs3 (h : cheap) (o : cobj) : list Z * list Z * list Z := (obj_values h o, obs_cats h o, obs_codes h o).

(* cached codes, when present, are the codes of the stored categories; the buffer exists *)
Definition obj_ok (h : cheap) (o : cobj) : Prop :=
  (o_buf o < length (h_bufs h))%nat /\
  match o_codes o with
  | Some c => exists cs, o_cats o = Some cs /\ c = lookup_codes cs (obj_values h o)
  | None => True
  end.
Definition heap_ok (h : cheap) : Prop := Forall (obj_ok h) (h_objs h).

Lemma obj_values_ext h h' o : h_bufs h = h_bufs h' -> obj_values h o = obj_values h' o.
Proof. unfold obj_values. intros ->. reflexivity. Qed.

Lemma obs3_ext h h' o : h_bufs h = h_bufs h' -> obs3 h o = obs3 h' o.
Proof.
  intros E. unfold obs3, obs_codes, obs_cats. now rewrite (obj_values_ext h h' o E).
Qed.

Lemma obj_ok_ext h h' o : h_bufs h = h_bufs h' -> obj_ok h o -> obj_ok h' o.
Proof.
  unfold obj_ok. intros E [Hb Hc]. rewrite <- E. split; [exact Hb|].
  destruct (o_codes o); [|exact I]. destruct Hc as [cs [H1 H2]]. exists cs. split; [exact H1|].
  now rewrite <- (obj_values_ext h h' o E).
Qed.

Lemma obj_values_app h h' extra o :
  h_bufs h' = h_bufs h ++ extra -> (o_buf o < length (h_bufs h))%nat -> obj_values h' o = obj_values h o.
Proof. intros E Hb. unfold obj_values. rewrite E. now rewrite app_nth1. Qed.

Lemma obs3_app h h' extra o :
  h_bufs h' = h_bufs h ++ extra -> (o_buf o < length (h_bufs h))%nat -> obs3 h' o = obs3 h o.
Proof.
  intros E Hb. unfold obs3, obs_codes, obs_cats. now rewrite (obj_values_app h h' extra o E Hb).
Qed.

Lemma obj_ok_app h h' extra o : h_bufs h' = h_bufs h ++ extra -> obj_ok h o -> obj_ok h' o.
Proof.
  unfold obj_ok. intros E [Hb Hc]. split; [rewrite E, app_length; lia|].
  destruct (o_codes o); [|exact I]. destruct Hc as [cs [H1 H2]]. exists cs. split; [exact H1|].
  now rewrite (obj_values_app h h' extra o E Hb).
Qed.

(* categories[codes] == values, in the model's terms *)
Lemma obj_ok_consistent h o : obj_ok h o -> obs_codes h o = lookup_codes (obs_cats h o) (obj_values h o).
Proof.
  intros [_ Hc]. unfold obs_codes, obs_cats. destruct (o_codes o) as [c|]; [|reflexivity].
  destruct Hc as [cs [H1 H2]]. now rewrite H1.
Qed.

(* ---- _update_categories_and_codes changes nothing a caller can see ---- *)
Lemma update_obj_values h o : obj_values h (update_obj h o) = obj_values h o.
Proof. unfold update_obj. destruct (o_cats o); reflexivity. Qed.

Lemma update_obj_obs3 h o :
  obj_ok h o -> o_cats o = None \/ o_codes o = None -> obs3 h (update_obj h o) = obs3 h o.
Proof.
  intros [_ Hc] Hneed.
  assert (Hcodes : o_codes o = None).
  { destruct Hneed as [Hn|Hn]; [|exact Hn]. destruct (o_codes o); [|reflexivity].
    destruct Hc as [cs [H1 _]]. congruence. }
  unfold obs3. rewrite update_obj_values. unfold obs_codes, obs_cats. rewrite update_obj_values, Hcodes.
  unfold update_obj. destruct (o_cats o) as [c|]; cbn [o_cats o_codes]; reflexivity.
Qed.

Lemma update_obj_ok h o : (o_buf o < length (h_bufs h))%nat -> obj_ok h (update_obj h o).
Proof.
  intros Hb. unfold obj_ok. rewrite update_obj_values.
  unfold update_obj. destruct (o_cats o) as [c|]; cbn [o_buf o_cats o_codes]; (split; [exact Hb|]).
  - exists c. split; reflexivity.
  - exists (categories (obj_values h o)). split; reflexivity.
Qed.

(* ---- lists ---- *)
Lemma set_nth_length {A} (x : A) (l : list A) : forall i, length (set_nth i x l) = length l.
Proof. induction l as [|y l IH]; intros [|i]; cbn; try reflexivity. now rewrite IH. Qed.

Lemma nth_set_nth_same {A} (x d : A) (l : list A) : forall i, (i < length l)%nat -> nth i (set_nth i x l) d = x.
Proof.
  induction l as [|y l IH]; intros [|i] Hi; cbn in *; try lia; [reflexivity|]. apply IH. lia.
Qed.

Lemma nth_set_nth_other {A} (x d : A) (l : list A) : forall i j, i <> j -> nth j (set_nth i x l) d = nth j l d.
Proof.
  induction l as [|y l IH]; intros [|i] [|j] Hij; cbn; try reflexivity; try congruence. apply IH. congruence.
Qed.

Lemma Forall_set_nth {A} (P : A -> Prop) (x : A) (l : list A) :
  Forall P l -> P x -> forall i, Forall P (set_nth i x l).
Proof.
  intros Hl Hx. induction Hl as [|y l Hy Hl IH]; intros [|i]; cbn; constructor; auto.
Qed.

Lemma Forall_nth_default {A} (P : A -> Prop) (l : list A) (d : A) i : Forall P l -> (i < length l)%nat -> P (nth i l d).
Proof. intros H Hi. rewrite Forall_forall in H. apply H, nth_In, Hi. Qed.

(* ---- the frame of one step: the heap stays well-formed and every earlier object shows what it showed ---- *)
Definition frame (h h' : cheap) : Prop :=
  heap_ok h' /\ (length (h_objs h) <= length (h_objs h'))%nat /\
  forall j, (j < length (h_objs h))%nat -> obs3 h' (get_obj h' j) = obs3 h (get_obj h j).

Lemma frame_refl h : heap_ok h -> frame h h.
Proof. intros H. repeat split; auto. Qed.

Lemma frame_trans h1 h2 h3 : frame h1 h2 -> frame h2 h3 -> frame h1 h3.
Proof.
  intros (H2ok & Hl12 & Ho12) (H3ok & Hl23 & Ho23). repeat split; [exact H3ok | lia |].
  intros j Hj. rewrite Ho23 by lia. now apply Ho12.
Qed.

Lemma update_frame h i :
  heap_ok h -> (i < length (h_objs h))%nat ->
  o_cats (get_obj h i) = None \/ o_codes (get_obj h i) = None ->
  let h' := set_obj h i (update_obj h (get_obj h i)) in
  frame h h' /\ h_bufs h' = h_bufs h /\ length (h_objs h') = length (h_objs h).
Proof.
  intros Hok Hi Hneed h'.
  assert (Hoi : obj_ok h (get_obj h i)) by (unfold get_obj; apply Forall_nth_default; assumption).
  assert (Hb : h_bufs h' = h_bufs h) by reflexivity.
  assert (Hlen : length (h_objs h') = length (h_objs h)) by (unfold h', set_obj; cbn [h_objs]; apply set_nth_length).
  split; [|split; assumption]. repeat split.
  - unfold heap_ok, h', set_obj. cbn [h_objs]. apply Forall_set_nth.
    + eapply Forall_impl; [|exact Hok]. intros o Ho. eapply obj_ok_ext; [|exact Ho]. reflexivity.
    + eapply obj_ok_ext; [|apply update_obj_ok, Hoi]. reflexivity.
  - lia.
  - intros j Hj. rewrite (obs3_ext h' h _ Hb). unfold get_obj, h', set_obj. cbn [h_objs].
    destruct (Nat.eq_dec i j) as [->|Hne].
    + rewrite nth_set_nth_same by exact Hi. now apply update_obj_obs3.
    + now rewrite nth_set_nth_other.
Qed.

Lemma force_cats_frame h i :
  heap_ok h -> (i < length (h_objs h))%nat ->
  frame h (force_cats h i) /\ h_bufs (force_cats h i) = h_bufs h /\ length (h_objs (force_cats h i)) = length (h_objs h).
Proof.
  intros Hok Hi. unfold force_cats. destruct (o_cats (get_obj h i)) eqn:E.
  - split; [now apply frame_refl | split; reflexivity].
  - apply update_frame; auto.
Qed.

Lemma force_codes_frame h i :
  heap_ok h -> (i < length (h_objs h))%nat ->
  frame h (force_codes h i) /\ h_bufs (force_codes h i) = h_bufs h /\ length (h_objs (force_codes h i)) = length (h_objs h).
Proof.
  intros Hok Hi. unfold force_codes. destruct (o_codes (get_obj h i)) eqn:E.
  - split; [now apply frame_refl | split; reflexivity].
  - apply update_frame; auto.
Qed.

(* a new object (and possibly a new buffer) is appended *)
Lemma extend_frame h extra o' :
  heap_ok h ->
  let h' := mk_cheap (h_bufs h ++ extra) (h_objs h ++ [o']) in
  obj_ok h' o' -> frame h h'.
Proof.
  intros Hok h' Ho'. assert (Hb : h_bufs h' = h_bufs h ++ extra) by reflexivity.
  repeat split.
  - unfold heap_ok, h'. cbn [h_objs]. apply Forall_app. split; [|constructor; [exact Ho' | constructor]].
    eapply Forall_impl; [|exact Hok]. intros o Ho. now apply (obj_ok_app h h' extra o Hb).
  - unfold h'. cbn [h_objs]. rewrite app_length. lia.
  - intros j Hj. unfold get_obj at 1. unfold h' at 2. cbn [h_objs]. rewrite app_nth1 by exact Hj.
    fold (get_obj h j). apply (obs3_app h h' extra _ Hb).
    apply (Forall_nth_default _ _ dummy_obj j Hok Hj).
Qed.

Lemma get_obj_ok h i : heap_ok h -> (i < length (h_objs h))%nat -> obj_ok h (get_obj h i).
Proof. intros Hok Hi. unfold get_obj. now apply Forall_nth_default. Qed.

Lemma cstep_frame h op : heap_ok h -> frame h (fst (cstep h op)).
Proof.
  intros Hok. destruct op as [vals cats | src copy cats | src sel | src | src]; cbn [cstep].
  - (* CNew *)
    cbn [fst]. unfold add_obj. cbn [h_bufs h_objs].
    apply (extend_frame h [vals]); [exact Hok|]. split; cbn [o_buf o_codes h_bufs]; [rewrite app_length; cbn; lia | exact I].
  - (* CRewrap *)
    destruct (src <? length (h_objs h))%nat eqn:E; [|now apply frame_refl].
    apply Nat.ltb_lt in E. destruct (force_cats_frame h src Hok E) as (Hf & Hb & Hl).
    set (h1 := force_cats h src) in *. destruct Hf as (H1ok & Hl1 & Ho1).
    assert (Hsrc : obj_ok h1 (get_obj h1 src)) by (apply get_obj_ok; [exact H1ok | lia]).
    destruct copy; cbn [fst]; unfold add_obj; cbn [h_bufs h_objs].
    + eapply frame_trans; [split; [exact H1ok | split; [exact Hl1 | exact Ho1]]|].
      apply (extend_frame h1 [obj_values h1 (get_obj h1 src)]); [exact H1ok|].
      split; cbn [o_buf o_codes h_bufs]; [rewrite app_length; cbn; lia | exact I].
    + eapply frame_trans; [split; [exact H1ok | split; [exact Hl1 | exact Ho1]]|].
      pose proof (extend_frame h1 [] (mk_cobj (o_buf (get_obj h1 src)) (o_sel (get_obj h1 src))
                    (Some match cats with Some c => c | None => obs_cats h1 (get_obj h1 src) end) None) H1ok) as Hx.
      cbn zeta in Hx. rewrite app_nil_r in Hx. destruct h1 as [b1 o1]. cbn [h_bufs h_objs] in *. apply Hx.
      split; cbn [o_buf o_codes h_bufs]; [exact (proj1 Hsrc) | exact I].
  - (* CView *)
    destruct (src <? length (h_objs h))%nat eqn:E; [|now apply frame_refl].
    apply Nat.ltb_lt in E. destruct (force_cats_frame h src Hok E) as (Hf & Hb & Hl).
    set (h1 := force_cats h src) in *. destruct Hf as (H1ok & Hl1 & Ho1).
    assert (Hsrc : obj_ok h1 (get_obj h1 src)) by (apply get_obj_ok; [exact H1ok | lia]).
    cbn [fst]. unfold add_obj. cbn [h_bufs h_objs].
    eapply frame_trans; [split; [exact H1ok | split; [exact Hl1 | exact Ho1]]|].
    pose proof (extend_frame h1 [] (mk_cobj (o_buf (get_obj h1 src)) (map (fun k => nth k (o_sel (get_obj h1 src)) 0%nat) sel)
                  (Some (obs_cats h1 (get_obj h1 src))) None) H1ok) as Hx.
    cbn zeta in Hx. rewrite app_nil_r in Hx. destruct h1 as [b1 o1]. cbn [h_bufs h_objs] in *. apply Hx.
    split; cbn [o_buf o_codes h_bufs]; [exact (proj1 Hsrc) | exact I].
  - (* CCodes *)
    destruct (src <? length (h_objs h))%nat eqn:E; [|now apply frame_refl].
    apply Nat.ltb_lt in E. cbn [fst]. apply (force_codes_frame h src Hok E).
  - (* CCats *)
    destruct (src <? length (h_objs h))%nat eqn:E; [|now apply frame_refl].
    apply Nat.ltb_lt in E. cbn [fst]. apply (force_cats_frame h src Hok E).
Qed.

Lemma empty_heap_ok : heap_ok empty_heap.
Proof. constructor. Qed.

Lemma crun_fst h ops : fst (crun h ops) = fold_left (fun h op => fst (cstep h op)) ops h.
Proof.
  revert h. induction ops as [|op ops IH]; intros h; [reflexivity|].
  cbn [crun fold_left]. destruct (cstep h op) as [h1 r] eqn:E1. destruct (crun h1 ops) as [h2 rs] eqn:E2.
  cbn [fst]. rewrite <- IH, E2. reflexivity.
Qed.

Lemma crun_frame ops : forall h, heap_ok h -> frame h (fst (crun h ops)).
Proof.
  induction ops as [|op ops IH]; intros h Hok; [now apply frame_refl|].
  rewrite crun_fst. cbn [fold_left]. rewrite <- crun_fst.
  pose proof (cstep_frame h op Hok) as H1. eapply frame_trans; [exact H1|]. apply IH. exact (proj1 H1).
Qed.

Lemma get_obj_last b l o : get_obj (mk_cheap b (l ++ [o])) (length l) = o.
Proof. unfold get_obj. cbn [h_objs]. apply nth_middle. Qed.

(* ---- the statements used by Property.v ---- *)

(* every object of every history satisfies categories[codes] == values *)
Lemma cat_history_consistent (ops : list cop) :
  let h := fst (crun empty_heap ops) in
  Forall (fun o => obs_codes h o = lookup_codes (obs_cats h o) (obj_values h o)) (h_objs h).
Proof.
  cbn zeta. pose proof (crun_frame ops empty_heap empty_heap_ok) as (Hok & _).
  eapply Forall_impl; [|exact Hok]. intros o. apply obj_ok_consistent.
Qed.

(* no later call changes what an earlier object shows: values, categories, codes *)
Lemma cat_history_pure (ops : list cop) (op : cop) :
  let h := fst (crun empty_heap ops) in
  let h' := fst (cstep h op) in
  forall j, (j < length (h_objs h))%nat -> obs3 h' (get_obj h' j) = obs3 h (get_obj h j).
Proof.
  cbn zeta. pose proof (crun_frame ops empty_heap empty_heap_ok) as (Hok & _).
  exact (proj2 (proj2 (cstep_frame _ op Hok))).
Qed.

(* re-wrapping makes a NEW object: the next index, the requested categories, the values of the source, and -- without
   copy -- the very same data buffer; by cat_history_pure the source shows what it showed *)
Lemma rewrap_new_object (ops : list cop) (src : nat) (copy : bool) (cats : list Z) :
  let h := fst (crun empty_heap ops) in
  (src < length (h_objs h))%nat ->
  let '(h', r) := cstep h (CRewrap src copy (Some cats)) in
  let n := length (h_objs h) in
  r = RObj n /\ length (h_objs h') = S n /\
  obs_cats h' (get_obj h' n) = cats /\
  obj_values h' (get_obj h' n) = obj_values h (get_obj h src) /\
  (copy = false -> o_buf (get_obj h' n) = o_buf (get_obj h src)) /\
  (copy = true -> o_buf (get_obj h' n) = length (h_bufs h)).
Proof.
  cbn zeta. intros Hsrc. pose proof (crun_frame ops empty_heap empty_heap_ok) as (Hok & _).
  set (h := fst (crun empty_heap ops)) in *.
  cbn [cstep]. apply Nat.ltb_lt in Hsrc. rewrite Hsrc. apply Nat.ltb_lt in Hsrc.
  destruct (force_cats_frame h src Hok Hsrc) as ((H1ok & Hl1 & Ho1) & Hb & Hl).
  set (h1 := force_cats h src) in *.
  assert (Hv : obj_values h1 (get_obj h1 src) = obj_values h (get_obj h src)).
  { specialize (Ho1 src Hsrc). unfold obs3 in Ho1. congruence. }
  assert (Hsrc1 : obj_ok h1 (get_obj h1 src)) by (apply get_obj_ok; [exact H1ok | lia]).
  assert (Hbuf : o_buf (get_obj h1 src) = o_buf (get_obj h src)).
  { unfold h1, force_cats. destruct (o_cats (get_obj h src)) eqn:E; [reflexivity|].
    unfold get_obj at 1, set_obj. cbn [h_objs]. rewrite nth_set_nth_same by exact Hsrc.
    unfold update_obj. fold (get_obj h src). rewrite E. reflexivity. }
  destruct copy; unfold add_obj; cbn [h_bufs h_objs]; rewrite <- Hl, !get_obj_last.
  - repeat split.
    + rewrite app_length. cbn. lia.
    + unfold obj_values at 1. cbn [o_buf o_sel h_bufs]. rewrite nth_middle.
      rewrite <- Hv. clear. induction (obj_values h1 (get_obj h1 src)) as [|x l IH]; [reflexivity|].
      cbn [length seq map]. f_equal. rewrite <- seq_shift, map_map. exact IH.
    + discriminate.
    + intros _. cbn [o_buf]. now rewrite Hb.
  - repeat split.
    + rewrite app_length. cbn. lia.
    + rewrite <- Hv. reflexivity.
    + intros _. cbn [o_buf]. exact Hbuf.
    + discriminate.
Qed.

(* the seeded shortcut (hand the argument back, assign the categories to it) is NOT pure and breaks consistency *)
Lemma rewrap_alias_refuted :
  exists ops src cats,
    let h := fst (crun empty_heap ops) in
    let h' := rewrap_alias h src cats in
    obs_cats h' (get_obj h' src) <> obs_cats h (get_obj h src) /\
    obs_codes h' (get_obj h' src) <> lookup_codes (obs_cats h' (get_obj h' src)) (obj_values h' (get_obj h' src)).
Proof.
  exists [CNew [1; 0; 2; 0] None; CCodes 0], 0%nat, [2; 1; 0]. vm_compute. split; discriminate.
Qed.
