(* C20 — end-to-end statements on the TRANSLATED iterate_chunks, combining the odometer proof
   (OdometerProof.v), the partition of the reference chunk list (Lemmas.v) and the chunk bound. *)
From Coq Require Import ZArith List Bool Lia.
Import ListNotations.
From GV Require Import Common.PyInt gen.Gen_array C20.Model C20.Lemmas C20.OdometerProof.
Open Scope Z_scope.

Lemma Forall2_length' {A B} (R : A -> B -> Prop) a b : Forall2 R a b -> length a = length b.
Proof. induction 1; cbn; congruence. Qed.

Lemma iterate_chunks_nmax_visits_once (shape : list Z) (n_max : Z) :
  shape <> [] -> 1 <= n_max -> Forall (fun n => 1 <= n) shape ->
  exists chunks, iterate_chunks (fuel_for shape) shape None (Some n_max) = Ok chunks /\
    (forall idx, Forall2 (fun x n => 0 <= x < n) idx shape -> count (in_chunk idx) chunks = 1%nat) /\
    Forall (fun ch => Forall2 (fun t n => 0 <= fst t /\ fst t < snd t /\ snd t <= n) ch shape /\
                      1 <= chunk_size ch <= n_max) chunks.
Proof.
  intros Hne Hn Hs.
  exists (m_chunks shape (find_chunk_shape shape (Some n_max))).
  destruct (chunk_shape_bound shape n_max Hn Hs) as (Hlen & Hfit & Hprod).
  set (cs := find_chunk_shape shape (Some n_max)) in *.
  assert (Hcs : Forall (fun c => 1 <= c) cs).
  { clear -Hfit. induction Hfit; constructor; [lia | assumption]. }
  assert (Hs0 : Forall (fun n => 0 <= n) shape).
  { clear -Hs. induction Hs; constructor; [lia | assumption]. }
  split; [apply iterate_chunks_nmax_is_product; assumption|]. split.
  - intros idx Hidx. apply m_chunks_partition; assumption.
  - pose proof (m_chunks_wf shape cs Hcs Hs0 Hlen) as Hwf.
    rewrite Forall_forall in *. intros ch Hch. destruct (Hwf ch Hch) as [Hbox Hsz]. split; [exact Hbox | lia].
Qed.

Lemma iterate_chunks_shape_visits_once (shape cs : list Z) :
  shape <> [] -> Forall2 (fun c n => 1 <= c <= n) cs shape ->
  exists chunks, iterate_chunks (fuel_for shape) shape (Some cs) None = Ok chunks /\
    (forall idx, Forall2 (fun x n => 0 <= x < n) idx shape -> count (in_chunk idx) chunks = 1%nat) /\
    Forall (fun ch => Forall2 (fun t n => 0 <= fst t /\ fst t < snd t /\ snd t <= n) ch shape /\
                      1 <= chunk_size ch <= zprod cs) chunks.
Proof.
  intros Hne Hfit. exists (m_chunks shape cs).
  assert (Hcs : Forall (fun c => 1 <= c) cs).
  { clear -Hfit. induction Hfit; constructor; [lia | assumption]. }
  assert (Hs0 : Forall (fun n => 0 <= n) shape).
  { clear -Hfit. induction Hfit; constructor; [lia | assumption]. }
  pose proof (Forall2_length' _ _ _ Hfit) as Hlen.
  split; [apply iterate_chunks_is_product; assumption|]. split.
  - intros idx Hidx. apply m_chunks_partition; assumption.
  - apply m_chunks_wf; assumption.
Qed.
