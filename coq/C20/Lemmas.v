(* C20 — lemmas about the translated helpers (Gen_array) and the hand models. *)
From Coq Require Import ZArith List Bool Lia ZifyBool.
Import ListNotations.
From GV Require Import Common.PyInt gen.Gen_array C20.Model.
Open Scope Z_scope.
Ltac Zify.zify_post_hook ::= Z.to_euclidean_division_equations.

(* ------------------------------------------------------------------ zprod *)
Lemma fold_mul_acc (l : list Z) (a : Z) : fold_left Z.mul l a = a * fold_left Z.mul l 1.
Proof.
  revert a; induction l as [|x l IH]; intros a; cbn [fold_left].
  - lia.
  - rewrite IH, (IH (1 * x)). lia.
Qed.

Lemma zprod_nil : zprod [] = 1.
Proof. reflexivity. Qed.

Lemma zprod_cons (x : Z) (l : list Z) : zprod (x :: l) = x * zprod l.
Proof. unfold zprod; cbn [fold_left]. rewrite fold_mul_acc. lia. Qed.

Lemma zprod_app (a b : list Z) : zprod (a ++ b) = zprod a * zprod b.
Proof.
  induction a as [|x a IH]; cbn [app].
  - rewrite zprod_nil. lia.
  - rewrite !zprod_cons, IH. lia.
Qed.

Lemma zprod_rev (l : list Z) : zprod (rev l) = zprod l.
Proof.
  induction l as [|x l IH]; cbn [rev]; [reflexivity|].
  rewrite zprod_app, IH, !zprod_cons, zprod_nil. lia.
Qed.

Lemma Forall2_rev {A B} (R : A -> B -> Prop) (a : list A) (b : list B) :
  Forall2 R a b -> Forall2 R (rev a) (rev b).
Proof.
  induction 1 as [|x y a b Hxy Hab IH]; cbn [rev]; [constructor|].
  apply Forall2_app; [exact IH | constructor; [exact Hxy | constructor]].
Qed.

(* ------------------------------------------------------------------ find_chunk_shape *)

(* the translated loop computes chunk_rev *)
Lemma gen_find_chunk_shape_eq (shape : list Z) (n : Z) :
  find_chunk_shape shape (Some n) = m_find_chunk_shape shape n.
Proof.
  unfold find_chunk_shape, m_find_chunk_shape.
  cbv zeta.
  generalize (rev shape) as l. intros l.
  match goal with |- context [fold_left ?F l ([], n)] =>
    assert (H : forall l bs r, fst (fold_left F l (bs, r)) = bs ++ chunk_rev l r) end.
  { clear l. induction l as [|a l IH]; intros bs r; cbn [fold_left chunk_rev fst].
    - symmetry; apply app_nil_r.
    - destruct (r >? a) eqn:E; rewrite IH, <- app_assoc; reflexivity. }
  specialize (H l [] n).
  match goal with |- context [fold_left ?F l ([], n)] =>
    destruct (fold_left F l ([], n)) as [bs r] eqn:E end.
  cbn [fst] in H. rewrite H. reflexivity.
Qed.

Lemma chunk_rev_spec (l : list Z) :
  forall r, 1 <= r -> Forall (fun s => 1 <= s) l ->
    length (chunk_rev l r) = length l /\
    Forall2 (fun c s => 1 <= c <= s) (chunk_rev l r) l /\
    1 <= zprod (chunk_rev l r) <= r.
Proof.
  induction l as [|a l IH]; intros r Hr Hl; cbn [chunk_rev].
  - repeat split; [constructor | rewrite zprod_nil; lia | rewrite zprod_nil; lia].
  - inversion Hl as [|? ? Ha Hl']; subst.
    destruct (r >? a) eqn:E.
    + assert (Hq : 1 <= r / a) by (apply Z.div_le_lower_bound; lia).
      destruct (IH (r / a) Hq Hl') as (L & F & P).
      cbn [length]. rewrite zprod_cons. repeat split; [lia | constructor; [lia | exact F] | nia | ].
      assert (a * (r / a) <= r) by (apply Z.mul_div_le; lia). nia.
    + destruct (IH 1 ltac:(lia) Hl') as (L & F & P).
      cbn [length]. rewrite zprod_cons. repeat split; [lia | constructor; [lia | exact F] | nia | nia].
Qed.

(* C20 / chunk_shape_bound, stated on the TRANSLATED function *)
Lemma chunk_shape_bound (shape : list Z) (n_max : Z) :
  1 <= n_max -> Forall (fun s => 1 <= s) shape ->
  let c := find_chunk_shape shape (Some n_max) in
  length c = length shape /\ Forall2 (fun ci si => 1 <= ci <= si) c shape /\ 1 <= zprod c <= n_max.
Proof.
  intros Hn Hs. cbv zeta. rewrite gen_find_chunk_shape_eq. unfold m_find_chunk_shape.
  assert (Hs' : Forall (fun s => 1 <= s) (rev shape)) by (apply Forall_rev; exact Hs).
  destruct (chunk_rev_spec (rev shape) n_max Hn Hs') as (L & F & P).
  repeat split.
  - rewrite rev_length, L, rev_length. reflexivity.
  - rewrite <- (rev_involutive shape) at 2. apply Forall2_rev. exact F.
  - rewrite zprod_rev. lia.
  - rewrite zprod_rev. lia.
Qed.

Lemma chunk_shape_none (shape : list Z) : find_chunk_shape shape None = shape.
Proof. reflexivity. Qed.

(* ------------------------------------------------------------------ tiling of one axis *)
Lemma count_map {A B} (p : B -> bool) (f : A -> B) (l : list A) :
  count p (map f l) = count (fun a => p (f a)) l.
Proof.
  unfold count. induction l as [|a l IH]; cbn [map filter]; [reflexivity|].
  destruct (p (f a)); cbn [length]; rewrite IH; reflexivity.
Qed.

Lemma count_ext_in {A} (p q : A -> bool) (l : list A) :
  (forall a, In a l -> p a = q a) -> count p l = count q l.
Proof. intros H. unfold count. now rewrite (filter_ext_in p q l H). Qed.

Lemma count_app {A} (p : A -> bool) (a b : list A) : count p (a ++ b) = (count p a + count p b)%nat.
Proof. unfold count. now rewrite filter_app, app_length. Qed.

Lemma count_eqb_seq (j start len : nat) :
  (start <= j < start + len)%nat -> count (fun k => Nat.eqb k j) (seq start len) = 1%nat.
Proof.
  revert start. induction len as [|len IH]; intros start H; [lia|].
  cbn [seq]. unfold count in *. cbn [filter].
  destruct (Nat.eqb start j) eqn:E.
  - apply Nat.eqb_eq in E. subst. cbn [length]. f_equal.
    rewrite (filter_ext_in _ (fun _ => false)); [clear; induction (seq (S j) len); auto|].
    intros a Ha. apply in_seq in Ha. apply Nat.eqb_neq. lia.
  - apply Nat.eqb_neq in E. apply IH. lia.
Qed.

Lemma range_len_spec (a b s : Z) : 0 < s -> a < b ->
  range_len a b s = (b - a + s - 1) / s /\ 0 < range_len a b s.
Proof.
  intros Hs Hab. unfold range_len.
  destruct (s <=? 0) eqn:E1; [lia|]. destruct (b <=? a) eqn:E2; [lia|].
  split; [reflexivity|]. apply Z.div_str_pos. lia.
Qed.

Lemma tiles_count (n c x : Z) : 1 <= c -> 0 <= x < n -> count (in_tile x) (tiles n c) = 1%nat.
Proof.
  intros Hc Hx. unfold tiles, py_range. rewrite !count_map.
  destruct (range_len_spec 0 n c ltac:(lia) ltac:(lia)) as [HL HLpos].
  rewrite (count_ext_in _ (fun k => Nat.eqb k (Z.to_nat (x / c)))).
  - apply count_eqb_seq. split; [lia|]. cbn [Nat.add].
    apply Z2Nat.inj_lt; [apply Z.div_pos; lia | lia |]. rewrite HL.
    apply Z.div_lt_upper_bound; [lia|].
    assert (c * ((n - 0 + c - 1) / c) > n - 0 + c - 1 - c) by
      (pose proof (Z.mul_succ_div_gt (n - 0 + c - 1) c ltac:(lia)); lia). lia.
  - intros k Hk. apply in_seq in Hk. unfold in_tile. cbn [fst snd].
    assert (Hkc : 0 + Z.of_nat k * c = Z.of_nat k * c) by lia. rewrite Hkc.
    assert (Hk2 : Z.of_nat k < range_len 0 n c) by lia. rewrite HL in Hk2.
    assert (Hkn : Z.of_nat k * c < n).
    { assert (Z.of_nat k <= (n - 0 + c - 1) / c - 1) by lia.
      assert (c * ((n - 0 + c - 1) / c) <= n - 0 + c - 1) by (apply Z.mul_div_le; lia). nia. }
    destruct (Nat.eqb k (Z.to_nat (x / c))) eqn:E.
    + apply Nat.eqb_eq in E. subst k. rewrite Z2Nat.id in * by (apply Z.div_pos; lia).
      assert (c * (x / c) <= x) by (apply Z.mul_div_le; lia).
      assert (x < c * (x / c) + c) by (pose proof (Z.mul_succ_div_gt x c ltac:(lia)); lia).
      lia.
    + apply Nat.eqb_neq in E.
      assert (Z.of_nat k <> x / c) by (intros Heq; apply E; rewrite <- Heq, Nat2Z.id; reflexivity).
      assert (c * (x / c) <= x) by (apply Z.mul_div_le; lia).
      assert (x < c * (x / c) + c) by (pose proof (Z.mul_succ_div_gt x c ltac:(lia)); lia).
      destruct (Z.of_nat k * c <=? x) eqn:E1; destruct (x <? Z.min (Z.of_nat k * c + c) n) eqn:E2; cbn [andb]; try reflexivity.
      exfalso. nia.
Qed.

Lemma tiles_wf (n c : Z) : 1 <= c -> 0 <= n ->
  Forall (fun t => 0 <= fst t /\ fst t < snd t /\ snd t <= n /\ snd t - fst t <= c) (tiles n c).
Proof.
  intros Hc Hn. unfold tiles, py_range. apply Forall_forall. intros t Ht.
  apply in_map_iff in Ht as (b & <- & Hb). apply in_map_iff in Hb as (k & <- & Hk).
  apply in_seq in Hk. cbn [fst snd].
  destruct (Z_lt_le_dec 0 n) as [Hpos|Hz].
  - destruct (range_len_spec 0 n c ltac:(lia) ltac:(lia)) as [HL _].
    assert (Hk2 : Z.of_nat k < range_len 0 n c) by lia. rewrite HL in Hk2.
    assert (c * ((n - 0 + c - 1) / c) <= n - 0 + c - 1) by (apply Z.mul_div_le; lia).
    assert (Z.of_nat k * c < n) by nia. lia.
  - exfalso. unfold range_len in Hk. destruct (c <=? 0); destruct (n <=? 0) eqn:E; cbn in Hk; lia.
Qed.

Lemma tiles_zero (c : Z) : tiles 0 c = [].
Proof. unfold tiles, py_range, range_len. destruct (c <=? 0); reflexivity. Qed.

(* ------------------------------------------------------------------ product of tilings *)
Lemma count_cons_map (x : Z) (idx : list Z) (rest : list (Z * Z)) (T : list (Z * Z)) :
  count (in_chunk (x :: idx)) (map (fun t => t :: rest) T) =
  if in_chunk idx rest then count (in_tile x) T else 0%nat.
Proof.
  rewrite count_map. cbn [in_chunk].
  destruct (in_chunk idx rest).
  - apply count_ext_in. intros; now rewrite andb_true_r.
  - unfold count. rewrite (filter_ext_in _ (fun _ => false)); [induction T; auto|].
    intros; now rewrite andb_false_r.
Qed.

Lemma count_product (x : Z) (idx : list Z) (T : list (Z * Z)) (L : list (list (Z * Z))) :
  count (in_chunk (x :: idx)) (flat_map (fun rest => map (fun t => t :: rest) T) L) =
  (count (in_tile x) T * count (in_chunk idx) L)%nat.
Proof.
  induction L as [|rest L IH]; cbn [flat_map].
  - unfold count; cbn. lia.
  - rewrite count_app, IH, count_cons_map.
    assert (Hc : count (in_chunk idx) (rest :: L) =
                 ((if in_chunk idx rest then 1 else 0) + count (in_chunk idx) L)%nat).
    { unfold count; cbn [filter]. destruct (in_chunk idx rest); reflexivity. }
    rewrite Hc. destruct (in_chunk idx rest); nia.
Qed.

(* every index of the shape box lies in exactly one chunk of m_chunks *)
Lemma m_chunks_partition (shape cs idx : list Z) :
  Forall (fun c => 1 <= c) cs -> length cs = length shape ->
  Forall2 (fun x n => 0 <= x < n) idx shape ->
  count (in_chunk idx) (m_chunks shape cs) = 1%nat.
Proof.
  intros Hc Hl Hidx. revert cs Hc Hl.
  induction Hidx as [|x n idx shape Hx Hrest IH]; intros cs Hc Hl.
  - destruct cs; [reflexivity | discriminate].
  - destruct cs as [|c cs]; [discriminate|]. inversion Hc; subst.
    cbn [m_chunks]. rewrite count_product, tiles_count, IH by (auto; lia). reflexivity.
Qed.

(* every chunk is a non-empty box inside the shape box with at most prod(cs) elements *)
Lemma m_chunks_wf (shape cs : list Z) :
  Forall (fun c => 1 <= c) cs -> Forall (fun n => 0 <= n) shape -> length cs = length shape ->
  Forall (fun ch => Forall2 (fun t n => 0 <= fst t /\ fst t < snd t /\ snd t <= n) ch shape /\
                    1 <= chunk_size ch <= zprod cs) (m_chunks shape cs).
Proof.
  intros Hc. revert shape. induction Hc as [|c cs Hc1 Hc IH]; intros shape Hs Hl.
  - destruct shape; [|discriminate]. cbn. constructor; [|constructor]. split; [constructor|].
    unfold chunk_size. cbn. lia.
  - destruct shape as [|n shape]; [discriminate|]. inversion Hs; subst. cbn [m_chunks].
    apply Forall_forall. intros ch Hch. apply in_flat_map in Hch as (rest & Hrest & Hch).
    apply in_map_iff in Hch as (t & <- & Ht).
    specialize (IH shape ltac:(assumption) ltac:(cbn in Hl; lia)).
    rewrite Forall_forall in IH. destruct (IH rest Hrest) as [Hbox Hsz].
    pose proof (tiles_wf n c Hc1 ltac:(assumption)) as Ht'. rewrite Forall_forall in Ht'.
    destruct (Ht' t Ht) as (Ht0 & Ht1 & Ht2 & Ht3).
    split; [constructor; [lia | exact Hbox]|].
    unfold chunk_size in *. cbn [map]. rewrite !zprod_cons. nia.
Qed.

Lemma m_chunks_empty (shape cs : list Z) :
  length cs = length shape -> In 0 shape -> m_chunks shape cs = [].
Proof.
  revert cs. induction shape as [|n shape IH]; intros cs Hl Hin; [destruct Hin|].
  destruct cs as [|c cs]; [discriminate|]. cbn [m_chunks].
  destruct Hin as [->|Hin].
  - rewrite tiles_zero. induction (m_chunks shape cs); auto.
  - rewrite IH; [reflexivity | cbn in Hl; lia | exact Hin].
Qed.

(* ------------------------------------------------------------------ categorical arrays *)
From Coq Require Import Sorting.Sorted.

Lemma insert_uniq_in (x y : Z) (l : list Z) : In y (insert_uniq x l) <-> y = x \/ In y l.
Proof.
  induction l as [|z l IH]; cbn [insert_uniq].
  - cbn. intuition.
  - destruct (x <? z) eqn:E1; [cbn; intuition|].
    destruct (x =? z) eqn:E2.
    + apply Z.eqb_eq in E2. subst. cbn. intuition.
    + cbn [In]. rewrite IH. intuition.
Qed.

Lemma insert_uniq_sorted (x : Z) (l : list Z) :
  StronglySorted Z.lt l -> StronglySorted Z.lt (insert_uniq x l).
Proof.
  induction 1 as [|z l Hs IH Hall]; cbn [insert_uniq].
  - constructor; constructor.
  - destruct (x <? z) eqn:E1.
    + constructor; [constructor; assumption|]. constructor; [lia|].
      rewrite Forall_forall in *. intros y Hy. specialize (Hall y Hy). lia.
    + destruct (x =? z) eqn:E2; [constructor; assumption|].
      constructor; [exact IH|]. rewrite Forall_forall in *. intros y Hy.
      apply insert_uniq_in in Hy as [->|Hy]; [lia | auto].
Qed.

Lemma categories_sorted (vals : list Z) : StronglySorted Z.lt (categories vals).
Proof.
  unfold categories. induction vals as [|v vals IH]; cbn [fold_right]; [constructor|].
  apply insert_uniq_sorted, IH.
Qed.

Lemma categories_in (vals : list Z) (y : Z) : In y (categories vals) <-> In y vals.
Proof.
  unfold categories. induction vals as [|v vals IH]; cbn [fold_right]; [reflexivity|].
  rewrite insert_uniq_in, IH. cbn. intuition.
Qed.

Lemma index_of_spec (v : Z) (l : list Z) : In v l ->
  0 <= index_of v l < zlen l /\ znth l (index_of v l) = v.
Proof.
  unfold zlen. induction l as [|y l IH]; intros Hin; [destruct Hin|].
  cbn [index_of length]. destruct (v =? y) eqn:E.
  - apply Z.eqb_eq in E. subst. split; [lia | reflexivity].
  - apply Z.eqb_neq in E. destruct Hin as [->|Hin]; [congruence|].
    destruct (IH Hin) as [Hr Hn].
    destruct (index_of v l <? 0) eqn:E2; [lia|]. split; [lia|].
    unfold znth in *. destruct (index_of v l <? 0) eqn:E3; [lia|].
    destruct (1 + index_of v l <? 0) eqn:E4; [lia|].
    replace (Z.to_nat (1 + index_of v l)) with (S (Z.to_nat (index_of v l))) by lia.
    exact Hn.
Qed.

(* categories are sorted and unique, every value is a category, and categories[codes] == values *)
Lemma categorical_spec (vals : list Z) :
  StronglySorted Z.lt (categories vals) /\
  (forall y, In y (categories vals) <-> In y vals) /\
  Forall (fun c => 0 <= c < zlen (categories vals)) (codes vals) /\
  map (znth (categories vals)) (codes vals) = vals.
Proof.
  split; [apply categories_sorted|]. split; [apply categories_in|].
  unfold codes. split.
  - apply Forall_forall. intros c Hc. apply in_map_iff in Hc as (v & <- & Hv).
    apply index_of_spec, categories_in, Hv.
  - rewrite map_map. rewrite <- (map_id vals) at 2. apply map_ext_in. intros v Hv.
    apply index_of_spec, categories_in, Hv.
Qed.

(* ------------------------------------------------------------------ slice.indices bounds *)
Lemma slice_indices_bounds (s : slice) (n b e k : Z) :
  0 <= n -> slice_indices s n = Some (b, e, k) -> 0 < k -> 0 <= b <= n /\ 0 <= e <= n.
Proof.
  intros Hn H Hk. unfold slice_indices in H.
  destruct (sl_step s) as [st|]; destruct (sl_start s) as [a|]; destruct (sl_stop s) as [c|];
    repeat match type of H with
           | context [if ?t then _ else _] => destruct t eqn:?
           end; inversion H; subst; lia.
Qed.
