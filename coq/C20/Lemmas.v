(* C20 — lemmas about the translated helpers. *)
From Coq Require Import ZArith List Bool Lia.
Import ListNotations.
From GV Require Import Common.PyInt gen.Gen_array C20.Model.
Open Scope Z_scope.

Lemma placeholder : True. Proof. exact I. Qed.
