(* C17 — the hub plumbing (emit / deliver / sync / pause / flush) changes only the log, the delay queue and the
   externally derivable ids; the sequence of messages handed to the hub ("emitted") is what ends up in the log. *)
From Coq Require Import ZArith List Bool Lia Permutation.
Import ListNotations.
From GV Require Import Common.Wire C17.Model C17.Lemmas1.
Open Scope Z_scope.

(* everything except log / queue / ext *)
Definition core (s : st) :=
  (shape s, comps s, pixel s, world s, crd s, clinks s, labels s, parents s, dlabel s, hub s, next s, stuck s).

Ltac core_inj H :=
  unfold core in H;
  let H1 := fresh "Hshape" in let H2 := fresh "Hcomps" in let H3 := fresh "Hpixel" in let H4 := fresh "Hworld" in
  let H5 := fresh "Hcrd" in let H6 := fresh "Hclinks" in let H7 := fresh "Hlabels" in let H8 := fresh "Hparents" in
  let H9 := fresh "Hdlabel" in let H10 := fresh "Hhub" in let H11 := fresh "Hnext" in let H12 := fresh "Hstuck" in
  injection H as H1 H2 H3 H4 H5 H6 H7 H8 H9 H10 H11 H12.

Definition qlist (q : option (list msg)) : list msg := match q with Some l => l | None => [] end.
Definition nonext (m : msg) : bool := match m with MExtDer => false | _ => true end.
(* the messages handed to the hub so far during the current call, in order *)
Definition emitted (s : st) : list msg := filter nonext (log s) ++ qlist (queue s).

Lemma core_sync : forall s, core (sync s) = core s.
Proof. intros s. unfold sync. destruct (_ && _); reflexivity. Qed.

Lemma queue_sync : forall s, queue (sync s) = queue s.
Proof. intros s. unfold sync. destruct (_ && _); reflexivity. Qed.

Lemma emitted_sync : forall s, emitted (sync s) = emitted s.
Proof.
  intros s. unfold sync, emitted. destruct (_ && _); [reflexivity|]. simpl.
  rewrite filter_app. simpl. rewrite app_nil_r. reflexivity.
Qed.

Lemma core_deliver : forall m s, core (deliver m s) = core s.
Proof.
  intros m s. unfold deliver. destruct (hub s); try reflexivity.
  destruct (is_changed m); [rewrite core_sync|]; reflexivity.
Qed.

Lemma queue_deliver : forall m s, queue (deliver m s) = queue s.
Proof.
  intros m s. unfold deliver. destruct (hub s); try reflexivity.
  destruct (is_changed m); [rewrite queue_sync|]; reflexivity.
Qed.

Lemma log_deliver_nonext : forall m s, nonext m = true -> filter nonext (log (deliver m s)) = filter nonext (log s) ++ [m].
Proof.
  intros m s Hm. unfold deliver.
  assert (B : filter nonext (log (set_log s (log s ++ [m]))) = filter nonext (log s) ++ [m]).
  { simpl. rewrite filter_app. simpl. rewrite Hm. reflexivity. }
  destruct (hub s); try exact B.
  destruct (is_changed m); [|exact B].
  pose proof (emitted_sync (set_log s (log s ++ [m]))) as E. unfold emitted in E. rewrite queue_sync in E.
  apply app_inv_tail in E. rewrite E. exact B.
Qed.

Lemma core_emit : forall m s, core (emit m s) = core s.
Proof.
  intros m s. unfold emit. destruct (hub s) eqn:E; try reflexivity; (destruct (queue s); [reflexivity | apply core_deliver]).
Qed.

Lemma emit_nohub : forall m s, hub s = NoHub -> emit m s = s.
Proof. intros m s H. unfold emit. rewrite H. reflexivity. Qed.

Lemma emitted_emit : forall m s, hub s <> NoHub -> nonext m = true -> emitted (emit m s) = emitted s ++ [m].
Proof.
  intros m s Hh Hm. unfold emit. destruct (hub s) eqn:E; [congruence| |];
    (destruct (queue s) as [q|] eqn:Q;
     [ unfold emitted; simpl; rewrite Q; simpl; rewrite app_assoc; reflexivity
     | unfold emitted; rewrite queue_deliver, Q; simpl; rewrite !app_nil_r; apply log_deliver_nonext; exact Hm ]).
Qed.

Lemma queue_emit_none : forall m s, queue s = None -> queue (emit m s) = None.
Proof.
  intros m s Q. unfold emit. destruct (hub s); [exact Q| |]; rewrite Q; rewrite queue_deliver; exact Q.
Qed.

Lemma queue_emit_some : forall m s q, queue s = Some q -> exists q', queue (emit m s) = Some q'.
Proof.
  intros m s q Q. unfold emit. destruct (hub s); [exists q; exact Q| |]; rewrite Q; simpl; eexists; reflexivity.
Qed.

Lemma core_pause : forall s, core (pause s) = core s.
Proof. intros s. unfold pause. destruct (hub s); reflexivity. Qed.

Lemma emitted_pause : forall s, queue s = None -> emitted (pause s) = emitted s.
Proof. intros s Q. unfold pause, emitted. destruct (hub s); simpl; rewrite ?Q; reflexivity. Qed.

Lemma log_pause : forall s, log (pause s) = log s.
Proof. intros s. unfold pause. destruct (hub s); reflexivity. Qed.

Lemma pause_nohub : forall s, hub s = NoHub -> pause s = s.
Proof. intros s H. unfold pause. rewrite H. reflexivity. Qed.

Lemma fold_deliver_core : forall q s, core (fold_left (fun acc m => deliver m acc) q s) = core s.
Proof.
  induction q as [|m q IH]; intros s; simpl; [reflexivity|]. rewrite IH. apply core_deliver.
Qed.

Lemma fold_deliver_queue : forall q s, queue (fold_left (fun acc m => deliver m acc) q s) = queue s.
Proof.
  induction q as [|m q IH]; intros s; simpl; [reflexivity|]. rewrite IH. apply queue_deliver.
Qed.

Lemma fold_deliver_log : forall q s, forallb nonext q = true ->
  filter nonext (log (fold_left (fun acc m => deliver m acc) q s)) = filter nonext (log s) ++ q.
Proof.
  induction q as [|m q IH]; intros s Hq; simpl; [rewrite app_nil_r; reflexivity|].
  simpl in Hq. apply andb_true_iff in Hq. destruct Hq as [Hm Hq].
  rewrite IH by exact Hq. rewrite log_deliver_nonext by exact Hm. rewrite <- app_assoc. reflexivity.
Qed.

Lemma core_flush : forall s, core (flush s) = core s.
Proof. intros s. unfold flush. destruct (queue s); [rewrite fold_deliver_core|]; reflexivity. Qed.

Lemma queue_flush : forall s, queue (flush s) = None.
Proof.
  intros s. unfold flush. destruct (queue s) eqn:Q; [rewrite fold_deliver_queue; reflexivity | exact Q].
Qed.

Lemma emitted_flush : forall s, forallb nonext (qlist (queue s)) = true -> emitted (flush s) = emitted s.
Proof.
  intros s Hq. unfold emitted at 1. rewrite queue_flush. simpl. rewrite app_nil_r.
  unfold flush, emitted. destruct (queue s) as [q|] eqn:Q; simpl in *; [|rewrite app_nil_r; reflexivity].
  rewrite fold_deliver_log by exact Hq. reflexivity.
Qed.

Lemma flush_nohub : forall s, queue s = None -> flush s = s.
Proof. intros s Q. unfold flush. rewrite Q. reflexivity. Qed.

(* the queue only ever holds emitted messages, none of which is MExtDer *)
Definition queue_clean (s : st) : Prop := forallb nonext (qlist (queue s)) = true.

Lemma queue_clean_emit : forall m s, nonext m = true -> queue_clean s -> queue_clean (emit m s).
Proof.
  intros m s Hm Hq. unfold queue_clean, emit in *. destruct (hub s); [exact Hq| |];
    (destruct (queue s) as [q|] eqn:Q;
     [ simpl in *; rewrite forallb_app; rewrite Hq; simpl; rewrite Hm; reflexivity
     | rewrite queue_deliver, Q; reflexivity ]).
Qed.

Lemma queue_clean_pause : forall s, queue_clean s -> queue_clean (pause s).
Proof. intros s H. unfold queue_clean, pause in *. destruct (hub s); simpl; auto. Qed.

Lemma queue_clean_none : forall s, queue s = None -> queue_clean s.
Proof. intros s Q. unfold queue_clean. rewrite Q. reflexivity. Qed.

(* no-hub: nothing is ever written *)
Lemma nohub_emit_log : forall m s, hub s = NoHub -> log (emit m s) = log s /\ queue (emit m s) = queue s /\ ext (emit m s) = ext s.
Proof. intros m s H. rewrite emit_nohub by exact H. auto. Qed.

(* setters commute with core in the obvious way: used through [simpl] *)
Lemma hub_emit : forall m s, hub (emit m s) = hub s.
Proof. intros. pose proof (core_emit m s) as H. core_inj H. assumption. Qed.
Lemma comps_emit : forall m s, comps (emit m s) = comps s.
Proof. intros. pose proof (core_emit m s) as H. core_inj H. assumption. Qed.
Lemma hub_flush : forall s, hub (flush s) = hub s.
Proof. intros. pose proof (core_flush s) as H. core_inj H. assumption. Qed.
Lemma hub_pause : forall s, hub (pause s) = hub s.
Proof. intros. pose proof (core_pause s) as H. core_inj H. assumption. Qed.
