(* C17 — A dataset stays structurally consistent and announces every structural change.
   Statements only; every proof is [exact Lemmas.<name>]. *)
From Coq Require Import ZArith List Bool.
Import ListNotations.
From GV Require Import Common.Wire C17.Model C17.Lemmas.
Open Scope Z_scope.

(* After every sequence of modelled calls of the mutation API (valid and invalid arguments, any hub mode) that does not
   remove / replace a pixel or world component through the public API, the dataset is structurally consistent
   (definition [structurally_consistent] in Lemmas.v: shapes, one pixel id per dimension, world ids iff coordinates,
   unique ids, the id lists name exactly the coordinate components, the removal cascade had enough fuel). *)
Theorem data_inv_reachable_partial : forall m c pool dl ops,
  guarded ops (init m c pool dl) = true ->
  structurally_consistent (run ops (init m c pool dl)).
Proof. exact Lemmas.data_inv_reachable_partial. Qed.
Print Assumptions data_inv_reachable_partial.

(* Full statement (no guard):  forall ops, structurally_consistent (run ops (init ...)).
   It is false of the faithful model of the code: add a component, then remove_component(pixel id). *)
Theorem data_inv_reachable_refuted :
  exists ops, ~ structurally_consistent (run ops (init NoHub None [] 0)).
Proof. exact Lemmas.data_inv_reachable_refuted. Qed.
Print Assumptions data_inv_reachable_refuted.

(* find_component_id (by name: p = "label equals l"; by id: p = "is that id") returns the unique match of the first
   class, in the order main > derived > coordinate > linked, that has a match; None iff no class has a match or
   that first class has at least two. *)
Theorem find_precedence : forall s (p : cid -> bool),
  match find_in (classes s) p with
  | Some c => exists pre cl post, classes s = pre ++ cl :: post
                /\ (forall k x, In k pre -> In x k -> p x = false)
                /\ In c cl /\ p c = true /\ (forall x, In x cl -> p x = true -> x = c)
  | None => forall pre cl post, classes s = pre ++ cl :: post -> (forall k x, In k pre -> In x k -> p x = false) ->
                (exists x, In x cl /\ p x = true) -> (2 <= length (filter p cl))%nat
  end.
Proof. exact Lemmas.find_precedence. Qed.
Print Assumptions find_precedence.
