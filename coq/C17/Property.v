(* C17 — A dataset stays structurally consistent and announces every structural change.
   Statements only; every proof is [exact Lemmas.<name>]. *)
From Coq Require Import ZArith List Bool.
Import ListNotations.
From GV Require Import Common.Wire gen.Gen_findcid gen.Gen_datamut C17.Model C17.Lemmas C17.GenLink C17.GenEquiv C17.GenTransport.
Open Scope Z_scope.

(* After every sequence of modelled calls of the mutation API (valid and invalid arguments, any hub mode) that does not
   remove / replace a pixel or world component through the public API, the dataset is structurally consistent
   (definition [structurally_consistent] in Lemmas.v: shapes, one pixel id per dimension, world ids iff coordinates,
   unique ids, the id lists name exactly the coordinate components, the removal cascade had enough fuel). *)
Theorem data_inv_reachable_partial : forall m c pool dl ops,
  guarded ops (init m c pool dl) = true ->
  structurally_consistent (run ops (init m c pool dl)).
Proof. exact Lemmas.data_inv_reachable_partial. Qed.
Print Assumptions data_inv_reachable_partial.

(* Full statement (no guard):  forall ops, structurally_consistent (run ops (init ...)).
   It is false of the faithful model of the code: add a component, then remove_component(pixel id). *)
Theorem data_inv_reachable_refuted :
  exists ops, ~ structurally_consistent (run ops (init NoHub None [] 0)).
Proof. exact Lemmas.data_inv_reachable_refuted. Qed.
Print Assumptions data_inv_reachable_refuted.

(* find_component_id (by name: p = "label equals l"; by id: p = "is that id") returns the unique match of the first
   class, in the order main > derived > coordinate > linked, that has a match; None iff no class has a match or
   that first class has at least two. *)
Theorem find_precedence : forall s (p : cid -> bool),
  match find_in (classes s) p with
  | Some c => exists pre cl post, classes s = pre ++ cl :: post
                /\ (forall k x, In k pre -> In x k -> p x = false)
                /\ In c cl /\ p c = true /\ (forall x, In x cl -> p x = true -> x = c)
  | None => forall pre cl post, classes s = pre ++ cl :: post -> (forall k x, In k pre -> In x k -> p x = false) ->
                (exists x, In x cl /\ p x = true) -> (2 <= length (filter p cl))%nat
  end.
Proof. exact Lemmas.find_precedence. Qed.
Print Assumptions find_precedence.

(* announce_exact.  For every call other than update_id / collection membership (next two theorems), from any state that
   satisfies the invariant (every reachable one, by data_inv_reachable_partial's lemma run_inv): without a hub nothing is
   logged; with a hub, among the messages handed to the hub during the call (the collection's reaction
   ExternallyDerivableComponentsChangedMessage filtered out) the DataAddComponentMessages are exactly, once each, the ids
   that entered the component table, the DataRemoveComponentMessages exactly the ids that left it, there is one
   ComponentsChangedMessage per Add / Remove, and all other messages are the documented ones for that call
   ([expected_others]: reorder / rename / numerical-data-changed / label), none on a failed or no-op call. *)
Theorem announce_exact : forall o s, data_inv s -> guard_op s o = true -> special o = false ->
  let s' := fst (step o s) in
  (hub s = NoHub -> log s' = []) /\
  (hub s <> NoHub ->
     let out := filter nonext (log s') in
     NoDup (adds out) /\ NoDup (removes out) /\
     (forall x, In x (adds out) <-> In x (K s') /\ ~ In x (K s)) /\
     (forall x, In x (removes out) <-> In x (K s) /\ ~ In x (K s')) /\
     nchanged out = (length (adds out) + length (removes out))%nat /\
     others out = expected_others o s (snd (step o s))).
Proof. exact Lemmas.announce_exact. Qed.
Print Assumptions announce_exact.

(* nothing changed (same ids, no documented value-type message) => nothing announced *)
Theorem silent_when_unchanged : forall o s, data_inv s -> guard_op s o = true -> special o = false -> hub s <> NoHub ->
  (forall x, In x (K (fst (step o s))) <-> In x (K s)) -> expected_others o s (snd (step o s)) = [] ->
  filter nonext (log (fst (step o s))) = [].
Proof. exact Lemmas.silent_when_unchanged. Qed.
Print Assumptions silent_when_unchanged.

Theorem announce_update_id : forall o n s, data_inv s ->
  let s' := fst (step (OUpdateId o n) s) in
  (hub s = NoHub -> log s' = []) /\
  (hub s <> NoHub -> filter nonext (log s') =
     if negb (o =? n) && negb (used o s && used n s) && used o s then [MReplaced o n] else []).
Proof. exact Lemmas.announce_update_id. Qed.
Print Assumptions announce_update_id.

Theorem announce_membership : forall s,
  filter nonext (log (fst (step OJoin s))) = (match hub s with InColl => [] | _ => [MCollAdd] end) /\
  filter nonext (log (fst (step OLeave s))) = (match hub s with InColl => [MCollDel] | _ => [] end).
Proof. exact Lemmas.announce_membership. Qed.
Print Assumptions announce_membership.

(* the invariant needed above holds in every reachable state *)
Theorem invariant_reachable : forall m c pool dl ops,
  guarded ops (init m c pool dl) = true -> data_inv (run ops (init m c pool dl)).
Proof. exact Lemmas.invariant_reachable. Qed.
Print Assumptions invariant_reachable.

(* stable order for the three primitive mutations (add_component / remove_component with cascade / update_id);
   set_coords and update_values_from_data are sequences of these (their order is covered by the correspondence) *)
Theorem order_stable_basic : forall s, NoDup (keys (comps s)) ->
  (forall c, exists f, comps (remove_component c s) = filter f (comps s)) /\
  (forall c k, keys (comps (add_core c k s)) = if has_key c (comps s) then keys (comps s) else keys (comps s) ++ [c]) /\
  (forall o n, used o s = true -> used n s = false -> o <> n ->
     keys (comps (fst (update_id o n s))) = replz o n (keys (comps s))).
Proof. exact Lemmas.order_stable_basic. Qed.
Print Assumptions order_stable_basic.

(* ---- tie of the lookup-by-name model to the source by translation: find_component_id is Data.find_component_id
   REGENERATED from glue/core/data.py on every run (tools/gen/gen_findcid.py) ---- *)
Theorem find_in_is_generated : forall (cls : list (list Z)) (p : Z -> bool),
  find_component_id cls p = find_in cls p.
Proof. exact GenLink.find_in_is_generated. Qed.
Print Assumptions find_in_is_generated.

(* ... and the source searches the classes in the order main > derived > coordinate > linked *)
Theorem find_order_is_precedence : find_order = [0; 1; 2; 3]%Z.
Proof. exact GenLink.find_order_is_precedence. Qed.
Print Assumptions find_order_is_precedence.

(* ---- tie of the mutation API to the source by translation.  Gen_datamut.remove_component (with
   _removed_derived_that_depend_on), reorder_components, update_id and update_components are REGENERATED from
   glue/core/data.py on every run (tools/gen/gen_datamut.py), statement by statement, over an abstract object state;
   [env17] (Model.v) instantiates that state with the model's.  [step_g] / [run_g] take these calls from the generated
   code. ---- *)

(* the generated removal cascade (collect-then-remove, recursion with explicit fuel, hub guard, the two broadcasts in their
   order) computes the model's cascade, on every state with distinct ids and with any fuel *)
Theorem gen_remove_is_model : forall n c s, NoDup (keys (comps s)) ->
  Gen_datamut.remove_component env17 n c s = Model.remove_fuel n c s.
Proof. exact GenEquiv.gen_remove_is_model. Qed.
Print Assumptions gen_remove_is_model.

(* the generated reorder_components (both validity checks, the search for a difference, the rebuilt table, the message) *)
Theorem gen_reorder_is_model : forall (l : list Z) s, NoDup (keys (comps s)) -> g_reorder l s = reorder l s.
Proof. exact GenEquiv.gen_reorder_is_model. Qed.
Print Assumptions gen_reorder_is_model.

(* the generated update_id (order-preserving replacement of the key, of the pixel / world id, re-targeting of the links, message) *)
Theorem gen_update_id_is_model : forall (o n : Z) s, data_inv s -> g_update_id o n s = Model.update_id o n s.
Proof. exact GenEquiv.gen_update_id_is_model. Qed.
Print Assumptions gen_update_id_is_model.

(* the generated update_components (loop that stops at the first error, cache clearing, message), on the modelled domain *)
Theorem gen_update_comps_is_model : forall l s, snd (update_comps l s) <> RUnmodelled -> g_update_comps l s = update_comps l s.
Proof. exact GenEquiv.gen_update_comps_is_model. Qed.
Print Assumptions gen_update_comps_is_model.

(* each generated mutator preserves the structure invariant *)
Theorem gen_mutators_preserve_invariant : forall s, data_inv s ->
  (forall c, guard_op s (ORemove c) = true ->
     data_inv (Gen_datamut.remove_component env17 (length (comps s)) c s)) /\
  (forall l, data_inv (fst (Gen_datamut.reorder_components env17 l s))) /\
  (forall o n, guard_op s (OUpdateId o n) = true -> negb (o =? n) && used o s && used n s = false ->
     data_inv (Gen_datamut.update_id env17 o n s)) /\
  (forall l, snd (update_comps l s) <> RUnmodelled -> data_inv (fst (Gen_datamut.update_components env17 l s))).
Proof. exact GenTransport.gen_mutators_preserve_invariant. Qed.
Print Assumptions gen_mutators_preserve_invariant.

(* data_inv_reachable_partial, about runs through the generated code *)
Theorem gen_data_inv_reachable_partial : forall m c pool dl ops,
  guarded ops (init m c pool dl) = true ->
  structurally_consistent (run_g ops (init m c pool dl)).
Proof. exact GenTransport.gen_data_inv_reachable_partial. Qed.
Print Assumptions gen_data_inv_reachable_partial.

(* announce_exact, about a call through the generated code (remove_component with its cascade, reorder_components,
   update_components: exactly the ids that left are announced, once each, one ComponentsChangedMessage per removal, the
   documented reorder / numerical message and nothing else; nothing without a hub or on a failed call) *)
Theorem gen_announce_exact : forall o s, data_inv s -> guard_op s o = true -> special o = false ->
  let s' := fst (step_g o s) in
  (hub s = NoHub -> log s' = []) /\
  (hub s <> NoHub ->
     let out := filter nonext (log s') in
     NoDup (adds out) /\ NoDup (removes out) /\
     (forall x, In x (adds out) <-> In x (K s') /\ ~ In x (K s)) /\
     (forall x, In x (removes out) <-> In x (K s) /\ ~ In x (K s')) /\
     nchanged out = (length (adds out) + length (removes out))%nat /\
     others out = expected_others o s (snd (step_g o s))).
Proof. exact GenTransport.gen_announce_exact. Qed.
Print Assumptions gen_announce_exact.

(* announce_update_id, about the generated update_id *)
Theorem gen_announce_update_id : forall o n s, data_inv s ->
  let s' := fst (step_g (OUpdateId o n) s) in
  (hub s = NoHub -> log s' = []) /\
  (hub s <> NoHub -> filter nonext (log s') =
     if negb (o =? n) && negb (used o s && used n s) && used o s then [MReplaced o n] else []).
Proof. exact GenTransport.gen_announce_update_id. Qed.
Print Assumptions gen_announce_update_id.
