(* C17 — list and association-list facts used by the proofs *)
From Coq Require Import ZArith List Bool Lia Permutation.
Import ListNotations.
From GV Require Import Common.Wire C17.Model.
Open Scope Z_scope.

Lemma memz_In : forall x l, memz x l = true <-> In x l.
Proof.
  intros x l. unfold memz. rewrite existsb_exists. split.
  - intros [y [Hy He]]. apply Z.eqb_eq in He. subst. exact Hy.
  - intros H. exists x. split; [exact H | apply Z.eqb_refl].
Qed.

Lemma memz_false : forall x l, memz x l = false <-> ~ In x l.
Proof.
  intros x l. rewrite <- memz_In. destruct (memz x l); split; intros H; try congruence.
Qed.

Lemma eqlz_eq : forall a b, eqlz a b = true <-> a = b.
Proof.
  induction a as [|x a IH]; destruct b as [|y b]; simpl; split; intros H; try reflexivity; try discriminate.
  - apply andb_true_iff in H. destruct H as [H1 H2]. apply Z.eqb_eq in H1. apply IH in H2. subst. reflexivity.
  - inversion H; subst. rewrite Z.eqb_refl. simpl. apply IH. reflexivity.
Qed.

Lemma eqlz_refl : forall a, eqlz a a = true.
Proof. intros. apply eqlz_eq. reflexivity. Qed.

Lemma subsetz_spec : forall a b, subsetz a b = true <-> (forall x, In x a -> In x b).
Proof.
  intros a b. unfold subsetz. rewrite forallb_forall. split; intros H x Hx.
  - apply memz_In. apply H. exact Hx.
  - apply memz_In. apply H. exact Hx.
Qed.

Lemma has_dup_false : forall l, has_dup l = false <-> NoDup l.
Proof.
  induction l as [|x l IH]; simpl.
  - split; intros; [constructor | reflexivity].
  - rewrite orb_false_iff. split.
    + intros [H1 H2]. constructor; [apply memz_false; exact H1 | apply IH; exact H2].
    + intros H. inversion H; subst. split; [apply memz_false; assumption | apply IH; assumption].
Qed.

(* ---------- keys / assoc ---------- *)
Lemma keys_app : forall A (a b : list (Z * A)), keys (a ++ b) = keys a ++ keys b.
Proof. intros. unfold keys. apply map_app. Qed.

Lemma has_key_In : forall A k (l : list (Z * A)), has_key k l = true <-> In k (keys l).
Proof. intros. unfold has_key. apply memz_In. Qed.

Lemma has_key_false : forall A k (l : list (Z * A)), has_key k l = false <-> ~ In k (keys l).
Proof. intros. unfold has_key. apply memz_false. Qed.

Lemma assoc_None : forall A k (l : list (Z * A)), assoc k l = None <-> ~ In k (keys l).
Proof.
  induction l as [|[k' v] l IH]; simpl.
  - split; intros; [intros [] | reflexivity].
  - destruct (k' =? k) eqn:E.
    + apply Z.eqb_eq in E. subst. split; [discriminate | intros H; exfalso; apply H; left; reflexivity].
    + apply Z.eqb_neq in E. rewrite IH. split; intros H; [intros [H1|H1]; [congruence | auto] | intros H1; apply H; right; exact H1].
Qed.

Lemma assoc_Some_In : forall A k v (l : list (Z * A)), assoc k l = Some v -> In (k, v) l.
Proof.
  induction l as [|[k' v'] l IH]; simpl; intros H; [discriminate|].
  destruct (k' =? k) eqn:E.
  - apply Z.eqb_eq in E. inversion H; subst. left. reflexivity.
  - right. apply IH. exact H.
Qed.

Lemma In_keys : forall A k v (l : list (Z * A)), In (k, v) l -> In k (keys l).
Proof. intros. unfold keys. apply (in_map fst) in H. exact H. Qed.

Lemma In_keys_ex : forall A k (l : list (Z * A)), In k (keys l) -> exists v, In (k, v) l.
Proof.
  intros A k l H. unfold keys in H. apply in_map_iff in H. destruct H as [[k' v] [H1 H2]]. simpl in H1. subst. exists v. exact H2.
Qed.

Lemma In_assoc : forall A k v (l : list (Z * A)), NoDup (keys l) -> In (k, v) l -> assoc k l = Some v.
Proof.
  induction l as [|[k' v'] l IH]; simpl; intros ND H; [contradiction|].
  inversion ND as [|? ? Hn ND']; subst.
  destruct H as [H|H].
  - inversion H; subst. rewrite Z.eqb_refl. reflexivity.
  - destruct (k' =? k) eqn:E.
    + apply Z.eqb_eq in E. subst. exfalso. apply Hn. eapply In_keys. exact H.
    + apply IH; assumption.
Qed.

Lemma assoc_In_keys : forall A k v (l : list (Z * A)), assoc k l = Some v -> In k (keys l).
Proof. intros. eapply In_keys. apply assoc_Some_In. exact H. Qed.

(* ---------- put ---------- *)
Lemma keys_put : forall A k (v : A) l, keys (put k v l) = if has_key k l then keys l else keys l ++ [k].
Proof.
  induction l as [|[k' v'] l IH]; simpl; [reflexivity|].
  unfold has_key in *. simpl. rewrite (Z.eqb_sym k k').
  destruct (k' =? k) eqn:E; simpl.
  - apply Z.eqb_eq in E. subst. reflexivity.
  - rewrite IH. destruct (memz k (keys l)); reflexivity.
Qed.

Lemma assoc_put_same : forall A k (v : A) l, assoc k (put k v l) = Some v.
Proof.
  induction l as [|[k' v'] l IH]; simpl.
  - rewrite Z.eqb_refl. reflexivity.
  - destruct (k' =? k) eqn:E; simpl.
    + rewrite Z.eqb_refl. reflexivity.
    + rewrite E. exact IH.
Qed.

Lemma assoc_put_other : forall A k k2 (v : A) l, k2 <> k -> assoc k2 (put k v l) = assoc k2 l.
Proof.
  induction l as [|[k' v'] l IH]; simpl; intros Hne.
  - destruct (k =? k2) eqn:E; [apply Z.eqb_eq in E; congruence | reflexivity].
  - destruct (k' =? k) eqn:E; simpl.
    + apply Z.eqb_eq in E. subst. destruct (k =? k2) eqn:E2; [apply Z.eqb_eq in E2; congruence | reflexivity].
    + destruct (k' =? k2); [reflexivity | apply IH; exact Hne].
Qed.

Lemma NoDup_snoc : forall (x : Z) l, NoDup l -> ~ In x l -> NoDup (l ++ [x]).
Proof.
  induction l as [|y l IH]; simpl; intros ND Hn.
  - constructor; [intros [] | constructor].
  - inversion ND; subst. constructor.
    + rewrite in_app_iff. intros [H|[H|[]]]; [contradiction | subst; apply Hn; left; reflexivity].
    + apply IH; [assumption | intros H; apply Hn; right; exact H].
Qed.

Lemma NoDup_keys_put : forall A k (v : A) l, NoDup (keys l) -> NoDup (keys (put k v l)).
Proof.
  intros A k v l ND. rewrite keys_put. destruct (has_key k l) eqn:E; [exact ND|].
  apply has_key_false in E. apply NoDup_snoc; assumption.
Qed.

Lemma In_put_iff : forall A k (v : A) l x w, NoDup (keys l) ->
  (In (x, w) (put k v l) <-> (x = k /\ w = v) \/ (x <> k /\ In (x, w) l)).
Proof.
  intros A k v l x w ND. split.
  - intros H. pose proof (NoDup_keys_put A k v l ND) as ND2.
    apply In_assoc in H; [|exact ND2].
    destruct (Z.eq_dec x k) as [->|Hne].
    + rewrite assoc_put_same in H. inversion H. left. split; reflexivity.
    + rewrite assoc_put_other in H by exact Hne. right. split; [exact Hne | apply assoc_Some_In; exact H].
  - intros [[-> ->]|[Hne H]].
    + apply assoc_Some_In. apply assoc_put_same.
    + apply assoc_Some_In. rewrite assoc_put_other by exact Hne. apply In_assoc; assumption.
Qed.

(* ---------- del_key / filter ---------- *)
Lemma keys_filter_In : forall A (f : Z * A -> bool) l x, In x (keys (filter f l)) -> In x (keys l).
Proof.
  intros A f l x H. apply In_keys_ex in H. destruct H as [v H]. apply filter_In in H. eapply In_keys. apply H.
Qed.

Lemma NoDup_keys_filter : forall A (f : Z * A -> bool) l, NoDup (keys l) -> NoDup (keys (filter f l)).
Proof.
  induction l as [|[k v] l IH]; simpl; intros ND; [constructor|].
  inversion ND; subst. destruct (f (k, v)); simpl.
  - constructor; [intros H; apply H1; eapply keys_filter_In; exact H | apply IH; assumption].
  - apply IH; assumption.
Qed.

Lemma assoc_filter : forall A (f : Z * A -> bool) l k v, NoDup (keys l) ->
  assoc k (filter f l) = Some v <-> (assoc k l = Some v /\ f (k, v) = true).
Proof.
  intros A f l k v ND. split.
  - intros H. apply assoc_Some_In in H. apply filter_In in H. destruct H as [H1 H2]. split; [apply In_assoc; assumption | exact H2].
  - intros [H1 H2]. apply In_assoc; [apply NoDup_keys_filter; exact ND|]. apply filter_In. split; [apply assoc_Some_In; exact H1 | exact H2].
Qed.

Lemma keys_del_key : forall A k (l : list (Z * A)) x, In x (keys (del_key k l)) <-> In x (keys l) /\ x <> k.
Proof.
  intros A k l x. unfold del_key. split.
  - intros H. apply In_keys_ex in H. destruct H as [v H]. apply filter_In in H. destruct H as [H1 H2]. simpl in H2.
    split; [eapply In_keys; exact H1 | apply negb_true_iff in H2; apply Z.eqb_neq in H2; exact H2].
  - intros [H Hne]. apply In_keys_ex in H. destruct H as [v H]. apply (In_keys A x v). apply filter_In. split; [exact H|].
    simpl. apply negb_true_iff. apply Z.eqb_neq. exact Hne.
Qed.

Lemma filter_length_le : forall A (f : A -> bool) l, (length (filter f l) <= length l)%nat.
Proof. induction l; simpl; [lia | destruct (f a); simpl; lia]. Qed.

Lemma del_key_length : forall A k (l : list (Z * A)), In k (keys l) -> (length (del_key k l) < length l)%nat.
Proof.
  induction l as [|[k' v] l IH]; simpl; intros H; [contradiction|].
  destruct (k' =? k) eqn:E; simpl.
  - pose proof (filter_length_le _ (fun kv : Z * A => negb (fst kv =? k)) l). unfold del_key. lia.
  - destruct H as [H|H]; [apply Z.eqb_neq in E; congruence|]. apply IH in H. unfold del_key in *. lia.
Qed.

Lemma filter_filter : forall A (f g : A -> bool) l, filter f (filter g l) = filter (fun x => g x && f x) l.
Proof.
  induction l; simpl; [reflexivity|]. destruct (g a); simpl; [destruct (f a); rewrite IHl; reflexivity | exact IHl].
Qed.

Lemma keys_length : forall A (l : list (Z * A)), length (keys l) = length l.
Proof. intros. unfold keys. apply map_length. Qed.

(* replz *)
Lemma replz_notin : forall o n l, ~ In o l -> replz o n l = l.
Proof.
  induction l as [|x l IH]; simpl; intros H; [reflexivity|].
  destruct (x =? o) eqn:E; [apply Z.eqb_eq in E; subst; exfalso; apply H; left; reflexivity|].
  f_equal. apply IH. intros H1. apply H. right. exact H1.
Qed.

Lemma replz_length : forall o n l, length (replz o n l) = length l.
Proof. intros. unfold replz. apply map_length. Qed.

Lemma In_replz : forall o n l x, In x (replz o n l) -> x = n \/ (x <> o /\ In x l).
Proof.
  intros o n l x H. unfold replz in H. apply in_map_iff in H. destruct H as [y [H1 H2]].
  destruct (y =? o) eqn:E; [left; congruence|]. apply Z.eqb_neq in E. right. subst. split; assumption.
Qed.

Lemma NoDup_replz : forall o n l, NoDup l -> ~ In n l -> NoDup (replz o n l).
Proof.
  induction l as [|x l IH]; simpl; intros ND Hn; [constructor|].
  inversion ND as [|? ? Hx ND']; subst.
  assert (Hn' : ~ In n l) by (intros H; apply Hn; right; exact H).
  destruct (x =? o) eqn:E.
  - apply Z.eqb_eq in E. subst. rewrite (replz_notin o n l Hx). constructor; assumption.
  - apply Z.eqb_neq in E. constructor; [|apply IH; assumption].
    intros H. apply In_replz in H. destruct H as [H|[_ H]]; [subst; apply Hn; left; reflexivity | contradiction].
Qed.

Lemma nth_error_replz : forall o n l i c, nth_error (replz o n l) i = Some c ->
  exists c0, nth_error l i = Some c0 /\ c = (if c0 =? o then n else c0).
Proof.
  intros o n l i c H. unfold replz in H. rewrite nth_error_map in H.
  destruct (nth_error l i) as [c0|]; simpl in H; [|discriminate]. inversion H. exists c0. split; reflexivity.
Qed.

Lemma removez_In : forall x l y, In y (removez x l) <-> In y l /\ y <> x.
Proof.
  intros x l y. unfold removez. rewrite filter_In. rewrite negb_true_iff, Z.eqb_neq. tauto.
Qed.

Lemma NoDup_app_intro : forall (a b : list Z), NoDup a -> NoDup b -> (forall x, In x a -> ~ In x b) -> NoDup (a ++ b).
Proof.
  induction a as [|x a IH]; simpl; intros b Ha Hb Hd; [exact Hb|].
  inversion Ha; subst. constructor.
  - rewrite in_app_iff. intros [H|H]; [contradiction | apply (Hd x); [left; reflexivity | exact H]].
  - apply IH; [assumption | assumption | intros y Hy; apply Hd; right; exact Hy].
Qed.
