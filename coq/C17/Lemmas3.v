(* C17 — effect of remove_component (with its recursive cascade): structure and messages *)
From Coq Require Import ZArith List Bool Lia Permutation.
Import ListNotations.
From GV Require Import Common.Wire C17.Model C17.Lemmas1 C17.Lemmas2.
Open Scope Z_scope.

(* ---------- classification of messages ---------- *)
Definition adds (l : list msg) : list cid := flat_map (fun m => match m with MAdd c => [c] | _ => [] end) l.
Definition removes (l : list msg) : list cid := flat_map (fun m => match m with MRemove c => [c] | _ => [] end) l.
Definition is_mchanged (m : msg) : bool := match m with MChanged => true | _ => false end.
Definition nchanged (l : list msg) : nat := length (filter is_mchanged l).
(* everything that is not Add / Remove / ComponentsChanged *)
Definition is_other (m : msg) : bool := match m with MAdd _ | MRemove _ | MChanged => false | _ => true end.
Definition others (l : list msg) : list msg := filter is_other l.

Lemma adds_app : forall a b, adds (a ++ b) = adds a ++ adds b.
Proof. intros. unfold adds. apply flat_map_app. Qed.
Lemma removes_app : forall a b, removes (a ++ b) = removes a ++ removes b.
Proof. intros. unfold removes. apply flat_map_app. Qed.
Lemma nchanged_app : forall a b, nchanged (a ++ b) = (nchanged a + nchanged b)%nat.
Proof. intros. unfold nchanged. rewrite filter_app, app_length. reflexivity. Qed.
Lemma others_app : forall a b, others (a ++ b) = others a ++ others b.
Proof. intros. unfold others. apply filter_app. Qed.

(* ---------- how a piece of the model acts on the hub ---------- *)
Record effect (s s' : st) (out : list msg) : Prop := {
  ef_hub : hub s' = hub s;
  ef_trace : hub s <> NoHub -> emitted s' = emitted s ++ out;
  ef_nohub : hub s = NoHub -> log s' = log s /\ queue s' = queue s /\ ext s' = ext s;
  ef_queue : queue s = None -> queue s' = None;
  ef_clean : queue_clean s -> queue_clean s';
  ef_out : forallb nonext out = true
}.

Lemma effect_refl : forall s, effect s s [].
Proof. intros s. constructor; auto. intros _. rewrite app_nil_r. reflexivity. Qed.

Lemma effect_trans : forall s s1 s2 o1 o2, effect s s1 o1 -> effect s1 s2 o2 -> effect s s2 (o1 ++ o2).
Proof.
  intros s s1 s2 o1 o2 [h1 t1 n1 q1 c1 u1] [h2 t2 n2 q2 c2 u2]. constructor.
  - congruence.
  - intros H. rewrite t2 by congruence. rewrite t1 by exact H. rewrite app_assoc. reflexivity.
  - intros H. destruct (n1 H) as [a [b c]]. destruct (n2 (eq_trans h1 H)) as [a' [b' c']]. repeat split; congruence.
  - auto.
  - auto.
  - rewrite forallb_app, u1, u2. reflexivity.
Qed.

Lemma effect_emit : forall m s, nonext m = true -> effect s (emit m s) [m].
Proof.
  intros m s Hm. constructor.
  - apply hub_emit.
  - intros H. apply emitted_emit; assumption.
  - intros H. rewrite emit_nohub by exact H. auto.
  - apply queue_emit_none.
  - apply queue_clean_emit. exact Hm.
  - simpl. rewrite Hm. reflexivity.
Qed.

(* states that differ only in fields the hub never looks at *)
Lemma effect_same_hub : forall s s', hub s' = hub s -> log s' = log s -> queue s' = queue s -> ext s' = ext s -> effect s s' [].
Proof.
  intros s s' H1 H2 H3 H4. constructor; auto.
  - intros _. unfold emitted. rewrite H2, H3, app_nil_r. reflexivity.
  - intros Q. congruence.
  - unfold queue_clean. rewrite H3. auto.
Qed.

(* ---------- specification of a removal ---------- *)
Definition rest (s : st) := (shape s, pixel s, world s, crd s, clinks s, labels s, parents s, dlabel s, next s).

Record rm_spec (P : cid -> Prop) (s s' : st) (out : list msg) : Prop := {
  rm_sub : exists f, comps s' = filter f (comps s);
  rm_only : forall x k, In (x, k) (comps s) -> ~ In x (keys (comps s')) -> P x \/ is_derived k = true;
  rm_target : forall c, P c -> ~ In c (keys (comps s'));
  rm_rest : rest s' = rest s;
  rm_stuck : stuck s' = stuck s;
  rm_eff : effect s s' out;
  rm_adds : adds out = [];
  rm_nodup : NoDup (removes out);
  rm_removes : forall x, In x (removes out) <-> In x (keys (comps s)) /\ ~ In x (keys (comps s'));
  rm_changed : nchanged out = length (removes out);
  rm_others : others out = []
}.

Lemma sub_keys : forall (f : cid * kind -> bool) l x, In x (keys (filter f l)) -> In x (keys l).
Proof. intros. eapply keys_filter_In. exact H. Qed.

Lemma sub_entry : forall (f : cid * kind -> bool) l x k, NoDup (keys l) -> In (x, k) l -> In x (keys (filter f l)) -> In (x, k) (filter f l).
Proof.
  intros f l x k ND Hin Hk. apply In_keys_ex in Hk. destruct Hk as [k' Hk'].
  assert (E : k' = k).
  { apply filter_In in Hk'. destruct Hk' as [H1 _]. apply In_assoc in H1; [|exact ND]. apply In_assoc in Hin; [|exact ND]. congruence. }
  subst. exact Hk'.
Qed.

Lemma rm_spec_nothing : forall (P : cid -> Prop) s, (forall c, P c -> ~ In c (keys (comps s))) -> rm_spec P s s [].
Proof.
  intros P s HP. constructor; simpl; auto.
  - exists (fun _ => true). clear. induction (comps s) as [|a l IH]; simpl; [reflexivity | f_equal; exact IH].
  - intros x k Hin Hn. exfalso. apply Hn. eapply In_keys. exact Hin.
  - apply effect_refl.
  - constructor.
  - intros x. split; [intros [] | intros [H1 H2]; contradiction].
Qed.

Section Fuel.
  Variable n : nat.
  Hypothesis IHn : forall c s, (length (comps s) <= n)%nat -> NoDup (keys (comps s)) ->
                               exists out, rm_spec (eq c) s (remove_fuel n c s) out.

  Lemma rm_fold : forall cs s, (length (comps s) <= n)%nat -> NoDup (keys (comps s)) ->
    exists out, rm_spec (fun x => In x cs) s (fold_left (fun acc d => remove_fuel n d acc) cs s) out.
  Proof.
    induction cs as [|d cs IH]; intros s Hlen ND; simpl.
    - exists []. apply rm_spec_nothing. intros c [].
    - destruct (IHn d s Hlen ND) as [o1 S1].
      set (s1 := remove_fuel n d s) in *.
      destruct (rm_sub _ _ _ _ S1) as [f1 Hf1].
      assert (Hlen1 : (length (comps s1) <= n)%nat).
      { rewrite Hf1. pose proof (filter_length_le _ f1 (comps s)). lia. }
      assert (ND1 : NoDup (keys (comps s1))) by (rewrite Hf1; apply NoDup_keys_filter; exact ND).
      destruct (IH s1 Hlen1 ND1) as [o2 S2].
      set (s2 := fold_left (fun acc d0 => remove_fuel n d0 acc) cs s1) in *.
      destruct (rm_sub _ _ _ _ S2) as [f2 Hf2].
      assert (Sub21 : forall x, In x (keys (comps s2)) -> In x (keys (comps s1))).
      { intros x Hx. rewrite Hf2 in Hx. eapply sub_keys. exact Hx. }
      assert (Sub10 : forall x, In x (keys (comps s1)) -> In x (keys (comps s))).
      { intros x Hx. rewrite Hf1 in Hx. eapply sub_keys. exact Hx. }
      exists (o1 ++ o2). constructor.
      + exists (fun x => f1 x && f2 x). rewrite Hf2, Hf1. apply filter_filter.
      + intros x k Hin Hn.
        destruct (in_dec Z.eq_dec x (keys (comps s1))) as [H1|H1].
        * assert (Hin1 : In (x, k) (comps s1)) by (rewrite Hf1 in *; apply sub_entry; assumption).
          destruct (rm_only _ _ _ _ S2 x k Hin1 Hn) as [H|H]; [left; right; exact H | right; exact H].
        * destruct (rm_only _ _ _ _ S1 x k Hin H1) as [H|H]; [left; left; exact H | right; exact H].
      + intros c [Hc|Hc].
        * subst c. intros H. apply (rm_target _ _ _ _ S1 d eq_refl). apply Sub21. exact H.
        * apply (rm_target _ _ _ _ S2 c Hc).
      + rewrite (rm_rest _ _ _ _ S2). apply (rm_rest _ _ _ _ S1).
      + rewrite (rm_stuck _ _ _ _ S2). apply (rm_stuck _ _ _ _ S1).
      + eapply effect_trans; [apply (rm_eff _ _ _ _ S1) | apply (rm_eff _ _ _ _ S2)].
      + rewrite adds_app, (rm_adds _ _ _ _ S1), (rm_adds _ _ _ _ S2). reflexivity.
      + rewrite removes_app. apply NoDup_app_intro; [apply (rm_nodup _ _ _ _ S1) | apply (rm_nodup _ _ _ _ S2) |].
        intros x Hx1 Hx2. apply (rm_removes _ _ _ _ S1) in Hx1. apply (rm_removes _ _ _ _ S2) in Hx2. tauto.
      + intros x. rewrite removes_app, in_app_iff. rewrite (rm_removes _ _ _ _ S1 x), (rm_removes _ _ _ _ S2 x). split.
        * intros [[H1 H2]|[H1 H2]]; split; auto.
        * intros [H1 H2]. destruct (in_dec Z.eq_dec x (keys (comps s1))) as [H|H]; [right | left]; split; auto.
      + rewrite nchanged_app, removes_app, app_length, (rm_changed _ _ _ _ S1), (rm_changed _ _ _ _ S2). reflexivity.
      + rewrite others_app, (rm_others _ _ _ _ S1), (rm_others _ _ _ _ S2). reflexivity.
  Qed.
End Fuel.

Lemma deps_derived : forall c l x, In x (keys (filter (depends_on c) l)) -> exists k, In (x, k) l /\ is_derived k = true.
Proof.
  intros c l x H. apply In_keys_ex in H. destruct H as [k H]. apply filter_In in H. destruct H as [H1 H2].
  exists k. split; [exact H1|]. unfold depends_on in H2. simpl in H2. destruct k; simpl; congruence.
Qed.

Lemma remove_fuel_spec : forall n c s, (length (comps s) <= n)%nat -> NoDup (keys (comps s)) ->
  exists out, rm_spec (eq c) s (remove_fuel n c s) out.
Proof.
  induction n as [|n IH]; intros c s Hlen ND.
  - assert (E : comps s = []) by (destruct (comps s); [reflexivity | simpl in Hlen; lia]).
    simpl. unfold has_key. rewrite E. simpl. exists []. apply rm_spec_nothing. intros x _. rewrite E. intros [].
  - set (s1 := set_comps s (del_key c (comps s))).
    change (exists out, rm_spec (eq c) s
              (if has_key c (comps s)
               then emit MChanged (emit (MRemove c) (fold_left (fun acc d => remove_fuel n d acc) (keys (filter (depends_on c) (comps s1))) s1))
               else s) out).
    destruct (has_key c (comps s)) eqn:Hk.
    2:{ exists []. apply rm_spec_nothing. intros x <-. apply has_key_false. exact Hk. }
    apply has_key_In in Hk.
    assert (Hc1 : comps s1 = del_key c (comps s)) by reflexivity.
    assert (Hlen1 : (length (comps s1) <= n)%nat).
    { rewrite Hc1. pose proof (del_key_length _ c (comps s) Hk) as Hd. apply Nat.lt_succ_r. eapply Nat.lt_le_trans; [exact Hd | exact Hlen]. }
    assert (ND1 : NoDup (keys (comps s1))) by (rewrite Hc1; apply NoDup_keys_filter; exact ND).
    destruct (rm_fold n IH (keys (filter (depends_on c) (comps s1))) s1 Hlen1 ND1) as [o2 S2].
    set (s2 := fold_left (fun acc d => remove_fuel n d acc) (keys (filter (depends_on c) (comps s1))) s1) in *.
    destruct (rm_sub _ _ _ _ S2) as [f2 Hf2].
    assert (Sub21 : forall x, In x (keys (comps s2)) -> In x (keys (comps s1))).
    { intros x Hx. rewrite Hf2 in Hx. eapply sub_keys. exact Hx. }
    assert (Hcomps' : comps (emit MChanged (emit (MRemove c) s2)) = comps s2) by (rewrite !comps_emit; reflexivity).
    assert (Hnc1 : ~ In c (keys (comps s1))).
    { rewrite Hc1. intros H. apply keys_del_key in H. destruct H as [_ H]. apply H. reflexivity. }
    exists (o2 ++ [MRemove c; MChanged]). constructor.
    + exists (fun x => negb (fst x =? c) && f2 x). rewrite Hcomps', Hf2, Hc1. unfold del_key. apply filter_filter.
    + intros x k Hin Hn. rewrite Hcomps' in Hn.
      destruct (Z.eq_dec x c) as [->|Hne]; [left; reflexivity|]. right.
      assert (Hin1 : In (x, k) (comps s1)).
      { rewrite Hc1. unfold del_key. apply filter_In. split; [exact Hin|]. simpl. apply negb_true_iff. apply Z.eqb_neq. exact Hne. }
      destruct (rm_only _ _ _ _ S2 x k Hin1 Hn) as [H|H]; [|exact H].
      apply deps_derived in H. destruct H as [k' [H1 H2]].
      apply In_assoc in H1; [|exact ND1]. apply In_assoc in Hin1; [|exact ND1]. congruence.
    + intros x <-. rewrite Hcomps'. intros H. apply Hnc1. apply Sub21. exact H.
    + pose proof (core_emit MChanged (emit (MRemove c) s2)) as C1. pose proof (core_emit (MRemove c) s2) as C2.
      core_inj C1. core_inj C2. pose proof (rm_rest _ _ _ _ S2) as R. unfold rest in *. simpl in R.
      injection R as R1 R2 R3 R4 R5 R6 R7 R8 R9. simpl. congruence.
    + pose proof (core_emit MChanged (emit (MRemove c) s2)) as C1. pose proof (core_emit (MRemove c) s2) as C2.
      core_inj C1. core_inj C2. rewrite Hstuck, Hstuck0. apply (rm_stuck _ _ _ _ S2).
    + assert (E0 : effect s s1 []).
      { apply effect_same_hub; reflexivity. }
      replace (o2 ++ [MRemove c; MChanged]) with ([] ++ o2 ++ [MRemove c] ++ [MChanged]) by reflexivity.
      eapply effect_trans; [exact E0|]. eapply effect_trans; [apply (rm_eff _ _ _ _ S2)|].
      eapply effect_trans; apply effect_emit; reflexivity.
    + rewrite adds_app, (rm_adds _ _ _ _ S2). reflexivity.
    + rewrite removes_app. simpl. apply NoDup_app_intro; [apply (rm_nodup _ _ _ _ S2) | constructor; [intros [] | constructor] |].
      intros x Hx [<-|[]]. apply (rm_removes _ _ _ _ S2) in Hx. tauto.
    + intros x. rewrite removes_app, in_app_iff, Hcomps'. rewrite (rm_removes _ _ _ _ S2 x).
      change (removes [MRemove c; MChanged]) with [c]. split.
      * intros [[H1 H2]|[<-|[]]].
        -- split; [|exact H2]. rewrite Hc1 in H1. apply keys_del_key in H1. tauto.
        -- split; [exact Hk|]. intros H. apply Hnc1. apply Sub21. exact H.
      * intros [H1 H2]. destruct (Z.eq_dec x c) as [->|Hne]; [right; left; reflexivity|].
        left. split; [|exact H2]. rewrite Hc1. apply keys_del_key. split; assumption.
    + rewrite nchanged_app, removes_app, app_length, (rm_changed _ _ _ _ S2). reflexivity.
    + rewrite others_app, (rm_others _ _ _ _ S2). reflexivity.
Qed.
