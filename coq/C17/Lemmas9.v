(* C17 — announcements of update_values_from_data, update_id, collection membership; the theorem announce_exact *)
From Coq Require Import ZArith List Bool Lia Permutation.
Import ListNotations.
From GV Require Import Common.Wire C17.Model C17.Lemmas1 C17.Lemmas2 C17.Lemmas3 C17.Lemmas4 C17.Lemmas5 C17.Lemmas6 C17.Lemmas7 C17.Lemmas8.
Open Scope Z_scope.

Lemma ann_remove_list : forall gone s, NoDup (K s) ->
  exists out, rems_only s (fold_left (fun acc c => remove_component c acc) gone s) out.
Proof.
  induction gone as [|c gone IH]; intros s ND; simpl.
  - exists []. constructor; try reflexivity. apply ann_refl.
  - destruct (remove_component_spec c s ND) as [o1 S].
    assert (ND1 : NoDup (K (remove_component c s))) by (unfold K; eapply rm_nodup'; eassumption).
    destruct (IH _ ND1) as [o2 [A2 Ad2 O2]].
    exists (o1 ++ o2). constructor.
    + eapply ann_trans; [eapply ann_remove; exact S | exact A2 | |].
      * intros x Hx. rewrite (rm_adds _ _ _ _ S) in Hx. destruct Hx.
      * intros x _. rewrite Ad2. intros [].
    + rewrite adds_app, (rm_adds _ _ _ _ S), Ad2. reflexivity.
    + rewrite others_app, (rm_others _ _ _ _ S), O2. reflexivity.
Qed.

(* the new stored attributes of update_values_from_data *)
Record mains_ann (sh : list Z) (s s' : st) (out : list msg) : Prop := {
  ma_ann : ann_spec s s' out;
  ma_rems : removes out = [];
  ma_others : others out = [];
  ma_fresh : forall x, In x (adds out) -> next s <= x;
  ma_kind : forall x, In x (adds out) -> assoc x (comps s') = Some (KMain sh);
  ma_keep : forall x k, assoc x (comps s) = Some k -> assoc x (comps s') = Some k;
  ma_next : next s <= next s'
}.

Lemma ann_add_mains : forall sh old mains s, data_inv s -> shape s = sh ->
  exists out, mains_ann sh s
    (fold_left (fun acc l => if memz l old then acc else let '(c, a1) := fresh l acc in add_core c (KMain sh) a1) mains s) out.
Proof.
  induction mains as [|l mains IH]; intros s I Hs; cbn [fold_left]; cbv zeta.
  - exists []. constructor.
    + apply ann_refl.
    + reflexivity.
    + reflexivity.
    + intros x [].
    + intros x [].
    + intros x k H. exact H.
    + lia.
  - destruct (memz l old); [apply IH; assumption|].
    rewrite (fresh_eq l s). cbv beta iota zeta.
    assert (I1 : data_inv (add_core (next s) (KMain sh) (snd (fresh l s)))).
    { apply fresh_put_data_inv; [exact I | reflexivity | intros sh0 E; inversion E; congruence]. }
    destruct (add_core_spec (next s) (KMain sh) (snd (fresh l s))) as [PS _].
    assert (C1 : call_ann s (add_core (next s) (KMain sh) (snd (fresh l s))) ([] ++ [MAdd (next s); MChanged]) []).
    { apply call_fresh_put; [apply call_refl | apply I | intros x []]. }
    destruct C1 as [A1 _]. simpl in A1.
    set (s1 := add_core (next s) (KMain sh) (snd (fresh l s))) in *.
    assert (Hc1 : comps s1 = put (next s) (KMain sh) (comps s)) by (rewrite (ps_comps _ _ _ _ PS); reflexivity).
    assert (Hn1 : next s1 = next s + 1) by (rewrite (ps_next _ _ _ _ PS); reflexivity).
    destruct (IH s1 I1) as [o2 [A2 R2 O2 F2 K2 P2 N2]]; [rewrite (ps_shape _ _ _ _ PS); simpl; exact Hs|].
    match goal with |- exists out, mains_ann sh s ?t out => set (s2 := t) in * end.
    exists ([MAdd (next s); MChanged] ++ o2). constructor.
    + eapply ann_trans; [exact A1 | exact A2 | |].
      * intros x _. rewrite R2. intros [].
      * intros x [].
    + rewrite removes_app, R2. reflexivity.
    + rewrite others_app, O2. reflexivity.
    + intros x Hx. rewrite adds_app in Hx. apply in_app_iff in Hx. destruct Hx as [[<-|[]]|Hx]; [lia | apply F2 in Hx; lia].
    + intros x Hx. rewrite adds_app in Hx. apply in_app_iff in Hx. destruct Hx as [[<-|[]]|Hx]; [|apply K2; exact Hx].
      apply P2. rewrite Hc1. apply assoc_put_same.
    + intros x k Hk. apply P2. rewrite Hc1. rewrite assoc_put_other; [exact Hk|].
      intros ->. pose proof I as [[P _] _ _ _ _]. apply assoc_In_keys in Hk. apply (p_fresh _ P) in Hk. lia.
    + lia.
Qed.

(* the coordinates setter, with what is needed to compose it after other pieces *)
Lemma set_coords_uw : forall v s, data_inv s ->
  exists out, uw_ann s (fst (set_coords v s)) out.
Proof.
  intros v s I. unfold set_coords.
  assert (Q0 : forall s', K s' = K s -> hub s' = hub s -> log s' = log s -> queue s' = queue s -> ext s' = ext s -> uw_ann s s' []).
  { intros s' H1 H2 H3 H4 H5. constructor; [apply ann_silent; assumption | reflexivity | intros x [] | intros x []]. }
  destruct (same_crd (crd s) v); [exists []; apply Q0; reflexivity|].
  destruct (comps s) as [|ck cs] eqn:E.
  - exists []. apply Q0; reflexivity.
  - destruct (coords_ok v s); [|exists []; apply Q0; reflexivity].
    cbv beta iota zeta delta [fst]. pose proof I as [WI _ _ _ q].
    destruct (ann_update_world (length (shape s)) (set_crd s v) (winv_set_crd s v WI) q) as [out [A O Rk Fr]].
    exists out. constructor; [|exact O | exact Rk | exact Fr].
    change out with ([] ++ out). eapply (ann_trans s (set_crd s v)); [apply ann_silent; reflexivity | exact A | intros x [] | intros x []].
Qed.

Lemma update_from_ann : forall x s, data_inv s ->
  exists out, call_ann s (fst (update_from x s)) out (expected_others (OUpdateFrom x) s (snd (update_from x s))).
Proof.
  intros x s I. unfold update_from, expected_others.
  destruct (has_dup (map (lab s) (keys (comps s)))); [exists []; apply call_refl|].
  destruct (has_dup (src_coord_labels x ++ src_main x)); [exists []; apply call_refl|].
  match goal with |- context [if negb ?b then _ else _] => destruct b eqn:EA end; [|exists []; apply call_refl].
  simpl negb. cbv iota. cbv beta iota zeta delta [fst snd].
  apply andb_true_iff in EA. destruct EA as [EA Ecrd].
  apply andb_true_iff in EA. destruct EA as [EA EA1].
  apply andb_true_iff in EA. destruct EA as [EA Em].
  apply andb_true_iff in EA. destruct EA as [EA Eok].
  unfold same_set in EA. apply andb_true_iff in EA. destruct EA as [EA _]. rewrite subsetz_spec in EA.
  apply Nat.eqb_eq in EA1.
  set (new_labels := src_coord_labels x ++ src_main x) in *.
  set (gone := filter (fun c => negb (memz (lab s c) new_labels)) (keys (comps s))).
  pose proof I as [[P W] _ _ _ _].
  assert (Hg : forall c, In c gone -> ~ In c (pixel s ++ world s)).
  { intros c Hc Hin. unfold gone in Hc. apply filter_In in Hc. destruct Hc as [_ Hc]. apply negb_true_iff in Hc. apply memz_false in Hc.
    apply Hc. unfold new_labels. apply in_app_iff. left. apply EA. apply in_map.
    apply in_app_iff in Hin. destruct Hin as [H|H]; apply In_nth_error in H; destruct H as [i H].
    - apply (p_pixel _ P) in H. eapply coord_in_coord_ids. apply assoc_Some_In. exact H.
    - apply W in H. eapply coord_in_coord_ids. apply assoc_Some_In. exact H. }
  destruct (remove_list_inv gone s I Hg) as [I1 R1].
  destruct (ann_remove_list gone s (p_nodup _ P)) as [o1 [A1 Ad1 O1]].
  set (s1 := fold_left (fun acc c => remove_component c acc) gone s) in *.
  unfold rest in R1. injection R1 as R1shape R1pixel R1world R1crd R1clinks R1labels R1parents R1dlabel R1next.
  assert (I3 : data_inv (set_comps (set_shape s1 (src_shape x))
                           (map (fun ck => (fst ck, match snd ck with KMain _ => KMain (src_shape x) | k => k end)) (comps s1)))).
  { change (data_inv (set_comps (set_shape s1 (src_shape x)) (map (fun ck => (fst ck, retype (src_shape x) (snd ck))) (comps s1)))).
    apply (reshape_inv s1 (src_shape x) I1). rewrite R1shape. exact EA1. }
  set (s3 := set_comps (set_shape s1 (src_shape x)) _) in *.
  assert (A13 : ann_spec s s3 o1).
  { replace o1 with (o1 ++ []) by apply app_nil_r. eapply ann_trans; [exact A1 | | intros y _ [] | intros y _ []].
    apply ann_silent; try reflexivity. unfold K, s3. simpl. apply (keys_map_val (retype (src_shape x))). }
  destruct (ann_add_mains (src_shape x) (map (lab s) (keys (comps s))) (src_main x) s3 I3 eq_refl) as [om [Am Rm Om Fm Km Pm Nm]].
  pose proof (add_mains_inv (src_shape x) (map (lab s) (keys (comps s))) (src_main x) s3 I3 eq_refl) as H4.
  cbv zeta in H4. destruct H4 as (I4 & S4 & C4).
  match type of I4 with data_inv ?t => set (s4 := t) in * end.
  assert (Hn3 : next s3 = next s) by (simpl; exact R1next).
  assert (A14 : ann_spec s s4 (o1 ++ om)).
  { eapply ann_trans; [exact A13 | exact Am | |].
    - intros y Hy. rewrite Ad1 in Hy. destruct Hy.
    - intros y Hy Hy2. apply Fm in Hy2. apply (an_rems _ _ _ A1) in Hy. destruct Hy as [Hy _]. apply (p_fresh _ P) in Hy. lia. }
  set (s5 := if dlabel s4 =? src_label x then s4 else emit MLabel (set_dlabel s4 (src_label x))).
  assert (Hd4 : dlabel s4 = dlabel s).
  { clear - R1dlabel. unfold s4. generalize (src_main x). intros mains. revert R1dlabel.
    assert (G : forall mains a, dlabel (fold_left (fun acc l => if memz l (map (lab s) (keys (comps s))) then acc
                  else let '(c, a1) := fresh l acc in add_core c (KMain (src_shape x)) a1) mains a) = dlabel a).
    { induction mains0 as [|l m IH]; intros a; cbn [fold_left]; [reflexivity|]. destruct (memz l _); [apply IH|].
      rewrite IH. rewrite (fresh_eq l a). cbv beta iota zeta.
      destruct (add_core_spec (next a) (KMain (src_shape x)) (snd (fresh l a))) as [PS _]. rewrite (ps_dlabel _ _ _ _ PS). reflexivity. }
    intros R. rewrite G. simpl. exact R. }
  set (lab_msgs := if dlabel s =? src_label x then [] else [MLabel]).
  assert (C5 : call_ann s s5 ((o1 ++ om) ++ lab_msgs) lab_msgs /\ data_inv s5 /\ comps s5 = comps s4 /\ world s5 = world s4 /\ next s5 = next s4).
  { unfold s5, lab_msgs. rewrite Hd4. destruct (dlabel s =? src_label x).
    - rewrite app_nil_r. split; [constructor; [exact A14 | rewrite others_app, O1, Om; reflexivity] | split; [exact I4 | repeat split]].
    - split.
      + change [MLabel] with ([] ++ [MLabel]) at 2. apply call_emit_other; [|reflexivity|reflexivity].
        eapply call_silent; [constructor; [exact A14 | rewrite others_app, O1, Om; reflexivity] | reflexivity ..].
      + pose proof (core_emit MLabel (set_dlabel s4 (src_label x))) as Ce. core_inj Ce. split; [|repeat split; assumption].
        apply data_inv_emit. eapply data_inv_fields; [|exact I4]. repeat split. }
  destruct C5 as ([A5 O5] & I5 & Hc5 & Hw5 & Hn5).
  destruct (set_coords_uw (src_crd x) s5 I5) as [ou [Au Ou Rku Fru]].
  set (s6 := fst (set_coords (src_crd x) s5)) in *.
  assert (A6 : ann_spec s s6 (((o1 ++ om) ++ lab_msgs) ++ ou)).
  { eapply ann_trans; [exact A5 | exact Au | |].
    - (* a stored attribute that has just been added is neither a world attribute nor a derived one *)
      intros y Hy Hy2. rewrite !adds_app in Hy. rewrite Ad1 in Hy. simpl in Hy.
      assert (Hlab : adds lab_msgs = []) by (unfold lab_msgs; destruct (dlabel s =? src_label x); reflexivity).
      rewrite Hlab, app_nil_r in Hy. apply Km in Hy. fold s4 in Hy. rewrite <- Hc5 in Hy.
      pose proof I5 as [[P5 W5] _ _ _ _].
      destruct (Rku y Hy2) as [Hw|[k [Hk Hd]]].
      + apply In_nth_error in Hw. destruct Hw as [i Hw]. apply W5 in Hw. congruence.
      + apply In_assoc in Hk; [|apply (p_nodup _ P5)]. rewrite Hk in Hy. inversion Hy. subst k. discriminate.
    - intros y Hy Hy2. apply Fru in Hy2. rewrite !removes_app, Rm in Hy.
      assert (Hlab : removes lab_msgs = []) by (unfold lab_msgs; destruct (dlabel s =? src_label x); reflexivity).
      rewrite Hlab, !app_nil_r in Hy. apply (an_rems _ _ _ A1) in Hy. destruct Hy as [Hy _]. apply (p_fresh _ P) in Hy.
      fold s4 in Nm. lia. }
  eexists. apply call_emit_other; [|reflexivity|reflexivity].
  constructor; [exact A6|]. rewrite others_app, O5, Ou. apply app_nil_r.
Qed.

(* ---------- update_id, join, leave: the messages themselves ---------- *)
Lemma update_id_eff : forall o n s,
  effect s (fst (update_id o n s))
         (if negb (o =? n) && negb (used o s && used n s) && used o s then [MReplaced o n] else []).
Proof.
  intros o n s. unfold update_id. destruct (o =? n); [apply effect_refl|]. simpl.
  destruct (used o s && used n s) eqn:EU; [apply effect_refl|]. simpl.
  set (s0 := if memz n (parents s) then s else set_parents s (n :: parents s)).
  assert (E0 : effect s s0 []) by (unfold s0; destruct (memz n (parents s)); [apply effect_refl | apply effect_same_hub; reflexivity]).
  assert (Fu : used o s0 = used o s) by (unfold s0; destruct (memz n (parents s)); reflexivity).
  rewrite Fu. destruct (used o s); [|exact E0]. cbv beta iota zeta delta [fst].
  change [MReplaced o n] with ([] ++ [] ++ [MReplaced o n]).
  eapply effect_trans; [exact E0|]. eapply effect_trans; [|apply effect_emit; reflexivity].
  apply effect_same_hub; reflexivity.
Qed.

Lemma step_log_of_effect : forall s s' out, log s = [] -> queue s = None -> effect s s' out ->
  (hub s <> NoHub -> filter nonext (log s') = out) /\ (hub s = NoHub -> log s' = []).
Proof.
  intros s s' out L Q E. split.
  - intros Hh. pose proof (ef_trace _ _ _ E Hh) as T. unfold emitted in T. rewrite (ef_queue _ _ _ E Q), L, Q in T. simpl in T.
    rewrite app_nil_r in T. exact T.
  - intros Hh. destruct (ef_nohub _ _ _ E Hh) as [H _]. rewrite H. exact L.
Qed.

Definition special (o : op) : bool := match o with OUpdateId _ _ | OJoin | OLeave => true | _ => false end.

Lemma step_ann : forall o s, data_inv s -> guard_op s o = true -> special o = false ->
  exists out, call_ann (set_log s []) (fst (step o s)) out (expected_others o s (snd (step o s))).
Proof.
  intros o s I G Sp. assert (I0 : data_inv (set_log s [])) by (apply data_inv_set_log; exact I).
  unfold step. destruct o; try discriminate.
  - destruct (add_new_ann l sh (set_log s []) I0) as [out C]. exists out.
    unfold expected_others. destruct (snd (add_new l sh (set_log s []))); exact C.
  - destruct (add_at_ann c sh (set_log s []) I0 G) as [out C]. exists out.
    unfold expected_others. destruct (snd (add_at c sh (set_log s []))); exact C.
  - destruct (add_derived_ann l from (set_log s []) I0) as [out C]. exists out.
    unfold expected_others. destruct (snd (add_derived l from (set_log s []))); exact C.
  - destruct (remove_ann c (set_log s []) I0) as [out C]. exists out. exact C.
  - apply (reorder_ann l (set_log s []) I0).
  - apply (rename_ann c l (set_log s [])).
  - destruct (set_coords_ann v (set_log s []) I0) as [out C]. exists out.
    unfold expected_others. destruct (snd (set_coords v (set_log s []))); exact C.
  - apply (update_comps_ann l (set_log s [])).
  - apply (update_from_ann x (set_log s []) I0).
Qed.
