(* C17 — announcements of every call of the mutation API *)
From Coq Require Import ZArith List Bool Lia Permutation.
Import ListNotations.
From GV Require Import Common.Wire C17.Model C17.Lemmas1 C17.Lemmas2 C17.Lemmas3 C17.Lemmas4 C17.Lemmas5 C17.Lemmas6 C17.Lemmas7.
Open Scope Z_scope.

(* the documented messages other than Add / Remove / ComponentsChanged *)
Definition expected_others (o : op) (s : st) (r : result) : list msg :=
  match r with
  | ROk =>
    match o with
    | OReorder l => if eqlz l (K s) then [] else [MReorder l]
    | ORename c _ => if memz c (parents s) then [MRename c] else []
    | OUpdateComps l => [MNumerical (Some (keys l))]
    | OUpdateFrom x => (if dlabel s =? src_label x then [] else [MLabel]) ++ [MNumerical None]
    | _ => []
    end
  | _ => []
  end.

Lemma call_first : forall sh s, data_inv s -> add_checks sh s = ROk ->
  exists out, call_ann s (first_component sh s) out [] /\ (forall x, In x (removes out) -> x < next (first_component sh s)).
Proof.
  intros sh s I EC. destruct (comps s) as [|ck cs] eqn:E.
  - destruct (ann_first_component sh s I E) as [out [A [O R]]]. exists out. split; [constructor; assumption|].
    intros x Hx. rewrite R in Hx. destruct Hx.
  - unfold first_component. rewrite E. exists []. split; [apply call_refl | intros x []].
Qed.

Lemma add_new_ann : forall l sh s, data_inv s ->
  exists out, call_ann s (fst (add_new l sh s)) out [].
Proof.
  intros l sh s I. unfold add_new. destruct (add_checks sh s) eqn:EC; try (exists []; apply call_refl).
  destruct (checks_ok sh s I EC) as (I1 & S1 & _ & _).
  destruct (call_first sh s I EC) as [out [C Hr]]. set (s1 := first_component sh s) in *.
  rewrite (fresh_eq l s1). cbv beta iota zeta delta [fst].
  eexists. apply call_fresh_put; [exact C | apply I1 | exact Hr].
Qed.

Lemma add_derived_ann : forall l from s, data_inv s -> exists out, call_ann s (fst (add_derived l from s)) out [].
Proof.
  intros l from s I. unfold add_derived. destruct (negb (subsetz from (keys (comps s)))); [exists []; apply call_refl|].
  destruct (comps s) eqn:E; [exists []; apply call_refl|]. rewrite (fresh_eq l s). cbv beta iota zeta delta [fst].
  eexists. apply call_fresh_put; [apply call_refl | apply I | intros x []].
Qed.

Lemma add_at_ann : forall c sh s, data_inv s -> guard_op s (OAddAt c sh) = true -> exists out, call_ann s (fst (add_at c sh s)) out [].
Proof.
  intros c sh s I G. unfold add_at. simpl in G. apply andb_true_iff in G. destruct G as [_ G2]. apply Z.ltb_lt in G2.
  destruct (add_checks sh s) eqn:EC.
  - set (s0 := if memz c (parents s) then s else set_parents s (c :: parents s)).
    assert (I0 : data_inv s0) by (unfold s0; destruct (memz c (parents s)); [exact I | apply data_inv_set_parents; exact I]).
    assert (F0 : shape s0 = shape s /\ comps s0 = comps s /\ crd s0 = crd s /\ hub s0 = hub s /\ log s0 = log s /\ queue s0 = queue s /\ ext s0 = ext s /\ next s0 = next s).
    { unfold s0; destruct (memz c (parents s)); repeat split. }
    destruct F0 as (Fs & Fc & Fcr & Fh & Fl & Fq & Fe & Fn).
    assert (EC0 : add_checks sh s0 = ROk) by (unfold add_checks, crd_ndim_ok in *; rewrite Fs, Fc, Fcr; exact EC).
    assert (C0 : call_ann s s0 [] []) by (eapply call_silent; [apply call_refl | unfold K; rewrite Fc; reflexivity | assumption ..]).
    destruct (checks_ok sh s0 I0 EC0) as (I1 & S1 & N1 & _).
    destruct (call_first sh s0 I0 EC0) as [out [[A O] Hr]]. set (s1 := first_component sh s0) in *. cbv beta iota zeta delta [fst].
    assert (A01 : ann_spec s s1 out).
    { destruct C0 as [A0 _]. change out with ([] ++ out). eapply ann_trans; [exact A0 | exact A | intros x [] | intros x []]. }
    destruct (in_dec Z.eq_dec c (K s1)) as [Hc|Hc].
    + exists (out ++ []). constructor.
      * eapply ann_trans; [exact A01 | apply ann_add_present; exact Hc | intros x _ [] | intros x _ []].
      * rewrite app_nil_r. exact O.
    + exists (out ++ [MAdd c; MChanged]). constructor.
      * eapply ann_trans; [exact A01 | apply ann_add_new; exact Hc | intros x _ [] |].
        intros x Hx [<-|[]]. (* c was not removed just before: nothing was removed unless this is the first component, and then nothing was *)
        apply (an_rems _ _ _ A01) in Hx. destruct Hx as [Hx Hx2].
        unfold K in Hx, Hx2. destruct (comps s) as [|ck cs] eqn:Es.
        -- destruct Hx.
        -- apply Hx2. unfold s1, first_component. rewrite Fc. rewrite Fc. exact Hx.
      * rewrite others_app, O. reflexivity.
  - destruct e; cbv beta iota zeta delta [fst]; try (exists []; apply call_refl).
    destruct (memz c (parents s)); [exists []; apply call_refl|].
    exists []. eapply call_silent; [apply call_refl | reflexivity ..].
  - exists []. apply call_refl.
Qed.

Lemma remove_ann : forall c s, data_inv s -> exists out, call_ann s (remove_component c s) out [].
Proof.
  intros c s I. pose proof I as [[P _] _ _ _ _].
  destruct (remove_component_spec c s (p_nodup _ P)) as [out S]. exists out. constructor; [eapply ann_remove; exact S | eapply rm_others; exact S].
Qed.

Lemma ann_same_elements : forall s s', (forall x, In x (K s') <-> In x (K s)) ->
  hub s' = hub s -> log s' = log s -> queue s' = queue s -> ext s' = ext s -> ann_spec s s' [].
Proof.
  intros s s' HK H1 H2 H3 H4. constructor.
  - apply effect_same_hub; assumption.
  - constructor.
  - constructor.
  - intros x. simpl. split; [tauto|]. intros [H5 H6]. apply H6. apply HK. exact H5.
  - intros x. simpl. split; [tauto|]. intros [H5 H6]. apply H6. apply HK. exact H5.
  - reflexivity.
Qed.

Lemma reorder_ann : forall l s, data_inv s -> exists out, call_ann s (fst (reorder l s)) out (expected_others (OReorder l) s (snd (reorder l s))).
Proof.
  intros l s I. unfold reorder, expected_others.
  destruct (negb (length l =? length (comps s))%nat) eqn:E1; [exists []; apply call_refl|].
  destruct (negb (same_set l (keys (comps s)))) eqn:E2; [exists []; apply call_refl|].
  unfold K. destruct (eqlz l (keys (comps s))) eqn:E3; [exists []; apply call_refl|].
  cbv beta iota zeta delta [fst snd].
  apply negb_false_iff in E2. unfold same_set in E2. apply andb_true_iff in E2. destruct E2 as [S1 S2]. rewrite subsetz_spec in S1, S2.
  set (s1 := set_comps s _).
  assert (A1 : call_ann s s1 [] []).
  { constructor; [|reflexivity]. apply ann_same_elements; try reflexivity.
    intros x. unfold K, s1. simpl. rewrite keys_map_lookup. split; [apply S1 | apply S2]. }
  eexists. change [MReorder l] with ([] ++ [MReorder l]). apply call_emit_other; [exact A1 | reflexivity | reflexivity].
Qed.

Lemma rename_ann : forall c l s, exists out, call_ann s (fst (rename c l s)) out (expected_others (ORename c l) s ROk).
Proof.
  intros c l s. unfold rename, expected_others. cbv beta iota zeta delta [fst].
  assert (A1 : call_ann s (set_labels s (put c l (labels s))) [] []) by (eapply call_silent; [apply call_refl | reflexivity ..]).
  destruct (memz c (parents s)).
  - eexists. change [MRename c] with ([] ++ [MRename c]). apply call_emit_other; [exact A1 | reflexivity | reflexivity].
  - exists []. exact A1.
Qed.

Lemma set_coords_ann : forall v s, data_inv s -> exists out, call_ann s (fst (set_coords v s)) out [].
Proof.
  intros v s I. unfold set_coords. destruct (same_crd (crd s) v); [exists []; apply call_refl|].
  destruct (comps s) as [|ck cs] eqn:E.
  - exists []. eapply call_silent; [apply call_refl | reflexivity ..].
  - destruct (coords_ok v s); [|exists []; apply call_refl].
    cbv beta iota zeta delta [fst]. pose proof I as [WI _ _ _ q].
    destruct (ann_update_world (length (shape s)) (set_crd s v) (winv_set_crd s v WI) q) as [out [A O _ _]].
    exists out. constructor; [|exact O].
    change out with ([] ++ out). eapply (ann_trans s (set_crd s v)); [apply ann_silent; reflexivity | exact A | intros x [] | intros x []].
Qed.

Lemma update_comps_loop_quiet : forall l s, let s1 := fst (update_comps_loop l s) in
  K s1 = K s /\ hub s1 = hub s /\ log s1 = log s /\ queue s1 = queue s /\ ext s1 = ext s.
Proof.
  induction l as [|[c sh] l IH]; intros s; simpl; [repeat split|].
  destruct (assoc c (comps s)) as [k|] eqn:Ea; [|destruct (memz c (ext s)); repeat split].
  destruct (negb (eqlz sh (shape s))); [repeat split|]. destruct (negb (is_main k)); [repeat split|].
  destruct (IH (set_comps s (put c (KMain sh) (comps s)))) as (A & B & C & D & E). cbv zeta in *.
  repeat split; try assumption. rewrite A. unfold K. simpl. rewrite keys_put.
  assert (Hk : has_key c (comps s) = true) by (apply has_key_In; eapply assoc_In_keys; exact Ea). rewrite Hk. reflexivity.
Qed.

Lemma update_comps_ann : forall l s, exists out, call_ann s (fst (update_comps l s)) out (expected_others (OUpdateComps l) s (snd (update_comps l s))).
Proof.
  intros l s. unfold update_comps, expected_others. destruct (update_comps_loop_quiet l s) as (A & B & C & D & E). cbv zeta in *.
  destruct (update_comps_loop l s) as [s1 r]. simpl in *.
  assert (A1 : call_ann s s1 [] []) by (eapply call_silent; [apply call_refl | assumption ..]).
  destruct r; cbv beta iota zeta delta [fst snd].
  - eexists. change [MNumerical (Some (keys l))] with ([] ++ [MNumerical (Some (keys l))]). apply call_emit_other; [exact A1 | reflexivity | reflexivity].
  - exists []. exact A1.
  - exists []. apply call_refl.
Qed.
