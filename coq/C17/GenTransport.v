(* C17 — the theorems of the property, about runs whose remove_component / reorder_components / update_id /
   update_components calls are the code REGENERATED from glue/core/data.py (Model.step_g, run_g). *)
From Coq Require Import ZArith List Bool.
Import ListNotations.
From GV Require Import Common.Wire gen.Gen_datamut.
From GV Require Import C17.Model C17.Lemmas C17.GenEquiv.
Open Scope Z_scope.

Lemma gen_data_inv_reachable_partial : forall m c pool dl ops,
  guarded ops (init m c pool dl) = true ->
  structurally_consistent (run_g ops (init m c pool dl)).
Proof.
  intros m c pool dl ops G. rewrite run_g_is_run; [|apply init_inv | exact G].
  apply data_inv_reachable_partial. exact G.
Qed.

(* the generated mutators preserve the invariant, each on its own *)
Lemma gen_mutators_preserve_invariant : forall s, data_inv s ->
  (forall c, guard_op s (ORemove c) = true ->
     data_inv (Gen_datamut.remove_component env17 (length (comps s)) c s)) /\
  (forall l, data_inv (fst (Gen_datamut.reorder_components env17 l s))) /\
  (forall o n, guard_op s (OUpdateId o n) = true -> negb (o =? n) && used o s && used n s = false ->
     data_inv (Gen_datamut.update_id env17 o n s)) /\
  (forall l, snd (update_comps l s) <> RUnmodelled -> data_inv (fst (Gen_datamut.update_components env17 l s))).
Proof.
  intros s I. split; [|split; [|split]].
  - intros c G. change (data_inv (g_remove_component c s)). rewrite gen_remove_component_is_model by apply I.
    apply remove_inv; assumption.
  - intros l. pose proof (gen_reorder_is_model l s (p_nodup _ (proj1 (inv_w _ I)))) as E. unfold g_reorder in E.
    destruct (Gen_datamut.reorder_components env17 l s) as [s1 r]. cbn [fst]. pose proof (reorder_inv l s I) as R.
    rewrite <- E in R. exact R.
  - intros o n G U. pose proof (gen_update_id_is_model o n s I) as E. unfold g_update_id in E. rewrite U in E.
    pose proof (update_id_inv o n s I G) as R. rewrite <- E in R. apply R. reflexivity.
  - intros l Hm. pose proof (gen_update_comps_is_model l s Hm) as E. unfold g_update_comps in E.
    destruct (Gen_datamut.update_components env17 l s) as [s1 r]. cbn [fst]. pose proof (update_comps_inv l s I) as R.
    rewrite <- E in R. exact R.
Qed.

Lemma gen_announce_exact : forall o s, data_inv s -> guard_op s o = true -> special o = false ->
  let s' := fst (step_g o s) in
  (hub s = NoHub -> log s' = []) /\
  (hub s <> NoHub ->
     let out := filter nonext (log s') in
     NoDup (adds out) /\ NoDup (removes out) /\
     (forall x, In x (adds out) <-> In x (K s') /\ ~ In x (K s)) /\
     (forall x, In x (removes out) <-> In x (K s) /\ ~ In x (K s')) /\
     nchanged out = (length (adds out) + length (removes out))%nat /\
     others out = expected_others o s (snd (step_g o s))).
Proof. intros o s I G S. rewrite (step_g_is_step o s I). apply announce_exact; assumption. Qed.

Lemma gen_announce_update_id : forall o n s, data_inv s ->
  let s' := fst (step_g (OUpdateId o n) s) in
  (hub s = NoHub -> log s' = []) /\
  (hub s <> NoHub -> filter nonext (log s') =
     if negb (o =? n) && negb (used o s && used n s) && used o s then [MReplaced o n] else []).
Proof. intros o n s I. rewrite (step_g_is_step _ s I). apply announce_update_id. exact I. Qed.
