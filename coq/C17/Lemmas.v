(* C17 — the theorems (statements are repeated verbatim in Property.v) *)
From Coq Require Import ZArith List Bool Lia Permutation.
Import ListNotations.
From GV Require Import Common.Wire C17.Model.
From GV Require Export C17.Lemmas1 C17.Lemmas2 C17.Lemmas3 C17.Lemmas4 C17.Lemmas5 C17.Lemmas6 C17.Lemmas7 C17.Lemmas8 C17.Lemmas9.
Open Scope Z_scope.

(* ---------- the invariant of the property, spelled out ---------- *)
Definition structurally_consistent (s : st) : Prop :=
  (* every component has the shape of the dataset *)
  (forall c k, In (c, k) (comps s) -> cshape s k = shape s)
  (* one pixel id per dimension; world ids: one per dimension iff coordinates are set *)
  /\ length (pixel s) = length (shape s)
  /\ length (world s) = match crd s with Some _ => length (shape s) | None => O end
  (* ids are unique *)
  /\ NoDup (keys (comps s)) /\ NoDup (pixel s) /\ NoDup (world s)
  (* the i-th pixel / world id is a component of the dataset: the pixel / world coordinate component of axis i ... *)
  /\ (forall i c, nth_error (pixel s) i = Some c -> assoc c (comps s) = Some (KCoord false (Z.of_nat i)))
  /\ (forall i c, nth_error (world s) i = Some c -> assoc c (comps s) = Some (KCoord true (Z.of_nat i)))
  (* ... and there are no other coordinate components *)
  /\ (forall c w a, In (c, KCoord w a) (comps s) -> In c (if w then world s else pixel s))
  (* the removal cascade never ran out of fuel *)
  /\ stuck s = false.

Lemma nodup_by_kind : forall (l : list cid) (m : list (cid * kind)) (w : bool),
  (forall i c, nth_error l i = Some c -> assoc c m = Some (KCoord w (Z.of_nat i))) -> NoDup l.
Proof.
  intros l m w H. apply NoDup_nth_error. intros i j Hi E.
  destruct (nth_error l i) as [c|] eqn:Ei.
  - symmetry in E. pose proof (H i c Ei) as A. pose proof (H j c E) as B. rewrite A in B. inversion B. lia.
  - apply nth_error_None in Ei. lia.
Qed.

Lemma data_inv_consistent : forall s, data_inv s -> structurally_consistent s.
Proof.
  intros s [[[n p co f st] W] sh pl wl q]. unfold structurally_consistent.
  repeat match goal with |- _ /\ _ => split end; try assumption.
  - intros c k Hin. destruct k; simpl; try reflexivity. apply (sh c sh0 Hin).
  - eapply nodup_by_kind. exact p.
  - eapply nodup_by_kind. exact W.
Qed.

Lemma data_inv_reachable_partial : forall m c pool dl ops,
  guarded ops (init m c pool dl) = true ->
  structurally_consistent (run ops (init m c pool dl)).
Proof.
  intros. apply data_inv_consistent. apply run_inv; [apply init_inv | assumption].
Qed.

(* the full statement (no guard) fails on the faithful model: remove_component(pixel id) *)
Lemma data_inv_reachable_refuted :
  exists ops, ~ structurally_consistent (run ops (init NoHub None [] 0)).
Proof.
  exists [OAddNew 0 [2]; ORemove 100].
  intros (_ & _ & _ & _ & _ & _ & Hp & _).
  specialize (Hp O 100 eq_refl). vm_compute in Hp. discriminate.
Qed.

(* ---------- find_component_id ---------- *)
Lemma find_in_precedence : forall (p : cid -> bool) cls,
  match find_in cls p with
  | Some c => exists pre cl post, cls = pre ++ cl :: post
                /\ (forall k x, In k pre -> In x k -> p x = false)
                /\ In c cl /\ p c = true /\ (forall x, In x cl -> p x = true -> x = c)
  | None => forall pre cl post, cls = pre ++ cl :: post -> (forall k x, In k pre -> In x k -> p x = false) ->
                (exists x, In x cl /\ p x = true) -> (2 <= length (filter p cl))%nat
  end.
Proof.
  intros p. induction cls as [|cl0 r IH]; simpl.
  - intros pre cl post E. destruct pre; discriminate.
  - destruct (filter p cl0) as [|a [|b t]] eqn:EF.
    + (* no match in the first class *)
      assert (Hno : forall x, In x cl0 -> p x = false).
      { intros x Hx. destruct (p x) eqn:E; [|reflexivity]. assert (In x (filter p cl0)) by (apply filter_In; split; assumption). rewrite EF in H. destruct H. }
      destruct (find_in r p) as [c|].
      * destruct IH as (pre & cl & post & E & Hpre & Hin & Hp & Hu).
        exists (cl0 :: pre), cl, post. split; [rewrite E; reflexivity|]. split; [|auto].
        intros k x [<-|Hk] Hx; [apply Hno; exact Hx | eapply Hpre; eassumption].
      * intros pre cl post E Hpre Hex. destruct pre as [|k pre].
        -- simpl in E. inversion E; subst. destruct Hex as [x [Hx Hpx]]. rewrite (Hno x Hx) in Hpx. discriminate.
        -- simpl in E. inversion E; subst. apply (IH pre cl post eq_refl); [|exact Hex].
           intros k' x Hk' Hx. apply (Hpre k' x); [right; exact Hk' | exact Hx].
    + exists [], cl0, r. split; [reflexivity|]. split; [intros k x []|].
      assert (Ha : In a (filter p cl0)) by (rewrite EF; left; reflexivity). apply filter_In in Ha. destruct Ha as [Ha1 Ha2].
      split; [exact Ha1 | split; [exact Ha2|]].
      intros x Hx Hpx. assert (H : In x (filter p cl0)) by (apply filter_In; split; assumption). rewrite EF in H. destruct H as [H|[]]. auto.
    + intros pre cl post E Hpre Hex. destruct pre as [|k pre].
      * simpl in E. inversion E; subst. rewrite EF. simpl. lia.
      * simpl in E. inversion E; subst. exfalso.
        assert (Ha : In a (filter p k)) by (rewrite EF; left; reflexivity). apply filter_In in Ha. destruct Ha as [Ha1 Ha2].
        rewrite (Hpre k a (or_introl eq_refl) Ha1) in Ha2. discriminate.
Qed.

Lemma find_precedence : forall s (p : cid -> bool),
  match find_in (classes s) p with
  | Some c => exists pre cl post, classes s = pre ++ cl :: post
                /\ (forall k x, In k pre -> In x k -> p x = false)
                /\ In c cl /\ p c = true /\ (forall x, In x cl -> p x = true -> x = c)
  | None => forall pre cl post, classes s = pre ++ cl :: post -> (forall k x, In k pre -> In x k -> p x = false) ->
                (exists x, In x cl /\ p x = true) -> (2 <= length (filter p cl))%nat
  end.
Proof. intros. apply find_in_precedence. Qed.

(* ---------- announcements ---------- *)
(* For every call other than update_id / collection membership (stated below), in a state satisfying the invariant:
   without hub nothing is logged; with a hub the Add / Remove messages are exactly (once each) the ids that entered /
   left the component table, there is one ComponentsChanged per Add / Remove, and the remaining messages are the
   documented ones for that call ([expected_others]); MExtDer (a reaction of the collection) is filtered out. *)
Lemma announce_exact : forall o s, data_inv s -> guard_op s o = true -> special o = false ->
  let s' := fst (step o s) in
  (hub s = NoHub -> log s' = []) /\
  (hub s <> NoHub ->
     let out := filter nonext (log s') in
     NoDup (adds out) /\ NoDup (removes out) /\
     (forall x, In x (adds out) <-> In x (K s') /\ ~ In x (K s)) /\
     (forall x, In x (removes out) <-> In x (K s) /\ ~ In x (K s')) /\
     nchanged out = (length (adds out) + length (removes out))%nat /\
     others out = expected_others o s (snd (step o s))).
Proof.
  intros o s I G Sp. cbv zeta. destruct (step_ann o s I G Sp) as [out [[e na nr a r c] O]].
  destruct (step_log_of_effect (set_log s []) _ out eq_refl (inv_queue _ I) e) as [L1 L2]. simpl in L1, L2.
  split; [exact L2|]. intros Hh. rewrite (L1 Hh).
  split; [exact na|]. split; [exact nr|]. split; [exact a|]. split; [exact r|]. split; [exact c | exact O].
Qed.

Lemma all_classes_empty : forall out, adds out = [] -> removes out = [] -> nchanged out = O -> others out = [] -> out = [].
Proof.
  intros [|m out] Ha Hr Hc Ho; [reflexivity|]. exfalso.
  destruct m; simpl in *; try discriminate.
Qed.

(* no change of the table and no documented value-type message => nothing is announced *)
Lemma silent_when_unchanged : forall o s, data_inv s -> guard_op s o = true -> special o = false -> hub s <> NoHub ->
  (forall x, In x (K (fst (step o s))) <-> In x (K s)) -> expected_others o s (snd (step o s)) = [] ->
  filter nonext (log (fst (step o s))) = [].
Proof.
  intros o s I G Sp Hh HK HE. destruct (announce_exact o s I G Sp) as [_ H]. destruct (H Hh) as (_ & _ & Ha & Hr & Hc & Ho).
  set (out := filter nonext (log (fst (step o s)))) in *.
  assert (Ea : adds out = []).
  { destruct (adds out) as [|x t] eqn:E; [reflexivity|]. exfalso. destruct (proj1 (Ha x) (or_introl eq_refl)) as [H1 H2]. apply H2. apply HK. exact H1. }
  assert (Er : removes out = []).
  { destruct (removes out) as [|x t] eqn:E; [reflexivity|]. exfalso. destruct (proj1 (Hr x) (or_introl eq_refl)) as [H1 H2]. apply H2. apply HK. exact H1. }
  apply all_classes_empty; try assumption. rewrite Hc, Ea, Er. reflexivity. rewrite Ho. exact HE.
Qed.

Lemma log_sync_nonext : forall s, filter nonext (log (sync s)) = filter nonext (log s).
Proof.
  intros s. pose proof (emitted_sync s) as E. unfold emitted in E. rewrite queue_sync in E. apply app_inv_tail in E. exact E.
Qed.

(* update_id announces ComponentReplacedMessage(old, new) exactly when it replaced something *)
Lemma announce_update_id : forall o n s, data_inv s ->
  let s' := fst (step (OUpdateId o n) s) in
  (hub s = NoHub -> log s' = []) /\
  (hub s <> NoHub -> filter nonext (log s') =
     if negb (o =? n) && negb (used o s && used n s) && used o s then [MReplaced o n] else []).
Proof.
  intros o n s I. cbv zeta. unfold step.
  pose proof (update_id_eff o n (set_log s [])) as E.
  destruct (step_log_of_effect (set_log s []) _ _ eq_refl (inv_queue _ I) E) as [L1 L2]. simpl in L1, L2.
  split; [exact L2 | exact L1].
Qed.

(* joining / leaving the collection is announced by the collection, once, when membership changes *)
Lemma announce_membership : forall s,
  filter nonext (log (fst (step OJoin s))) = (match hub s with InColl => [] | _ => [MCollAdd] end) /\
  filter nonext (log (fst (step OLeave s))) = (match hub s with InColl => [MCollDel] | _ => [] end).
Proof.
  intros s. unfold step, join, leave. simpl. destruct (hub s); simpl; rewrite ?log_sync_nonext; simpl; split; reflexivity.
Qed.

Lemma invariant_reachable : forall m c pool dl ops,
  guarded ops (init m c pool dl) = true -> data_inv (run ops (init m c pool dl)).
Proof. intros. apply run_inv; [apply init_inv | assumption]. Qed.

(* ---------- stable order (the primitive mutations; the compound calls are sequences of these) ---------- *)
Lemma order_stable_basic : forall s, NoDup (keys (comps s)) ->
  (* remove_component (with its cascade) deletes entries and keeps the others in place, untouched *)
  (forall c, exists f, comps (remove_component c s) = filter f (comps s)) /\
  (* storing a component appends a new id at the end, or keeps the ids as they are *)
  (forall c k, keys (comps (add_core c k s)) = if has_key c (comps s) then keys (comps s) else keys (comps s) ++ [c]) /\
  (* update_id substitutes the id in place *)
  (forall o n, used o s = true -> used n s = false -> o <> n ->
     keys (comps (fst (update_id o n s))) = replz o n (keys (comps s))).
Proof.
  intros s ND. split; [|split].
  - intros c. destruct (remove_component_spec c s ND) as [out S]. apply (rm_sub _ _ _ _ S).
  - intros c k. destruct (add_core_spec c k s) as [PS _]. rewrite (ps_comps _ _ _ _ PS). apply keys_put.
  - intros o n Ho Hn Hne. unfold update_id. apply Z.eqb_neq in Hne. rewrite Hne, Ho, Hn. simpl.
    assert (Fu : used o (if memz n (parents s) then s else set_parents s (n :: parents s)) = true)
      by (destruct (memz n (parents s)); exact Ho).
    rewrite Fu. simpl. rewrite comps_emit. simpl. rewrite keys_ren. destruct (memz n (parents s)); reflexivity.
Qed.
