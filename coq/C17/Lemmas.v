(* C17 — the theorems (statements are repeated verbatim in Property.v) *)
From Coq Require Import ZArith List Bool Lia Permutation.
Import ListNotations.
From GV Require Import Common.Wire C17.Model.
From GV Require Export C17.Lemmas1 C17.Lemmas2 C17.Lemmas3 C17.Lemmas4 C17.Lemmas5.
Open Scope Z_scope.

(* ---------- the invariant of the property, spelled out ---------- *)
Definition structurally_consistent (s : st) : Prop :=
  (* every component has the shape of the dataset *)
  (forall c k, In (c, k) (comps s) -> cshape s k = shape s)
  (* one pixel id per dimension; world ids: one per dimension iff coordinates are set *)
  /\ length (pixel s) = length (shape s)
  /\ length (world s) = match crd s with Some _ => length (shape s) | None => O end
  (* ids are unique *)
  /\ NoDup (keys (comps s)) /\ NoDup (pixel s) /\ NoDup (world s)
  (* the i-th pixel / world id is a component of the dataset: the pixel / world coordinate component of axis i ... *)
  /\ (forall i c, nth_error (pixel s) i = Some c -> assoc c (comps s) = Some (KCoord false (Z.of_nat i)))
  /\ (forall i c, nth_error (world s) i = Some c -> assoc c (comps s) = Some (KCoord true (Z.of_nat i)))
  (* ... and there are no other coordinate components *)
  /\ (forall c w a, In (c, KCoord w a) (comps s) -> In c (if w then world s else pixel s))
  (* the removal cascade never ran out of fuel *)
  /\ stuck s = false.

Lemma nodup_by_kind : forall (l : list cid) (m : list (cid * kind)) (w : bool),
  (forall i c, nth_error l i = Some c -> assoc c m = Some (KCoord w (Z.of_nat i))) -> NoDup l.
Proof.
  intros l m w H. apply NoDup_nth_error. intros i j Hi E.
  destruct (nth_error l i) as [c|] eqn:Ei.
  - symmetry in E. pose proof (H i c Ei) as A. pose proof (H j c E) as B. rewrite A in B. inversion B. lia.
  - apply nth_error_None in Ei. lia.
Qed.

Lemma data_inv_consistent : forall s, data_inv s -> structurally_consistent s.
Proof.
  intros s [[[n p co f st] W] sh pl wl q]. unfold structurally_consistent.
  repeat match goal with |- _ /\ _ => split end; try assumption.
  - intros c k Hin. destruct k; simpl; try reflexivity. apply (sh c sh0 Hin).
  - eapply nodup_by_kind. exact p.
  - eapply nodup_by_kind. exact W.
Qed.

Lemma data_inv_reachable_partial : forall m c pool dl ops,
  guarded ops (init m c pool dl) = true ->
  structurally_consistent (run ops (init m c pool dl)).
Proof.
  intros. apply data_inv_consistent. apply run_inv; [apply init_inv | assumption].
Qed.

(* the full statement (no guard) fails on the faithful model: remove_component(pixel id) *)
Lemma data_inv_reachable_refuted :
  exists ops, ~ structurally_consistent (run ops (init NoHub None [] 0)).
Proof.
  exists [OAddNew 0 [2]; ORemove 100].
  intros (_ & _ & _ & _ & _ & _ & Hp & _).
  specialize (Hp O 100 eq_refl). vm_compute in Hp. discriminate.
Qed.

(* ---------- find_component_id ---------- *)
Lemma find_in_precedence : forall (p : cid -> bool) cls,
  match find_in cls p with
  | Some c => exists pre cl post, cls = pre ++ cl :: post
                /\ (forall k x, In k pre -> In x k -> p x = false)
                /\ In c cl /\ p c = true /\ (forall x, In x cl -> p x = true -> x = c)
  | None => forall pre cl post, cls = pre ++ cl :: post -> (forall k x, In k pre -> In x k -> p x = false) ->
                (exists x, In x cl /\ p x = true) -> (2 <= length (filter p cl))%nat
  end.
Proof.
  intros p. induction cls as [|cl0 r IH]; simpl.
  - intros pre cl post E. destruct pre; discriminate.
  - destruct (filter p cl0) as [|a [|b t]] eqn:EF.
    + (* no match in the first class *)
      assert (Hno : forall x, In x cl0 -> p x = false).
      { intros x Hx. destruct (p x) eqn:E; [|reflexivity]. assert (In x (filter p cl0)) by (apply filter_In; split; assumption). rewrite EF in H. destruct H. }
      destruct (find_in r p) as [c|].
      * destruct IH as (pre & cl & post & E & Hpre & Hin & Hp & Hu).
        exists (cl0 :: pre), cl, post. split; [rewrite E; reflexivity|]. split; [|auto].
        intros k x [<-|Hk] Hx; [apply Hno; exact Hx | eapply Hpre; eassumption].
      * intros pre cl post E Hpre Hex. destruct pre as [|k pre].
        -- simpl in E. inversion E; subst. destruct Hex as [x [Hx Hpx]]. rewrite (Hno x Hx) in Hpx. discriminate.
        -- simpl in E. inversion E; subst. apply (IH pre cl post eq_refl); [|exact Hex].
           intros k' x Hk' Hx. apply (Hpre k' x); [right; exact Hk' | exact Hx].
    + exists [], cl0, r. split; [reflexivity|]. split; [intros k x []|].
      assert (Ha : In a (filter p cl0)) by (rewrite EF; left; reflexivity). apply filter_In in Ha. destruct Ha as [Ha1 Ha2].
      split; [exact Ha1 | split; [exact Ha2|]].
      intros x Hx Hpx. assert (H : In x (filter p cl0)) by (apply filter_In; split; assumption). rewrite EF in H. destruct H as [H|[]]. auto.
    + intros pre cl post E Hpre Hex. destruct pre as [|k pre].
      * simpl in E. inversion E; subst. rewrite EF. simpl. lia.
      * simpl in E. inversion E; subst. exfalso.
        assert (Ha : In a (filter p k)) by (rewrite EF; left; reflexivity). apply filter_In in Ha. destruct Ha as [Ha1 Ha2].
        rewrite (Hpre k a (or_introl eq_refl) Ha1) in Ha2. discriminate.
Qed.

Lemma find_precedence : forall s (p : cid -> bool),
  match find_in (classes s) p with
  | Some c => exists pre cl post, classes s = pre ++ cl :: post
                /\ (forall k x, In k pre -> In x k -> p x = false)
                /\ In c cl /\ p c = true /\ (forall x, In x cl -> p x = true -> x = c)
  | None => forall pre cl post, classes s = pre ++ cl :: post -> (forall k x, In k pre -> In x k -> p x = false) ->
                (exists x, In x cl /\ p x = true) -> (2 <= length (filter p cl))%nat
  end.
Proof. intros. apply find_in_precedence. Qed.
