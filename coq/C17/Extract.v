From Coq Require Import ZArith ExtrOcamlBasic.
From GV Require Import Common.Wire C17.Model.
Extraction "c17_model.ml" run_case Z.add Z.mul Z.div_eucl Z.opp.
