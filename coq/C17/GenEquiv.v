(* C17 — Data.remove_component / _removed_derived_that_depend_on / reorder_components / update_id / update_components as
   REGENERATED from glue/core/data.py on every run (coq/gen/Gen_datamut.v), instantiated with the model's state
   (Model.env17), compute what the hand-written model computes; the invariant and announcement theorems are
   transported to runs that take these calls from the generated code (Model.step_g / run_g). *)
From Coq Require Import ZArith List Bool Lia ZifyBool.
Import ListNotations.
From GV Require Import Common.Wire Common.PyInt gen.Gen_datamut C14.GenLemmas.
From GV Require Import C17.Model C17.Lemmas1 C17.Lemmas2 C17.Lemmas3 C17.Lemmas4 C17.Lemmas5.
Open Scope Z_scope.

Local Notation remove_fuel := Model.remove_fuel.

(* ---------- the hand model's cascade keeps a sub-table, whatever the fuel ---------- *)
Lemma filter_all : forall A (l : list A), filter (fun _ => true) l = l.
Proof. induction l; simpl; [reflexivity | f_equal; assumption]. Qed.

Lemma fold_sub : forall (g : cid -> st -> st),
  (forall d s, exists f, comps (g d s) = filter f (comps s)) ->
  forall ds s, exists f, comps (fold_left (fun acc d => g d acc) ds s) = filter f (comps s).
Proof.
  intros g Hg ds. induction ds as [|d ds IH]; intros s; cbn [fold_left].
  - exists (fun _ => true). symmetry. apply filter_all.
  - destruct (Hg d s) as [f1 E1]. destruct (IH (g d s)) as [f2 E2]. exists (fun x => f1 x && f2 x).
    rewrite E2, E1. apply filter_filter.
Qed.

Lemma remove_fuel_sub : forall n c s, exists f, comps (remove_fuel n c s) = filter f (comps s).
Proof.
  induction n as [|n IH]; intros c s.
  - exists (fun _ => true). cbn [Model.remove_fuel]. destruct (has_key c (comps s)); cbn; symmetry; apply filter_all.
  - cbn [Model.remove_fuel]. destruct (has_key c (comps s)).
    + cbv zeta. rewrite !comps_emit.
      destruct (fold_sub (remove_fuel n) IH
                  (keys (filter (depends_on c) (comps (set_comps s (del_key c (comps s))))))
                  (set_comps s (del_key c (comps s)))) as [f E].
      exists (fun kv => negb (fst kv =? c) && f kv). rewrite E. cbn [comps set_comps]. unfold del_key. apply filter_filter.
    + exists (fun _ => true). symmetry. apply filter_all.
Qed.

Lemma remove_fuel_nodup : forall n c s, NoDup (keys (comps s)) -> NoDup (keys (comps (remove_fuel n c s))).
Proof. intros n c s ND. destruct (remove_fuel_sub n c s) as [f E]. rewrite E. apply NoDup_keys_filter. exact ND. Qed.

(* ---------- the collect phase of Data._removed_derived_that_depend_on ---------- *)
Lemma depends_pred : forall c (ck : cid * kind),
  is_derived (snd ck) && dm_mem c (from_of (snd ck)) = depends_on c ck.
Proof. intros c [x k]. unfold depends_on. cbn [snd]. destruct k; reflexivity. Qed.

Lemma collect_is_deps : forall c (s : st), NoDup (keys (comps s)) ->
  fold_left (fun (remove : list Z) cid =>
               if dm_mem c (from_of (dm_getitem (KMain []) (comps s) cid)) then remove ++ [cid] else remove)
            (derived_components env17 s) []
  = keys (filter (depends_on c) (comps s)).
Proof.
  intros c s ND.
  rewrite (fold_collect (fun cid => dm_mem c (from_of (dm_getitem (KMain []) (comps s) cid)))). cbn [app].
  unfold derived_components, component_ids. cbn [env17 dm_get_components dm_is_derived dm_K_default].
  rewrite (filter_keys_getitem2 kind (KMain []) is_derived (fun k => dm_mem c (from_of k)) (comps s) ND).
  unfold keys, dm_keys. f_equal. apply filter_ext. intros ck. apply depends_pred.
Qed.

(* ---------- Data.remove_component (generated) = the model's cascade ---------- *)
Lemma fold_agree : forall (g h : cid -> st -> st),
  (forall d s, NoDup (keys (comps s)) -> g d s = h d s) ->
  (forall d s, NoDup (keys (comps s)) -> NoDup (keys (comps (h d s)))) ->
  forall ds s, NoDup (keys (comps s)) -> fold_left (fun acc d => g d acc) ds s = fold_left (fun acc d => h d acc) ds s.
Proof.
  intros g h Hgh Hnd ds. induction ds as [|d ds IH]; intros s ND; cbn [fold_left]; [reflexivity|].
  rewrite Hgh by exact ND. apply IH. apply Hnd. exact ND.
Qed.

Lemma announce_tail : forall c (s2 : st),
  (if negb (match hub s2 with NoHub => true | _ => false end)
   then emit (cv_msg ComponentsChangedMessage) (emit (cv_msg (DataRemoveComponentMessage c)) s2) else s2)
  = emit MChanged (emit (MRemove c) s2).
Proof.
  intros c s2. cbn [cv_msg]. destruct (hub s2) eqn:Hh; cbn [negb]; [|reflexivity|reflexivity].
  rewrite (emit_nohub (MRemove c) s2 Hh). rewrite (emit_nohub MChanged s2 Hh). reflexivity.
Qed.

Lemma gen_remove_is_model : forall n c s, NoDup (keys (comps s)) ->
  Gen_datamut.remove_component env17 n c s = remove_fuel n c s.
Proof.
  induction n as [|n IH]; intros c s ND; [reflexivity|].
  cbn [Gen_datamut.remove_component Model.remove_fuel].
  cbn [env17 dm_get_components dm_set_components dm_clear_mask_caches dm_hub_is_none dm_broadcast].
  change (dm_has_key c (comps s)) with (has_key c (comps s)).
  destruct (has_key c (comps s)) eqn:Hk; [|reflexivity].
  cbv zeta. change (dm_pop c (comps s)) with (del_key c (comps s)).
  set (s1 := set_comps s (del_key c (comps s))).
  assert (ND1 : NoDup (keys (comps s1))) by (apply NoDup_keys_filter; exact ND).
  unfold _removed_derived_that_depend_on. cbv zeta.
  cbn [env17 dm_get_component dm_link_from_ids].
  rewrite (collect_is_deps c s1 ND1).
  rewrite (fold_agree (fun d acc => Gen_datamut.remove_component env17 n d acc) (remove_fuel n)
             (fun d s0 ND0 => IH d s0 ND0) (fun d s0 ND0 => remove_fuel_nodup n d s0 ND0) _ s1 ND1).
  apply announce_tail.
Qed.

Lemma gen_remove_component_is_model : forall c s, NoDup (keys (comps s)) -> g_remove_component c s = Model.remove_component c s.
Proof. intros c s ND. unfold g_remove_component, Model.remove_component. apply gen_remove_is_model. exact ND. Qed.

(* ---------- Data.reorder_components (generated) = the model's reorder ---------- *)
Lemma dm_get_assoc : forall A k (l : list (Z * A)), dm_get k l = assoc k l.
Proof. intros A k l. induction l as [|[k' v] l IH]; [reflexivity|]. cbn [dm_get assoc]. rewrite IH. reflexivity. Qed.

Lemma existsb_map : forall A B (f : A -> B) (p : B -> bool) l, existsb p (map f l) = existsb (fun x => p (f x)) l.
Proof. intros A B f p l. induction l as [|x l IH]; [reflexivity|]. cbn [map existsb]. rewrite IH. reflexivity. Qed.

Lemma existsb_ext' : forall A (p q : A -> bool) l, (forall x, p x = q x) -> existsb p l = existsb q l.
Proof. intros A p q l H. induction l as [|x l IH]; [reflexivity|]. cbn [existsb]. rewrite H, IH. reflexivity. Qed.

Lemma py_range_upto : forall n : nat, py_range 0 (Z.of_nat n) 1 = map Z.of_nat (seq 0 n).
Proof.
  intros n. unfold py_range, range_len. cbn [Z.leb Z.compare].
  destruct (Z.of_nat n <=? 0) eqn:E.
  - assert (n = O) by lia. subst. reflexivity.
  - replace (Z.to_nat ((Z.of_nat n - 0 + 1 - 1) / 1)) with n by (rewrite Z.div_1_r; lia).
    apply map_ext. intros k. lia.
Qed.

Lemma znth_nat : forall l (k : nat), znth l (Z.of_nat k) = nth k l 0.
Proof. intros l k. unfold znth. destruct (Z.of_nat k <? 0) eqn:E; [lia|]. rewrite Nat2Z.id. reflexivity. Qed.

Lemma differ_somewhere : forall a b : list Z, length a = length b ->
  existsb (fun k => negb (nth k a 0 =? nth k b 0)) (seq 0 (length a)) = negb (eqlz a b).
Proof.
  induction a as [|x a IH]; intros [|y b] Hl; try discriminate; [reflexivity|].
  cbn [length seq existsb nth eqlz]. injection Hl as Hl.
  rewrite <- seq_shift. rewrite existsb_map. cbn [nth].
  rewrite (IH b Hl). rewrite negb_andb. reflexivity.
Qed.

Lemma search_loop : forall a b : list Z, length a = length b ->
  existsb (fun idx => negb (znth a idx =? znth b idx)) (py_range 0 (zlen a) 1) = negb (eqlz a b).
Proof.
  intros a b Hl. unfold zlen. rewrite py_range_upto. rewrite existsb_map.
  rewrite <- (differ_somewhere a b Hl). apply existsb_ext'. intros k. rewrite !znth_nat. reflexivity.
Qed.


Lemma map_dm_id : forall l : list Z, map (fun c => dm_id c) l = l.
Proof. intros l. unfold dm_id. apply map_id. Qed.

Lemma same_set_nodup : forall (l ks : list Z), NoDup ks -> length l = length ks -> same_set l ks = true -> NoDup l.
Proof.
  intros l ks ND Hl Hs. unfold same_set in Hs. apply andb_true_iff in Hs. destruct Hs as [_ Hs].
  apply (NoDup_incl_NoDup ND); [rewrite Hl; apply Nat.le_refl|]. intros x Hx. apply (proj1 (subsetz_spec ks l) Hs x Hx).
Qed.

Lemma gen_reorder_is_model : forall (l : list Z) s, NoDup (keys (comps s)) -> g_reorder l s = reorder l s.
Proof.
  intros l s ND. unfold g_reorder, reorder, reorder_components, components.
  cbn [env17 dm_get_components dm_set_components dm_hub_is_none dm_broadcast dm_K_default].
  rewrite !map_dm_id. change (dm_keys (comps s)) with (keys (comps s)). unfold cid in *.
  assert (El : (zlen l =? zlen (keys (comps s))) = (length l =? length (comps s))%nat).
  { unfold zlen. rewrite keys_length. destruct (Nat.eqb_spec (length l) (length (comps s))) as [e|e]; [rewrite e; apply Z.eqb_refl | apply Z.eqb_neq; intros H; apply Nat2Z.inj in H; contradiction]. }
  rewrite El. unfold cid in *. destruct (@length Z l =? @length (Z * kind) (comps s))%nat eqn:Hlen; cbn [negb]; [|reflexivity].
  apply Nat.eqb_eq in Hlen.
  assert (Es : dm_set_eq (keys (comps s)) l = same_set l (keys (comps s))) by (unfold dm_set_eq, same_set; apply andb_comm).
  rewrite Es. destruct (same_set l (keys (comps s))) eqn:Hs; cbn [negb]; [|reflexivity].
  cbv zeta. rewrite search_loop by (rewrite keys_length; exact Hlen).
  destruct (eqlz l (keys (comps s))) eqn:He; cbn [negb]; [reflexivity|].
  assert (NDl : NoDup l) by (apply (same_set_nodup l (keys (comps s)) ND); [rewrite keys_length; exact Hlen | exact Hs]).
  set (new := map (fun key => (key, dm_getitem (KMain []) (comps s) key)) l).
  assert (Enew : new = map (fun c => (c, match assoc c (comps s) with Some k => k | None => KMain [] end)) l).
  { unfold new. apply map_ext. intros c. unfold dm_getitem. rewrite dm_get_assoc. reflexivity. }
  assert (Ekeys : dm_keys new = l) by (unfold new; apply keys_map_lookup).
  rewrite dm_of_pairs_nodup by (rewrite Ekeys; exact NDl).
  cbn [comps set_comps]. rewrite Ekeys. rewrite <- Enew. cbn [cv_msg cv_res].
  change (hub (set_comps s new)) with (hub s).
  destruct (hub s) eqn:Hh; cbn [negb]; try reflexivity.
  rewrite emit_nohub by exact Hh. reflexivity.
Qed.

(* ---------- Data.update_id (generated) = the model's update_id ---------- *)
Lemma dm_index_none : forall o l, dm_index o l = None <-> ~ In o l.
Proof.
  intros o l. induction l as [|y l IH]; cbn [dm_index].
  - split; [intros _ [] | reflexivity].
  - destruct (y =? o) eqn:E.
    + split; [discriminate|]. intros H. exfalso. apply H. left. apply Z.eqb_eq. exact E.
    + apply Z.eqb_neq in E. destruct (dm_index o l) as [i|]; cbn [option_map].
      * split; [discriminate|]. intros H. exfalso.
        assert (Hn : ~ In o l) by (intros Hin; apply H; right; exact Hin). apply IH in Hn. discriminate.
      * split; [|reflexivity]. intros _ [H|H]; [contradiction | apply (proj1 IH eq_refl); exact H].
Qed.

Lemma index_replace : forall o n l i, NoDup l -> dm_index o l = Some i -> zupd l i n = replz o n l.
Proof.
  intros o n l. induction l as [|y l IH]; intros i ND Hi; [discriminate|].
  cbn [dm_index] in Hi. inversion ND as [|? ? Hny ND']; subst.
  destruct (y =? o) eqn:E.
  - injection Hi as <-. apply Z.eqb_eq in E. subst y. unfold zupd. cbn [Z.ltb Z.compare Z.to_nat upd_nat].
    cbn [replz map]. rewrite Z.eqb_refl. f_equal. symmetry. apply replz_notin. exact Hny.
  - destruct (dm_index o l) as [j|] eqn:Ej; [|discriminate]. cbn [option_map] in Hi. injection Hi as <-.
    assert (Hj : 0 <= j).
    { clear -Ej. revert j Ej. induction l as [|z l IHl]; intros j Ej; [discriminate|]. cbn [dm_index] in Ej.
      destruct (z =? o); [injection Ej as <-; lia|]. destruct (dm_index o l) as [k|]; [|discriminate].
      cbn [option_map] in Ej. injection Ej as <-. specialize (IHl k eq_refl). lia. }
    specialize (IH j ND' eq_refl). unfold zupd in *.
    destruct (Z.succ j <? 0) eqn:E1; [lia|]. destruct (j <? 0) eqn:E2; [lia|].
    replace (Z.to_nat (Z.succ j)) with (S (Z.to_nat j)) by lia. cbn [upd_nat replz map]. rewrite E. f_equal. exact IH.
Qed.

Lemma ren_pairs_absent : forall o n (l : list (cid * kind)), ~ In o (keys l) ->
  map (fun '(key, value) => if key =? o then (n, value) else (key, value)) l = l.
Proof.
  intros o n l. induction l as [|[k v] l IH]; intros H; [reflexivity|]. cbn [map].
  cbn [keys map fst] in H. destruct (k =? o) eqn:E.
  - apply Z.eqb_eq in E. exfalso. apply H. left. exact E.
  - f_equal. apply IH. intros Hin. apply H. right. exact Hin.
Qed.

Lemma keys_ren_pairs : forall o n (l : list (cid * kind)),
  dm_keys (map (fun '(key, value) => if key =? o then (n, value) else (key, value)) l) = replz o n (keys l).
Proof.
  intros o n l. induction l as [|[k v] l IH]; [reflexivity|]. cbn [map dm_keys keys fst replz].
  destruct (k =? o); cbn [fst]; f_equal; exact IH.
Qed.

Lemma links_after_keys : forall o n (l : list (cid * kind)),
  map (fun ck : cid * kind => (fst ck, match snd ck with
                                       | KDerived from => KDerived (fst (dm_replace_ids (from, -1) o n))
                                       | k => k end))
      (map (fun '(key, value) => if key =? o then (n, value) else (key, value)) l)
  = map (fun ck => ((if fst ck =? o then n else fst ck), repl_kind o n (snd ck))) l.
Proof.
  intros o n l. rewrite map_map. apply map_ext. intros [k v]. cbn [fst snd].
  destruct (k =? o); cbn [fst snd]; destruct v; reflexivity.
Qed.

Lemma nodup_by_kind' : forall (l : list cid) (m : list (cid * kind)) (w : bool),
  (forall i c, nth_error l i = Some c -> assoc c m = Some (KCoord w (Z.of_nat i))) -> NoDup l.
Proof.
  intros l m w H. apply NoDup_nth_error. intros i j Hi E.
  destruct (nth_error l i) as [c|] eqn:Ei.
  - symmetry in E. pose proof (H i c Ei) as A. pose proof (H j c E) as B. rewrite A in B. inversion B. lia.
  - apply nth_error_None in Ei. lia.
Qed.

Lemma st_eta : forall s, s = mkst (shape s) (comps s) (pixel s) (world s) (crd s) (clinks s) (labels s) (parents s) (dlabel s)
                               (hub s) (ext s) (next s) (log s) (queue s) (stuck s).
Proof. destruct s; reflexivity. Qed.

Lemma gen_update_id_is_model : forall (o n : Z) s, data_inv s -> g_update_id o n s = Model.update_id o n s.
Proof.
  intros o n s I. unfold g_update_id, Model.update_id, Gen_datamut.update_id. unfold cid in *.
  rewrite (Z.eqb_sym n o). destruct (o =? n) eqn:Eon; cbn [negb andb]; [reflexivity|].
  destruct (used o s && used n s) eqn:EU; [reflexivity|].
  cbn [env17 dm_parent_is_none dm_set_parent].
  assert (Es0 : (if negb (memz n (parents s)) then set_parents s (n :: parents s) else s)
                = (if memz n (parents s) then s else set_parents s (n :: parents s))) by (destruct (memz n (parents s)); reflexivity).
  rewrite Es0. clear Es0.
  set (s0 := if memz n (parents s) then s else set_parents s (n :: parents s)).
  assert (F0 : comps s0 = comps s /\ pixel s0 = pixel s /\ world s0 = world s /\ used o s0 = used o s /\ hub s0 = hub s).
  { unfold s0; destruct (memz n (parents s)); repeat split. }
  destruct F0 as (Fc & Fp & Fw & Fuo & Fh).
  pose proof I as [[[nd pp co f stk] W] sh pl wl q].
  assert (NDp : NoDup (pixel s0)) by (rewrite Fp; eapply nodup_by_kind'; exact pp).
  assert (NDw : NoDup (world s0)) by (rewrite Fw; eapply nodup_by_kind'; exact W).
  rewrite <- Fc in nd.
  cbv zeta.
  cbn [env17 dm_get_components dm_set_components dm_get_pixel_component_ids dm_set_pixel_component_ids
       dm_get_world_component_ids dm_set_world_component_ids dm_map_links dm_hub_is_none dm_broadcast].
  change (dm_has_key o (comps s0)) with (has_key o (comps s0)).
  rewrite Fuo.
  destruct (used o s) eqn:EUo.
  - (* o is in use, hence n is not *)
    cbn [andb] in EU. unfold used in EU. apply orb_false_iff in EU. destruct EU as [EU Enw]. apply orb_false_iff in EU. destruct EU as [Enk Enp].
    apply has_key_false in Enk. apply memz_false in Enp. apply memz_false in Enw.
    rewrite <- Fc in Enk. rewrite <- Fp in Enp. rewrite <- Fw in Enw.
    assert (Ec : (if has_key o (comps s0)
                  then dm_of_pairs (map (fun '(key, value) => if key =? o then (n, value) else (key, value)) (comps s0))
                  else map (fun '(key, value) => if key =? o then (n, value) else (key, value)) (comps s0))
                 = (if has_key o (comps s0)
                    then map (fun '(key, value) => if key =? o then (n, value) else (key, value)) (comps s0) else comps s0)).
    { destruct (has_key o (comps s0)) eqn:Hk.
      - apply dm_of_pairs_nodup. rewrite keys_ren_pairs. apply NoDup_replz; assumption.
      - apply ren_pairs_absent. apply has_key_false. exact Hk. }
    assert (Ep : match dm_index o (pixel s0) with Some i => zupd (pixel s0) i n | None => replz o n (pixel s0) end
                 = match dm_index o (pixel s0) with Some i => replz o n (pixel s0) | None => pixel s0 end).
    { destruct (dm_index o (pixel s0)) as [i|] eqn:Ei; [apply index_replace; assumption|].
      apply replz_notin. apply dm_index_none. exact Ei. }
    assert (Ew : match dm_index o (world s0) with Some i => zupd (world s0) i n | None => replz o n (world s0) end
                 = match dm_index o (world s0) with Some i => replz o n (world s0) | None => world s0 end).
    { destruct (dm_index o (world s0)) as [i|] eqn:Ei; [apply index_replace; assumption|].
      apply replz_notin. apply dm_index_none. exact Ei. }
    assert (Ech : has_key o (comps s0) || (if dm_index o (pixel s0) then true else false) || (if dm_index o (world s0) then true else false) = true).
    { unfold used in EUo. rewrite <- Fc, <- Fp, <- Fw in EUo.
      destruct (has_key o (comps s0)); [reflexivity|]. cbn [orb] in *.
      destruct (dm_index o (pixel s0)) eqn:E1; [reflexivity|]. apply dm_index_none in E1. apply memz_false in E1. rewrite E1 in EUo. cbn [orb] in *.
      destruct (dm_index o (world s0)) eqn:E2; [reflexivity|]. apply dm_index_none in E2. apply memz_false in E2. rewrite E2 in EUo. discriminate. }
    rewrite <- (links_after_keys o n (comps s0)).
    clearbody s0. clear - Ec Ep Ew Ech.
    destruct s0 as [sh0 cs0 px0 wd0 cr0 cl0 lb0 pa0 dl0 hb0 ex0 nx0 lg0 qu0 sk0].
    cbn [comps pixel world hub clinks set_comps set_pixel set_world set_clinks shape crd labels parents dlabel ext next log queue stuck] in *.
    destruct (has_key o cs0); cbv beta iota zeta;
      cbn [comps pixel world hub clinks set_comps set_pixel set_world set_clinks shape crd labels parents dlabel ext next log queue stuck andb cv_msg];
      destruct (dm_index o px0) as [ip|]; cbv beta iota zeta;
      cbn [comps pixel world hub clinks set_comps set_pixel set_world set_clinks shape crd labels parents dlabel ext next log queue stuck andb cv_msg];
      destruct (dm_index o wd0) as [iw|]; cbn [orb] in Ech; try discriminate; cbv beta iota zeta;
      cbn [comps pixel world hub clinks set_comps set_pixel set_world set_clinks shape crd labels parents dlabel ext next log queue stuck andb cv_msg];
      rewrite ?Ec, ?Ep, ?Ew;
      (destruct hb0; cbn [negb]; [rewrite emit_nohub by reflexivity| |]; reflexivity).
  - (* o is not in use: nothing changes *)
    unfold used in EUo. rewrite <- Fc, <- Fp, <- Fw in EUo.
    apply orb_false_iff in EUo. destruct EUo as [EUo Ew]. apply orb_false_iff in EUo. destruct EUo as [Ek Ep].
    rewrite Ek. apply memz_false in Ep. apply memz_false in Ew.
    apply dm_index_none in Ep. apply dm_index_none in Ew. rewrite Ep. cbn [pixel world]. rewrite Ew. reflexivity.
Qed.

(* ---------- Data.update_components (generated) = the model's update_comps, on the modelled domain ---------- *)
Definition body17 : cid * list Z -> st -> st * dm_result :=
  fun '(comp, data) self =>
    match dm_resolve_component env17 self comp with
    | None => (self, DmRaise DmIncompatibleAttribute)
    | Some comp =>
      if negb (dm_list_eq (dm_data_shape env17 data) (dm_get_shape env17 self)) then (self, DmRaise DmValueError)
      else (dm_set_data env17 comp data self, DmOk)
    end.

Lemma dm_list_eq_eqlz : forall a b, dm_list_eq a b = eqlz a b.
Proof. induction a as [|x a IH]; intros [|y b]; reflexivity. Qed.

Lemma gen_update_loop : forall l s, snd (update_comps_loop l s) <> RUnmodelled ->
  (let '(s1, r) := dm_for_each l body17 s in (s1, cv_res r)) = update_comps_loop l s.
Proof.
  induction l as [|[c sh] l IH]; intros s Hm; [reflexivity|].
  cbn [dm_for_each update_comps_loop body17] in *.
  cbn [env17 dm_resolve_component dm_data_shape dm_get_shape dm_set_data] in *.
  rewrite dm_list_eq_eqlz.
  destruct (assoc c (comps s)) as [k|] eqn:Ea.
  - destruct (eqlz sh (shape s)) eqn:Es; cbn [negb] in *; [|reflexivity].
    destruct (is_main k) eqn:Em; cbn [negb fst] in *; [|exfalso; apply Hm; reflexivity].
    apply IH. exact Hm.
  - destruct (memz c (ext s)); [exfalso; apply Hm; reflexivity | reflexivity].
Qed.

Lemma gen_update_comps_is_model : forall l s, snd (update_comps l s) <> RUnmodelled -> g_update_comps l s = update_comps l s.
Proof.
  intros l s Hm. unfold g_update_comps, update_comps, update_components in *.
  change (dm_for_each l _ s) with (dm_for_each l body17 s).
  assert (Hl : snd (update_comps_loop l s) <> RUnmodelled).
  { intros E. apply Hm. destruct (update_comps_loop l s) as [s1 r]. cbn [snd] in E. subst r. reflexivity. }
  pose proof (gen_update_loop l s Hl) as E.
  destruct (dm_for_each l body17 s) as [s1 r]. destruct (update_comps_loop l s) as [s1' r'].
  injection E as <- <-. clear Hl Hm.
  destruct r as [|e]; cbn [cv_res].
  - cbn [env17 dm_clear_mask_caches dm_hub_is_none dm_broadcast cv_msg].
    change (dm_keys l) with (keys l).
    destruct (hub s1) eqn:Hh; cbn [negb]; try reflexivity. rewrite emit_nohub by exact Hh. reflexivity.
  - destruct e; reflexivity.
Qed.

(* ---------- one call, and a run, with the translated calls taken from the generated code ---------- *)
Lemma update_comps_unmodelled : forall l s x, update_comps l s = (x, RUnmodelled) -> x = s.
Proof.
  intros l s x. unfold update_comps. destruct (update_comps_loop l s) as [s1 r].
  destruct r as [|e|]; intros E; inversion E; reflexivity.
Qed.

Lemma step_g_is_step : forall o s, data_inv s -> step_g o s = step o s.
Proof.
  intros o s I. assert (I0 : data_inv (set_log s [])) by (apply data_inv_set_log; exact I).
  destruct o; try reflexivity; unfold step_g, step.
  - f_equal. apply gen_remove_component_is_model. apply I0.
  - apply gen_reorder_is_model. apply I0.
  - apply gen_update_id_is_model. exact I0.
  - destruct (update_comps l (set_log s [])) as [x r] eqn:E.
    destruct r as [|e|].
    + rewrite <- E. apply gen_update_comps_is_model. rewrite E. discriminate.
    + rewrite <- E. apply gen_update_comps_is_model. rewrite E. discriminate.
    + apply update_comps_unmodelled in E. subst x. reflexivity.
Qed.

Lemma run_g_is_run : forall ops s, data_inv s -> guarded ops s = true -> run_g ops s = run ops s.
Proof.
  induction ops as [|o ops IH]; intros s I G; [reflexivity|].
  cbn [guarded] in G. apply andb_true_iff in G. destruct G as [G G3]. apply andb_true_iff in G. destruct G as [G1 G2].
  unfold run_g, run. cbn [fold_left]. rewrite (step_g_is_step o s I).
  apply IH; [apply step_inv; assumption | exact G3].
Qed.
