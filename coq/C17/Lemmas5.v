(* C17 — every modelled call of the mutation API preserves the invariant (under the guard) *)
From Coq Require Import ZArith List Bool Lia Permutation.
Import ListNotations.
From GV Require Import Common.Wire C17.Model C17.Lemmas1 C17.Lemmas2 C17.Lemmas3 C17.Lemmas4.
Open Scope Z_scope.

(* ---------- the guard of the partial theorem ---------- *)
(* ids handed to the API are objects that exist already (pool ids or ids created earlier), and the call does not
   remove / replace a pixel or world component through the public API (known finding) *)
Definition guard_op (s : st) (o : op) : bool :=
  match o with
  | ORemove c => negb (memz c (pixel s ++ world s))
  | OAddAt c _ => negb (memz c (pixel s ++ world s)) && (c <? next s)
  | OUpdateId _ n => n <? next s
  | _ => true
  end.
Definition modelled (r : result) : bool := match r with RUnmodelled => false | _ => true end.
Fixpoint guarded (ops : list op) (s : st) : bool :=
  match ops with
  | [] => true
  | o :: r => guard_op s o && modelled (snd (step o s)) && guarded r (fst (step o s))
  end.

(* ---------- transfer between states that agree on what the invariant reads ---------- *)
Definition inv_fields (a b : st) : Prop :=
  shape a = shape b /\ comps a = comps b /\ pixel a = pixel b /\ world a = world b /\ crd a = crd b /\
  next a = next b /\ stuck a = stuck b /\ queue a = queue b.

Lemma data_inv_fields : forall a b, inv_fields a b -> data_inv a -> data_inv b.
Proof.
  intros a b (Hs & Hc & Hp & Hw & Hcr & Hn & Hst & Hq) [[[n p co f st] W] sh pl wl q].
  constructor; [split; [constructor|]| | | |]; unfold world_ok in *;
    rewrite <- ?Hs, <- ?Hc, <- ?Hp, <- ?Hw, <- ?Hcr, <- ?Hn, <- ?Hst, <- ?Hq; assumption.
Qed.

Lemma inv_fields_core : forall a b, core a = core b -> queue a = queue b -> inv_fields a b.
Proof. intros a b H Q. core_inj H. repeat split; assumption. Qed.

Lemma data_inv_emit : forall m s, data_inv s -> data_inv (emit m s).
Proof.
  intros m s I. eapply data_inv_fields; [|exact I]. apply inv_fields_core; [symmetry; apply core_emit|].
  rewrite (inv_queue _ I). symmetry. apply queue_emit_none. apply (inv_queue _ I).
Qed.

Lemma inv_empty : forall s, data_inv s -> comps s = [] -> pixel s = [] /\ world s = [] /\ shape s = [].
Proof.
  intros s [[[n p co f st] W] sh pl wl q] E.
  assert (P : pixel s = []).
  { apply all_nth_none. intros i c H. apply p in H. rewrite E in H. discriminate. }
  assert (Wd : world s = []).
  { apply all_nth_none. intros i c H. apply W in H. rewrite E in H. discriminate. }
  repeat split; try assumption. rewrite P in pl. destruct (shape s); [reflexivity | discriminate].
Qed.

Lemma pinv_fresh : forall l s, pinv s -> pinv (snd (fresh l s)).
Proof.
  intros l s [n p co f st]. unfold fresh. simpl. constructor; simpl; try assumption.
  intros c H. apply f in H. lia.
Qed.

Lemma winv_fresh : forall l s, winv s -> winv (snd (fresh l s)).
Proof. intros l s [P W]. split; [apply pinv_fresh; exact P | exact W]. Qed.

Lemma winv_set_shape : forall s sh, winv s -> winv (set_shape s sh).
Proof. intros s sh [[n p co f st] W]. split; [constructor|]; assumption. Qed.

Lemma pixel_in_keys : forall s c, pinv s -> In c (pixel s) -> In c (keys (comps s)).
Proof. intros s c P H. apply In_nth_error in H. destruct H as [i H]. apply (p_pixel _ P) in H. eapply assoc_In_keys. exact H. Qed.

Lemma world_in_keys : forall s c, world_ok s -> In c (world s) -> In c (keys (comps s)).
Proof. intros s c W H. apply In_nth_error in H. destruct H as [i H]. apply W in H. eapply assoc_In_keys. exact H. Qed.

(* ---------- storing a stored-array / derived component under an id ---------- *)
Lemma put_data_inv : forall c k s s', data_inv s -> put_spec c k s s' -> queue s' = None ->
  ~ In c (pixel s ++ world s) -> c < next s -> is_coord k = false -> (forall sh, k = KMain sh -> sh = shape s) ->
  data_inv s'.
Proof.
  intros c k s s' I PS Q Hn Hlt Hk Hsh.
  pose proof I as [[P W] sh pl wl q].
  assert (Hnp : ~ In c (pixel s)) by (intros H; apply Hn; apply in_app_iff; left; exact H).
  assert (Hnw : ~ In c (world s)) by (intros H; apply Hn; apply in_app_iff; right; exact H).
  constructor.
  - split; [eapply put_pinv; eassumption | eapply put_world_ok; eassumption].
  - rewrite (ps_shape _ _ _ _ PS). eapply put_mains; [apply (p_nodup _ P) | exact PS | exact sh | exact Hsh].
  - rewrite (ps_pixel _ _ _ _ PS), (ps_shape _ _ _ _ PS). exact pl.
  - rewrite (ps_world _ _ _ _ PS), (ps_shape _ _ _ _ PS), (ps_crd _ _ _ _ PS). exact wl.
  - exact Q.
Qed.

(* fresh id, then store *)
Lemma fresh_put_data_inv : forall l k s, data_inv s -> is_coord k = false -> (forall sh, k = KMain sh -> sh = shape s) ->
  data_inv (add_core (next s) k (snd (fresh l s))).
Proof.
  intros l k s I Hk Hsh.
  destruct (fresh_fields l s) as [_ F]. set (s1 := snd (fresh l s)) in *. cbv zeta in F.
  destruct F as (Fsh & Fco & Fpx & Fwo & Fcr & Fcl & Fdl & Fhu & Fex & Fnx & Flo & Fqu & Fst).
  assert (I1 : data_inv s1).
  { pose proof I as [[P W] sh pl wl q]. constructor.
    - apply winv_fresh. split; assumption.
    - rewrite Fco, Fsh. exact sh.
    - rewrite Fpx, Fsh. exact pl.
    - rewrite Fwo, Fsh, Fcr. exact wl.
    - rewrite Fqu. exact q. }
  destruct (add_core_spec (next s) k s1) as [PS EF].
  eapply put_data_inv; [exact I1 | exact PS | | | | exact Hk |].
  - apply (ef_queue _ _ _ EF). apply (inv_queue _ I1).
  - rewrite Fpx, Fwo. intros H. apply in_app_iff in H. pose proof I as [[P W] _ _ _ _].
    assert (Hin : In (next s) (keys (comps s))) by (destruct H as [H|H]; [eapply pixel_in_keys | eapply world_in_keys]; eassumption).
    apply (p_fresh _ P) in Hin. lia.
  - rewrite Fnx. lia.
  - rewrite Fsh. exact Hsh.
Qed.

(* ---------- first component ---------- *)
Lemma first_component_spec : forall sh s, data_inv s -> comps s = [] ->
  let s1 := first_component sh s in
  winv s1 /\ shape s1 = sh /\ length (pixel s1) = length sh /\
  length (world s1) = match crd s with Some _ => length sh | None => O end /\ crd s1 = crd s /\ queue s1 = None /\
  (forall c sh0, ~ In (c, KMain sh0) (comps s1)) /\ (forall x, In x (keys (comps s1)) -> next s <= x) /\ next s <= next s1.
Proof.
  intros sh s I E. unfold first_component. rewrite E.
  destruct (inv_empty s I E) as (Ep & Ew & Es).
  pose proof I as [WI _ _ _ q].
  pose proof (coord_loop_spec false (fun i => pixel_label i (Z.of_nat (length sh))) (length sh) O s WI) as CL.
  simpl in CL. rewrite Ep in CL. specialize (CL eq_refl). rewrite <- upto_seq in CL.
  fold (create_pixels (length sh) s) in CL. set (sp := create_pixels (length sh) s) in *.
  destruct CL as [cw cl co cm csh ccr ch cdl cq cn ck]. simpl in cl, co.
  destruct (update_world_spec (length sh) sp cw) as [uw ul up um ush ucr uh udl uq un uk].
  set (s1 := update_world (length sh) sp) in *.
  split; [|split; [|split; [|split; [|split; [|split; [|split; [|split]]]]]]].
  - apply winv_set_shape. exact uw.
  - reflexivity.
  - simpl. rewrite up, cl, Ep. reflexivity.
  - simpl. rewrite ul, ccr. reflexivity.
  - simpl. congruence.
  - exact uq.
  - simpl. intros c sh0 Hin. apply um in Hin. apply cm in Hin. rewrite E in Hin. destruct Hin.
  - simpl. intros x Hx. apply uk in Hx. destruct Hx as [Hx|Hx]; [|lia].
    apply ck in Hx. rewrite E in Hx. destruct Hx as [[]|Hx]. exact Hx.
  - simpl. lia.
Qed.

Lemma fresh_eq : forall l s, fresh l s = (next s, snd (fresh l s)).
Proof. reflexivity. Qed.

Lemma data_inv_set_parents : forall s v, data_inv s -> data_inv (set_parents s v).
Proof. intros s v I. eapply data_inv_fields; [|exact I]. repeat split. Qed.

Lemma data_inv_set_log : forall s v, data_inv s -> data_inv (set_log s v).
Proof. intros s v I. eapply data_inv_fields; [|exact I]. repeat split. Qed.

Lemma data_inv_set_labels : forall s v, data_inv s -> data_inv (set_labels s v).
Proof. intros s v I. eapply data_inv_fields; [|exact I]. repeat split. Qed.

(* the checks of add_component passed: the state in which the component is stored *)
Lemma checks_ok : forall sh s, data_inv s -> add_checks sh s = ROk ->
  let s1 := first_component sh s in
  data_inv s1 /\ shape s1 = sh /\ next s <= next s1 /\
  (forall x, In x (pixel s1 ++ world s1) -> In x (pixel s ++ world s) \/ next s <= x).
Proof.
  intros sh s I H. unfold add_checks in H. destruct sh as [|d sh']; [discriminate|].
  destruct (comps s) as [|ck cs] eqn:E.
  - destruct (shape s) eqn:Es; [|discriminate].
    destruct (first_component_spec (d :: sh') s I E) as (W1 & S1 & P1 & Wl & C1 & Q1 & M1 & K1 & N1).
    set (s1 := first_component (d :: sh') s) in *. cbv zeta.
    split; [|split; [exact S1 | split; [exact N1|]]].
    + constructor.
      * exact W1.
      * intros c sh0 Hin. exfalso. eapply M1. exact Hin.
      * rewrite S1. exact P1.
      * rewrite S1, C1. exact Wl.
      * exact Q1.
    + intros x Hx. right. apply K1. destruct W1 as [PI WO]. apply in_app_iff in Hx.
      destruct Hx as [Hx|Hx]; [eapply pixel_in_keys | eapply world_in_keys]; eassumption.
  - destruct (eqlz (d :: sh') (shape s)) eqn:Eq; [|discriminate]. apply eqlz_eq in Eq.
    unfold first_component. rewrite E. cbv zeta. split; [exact I | split; [symmetry; exact Eq | split; [lia|]]].
    intros x Hx. left. exact Hx.
Qed.

Lemma add_new_inv : forall l sh s, data_inv s -> modelled (snd (add_new l sh s)) = true -> data_inv (fst (add_new l sh s)).
Proof.
  intros l sh s I M. unfold add_new in *. destruct (add_checks sh s) eqn:EC; [|exact I|discriminate].
  destruct (checks_ok sh s I EC) as (I1 & S1 & _ & _). set (s1 := first_component sh s) in *.
  rewrite (fresh_eq l s1). cbv beta iota zeta delta [fst].
  apply fresh_put_data_inv; [exact I1 | reflexivity |].
  intros sh0 E. inversion E. congruence.
Qed.

Lemma add_at_inv : forall c sh s, data_inv s -> guard_op s (OAddAt c sh) = true -> modelled (snd (add_at c sh s)) = true ->
  data_inv (fst (add_at c sh s)).
Proof.
  intros c sh s I G M. unfold add_at in *. simpl in G. apply andb_true_iff in G. destruct G as [G1 G2].
  apply negb_true_iff in G1. apply memz_false in G1. apply Z.ltb_lt in G2.
  destruct (add_checks sh s) eqn:EC; simpl in *; try exact I; try discriminate.
  - set (s0 := if memz c (parents s) then s else set_parents s (c :: parents s)).
    assert (I0 : data_inv s0) by (unfold s0; destruct (memz c (parents s)); [exact I | apply data_inv_set_parents; exact I]).
    assert (F0 : shape s0 = shape s /\ comps s0 = comps s /\ pixel s0 = pixel s /\ world s0 = world s /\ next s0 = next s /\ crd s0 = crd s).
    { unfold s0; destruct (memz c (parents s)); repeat split. }
    destruct F0 as (Fs & Fc & Fp & Fw & Fn & Fcr).
    assert (EC0 : add_checks sh s0 = ROk).
    { unfold add_checks, crd_ndim_ok in *. rewrite Fs, Fc, Fcr. exact EC. }
    destruct (checks_ok sh s0 I0 EC0) as (I1 & S1 & N1 & K1). set (s1 := first_component sh s0) in *.
    destruct (add_core_spec c (KMain sh) s1) as [PS EF].
    eapply put_data_inv; [exact I1 | exact PS | | | | reflexivity |].
    + apply (ef_queue _ _ _ EF). apply (inv_queue _ I1).
    + intros H. apply K1 in H. rewrite Fp, Fw, Fn in H. destruct H as [H|H]; [contradiction | lia].
    + lia.
    + intros sh0 E. inversion E. congruence.
  - destruct e; simpl in *; try exact I. destruct (memz c (parents s)); [exact I | apply data_inv_set_parents; exact I].
Qed.

Lemma add_derived_inv : forall l from s, data_inv s -> data_inv (fst (add_derived l from s)).
Proof.
  intros l from s I. unfold add_derived. destruct (negb (subsetz from (keys (comps s)))); [exact I|].
  destruct (comps s) eqn:E; [exact I|]. rewrite (fresh_eq l s). cbv beta iota zeta delta [fst].
  apply fresh_put_data_inv; [exact I | reflexivity | intros sh0 H; discriminate].
Qed.

Lemma remove_inv : forall c s, data_inv s -> guard_op s (ORemove c) = true -> data_inv (remove_component c s).
Proof.
  intros c s I G. simpl in G. apply negb_true_iff in G. apply memz_false in G.
  pose proof I as [[P W] sh pl wl q].
  destruct (remove_component_spec c s (p_nodup _ P)) as [out S]. rest_inj S.
  constructor.
  - split.
    + eapply rm_pinv; [exact P | exact S |]. intros x <- H. apply G. apply in_app_iff. left. exact H.
    + eapply rm_world_ok; [apply (p_nodup _ P) | exact W | exact S |]. intros x <- H. apply G. apply in_app_iff. right. exact H.
  - rewrite Rshape. intros x sh0 H. apply (sh x). eapply rm_mains; eassumption.
  - rewrite Rpixel, Rshape. exact pl.
  - rewrite Rworld, Rshape, Rcrd. exact wl.
  - apply (ef_queue _ _ _ (rm_eff _ _ _ _ S)). exact q.
Qed.

(* ---------- tables with the same lookups ---------- *)
Lemma In_iff_assoc : forall A (l : list (Z * A)) c k, NoDup (keys l) -> (In (c, k) l <-> assoc c l = Some k).
Proof. intros. split; [apply In_assoc; assumption | apply assoc_Some_In]. Qed.

Lemma data_inv_same_map : forall s new, data_inv s -> NoDup (keys new) -> (forall c, assoc c new = assoc c (comps s)) ->
  data_inv (set_comps s new).
Proof.
  intros s new [[[n p co f st] W] sh pl wl q] ND H.
  assert (HI : forall c k, In (c, k) new <-> In (c, k) (comps s)).
  { intros c k. rewrite In_iff_assoc by exact ND. rewrite In_iff_assoc by exact n. rewrite H. tauto. }
  constructor; [split; [constructor|]| | | |]; simpl; try assumption.
  - intros i c Hc. rewrite H. apply p. exact Hc.
  - intros c w a Hin. apply HI in Hin. apply (co c w a Hin).
  - intros c Hc. apply f. apply In_keys_ex in Hc. destruct Hc as [k Hk]. apply HI in Hk. eapply In_keys. exact Hk.
  - unfold world_ok. simpl. intros i c Hc. rewrite H. apply W. exact Hc.
  - intros c sh0 Hin. apply HI in Hin. apply (sh c sh0 Hin).
Qed.

Lemma keys_map_lookup : forall A (g : Z -> A) l, keys (map (fun c => (c, g c)) l) = l.
Proof. intros. unfold keys. rewrite map_map. simpl. apply map_id. Qed.

Lemma assoc_map_lookup : forall A (g : Z -> A) l c, In c l -> assoc c (map (fun c => (c, g c)) l) = Some (g c).
Proof.
  induction l as [|x l IH]; simpl; intros c H; [contradiction|].
  destruct (x =? c) eqn:E; [apply Z.eqb_eq in E; subst; reflexivity|].
  destruct H as [H|H]; [apply Z.eqb_neq in E; congruence | apply IH; exact H].
Qed.

Lemma reorder_inv : forall l s, data_inv s -> data_inv (fst (reorder l s)).
Proof.
  intros l s I. unfold reorder.
  destruct (negb (length l =? length (comps s))%nat) eqn:E1; [exact I|].
  destruct (negb (same_set l (keys (comps s)))) eqn:E2; [exact I|].
  destruct (eqlz l (keys (comps s))) eqn:E3; [exact I|].
  simpl. apply data_inv_emit.
  apply negb_false_iff in E1. apply Nat.eqb_eq in E1. apply negb_false_iff in E2.
  unfold same_set in E2. apply andb_true_iff in E2. destruct E2 as [S1 S2].
  rewrite subsetz_spec in S1, S2.
  pose proof I as [[[n _ _ _ _] _] _ _ _ _].
  assert (NDl : NoDup l).
  { eapply NoDup_incl_NoDup; [exact n | | exact S2]. rewrite keys_length, E1. apply Nat.le_refl. }
  apply data_inv_same_map; [exact I | rewrite keys_map_lookup; exact NDl |].
  intros c. destruct (in_dec Z.eq_dec c l) as [Hc|Hc].
  - rewrite assoc_map_lookup by exact Hc. apply S1 in Hc. apply In_keys_ex in Hc. destruct Hc as [k Hk].
    apply In_assoc in Hk; [|exact n]. rewrite Hk. reflexivity.
  - assert (A1 : assoc c (map (fun c0 => (c0, match assoc c0 (comps s) with Some k => k | None => KMain [] end)) l) = None).
    { apply assoc_None. rewrite keys_map_lookup. exact Hc. }
    rewrite A1. symmetry. apply assoc_None. intros H. apply Hc. apply S2. exact H.
Qed.

(* ---------- update_id ---------- *)
Definition ren (o n c : cid) : cid := if c =? o then n else c.

Lemma keys_ren : forall o n (l : list (cid * kind)),
  keys (map (fun ck => ((if fst ck =? o then n else fst ck), repl_kind o n (snd ck))) l) = replz o n (keys l).
Proof. intros. unfold keys, replz. rewrite !map_map. apply map_ext. intros [c k]. reflexivity. Qed.

Lemma In_ren : forall o n (l : list (cid * kind)) c k,
  In (c, k) (map (fun ck => ((if fst ck =? o then n else fst ck), repl_kind o n (snd ck))) l) <->
  exists c0 k0, In (c0, k0) l /\ c = ren o n c0 /\ k = repl_kind o n k0.
Proof.
  intros. rewrite in_map_iff. split.
  - intros [[c0 k0] [E H]]. simpl in E. inversion E. exists c0, k0. repeat split; assumption.
  - intros [c0 [k0 [H [-> ->]]]]. exists (c0, k0). split; [reflexivity | exact H].
Qed.

Lemma update_id_inv : forall o n s, data_inv s -> guard_op s (OUpdateId o n) = true -> modelled (snd (update_id o n s)) = true ->
  data_inv (fst (update_id o n s)).
Proof.
  intros o n s I G M. unfold update_id in *. simpl in G. apply Z.ltb_lt in G.
  destruct (o =? n) eqn:Eon; [exact I|]. apply Z.eqb_neq in Eon.
  destruct (used o s && used n s) eqn:EU; [discriminate|].
  set (s0 := if memz n (parents s) then s else set_parents s (n :: parents s)) in *.
  assert (I0 : data_inv s0) by (unfold s0; destruct (memz n (parents s)); [exact I | apply data_inv_set_parents; exact I]).
  assert (F0 : comps s0 = comps s /\ pixel s0 = pixel s /\ world s0 = world s /\ next s0 = next s /\ used o s0 = used o s /\ used n s0 = used n s).
  { unfold s0; destruct (memz n (parents s)); repeat split. }
  destruct F0 as (Fc & Fp & Fw & Fn & Fuo & Fun).
  rewrite Fuo. destruct (used o s) eqn:EUo; [|exact I0].
  simpl in EU.
  unfold used in EU. apply orb_false_iff in EU. destruct EU as [EU Enw]. apply orb_false_iff in EU. destruct EU as [Enk Enp].
  apply has_key_false in Enk. apply memz_false in Enp. apply memz_false in Enw.
  simpl. apply data_inv_emit.
  pose proof I0 as [[[nd p co f st] W] sh pl wl q].
  rewrite <- Fc in Enk. rewrite <- Fp in Enp. rewrite <- Fw in Enw.
  set (new := map (fun ck => ((if fst ck =? o then n else fst ck), repl_kind o n (snd ck))) (comps s0)).
  assert (NDn : NoDup (keys new)) by (unfold new; rewrite keys_ren; apply NoDup_replz; assumption).
  assert (Hmem : forall c0 k0, In (c0, k0) (comps s0) -> assoc (ren o n c0) new = Some (repl_kind o n k0)).
  { intros c0 k0 H. apply In_assoc; [exact NDn|]. unfold new. apply In_ren. exists c0, k0. repeat split. exact H. }
  constructor; [split; [constructor|]| | | |]; simpl.
  - exact NDn.
  - intros i c Hc. apply nth_error_replz in Hc. destruct Hc as [c0 [H0 ->]].
    apply p in H0. apply assoc_Some_In in H0. apply (Hmem c0 _ H0).
  - intros c w a Hin. apply In_ren in Hin. destruct Hin as [c0 [k0 [H0 [-> Hk]]]].
    assert (k0 = KCoord w a) by (destruct k0; simpl in Hk; congruence). subst k0.
    apply co in H0. unfold ren. destruct w; unfold replz; apply in_map_iff; exists c0; split; try reflexivity; exact H0.
  - intros c Hc. unfold new in Hc. rewrite keys_ren in Hc. apply In_replz in Hc. rewrite Fn in *.
    destruct Hc as [->|[_ Hc]]; [exact G | apply f; exact Hc].
  - exact st.
  - unfold world_ok. simpl. intros i c Hc. apply nth_error_replz in Hc. destruct Hc as [c0 [H0 ->]].
    apply W in H0. apply assoc_Some_In in H0. apply (Hmem c0 _ H0).
  - intros c sh0 Hin. apply In_ren in Hin. destruct Hin as [c0 [k0 [H0 [_ Hk]]]].
    assert (k0 = KMain sh0) by (destruct k0; simpl in Hk; congruence). subst k0. apply (sh c0 sh0 H0).
  - rewrite replz_length. exact pl.
  - rewrite replz_length. exact wl.
  - exact q.
Qed.

(* ---------- rename, coords setter ---------- *)
Lemma rename_inv : forall c l s, data_inv s -> data_inv (fst (rename c l s)).
Proof.
  intros c l s I. unfold rename. simpl. destruct (memz c (parents s)).
  - apply data_inv_emit. apply data_inv_set_labels. exact I.
  - apply data_inv_set_labels. exact I.
Qed.

Lemma winv_set_crd : forall s v, winv s -> winv (set_crd s v).
Proof. intros s v [[n p co f st] W]. split; [constructor|]; assumption. Qed.

Lemma set_coords_inv : forall v s, data_inv s -> data_inv (fst (set_coords v s)).
Proof.
  intros v s I. unfold set_coords. destruct (same_crd (crd s) v); [exact I|].
  destruct (comps s) as [|ck cs] eqn:E.
  - destruct (inv_empty s I E) as (Ep & Ew & Es). pose proof I as [WI sh pl wl q]. simpl.
    constructor; simpl; try assumption.
    + apply winv_set_crd. exact WI.
    + rewrite Ew, Es. destruct v; reflexivity.
  - destruct (coords_ok v s); [|exact I]. simpl.
    pose proof I as [WI sh pl wl q].
    destruct (update_world_spec (length (shape s)) (set_crd s v) (winv_set_crd s v WI)) as [uw ul up um ush ucr uh udl uq un uk].
    simpl in *. constructor.
    + exact uw.
    + rewrite ush. intros c sh0 H. apply um in H. apply (sh c sh0 H).
    + rewrite up, ush. exact pl.
    + rewrite ul, ucr, ush. reflexivity.
    + exact uq.
Qed.

(* ---------- update_components ---------- *)
Lemma update_comps_loop_inv : forall l s, data_inv s -> data_inv (fst (update_comps_loop l s)).
Proof.
  induction l as [|[c sh] l IH]; intros s I; simpl; [exact I|].
  destruct (assoc c (comps s)) as [k|] eqn:Ea; [|destruct (memz c (ext s)); exact I].
  destruct (negb (eqlz sh (shape s))) eqn:Es; [exact I|].
  destruct (negb (is_main k)) eqn:Ek; [exact I|].
  apply IH. apply negb_false_iff in Es. apply eqlz_eq in Es. apply negb_false_iff in Ek.
  pose proof I as [[P W] _ _ _ q].
  eapply put_data_inv with (c := c) (k := KMain sh); [exact I | constructor; reflexivity | exact q | | | reflexivity |].
  - intros H. apply in_app_iff in H. destruct H as [H|H]; apply In_nth_error in H; destruct H as [i H].
    + apply (p_pixel _ P) in H. rewrite H in Ea. inversion Ea. subst k. discriminate.
    + apply W in H. rewrite H in Ea. inversion Ea. subst k. discriminate.
  - apply (p_fresh _ P). eapply assoc_In_keys. exact Ea.
  - intros sh0 E. inversion E. congruence.
Qed.

Lemma update_comps_inv : forall l s, data_inv s -> data_inv (fst (update_comps l s)).
Proof.
  intros l s I. unfold update_comps. pose proof (update_comps_loop_inv l s I) as H.
  destruct (update_comps_loop l s) as [s1 r]. simpl in H. destruct r; simpl; [apply data_inv_emit; exact H | exact H | exact I].
Qed.

(* ---------- update_values_from_data ---------- *)
Lemma remove_list_inv : forall gone s, data_inv s -> (forall c, In c gone -> ~ In c (pixel s ++ world s)) ->
  let s' := fold_left (fun acc c => remove_component c acc) gone s in
  data_inv s' /\ rest s' = rest s.
Proof.
  induction gone as [|c gone IH]; intros s I Hg; simpl; [split; [exact I | reflexivity]|].
  assert (G : guard_op s (ORemove c) = true).
  { simpl. apply negb_true_iff. apply memz_false. apply Hg. left. reflexivity. }
  pose proof (remove_inv c s I G) as I1.
  pose proof I as [[P _] _ _ _ _].
  destruct (remove_component_spec c s (p_nodup _ P)) as [out S]. rest_inj S.
  destruct (IH (remove_component c s) I1) as [I2 R2].
  - intros x Hx. rewrite Rpixel, Rworld. apply Hg. right. exact Hx.
  - split; [exact I2|]. rewrite R2. apply (rm_rest _ _ _ _ S).
Qed.

Lemma assoc_map_val : forall (f : kind -> kind) (l : list (cid * kind)) c,
  assoc c (map (fun ck => (fst ck, f (snd ck))) l) = option_map f (assoc c l).
Proof.
  induction l as [|[k v] l IH]; simpl; intros c; [reflexivity|]. destruct (k =? c); [reflexivity | apply IH].
Qed.

Lemma keys_map_val : forall (f : kind -> kind) (l : list (cid * kind)), keys (map (fun ck => (fst ck, f (snd ck))) l) = keys l.
Proof. intros. unfold keys. rewrite map_map. reflexivity. Qed.

Definition retype (sh : list Z) (k : kind) : kind :=
  match k with KMain _ => KMain sh | KDerived f => KDerived f | KCoord w a => KCoord w a end.

Lemma reshape_inv : forall s sh, data_inv s -> length sh = length (shape s) ->
  data_inv (set_comps (set_shape s sh) (map (fun ck => (fst ck, retype sh (snd ck))) (comps s))).
Proof.
  intros s sh [[[n p co f st] W] shp pl wl q] Hl.
  set (new := map (fun ck => (fst ck, retype sh (snd ck))) (comps s)).
  assert (NDn : NoDup (keys new)) by (unfold new; rewrite keys_map_val; exact n).
  assert (HI : forall c k, In (c, k) new -> exists k0, In (c, k0) (comps s) /\ k = retype sh k0).
  { intros c k H. unfold new in H. apply in_map_iff in H. destruct H as [[c0 k0] [E H]]. simpl in E. inversion E; subst. exists k0. split; [exact H | reflexivity]. }
  constructor; [split; [constructor|]| | | |]; simpl; try assumption.
  - intros i c Hc. unfold new. rewrite assoc_map_val. rewrite (p i c Hc). reflexivity.
  - intros c w a Hin. apply HI in Hin. destruct Hin as [k0 [H0 Hk]].
    assert (k0 = KCoord w a) by (destruct k0; simpl in Hk; congruence). subst k0. apply (co c w a H0).
  - intros c Hc. unfold new in Hc. rewrite keys_map_val in Hc. apply f. exact Hc.
  - unfold world_ok. simpl. intros i c Hc. unfold new. rewrite assoc_map_val. rewrite (W i c Hc). reflexivity.
  - intros c sh0 Hin. apply HI in Hin. destruct Hin as [k0 [H0 Hk]]. destruct k0; simpl in Hk; try discriminate. inversion Hk. reflexivity.
  - rewrite Hl. exact pl.
  - rewrite Hl. exact wl.
Qed.

Lemma add_mains_inv : forall sh old mains s, data_inv s -> shape s = sh ->
  let s' := fold_left (fun acc l => if memz l old then acc else let '(c, a1) := fresh l acc in add_core c (KMain sh) a1) mains s in
  data_inv s' /\ shape s' = sh /\ crd s' = crd s.
Proof.
  induction mains as [|l mains IH]; intros s I Hs; cbn [fold_left]; cbv zeta; [split; [exact I | split; [exact Hs | reflexivity]]|].
  destruct (memz l old); [apply IH; assumption|].
  rewrite (fresh_eq l s). cbv beta iota zeta.
  assert (I1 : data_inv (add_core (next s) (KMain sh) (snd (fresh l s)))).
  { apply fresh_put_data_inv; [exact I | reflexivity | intros sh0 E; inversion E; congruence]. }
  destruct (add_core_spec (next s) (KMain sh) (snd (fresh l s))) as [PS _].
  destruct (IH _ I1) as (A & B & C).
  - rewrite (ps_shape _ _ _ _ PS). simpl. exact Hs.
  - split; [exact A | split; [exact B|]]. rewrite C, (ps_crd _ _ _ _ PS). reflexivity.
Qed.

Lemma coord_in_coord_ids : forall s c w a, In (c, KCoord w a) (comps s) -> In c (coord_ids s).
Proof.
  intros s c w a H. unfold coord_ids, class_ids. eapply In_keys. apply filter_In. split; [exact H | reflexivity].
Qed.

Lemma update_from_inv : forall x s, data_inv s -> data_inv (fst (update_from x s)).
Proof.
  intros x s I. unfold update_from.
  destruct (has_dup (map (lab s) (keys (comps s)))); [exact I|].
  destruct (has_dup (src_coord_labels x ++ src_main x)); [exact I|].
  match goal with |- context [if negb ?b then _ else _] => destruct b eqn:EA end; [|exact I].
  simpl negb. cbv iota.
  apply andb_true_iff in EA. destruct EA as [EA Ecrd].
  apply andb_true_iff in EA. destruct EA as [EA EA1].
  apply andb_true_iff in EA. destruct EA as [EA Em].
  apply andb_true_iff in EA. destruct EA as [EA Eok].
  unfold same_set in EA. apply andb_true_iff in EA. destruct EA as [EA _]. rewrite subsetz_spec in EA.
  apply Nat.eqb_eq in EA1.
  set (new_labels := src_coord_labels x ++ src_main x) in *.
  set (gone := filter (fun c => negb (memz (lab s c) new_labels)) (keys (comps s))).
  pose proof I as [[P W] _ _ _ _].
  assert (Hg : forall c, In c gone -> ~ In c (pixel s ++ world s)).
  { intros c Hc Hin. unfold gone in Hc. apply filter_In in Hc. destruct Hc as [_ Hc]. apply negb_true_iff in Hc. apply memz_false in Hc.
    apply Hc. unfold new_labels. apply in_app_iff. left. apply EA. apply in_map.
    apply in_app_iff in Hin. destruct Hin as [H|H]; apply In_nth_error in H; destruct H as [i H].
    - apply (p_pixel _ P) in H. eapply coord_in_coord_ids. apply assoc_Some_In. exact H.
    - apply W in H. eapply coord_in_coord_ids. apply assoc_Some_In. exact H. }
  destruct (remove_list_inv gone s I Hg) as [I1 R1].
  set (s1 := fold_left (fun acc c => remove_component c acc) gone s) in *.
  unfold rest in R1. injection R1 as R1shape R1pixel R1world R1crd R1clinks R1labels R1parents R1dlabel R1next.
  assert (I3 : data_inv (set_comps (set_shape s1 (src_shape x))
                           (map (fun ck => (fst ck, match snd ck with KMain _ => KMain (src_shape x) | k => k end)) (comps s1)))).
  { change (data_inv (set_comps (set_shape s1 (src_shape x)) (map (fun ck => (fst ck, retype (src_shape x) (snd ck))) (comps s1)))).
    apply (reshape_inv s1 (src_shape x) I1). rewrite R1shape. exact EA1. }
  set (s3 := set_comps (set_shape s1 (src_shape x)) _) in *.
  pose proof (add_mains_inv (src_shape x) (map (lab s) (keys (comps s))) (src_main x) s3 I3 eq_refl) as H4.
  cbv zeta in H4. destruct H4 as (I4 & S4 & C4).
  match type of I4 with data_inv ?t => set (s4 := t) in * end.
  set (s5 := if dlabel s4 =? src_label x then s4 else emit MLabel (set_dlabel s4 (src_label x))).
  assert (I5 : data_inv s5).
  { unfold s5. destruct (dlabel s4 =? src_label x); [exact I4|]. apply data_inv_emit. eapply data_inv_fields; [|exact I4]. repeat split. }
  simpl. apply data_inv_emit. apply set_coords_inv. exact I5.
Qed.

(* ---------- collection membership ---------- *)
Lemma data_inv_sync : forall s, data_inv s -> data_inv (sync s).
Proof.
  intros s I. eapply data_inv_fields; [|exact I]. apply inv_fields_core; [symmetry; apply core_sync | symmetry; apply queue_sync].
Qed.

Lemma join_inv : forall s, data_inv s -> data_inv (fst (join s)).
Proof.
  intros s I. unfold join. destruct (hub s); simpl; try exact I; apply data_inv_sync; (eapply data_inv_fields; [|exact I]); repeat split.
Qed.

Lemma leave_inv : forall s, data_inv s -> data_inv (fst (leave s)).
Proof.
  intros s I. unfold leave. destruct (hub s); simpl; try exact I. eapply data_inv_fields; [|exact I]. repeat split.
Qed.

(* ---------- every call, every history ---------- *)
Lemma step_inv : forall o s, data_inv s -> guard_op s o = true -> modelled (snd (step o s)) = true -> data_inv (fst (step o s)).
Proof.
  intros o s I G M. unfold step in *.
  assert (I0 : data_inv (set_log s [])) by (apply data_inv_set_log; exact I).
  destruct o.
  - apply add_new_inv; assumption.
  - apply add_at_inv; assumption.
  - apply add_derived_inv; assumption.
  - simpl. apply remove_inv; assumption.
  - apply reorder_inv; assumption.
  - apply update_id_inv; assumption.
  - apply rename_inv; assumption.
  - apply set_coords_inv; assumption.
  - apply update_comps_inv; assumption.
  - apply update_from_inv; assumption.
  - apply join_inv; assumption.
  - apply leave_inv; assumption.
Qed.

Lemma init_inv : forall m c pool dl, data_inv (init m c pool dl).
Proof.
  intros. unfold init. constructor; [split; [constructor|]| | | |]; simpl; try (intros; contradiction); try reflexivity.
  - constructor.
  - intros i x H. destruct i; discriminate.
  - intros i x H. destruct i; discriminate.
  - destruct c; reflexivity.
Qed.

Lemma run_inv : forall ops s, data_inv s -> guarded ops s = true -> data_inv (run ops s).
Proof.
  induction ops as [|o ops IH]; intros s I G; simpl; [exact I|].
  simpl in G. apply andb_true_iff in G. destruct G as [G G3]. apply andb_true_iff in G. destruct G as [G1 G2].
  apply IH; [apply step_inv; assumption | exact G3].
Qed.
