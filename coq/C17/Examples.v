(* C17 — non-vacuity and sanity runs *)
From Coq Require Import ZArith List Bool.
Import ListNotations.
From GV Require Import Common.Wire C17.Model C17.Lemmas C17.GenEquiv C17.GenTransport.
Open Scope Z_scope.

Definition co1 := Build_coords 11 0 1.
Definition co2 := Build_coords 12 1 1.
(* a history that exercises most of the API inside a collection: add, derived, coordinates on/off, rename,
   update_id of an input of a derived attribute, reorder, refresh from another dataset, removal with cascade *)
Definition history : list op :=
  [ OAddNew 0 [3]; OAddNew 1 [3]; OAddDerived 3 [101; 102]; OSetCoords (Some co1); OAddDerived 4 [103; 104];
    ORename 101 2; OUpdateId 101 1; OReorder [104; 103; 102; 1; 100; 105]; OSetCoords (Some co2);
    OUpdateComps [(102, [3])]; OUpdateFrom (Build_source [4] [2; 1; 6] (Some (Build_coords 13 1 1)) 1);
    OAddAt 2 [4]; ORemove 1; OLeave; OAddNew 0 [5]; OJoin; OSetCoords None ].
Definition s0 := init InColl None [(1, 5); (2, 6)] 0.

(* the guard of data_inv_reachable_partial is satisfiable by a non-trivial history *)
Example history_guarded : guarded history s0 = true.
Proof. vm_compute. reflexivity. Qed.

Example history_consistent : structurally_consistent (run history s0).
Proof. apply data_inv_reachable_partial. exact history_guarded. Qed.

(* what the state looks like at the end (sanity) *)
Eval vm_compute in (shape (run history s0), keys (comps (run history s0)), pixel (run history s0), world (run history s0), ext (run history s0)).
(* the cascade: removing id 1 (formerly 101) takes the derived attributes 103 and 105 with it, each announced *)
Eval vm_compute in (log (fst (step (ORemove 1) (run (firstn 12 history) s0)))).
(* invalid calls leave an empty log and the error class *)
Eval vm_compute in (let r := step (OAddNew 0 [7]) (run (firstn 3 history) s0) in (snd r, log (fst r))).
Eval vm_compute in (let r := step (OReorder [100]) (run (firstn 3 history) s0) in (snd r, log (fst r))).
(* the witness of data_inv_reachable_refuted *)
Eval vm_compute in (let s := run [OAddNew 0 [2]; ORemove 100] (init NoHub None [] 0) in (keys (comps s), pixel s)).
(* find_component_id: main > derived: a stored and a derived attribute share the label 0 *)
Eval vm_compute in (let s := run [OAddNew 0 [2]; OAddDerived 0 [101]; OAddDerived 3 [101]; OAddDerived 3 [101]] s0 in
                    (find_label s 0, find_label s 3, find_label s 1000, find_label s 9)).
Example find_prefers_main :
  let s := run [OAddNew 0 [2]; OAddDerived 0 [101]] s0 in find_label s 0 = Some 101.
Proof. vm_compute. reflexivity. Qed.
Example find_ambiguous_is_none :
  let s := run [OAddNew 0 [2]; OAddDerived 3 [101]; OAddDerived 3 [101]] s0 in find_label s 3 = None.
Proof. vm_compute. reflexivity. Qed.

(* ---- the generated code (Gen_datamut.v through env17): the same history, with remove / reorder / update_id / update_components
   taken from the translation of data.py, ends in the same state and is consistent ---- *)
Example history_generated_same : run_g history s0 = run history s0.
Proof. vm_compute. reflexivity. Qed.
Example history_generated_consistent : structurally_consistent (run_g history s0).
Proof. apply gen_data_inv_reachable_partial. exact history_guarded. Qed.
(* the generated cascade announces every attribute it removes, innermost first: 103 depends on 102 depends on 101 *)
Example generated_cascade_log :
  let s := run [OAddNew 0 [3]; OAddDerived 3 [101]; OAddDerived 4 [102]] (init HubOnly None [] 0) in
  log (fst (step_g (ORemove 101) s)) = [MRemove 103; MChanged; MRemove 102; MChanged; MRemove 101; MChanged]
  /\ keys (comps (fst (step_g (ORemove 101) s))) = [100].
Proof. split; vm_compute; reflexivity. Qed.
(* generated reorder: wrong length / same order (silent) / a real permutation (announced) *)
Definition s3 := run (firstn 3 history) s0.
Eval vm_compute in (snd (g_reorder [100] s3)).
Eval vm_compute in (log (fst (g_reorder (keys (comps s3)) s3))).
Eval vm_compute in (log (fst (g_reorder (rev (keys (comps s3))) s3))).
