(* C17 — executable model of the structural part of glue.core.data.Data
   (component table, pixel / world id lists, coordinate links, labels, hub log)
   under the whole mutation API, for a dataset outside a collection (no hub),
   attached to a hub only, or inside a DataCollection (whose link manager
   recomputes the externally derivable components on every
   ComponentsChangedMessage).  Definitions only; proofs are in Lemmas*.v.

   The model follows the code of /repo with the repairs
     fix: drop the pixel<->world links when the world components are rebuilt (F-C03)
     fix: Data.update_id re-targets internal links to the new ComponentID   (F-C14a)
   Calls outside the modelled domain return [RUnmodelled] and leave the state
   untouched (they are never sent by the harness and are excluded by the guard
   of the theorems): update_values_from_data between datasets whose coordinate
   attributes differ, update_id onto an id already in use, coordinates whose
   dimension differs from the dataset's, update_components on a non-stored
   component. *)
From Coq Require Import ZArith List Bool.
Import ListNotations.
From GV Require Import Common.Wire.
From GV Require gen.Gen_datamut.
Open Scope Z_scope.

Definition cid := Z.
Definition label := Z.

Inductive kind :=
| KMain (sh : list Z)              (* stored array of that shape *)
| KDerived (from : list cid)       (* DerivedComponent; inputs of its link *)
| KCoord (world : bool) (axis : Z) (* CoordinateComponent *).

Inductive mode := NoHub | HubOnly | InColl.

Inductive msg :=
| MAdd (c : cid)                    (* DataAddComponentMessage *)
| MRemove (c : cid)                 (* DataRemoveComponentMessage *)
| MChanged                          (* ComponentsChangedMessage *)
| MReplaced (o n : cid)             (* ComponentReplacedMessage (a ComponentsChangedMessage) *)
| MReorder (l : list cid)           (* DataReorderComponentMessage *)
| MRename (c : cid)                 (* DataRenameComponentMessage *)
| MNumerical (l : option (list cid))(* NumericalDataChangedMessage *)
| MLabel                            (* DataUpdateMessage attribute='label' *)
| MExtDer                           (* ExternallyDerivableComponentsChangedMessage *)
| MCollAdd                          (* DataCollectionAddMessage *)
| MCollDel                          (* DataCollectionDeleteMessage *).

Record coords := { co_id : Z; co_kind : Z; co_ndim : Z }.

Inductive pyerr := ValueError | TypeError | IncompatibleAttribute | RecursionError.
Inductive result := ROk | RErr (e : pyerr) | RUnmodelled.

Record st := mkst {
  shape : list Z;
  comps : list (cid * kind);          (* Data._components, in order *)
  pixel : list cid;                   (* Data._pixel_component_ids *)
  world : list cid;                   (* Data._world_component_ids *)
  crd : option coords;                (* Data.coords *)
  clinks : list (list cid * cid);     (* Data._coordinate_links as (from ids, to id) *)
  labels : list (cid * label);        (* ComponentID.label of every id ever seen *)
  parents : list cid;                 (* ids whose .parent is this dataset *)
  dlabel : Z;                         (* Data.label *)
  hub : mode;
  ext : list cid;                     (* keys of Data._externally_derivable_components *)
  next : Z;                           (* next fresh id *)
  log : list msg;                     (* messages delivered during the current call *)
  queue : option (list msg);          (* Some q: inside hub.delay_callbacks() *)
  stuck : bool                        (* fuel exhausted (proved unreachable) *)
}.

Definition set_shape s v := mkst v (comps s) (pixel s) (world s) (crd s) (clinks s) (labels s) (parents s) (dlabel s) (hub s) (ext s) (next s) (log s) (queue s) (stuck s).
Definition set_comps s v := mkst (shape s) v (pixel s) (world s) (crd s) (clinks s) (labels s) (parents s) (dlabel s) (hub s) (ext s) (next s) (log s) (queue s) (stuck s).
Definition set_pixel s v := mkst (shape s) (comps s) v (world s) (crd s) (clinks s) (labels s) (parents s) (dlabel s) (hub s) (ext s) (next s) (log s) (queue s) (stuck s).
Definition set_world s v := mkst (shape s) (comps s) (pixel s) v (crd s) (clinks s) (labels s) (parents s) (dlabel s) (hub s) (ext s) (next s) (log s) (queue s) (stuck s).
Definition set_crd s v := mkst (shape s) (comps s) (pixel s) (world s) v (clinks s) (labels s) (parents s) (dlabel s) (hub s) (ext s) (next s) (log s) (queue s) (stuck s).
Definition set_clinks s v := mkst (shape s) (comps s) (pixel s) (world s) (crd s) v (labels s) (parents s) (dlabel s) (hub s) (ext s) (next s) (log s) (queue s) (stuck s).
Definition set_labels s v := mkst (shape s) (comps s) (pixel s) (world s) (crd s) (clinks s) v (parents s) (dlabel s) (hub s) (ext s) (next s) (log s) (queue s) (stuck s).
Definition set_parents s v := mkst (shape s) (comps s) (pixel s) (world s) (crd s) (clinks s) (labels s) v (dlabel s) (hub s) (ext s) (next s) (log s) (queue s) (stuck s).
Definition set_dlabel s v := mkst (shape s) (comps s) (pixel s) (world s) (crd s) (clinks s) (labels s) (parents s) v (hub s) (ext s) (next s) (log s) (queue s) (stuck s).
Definition set_hub s v := mkst (shape s) (comps s) (pixel s) (world s) (crd s) (clinks s) (labels s) (parents s) (dlabel s) v (ext s) (next s) (log s) (queue s) (stuck s).
Definition set_ext s v := mkst (shape s) (comps s) (pixel s) (world s) (crd s) (clinks s) (labels s) (parents s) (dlabel s) (hub s) v (next s) (log s) (queue s) (stuck s).
Definition set_next s v := mkst (shape s) (comps s) (pixel s) (world s) (crd s) (clinks s) (labels s) (parents s) (dlabel s) (hub s) (ext s) v (log s) (queue s) (stuck s).
Definition set_log s v := mkst (shape s) (comps s) (pixel s) (world s) (crd s) (clinks s) (labels s) (parents s) (dlabel s) (hub s) (ext s) (next s) v (queue s) (stuck s).
Definition set_queue s v := mkst (shape s) (comps s) (pixel s) (world s) (crd s) (clinks s) (labels s) (parents s) (dlabel s) (hub s) (ext s) (next s) (log s) v (stuck s).
Definition set_stuck s v := mkst (shape s) (comps s) (pixel s) (world s) (crd s) (clinks s) (labels s) (parents s) (dlabel s) (hub s) (ext s) (next s) (log s) (queue s) v.

(* ---------- small list library ---------- *)
Definition memz (x : Z) (l : list Z) : bool := existsb (Z.eqb x) l.
Fixpoint eqlz (a b : list Z) : bool :=
  match a, b with
  | [], [] => true
  | x :: a', y :: b' => (x =? y) && eqlz a' b'
  | _, _ => false
  end.
Fixpoint has_dup (l : list Z) : bool :=
  match l with [] => false | x :: t => memz x t || has_dup t end.
Definition subsetz (a b : list Z) : bool := forallb (fun x => memz x b) a.
Definition same_set (a b : list Z) : bool := subsetz a b && subsetz b a.
Definition replz (o n : Z) (l : list Z) : list Z := map (fun x => if x =? o then n else x) l.
Definition removez (x : Z) (l : list Z) : list Z := filter (fun y => negb (y =? x)) l.

Definition keys {A} (l : list (Z * A)) : list Z := map fst l.
Fixpoint assoc {A} (k : Z) (l : list (Z * A)) : option A :=
  match l with [] => None | (k', v) :: t => if k' =? k then Some v else assoc k t end.
Definition has_key {A} (k : Z) (l : list (Z * A)) : bool := memz k (keys l).
Definition del_key {A} (k : Z) (l : list (Z * A)) : list (Z * A) := filter (fun kv => negb (fst kv =? k)) l.
(* dict[k] = v : replace in place, else append *)
Fixpoint put {A} (k : Z) (v : A) (l : list (Z * A)) : list (Z * A) :=
  match l with
  | [] => [(k, v)]
  | (k', v') :: t => if k' =? k then (k, v) :: t else (k', v') :: put k v t
  end.

(* ---------- labels ---------- *)
Definition lab (s : st) (c : cid) : label := match assoc c (labels s) with Some l => l | None => -1 end.
(* "Pixel Axis i [c]" with c = 'xyz'[ndim-1-i]; the text is determined by (i, ndim-1-i) *)
Definition pixel_label (i ndim : Z) : label := 1000 + 10 * i + (ndim - 1 - i).
(* kind 0: IdentityCoordinates "World i"; kind 1: AffineCoordinates(labels=[xw,yw,zw][:n]) -> names[n-1-i].title() *)
Definition world_label (knd i ndim : Z) : label := if knd =? 0 then 2000 + i else 2100 + (ndim - 1 - i).

(* ---------- classes of components and lookup by name ---------- *)
Definition is_main (k : kind) := match k with KMain _ => true | _ => false end.
Definition is_derived (k : kind) := match k with KDerived _ => true | _ => false end.
Definition is_coord (k : kind) := match k with KCoord _ _ => true | _ => false end.
Definition class_ids (p : kind -> bool) (s : st) : list cid := keys (filter (fun ck => p (snd ck)) (comps s)).
Definition main_ids := class_ids is_main.
Definition derived_ids := class_ids is_derived.
Definition coord_ids := class_ids is_coord.
(* main > derived > coordinate > linked *)
Definition classes (s : st) : list (list cid) := [main_ids s; derived_ids s; coord_ids s; ext s].
Fixpoint find_in (cls : list (list cid)) (p : cid -> bool) : option cid :=
  match cls with
  | [] => None
  | c :: r => match filter p c with [] => find_in r p | [x] => Some x | _ => None end
  end.
Definition find_label (s : st) (l : label) : option cid := find_in (classes s) (fun c => lab s c =? l).
Definition find_cid (s : st) (c0 : cid) : option cid := find_in (classes s) (fun c => c =? c0).

Definition ndim (s : st) : Z := Z.of_nat (length (shape s)).
Definition cshape (s : st) (k : kind) : list Z := match k with KMain sh => sh | _ => shape s end.

(* ---------- the hub ---------- *)
Definition is_changed (m : msg) := match m with MChanged | MReplaced _ _ => true | _ => false end.
(* LinkManager.update_externally_derivable_components -> discover_links for one dataset whose only links are
   those of its derived components (the coordinate links lead from present ids to present ids): start from the
   stored and coordinate components and add a derived component when all its inputs have been reached.  In the
   middle of a removal cascade an input may already be gone, so this is a genuine fixpoint.
   Message iff the key set changed. *)
Definition from_of (k : kind) : list cid := match k with KDerived f => f | _ => [] end.
Fixpoint reach_fuel (n : nat) (cs : list (cid * kind)) (acc : list cid) : list cid :=
  match n with
  | O => acc
  | S n' =>
    let new := keys (filter (fun ck => is_derived (snd ck) && negb (memz (fst ck) acc) && subsetz (from_of (snd ck)) acc) cs) in
    match new with [] => acc | _ => reach_fuel n' cs (acc ++ new) end
  end.
Definition derivable (s : st) : list cid :=
  let base := keys (filter (fun ck => negb (is_derived (snd ck))) (comps s)) in
  let r := reach_fuel (length (comps s)) (comps s) base in
  filter (fun c => memz c r) (derived_ids s).
Definition sync (s : st) : st :=
  let new := derivable s in
  if (length (ext s) =? length new)%nat && subsetz new (ext s) then s
  else set_log (set_ext s new) (log s ++ [MExtDer]).
Definition deliver (m : msg) (s : st) : st :=
  let s1 := set_log s (log s ++ [m]) in
  match hub s with
  | InColl => if is_changed m then sync s1 else s1
  | _ => s1
  end.
Definition emit (m : msg) (s : st) : st :=
  match hub s with
  | NoHub => s
  | _ => match queue s with
         | Some q => set_queue s (Some (q ++ [m]))
         | None => deliver m s
         end
  end.
Definition pause (s : st) : st := match hub s with NoHub => s | _ => set_queue s (Some []) end.
Definition flush (s : st) : st :=
  match queue s with
  | Some q => fold_left (fun acc m => deliver m acc) q (set_queue s None)
  | None => s
  end.

(* ---------- remove_component with its recursive cascade ---------- *)
Definition depends_on (c : cid) (ck : cid * kind) : bool :=
  match snd ck with KDerived from => memz c from | _ => false end.
Fixpoint remove_fuel (n : nat) (c : cid) (s : st) : st :=
  match n with
  | O => if has_key c (comps s) then set_stuck s true else s
  | S n' =>
    if has_key c (comps s) then
      let s1 := set_comps s (del_key c (comps s)) in
      let deps := keys (filter (depends_on c) (comps s1)) in
      let s2 := fold_left (fun acc d => remove_fuel n' d acc) deps s1 in
      emit MChanged (emit (MRemove c) s2)
    else s
  end.
Definition remove_component (c : cid) (s : st) : st := remove_fuel (length (comps s)) c s.

(* ---------- add_component ---------- *)
Definition fresh (l : label) (s : st) : cid * st :=
  let c := next s in
  (c, set_parents (set_labels (set_next s (c + 1)) (put c l (labels s))) (c :: parents s)).
(* the tail of add_component: store, announce when the id is new *)
Definition add_core (c : cid) (k : kind) (s : st) : st :=
  let present := has_key c (comps s) in
  let s1 := set_comps s (put c k (comps s)) in
  if present then s1 else emit MChanged (emit (MAdd c) s1).

Fixpoint upto (n : nat) : list Z := match n with O => [] | S n' => upto n' ++ [Z.of_nat n'] end.

(* one pixel (w = false) or world (w = true) component: new id, stored, appended to its id list *)
Definition add_coord (w : bool) (lbl : Z -> label) (acc : st) (i : Z) : st :=
  let '(c, a1) := fresh (lbl i) acc in
  let a2 := add_core c (KCoord w i) a1 in
  if w then set_world a2 (world a2 ++ [c]) else set_pixel a2 (pixel a2 ++ [c]).

Definition create_pixels (nd : nat) (s : st) : st :=
  fold_left (add_coord false (fun i => pixel_label i (Z.of_nat nd))) (upto nd) s.

Definition setup_clinks (nd : nat) (s : st) : list (list cid * cid) :=
  flat_map (fun i => let p := nth (Z.to_nat i) (pixel s) (-1) in
                     let w := nth (Z.to_nat i) (world s) (-1) in
                     [([p], w); ([w], p)]) (upto nd).

(* Data._update_world_components(ndim), under hub.delay_callbacks() *)
Definition drop_world (acc : st) (c : cid) : st :=
  let a := remove_component c acc in set_world a (removez c (world a)).
Definition update_world (nd : nat) (s : st) : st :=
  let s0 := pause s in
  let s1 := fold_left drop_world (world s0) s0 in
  let s2 := set_clinks s1 [] in
  let s3 := match crd s2 with
            | None => s2
            | Some co =>
              let a := fold_left (add_coord true (fun i => world_label (co_kind co) i (Z.of_nat nd))) (upto nd) s2 in
              set_clinks a (setup_clinks nd a)
            end in
  flush s3.

Definition crd_ndim_ok (s : st) (nd : nat) : bool :=
  match crd s with None => true | Some co => co_ndim co =? Z.of_nat nd end.

(* what add_component does before storing a non-derived component of shape sh under a (possibly new) id *)
Definition add_checks (sh : list Z) (s : st) : result :=
  match sh with [] => RUnmodelled | _ =>   (* 0-d components are outside the modelled domain *)
  match comps s with
  | [] => match shape s with
          | [] => if crd_ndim_ok s (length sh) then ROk else RUnmodelled
          | _ => RErr RecursionError   (* re-creation of the pixel components recurses for ever *)
          end
  | _ => if eqlz sh (shape s) then ROk else RErr ValueError
  end end.
Definition first_component (sh : list Z) (s : st) : st :=
  match comps s with
  | [] => set_shape (update_world (length sh) (create_pixels (length sh) s)) sh
  | _ => s
  end.

Definition add_new (l : label) (sh : list Z) (s : st) : st * result :=
  match add_checks sh s with
  | ROk => let s1 := first_component sh s in
           let '(c, s2) := fresh l s1 in
           (add_core c (KMain sh) s2, ROk)
  | r => (s, r)
  end.

Definition add_at (c : cid) (sh : list Z) (s : st) : st * result :=
  match add_checks sh s with
  | ROk => let s0 := if memz c (parents s) then s else set_parents s (c :: parents s) in
           let s1 := first_component sh s0 in
           (add_core c (KMain sh) s1, ROk)
  | RErr RecursionError =>   (* the id has been adopted before the recursion starts *)
    ((if memz c (parents s) then s else set_parents s (c :: parents s)), RErr RecursionError)
  | r => (s, r)
  end.

Definition add_derived (l : label) (from : list cid) (s : st) : st * result :=
  if negb (subsetz from (keys (comps s))) then (s, RErr ValueError)
  else match comps s with
       | [] => (s, RErr TypeError)
       | _ => let '(c, s1) := fresh l s in (add_core c (KDerived from) s1, ROk)
       end.

(* ---------- reorder_components ---------- *)
Definition reorder (l : list cid) (s : st) : st * result :=
  if negb (length l =? length (comps s))%nat then (s, RErr ValueError)
  else if negb (same_set l (keys (comps s))) then (s, RErr ValueError)
  else if eqlz l (keys (comps s)) then (s, ROk)
  else let new := map (fun c => (c, match assoc c (comps s) with Some k => k | None => KMain [] end)) l in
       (emit (MReorder l) (set_comps s new), ROk).

(* ---------- update_id (with the F-C14a repair) ---------- *)
Definition used (c : cid) (s : st) : bool := has_key c (comps s) || memz c (pixel s) || memz c (world s).
Definition repl_kind (o n : cid) (k : kind) : kind :=
  match k with KDerived from => KDerived (replz o n from) | _ => k end.
Definition update_id (o n : cid) (s : st) : st * result :=
  if o =? n then (s, ROk)
  else if used o s && used n s then (s, RUnmodelled)
  else
    let s0 := if memz n (parents s) then s else set_parents s (n :: parents s) in
    if used o s0 then
      let s1 := set_comps s0 (map (fun ck => ((if fst ck =? o then n else fst ck), repl_kind o n (snd ck))) (comps s0)) in
      let s2 := set_world (set_pixel s1 (replz o n (pixel s1))) (replz o n (world s1)) in
      let s3 := set_clinks s2 (map (fun ft => (replz o n (fst ft), if snd ft =? o then n else snd ft)) (clinks s2)) in
      (emit (MReplaced o n) s3, ROk)
    else (s0, ROk).

(* ---------- ComponentID.label = l ---------- *)
Definition rename (c : cid) (l : label) (s : st) : st * result :=
  let s1 := set_labels s (put c l (labels s)) in
  ((if memz c (parents s) then emit (MRename c) s1 else s1), ROk).

(* ---------- Data.coords = v ---------- *)
Definition same_crd (a b : option coords) : bool :=
  match a, b with
  | None, None => true
  | Some x, Some y => co_id x =? co_id y
  | _, _ => false
  end.
(* new coordinates must have the dataset's dimension; and when a pixel component has been removed through the public API
   (known finding) the setter may empty the dataset half-way and then recurse for ever: not modelled *)
Definition coords_ok (v : option coords) (s : st) : bool :=
  match v with None => true | Some co => (co_ndim co =? ndim s) && subsetz (pixel s) (keys (comps s)) end.
Definition set_coords (v : option coords) (s : st) : st * result :=
  if same_crd (crd s) v then (s, ROk)
  else match comps s with
       | [] => (set_crd s v, ROk)
       | _ => if coords_ok v s then (update_world (length (shape s)) (set_crd s v), ROk) else (s, RUnmodelled)
       end.

(* ---------- update_components ---------- *)
Fixpoint update_comps_loop (l : list (cid * list Z)) (s : st) : st * result :=
  match l with
  | [] => (s, ROk)
  | (c, sh) :: t =>
    match assoc c (comps s) with
    | None =>
      (* get_component also resolves externally derivable ids (to a helper DerivedComponent, which is not a stored
         component: outside the domain, like any other non-stored component) *)
      if memz c (ext s) then (s, RUnmodelled) else (s, RErr IncompatibleAttribute)
    | Some k =>
      if negb (eqlz sh (shape s)) then (s, RErr ValueError)
      else if negb (is_main k) then (s, RUnmodelled)
      else update_comps_loop t (set_comps s (put c (KMain sh) (comps s)))
    end
  end.
Definition update_comps (l : list (cid * list Z)) (s : st) : st * result :=
  match update_comps_loop l s with
  | (s1, ROk) => (emit (MNumerical (Some (keys l))) s1, ROk)
  | (s1, RUnmodelled) => (s, RUnmodelled)
  | r => r
  end.

(* ---------- update_values_from_data ---------- *)
Record source := { src_shape : list Z; src_main : list label; src_crd : option coords; src_label : Z }.
Definition src_coord_labels (x : source) : list label :=
  let nd := length (src_shape x) in
  match src_main x, src_crd x with
  | [], _ => []      (* a dataset without components has no coordinate components either *)
  | _, None => map (fun i => pixel_label i (Z.of_nat nd)) (upto nd)
  | _, Some co => map (fun i => pixel_label i (Z.of_nat nd)) (upto nd)
                  ++ map (fun i => world_label (co_kind co) i (Z.of_nat nd)) (upto nd)
  end.
Definition src_ok (x : source) : bool :=
  match src_main x, src_crd x with
  | [], _ => true      (* a source without components: its coordinates object is only copied *)
  | _, None => true
  | _, Some co => co_ndim co =? Z.of_nat (length (src_shape x))
  end.

Definition update_from (x : source) (s : st) : st * result :=
  let old_labels := map (lab s) (keys (comps s)) in
  let new_labels := src_coord_labels x ++ src_main x in
  if has_dup old_labels then (s, RErr ValueError)
  else if has_dup new_labels then (s, RErr ValueError)
  else if negb (same_set (map (lab s) (coord_ids s)) (src_coord_labels x) && src_ok x
                && match src_main x, src_shape x with [], [] => true | _ :: _, _ :: _ => true | _, _ => false end
                && (length (src_shape x) =? length (shape s))%nat
                && match crd s, src_crd x with Some _, Some _ => true | None, None => true | _, _ => false end)
       then (s, RUnmodelled)
  else
    (* remove what has no match (the code iterates a set of names: order canonicalised to the component order) *)
    let gone := filter (fun c => negb (memz (lab s c) new_labels)) (keys (comps s)) in
    let s1 := fold_left (fun acc c => remove_component c acc) gone s in
    let s2 := set_shape s1 (src_shape x) in
    (* every remaining component has a match: stored arrays are replaced by the new ones *)
    let s3 := set_comps s2 (map (fun ck => (fst ck, match snd ck with KMain _ => KMain (src_shape x) | k => k end)) (comps s2)) in
    let s4 := fold_left (fun acc l => if memz l old_labels then acc
                                      else let '(c, a1) := fresh l acc in add_core c (KMain (src_shape x)) a1)
                        (src_main x) s3 in
    let s5 := if dlabel s4 =? src_label x then s4 else emit MLabel (set_dlabel s4 (src_label x)) in
    let s6 := fst (set_coords (src_crd x) s5) in
    (emit (MNumerical None) s6, ROk).

(* ---------- DataCollection.append / remove ---------- *)
Definition join (s : st) : st * result :=
  match hub s with
  | InColl => (s, ROk)
  | _ => let s1 := set_hub s InColl in (sync (set_log s1 (log s1 ++ [MCollAdd])), ROk)
  end.
Definition leave (s : st) : st * result :=
  match hub s with
  | InColl => let s1 := set_hub s HubOnly in (set_log s1 (log s1 ++ [MCollDel]), ROk)
  | _ => (s, ROk)
  end.

(* ---------- operations ---------- *)
Inductive op :=
| OAddNew (l : label) (sh : list Z)
| OAddAt (c : cid) (sh : list Z)
| OAddDerived (l : label) (from : list cid)
| ORemove (c : cid)
| OReorder (l : list cid)
| OUpdateId (o n : cid)
| ORename (c : cid) (l : label)
| OSetCoords (v : option coords)
| OUpdateComps (l : list (cid * list Z))
| OUpdateFrom (x : source)
| OJoin
| OLeave.

Definition step (o : op) (s0 : st) : st * result :=
  let s := set_log s0 [] in
  match o with
  | OAddNew l sh => add_new l sh s
  | OAddAt c sh => add_at c sh s
  | OAddDerived l from => add_derived l from s
  | ORemove c => (remove_component c s, ROk)
  | OReorder l => reorder l s
  | OUpdateId o n => update_id o n s
  | ORename c l => rename c l s
  | OSetCoords v => set_coords v s
  | OUpdateComps l => update_comps l s
  | OUpdateFrom x => update_from x s
  | OJoin => join s
  | OLeave => leave s
  end.

Definition run (ops : list op) (s : st) : st := fold_left (fun acc o => fst (step o acc)) ops s.

Definition init (m : mode) (c : option coords) (pool : list (cid * label)) (dl : Z) : st :=
  mkst [] [] [] [] c [] pool [] dl m [] 100 [] None false.


(* ---------- the same calls through the code REGENERATED from glue/core/data.py on every run
   (coq/gen/Gen_datamut.v: Data.remove_component, _removed_derived_that_depend_on, reorder_components, update_id,
   update_components), instantiated with this model's state ---------- *)
Definition cv_msg (m : Gen_datamut.dm_msg) : msg :=
  match m with
  | Gen_datamut.DataRemoveComponentMessage c => MRemove c
  | Gen_datamut.ComponentsChangedMessage => MChanged
  | Gen_datamut.DataAddComponentMessage c => MAdd c
  | Gen_datamut.ComponentReplacedMessage o n => MReplaced o n
  | Gen_datamut.DataReorderComponentMessage l => MReorder l
  | Gen_datamut.NumericalDataChangedMessage l => MNumerical (Some l)
  end.
Definition cv_exc (e : Gen_datamut.dm_exc) : pyerr :=
  match e with
  | Gen_datamut.DmValueError => ValueError
  | Gen_datamut.DmTypeError => TypeError
  | Gen_datamut.DmIncompatibleAttribute => IncompatibleAttribute
  end.
Definition cv_res (r : Gen_datamut.dm_result) : result :=
  match r with Gen_datamut.DmOk => ROk | Gen_datamut.DmRaise e => RErr (cv_exc e) end.
Definition env17 : Gen_datamut.dm_env st kind (cid * kind) (list Z) := {|
  Gen_datamut.dm_K_default := KMain [];
  Gen_datamut.dm_get_components := comps;
  Gen_datamut.dm_set_components := fun v s => set_comps s v;
  Gen_datamut.dm_get_pixel_component_ids := pixel;
  Gen_datamut.dm_set_pixel_component_ids := fun v s => set_pixel s v;
  Gen_datamut.dm_get_world_component_ids := world;
  Gen_datamut.dm_set_world_component_ids := fun v s => set_world s v;
  Gen_datamut.dm_get_shape := shape;
  Gen_datamut.dm_set_shape := fun v s => set_shape s v;
  Gen_datamut.dm_hub_is_none := fun s => match hub s with NoHub => true | _ => false end;
  Gen_datamut.dm_broadcast := fun m s => emit (cv_msg m) s;      (* the hub queues or delivers *)
  Gen_datamut.dm_clear_mask_caches := fun s => s;                (* the mask cache is not part of the structure *)
  Gen_datamut.dm_is_derived := is_derived;
  Gen_datamut.dm_link_from_ids := from_of;
  Gen_datamut.dm_comp_shape := cshape;
  Gen_datamut.dm_get_component := fun s c => Gen_datamut.dm_getitem (KMain []) (comps s) c;
  Gen_datamut.dm_resolve_component := fun s c => match assoc c (comps s) with Some k => Some (c, k) | None => None end;
  Gen_datamut.dm_set_data := fun h sh s => set_comps s (put (fst h) (KMain sh) (comps s));
  Gen_datamut.dm_data_shape := fun sh => sh;
  Gen_datamut.dm_parent_is_none := fun c s => negb (memz c (parents s));
  Gen_datamut.dm_set_parent := fun c s => set_parents s (c :: parents s);
  Gen_datamut.dm_map_links := fun f s =>
    set_clinks (set_comps s (map (fun ck => (fst ck, match snd ck with KDerived from => KDerived (fst (f (from, -1))) | k => k end)) (comps s)))
               (map f (clinks s));
  Gen_datamut.dm_out_of_fuel := fun c s => if has_key c (comps s) then set_stuck s true else s
|}.
Definition g_remove_component (c : cid) (s : st) : st := Gen_datamut.remove_component env17 (length (comps s)) c s.
Definition g_reorder (l : list cid) (s : st) : st * result :=
  let '(s1, r) := Gen_datamut.reorder_components env17 l s in (s1, cv_res r).
(* update_id onto an id already in use is outside the modelled domain (as in [update_id]) *)
Definition g_update_id (o n : cid) (s : st) : st * result :=
  if negb (o =? n) && used o s && used n s then (s, RUnmodelled) else (Gen_datamut.update_id env17 o n s, ROk).
(* update_components on a component that is not a stored array of this dataset is outside the modelled domain:
   [step_g] takes that decision from [update_comps] *)
Definition g_update_comps (l : list (cid * list Z)) (s : st) : st * result :=
  let '(s1, r) := Gen_datamut.update_components env17 l s in (s1, cv_res r).
Definition step_g (o : op) (s0 : st) : st * result :=
  let s := set_log s0 [] in
  match o with
  | ORemove c => (g_remove_component c s, ROk)
  | OReorder l => g_reorder l s
  | OUpdateId o n => g_update_id o n s
  | OUpdateComps l => match update_comps l s with
                      | (_, RUnmodelled) => (s, RUnmodelled)
                      | _ => g_update_comps l s
                      end
  | _ => step o s0
  end.
Definition run_g (ops : list op) (s : st) : st := fold_left (fun acc o => fst (step_g o acc)) ops s.

(* ---------- wire ---------- *)
Definition dec_crd (t : tree) : option coords :=
  match t with T 1 [T i _; T k _; T n _] => Some (Build_coords i k n) | _ => None end.
Definition dec_pairs (t : tree) : list (Z * list Z) :=
  map (fun k => (tag (kid 0 k), to_zs (kid 1 k))) (kids t).
Definition dec_op (t : tree) : option op :=
  match t with
  | T 1 [T l _; sh] => Some (OAddNew l (to_zs sh))
  | T 2 [T c _; sh] => Some (OAddAt c (to_zs sh))
  | T 3 [T l _; from] => Some (OAddDerived l (to_zs from))
  | T 4 [T c _] => Some (ORemove c)
  | T 5 [l] => Some (OReorder (to_zs l))
  | T 6 [T o _; T n _] => Some (OUpdateId o n)
  | T 7 [T c _; T l _] => Some (ORename c l)
  | T 8 [v] => Some (OSetCoords (dec_crd v))
  | T 9 [l] => Some (OUpdateComps (dec_pairs l))
  | T 10 [sh; mains; c; T dl _] => Some (OUpdateFrom (Build_source (to_zs sh) (to_zs mains) (dec_crd c) dl))
  | T 11 [] => Some OJoin
  | T 12 [] => Some OLeave
  | _ => None
  end.
Definition dec_mode (z : Z) : mode := if z =? 0 then NoHub else if z =? 1 then HubOnly else InColl.

Definition enc_optz (o : option Z) : tree := of_opt_z o.
Definition enc_msg (m : msg) : tree :=
  match m with
  | MAdd c => T 1 [leaf c]
  | MRemove c => T 2 [leaf c]
  | MChanged => T 3 []
  | MReplaced o n => T 4 [leaf o; leaf n]
  | MReorder l => T 5 [zs l]
  | MRename c => T 6 [leaf c]
  | MNumerical None => T 7 []
  | MNumerical (Some l) => T 7 [zs l]
  | MLabel => T 8 []
  | MExtDer => T 9 []
  | MCollAdd => T 10 []
  | MCollDel => T 11 []
  end.
Definition enc_kind (s : st) (ck : cid * kind) : tree :=
  match snd ck with
  | KMain sh => T 1 [leaf (fst ck); zs sh; zs []]
  | KDerived from => T 2 [leaf (fst ck); zs (shape s); zs from]
  | KCoord w a => T 3 [leaf (fst ck); zs (shape s); zs [of_bool w; a]]
  end.
Definition enc_result (r : result) : tree :=
  match r with
  | ROk => T 0 []
  | RErr ValueError => err 1
  | RErr TypeError => err 2
  | RErr IncompatibleAttribute => err 3
  | RErr RecursionError => err 5
  | RUnmodelled => err (-3)
  end.
Definition enc_state (finds : list label) (s : st) : tree :=
  T 0 [ zs (shape s);
        T 0 (map (enc_kind s) (comps s));
        zs (pixel s);
        zs (world s);
        enc_optz (option_map co_id (crd s));
        T 0 (map (fun ft => T 0 [zs (fst ft); leaf (snd ft)]) (clinks s));
        zs (map (lab s) (keys (comps s)));
        zs (ext s);
        T 0 (map (fun l => enc_optz (find_label s l)) finds);
        T 0 (map (fun c => enc_optz (find_cid s c)) (keys (comps s)));
        leaf (dlabel s);
        leaf (of_bool (stuck s)) ].

Fixpoint run_trace (gen : bool) (finds : list label) (ops : list tree) (s : st) : list tree :=
  match ops with
  | [] => []
  | t :: r =>
    match dec_op t with
    | None => [err (-2)]
    | Some o => let '(s1, res) := (if gen then step_g o s else step o s) in
                T 0 [enc_result res; T 0 (map enc_msg (log s1)); enc_state finds s1] :: run_trace gen finds r s1
    end
  end.

(* case = (1 mode coords pool finds dlabel ops) ; pool = ((cid label) ...) *)
Definition run_case (t : tree) : tree :=
  match t with
  | T 1 [T m _; c; pool; finds; T dl _; T _ ops] =>
    let s := init (dec_mode m) (dec_crd c) (map (fun k => (tag (kid 0 k), tag (kid 1 k))) (kids pool)) dl in
    T 0 (enc_state (to_zs finds) s :: run_trace false (to_zs finds) ops s)
  (* the same case with remove_component / reorder_components / update_id / update_components taken from the generated code *)
  | T 2 [T m _; c; pool; finds; T dl _; T _ ops] =>
    let s := init (dec_mode m) (dec_crd c) (map (fun k => (tag (kid 0 k), tag (kid 1 k))) (kids pool)) dl in
    T 0 (enc_state (to_zs finds) s :: run_trace true (to_zs finds) ops s)
  | _ => err (-2)
  end.
